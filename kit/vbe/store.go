// Package vbe is the harness backend: an in-memory backend.Backend that records
// every completed mutating operation (so that the state after any prefix of a run
// can be rebuilt: the crash-prefix replay), injects faults by operation index, and
// can be registered with global.Options.Backends under the scheme "vmem".
package vbe

import (
	"bytes"
	"context"
	"crypto/sha256"
	"errors"
	"fmt"
	"hash"
	"io"
	"sort"
	"sync"

	"github.com/restic/restic/internal/backend"
	"github.com/restic/restic/internal/backend/util"
)

// Key identifies a stored file.
type Key struct {
	Type backend.FileType
	Name string
}

func (k Key) String() string { return fmt.Sprintf("%v/%s", k.Type, k.Name) }

func keyOf(h backend.Handle) Key {
	if h.Type == backend.ConfigFile {
		return Key{Type: h.Type}
	}
	return Key{Type: h.Type, Name: h.Name}
}

// Op is one completed mutating operation.
type Op struct {
	Remove bool
	Key    Key
	Data   []byte // for saves
}

func (o Op) String() string {
	if o.Remove {
		return "remove " + o.Key.String()
	}
	return fmt.Sprintf("save %s (%d bytes)", o.Key, len(o.Data))
}

var (
	ErrNotFound = errors.New("vbe: not found")
	ErrTooSmall = errors.New("vbe: access beyond end of file")
	ErrInjected = errors.New("vbe: injected backend failure")
	ErrExists   = errors.New("vbe: file already exists")
)

// Faults decides what happens to operations. All indices count *attempted*
// mutating operations (Save/Remove) of the current recording, starting at 0.
type Faults struct {
	// FailFrom >= 0: every mutating operation with index >= FailFrom fails without effect
	// (the backend "goes away"); loads keep working unless FailLoadsToo.
	FailFrom     int
	FailLoadsToo bool
	// FailOnce: these mutating operation indices fail once without effect (a retry succeeds).
	FailOnce map[int]bool
	// FailAfterApply: these mutating operation indices are applied but report an error.
	FailAfterApply map[int]bool
	// CancelAt >= 0: call Cancel when the mutating operation with that index arrives (before it is applied).
	CancelAt int
	Cancel   func()
	// OnOp, if set, is called with the index before each mutating operation is applied.
	OnOp func(idx int, op Op)
}

// NoFaults is the neutral plan.
func NoFaults() Faults { return Faults{FailFrom: -1, CancelAt: -1} }

// Store is the in-memory backend.
type Store struct {
	mu     sync.Mutex
	files  map[Key][]byte
	base   map[Key][]byte // state when recording started
	log    []Op
	rec    bool
	nAttempt int
	faults Faults
	failedOnce map[int]bool

	Atomic      bool // HasAtomicReplace: Save over an existing file replaces it atomically
	Conns       uint
	loads       int64
	ReadOnlyErr bool // if set, every mutating operation is recorded in Violations instead of applied
	Violations  []Op
}

// New creates an empty store.
func New() *Store {
	return &Store{files: map[Key][]byte{}, faults: NoFaults(), Conns: 5, Atomic: true, failedOnce: map[int]bool{}}
}

// Clone copies the current state (not the log).
func (s *Store) Clone() *Store {
	s.mu.Lock()
	defer s.mu.Unlock()
	n := New()
	n.Atomic, n.Conns = s.Atomic, s.Conns
	for k, v := range s.files {
		n.files[k] = v // contents are never modified in place
	}
	return n
}

// StartRecording remembers the current state as base and clears the log and fault counters.
func (s *Store) StartRecording(f Faults) {
	s.mu.Lock()
	defer s.mu.Unlock()
	s.base = map[Key][]byte{}
	for k, v := range s.files {
		s.base[k] = v
	}
	s.log = nil
	s.rec = true
	s.nAttempt = 0
	s.faults = f
	s.failedOnce = map[int]bool{}
}

// StopRecording returns the log of completed mutating operations.
func (s *Store) StopRecording() []Op {
	s.mu.Lock()
	defer s.mu.Unlock()
	s.rec = false
	s.faults = NoFaults()
	return append([]Op(nil), s.log...)
}

// Log returns the operations recorded so far.
func (s *Store) Log() []Op {
	s.mu.Lock()
	defer s.mu.Unlock()
	return append([]Op(nil), s.log...)
}

// StateAt rebuilds the store as it was after the first k recorded operations.
func (s *Store) StateAt(k int) *Store {
	s.mu.Lock()
	defer s.mu.Unlock()
	n := New()
	n.Atomic, n.Conns = s.Atomic, s.Conns
	for key, v := range s.base {
		n.files[key] = v
	}
	for _, op := range s.log[:k] {
		if op.Remove {
			delete(n.files, op.Key)
		} else {
			n.files[op.Key] = op.Data
		}
	}
	return n
}

// Apply applies operations directly (used to explore alternative completion orders).
func (s *Store) Apply(ops []Op) {
	s.mu.Lock()
	defer s.mu.Unlock()
	for _, op := range ops {
		if op.Remove {
			delete(s.files, op.Key)
		} else {
			s.files[op.Key] = op.Data
		}
	}
}

// Files returns a snapshot of the content map (contents must not be modified).
func (s *Store) Files() map[Key][]byte {
	s.mu.Lock()
	defer s.mu.Unlock()
	m := make(map[Key][]byte, len(s.files))
	for k, v := range s.files {
		m[k] = v
	}
	return m
}

// Keys lists the files of one type, sorted.
func (s *Store) Keys(t backend.FileType) []string {
	s.mu.Lock()
	defer s.mu.Unlock()
	var out []string
	for k := range s.files {
		if k.Type == t {
			out = append(out, k.Name)
		}
	}
	sort.Strings(out)
	return out
}

// Get returns the content of a file.
func (s *Store) Get(t backend.FileType, name string) ([]byte, bool) {
	s.mu.Lock()
	defer s.mu.Unlock()
	if t == backend.ConfigFile {
		name = ""
	}
	b, ok := s.files[Key{t, name}]
	return b, ok
}

// Put sets a file directly (bypassing log and faults): corruption, crafted files.
func (s *Store) Put(t backend.FileType, name string, data []byte) {
	s.mu.Lock()
	defer s.mu.Unlock()
	if t == backend.ConfigFile {
		name = ""
	}
	s.files[Key{t, name}] = data
}

// Del removes a file directly.
func (s *Store) Del(t backend.FileType, name string) {
	s.mu.Lock()
	defer s.mu.Unlock()
	if t == backend.ConfigFile {
		name = ""
	}
	delete(s.files, Key{t, name})
}

// DropLocks removes all lock files: what `restic unlock` does once the process that
// wrote them is dead (locks of dead processes on the same host are stale).
func (s *Store) DropLocks() {
	s.mu.Lock()
	defer s.mu.Unlock()
	for k := range s.files {
		if k.Type == backend.LockFile {
			delete(s.files, k)
		}
	}
}

// Digest is a hash over the complete state (names and contents).
func (s *Store) Digest() string {
	s.mu.Lock()
	defer s.mu.Unlock()
	keys := make([]Key, 0, len(s.files))
	for k := range s.files {
		keys = append(keys, k)
	}
	sort.Slice(keys, func(i, j int) bool {
		if keys[i].Type != keys[j].Type {
			return keys[i].Type < keys[j].Type
		}
		return keys[i].Name < keys[j].Name
	})
	h := sha256.New()
	for _, k := range keys {
		fmt.Fprintf(h, "%d/%s:%d:", k.Type, k.Name, len(s.files[k]))
		h.Write(s.files[k])
	}
	return fmt.Sprintf("%x", h.Sum(nil))
}

// Equal compares two stores file by file and describes the first difference.
func (s *Store) Equal(o *Store) (bool, string) {
	a, b := s.Files(), o.Files()
	for k, v := range a {
		w, ok := b[k]
		if !ok {
			return false, "missing " + k.String()
		}
		if !bytes.Equal(v, w) {
			return false, "changed " + k.String()
		}
	}
	for k := range b {
		if _, ok := a[k]; !ok {
			return false, "added " + k.String()
		}
	}
	return true, ""
}

// ---- backend.Backend ----

func (s *Store) Properties() backend.Properties {
	return backend.Properties{Connections: s.Conns, HasAtomicReplace: s.Atomic}
}
func (s *Store) Hasher() hash.Hash { return nil }
func (s *Store) Close() error      { return nil }
func (s *Store) IsNotExist(err error) bool {
	return errors.Is(err, ErrNotFound)
}
func (s *Store) IsPermanentError(err error) bool {
	return errors.Is(err, ErrNotFound) || errors.Is(err, ErrTooSmall)
}
func (s *Store) Delete(ctx context.Context) error {
	s.mu.Lock()
	defer s.mu.Unlock()
	s.files = map[Key][]byte{}
	return nil
}
func (s *Store) Warmup(_ context.Context, _ []backend.Handle) ([]backend.Handle, error) {
	return []backend.Handle{}, nil
}
func (s *Store) WarmupWait(_ context.Context, _ []backend.Handle) error { return nil }

// mutate runs the fault plan for one attempted mutating operation; apply is called with the lock held.
func (s *Store) mutate(ctx context.Context, op Op, precheck func() error) error {
	s.mu.Lock()
	defer s.mu.Unlock()
	if err := ctx.Err(); err != nil {
		return err
	}
	if s.ReadOnlyErr {
		s.Violations = append(s.Violations, op)
		return ErrInjected
	}
	idx := s.nAttempt
	if s.rec {
		s.nAttempt++
		f := &s.faults
		if f.CancelAt >= 0 && idx == f.CancelAt && f.Cancel != nil {
			f.Cancel()
			return context.Canceled
		}
		if f.FailFrom >= 0 && idx >= f.FailFrom {
			return fmt.Errorf("%w (op %d: %v)", ErrInjected, idx, op)
		}
		if f.FailOnce[idx] && !s.failedOnce[idx] {
			s.failedOnce[idx] = true
			return fmt.Errorf("%w (once, op %d: %v)", ErrInjected, idx, op)
		}
	}
	if precheck != nil {
		if err := precheck(); err != nil {
			return err
		}
	}
	if s.rec && s.faults.OnOp != nil {
		s.faults.OnOp(idx, op)
	}
	if op.Remove {
		delete(s.files, op.Key)
	} else {
		s.files[op.Key] = op.Data
	}
	if s.rec {
		s.log = append(s.log, op)
		if s.faults.FailAfterApply[idx] {
			return fmt.Errorf("%w (after apply, op %d: %v)", ErrInjected, idx, op)
		}
	}
	return nil
}

func (s *Store) Save(ctx context.Context, h backend.Handle, rd backend.RewindReader) error {
	buf, err := io.ReadAll(rd)
	if err != nil {
		return err
	}
	if int64(len(buf)) != rd.Length() {
		return fmt.Errorf("vbe: wrote %d bytes instead of the expected %d bytes", len(buf), rd.Length())
	}
	k := keyOf(h)
	return s.mutate(ctx, Op{Key: k, Data: buf}, func() error {
		if _, ok := s.files[k]; ok && !s.Atomic {
			return ErrExists
		}
		return nil
	})
}

func (s *Store) Remove(ctx context.Context, h backend.Handle) error {
	k := keyOf(h)
	return s.mutate(ctx, Op{Remove: true, Key: k}, func() error {
		if _, ok := s.files[k]; !ok {
			return ErrNotFound
		}
		return nil
	})
}

func (s *Store) Load(ctx context.Context, h backend.Handle, length int, offset int64, fn func(rd io.Reader) error) error {
	return util.DefaultLoad(ctx, h, length, offset, s.openReader, fn)
}

func (s *Store) openReader(ctx context.Context, h backend.Handle, length int, offset int64) (io.ReadCloser, error) {
	s.mu.Lock()
	defer s.mu.Unlock()
	if s.rec && s.faults.FailLoadsToo && s.faults.FailFrom >= 0 && s.nAttempt >= s.faults.FailFrom {
		return nil, ErrInjected
	}
	buf, ok := s.files[keyOf(h)]
	if !ok {
		return nil, ErrNotFound
	}
	if offset+int64(length) > int64(len(buf)) {
		return nil, ErrTooSmall
	}
	buf = buf[offset:]
	if length > 0 {
		buf = buf[:length]
	}
	s.loads++
	return io.NopCloser(bytes.NewReader(buf)), ctx.Err()
}

func (s *Store) Stat(ctx context.Context, h backend.Handle) (backend.FileInfo, error) {
	s.mu.Lock()
	defer s.mu.Unlock()
	buf, ok := s.files[keyOf(h)]
	if !ok {
		return backend.FileInfo{}, ErrNotFound
	}
	return backend.FileInfo{Size: int64(len(buf)), Name: h.Name}, ctx.Err()
}

func (s *Store) List(ctx context.Context, t backend.FileType, fn func(backend.FileInfo) error) error {
	s.mu.Lock()
	var fis []backend.FileInfo
	for k, v := range s.files {
		if k.Type == t {
			fis = append(fis, backend.FileInfo{Name: k.Name, Size: int64(len(v))})
		}
	}
	s.mu.Unlock()
	sort.Slice(fis, func(i, j int) bool { return fis[i].Name < fis[j].Name })
	for _, fi := range fis {
		if ctx.Err() != nil {
			return ctx.Err()
		}
		if err := fn(fi); err != nil {
			return err
		}
	}
	return ctx.Err()
}
