package vbe

import (
	"context"
	"fmt"
	"net/http"
	"strings"
	"sync"

	"github.com/restic/restic/internal/backend"
	"github.com/restic/restic/internal/backend/location"
)

var (
	regMu    sync.Mutex
	registry = map[string]*Store{}
	regSeq   int
)

// Register makes s reachable as repository location "vmem:<name>".
func Register(name string, s *Store) string {
	regMu.Lock()
	defer regMu.Unlock()
	registry[name] = s
	return "vmem:" + name
}

// RegisterAuto registers s under a fresh name and returns the location string.
func RegisterAuto(s *Store) string {
	regMu.Lock()
	regSeq++
	name := fmt.Sprintf("auto%d", regSeq)
	registry[name] = s
	regMu.Unlock()
	return "vmem:" + name
}

// Unregister forgets a location ("vmem:<name>" or "<name>").
func Unregister(loc string) {
	regMu.Lock()
	delete(registry, strings.TrimPrefix(loc, "vmem:"))
	regMu.Unlock()
}

// Lookup returns the store of a location.
func Lookup(loc string) *Store {
	regMu.Lock()
	defer regMu.Unlock()
	return registry[strings.TrimPrefix(loc, "vmem:")]
}

type vmemConfig struct{ Name string }

// Factory is the location.Factory of scheme "vmem".
func Factory() location.Factory {
	return location.NewHTTPBackendFactory[vmemConfig, backend.Backend](
		"vmem",
		func(s string) (*vmemConfig, error) {
			return &vmemConfig{Name: strings.TrimPrefix(s, "vmem:")}, nil
		},
		location.NoPassword,
		func(_ context.Context, cfg vmemConfig, _ http.RoundTripper, _ func(string, ...any)) (backend.Backend, error) {
			regMu.Lock()
			defer regMu.Unlock()
			s := registry[cfg.Name]
			if s == nil {
				s = New()
				registry[cfg.Name] = s
			}
			return s, nil
		},
		func(_ context.Context, cfg vmemConfig, _ http.RoundTripper, _ func(string, ...any)) (backend.Backend, error) {
			regMu.Lock()
			defer regMu.Unlock()
			s := registry[cfg.Name]
			if s == nil {
				return nil, backend.ErrNoRepository
			}
			return s, nil
		},
	)
}
