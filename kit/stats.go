// Package verifkit is the core of the /verif harness. It is overlaid into the
// restic module as internal/verifkit and imports nothing from restic, so every
// package's in-package tests may use it.
package verifkit

import (
	"crypto/sha256"
	"encoding/binary"
	"encoding/json"
	"fmt"
	"os"
	"sort"
	"strconv"
	"sync"
	"testing"
	"time"
)

// Stats collects what a check run actually covered. One Stats per test function;
// it is flushed to $VERIF_STATS (a directory) as <test name>.json at cleanup time.
type Stats struct {
	mu        sync.Mutex
	prop      string
	name      string
	start     time.Time
	evals     int64
	nontriv   map[uint64]struct{}
	classes   map[string]int64
	samples   []any
	maxSample int
	known     map[string]knownHit
	notes     map[string]any
	flushed   bool
}

type knownHit struct {
	What  string `json:"what"`
	Count int64  `json:"count"`
}

type statsFile struct {
	Property    string              `json:"property"`
	Test        string              `json:"test"`
	Evaluations int64               `json:"evaluations"`
	Nontrivial  []uint64            `json:"nontrivial_hashes"`
	Classes     map[string]int64    `json:"classes"`
	Samples     []any               `json:"samples"`
	Known       map[string]knownHit `json:"known"`
	Notes       map[string]any      `json:"notes,omitempty"`
	WallS       float64             `json:"wall_s"`
}

// Begin creates the Stats of one test function and registers the flush.
func Begin(t testing.TB, prop string) *Stats {
	s := &Stats{
		prop: prop, name: t.Name(), start: time.Now(),
		nontriv: map[uint64]struct{}{}, classes: map[string]int64{},
		known: map[string]knownHit{}, notes: map[string]any{}, maxSample: 6,
	}
	t.Cleanup(s.Flush)
	return s
}

// Case counts one generated case. key is the canonical description of the case
// when it is non-trivial by the check's stated rule, "" otherwise; classes are
// histogram labels.
func (s *Stats) Case(key string, classes ...string) {
	s.mu.Lock()
	defer s.mu.Unlock()
	s.evals++
	if key != "" {
		h := sha256.Sum256([]byte(key))
		s.nontriv[binary.LittleEndian.Uint64(h[:8])] = struct{}{}
	}
	for _, c := range classes {
		s.classes[c]++
	}
}

// Evals adds n evaluations that are sub-steps of a case (e.g. crash prefixes).
func (s *Stats) Evals(n int) {
	s.mu.Lock()
	s.evals += int64(n)
	s.mu.Unlock()
}

// NonTrivial records an additional distinct non-trivial item without counting an evaluation.
func (s *Stats) NonTrivial(key string) {
	s.mu.Lock()
	h := sha256.Sum256([]byte(key))
	s.nontriv[binary.LittleEndian.Uint64(h[:8])] = struct{}{}
	s.mu.Unlock()
}

// Class increments histogram labels.
func (s *Stats) Class(classes ...string) {
	s.mu.Lock()
	for _, c := range classes {
		s.classes[c]++
	}
	s.mu.Unlock()
}

// ClassN adds n to one label.
func (s *Stats) ClassN(c string, n int) {
	s.mu.Lock()
	s.classes[c] += int64(n)
	s.mu.Unlock()
}

// Sample keeps a written-out case (first few, then every power-of-two-th evaluation).
func (s *Stats) Sample(v any) {
	s.mu.Lock()
	defer s.mu.Unlock()
	if len(s.samples) < s.maxSample {
		s.samples = append(s.samples, v)
		return
	}
	if s.evals&(s.evals-1) == 0 { // powers of two: spread over the run
		s.samples[int(s.evals%int64(s.maxSample))] = v
	}
}

// WantSample reports whether Sample would keep a value now (lets callers avoid
// building expensive descriptions).
func (s *Stats) WantSample() bool {
	s.mu.Lock()
	defer s.mu.Unlock()
	return len(s.samples) < s.maxSample || s.evals&(s.evals-1) == 0
}

// Note stores a free-form measured value in the evidence.
func (s *Stats) Note(k string, v any) {
	s.mu.Lock()
	s.notes[k] = v
	s.mu.Unlock()
}

// Flush writes the stats file. Safe to call more than once.
func (s *Stats) Flush() {
	s.mu.Lock()
	defer s.mu.Unlock()
	dir := os.Getenv("VERIF_STATS")
	if dir == "" {
		return
	}
	f := statsFile{Property: s.prop, Test: s.name, Evaluations: s.evals, Classes: s.classes,
		Samples: s.samples, Known: s.known, Notes: s.notes, WallS: time.Since(s.start).Seconds()}
	for h := range s.nontriv {
		f.Nontrivial = append(f.Nontrivial, h)
	}
	sort.Slice(f.Nontrivial, func(i, j int) bool { return f.Nontrivial[i] < f.Nontrivial[j] })
	buf, err := json.Marshal(f)
	if err != nil {
		// samples must be JSON-encodable; fall back to their %v form
		for i, smp := range f.Samples {
			f.Samples[i] = fmt.Sprintf("%+v", smp)
		}
		buf, _ = json.Marshal(f)
	}
	name := sanitize(s.name) + "-" + strconv.Itoa(Shard()) + ".json"
	tmp := dir + "/." + name + ".tmp"
	if err := os.WriteFile(tmp, buf, 0o644); err == nil {
		_ = os.Rename(tmp, dir+"/"+name)
	}
}

func sanitize(s string) string {
	b := []byte(s)
	for i, c := range b {
		if !(c >= 'a' && c <= 'z' || c >= 'A' && c <= 'Z' || c >= '0' && c <= '9' || c == '_' || c == '-') {
			b[i] = '_'
		}
	}
	return string(b)
}

// ---- run parameters handed down by the driver ----

// Tier is "quick" or "thorough".
func Tier() string {
	if os.Getenv("VERIF_TIER") == "thorough" {
		return "thorough"
	}
	return "quick"
}

// Scale picks a size by tier.
func Scale(quick, thorough int) int {
	if Tier() == "thorough" {
		return thorough
	}
	return quick
}

// Shard and Shards: this process is shard Shard() of Shards().
func Shard() int  { return envInt("VERIF_SHARD", 0) }
func Shards() int { return max(1, envInt("VERIF_SHARDS", 1)) }

// Seed is the driver's VERIF_SEED (for non-rapid deterministic choices only).
func Seed() int64 { return int64(envInt("VERIF_SEED", 1)) }

func envInt(k string, d int) int {
	if v, err := strconv.Atoi(os.Getenv(k)); err == nil {
		return v
	}
	return d
}

// ReplayFile is non-empty when the driver asks for the replay of a saved
// (non-rapid) case.
func ReplayFile() string { return os.Getenv("VERIF_REPLAY") }

// SaveReplay writes a failing case as JSON below $VERIF_REPLAY_DIR and prints
// the marker line the driver turns into "VIOLATION ... replay=<path>".
func SaveReplay(prop, name string, v any) string {
	dir := os.Getenv("VERIF_REPLAY_DIR")
	if dir == "" {
		dir = os.TempDir()
	}
	_ = os.MkdirAll(dir, 0o755)
	buf, err := json.MarshalIndent(v, "", " ")
	if err != nil {
		buf = []byte(fmt.Sprintf("%+v", v))
	}
	h := sha256.Sum256(buf)
	p := fmt.Sprintf("%s/%s-%s-%x.json", dir, prop, sanitize(name), h[:6])
	_ = os.WriteFile(p, buf, 0o644)
	fmt.Printf("VERIF-REPLAY: %s\n", p)
	return p
}

// LoadReplay decodes the replay file into v.
func LoadReplay(v any) error {
	buf, err := os.ReadFile(ReplayFile())
	if err != nil {
		return err
	}
	return json.Unmarshal(buf, v)
}
