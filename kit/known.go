package verifkit

import (
	"encoding/json"
	"os"
	"sync"
)

// KnownEntry is one line of /verif/known_findings.json (never written at run time).
type KnownEntry struct {
	Property string `json:"property"`
	Key      string `json:"key"`
	Status   string `json:"status"` // "known" | "fixed"
	Commit   string `json:"commit,omitempty"`
	What     string `json:"what"`
}

var (
	knownOnce sync.Once
	knownList []KnownEntry
)

func loadKnown() {
	knownOnce.Do(func() {
		p := os.Getenv("VERIF_KNOWN")
		if p == "" {
			return
		}
		buf, err := os.ReadFile(p)
		if err != nil {
			return
		}
		var f struct {
			Findings []KnownEntry `json:"findings"`
		}
		if json.Unmarshal(buf, &f) == nil {
			knownList = f.Findings
		}
	})
}

// Known reports whether the specific failing case identified by key is listed
// as a known (unrepaired) finding of this property, and counts the hit so that
// the driver prints the KNOWN-FINDING line. "fixed" entries suppress nothing.
func (s *Stats) Known(key string) bool {
	loadKnown()
	for _, e := range knownList {
		if e.Property == s.prop && e.Key == key && e.Status == "known" {
			s.mu.Lock()
			h := s.known[key]
			h.What = e.What
			h.Count++
			s.known[key] = h
			s.mu.Unlock()
			return true
		}
	}
	return false
}
