package checker

// Property C42, checker part: checker.Structure traverses DAGs of trees written into a real
// repository (sharing, nil/null/missing subtrees, undecodable trees, missing data blobs) and must
// end with errors for exactly the reachable defective trees - never with a crash. Includes the
// regression probe for the repaired panic on a hash-valid tree with a malformed node.

import (
	"bytes"
	"context"
	"encoding/json"
	"fmt"
	"sort"
	"strings"
	"testing"
	"time"

	"github.com/restic/restic/internal/data"
	"github.com/restic/restic/internal/repository"
	"github.com/restic/restic/internal/restic"
	"github.com/restic/restic/internal/verifkit"
	"pgregory.net/rapid"
)

type kNodeC42 struct {
	Kind  string `json:"kind"` // dir|dir-nil|dir-null|file|file-nil-content|bad-type|symlink
	Sub   int    `json:"sub,omitempty"`
	Blobs []int  `json:"blobs,omitempty"`
}

type kTreeC42 struct {
	Nodes   []kNodeC42 `json:"nodes"`
	Bad     string     `json:"bad,omitempty"` // garbage|malformed|truncated|no-nodes-key|nodes-null
	BadAt   int        `json:"bad_at,omitempty"`
	Missing bool       `json:"missing,omitempty"`
}

type kCaseC42 struct {
	Trees       []kTreeC42 `json:"trees"`
	Roots       []int      `json:"roots"`
	TrackUnused bool       `json:"track_unused"`
}

func blobStoredC42(b int) bool { return b%4 != 3 }
func blobDataC42(b int) []byte { return []byte(fmt.Sprintf("checker data blob %d C42", b)) }

func genCheckerCaseC42(t *rapid.T) *kCaseC42 {
	c := &kCaseC42{TrackUnused: rapid.Bool().Draw(t, "trackunused")}
	n := rapid.IntRange(1, 10).Draw(t, "ntrees")
	defectRate := rapid.SampledFrom([]int{0, 0, 5, 15}).Draw(t, "defectrate")
	for i := 0; i < n; i++ {
		tr := kTreeC42{}
		for j := rapid.IntRange(0, 5).Draw(t, "nnodes"); j > 0; j-- {
			k := rapid.IntRange(0, 99).Draw(t, "nodekind")
			nd := kNodeC42{Kind: "symlink"}
			switch {
			case k < 50 && i+1 < n:
				nd.Kind = "dir"
				nd.Sub = rapid.OneOf(rapid.IntRange(i+1, n-1), rapid.IntRange(i+1, min(i+2, n-1)), rapid.Just(n-1)).Draw(t, "sub")
			case k < 85:
				nd.Kind = "file"
				for x := rapid.IntRange(0, 3).Draw(t, "nblobs"); x > 0; x-- {
					b := rapid.IntRange(0, 7).Draw(t, "blob")
					if !blobStoredC42(b) && rapid.IntRange(0, 99).Draw(t, "missingblob") >= defectRate {
						b--
					}
					nd.Blobs = append(nd.Blobs, b)
				}
			case k < 95 && rapid.IntRange(0, 99).Draw(t, "defect") < 2*defectRate:
				nd.Kind = rapid.SampledFrom([]string{"dir-nil", "dir-null", "file-nil-content", "bad-type"}).Draw(t, "defectkind")
			}
			tr.Nodes = append(tr.Nodes, nd)
		}
		if i > 0 && rapid.IntRange(0, 99).Draw(t, "bad") < defectRate {
			if rapid.Bool().Draw(t, "missing") {
				tr.Missing = true
			} else {
				tr.Bad = rapid.SampledFrom([]string{"garbage", "malformed", "malformed", "truncated", "truncated-clean", "no-nodes-key", "nodes-null"}).Draw(t, "badkind")
				tr.BadAt = rapid.IntRange(0, len(tr.Nodes)).Draw(t, "badat")
			}
		}
		c.Trees = append(c.Trees, tr)
	}
	for r := rapid.IntRange(1, 3).Draw(t, "nroots"); r > 0; r-- {
		c.Roots = append(c.Roots, rapid.OneOf(rapid.Just(0), rapid.IntRange(0, n-1)).Draw(t, "root"))
	}
	return c
}

// visible lists the nodes a traversal gets to see: for a tree with a malformed node only the
// nodes in front of it.
func (c *kCaseC42) visible(i int) []kNodeC42 {
	tr := c.Trees[i]
	switch {
	case tr.Missing:
		return nil
	case tr.Bad == "malformed" || tr.Bad == "truncated" || tr.Bad == "truncated-clean":
		return tr.Nodes[:min(tr.BadAt, len(tr.Nodes))]
	case tr.Bad != "":
		return nil
	}
	return tr.Nodes
}

func (c *kCaseC42) defective(i int) bool {
	if c.Trees[i].Missing || c.Trees[i].Bad != "" {
		return true
	}
	for _, nd := range c.Trees[i].Nodes {
		switch nd.Kind {
		case "dir-nil", "dir-null", "file-nil-content", "bad-type":
			return true
		case "file":
			for _, b := range nd.Blobs {
				if !blobStoredC42(b) {
					return true
				}
			}
		}
	}
	return false
}

// writeC42 stores the case in repo and returns the tree IDs.
func writeC42(ctx context.Context, repo *repository.Repository, c *kCaseC42) ([]restic.ID, error) {
	ids := make([]restic.ID, len(c.Trees))
	err := repo.WithBlobUploader(ctx, func(ctx context.Context, up restic.BlobSaverWithAsync) error {
		for b := 0; b < 8; b++ {
			if blobStoredC42(b) {
				if _, _, _, err := up.SaveBlob(ctx, restic.DataBlob, blobDataC42(b), restic.ID{}, false); err != nil {
					return err
				}
			}
		}
		for i := len(c.Trees) - 1; i >= 0; i-- {
			tr := c.Trees[i]
			var nodes [][]byte
			for j, nd := range tr.Nodes {
				n := data.Node{Name: fmt.Sprintf("n%02d", j), Mode: 0o644, Type: data.NodeTypeSymlink, LinkTarget: "x"}
				switch nd.Kind {
				case "dir":
					n.Type, n.Subtree = data.NodeTypeDir, &ids[nd.Sub]
				case "dir-nil":
					n.Type = data.NodeTypeDir
				case "dir-null":
					n.Type, n.Subtree = data.NodeTypeDir, &restic.ID{}
				case "file":
					n.Type, n.Content = data.NodeTypeFile, restic.IDs{}
					for _, b := range nd.Blobs {
						n.Content = append(n.Content, restic.Hash(blobDataC42(b)))
					}
				case "file-nil-content":
					n.Type = data.NodeTypeFile
				case "bad-type":
					n.Type = "weird"
				}
				js, err := json.Marshal(n)
				if err != nil {
					return err
				}
				nodes = append(nodes, js)
			}
			list := func(ns [][]byte) string { return string(bytes.Join(ns, []byte(","))) }
			at := min(tr.BadAt, len(nodes))
			var buf []byte
			switch tr.Bad {
			case "":
				buf = []byte(`{"nodes":[` + list(nodes) + "]}\n")
			case "garbage":
				buf = []byte(fmt.Sprintf("this is not a tree %d", i))
			case "malformed":
				ns := append(append(append([][]byte{}, nodes[:at]...), []byte(`{"name":5}`)), nodes[at:]...)
				buf = []byte(`{"nodes":[` + list(ns) + "]}\n")
			case "truncated":
				buf = []byte(`{"nodes":[` + list(nodes[:at]) + fmt.Sprintf(`,{"name":"cut%d`, i))
			case "truncated-clean": // ends at a token boundary
				buf = []byte(`{"nodes":[` + list(nodes[:at]) + strings.Repeat(" ", i))
			case "no-nodes-key":
				buf = []byte(fmt.Sprintf(`{"foo":%d}`, i))
			case "nodes-null":
				buf = []byte(fmt.Sprintf(`{"bar":%d,"nodes":null}`, i))
			}
			if tr.Missing {
				ids[i] = restic.Hash([]byte(fmt.Sprintf("missing tree %d %s", i, buf)))
				continue
			}
			id, _, _, err := up.SaveBlob(ctx, restic.TreeBlob, buf, restic.ID{}, false)
			if err != nil {
				return err
			}
			ids[i] = id
		}
		return nil
	})
	if err != nil {
		return nil, err
	}
	for k, r := range c.Roots {
		sn, err := data.NewSnapshot([]string{"/c42"}, nil, "host", time.Unix(1700000000+int64(k), 0))
		if err != nil {
			return nil, err
		}
		sn.Tree = &ids[r]
		if _, err := data.SaveSnapshot(ctx, repo, sn); err != nil {
			return nil, err
		}
	}
	return ids, nil
}

// runStructureC42 returns the tree IDs reported (with multiplicity) and other errors.
func runStructureC42(ctx context.Context, repo *repository.Repository, trackUnused bool) (chkr *Checker, trees []string, other []error) {
	chkr = New(repo, trackUnused)
	if err := chkr.LoadSnapshots(ctx, &data.SnapshotFilter{}, nil); err != nil {
		return chkr, nil, []error{err}
	}
	errChan := make(chan error)
	go chkr.Structure(ctx, restic.NoopCounter, errChan)
	for err := range errChan {
		if te, ok := err.(*TreeError); ok {
			trees = append(trees, te.ID.String())
		} else {
			other = append(other, err)
		}
	}
	sort.Strings(trees)
	return chkr, trees, other
}

func TestVerifC42CheckerStructure(t *testing.T) {
	st := verifkit.Begin(t, "C42")
	rapid.Check(t, func(rt *rapid.T) {
		c := genCheckerCaseC42(rt)
		ctx := context.Background()
		repo, _ := repository.TestRepositoryWithBackend(t, nil, 1, repository.Options{})
		ids, err := writeC42(ctx, repo, c)
		if err != nil {
			rt.Fatalf("harness: %v", err)
		}
		// reference: reachable trees, the defective ones among them, referenced blobs
		reached := map[int]bool{}
		indeg := map[int]int{}
		stack := append([]int{}, c.Roots...)
		used := restic.NewBlobSet()
		for len(stack) > 0 {
			i := stack[len(stack)-1]
			stack = stack[:len(stack)-1]
			indeg[i]++
			if reached[i] {
				continue
			}
			reached[i] = true
			used.Insert(restic.BlobHandle{Type: restic.TreeBlob, ID: ids[i]})
			for _, nd := range c.visible(i) {
				switch nd.Kind {
				case "dir":
					stack = append(stack, nd.Sub)
				case "file":
					for _, b := range nd.Blobs {
						used.Insert(restic.BlobHandle{Type: restic.DataBlob, ID: restic.Hash(blobDataC42(b))})
					}
				}
			}
		}
		wantSet := map[string]bool{}
		shared := false
		classes := map[string]bool{}
		for i := range reached {
			if c.defective(i) {
				wantSet[ids[i].String()] = true
				switch {
				case c.Trees[i].Missing:
					classes["reached=missing"] = true
				case c.Trees[i].Bad != "":
					classes["reached="+c.Trees[i].Bad] = true
				default:
					classes["reached=defective-node"] = true
				}
			}
			shared = shared || indeg[i] > 1
		}
		var want []string
		for id := range wantSet {
			want = append(want, id)
		}
		sort.Strings(want)

		chkr, got, other := runStructureC42(ctx, repo, c.TrackUnused)
		js, _ := json.Marshal(c)
		key := ""
		if shared {
			key = string(js)
			classes["shared-subtree"] = true
		}
		if len(want) == 0 {
			classes["clean"] = true
		}
		labels := []string{}
		for k := range classes {
			labels = append(labels, "checker:"+k)
		}
		sort.Strings(labels)
		st.Case(key, labels...)

		if strings.Join(got, "\n") != strings.Join(want, "\n") {
			for _, tr := range c.Trees {
				// finding: JSON that ends early at a token boundary is taken for a complete tree
				if tr.Bad == "truncated-clean" && st.Known("C42:truncated-tree-json-accepted") {
					return
				}
			}
		}
		if len(other) > 0 {
			rt.Fatalf("Structure reported non-tree errors %v\ncase: %s", other, js)
		}
		if strings.Join(got, "\n") != strings.Join(want, "\n") {
			rt.Fatalf("Structure reported tree errors for\n  %v\nexpected exactly the reachable defective trees\n  %v\ncase: %s", got, want, js)
		}
		if c.TrackUnused {
			unused, err := chkr.UnusedBlobs(ctx)
			if err != nil {
				rt.Fatalf("UnusedBlobs: %v", err)
			}
			wantUnused := restic.NewBlobSet()
			for b := 0; b < 8; b++ {
				h := restic.BlobHandle{Type: restic.DataBlob, ID: restic.Hash(blobDataC42(b))}
				if blobStoredC42(b) && !used.Has(h) {
					wantUnused.Insert(h)
				}
			}
			for i, tr := range c.Trees {
				h := restic.BlobHandle{Type: restic.TreeBlob, ID: ids[i]}
				if !tr.Missing && !used.Has(h) {
					wantUnused.Insert(h)
				}
			}
			gotUnused := restic.NewBlobSet(unused...)
			if !gotUnused.Equals(wantUnused) {
				rt.Fatalf("UnusedBlobs after Structure = %v, reference says %v\ncase: %s", gotUnused, wantUnused, js)
			}
			st.Class("checker:unused-compared")
		}
	})
}

// The exact shape of the repaired defect (known_findings C42:streamtrees-panic-on-malformed-node)
// and close relatives, as root tree and as a shared subtree. A crash kills the test binary.
func TestVerifC42CheckerMalformedNodeRegression(t *testing.T) {
	st := verifkit.Begin(t, "C42")
	probes := []string{
		`{"nodes":[{"name":"a","type":"file","content":[]},{"name":5}]}`,
		`{"nodes":[{"name":5}]}`,
		`{"nodes":[{"name":"a","type":"file","content":[]},{"name":5},{"name":"b","type":"file","content":[]}]}`,
		`{"nodes":[{"name":"a","type":"file","content":[]},5]}`,
		`{"nodes":[{"name":"a","type":"file","content":[]},{"name":"\x"}]}`,
		`{"nodes":[{"name":"a","type":"file","content":[]}`,
		`{"nodes":[{"name":"d","type":"dir","subtree":"zz"}]}`,
		`{"nodes":{"name":"a"}}`,
		`{"nodes":[{"name":"a","type":"file","content":[]}]]`,
	}
	ctx := context.Background()
	for i, probe := range probes {
		for variant := 0; variant < 2; variant++ {
			repo, _ := repository.TestRepositoryWithBackend(t, nil, 1, repository.Options{})
			var root restic.ID
			err := repo.WithBlobUploader(ctx, func(ctx context.Context, up restic.BlobSaverWithAsync) error {
				bad, _, _, err := up.SaveBlob(ctx, restic.TreeBlob, []byte(probe), restic.ID{}, false)
				if err != nil || variant == 0 {
					root = bad
					return err
				}
				// two directories sharing the malformed tree, plus a sibling that is fine
				parent := fmt.Sprintf(`{"nodes":[{"name":"x","type":"dir","subtree":"%s"},{"name":"y","type":"dir","subtree":"%s"},{"name":"z","type":"file","content":[]}]}`, bad, bad)
				root, _, _, err = up.SaveBlob(ctx, restic.TreeBlob, []byte(parent), restic.ID{}, false)
				return err
			})
			if err != nil {
				t.Fatal(err)
			}
			sn, _ := data.NewSnapshot([]string{"/c42"}, nil, "host", time.Unix(1700000000, 0))
			sn.Tree = &root
			if _, err := data.SaveSnapshot(ctx, repo, sn); err != nil {
				t.Fatal(err)
			}
			_, got, other := runStructureC42(ctx, repo, variant == 1)
			st.Case(fmt.Sprintf("regression|%d|%d", i, variant), "checker:regression-probe")
			if len(got) == 0 && len(other) == 0 && strings.HasSuffix(probe, "[]}") && st.Known("C42:truncated-tree-json-accepted") {
				continue
			}
			if len(got) != 1 || len(other) != 0 {
				verifkit.SaveReplay("C42", "malformed-node", map[string]any{"probe": probe, "variant": variant})
				t.Errorf("probe %q variant %d: Structure reported tree errors %v and other errors %v, expected exactly one tree error", probe, variant, got, other)
			}
		}
	}
}
