package all

// Property C50: for every repository location that restic accepts, the form shown in
// messages and JSON output (location.StripPassword with the registry of all backends, as
// cmd/restic builds it) contains no password or secret from the location.
//
// Every generated password carries a unique marker. Oracle, for every location that
// location.Parse accepts: the displayed form contains neither the marker nor the
// password in raw, typed or escaped form, it still names the host and the path, and the
// call never panics.

import (
	"fmt"
	"net/url"
	"strings"
	"testing"

	"github.com/restic/restic/internal/backend/location"
	"github.com/restic/restic/internal/backend/rest"
	"github.com/restic/restic/internal/verifkit"
	"pgregory.net/rapid"
)

const markerC50 = "Zq7MARK3Rx"

// characters a password may contain; each is typed raw or percent-escaped
var pwSpecialsC50 = []rune{'@', ':', '/', '%', '?', '#', ' ', '+', '&', '=', '!', '$', '\'', '(', ')', '*', ',', ';', '~', '.', '-', '_', 'é', '"', '<', '>', '\\', '^', '`', '{', '|', '}', '[', ']', '\t', '€'}

type credC50 struct {
	typed      string // as typed into the location
	decoded    string // the secret it denotes
	hasSpecial bool
}

func pctEncodeC50(r rune) string {
	var b strings.Builder
	for _, c := range []byte(string(r)) {
		fmt.Fprintf(&b, "%%%02X", c)
	}
	return b.String()
}

func genSecretC50(t *rapid.T, withMarker bool) credC50 {
	var typed, dec strings.Builder
	var c credC50
	parts := rapid.IntRange(0, 4).Draw(t, "nspecial")
	markerAt := rapid.IntRange(0, parts).Draw(t, "markerAt")
	for i := 0; i <= parts; i++ {
		if i == markerAt && withMarker {
			typed.WriteString(markerC50)
			dec.WriteString(markerC50)
		}
		if i == parts {
			break
		}
		r := rapid.SampledFrom(pwSpecialsC50).Draw(t, "special")
		c.hasSpecial = true
		dec.WriteRune(r)
		switch rapid.IntRange(0, 2).Draw(t, "enc") {
		case 0:
			typed.WriteRune(r) // raw (may be invalid in a URL; then restic must reject or still hide it)
		case 1:
			typed.WriteString(pctEncodeC50(r))
		default:
			typed.WriteString(strings.ToLower(pctEncodeC50(r)))
		}
		if rapid.Bool().Draw(t, "filler") {
			f := rapid.StringMatching(`[a-z0-9]{1,3}`).Draw(t, "fill")
			typed.WriteString(f)
			dec.WriteString(f)
		}
	}
	c.typed, c.decoded = typed.String(), dec.String()
	return c
}

type urlPartsC50 struct {
	scheme, host, path string
	user               credC50
	pw                 credC50
	userinfo           string // "", "user@", "user:pw@", ":pw@", "user:@"
	hasPassword        bool
}

func genURLC50(t *rapid.T, schemes []string) (string, urlPartsC50) {
	var p urlPartsC50
	p.scheme = rapid.SampledFrom(schemes).Draw(t, "scheme")
	host := rapid.SampledFrom([]string{"example.com", "localhost", "10.0.0.1", "[::1]", "[2001:db8::7]", "h-1.internal", "xn--bcher-kva.example", "EXAMPLE.org"}).Draw(t, "host")
	port := rapid.SampledFrom([]string{"", "", ":8000", ":443", ":65535"}).Draw(t, "port")
	p.host = host + port
	p.path = rapid.SampledFrom([]string{"", "/", "/repo", "/repo/", "/a/b/c", "/user/" + "x", "/~u/r", "//double", "/sp%20ace", "/bucket/prefix", "/p@th/repo", "/a:b@c/d", "//srv/restic-repo", "/bucket/pre@fix:1", "/%40x/y"}).Draw(t, "path")
	query := rapid.SampledFrom([]string{"", "", "", "?x=1", "?a@b", "#frag", "?u:p@h", "#a@b"}).Draw(t, "query")
	switch rapid.IntRange(0, 9).Draw(t, "uikind") {
	case 0:
		p.userinfo = ""
	case 1:
		p.user = genSecretC50(t, false)
		if p.user.typed == "" {
			p.user = credC50{typed: "user", decoded: "user"}
		}
		p.userinfo = p.user.typed + "@"
	case 2:
		p.user = credC50{typed: "user", decoded: "user"}
		p.userinfo = "user:@"
	case 3:
		p.pw = genSecretC50(t, true)
		p.userinfo = ":" + p.pw.typed + "@"
		p.hasPassword = true
	default:
		if rapid.Bool().Draw(t, "plainUser") {
			p.user = credC50{typed: "user", decoded: "user"}
		} else {
			p.user = genSecretC50(t, false)
		}
		p.pw = genSecretC50(t, true)
		p.userinfo = p.user.typed + ":" + p.pw.typed + "@"
		p.hasPassword = true
	}
	return p.scheme + "://" + p.userinfo + p.host + p.path + query, p
}

// hostShownC50: the host is in the displayed form, literally or percent-encoded the way
// net/url prints a host.
func hostShownC50(shown, host string) bool {
	low := strings.ToLower(shown)
	enc := strings.TrimPrefix((&url.URL{Scheme: "x", Host: host}).String(), "x://")
	return strings.Contains(low, strings.ToLower(host)) || strings.Contains(low, strings.ToLower(enc))
}

// leaksC50 returns a description of how shown reveals the secret, or "".
func leaksC50(shown string, pw credC50) string {
	if strings.Contains(shown, markerC50) {
		return "contains the marker"
	}
	forms := map[string]string{
		"decoded password":        pw.decoded,
		"typed password":          pw.typed,
		"query-escaped password":  url.QueryEscape(pw.decoded),
		"path-escaped password":   url.PathEscape(pw.decoded),
		"userinfo-escaped secret": strings.TrimPrefix(url.UserPassword("", pw.decoded).String(), ":"),
	}
	for what, f := range forms {
		if len(f) >= 4 && strings.Contains(shown, f) {
			return "contains the " + what
		}
	}
	return ""
}

func stripNoPanicC50(t *rapid.T, reg *location.Registry, s string) (shown string, panicked any) {
	defer func() {
		if r := recover(); r != nil {
			panicked = r
		}
	}()
	return location.StripPassword(reg, s), nil
}

// ---------------------------------------------------------------------------

func TestVerifC50Rest(t *testing.T) {
	st := verifkit.Begin(t, "C50")
	reg := Backends()
	rapid.Check(t, func(t *rapid.T) {
		u, parts := genURLC50(t, []string{"http", "https", "HTTP", "https", "http"})
		s := "rest:" + u
		loc, err := location.Parse(reg, s)
		shown, panicked := stripNoPanicC50(t, reg, s)
		classes := []string{}
		if err != nil {
			// not an accepted location; the statement says nothing (display is still attempted by
			// restic for its error message, so a panic here is recorded)
			if panicked != nil {
				t.Fatalf("StripPassword(%q) panicked on a rejected rest location: %v", s, panicked)
			}
			st.Case("", "rest:rejected")
			return
		}
		if panicked != nil {
			t.Fatalf("StripPassword(%q) panicked: %v", s, panicked)
		}
		cfg := loc.Config.(*rest.Config)
		pw, set := cfg.URL.User.Password()
		key := ""
		switch {
		case parts.hasPassword && set && strings.Contains(pw, markerC50):
			classes = append(classes, "rest:password")
			if parts.pw.hasSpecial {
				classes = append(classes, "rest:password-with-special")
				key = "rest|" + s
			}
			if parts.user.hasSpecial {
				classes = append(classes, "rest:user-with-special")
			}
			if parts.user.typed == "" {
				classes = append(classes, "rest:empty-user")
			}
			// the secret is what the backend would send: pw; and what was typed
			secret := credC50{typed: parts.pw.typed, decoded: pw}
			if how := leaksC50(shown, secret); how != "" {
				t.Fatalf("location %q is displayed as %q, which %s", s, shown, how)
			}
		case parts.hasPassword:
			// the URL grammar put the typed secret somewhere else (e.g. a raw '/' or '?' ended the
			// authority): restic does not treat it as a password
			classes = append(classes, "rest:typed-secret-not-a-password-by-url-grammar")
		case set:
			classes = append(classes, "rest:empty-password")
		default:
			classes = append(classes, "rest:no-password")
			if strings.TrimSuffix(shown, "/") != strings.TrimSuffix(s, "/") {
				t.Fatalf("location %q without a password is displayed as %q", s, shown)
			}
		}
		// still names scheme, host and path: either nothing was changed (apart from the
		// trailing slash the rest backend always adds), or host and path are still there
		if !strings.HasPrefix(shown, "rest:") {
			t.Fatalf("location %q is displayed as %q (scheme lost)", s, shown)
		}
		if strings.TrimSuffix(shown, "/") != strings.TrimSuffix(s, "/") {
			classes = append(classes, "rest:display-differs-from-input")
			// either the displayed form parses to the same host and path, or (a user name
			// shown unescaped may prevent that) host and path are literally in it
			sameWhenParsed := false
			if c2, err2 := rest.ParseConfig(shown); err2 == nil {
				sameWhenParsed = c2.URL.Host == cfg.URL.Host && c2.URL.Path == cfg.URL.Path
			}
			if !sameWhenParsed {
				classes = append(classes, "rest:display-not-reparsable-to-same")
				if !hostShownC50(shown, cfg.URL.Host) {
					t.Fatalf("location %q is displayed as %q (host %q lost)", s, shown, cfg.URL.Host)
				}
				if !strings.Contains(shown, strings.TrimSuffix(cfg.URL.EscapedPath(), "/")) && !strings.Contains(shown, strings.TrimSuffix(cfg.URL.Path, "/")) {
					t.Fatalf("location %q is displayed as %q (path %q lost)", s, shown, cfg.URL.Path)
				}
			}
		}
		st.Case(key, classes...)
		if st.WantSample() {
			st.Sample(map[string]any{"location": s, "shown": shown})
		}
	})
}

// regression probes: the exact shapes that used to be displayed verbatim (repaired by
// "fix: do not display passwords embedded in sftp:// and s3:http(s):// repository URLs")
var regressionC50 = []struct{ loc, scheme, host, path string }{
	{"sftp://user:" + markerC50 + "@example.com/repo", "sftp", "example.com", "/repo"},
	{"sftp://user:%409rk" + markerC50 + "@[::1]:2222//srv/repo", "sftp", "[::1]:2222", "//srv/repo"},
	{"sftp://:" + markerC50 + "@host/dir", "sftp", "host", "/dir"},
	{"s3:http://key:" + markerC50 + "@localhost:9000/restic", "s3", "localhost:9000", "/restic"},
	{"s3:https://key:" + markerC50 + "@server:8443/bucket_name", "s3", "server:8443", "/bucket_name"},
	{"s3:https://%3anuw%3c%40:%409rk" + markerC50 + "@[::1]:8000//double#frag", "s3", "[::1]:8000", "//double"},
	{"rest:https://user:" + markerC50 + "@host:8000/my_backup_repo/", "rest", "host:8000", "/my_backup_repo/"},
}

// urlPartOfC50 returns the part of an accepted location that the backend parses as a URL.
func urlPartOfC50(scheme, s string) (prefix, u string, ok bool) {
	switch {
	case scheme == "sftp" && strings.HasPrefix(s, "sftp://"):
		return "", s, true
	case scheme == "s3" && strings.HasPrefix(s, "s3:http"):
		return "s3:", s[3:], true
	case scheme == "rest" && strings.HasPrefix(s, "rest:"):
		return "rest:", s[5:], true
	}
	return "", "", false
}

// sameTargetC50: shown still names the host and path of s (re-parsed, or literally).
func sameTargetC50(scheme, s, shown string) string {
	pfx, us, ok := urlPartOfC50(scheme, s)
	if !ok {
		return ""
	}
	if !strings.HasPrefix(shown, pfx) {
		return "the scheme prefix is lost"
	}
	orig, err := url.Parse(us)
	if err != nil {
		return ""
	}
	if _, ush, ok2 := urlPartOfC50(scheme, shown); ok2 {
		if again, err2 := url.Parse(ush); err2 == nil && again.Host == orig.Host && strings.TrimSuffix(again.Path, "/") == strings.TrimSuffix(orig.Path, "/") {
			return ""
		}
	}
	if !hostShownC50(shown, orig.Host) {
		return fmt.Sprintf("host %q is lost", orig.Host)
	}
	if !strings.Contains(shown, strings.TrimSuffix(orig.EscapedPath(), "/")) && !strings.Contains(shown, strings.TrimSuffix(orig.Path, "/")) {
		return fmt.Sprintf("path %q is lost", orig.Path)
	}
	return ""
}

// Other schemes: URL forms with user info where the scheme's parser accepts them, and the
// documented forms without credentials.
func TestVerifC50OtherSchemes(t *testing.T) {
	st := verifkit.Begin(t, "C50")
	reg := Backends()

	for _, c := range regressionC50 {
		loc, err := location.Parse(reg, c.loc)
		if err != nil || loc.Scheme != c.scheme {
			t.Fatalf("regression: location %q is no longer accepted as %s: %v", c.loc, c.scheme, err)
		}
		shown := location.StripPassword(reg, c.loc)
		if strings.Contains(shown, markerC50) || !strings.Contains(shown, c.host) || !strings.Contains(shown, strings.TrimSuffix(c.path, "/")) || !strings.HasPrefix(shown, c.scheme+":") {
			verifkit.SaveReplay("C50", "regression", map[string]string{"location": c.loc, "shown": shown})
			t.Fatalf("regression: location %q is displayed as %q (must hide the password and keep %s%s)", c.loc, shown, c.host, c.path)
		}
	}

	documented := []string{
		"sftp:user@host:/srv/restic-repo", "sftp://user@[::1]:2222//srv/restic-repo", "sftp:foo:/srv/restic-repo", "sftp://host/dir", "sftp://user@host:22/dir@x",
		"s3:s3.us-east-1.amazonaws.com/bucket_name", "s3:s3.us-east-1.amazonaws.com/bucket_name/restic", "s3:http://localhost:9000/restic", "s3:https://server:8443/bucket_name", "s3://host/bucket", "s3:https://user@host/bucket",
		"swift:container_name:/path", "b2:bucketname:path/to/repo", "b2:bucketname", "azure:foo:/", "azure:container:/prefix", "gs:foo:/", "gs:bucket:/prefix",
		"rclone:foo:bar", "rclone:b2prod:yggdrasil/foo/bar/baz", "local:/srv/restic-repo", "/srv/restic-repo", "../repo", "repo", "local:rel/dir",
		"rest:http://host:8000/", "rest:https://user@host:8000/my_backup_repo/",
	}
	rapid.Check(t, func(t *rapid.T) {
		var s string
		var parts urlPartsC50
		kind := rapid.SampledFrom([]string{"sftp-url", "s3-url", "sftp-url", "s3-url", "sftp-url", "s3-url", "documented", "junk", "nonurl-userinfo"}).Draw(t, "kind")
		switch kind {
		case "sftp-url":
			u, p := genURLC50(t, []string{"sftp"})
			s, parts = u, p
		case "s3-url":
			u, p := genURLC50(t, []string{"http", "https", "https", "http"})
			s, parts = "s3:"+u, p
		case "documented":
			s = rapid.SampledFrom(documented).Draw(t, "doc")
		case "nonurl-userinfo":
			// forms that are not parsed as URLs by the backend: a typed "user:secret@" is not a
			// password by the scheme's grammar (it ends up in the endpoint / host / path)
			pw := genSecretC50(t, true)
			s = rapid.SampledFrom([]string{"s3://key:%s@host/bucket", "s3:key:%s@host/bucket", "sftp:user:%s@host:/dir", "b2:bucket:%s@x", "rclone:remote:%s@x", "local:/srv/%s@x"}).Draw(t, "nonurl")
			s = strings.Replace(s, "%s", pw.typed, 1)
		default:
			scheme := rapid.SampledFrom([]string{"sftp", "s3", "swift", "b2", "azure", "gs", "rclone", "local", "rest", "mem", "REST", ""}).Draw(t, "jscheme")
			s = scheme + rapid.SampledFrom([]string{"", ":", "::", ":/", "://", ":a", ":a:b", "://@", ":@:", ":%", ":http://[", ":http://%zz@h/", "://:@", ":http://:@/", "://u:p@", ":http://u:p@"}).Draw(t, "jrest")
		}
		loc, err := location.Parse(reg, s)
		shown, panicked := stripNoPanicC50(t, reg, s)
		if err != nil {
			cls := "other:rejected"
			if panicked != nil {
				// outside the statement (the location is not accepted); recorded, not failed
				cls = "other:rejected-and-display-panics"
				st.Note("display_panics_on_rejected_location", s)
			}
			st.Case("", cls)
			return
		}
		if panicked != nil {
			t.Fatalf("StripPassword(%q) panicked on an accepted location: %v", s, panicked)
		}
		classes := []string{"other:accepted-" + loc.Scheme}
		key := ""
		if kind == "nonurl-userinfo" {
			cls := "other:nonurl-form-typed-secret-hidden"
			if strings.Contains(shown, markerC50) {
				cls = "other:nonurl-form-typed-secret-shown(not-a-password-by-the-scheme-grammar)"
			}
			st.Case("", append(classes, cls)...)
			return
		}
		// does the URL grammar (the parser the backend uses) see the typed secret as the
		// user-info password?
		isPassword, pwSet := false, false
		if _, us, ok := urlPartOfC50(loc.Scheme, s); ok {
			if pu, perr := url.Parse(us); perr == nil && pu.User != nil {
				var pw string
				pw, pwSet = pu.User.Password()
				if parts.hasPassword && pwSet && strings.Contains(pw, markerC50) {
					isPassword = true
					parts.pw.decoded = pw
				}
			}
		}
		switch {
		case isPassword:
			classes = append(classes, "other:url-password-"+loc.Scheme)
			if parts.pw.hasSpecial {
				classes = append(classes, "other:url-password-with-special-"+loc.Scheme)
				key = "other|" + s
			}
			if parts.user.typed == "" {
				classes = append(classes, "other:empty-user-"+loc.Scheme)
			}
			if how := leaksC50(shown, parts.pw); how != "" {
				t.Fatalf("location %q (scheme %s) is accepted and displayed as %q, which %s", s, loc.Scheme, shown, how)
			}
			if msg := sameTargetC50(loc.Scheme, s, shown); msg != "" {
				t.Fatalf("location %q is displayed as %q: %s", s, shown, msg)
			}
		case parts.hasPassword:
			classes = append(classes, "other:typed-secret-not-a-password-by-url-grammar")
			if msg := sameTargetC50(loc.Scheme, s, shown); msg != "" {
				t.Fatalf("location %q is displayed as %q: %s", s, shown, msg)
			}
		case pwSet:
			// "user:@host": an empty password may be shown as it is or masked
			classes = append(classes, "other:empty-password")
			if msg := sameTargetC50(loc.Scheme, s, shown); msg != "" {
				t.Fatalf("location %q is displayed as %q: %s", s, shown, msg)
			}
		default:
			// no credentials: the location is shown as it is
			if shown != s && !(loc.Scheme == "rest" && shown == s+"/") {
				t.Fatalf("location %q without credentials is displayed as %q", s, shown)
			}
		}
		st.Case(key, classes...)
		if st.WantSample() {
			st.Sample(map[string]any{"location": s, "shown": shown, "scheme": loc.Scheme})
		}
	})
}
