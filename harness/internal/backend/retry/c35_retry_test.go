package retry

// C35: retried backend operations return correct results or fail.
//
// A fault-injecting in-memory backend (fbeC35) sits below the production retry.Backend.
// Every underlying call consumes the next entry of a rapid-drawn fault script (fail before,
// fail after partial data, fail after the operation took effect, failing consumer, mid-listing
// failure with re-delivery in another order, transient / permanent / backoff.Permanent /
// not-exist classification, attempts that take virtual time, cancellation). The whole case
// runs inside a testing/synctest bubble, so the production exponential back-off (1s, x2,
// cap 60s, +-50% jitter) and the 15-minute budget elapse in virtual time.
//
// Oracle: differential against what a fault-free backend does on the same pre-state, plus
// rules over the log of underlying attempts (see checkOpC35).

import (
	"bytes"
	"context"
	"errors"
	"fmt"
	"hash"
	"io"
	"math/rand/v2"
	"sort"
	"strings"
	"testing"
	"testing/synctest"
	"time"

	"github.com/cenkalti/backoff/v4"
	"github.com/restic/restic/internal/backend"
	"github.com/restic/restic/internal/feature"
	"github.com/restic/restic/internal/verifkit"
	"pgregory.net/rapid"
)

// ---------- scenario description (all drawn by rapid before the bubble starts) ----------

type fkindC35 uint8

const (
	fkNoneC35     fkindC35 = iota // natural behaviour of the backend
	fkBeforeC35                   // error before anything happened
	fkPartialC35                  // Save: n bytes consumed (non-atomic: left under the final name); Load: n bytes then read error; List: n entries then error
	fkAfterC35                    // the operation took full effect, then an error is reported
	fkConsumerC35                 // Load only: the backend is fine, the caller's consumer rejects the data
)

func (k fkindC35) String() string {
	return [...]string{"none", "before", "partial", "after", "consumer"}[k]
}

type eclsC35 uint8

const (
	ecTransientC35   eclsC35 = iota
	ecPermanentC35           // IsPermanentError(err) == true
	ecBackoffPermC35         // wrapped with backoff.Permanent
)

func (c eclsC35) String() string { return [...]string{"T", "P", "BP"}[c] }

type faultC35 struct {
	Kind     fkindC35
	Cls      eclsC35
	Permille int           // partial amount
	Dur      time.Duration // virtual time the attempt takes
	PermSeed uint64        // List delivery order
}

func (f faultC35) String() string {
	return fmt.Sprintf("%v/%v/%d/%v", f.Kind, f.Cls, f.Permille, f.Dur)
}

type opKindC35 uint8

const (
	opSaveC35 opKindC35 = iota
	opLoadC35
	opStatC35
	opRemoveC35
	opListC35
)

func (k opKindC35) String() string { return [...]string{"save", "load", "stat", "remove", "list"}[k] }

type opC35 struct {
	Kind       opKindC35
	H          backend.Handle
	DataSeed   uint64
	DataLen    int
	Length     int
	Offset     int64
	Script     []faultC35
	TailRepeat bool       // after the script is used up: repeat its last entry forever (else: natural behaviour)
	RmScript   []faultC35 // faults for the cleanup Removes of a non-atomic Save
	CancelAt   time.Duration
	HasCancel  bool
	HonorCtx   bool          // the backend aborts on a cancelled context
	FnErrAt    int           // List: fn returns an error on its FnErrAt-th call (-1: never)
	GapBefore  time.Duration // virtual pause before the operation
}

type caseC35 struct {
	Atomic  bool
	Flaky   bool
	Budget  time.Duration
	Initial []fileC35
	Ops     []opC35
}

type fileC35 struct {
	T    backend.FileType
	Name string
	Seed uint64
	Len  int
}

func bytesC35(seed uint64, n int) []byte {
	r := rand.New(rand.NewPCG(seed, 35))
	b := make([]byte, n)
	for i := range b {
		b[i] = byte(r.Uint32())
	}
	return b
}

var namesC35 = []string{"aa", "bb", "cc", "dd"}
var typesC35 = []backend.FileType{backend.PackFile, backend.SnapshotFile, backend.IndexFile, backend.LockFile, backend.KeyFile}

func genFaultC35(t *rapid.T, kind opKindC35) faultC35 {
	f := faultC35{}
	kinds := []fkindC35{fkBeforeC35, fkBeforeC35, fkPartialC35, fkPartialC35, fkAfterC35, fkNoneC35}
	if kind == opLoadC35 {
		kinds = append(kinds, fkConsumerC35)
	}
	f.Kind = rapid.SampledFrom(kinds).Draw(t, "fkind")
	f.Cls = rapid.SampledFrom([]eclsC35{ecTransientC35, ecTransientC35, ecTransientC35, ecTransientC35, ecPermanentC35, ecBackoffPermC35}).Draw(t, "fcls")
	f.Permille = rapid.SampledFrom([]int{0, 1, 250, 500, 999, 1000}).Draw(t, "permille")
	f.Dur = rapid.SampledFrom([]time.Duration{0, 0, 0, 0, 3 * time.Millisecond, 2 * time.Second, 50 * time.Second, 4 * time.Minute, 16 * time.Minute}).Draw(t, "dur")
	f.PermSeed = rapid.Uint64Range(0, 7).Draw(t, "perm")
	return f
}

func genScriptC35(t *rapid.T, kind opKindC35) ([]faultC35, bool) {
	shape := rapid.IntRange(0, 9).Draw(t, "shape")
	var n int
	tail := false
	switch {
	case shape == 0:
		n = 0
	case shape <= 5:
		n = rapid.IntRange(1, 4).Draw(t, "nfault")
	case shape <= 7:
		n = rapid.IntRange(5, 16).Draw(t, "nfault")
	default: // beyond the budget: the last fault repeats forever
		n = rapid.IntRange(1, 3).Draw(t, "nfault")
		tail = true
	}
	s := make([]faultC35, n)
	for i := range s {
		s[i] = genFaultC35(t, kind)
		if n >= 5 || tail {
			// long scripts are about the budget: mostly transient, so that they are not cut short
			if rapid.IntRange(0, 9).Draw(t, "keepcls") > 0 {
				s[i].Cls = ecTransientC35
			}
			if s[i].Kind == fkNoneC35 {
				s[i].Kind = fkBeforeC35
			}
		}
	}
	if tail && s[n-1].Kind == fkNoneC35 {
		s[n-1].Kind = fkBeforeC35
	}
	return s, tail
}

func genCaseC35(t *rapid.T) caseC35 {
	c := caseC35{
		Atomic: rapid.Bool().Draw(t, "atomic"),
		Flaky:  rapid.IntRange(0, 3).Draw(t, "flaky") == 0,
		Budget: rapid.SampledFrom([]time.Duration{15 * time.Minute, 15 * time.Minute, 15 * time.Minute, time.Minute, 5 * time.Second, 300 * time.Millisecond}).Draw(t, "budget"),
	}
	nf := rapid.IntRange(0, 6).Draw(t, "nfiles")
	seen := map[string]bool{}
	for i := 0; i < nf; i++ {
		f := fileC35{
			T:    rapid.SampledFrom(typesC35).Draw(t, "ft"),
			Name: rapid.SampledFrom(namesC35).Draw(t, "fname"),
			Seed: rapid.Uint64Range(0, 1<<20).Draw(t, "fseed"),
			Len:  rapid.SampledFrom([]int{0, 1, 7, 100, 1000}).Draw(t, "flen"),
		}
		k := fmt.Sprint(f.T, "/", f.Name)
		if seen[k] {
			continue
		}
		seen[k] = true
		c.Initial = append(c.Initial, f)
	}
	nops := rapid.IntRange(1, 3).Draw(t, "nops")
	for i := 0; i < nops; i++ {
		op := opC35{FnErrAt: -1}
		op.Kind = rapid.SampledFrom([]opKindC35{opSaveC35, opSaveC35, opLoadC35, opLoadC35, opStatC35, opRemoveC35, opListC35, opListC35}).Draw(t, "op")
		op.H = backend.Handle{Type: rapid.SampledFrom(typesC35).Draw(t, "ht"), Name: rapid.SampledFrom(namesC35).Draw(t, "hname")}
		if len(c.Initial) > 0 && rapid.IntRange(0, 3).Draw(t, "useexisting") > 0 {
			f := c.Initial[rapid.IntRange(0, len(c.Initial)-1).Draw(t, "existing")]
			op.H = backend.Handle{Type: f.T, Name: f.Name}
		}
		op.H.IsMetadata = rapid.Bool().Draw(t, "meta")
		switch op.Kind {
		case opSaveC35:
			op.DataSeed = rapid.Uint64Range(1<<21, 1<<22).Draw(t, "dseed")
			op.DataLen = rapid.SampledFrom([]int{0, 1, 2, 64, 1000, 5000}).Draw(t, "dlen")
		case opLoadC35:
			op.Length = rapid.SampledFrom([]int{0, 0, 1, 5, 100, 1000, 1001}).Draw(t, "length")
			op.Offset = int64(rapid.SampledFrom([]int{0, 0, 1, 6, 99, 1000}).Draw(t, "offset"))
		case opListC35:
			if rapid.IntRange(0, 4).Draw(t, "fnerr") == 0 {
				op.FnErrAt = rapid.IntRange(0, 3).Draw(t, "fnerrat")
			}
		}
		op.Script, op.TailRepeat = genScriptC35(t, op.Kind)
		if op.Kind == opSaveC35 {
			nrm := rapid.SampledFrom([]int{0, 0, 0, 1, 2}).Draw(t, "nrm")
			for j := 0; j < nrm; j++ {
				f := genFaultC35(t, opRemoveC35)
				if f.Kind == fkPartialC35 {
					f.Kind = fkBeforeC35
				}
				op.RmScript = append(op.RmScript, f)
			}
		}
		switch rapid.IntRange(0, 9).Draw(t, "cancel") {
		case 0:
			op.HasCancel, op.CancelAt = true, 0 // cancelled before the call
		case 1, 2:
			op.HasCancel = true
			// odd nanoseconds: never coincides with an attempt boundary (those are multiples of 1ms plus jitter)
			op.CancelAt = rapid.SampledFrom([]time.Duration{time.Millisecond, 700 * time.Millisecond, 2 * time.Second, 40 * time.Second, 5 * time.Minute, 14 * time.Minute}).Draw(t, "cancelat") + 7
		}
		op.HonorCtx = rapid.Bool().Draw(t, "honorctx")
		op.GapBefore = rapid.SampledFrom([]time.Duration{0, 0, time.Second, 10 * time.Minute, 61 * time.Minute}).Draw(t, "gap")
		c.Ops = append(c.Ops, op)
	}
	return c
}

// ---------- the fault-injecting backend ----------

type injErrC35 struct {
	id       int
	perm     bool
	notExist bool
	what     string
}

func (e *injErrC35) Error() string { return fmt.Sprintf("injected error #%d %s", e.id, e.what) }

type outcomeC35 uint8

const (
	ocOKC35 outcomeC35 = iota
	ocTransientC35
	ocPermanentC35
	ocBackoffPermC35
	ocNotExistC35
	ocCtxC35
	ocFnErrC35
)

func (o outcomeC35) String() string {
	return [...]string{"ok", "transient", "permanent", "backoffperm", "notexist", "ctx", "fnerr"}[o]
}

type attC35 struct {
	op        string
	h         backend.Handle
	start     time.Duration // virtual time since the case epoch
	end       time.Duration
	outcome   outcomeC35
	err       error
	fault     faultC35
	delivered int  // List: entries handed to the callback; Save: bytes consumed
	cleanup   bool // Remove issued by retry.Save as cleanup
	partial   bool // the partial-data branch of the fault was really executed
}

type fkeyC35 struct {
	t    backend.FileType
	name string
}

type opRunC35 struct {
	op     opC35
	pos    int
	rmPos  int
	log    []attC35
	errSeq int
}

type fbeC35 struct {
	files  map[fkeyC35][]byte
	props  backend.Properties
	epoch  time.Time
	cur      *opRunC35
	curFault faultC35 // fault of the running (non-cleanup) attempt
}

var _ backend.Backend = &fbeC35{}

func (b *fbeC35) Properties() backend.Properties { return b.props }
func (b *fbeC35) Hasher() hash.Hash              { return nil }
func (b *fbeC35) Close() error                   { return nil }
func (b *fbeC35) Delete(context.Context) error   { return nil }
func (b *fbeC35) Warmup(context.Context, []backend.Handle) ([]backend.Handle, error) {
	return nil, nil
}
func (b *fbeC35) WarmupWait(context.Context, []backend.Handle) error { return nil }
func (b *fbeC35) IsNotExist(err error) bool {
	var ie *injErrC35
	return errors.As(err, &ie) && ie.notExist
}
func (b *fbeC35) IsPermanentError(err error) bool {
	var ie *injErrC35
	return errors.As(err, &ie) && (ie.perm || ie.notExist)
}

func (b *fbeC35) nextFault(cleanup bool) faultC35 {
	r := b.cur
	if cleanup {
		if r.rmPos < len(r.op.RmScript) {
			r.rmPos++
			return r.op.RmScript[r.rmPos-1]
		}
		return faultC35{}
	}
	if r.pos < len(r.op.Script) {
		r.pos++
		return r.op.Script[r.pos-1]
	}
	if r.op.TailRepeat && len(r.op.Script) > 0 {
		return r.op.Script[len(r.op.Script)-1]
	}
	return faultC35{}
}

func (b *fbeC35) begin(op string, h backend.Handle, cleanup bool) (*attC35, faultC35) {
	f := b.nextFault(cleanup)
	if !cleanup {
		b.curFault = f
	}
	return &attC35{op: op, h: h, start: time.Since(b.epoch), fault: f, cleanup: cleanup}, f
}

func (b *fbeC35) finish(a *attC35, err error, oc outcomeC35) error {
	a.end = time.Since(b.epoch)
	a.err = err
	a.outcome = oc
	b.cur.log = append(b.cur.log, *a)
	return err
}

// spend lets the attempt take its virtual time; returns a context error when the
// backend honours cancellation.
func (b *fbeC35) spend(ctx context.Context, f faultC35) error {
	if b.cur.op.HonorCtx {
		if ctx.Err() != nil {
			return ctx.Err()
		}
		if f.Dur > 0 {
			tm := time.NewTimer(f.Dur)
			defer tm.Stop()
			select {
			case <-tm.C:
			case <-ctx.Done():
				return ctx.Err()
			}
		}
		return nil
	}
	if f.Dur > 0 {
		time.Sleep(f.Dur)
	}
	return nil
}

// injected builds the error of a fault and its outcome class.
func (b *fbeC35) injected(f faultC35, what string) (error, outcomeC35) {
	b.cur.errSeq++
	e := &injErrC35{id: b.cur.errSeq, what: what}
	switch f.Cls {
	case ecPermanentC35:
		e.perm = true
		return e, ocPermanentC35
	case ecBackoffPermC35:
		return backoff.Permanent(e), ocBackoffPermC35
	}
	return e, ocTransientC35
}

func (b *fbeC35) notExist() error {
	b.cur.errSeq++
	return &injErrC35{id: b.cur.errSeq, notExist: true, what: "does not exist"}
}

func (b *fbeC35) Save(ctx context.Context, h backend.Handle, rd backend.RewindReader) error {
	a, f := b.begin("save", h, false)
	if err := b.spend(ctx, f); err != nil {
		return b.finish(a, err, ocCtxC35)
	}
	k := fkeyC35{h.Type, h.Name}
	switch f.Kind {
	case fkBeforeC35:
		err, oc := b.injected(f, "save: before")
		return b.finish(a, err, oc)
	case fkPartialC35:
		n := int(rd.Length()) * f.Permille / 1000
		buf := make([]byte, n)
		got, _ := io.ReadFull(rd, buf)
		a.delivered = got
		a.partial = true
		if !b.props.HasAtomicReplace {
			// a backend without atomic replace exposes what it received so far
			b.files[k] = buf[:got]
		}
		err, oc := b.injected(f, "save: partial")
		return b.finish(a, err, oc)
	}
	// the backend stores what the reader delivers (no length check: some object stores do not verify)
	data, rerr := io.ReadAll(rd)
	a.delivered = len(data)
	if rerr != nil {
		return b.finish(a, rerr, ocTransientC35)
	}
	b.files[k] = data
	if f.Kind == fkAfterC35 {
		err, oc := b.injected(f, "save: after success")
		return b.finish(a, err, oc)
	}
	return b.finish(a, nil, ocOKC35)
}

func (b *fbeC35) Remove(ctx context.Context, h backend.Handle) error {
	cleanup := b.cur.op.Kind == opSaveC35
	a, f := b.begin("remove", h, cleanup)
	if err := b.spend(ctx, f); err != nil {
		return b.finish(a, err, ocCtxC35)
	}
	k := fkeyC35{h.Type, h.Name}
	if f.Kind == fkBeforeC35 || f.Kind == fkPartialC35 {
		err, oc := b.injected(f, "remove: before")
		return b.finish(a, err, oc)
	}
	if _, ok := b.files[k]; !ok {
		return b.finish(a, b.notExist(), ocNotExistC35)
	}
	delete(b.files, k)
	if f.Kind == fkAfterC35 {
		err, oc := b.injected(f, "remove: after success")
		return b.finish(a, err, oc)
	}
	return b.finish(a, nil, ocOKC35)
}

func (b *fbeC35) Stat(ctx context.Context, h backend.Handle) (backend.FileInfo, error) {
	a, f := b.begin("stat", h, false)
	if err := b.spend(ctx, f); err != nil {
		return backend.FileInfo{}, b.finish(a, err, ocCtxC35)
	}
	if f.Kind == fkBeforeC35 || f.Kind == fkPartialC35 {
		err, oc := b.injected(f, "stat: before")
		return backend.FileInfo{}, b.finish(a, err, oc)
	}
	data, ok := b.files[fkeyC35{h.Type, h.Name}]
	if !ok {
		return backend.FileInfo{}, b.finish(a, b.notExist(), ocNotExistC35)
	}
	fi := backend.FileInfo{Name: h.Name, Size: int64(len(data))}
	if f.Kind == fkAfterC35 {
		err, oc := b.injected(f, "stat: after")
		// a careless backend may hand out garbage together with the error
		return backend.FileInfo{Name: "garbage", Size: -1}, b.finish(a, err, oc)
	}
	return fi, b.finish(a, nil, ocOKC35)
}

type partialReaderC35 struct {
	rd  io.Reader
	err error
}

func (p *partialReaderC35) Read(buf []byte) (int, error) {
	n, err := p.rd.Read(buf)
	if err == io.EOF {
		return n, p.err
	}
	return n, err
}

// rangeC35 is the fault-free meaning of Load(length, offset) on data.
func rangeC35(data []byte, length int, offset int64) ([]byte, bool) {
	if offset > int64(len(data)) || (length > 0 && offset+int64(length) > int64(len(data))) {
		return nil, false
	}
	if length > 0 {
		return data[offset : offset+int64(length)], true
	}
	return data[offset:], true
}

func (b *fbeC35) Load(ctx context.Context, h backend.Handle, length int, offset int64, fn func(io.Reader) error) error {
	a, f := b.begin("load", h, false)
	if err := b.spend(ctx, f); err != nil {
		return b.finish(a, err, ocCtxC35)
	}
	if f.Kind == fkBeforeC35 {
		err, oc := b.injected(f, "load: before")
		return b.finish(a, err, oc)
	}
	data, ok := b.files[fkeyC35{h.Type, h.Name}]
	if !ok {
		return b.finish(a, b.notExist(), ocNotExistC35)
	}
	part, ok := rangeC35(data, length, offset)
	if !ok {
		b.cur.errSeq++
		return b.finish(a, &injErrC35{id: b.cur.errSeq, perm: true, what: "file too short"}, ocPermanentC35)
	}
	if f.Kind == fkPartialC35 {
		n := len(part) * f.Permille / 1000
		if n >= len(part) && len(part) > 0 {
			n = len(part) - 1
		}
		a.partial = true
		ierr, oc := b.injected(f, "load: read error after partial data")
		err := fn(&partialReaderC35{rd: bytes.NewReader(part[:n]), err: ierr})
		if err == nil {
			// the consumer swallowed a read error; the backend itself reports it (as an http body close would)
			err = ierr
		}
		if !errors.Is(err, ierr) {
			oc = ocTransientC35
		}
		return b.finish(a, err, oc)
	}
	err := fn(bytes.NewReader(part))
	if err != nil {
		// consumer errors are plain errors for the backend
		return b.finish(a, err, ocTransientC35)
	}
	if f.Kind == fkAfterC35 {
		err, oc := b.injected(f, "load: after success")
		return b.finish(a, err, oc)
	}
	return b.finish(a, nil, ocOKC35)
}

func (b *fbeC35) List(ctx context.Context, t backend.FileType, fn func(backend.FileInfo) error) error {
	a, f := b.begin("list", backend.Handle{Type: t}, false)
	if err := b.spend(ctx, f); err != nil {
		return b.finish(a, err, ocCtxC35)
	}
	if f.Kind == fkBeforeC35 {
		err, oc := b.injected(f, "list: before")
		return b.finish(a, err, oc)
	}
	var names []string
	for k := range b.files {
		if k.t == t {
			names = append(names, k.name)
		}
	}
	sort.Strings(names)
	r := rand.New(rand.NewPCG(f.PermSeed, 3535))
	r.Shuffle(len(names), func(i, j int) { names[i], names[j] = names[j], names[i] })
	limit := len(names)
	if f.Kind == fkPartialC35 {
		limit = len(names) * f.Permille / 1000
	}
	for i, name := range names {
		if i >= limit {
			break
		}
		a.delivered++
		if err := fn(backend.FileInfo{Name: name, Size: int64(len(b.files[fkeyC35{t, name}]))}); err != nil {
			return b.finish(a, err, ocFnErrC35)
		}
	}
	if f.Kind == fkPartialC35 || f.Kind == fkAfterC35 {
		a.partial = a.delivered > 0
		err, oc := b.injected(f, "list: failed after "+fmt.Sprint(limit)+" entries")
		return b.finish(a, err, oc)
	}
	return b.finish(a, nil, ocOKC35)
}

// ---------- running one operation through retry.Backend and checking it ----------

type loadCallC35 struct {
	data    []byte
	readErr error
	ret     error
}

type resC35 struct {
	err        error
	start, end time.Duration
	cancelled  bool          // cancel() was called before the operation returned
	cancelTime time.Duration // virtual time of the cancellation
	loads      []loadCallC35
	fi         backend.FileInfo
	listed     []backend.FileInfo
	fnErr      error
	fnAfterErr int
	log        []attC35
	pre, post  map[fkeyC35][]byte
}

func snapshotC35(m map[fkeyC35][]byte) map[fkeyC35][]byte {
	c := make(map[fkeyC35][]byte, len(m))
	for k, v := range m {
		c[k] = append([]byte(nil), v...)
	}
	return c
}

var errConsumerC35 = errors.New("consumer rejected the data")
var errFnC35 = errors.New("list callback error")

func runOpC35(rb *Backend, fb *fbeC35, op opC35) *resC35 {
	if op.GapBefore > 0 {
		time.Sleep(op.GapBefore)
	}
	res := &resC35{pre: snapshotC35(fb.files)}
	run := &opRunC35{op: op}
	fb.cur = run

	ctx, cancel := context.WithCancel(context.Background())
	defer cancel()
	doCancel := func() {
		if !res.cancelled {
			res.cancelled = true
			res.cancelTime = time.Since(fb.epoch)
		}
		cancel()
	}
	var tm *time.Timer
	done := false
	if op.HasCancel {
		if op.CancelAt == 0 {
			doCancel()
		} else {
			tm = time.AfterFunc(op.CancelAt, func() {
				if !done {
					doCancel()
				}
			})
		}
	}

	res.start = time.Since(fb.epoch)
	switch op.Kind {
	case opSaveC35:
		res.err = rb.Save(ctx, op.H, backend.NewByteReader(bytesC35(op.DataSeed, op.DataLen), nil))
	case opLoadC35:
		res.err = rb.Load(ctx, op.H, op.Length, op.Offset, func(rd io.Reader) error {
			// what real consumers do: read everything, fail if reading failed, then validate
			buf, err := io.ReadAll(rd)
			call := loadCallC35{data: buf, readErr: err, ret: err}
			if err == nil && fb.curFault.Kind == fkConsumerC35 {
				call.ret = fmt.Errorf("call %d: %w", len(res.loads), errConsumerC35)
			}
			res.loads = append(res.loads, call)
			return call.ret
		})
	case opStatC35:
		res.fi, res.err = rb.Stat(ctx, op.H)
	case opRemoveC35:
		res.err = rb.Remove(ctx, op.H)
	case opListC35:
		res.err = rb.List(ctx, op.H.Type, func(fi backend.FileInfo) error {
			if res.fnErr != nil {
				res.fnAfterErr++
			}
			idx := len(res.listed)
			res.listed = append(res.listed, fi)
			if idx == op.FnErrAt {
				res.fnErr = fmt.Errorf("at %d: %w", idx, errFnC35)
				return res.fnErr
			}
			return nil
		})
	}
	res.end = time.Since(fb.epoch)
	done = true
	if tm != nil {
		tm.Stop()
	}
	res.log = run.log
	res.post = snapshotC35(fb.files)
	return res
}

// intervalC35 is the un-jittered back-off interval used by the k-th NextBackOff call
// (k starts at 1): 1s doubled up to the 60s cap (backoff.ExponentialBackOff as configured
// by retry.Backend with the backend-error-redesign feature).
func intervalC35(k int) time.Duration {
	cur := time.Second
	for i := 1; i < k; i++ {
		if float64(cur) >= float64(60*time.Second)/2 {
			cur = 60 * time.Second
		} else {
			cur *= 2
		}
	}
	return cur
}

const slackC35 = time.Microsecond

type verdictC35 struct {
	violations []string
	classes    []string
}

func (v *verdictC35) failf(format string, args ...any) {
	v.violations = append(v.violations, fmt.Sprintf(format, args...))
}

// attempt groups: a main attempt plus (for Save on a non-atomic backend) its cleanup Remove
type groupC35 struct {
	main    attC35
	cleanup *attC35
	end     time.Duration
}

func checkOpC35(c caseC35, op opC35, res *resC35, breakerMayBeOpen bool, v *verdictC35) {
	permAllowed := 1
	if c.Flaky {
		permAllowed = 5
	}
	// ---- split the log into attempts ----
	var groups []groupC35
	for i := 0; i < len(res.log); i++ {
		a := res.log[i]
		if a.cleanup {
			if op.Kind != opSaveC35 || len(groups) == 0 || groups[len(groups)-1].cleanup != nil {
				v.failf("unexpected Remove(%v) in the underlying call sequence at position %d", a.h, i)
				continue
			}
			g := &groups[len(groups)-1]
			g.cleanup = &res.log[i]
			g.end = a.end
			continue
		}
		if a.op != op.Kind.String() {
			v.failf("underlying %s call during a retried %v", a.op, op.Kind)
			continue
		}
		groups = append(groups, groupC35{main: a, end: a.end})
	}

	// ---- Save: cleanup discipline ----
	if op.Kind == opSaveC35 {
		for i, g := range groups {
			if g.main.h.Type != op.H.Type || g.main.h.Name != op.H.Name {
				v.failf("save attempt %d went to handle %v instead of %v", i, g.main.h, op.H)
			}
			if c.Atomic {
				if g.cleanup != nil {
					v.failf("atomic backend: retry issued Remove(%v) after save attempt %d (may delete the wrong instance)", g.cleanup.h, i)
				}
				continue
			}
			if g.main.outcome != ocOKC35 {
				if g.cleanup == nil {
					v.failf("non-atomic backend: failed save attempt %d (%v) was not followed by a cleanup Remove", i, g.main.outcome)
				} else if g.cleanup.h.Type != op.H.Type || g.cleanup.h.Name != op.H.Name {
					v.failf("cleanup Remove went to %v instead of %v", g.cleanup.h, op.H)
				}
			} else if g.cleanup != nil {
				v.failf("successful save attempt %d was followed by Remove(%v)", i, g.cleanup.h)
			}
		}
	}

	n := len(groups)
	// ---- zero attempts ----
	if n == 0 {
		if res.err == nil {
			v.failf("%v returned success without any underlying attempt", op.Kind)
		}
		pre := op.HasCancel && op.CancelAt == 0
		switch {
		case pre:
			v.classes = append(v.classes, "end=precancelled")
		case op.Kind == opLoadC35 && breakerMayBeOpen:
			v.classes = append(v.classes, "end=circuit-breaker")
		default:
			v.failf("%v was never attempted although the context was alive (err=%v)", op.Kind, res.err)
		}
	}
	if op.HasCancel && op.CancelAt == 0 && n > 0 {
		v.failf("context cancelled before the call, but %d underlying attempts were made", n)
	}

	// ---- attempt sequence ----
	permSeen := 0
	stopIdx := -1 // first attempt after which no further attempt may follow
	stopWhy := ""
	for i, g := range groups {
		must := false
		why := ""
		switch g.main.outcome {
		case ocOKC35:
			must, why = true, "a successful attempt"
		case ocBackoffPermC35:
			must, why = true, "a backoff.Permanent error"
		case ocFnErrC35:
			must, why = true, "an error returned by the caller's list callback"
		case ocNotExistC35:
			if op.Kind == opStatC35 {
				must, why = true, "Stat reporting not-exist"
			} else {
				permSeen++
			}
		case ocPermanentC35:
			permSeen++
		}
		if !must && (g.main.outcome == ocPermanentC35 || g.main.outcome == ocNotExistC35) && permSeen >= permAllowed {
			must, why = true, fmt.Sprintf("permanent error number %d (allowed attempts on permanent errors: %d)", permSeen, permAllowed)
		}
		if must && stopIdx < 0 {
			stopIdx, stopWhy = i, why
		}
		if res.cancelled && g.main.start > res.cancelTime {
			v.failf("attempt %d started at %v, after the context was cancelled at %v", i, g.main.start, res.cancelTime)
		}
	}
	if stopIdx >= 0 && stopIdx != n-1 {
		v.failf("%v: %d further attempt(s) after %s (attempt %d of %d)", op.Kind, n-1-stopIdx, stopWhy, stopIdx+1, n)
	}

	// ---- back-off timing between attempts, and budget ----
	for i := 0; i+1 < n; i++ {
		gap := groups[i+1].main.start - groups[i].end
		iv := intervalC35(i + 1)
		lo, hi := iv/2, iv+iv/2
		elapsed := groups[i].end - res.start
		if i == 0 && elapsed+lo > c.Budget {
			// "retry at least once": the un-jittered initial interval may be used
			lo, hi = min(lo, time.Second), max(hi, time.Second)
		} else if elapsed+lo > c.Budget+slackC35 {
			v.failf("attempt %d started although the retry budget %v was used up: %v elapsed after attempt %d, smallest next interval %v", i+2, c.Budget, elapsed, i+1, lo)
		}
		if gap < lo-slackC35 || gap > hi+slackC35 {
			v.failf("back-off before attempt %d was %v, expected within [%v, %v]", i+2, gap, lo, hi)
		}
	}

	if n > 0 {
		last := groups[n-1]
		// ---- result vs last attempt ----
		if (res.err == nil) != (last.main.outcome == ocOKC35) {
			v.failf("%v returned err=%v but the last underlying attempt ended with %v (%v)", op.Kind, res.err, last.main.outcome, last.main.err)
		}
		retriable := stopIdx != n-1
		if retriable {
			// gave up after an error that would normally be retried: needs a reason
			elapsed := last.end - res.start
			iv := intervalC35(n)
			switch {
			case res.cancelled:
				v.classes = append(v.classes, "end=cancelled")
			case n == 1:
				v.failf("%v gave up after a single attempt with retriable error %v (budget %v, %v elapsed); at least one retry is promised", op.Kind, last.main.err, c.Budget, elapsed)
			case elapsed+iv+iv/2+slackC35 < c.Budget:
				v.failf("%v gave up after %d attempts with retriable error %v although only %v of the %v budget had elapsed (largest next interval %v)", op.Kind, n, last.main.err, elapsed, c.Budget, iv+iv/2)
			default:
				v.classes = append(v.classes, "end=budget-exhausted")
			}
			if res.err == nil {
				v.failf("gave up but returned nil")
			}
		} else {
			switch last.main.outcome {
			case ocOKC35:
				if n == 1 {
					v.classes = append(v.classes, "end=ok-first-try")
				} else {
					v.classes = append(v.classes, "end=ok-after-retry")
				}
			case ocBackoffPermC35:
				v.classes = append(v.classes, "end=backoff-permanent")
			case ocFnErrC35:
				v.classes = append(v.classes, "end=fn-error")
			default:
				if c.Flaky && permSeen >= 5 {
					v.classes = append(v.classes, "end=permanent-flaky-5th")
				} else {
					v.classes = append(v.classes, "end=permanent")
				}
			}
			// the reported error is the one that stopped the retries (unless the caller cancelled meanwhile)
			if last.main.outcome != ocOKC35 && last.main.outcome != ocFnErrC35 && res.err != nil && !res.cancelled {
				var want *injErrC35
				if errors.As(last.main.err, &want) && !errors.Is(res.err, want) {
					v.failf("%v stopped on %v but reported a different error: %v", op.Kind, last.main.err, res.err)
				}
			}
		}
		if op.Kind == opStatC35 && last.main.outcome == ocNotExistC35 && !res.cancelled {
			var ie *injErrC35
			if !(errors.As(res.err, &ie) && ie.notExist) {
				v.failf("Stat of a missing file: the error %v is not recognised by IsNotExist", res.err)
			}
		}
	}

	// ---- differential: result and state vs the fault-free backend on the same pre-state ----
	key := fkeyC35{op.H.Type, op.H.Name}
	sameExcept := func(skip bool) {
		for k, want := range res.pre {
			if skip && k == key {
				continue
			}
			if got, ok := res.post[k]; !ok || !bytes.Equal(got, want) {
				v.failf("%v(%v) changed the unrelated file %v/%v", op.Kind, op.H, k.t, k.name)
			}
		}
		for k := range res.post {
			if skip && k == key {
				continue
			}
			if _, ok := res.pre[k]; !ok {
				v.failf("%v(%v) created the unrelated file %v/%v", op.Kind, op.H, k.t, k.name)
			}
		}
	}
	switch op.Kind {
	case opSaveC35:
		sameExcept(true)
		data := bytesC35(op.DataSeed, op.DataLen)
		got, exists := res.post[key]
		old, hadOld := res.pre[key]
		if res.err == nil {
			if !exists || !bytes.Equal(got, data) {
				v.failf("Save(%v) reported success but the stored content differs from the fault-free result: stored %d bytes (exists=%v), want %d bytes", op.H, len(got), exists, len(data))
			}
		} else if n == 0 {
			if exists != hadOld || !bytes.Equal(got, old) {
				v.failf("Save(%v) that was never attempted changed the file", op.H)
			}
		} else if c.Atomic {
			ok := (!exists && !hadOld) || (exists && hadOld && bytes.Equal(got, old)) || (exists && bytes.Equal(got, data))
			if !ok {
				v.failf("failed Save(%v) on an atomic backend left neither the old nor the complete new content (exists=%v len=%d)", op.H, exists, len(got))
			}
		} else {
			allCleaned := true
			for _, g := range groups {
				if g.main.outcome != ocOKC35 && (g.cleanup == nil || g.cleanup.outcome != ocOKC35 && g.cleanup.outcome != ocNotExistC35) {
					allCleaned = false
				}
			}
			if allCleaned {
				if exists && !bytes.Equal(got, data) {
					v.failf("failed Save(%v) on a non-atomic backend: all cleanup Removes succeeded but a partial file of %d/%d bytes stays under the final name", op.H, len(got), len(data))
				}
				v.classes = append(v.classes, "save-failed-nonatomic-cleaned")
			} else {
				v.classes = append(v.classes, "save-failed-nonatomic-cleanup-failed")
			}
		}
	case opLoadC35:
		sameExcept(false)
		want, wantOK := rangeC35(res.pre[key], op.Length, op.Offset)
		if _, exists := res.pre[key]; !exists {
			wantOK = false
		}
		if res.err == nil {
			if !wantOK {
				v.failf("Load(%v, %d, %d) succeeded although the fault-free backend fails (file missing or too short)", op.H, op.Length, op.Offset)
			} else if len(res.loads) == 0 {
				v.failf("Load(%v) succeeded without calling the consumer", op.H)
			} else {
				lc := res.loads[len(res.loads)-1]
				if lc.ret != nil || lc.readErr != nil {
					v.failf("Load(%v) succeeded but the consumer's last invocation failed: %v", op.H, lc.ret)
				}
				if !bytes.Equal(lc.data, want) {
					v.failf("Load(%v, %d, %d) succeeded but the consumer's last invocation saw %d bytes, fault-free result has %d bytes", op.H, op.Length, op.Offset, len(lc.data), len(want))
				}
			}
		}
	case opStatC35:
		sameExcept(false)
		data, exists := res.pre[key]
		if res.err == nil {
			if !exists {
				v.failf("Stat(%v) succeeded for a missing file", op.H)
			} else if res.fi.Name != op.H.Name || res.fi.Size != int64(len(data)) {
				v.failf("Stat(%v) = %+v, fault-free result {Name:%s Size:%d}", op.H, res.fi, op.H.Name, len(data))
			}
		}
	case opRemoveC35:
		sameExcept(true)
		got, exists := res.post[key]
		old, hadOld := res.pre[key]
		if res.err == nil {
			if exists {
				v.failf("Remove(%v) succeeded but the file is still there", op.H)
			}
			if !hadOld {
				v.failf("Remove(%v) succeeded for a file that never existed (fault-free: error)", op.H)
			}
		} else if exists && (!hadOld || !bytes.Equal(got, old)) {
			v.failf("failed Remove(%v) modified the file", op.H)
		}
	case opListC35:
		sameExcept(false)
		want := map[string]int64{}
		for k, d := range res.pre {
			if k.t == op.H.Type {
				want[k.name] = int64(len(d))
			}
		}
		seen := map[string]bool{}
		for _, fi := range res.listed {
			if seen[fi.Name] {
				v.failf("List(%v) reported %q more than once", op.H.Type, fi.Name)
			}
			seen[fi.Name] = true
			if sz, ok := want[fi.Name]; !ok || sz != fi.Size {
				v.failf("List(%v) reported %+v, not a file of the fault-free listing", op.H.Type, fi)
			}
		}
		if res.err == nil {
			if res.fnErr != nil {
				v.failf("List returned nil although the callback returned %v", res.fnErr)
			}
			if len(seen) != len(want) {
				v.failf("List(%v) succeeded with %d names, fault-free listing has %d", op.H.Type, len(seen), len(want))
			}
		}
		if res.fnErr != nil {
			if !errors.Is(res.err, res.fnErr) {
				v.failf("List callback returned %v but List returned %v", res.fnErr, res.err)
			}
			if res.fnAfterErr > 0 {
				v.failf("List callback was invoked %d more time(s) after it had returned an error", res.fnAfterErr)
			}
		}
		redelivery := false
		for i, g := range groups {
			if i > 0 && g.main.delivered > 0 && groups[i-1].main.delivered > 0 {
				redelivery = true
			}
		}
		if redelivery {
			v.classes = append(v.classes, "list-redelivery")
		}
	}
}

func describeOpC35(c caseC35, op opC35) string {
	var sb strings.Builder
	fmt.Fprintf(&sb, "%v %v/%s atomic=%v flaky=%v budget=%v len=%d/%d/%d tail=%v cancel=%v@%v honor=%v fnerr=%d gap=%v [", op.Kind, op.H.Type, op.H.Name,
		c.Atomic, c.Flaky, c.Budget, op.DataLen, op.Length, op.Offset, op.TailRepeat, op.HasCancel, op.CancelAt, op.HonorCtx, op.FnErrAt, op.GapBefore)
	for _, f := range op.Script {
		sb.WriteString(f.String() + " ")
	}
	sb.WriteString("] rm[")
	for _, f := range op.RmScript {
		sb.WriteString(f.String() + " ")
	}
	sb.WriteString("]")
	return sb.String()
}

func logStringC35(res *resC35) string {
	var sb strings.Builder
	for i, a := range res.log {
		fmt.Fprintf(&sb, "\n    #%d %s %v/%s cleanup=%v fault=%v start=%v end=%v -> %v (%v) delivered=%d", i, a.op, a.h.Type, a.h.Name, a.cleanup, a.fault, a.start, a.end, a.outcome, a.err, a.delivered)
	}
	return sb.String()
}

func TestVerifC35Retry(t *testing.T) {
	if !feature.Flag.Enabled(feature.BackendErrorRedesign) {
		t.Fatalf("the check models the default (backend-error-redesign) retry behaviour")
	}
	st := verifkit.Begin(t, "C35")
	outer := t
	rapid.Check(t, func(t *rapid.T) {
		c := genCaseC35(t)
		var v verdictC35
		var results []*resC35
		synctest.Test(outer, func(_ *testing.T) {
			fb := &fbeC35{files: map[fkeyC35][]byte{}, epoch: time.Now(),
				props: backend.Properties{Connections: 2, HasAtomicReplace: c.Atomic, HasFlakyErrors: c.Flaky}}
			for _, f := range c.Initial {
				fb.files[fkeyC35{f.T, f.Name}] = bytesC35(f.Seed, f.Len)
			}
			rb := New(fb, c.Budget, nil, nil)
			failedLoad := map[fkeyC35]bool{}
			for i, op := range c.Ops {
				res := runOpC35(rb, fb, op)
				results = append(results, res)
				k := fkeyC35{op.H.Type, op.H.Name}
				before := len(v.violations)
				checkOpC35(c, op, res, failedLoad[k], &v)
				if op.Kind == opLoadC35 && res.err != nil {
					failedLoad[k] = true
				}
				for j := before; j < len(v.violations); j++ {
					v.violations[j] = fmt.Sprintf("op %d [%s]: %s\n  result err=%v, virtual time %v..%v, cancelled=%v@%v, underlying calls:%s",
						i, describeOpC35(c, op), v.violations[j], res.err, res.start, res.end, res.cancelled, res.cancelTime, logStringC35(res))
				}
			}
		})

		// ---- statistics ----
		nt := ""
		for i, op := range c.Ops {
			res := results[i]
			faults, partial := 0, false
			for _, a := range res.log {
				if a.outcome != ocOKC35 {
					faults++
				}
				if a.partial {
					partial = true
				}
				if a.outcome != ocOKC35 && !a.cleanup {
					st.Class("fault=" + a.op + "/" + a.fault.Kind.String() + "/" + a.outcome.String())
				}
				if a.cleanup {
					st.Class("cleanup-remove=" + a.outcome.String())
				}
			}
			if faults >= 2 && partial {
				nt += describeOpC35(c, op) + ";"
			}
			st.Class("op="+op.Kind.String(), fmt.Sprintf("attempts=%s", bucketC35(len(res.log))))
		}
		cls := append([]string{fmt.Sprintf("atomic=%v", c.Atomic), fmt.Sprintf("flaky=%v", c.Flaky), "budget=" + c.Budget.String()}, v.classes...)
		st.Case(nt, cls...)
		if st.WantSample() {
			var ops []string
			for i, op := range c.Ops {
				ops = append(ops, fmt.Sprintf("%s => err=%v attempts=%d virtual=%v", describeOpC35(c, op), results[i].err, len(results[i].log), results[i].end-results[i].start))
			}
			st.Sample(map[string]any{"ops": ops})
		}
		if len(v.violations) > 0 {
			t.Fatalf("%d violation(s):\n%s", len(v.violations), strings.Join(v.violations, "\n"))
		}
	})
}

func bucketC35(n int) string {
	switch {
	case n <= 2:
		return fmt.Sprint(n)
	case n <= 5:
		return "3-5"
	case n <= 12:
		return "6-12"
	case n <= 24:
		return "13-24"
	}
	return "25+"
}
