package backend

// Property C49 (command strings of sftp.command / rclone.program / --password-command):
// SplitShellStrings either rejects the string or returns exactly the arguments it
// denotes, and never panics.
//
// Exact reference on the documented domain ("splits a command string into separated
// arguments. It supports single and double quoted strings."): arguments are bare words
// or complete '...' / "..." strings, separated by white space; the argument is the word,
// respectively the text between the quotes. For arbitrary strings (quotes glued to
// words, backslashes) the meaning is not documented; there only structural invariants
// are required: no panic, an error returns no fields, fields are non-empty, appear in
// order as disjoint pieces of the input, and nothing but white space, quotes and
// backslashes is dropped between them.

import (
	"fmt"
	"strings"
	"testing"
	"unicode"

	"github.com/restic/restic/internal/verifkit"
	"pgregory.net/rapid"
)

var wsC49 = []string{" ", " ", "  ", "\t", "\n", " ", " ", " \t "}

func TestVerifC49ShellSplit(t *testing.T) {
	st := verifkit.Begin(t, "C49")
	bare := rapid.StringMatching(`[a-zA-Z0-9/=@:.,_%+~äé€-]{1,8}`)
	inSingle := rapid.StringMatching(`[a-z0-9 "=\t/é-]{1,8}`)
	inDouble := rapid.StringMatching(`[a-z0-9 '=\t/é-]{1,8}`)
	rapid.Check(t, func(t *rapid.T) {
		n := rapid.IntRange(0, 6).Draw(t, "ntok")
		var b strings.Builder
		var want []string
		unterminated := ""
		if rapid.Bool().Draw(t, "leadWS") {
			b.WriteString(rapid.SampledFrom(wsC49).Draw(t, "ws"))
		}
		quoted := 0
		for i := 0; i < n; i++ {
			if i > 0 {
				b.WriteString(rapid.SampledFrom(wsC49).Draw(t, "ws"))
			}
			switch rapid.IntRange(0, 3).Draw(t, "kind") {
			case 0, 1:
				w := bare.Draw(t, "bare")
				b.WriteString(w)
				want = append(want, w)
			case 2:
				w := inSingle.Draw(t, "single")
				b.WriteString("'" + w + "'")
				want = append(want, w)
				quoted++
			default:
				w := inDouble.Draw(t, "double")
				b.WriteString(`"` + w + `"`)
				want = append(want, w)
				quoted++
			}
		}
		if rapid.IntRange(0, 9).Draw(t, "unterminated") == 0 {
			if n > 0 {
				b.WriteString(" ")
			}
			q := rapid.SampledFrom([]string{"'", `"`}).Draw(t, "openQuote")
			b.WriteString(q + rapid.StringMatching(`[a-z ]{0,5}`).Draw(t, "openText"))
			unterminated = q
		}
		if rapid.Bool().Draw(t, "trailWS") {
			b.WriteString(rapid.SampledFrom(wsC49).Draw(t, "ws"))
		}
		data := b.String()
		got, err := SplitShellStrings(data)
		class := ""
		switch {
		case unterminated != "":
			class = "split:reject-unterminated"
			if err == nil || got != nil {
				t.Fatalf("SplitShellStrings(%q) = %q, %v; the %s quote is not terminated", data, got, err, unterminated)
			}
		case len(want) == 0:
			class = "split:reject-empty"
			if err == nil || got != nil {
				t.Fatalf("SplitShellStrings(%q) = %q, %v; want an error for an empty command", data, got, err)
			}
		default:
			class = "split:accept"
			if err != nil {
				t.Fatalf("SplitShellStrings(%q) rejected: %v", data, err)
			}
			if strings.Join(got, "\x00") != strings.Join(want, "\x00") || len(got) != len(want) {
				t.Fatalf("SplitShellStrings(%q) = %q, want %q", data, got, want)
			}
		}
		key := ""
		if len(want) >= 2 && quoted >= 1 {
			key = "split|" + data
		}
		st.Case(key, class, fmt.Sprintf("split:quoted=%d", min(quoted, 2)))
		if st.WantSample() {
			st.Sample(map[string]any{"input": data, "args": got, "err": fmt.Sprint(err)})
		}
	})
}

func TestVerifC49ShellSplitTotal(t *testing.T) {
	st := verifkit.Begin(t, "C49")
	pieces := []string{"a", "bc", " ", "\t", " ", "'", `"`, `\`, `\"`, `\'`, `\\`, "é", "\xff", "=", "''", `""`, "\n"}
	rapid.Check(t, func(t *rapid.T) {
		var data string
		if rapid.IntRange(0, 4).Draw(t, "raw") == 0 {
			data = rapid.String().Draw(t, "s")
		} else {
			data = strings.Join(rapid.SliceOfN(rapid.SampledFrom(pieces), 0, 12).Draw(t, "pieces"), "")
		}
		got, err := SplitShellStrings(data) // a panic is a failure
		if err != nil {
			if got != nil {
				t.Fatalf("SplitShellStrings(%q) returned fields %q together with error %v", data, got, err)
			}
			st.Case("", "splittotal:error")
			return
		}
		if len(got) == 0 {
			t.Fatalf("SplitShellStrings(%q) returned no fields and no error", data)
		}
		rest := data
		for _, f := range got {
			if f == "" {
				t.Fatalf("SplitShellStrings(%q) = %q contains an empty field", data, got)
			}
			i := strings.Index(rest, f)
			if i < 0 {
				t.Fatalf("SplitShellStrings(%q) = %q: field %q is not a piece of the input (in order)", data, got, f)
			}
			for _, r := range rest[:i] {
				if !(unicode.IsSpace(r) || r == '\'' || r == '"' || r == '\\') {
					// the greedy search may have skipped an earlier occurrence only if dropped text exists
					t.Fatalf("SplitShellStrings(%q) = %q: %q dropped before field %q", data, got, rest[:i], f)
				}
			}
			rest = rest[i+len(f):]
		}
		for _, r := range rest {
			if !(unicode.IsSpace(r) || r == '\'' || r == '"' || r == '\\') {
				t.Fatalf("SplitShellStrings(%q) = %q: %q dropped at the end", data, got, rest)
			}
		}
		key := ""
		if len(got) >= 2 && strings.ContainsAny(data, `'"\`) {
			key = "splittotal|" + data
		}
		st.Case(key, "splittotal:ok")
	})
}
