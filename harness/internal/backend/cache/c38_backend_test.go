package cache

import (
	"bytes"
	"context"
	"crypto/sha256"
	"encoding/binary"
	"encoding/hex"
	"errors"
	"fmt"
	"io"
	"math/rand/v2"
	"os"
	"path/filepath"
	"strings"
	"sync"
	"testing"

	"github.com/restic/restic/internal/backend"
	"github.com/restic/restic/internal/backend/mem"
	"github.com/restic/restic/internal/verifkit"
	"pgregory.net/rapid"
)

// C38 at the level of the cache backend: a real Cache directory wrapped around a mem
// backend (through a hook layer). Generated histories of Load(h, length, offset) on files of
// every type (index, snapshot, tree pack = IsMetadata, data pack, key, lock), whole-file and
// ranged (offset 0 / 1 / inside / len-1 / len / len+1; length 0 = to EOF / 1 / inside /
// exactly to the end / beyond the end), Save and Remove through the wrapper, groups of
// concurrent loads of one handle. Cache states: absent / valid / truncated (shorter than the
// file); the hook layer can fail drawn inner Loads and, right after a complete download has
// finished (i.e. between cacheFile's download and the re-read from the cache), remove the
// cached file, clear the type, remove the whole cache directory or truncate the cached file
// - what another process cleaning the cache would do.
//
// Oracle: the bytes handed to the consumer of a Load that returned nil are exactly
// file[offset:offset+length] (file[offset:] for length 0) of the backend file; a range that
// is not completely inside the file must fail; a removed file must fail. Content damage of
// cached files is the repository level's subject (hash checks); here the only tolerated
// deviation is a to-EOF load served from a cached copy that was truncated (it ends early).
// Positive direction: without an injected inner error during the operation, with the cache
// directory in place and an untruncated cached copy, every in-range load succeeds - also
// when the cached file vanished between download and re-read (fallback to the backend).

func prfBeC38(seed uint64, n int) []byte {
	b := make([]byte, n)
	var s [32]byte
	binary.LittleEndian.PutUint64(s[:], seed)
	binary.LittleEndian.PutUint64(s[8:], uint64(n))
	_, _ = rand.NewChaCha8(s).Read(b)
	return b
}

type vHookBeC38 struct {
	backend.Backend
	c *Cache

	mu          sync.Mutex
	plan        []string // per inner Load: "", "error", "partial-error", "after:remove-file", "after:clear", "after:remove-dir", "after:truncate"
	calls       int
	errors      int
	partials    int // downloads broken off after half the body (subset of errors)
	fired       int
	dirRemoved  bool
	truncatedTo map[backend.Handle]int
}

var errInnerC38 = errors.New("injected inner backend failure")

func plainC38(h backend.Handle) backend.Handle { h.IsMetadata = false; return h }

func (b *vHookBeC38) Load(ctx context.Context, h backend.Handle, length int, offset int64, fn func(rd io.Reader) error) error {
	b.mu.Lock()
	act := ""
	if b.calls < len(b.plan) {
		act = b.plan[b.calls]
	}
	b.calls++
	if act == "error" || act == "partial-error" {
		b.errors++
	}
	if act == "partial-error" {
		b.partials++
	}
	b.mu.Unlock()
	if act == "error" {
		return errInnerC38
	}
	if act == "partial-error" {
		// a download that breaks off: the consumer sees the first half and a clean EOF, the
		// failure only surfaces when Load returns (connection reset noticed on Close)
		err := b.Backend.Load(ctx, h, length, offset, func(rd io.Reader) error {
			data, rerr := io.ReadAll(rd)
			if rerr != nil {
				return rerr
			}
			return fn(bytes.NewReader(data[:len(data)/2]))
		})
		if err == nil {
			err = errInnerC38
		}
		return err
	}
	err := b.Backend.Load(ctx, h, length, offset, fn)
	if err == nil && length == 0 && offset == 0 && strings.HasPrefix(act, "after:") && b.c.canBeCached(h.Type) {
		b.mu.Lock()
		defer b.mu.Unlock()
		switch act {
		case "after:remove-file":
			_, _ = b.c.remove(h)
		case "after:clear":
			_ = b.c.Clear(h.Type, map[string]struct{}{})
		case "after:remove-dir":
			_ = os.RemoveAll(b.c.path)
			b.dirRemoved = true
		case "after:truncate":
			if fi, serr := os.Stat(b.c.filename(h)); serr == nil && fi.Size() > 0 {
				n := int(fi.Size() / 2)
				if os.Truncate(b.c.filename(h), int64(n)) == nil {
					if old, ok := b.truncatedTo[plainC38(h)]; !ok || n < old {
						b.truncatedTo[plainC38(h)] = n
					}
				}
			}
		}
		b.fired++
	}
	return err
}

func (b *vHookBeC38) Unwrap() backend.Backend { return b.Backend }

type vFileC38 struct {
	h    backend.Handle
	data []byte
	gone bool
}

type vLoadC38 struct {
	f      *vFileC38
	length int
	offset int64
	// result
	err   error
	got   []byte
	calls int
}

func TestVerifC38Backend(t *testing.T) {
	st := verifkit.Begin(t, "C38")

	rapid.Check(t, func(t *rapid.T) {
		ctx := context.Background()
		base, err := os.MkdirTemp("", "c38-be-")
		if err != nil {
			t.Fatalf("tempdir: %v", err)
		}
		defer os.RemoveAll(base)
		c, err := New(testCacheID, base)
		if err != nil {
			t.Fatalf("cache.New: %v", err)
		}
		inner := mem.New()
		hook := &vHookBeC38{Backend: inner, c: c, truncatedTo: map[backend.Handle]int{}}
		var logMu sync.Mutex
		wbe := c.Wrap(hook, func(string, ...any) { logMu.Lock(); logMu.Unlock() })

		// ---- files ----
		var files []*vFileC38
		seedCtr := rapid.Uint64Range(1, 1<<40).Draw(t, "seed")
		newFile := func(tpe backend.FileType, meta bool, size int) *vFileC38 {
			var data []byte
			var sum [32]byte
			for {
				seedCtr++
				data = prfBeC38(seedCtr, size)
				sum = sha256.Sum256(data)
				dup := false
				for _, o := range files {
					if o.h.Name == hex.EncodeToString(sum[:]) {
						dup = true
					}
				}
				if !dup {
					break
				}
				size++ // tiny files can collide in content
			}
			return &vFileC38{h: backend.Handle{Type: tpe, Name: hex.EncodeToString(sum[:]), IsMetadata: meta}, data: data}
		}
		genSize := func() int {
			return rapid.OneOf(rapid.IntRange(1, 40), rapid.IntRange(41, 6000)).Draw(t, "size")
		}
		type kindT struct {
			tpe  backend.FileType
			meta bool
		}
		fileKinds := []kindT{{backend.PackFile, true}, {backend.PackFile, false}, {backend.IndexFile, false}, {backend.SnapshotFile, false}, {backend.KeyFile, false}, {backend.LockFile, false}, {backend.IndexFile, false}, {backend.PackFile, true}}
		for _, k := range fileKinds {
			f := newFile(k.tpe, k.meta, genSize())
			if err := inner.Save(ctx, f.h, backend.NewByteReader(f.data, inner.Hasher())); err != nil {
				t.Fatalf("inner save: %v", err)
			}
			files = append(files, f)
		}
		// ---- initial cache state ----
		states := map[string]int{}
		for _, f := range files {
			if !c.canBeCached(f.h.Type) {
				continue
			}
			choices := []string{"absent", "absent", "valid", "truncated"}
			if f.h.Type == backend.PackFile && !f.h.IsMetadata {
				choices = []string{"absent", "absent", "absent", "valid"}
			}
			s := rapid.SampledFrom(choices).Draw(t, "state")
			states[s]++
			var content []byte
			switch s {
			case "absent":
				continue
			case "valid":
				content = f.data
			case "truncated":
				n := rapid.IntRange(0, len(f.data)-1).Draw(t, "cut")
				content = f.data[:n]
				hook.truncatedTo[plainC38(f.h)] = n
			}
			p := c.filename(f.h)
			if err := os.MkdirAll(filepath.Dir(p), 0o700); err != nil {
				t.Fatalf("mkdir: %v", err)
			}
			if err := os.WriteFile(p, content, 0o600); err != nil {
				t.Fatalf("write: %v", err)
			}
		}
		// ---- hook plan ----
		switch rapid.IntRange(0, 3).Draw(t, "faultmode") {
		case 0: // healthy, no interference
		case 1, 2:
			hook.plan = rapid.SliceOfN(rapid.SampledFrom([]string{"", "", "after:remove-file", "after:remove-file", "after:clear", "after:truncate", "error", "partial-error"}), 1, 10).Draw(t, "plan")
		default:
			hook.plan = rapid.SliceOfN(rapid.SampledFrom([]string{"", "", "after:remove-file", "after:clear", "after:remove-dir", "after:truncate", "error", "error", "partial-error"}), 1, 10).Draw(t, "plan")
		}

		genLoad := func(f *vFileC38) *vLoadC38 {
			n := len(f.data)
			off := rapid.OneOf(
				rapid.SampledFrom([]int{0, 0, 1, n - 1, n, n + 1}),
				rapid.IntRange(0, n),
			).Draw(t, "offset")
			if off < 0 {
				off = 0
			}
			rest := n - off
			l := rapid.OneOf(
				rapid.SampledFrom([]int{0, 0, 1, rest, rest + 1, rest - 1}),
				rapid.IntRange(0, max(0, rest)),
			).Draw(t, "length")
			if l < 0 {
				l = 0
			}
			return &vLoadC38{f: f, length: l, offset: int64(off)}
		}
		doLoad := func(l *vLoadC38) {
			l.err = wbe.Load(ctx, l.f.h, l.length, l.offset, func(rd io.Reader) error {
				l.calls++
				buf, err := io.ReadAll(rd)
				l.got = buf
				return err
			})
		}
		var classes []string
		addClass := func(s string) { classes = append(classes, s) }
		// judge returns a violation text or ""
		partialDuring := false // set for a group of concurrent loads during which a download broke off
		judge := func(l *vLoadC38, errorsDuring bool) string {
			f := l.f
			n := len(f.data)
			inRange := int(l.offset) <= n && int(l.offset)+l.length <= n
			ranged := !(l.length == 0 && l.offset == 0)
			if ranged {
				addClass("be:ranged-load")
			} else {
				addClass("be:whole-file-load")
			}
			if !c.canBeCached(f.h.Type) {
				addClass("be:not-cacheable-type")
			}
			desc := fmt.Sprintf("Load(%v, length=%d, offset=%d) of a %d byte file", f.h, l.length, l.offset, n)
			if l.err == nil {
				if f.gone {
					return desc + " succeeded although the file was removed"
				}
				if !inRange {
					return fmt.Sprintf("%s succeeded with %d bytes although the range is not inside the file", desc, len(l.got))
				}
				want := f.data[l.offset:]
				if l.length > 0 {
					want = want[:l.length]
				}
				if bytes.Equal(l.got, want) {
					return ""
				}
				hook.mu.Lock()
				_, trunc := hook.truncatedTo[plainC38(f.h)]
				hook.mu.Unlock()
				// a cached copy of this file was truncated at some point: a to-EOF load may end early
				if trunc && l.length == 0 && len(l.got) < len(want) && bytes.Equal(l.got, want[:len(l.got)]) {
					addClass("be:to-EOF-load-from-truncated-cache-copy")
					return ""
				}
				// a ranged load whose cached copy is cut by the other process AFTER the cache checked its
				// size and opened it reads fewer bytes than asked for (thorough tier, 5 concurrent loads):
				// the same class, nothing the cache layer can notice
				if trunc && len(l.got) < len(want) && bytes.Equal(l.got, want[:len(l.got)]) {
					addClass("be:ranged-load-from-cache-copy-truncated-meanwhile")
					return ""
				}
				// the same for the short moment in which a download that is breaking off has already
				// renamed its (half) file into the cache and cacheFile has not yet removed it again: a
				// CONCURRENT to-EOF load may be served from it and end early (the repository level's
				// hash check is what catches content damage of cached files). A load that starts after
				// the failed download has returned must not see that copy - that stays a violation.
				if partialDuring && l.length == 0 && len(l.got) < len(want) && bytes.Equal(l.got, want[:len(l.got)]) {
					addClass("be:to-EOF-load-concurrent-with-broken-off-download")
					return ""
				}
				return fmt.Sprintf("%s delivered %d bytes that are not that range (want %d bytes; equals whole file: %v)", desc, len(l.got), len(want), bytes.Equal(l.got, f.data))
			}
			// failed
			if f.gone {
				addClass("be:removed-file-fails")
				return ""
			}
			if !inRange {
				addClass("be:beyond-EOF-fails")
				return ""
			}
			hook.mu.Lock()
			_, trunc := hook.truncatedTo[plainC38(f.h)]
			dirGone := hook.dirRemoved
			hook.mu.Unlock()
			if !errorsDuring && !trunc && !dirGone {
				return fmt.Sprintf("%s failed without any injected error: %v", desc, l.err)
			}
			addClass("be:load-failed")
			return ""
		}

		// ---- history ----
		nOps := rapid.IntRange(1, 10).Draw(t, "ops")
		violation := ""
		evals := 0
		for i := 0; i < nOps && violation == ""; i++ {
			hook.mu.Lock()
			errBefore, firedBefore := hook.errors, hook.fired
			partialsBefore := hook.partials
			hook.mu.Unlock()
			switch rapid.SampledFrom([]string{"load", "load", "load", "load", "concurrent", "concurrent", "save", "remove"}).Draw(t, "op") {
			case "load":
				f := files[rapid.IntRange(0, len(files)-1).Draw(t, "file")]
				l := genLoad(f)
				doLoad(l)
				evals++
				hook.mu.Lock()
				errDuring, firedDuring := hook.errors > errBefore, hook.fired > firedBefore
				hook.mu.Unlock()
				violation = judge(l, errDuring)
				if firedDuring && !(l.length == 0 && l.offset == 0) && l.err == nil {
					addClass("be:vanished-between-download-and-reread(ranged)")
				} else if firedDuring {
					addClass("be:vanished-between-download-and-reread(whole)")
				}
			case "concurrent":
				f := files[rapid.IntRange(0, len(files)-1).Draw(t, "file")]
				g := rapid.IntRange(2, 6).Draw(t, "goroutines")
				loads := make([]*vLoadC38, g)
				for j := range loads {
					loads[j] = genLoad(f)
				}
				var wg sync.WaitGroup
				for _, l := range loads {
					wg.Add(1)
					go func(l *vLoadC38) {
						defer wg.Done()
						doLoad(l)
					}(l)
				}
				wg.Wait()
				hook.mu.Lock()
				errDuring, firedDuring := hook.errors > errBefore, hook.fired > firedBefore
				partialDuring = hook.partials > partialsBefore
				hook.mu.Unlock()
				addClass("be:concurrent-loads-of-one-handle")
				if errDuring {
					addClass("be:concurrent+inner-error")
				}
				if firedDuring {
					addClass("be:concurrent+vanished")
				}
				for _, l := range loads {
					evals++
					if v := judge(l, errDuring); v != "" && violation == "" {
						violation = fmt.Sprintf("%s (one of %d concurrent loads)", v, g)
					}
				}
				partialDuring = false
			case "save":
				k := fileKinds[rapid.IntRange(0, len(fileKinds)-1).Draw(t, "kind")]
				f := newFile(k.tpe, k.meta, genSize())
				err := wbe.Save(ctx, f.h, backend.NewByteReader(f.data, wbe.Hasher()))
				hook.mu.Lock()
				dirGone := hook.dirRemoved
				hook.mu.Unlock()
				if err != nil && !dirGone {
					violation = fmt.Sprintf("Save(%v) failed: %v", f.h, err)
				}
				if err == nil {
					files = append(files, f)
					addClass("be:save")
				} else if _, serr := inner.Stat(ctx, f.h); serr == nil {
					files = append(files, f) // stored in the backend, only the cache copy failed
				}
			case "remove":
				f := files[rapid.IntRange(0, len(files)-1).Draw(t, "file")]
				if f.gone {
					continue
				}
				if err := wbe.Remove(ctx, f.h); err == nil {
					f.gone = true
					addClass("be:remove")
				} else if _, serr := inner.Stat(ctx, f.h); serr != nil {
					f.gone = true
				}
			}
		}

		hook.mu.Lock()
		fired, nerr, planLen := hook.fired, hook.errors, len(hook.plan)
		hook.mu.Unlock()
		key := ""
		if fired > 0 || nerr > 0 || states["truncated"] > 0 {
			key = fmt.Sprintf("be|%d|%v|%v|%v", seedCtr, hook.plan, states, classes)
		}
		if planLen == 0 {
			addClass("be:no-interference")
		}
		for s, n := range states {
			if n > 0 {
				addClass("be:cache-state=" + s)
			}
		}
		uniq := map[string]bool{}
		var cl []string
		for _, s := range classes {
			if !uniq[s] {
				uniq[s] = true
				cl = append(cl, s)
			}
		}
		st.Case(key, cl...)
		st.Evals(evals)
		if st.WantSample() {
			st.Sample(map[string]any{"part": "cache-backend", "ops": nOps, "loads": evals, "hook_plan": hook.plan, "hook_fired": fired, "inner_errors": nerr, "initial_states": states})
		}
		if violation != "" {
			t.Fatalf("%s [hook plan %v, fired %d, inner errors %d]", violation, hook.plan, fired, nerr)
		}
	})
}
