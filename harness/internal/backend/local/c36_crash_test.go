package local

// C36: the local backend never exposes a partially written file.
//
// A helper process (this test binary re-executed, see TestMain) performs exactly one
// Local.Save and is killed at enumerated crash points:
//   (a) reader kills: the RewindReader handed to Save SIGKILLs its own process when the
//       cumulative offset reaches X (X = 0, piece boundaries, mid-piece, total length), i.e.
//       after temp-file creation + preallocation and between the write calls;
//   (b) strace kills: `strace -f -e inject=<syscall>:signal=SIGKILL:when=N` kills the helper
//       on entry of mkdirat#1, fallocate#1, write#n, fsync#1 (data), renameat#1, fsync#2
//       (directory), fchmodat#1; plus the completed run.
// After every kill the repository is inspected through a fresh Local backend: every listed
// name that parses as a restic ID (the filter Repository.List applies) must be a known file
// with complete content (the new payload, or the previous content when the name existed
// before); Stat/Load of the handle agree; names that do not parse are the temp files of
// this Save. A crash point is only counted when the kill is verified (wait status / strace
// log), so a strace that fails to start can never produce a pass.
//
// (c) error injection: `strace -e inject=<syscall>:error=<ERRNO>:when=N` makes one system call
// of the Save FAIL instead of killing the process: data fsync -> EIO, write#k -> ENOSPC/EIO,
// renameat -> EIO/EXDEV, directory fsync -> EIO, close(temp) -> EIO, mkdirat -> EACCES, and the
// errors local.go deliberately ignores (preallocation failure of any kind; ENOTSUP of the data
// fsync; ENOTSUP/ENOENT/EINVAL of the directory fsync; permission/unsupported errors of the
// final chmod). Oracle: an error that is not documented as ignorable makes Save return an
// error (helper exit code) and the final name is absent or holds the complete previous
// content (new content only when the failing call comes after the successful data fsync and
// rename); an ignorable error leaves Save successful with the complete new content. The log
// of every such run is also replayed on the durability model, where data only becomes
// durable by a fsync(fd) that RETURNED 0.
//
// Power loss cannot be produced in a sandbox; it is covered by a durability model replayed
// over the un-injected strace log of the same Save (see modelC36).

import (
	"bufio"
	"bytes"
	"context"
	"crypto/sha256"
	"encoding/hex"
	"encoding/json"
	"fmt"
	"io"
	"math/rand/v2"
	"os"
	"os/exec"
	"path/filepath"
	"regexp"
	"runtime"
	"sort"
	"strconv"
	"strings"
	"sync"
	"syscall"
	"testing"

	"github.com/restic/restic/internal/backend"
	"github.com/restic/restic/internal/restic"
	"github.com/restic/restic/internal/verifkit"
	"pgregory.net/rapid"
)

// ---------- helper process ----------

type specC36 struct {
	Mode   string // "save" | "probe"
	Repo   string
	Type   backend.FileType
	Name   string
	Seed   uint64
	Size   int
	Pieces []int
	KillAt int64 // -1: never
}

func init() {
	// keep the helper's main goroutine on the main thread from the very start: strace counts
	// `when=N` per thread
	if os.Getenv("VERIF_C36_HELPER") != "" {
		runtime.LockOSThread()
	}
}

func TestMain(m *testing.M) {
	if s := os.Getenv("VERIF_C36_HELPER"); s != "" {
		helperMainC36(s)
		os.Exit(97) // not reached
	}
	os.Exit(m.Run())
}

func payloadC36(seed uint64, n int) []byte {
	r := rand.New(rand.NewPCG(seed, 36))
	b := make([]byte, n)
	for i := 0; i+8 <= n; i += 8 {
		v := r.Uint64()
		b[i], b[i+1], b[i+2], b[i+3], b[i+4], b[i+5], b[i+6], b[i+7] = byte(v), byte(v>>8), byte(v>>16), byte(v>>24), byte(v>>32), byte(v>>40), byte(v>>48), byte(v>>56)
	}
	for i := n &^ 7; i < n; i++ {
		b[i] = byte(r.Uint32()) | 1 // never a zero tail: preallocated zeros are not mistaken for data
	}
	return b
}

// killReaderC36 is a RewindReader without WriteTo: io.Copy turns every Read into one write(2).
type killReaderC36 struct {
	data   []byte
	pieces []int
	pi     int
	inPi   int
	off    int64
	killAt int64
}

func (r *killReaderC36) Read(p []byte) (int, error) {
	if r.killAt >= 0 && r.off >= r.killAt {
		_ = syscall.Kill(syscall.Getpid(), syscall.SIGKILL)
		select {}
	}
	if r.off >= int64(len(r.data)) {
		return 0, io.EOF
	}
	n := len(r.data) - int(r.off)
	if r.pi < len(r.pieces) {
		n = min(n, r.pieces[r.pi]-r.inPi)
	}
	n = min(n, len(p))
	if r.killAt > r.off {
		n = min(n, int(r.killAt-r.off))
	}
	copy(p, r.data[r.off:int(r.off)+n])
	r.off += int64(n)
	r.inPi += n
	if r.pi < len(r.pieces) && r.inPi >= r.pieces[r.pi] {
		r.pi++
		r.inPi = 0
	}
	return n, nil
}
func (r *killReaderC36) Rewind() error { r.off, r.pi, r.inPi = 0, 0, 0; return nil }
func (r *killReaderC36) Length() int64 { return int64(len(r.data)) }
func (r *killReaderC36) Hash() []byte  { return nil }

func helperMainC36(specJSON string) {
	runtime.LockOSThread()
	var sp specC36
	if err := json.Unmarshal([]byte(specJSON), &sp); err != nil {
		os.Exit(90)
	}
	if sp.Mode == "probe" {
		// used once per process to find out whether strace injection works at all
		f, err := os.Create(filepath.Join(sp.Repo, "probe"))
		if err != nil {
			os.Exit(91)
		}
		_ = f.Sync()
		_ = f.Close()
		os.Exit(0)
	}
	be, err := Open(context.Background(), Config{Path: sp.Repo, Connections: 2}, nil)
	if err != nil {
		os.Exit(92)
	}
	rd := &killReaderC36{data: payloadC36(sp.Seed, sp.Size), pieces: sp.Pieces, killAt: sp.KillAt}
	if err := be.Save(context.Background(), backend.Handle{Type: sp.Type, Name: sp.Name}, rd); err != nil {
		fmt.Fprintln(os.Stderr, "helper: save failed:", err)
		os.Exit(93)
	}
	os.Exit(0)
}

// ---------- running the helper ----------

type runResC36 struct {
	killed    bool   // the helper died of SIGKILL (verified)
	completed bool   // the helper exited 0
	broken    string // anything else (strace did not start, helper error, ...)
	log       string // strace log (if any)
	exited    bool   // the helper exited by itself with exitCode (0: Save ok, 93: Save returned an error)
	exitCode  int
}

func helperCmdC36(sp specC36, straceArgs []string, logPath string) *exec.Cmd {
	js, _ := json.Marshal(sp)
	var cmd *exec.Cmd
	if straceArgs == nil {
		cmd = exec.Command(os.Args[0], "-test.run=^$")
	} else {
		args := append([]string{"-f", "-s", "0", "-o", logPath}, straceArgs...)
		args = append(args, os.Args[0], "-test.run=^$")
		cmd = exec.Command(stracePathC36, args...)
	}
	cmd.Env = append(os.Environ(), "VERIF_C36_HELPER="+string(js))
	return cmd
}

// runPlainC36 runs the helper without strace (reader kill or complete run).
func runPlainC36(sp specC36) runResC36 {
	cmd := helperCmdC36(sp, nil, "")
	var stderr bytes.Buffer
	cmd.Stderr = &stderr
	err := cmd.Run()
	ws, _ := cmd.ProcessState.Sys().(syscall.WaitStatus)
	switch {
	case err == nil:
		return runResC36{completed: true}
	case ws.Signaled() && ws.Signal() == syscall.SIGKILL:
		return runResC36{killed: true}
	}
	return runResC36{broken: fmt.Sprintf("helper: %v: %s", err, stderr.String())}
}

var (
	// strace pads the pid column to five characters: "9535  +++ killed ..." vs "13956 +++ killed ..."
	reExitC36   = regexp.MustCompile(`^\s*(\d+)\s+\+\+\+ exited with (\d+) \+\+\+`)
	reKilledC36 = regexp.MustCompile(`^\s*(\d+)\s+\+\+\+ killed by SIGKILL \+\+\+`)
)

// runStraceC36 runs the helper under strace. inject may be "" (trace only).
func runStraceC36(sp specC36, trace, inject, logPath string) runResC36 {
	args := []string{"-e", "trace=" + trace}
	if inject != "" {
		args = append(args, "-e", "inject="+inject)
	}
	_ = os.Remove(logPath)
	cmd := helperCmdC36(sp, args, logPath)
	var stderr bytes.Buffer
	cmd.Stderr = &stderr
	err := cmd.Run()
	logb, _ := os.ReadFile(logPath)
	res := runResC36{log: string(logb)}
	// Evidence required for "killed": strace itself died of SIGKILL (it re-raises the tracee's
	// fatal signal) AND its log reports a tracee killed by SIGKILL AND no tracee exited normally.
	// Evidence for "completed": strace exited 0 and the log reports "exited with 0".
	killedLine, exit0, exitOther := false, false, false
	codes := map[string]bool{}
	for _, ln := range strings.Split(res.log, "\n") {
		if reKilledC36.MatchString(ln) {
			killedLine = true
		}
		if m := reExitC36.FindStringSubmatch(ln); m != nil {
			codes[m[2]] = true
			if m[2] == "0" {
				exit0 = true
			} else {
				exitOther = true
			}
		}
	}
	ws, _ := cmd.ProcessState.Sys().(syscall.WaitStatus)
	diedOfKill := (ws.Signaled() && ws.Signal() == syscall.SIGKILL) || (ws.Exited() && ws.ExitStatus() == 128+int(syscall.SIGKILL))
	switch {
	case killedLine && diedOfKill && !exit0 && !exitOther:
		res.killed = true
	case exit0 && err == nil && !killedLine && !exitOther:
		res.completed = true
		res.exited, res.exitCode = true, 0
	case !killedLine && !exit0 && len(codes) == 1 && ws.Exited() && codes[strconv.Itoa(ws.ExitStatus())]:
		// the helper exited with a non-zero code and strace passed it on
		res.exited, res.exitCode = true, ws.ExitStatus()
	default:
		head := res.log
		if len(head) > 400 {
			head = head[:200] + " ... " + head[len(head)-200:]
		}
		res.broken = fmt.Sprintf("strace run unusable: err=%v killedLine=%v exit0=%v exitOther=%v stderr=%q log(%d bytes)=%q", err, killedLine, exit0, exitOther, stderr.String(), len(res.log), head)
	}
	return res
}

var (
	stracePathC36  string
	straceStateC36 string // "ok" | "missing" | "unusable: ..."
	straceOnceC36  sync.Once
)

// probeStraceC36 only locates strace. Whether injection works is verified by every single
// run (a crash point counts only with the kill evidence, the model only with a completed
// un-injected trace), so a separate probe run is not needed.
func probeStraceC36(string) string {
	straceOnceC36.Do(func() {
		p, err := exec.LookPath("strace")
		if err != nil {
			straceStateC36 = "missing"
			return
		}
		stracePathC36 = p
		straceStateC36 = "ok"
	})
	return straceStateC36
}

// ---------- case generation ----------

type caseC36 struct {
	Type      backend.FileType
	Name      string
	Seed      uint64
	Size      int
	Pieces    []int
	Pre       string // "none" | "same" | "other"
	DirExists bool
	Neighbour bool
	KillAts   []int64
	WriteNs   []int
	// error injection
	WriteErrno   string
	RenameErrno  string
	DirSyncIgn   string
	FallocErrno  string
	ChmodErrno   string
	OptionalErrs []string
}

func hexNameC36(seed uint64) string {
	h := sha256.Sum256([]byte(fmt.Sprint("c36 name ", seed)))
	return hex.EncodeToString(h[:])
}

func genCaseC36(t *rapid.T) caseC36 {
	c := caseC36{}
	c.Type = rapid.SampledFrom([]backend.FileType{backend.PackFile, backend.PackFile, backend.PackFile, backend.SnapshotFile, backend.IndexFile, backend.KeyFile, backend.LockFile, backend.ConfigFile, backend.ConfigFile}).Draw(t, "type")
	c.Name = hexNameC36(rapid.Uint64Range(0, 1<<30).Draw(t, "name"))
	if c.Type == backend.ConfigFile {
		c.Name = ""
	}
	c.Seed = rapid.Uint64().Draw(t, "seed")
	big := 1 << 20
	if verifkit.Tier() == "thorough" {
		big = 8 << 20
	}
	c.Size = rapid.OneOf(
		rapid.SampledFrom([]int{0, 1, 2, 4095, 4096, 4097, 32768, 32769}),
		rapid.IntRange(3, 300),
		rapid.IntRange(301, 70000),
		rapid.IntRange(70001, 300000),
		rapid.IntRange(300001, big),
	).Draw(t, "size")
	// piece sizes: what one Read returns (io.Copy's buffer caps them at 32 KiB)
	rem := c.Size
	for rem > 0 && len(c.Pieces) < 12 {
		p := rapid.OneOf(rapid.IntRange(1, 64), rapid.IntRange(65, 5000), rapid.IntRange(5001, 40000)).Draw(t, "piece")
		p = min(p, rem)
		c.Pieces = append(c.Pieces, p)
		rem -= p
	}
	c.Pre = rapid.SampledFrom([]string{"none", "none", "same", "other", "other", "other"}).Draw(t, "pre")
	c.DirExists = rapid.SampledFrom([]bool{true, true, false}).Draw(t, "direxists")
	if c.Type == backend.ConfigFile {
		c.DirExists = true
	}
	if !c.DirExists {
		c.Pre = "none"
	}
	c.Neighbour = c.DirExists && rapid.Bool().Draw(t, "neighbour")

	// reader kill offsets: 0, total, piece boundaries, mid-piece positions
	cand := map[int64]bool{0: true, int64(c.Size): true}
	var bounds []int64
	off := int64(0)
	for _, p := range c.Pieces {
		if p > 1 {
			bounds = append(bounds, off+int64(p)/2)
		}
		off += int64(p)
		bounds = append(bounds, off)
	}
	if c.Size > 65536 {
		bounds = append(bounds, 32768, 32769, int64(c.Size)-1)
	}
	nk := verifkit.Scale(2, 10)
	for i := 0; i < nk && len(bounds) > 0; i++ {
		cand[bounds[rapid.IntRange(0, len(bounds)-1).Draw(t, "killidx")]] = true
	}
	for k := range cand {
		c.KillAts = append(c.KillAts, k)
	}
	sort.Slice(c.KillAts, func(i, j int) bool { return c.KillAts[i] < c.KillAts[j] })
	// strace write#n kills
	if c.Size > 0 {
		c.WriteNs = append(c.WriteNs, rapid.IntRange(1, len(c.Pieces)).Draw(t, "writen"))
	}
	c.WriteErrno = rapid.SampledFrom([]string{"ENOSPC", "EIO"}).Draw(t, "writeerrno")
	c.RenameErrno = rapid.SampledFrom([]string{"EIO", "EXDEV"}).Draw(t, "renameerrno")
	c.DirSyncIgn = rapid.SampledFrom([]string{"EINVAL", "ENOTSUP", "ENOENT"}).Draw(t, "dirsyncign")
	c.FallocErrno = rapid.SampledFrom([]string{"ENOSPC", "EOPNOTSUPP", "EIO"}).Draw(t, "fallocerrno")
	c.ChmodErrno = rapid.SampledFrom([]string{"EPERM", "EIO", "ENOTSUP", "EACCES"}).Draw(t, "chmoderrno")
	opt := []string{"fsync1-notsup", "fsync2-ignorable", "fallocate", "fchmodat", "close"}
	if verifkit.Tier() == "thorough" {
		c.OptionalErrs = opt
	} else {
		c.OptionalErrs = rapid.Permutation(opt).Draw(t, "opterrs")[:3]
	}
	return c
}

// ---------- repository fixture ----------

type fixtureC36 struct {
	repo      string
	c         caseC36
	h         backend.Handle
	finalPath string
	dir       string
	payload   []byte
	old       []byte // content before the Save (nil: none)
	nbName    string
	nbData    []byte
}

func newFixtureC36(base string, c caseC36) (*fixtureC36, error) {
	fx := &fixtureC36{repo: filepath.Join(base, "repo"), c: c, h: backend.Handle{Type: c.Type, Name: c.Name}}
	be, err := Create(context.Background(), Config{Path: fx.repo, Connections: 2}, nil)
	if err != nil {
		return nil, err
	}
	fx.finalPath = be.Filename(fx.h)
	fx.dir = filepath.Dir(fx.finalPath)
	fx.payload = payloadC36(c.Seed, c.Size)
	switch c.Pre {
	case "same":
		fx.old = fx.payload
	case "other":
		fx.old = payloadC36(c.Seed^0x5555, max(1, c.Size/2+3))
	}
	if c.Neighbour {
		fx.nbName = hexNameC36(c.Seed % 1000003)
		if c.Type == backend.PackFile {
			// must live in the same two-character sub-directory
			fx.nbName = c.Name[:2] + fx.nbName[2:]
		}
		if fx.nbName == c.Name {
			fx.nbName = c.Name[:63] + "0"
			if fx.nbName == c.Name {
				fx.nbName = c.Name[:63] + "1"
			}
		}
		fx.nbData = payloadC36(c.Seed^0x77, 50)
	}
	return fx, fx.reset()
}

// reset puts the directory of the handle back into the pre-Save state.
func (fx *fixtureC36) reset() error {
	if fx.c.Type == backend.ConfigFile {
		// the config file lives in the repository root: remove it and stray temp files only
		ents, _ := os.ReadDir(fx.dir)
		for _, e := range ents {
			if !e.IsDir() {
				_ = os.Remove(filepath.Join(fx.dir, e.Name()))
			}
		}
	} else {
		if err := os.RemoveAll(fx.dir); err != nil {
			return err
		}
		if fx.c.DirExists {
			if err := os.MkdirAll(fx.dir, 0o700); err != nil {
				return err
			}
		}
	}
	if fx.old != nil {
		if err := os.WriteFile(fx.finalPath, fx.old, 0o400); err != nil {
			return err
		}
	}
	if fx.nbName != "" {
		if err := os.WriteFile(filepath.Join(fx.dir, fx.nbName), fx.nbData, 0o400); err != nil {
			return err
		}
	}
	return nil
}

func (fx *fixtureC36) spec(killAt int64) specC36 {
	return specC36{Mode: "save", Repo: fx.repo, Type: fx.c.Type, Name: fx.c.Name, Seed: fx.c.Seed, Size: fx.c.Size, Pieces: fx.c.Pieces, KillAt: killAt}
}

// inspect checks the invariant on the current on-disk state and returns a state label.
func (fx *fixtureC36) inspect() (state string, violation string) {
	be, err := Open(context.Background(), Config{Path: fx.repo, Connections: 2}, nil)
	if err != nil {
		return "", "cannot open repository: " + err.Error()
	}
	ctx := context.Background()
	load := func(h backend.Handle) ([]byte, error) {
		var buf []byte
		err := be.Load(ctx, h, 0, 0, func(rd io.Reader) error {
			var e error
			buf, e = io.ReadAll(rd)
			return e
		})
		return buf, err
	}
	classify := func(data []byte) string {
		switch {
		case bytes.Equal(data, fx.payload):
			return "new"
		case fx.old != nil && bytes.Equal(data, fx.old):
			return "old"
		}
		return "PARTIAL"
	}
	finalState := "absent"
	tmpState := "none"
	if fx.c.Type != backend.ConfigFile {
		types := []backend.FileType{backend.PackFile, backend.KeyFile, backend.LockFile, backend.SnapshotFile, backend.IndexFile}
		for _, ft := range types {
			seen := map[string]bool{}
			err := be.List(ctx, ft, func(fi backend.FileInfo) error {
				if seen[fi.Name] {
					violation = fmt.Sprintf("List(%v) reports %q twice", ft, fi.Name)
				}
				seen[fi.Name] = true
				if _, perr := restic.ParseID(fi.Name); perr != nil {
					// not a repository file for Repository.List; must be a temp file of this Save
					if ft == fx.c.Type && strings.HasPrefix(fi.Name, fx.c.Name+"-tmp-") {
						data, _ := os.ReadFile(filepath.Join(fx.dir, fi.Name))
						if bytes.Equal(data, fx.payload) {
							tmpState = "complete"
						} else {
							tmpState = "partial"
						}
						return nil
					}
					violation = fmt.Sprintf("List(%v) reports the unexpected name %q", ft, fi.Name)
					return nil
				}
				// a name Repository.List hands to its callers: must be a complete, known file
				h := backend.Handle{Type: ft, Name: fi.Name}
				data, lerr := load(h)
				if lerr != nil {
					violation = fmt.Sprintf("listed file %v cannot be loaded: %v", h, lerr)
					return nil
				}
				if int64(len(data)) != fi.Size {
					violation = fmt.Sprintf("listed file %v: List size %d, content %d bytes", h, fi.Size, len(data))
				}
				switch {
				case ft == fx.c.Type && fi.Name == fx.c.Name:
					finalState = classify(data)
					if finalState == "PARTIAL" {
						violation = fmt.Sprintf("file %v is listed under its final name with incomplete content: %d bytes (sha256 %x), complete payload has %d bytes", h, len(data), sha256.Sum256(data), len(fx.payload))
					}
				case ft == fx.c.Type && fi.Name == fx.nbName:
					if !bytes.Equal(data, fx.nbData) {
						violation = fmt.Sprintf("unrelated file %v was modified", h)
					}
				default:
					violation = fmt.Sprintf("List(%v) reports the unknown repository file %q", ft, fi.Name)
				}
				return nil
			})
			if err != nil && violation == "" {
				violation = fmt.Sprintf("List(%v) failed: %v", ft, err)
			}
			if ft == fx.c.Type && fx.nbName != "" && !seen[fx.nbName] && violation == "" {
				violation = fmt.Sprintf("unrelated file %s disappeared from List(%v)", fx.nbName, ft)
			}
		}
	} else {
		ents, _ := os.ReadDir(fx.dir)
		for _, e := range ents {
			if strings.HasPrefix(e.Name(), "config-tmp-") {
				data, _ := os.ReadFile(filepath.Join(fx.dir, e.Name()))
				if bytes.Equal(data, fx.payload) {
					tmpState = "complete"
				} else {
					tmpState = "partial"
				}
			}
		}
	}
	// direct access by handle
	fi, serr := be.Stat(ctx, fx.h)
	data, lerr := load(fx.h)
	switch {
	case serr != nil && lerr != nil:
		if !be.IsNotExist(serr) || !be.IsNotExist(lerr) {
			violation = fmt.Sprintf("Stat/Load of %v fail with something else than not-exist: %v / %v", fx.h, serr, lerr)
		}
		if finalState != "absent" {
			violation = fmt.Sprintf("%v is listed but cannot be accessed: %v / %v", fx.h, serr, lerr)
		}
	case serr == nil && lerr == nil:
		st := classify(data)
		if st == "PARTIAL" {
			violation = fmt.Sprintf("file %v exists under its final name with incomplete content: %d bytes (sha256 %x), complete payload has %d bytes", fx.h, len(data), sha256.Sum256(data), len(fx.payload))
		}
		if fi.Size != int64(len(data)) {
			violation = fmt.Sprintf("Stat(%v) size %d, content %d bytes", fx.h, fi.Size, len(data))
		}
		if fx.c.Type != backend.ConfigFile && finalState != st && violation == "" {
			violation = fmt.Sprintf("%v: listing says %s, direct access says %s", fx.h, finalState, st)
		}
		finalState = st
	default:
		violation = fmt.Sprintf("Stat and Load of %v disagree: %v / %v", fx.h, serr, lerr)
	}
	if fx.old != nil && finalState == "absent" && violation == "" {
		violation = fmt.Sprintf("the previous version of %v disappeared and no new one is there", fx.h)
	}
	if finalState == "new" && fx.c.Pre == "same" {
		finalState = "new(=old)"
	}
	return "final=" + finalState + ",tmp=" + tmpState, violation
}

// ---------- durability model over the un-injected syscall log ----------

type sysEventC36 struct {
	name string
	args string
	ret  string
}

var (
	reLineC36       = regexp.MustCompile(`^\s*(\d+)\s+(.*)$`)
	reCallC36       = regexp.MustCompile(`^([a-z_0-9]+)\((.*)\) += +(-?\d+|\?)(.*)$`)
	reUnfinishedC36 = regexp.MustCompile(`^([a-z_0-9]+)\((.*) <unfinished \.\.\.>$`)
	reResumedC36    = regexp.MustCompile(`^<\.\.\. ([a-z_0-9]+) resumed>(.*)$`)
	reQuotedC36     = regexp.MustCompile(`"((?:[^"\\]|\\.)*)"`)
)

// parseStraceC36 returns the completed system calls per thread in order of completion.
func parseStraceC36(log string) map[string][]sysEventC36 {
	out := map[string][]sysEventC36{}
	pending := map[string]string{}
	sc := bufio.NewScanner(strings.NewReader(log))
	sc.Buffer(make([]byte, 1<<20), 1<<24)
	for sc.Scan() {
		m := reLineC36.FindStringSubmatch(sc.Text())
		if m == nil {
			continue
		}
		pid, rest := m[1], m[2]
		if u := reUnfinishedC36.FindStringSubmatch(rest); u != nil {
			pending[pid] = u[1] + "(" + u[2]
			continue
		}
		if r := reResumedC36.FindStringSubmatch(rest); r != nil {
			rest = pending[pid] + r[2]
			delete(pending, pid)
		}
		if c := reCallC36.FindStringSubmatch(rest); c != nil {
			out[pid] = append(out[pid], sysEventC36{name: c[1], args: c[2], ret: c[3]})
		}
	}
	return out
}

type inodeC36 struct {
	isNew      bool
	written    int64 // bytes written through write(2) (volatile)
	durable    int64 // bytes guaranteed on disk (as of the last fsync of the file)
	oldContent bool  // pre-existing complete file
	truncated  bool
}

// modelC36 replays the Save's system calls on a small crash-consistency model of one
// directory: file data is durable only up to the last fsync(fd); a directory entry change
// (create, rename) is durable only after fsync of the directory, and until then any
// combination of the pending entry changes may or may not have reached the disk. After every
// system call all post-power-loss states the model allows are enumerated and the statement's
// invariant is asserted: the final name is absent, or the old complete file, or a file whose
// *durable* bytes are the complete payload. At the end of the log (Save returned success) the
// final name must durably be the complete new file.
func modelC36(fx *fixtureC36, log string, saveOK, requireDurable bool) (violation string, nstates int, info string) {
	threads := parseStraceC36(log)
	finalBase := filepath.Base(fx.finalPath)
	// the thread that performs the Save: the one that opens a file for writing inside the directory
	var evs []sysEventC36
	for _, list := range threads {
		for _, e := range list {
			if e.name == "openat" && strings.Contains(e.args, fx.dir+"/") && (strings.Contains(e.args, "O_CREAT") || strings.Contains(e.args, "O_WRONLY") || strings.Contains(e.args, "O_RDWR")) {
				evs = list
			}
		}
	}
	if evs == nil {
		if !saveOK {
			return "", 0, "(no file opened for writing)"
		}
		return "model: no thread opens a file for writing in " + fx.dir, 0, ""
	}
	size := int64(len(fx.payload))
	fds := map[string]*inodeC36{}               // open file descriptors of regular files in the directory
	dirFds := map[string]bool{}                 // open descriptors of the directory itself
	volatile := map[string]*inodeC36{}          // current directory entries (in memory)
	durable := map[string]*inodeC36{}           // entries as of the last directory fsync
	pendingVersions := map[string][]*inodeC36{} // per name: mappings since the last directory fsync (nil = absent)
	if fx.old != nil {
		o := &inodeC36{oldContent: true}
		volatile[finalBase], durable[finalBase] = o, o
	}
	var seq []string
	var tmpNames []string
	note := func(name string) {
		pendingVersions[name] = append(pendingVersions[name], volatile[name])
	}
	check := func(when string) {
		// enumerate: the final name may hold its durable mapping or any pending one
		cands := append([]*inodeC36{durable[finalBase]}, pendingVersions[finalBase]...)
		for _, ino := range cands {
			nstates++
			switch {
			case ino == nil:
			case ino.oldContent && !ino.truncated:
			case ino.isNew && ino.durable == size && ino.written == size:
			default:
				if violation == "" {
					violation = fmt.Sprintf("model: after a power loss %s the final name %s may refer to a file with only %d of %d bytes guaranteed on disk (written so far: %d)", when, finalBase, ino.durable, size, ino.written)
				}
			}
		}
	}
	inDir := func(p string) (string, bool) {
		if filepath.Dir(p) == fx.dir {
			return filepath.Base(p), true
		}
		return "", false
	}
	for i, e := range evs {
		if e.ret == "-1" || e.ret == "?" {
			continue
		}
		q := reQuotedC36.FindAllStringSubmatch(e.args, -1)
		when := fmt.Sprintf("right after system call #%d %s(%s)", i, e.name, e.args)
		switch e.name {
		case "openat":
			if len(q) == 0 {
				continue
			}
			p := q[0][1]
			if p == fx.dir {
				dirFds[e.ret] = true
				continue
			}
			name, ok := inDir(p)
			if !ok || !(strings.Contains(e.args, "O_WRONLY") || strings.Contains(e.args, "O_RDWR")) {
				continue
			}
			ino := volatile[name]
			if ino == nil && strings.Contains(e.args, "O_CREAT") {
				ino = &inodeC36{isNew: true}
				volatile[name] = ino
				note(name)
				if name != finalBase {
					tmpNames = append(tmpNames, name)
				}
			}
			if ino != nil && strings.Contains(e.args, "O_TRUNC") {
				ino.truncated = true
				ino.written, ino.durable = 0, 0
			}
			if ino != nil {
				fds[e.ret] = ino
			}
			seq = append(seq, "open:"+roleC36(name, finalBase))
		case "write", "pwrite64":
			fd := strings.SplitN(e.args, ",", 2)[0]
			if ino := fds[fd]; ino != nil {
				n, _ := strconv.ParseInt(e.ret, 10, 64)
				ino.written += n
				if ino.oldContent {
					ino.truncated = true // overwritten in place
				}
				if len(seq) == 0 || seq[len(seq)-1] != "write" {
					seq = append(seq, "write")
				}
			}
		case "fsync", "fdatasync":
			fd := strings.TrimSpace(e.args)
			if ino := fds[fd]; ino != nil {
				ino.durable = ino.written
				seq = append(seq, "fsync:file")
			} else if dirFds[fd] {
				for k := range durable {
					delete(durable, k)
				}
				for k, v := range volatile {
					durable[k] = v
				}
				pendingVersions = map[string][]*inodeC36{}
				seq = append(seq, "fsync:dir")
			}
		case "close":
			fd := strings.TrimSpace(e.args)
			if fds[fd] != nil {
				seq = append(seq, "close")
			}
			delete(fds, fd)
			delete(dirFds, fd)
		case "renameat", "renameat2", "rename":
			if len(q) < 2 {
				continue
			}
			from, ok1 := inDir(q[0][1])
			to, ok2 := inDir(q[1][1])
			if ok1 && ok2 {
				volatile[to] = volatile[from]
				delete(volatile, from)
				note(to)
				note(from)
				seq = append(seq, "rename:"+roleC36(from, finalBase)+"->"+roleC36(to, finalBase))
			}
		case "unlinkat", "unlink":
			if len(q) > 0 {
				if name, ok := inDir(q[0][1]); ok {
					delete(volatile, name)
					note(name)
					seq = append(seq, "unlink:"+roleC36(name, finalBase))
				}
			}
		case "fallocate", "ftruncate", "fchmodat", "fchmod", "mkdirat":
			seq = append(seq, e.name)
		default:
			continue
		}
		check(when)
	}
	info = strings.Join(seq, " ")
	if violation != "" {
		return violation, nstates, info
	}
	for _, tn := range tmpNames {
		if _, err := restic.ParseID(tn); err == nil {
			return fmt.Sprintf("temporary file name %q parses as a restic ID", tn), nstates, info
		}
	}
	if !saveOK {
		return "", nstates, info
	}
	if len(tmpNames) == 0 {
		return "model: the Save never used a temporary name (data written straight to " + finalBase + ")", nstates, info
	}
	if !requireDurable {
		return "", nstates, info
	}
	// completed Save: the new file must survive a power loss
	d := durable[finalBase]
	if len(pendingVersions[finalBase]) > 0 || d == nil || !d.isNew && fx.c.Pre != "same" || d.isNew && d.durable != size {
		return fmt.Sprintf("model: Save returned success but the new content of %s is not guaranteed on disk (directory entry pending=%d)", finalBase, len(pendingVersions[finalBase])), nstates, info
	}
	return "", nstates, info
}

// tmpCloseOrdinalC36 finds, in an un-injected trace, the how-manieth close(2) of the Save
// thread closes the temp file, so that exactly this call can be made to fail.
func tmpCloseOrdinalC36(fx *fixtureC36, log string) (int, bool) {
	for _, evs := range parseStraceC36(log) {
		tmpFd := ""
		n := 0
		for _, e := range evs {
			switch e.name {
			case "openat":
				if strings.Contains(e.args, fx.dir+"/") && strings.Contains(e.args, "-tmp-") && e.ret != "-1" {
					tmpFd = e.ret
				}
			case "close":
				n++
				if tmpFd != "" && strings.TrimSpace(e.args) == tmpFd {
					return n, true
				}
			}
		}
	}
	return 0, false
}

// injectedCallC36 returns the log line of the injected failure (empty: nothing was injected).
func injectedCallC36(log, sys string) string {
	for _, ln := range strings.Split(log, "\n") {
		if strings.Contains(ln, "(INJECTED)") && strings.Contains(ln, sys) {
			return ln
		}
	}
	return ""
}

func roleC36(name, finalBase string) string {
	if name == finalBase {
		return "final"
	}
	return "tmp"
}

// ---------- the check ----------

func TestVerifC36Crash(t *testing.T) {
	st := verifkit.Begin(t, "C36")
	base, err := os.MkdirTemp("", "c36-")
	if err != nil {
		t.Fatal(err)
	}
	defer os.RemoveAll(base)
	strace := probeStraceC36(base)
	st.Note("strace", strace)
	if strace != "ok" {
		t.Logf("strace kill injection not available (%s): part (b) and the durability model are NOT checked", strace)
		st.Class("strace-unavailable")
	}
	caseNo := 0
	traceSet := "openat,write,pwrite64,writev,fsync,fdatasync,close,renameat,renameat2,rename,fallocate,ftruncate,fchmodat,fchmod,mkdirat,unlinkat,unlink"

	runCase := func(c caseC36, fail func(point, format string, args ...any)) {
		caseNo++
		cdir := filepath.Join(base, fmt.Sprintf("case%d", caseNo))
		if err := os.MkdirAll(cdir, 0o755); err != nil {
			t.Fatalf("mkdir: %v", err)
		}
		defer os.RemoveAll(cdir)
		fx, err := newFixtureC36(cdir, c)
		if err != nil {
			t.Fatalf("fixture: %v", err)
		}
		logPath := filepath.Join(cdir, "strace.log")
		sizeClass := "size=0"
		switch {
		case c.Size > 65536:
			sizeClass = "size>64K"
		case c.Size > 4096:
			sizeClass = "size=4K-64K"
		case c.Size > 0:
			sizeClass = "size=1-4K"
		}
		st.Class("type="+c.Type.String(), "pre="+c.Pre, fmt.Sprintf("dir-exists=%v", c.DirExists), sizeClass)

		after := func(point, kind string) {
			state, viol := fx.inspect()
			st.Evals(1)
			st.Class("kill="+kind, "state@"+kind+":"+state)
			if strings.Contains(state, "tmp=partial") || strings.Contains(state, "tmp=complete") {
				if len(c.Pieces) >= 2 {
					st.NonTrivial(fmt.Sprintf("%v|%s|%d|%v|%s|%s", c.Type, c.Name, c.Size, c.Pieces, c.Pre, point))
				}
			}
			if viol != "" {
				fail(point, "crash point %s: %s (state %s)", point, viol, state)
			}
			if err := fx.reset(); err != nil {
				t.Fatalf("reset: %v", err)
			}
		}

		// (a) reader kills
		for _, x := range c.KillAts {
			res := runPlainC36(fx.spec(x))
			if !res.killed {
				st.Class("harness-problem:reader-kill-not-verified")
				t.Logf("reader kill at %d not verified: %+v", x, res)
				_ = fx.reset()
				continue
			}
			kind := "reader:mid"
			switch {
			case x == 0:
				kind = "reader:before-first-write"
			case x == int64(c.Size):
				kind = "reader:after-last-write"
			}
			after(fmt.Sprintf("reader@%d", x), kind)
		}
		// completed run without tracer (with strace available the traced run below is the completed run)
		if strace == "ok" {
		} else if res := runPlainC36(fx.spec(-1)); res.completed {
			state, viol := fx.inspect()
			st.Evals(1)
			st.Class("kill=none(completed)", "state@completed:"+state)
			if viol == "" && !strings.HasPrefix(state, "final=new") {
				viol = "Save returned success but the file does not have its final content"
			}
			if viol != "" {
				fail("completed", "completed Save: %s (state %s)", viol, state)
			}
			_ = fx.reset()
		} else {
			st.Class("harness-problem:plain-run-failed")
			t.Logf("plain run failed: %+v", res)
			_ = fx.reset()
		}

		if strace != "ok" {
			st.Class("skipped-strace-points")
			return
		}
		// un-injected traced run: completed state, durability model, ordinal of the temp file's close
		res := runStraceC36(fx.spec(-1), traceSet, "", logPath)
		if !res.completed {
			st.Class("strace-run-broken")
			t.Logf("trace run: %s", res.broken)
			_ = fx.reset()
			return
		}
		{
			state, viol := fx.inspect()
			st.Evals(1)
			st.Class("kill=none(completed)", "state@completed:"+state)
			if viol == "" && !strings.HasPrefix(state, "final=new") {
				viol = "Save returned success but the file does not have its final content"
			}
			if viol != "" {
				fail("completed", "completed Save: %s (state %s)", viol, state)
			}
		}
		viol, nstates, info := modelC36(fx, res.log, true, true)
		st.Evals(nstates)
		st.Class("model-checked", "model-sequence: "+info)
		if viol != "" {
			fail("model", "%s\nsystem call sequence of the Save: %s", viol, info)
		}
		closeN, closeOK := tmpCloseOrdinalC36(fx, res.log)
		_ = fx.reset()

		// (b) strace kills
		type pt struct {
			sys  string
			when int
			must bool // the syscall certainly occurs in this Save
		}
		pts := []pt{
			{"mkdirat", 1, !c.DirExists},
			{"fallocate", 1, c.Size > 0},
			{"fsync", 1, true},
			{"renameat", 1, true},
			{"fsync", 2, true},
			{"fchmodat", 1, true},
		}
		for _, n := range c.WriteNs {
			pts = append(pts, pt{"write", n, true})
		}
		for _, p := range pts {
			if !p.must {
				continue // e.g. directory exists: no mkdirat in this Save
			}
			kind := fmt.Sprintf("strace:%s#%d", p.sys, min(p.when, 2))
			res := runStraceC36(fx.spec(-1), p.sys, fmt.Sprintf("%s:signal=SIGKILL:when=%d", p.sys, p.when), logPath)
			switch {
			case res.killed:
				after(fmt.Sprintf("%s#%d", p.sys, p.when), kind)
			case res.completed:
				st.Class("expected-syscall-absent:" + kind)
				t.Logf("injection %s#%d never triggered, the helper completed", p.sys, p.when)
				_ = fx.reset()
			default:
				st.Class("strace-run-broken")
				t.Logf("%s#%d: %s", p.sys, p.when, res.broken)
				_ = fx.reset()
			}
		}

		// (c) error injection
		type ept struct {
			label      string // histogram / required class
			sys        string
			when       int
			errno      string
			expectErr  bool // local.go does not document this error as ignorable
			allowNew   bool // on error the final name may already hold the (synced) new content
			model      bool // replay the log on the durability model
			durableEnd bool // ... including "the completed Save is durable"
		}
		epts := []ept{
			{"fsync#1:EIO", "fsync", 1, "EIO", true, false, true, false},
			{"renameat#1:" + c.RenameErrno, "renameat", 1, c.RenameErrno, true, false, true, false},
			{"fsync#2:EIO", "fsync", 2, "EIO", true, true, true, false},
		}
		if c.Size > 0 {
			epts = append(epts, ept{"write:" + c.WriteErrno, "write", c.WriteNs[0], c.WriteErrno, true, false, true, false})
		}
		if !c.DirExists {
			epts = append(epts, ept{"mkdirat#1:EACCES", "mkdirat", 1, "EACCES", true, false, true, false})
		}
		for _, o := range c.OptionalErrs {
			switch o {
			case "fsync1-notsup": // "Ignore error if filesystem does not support fsync": nothing can be durable there
				epts = append(epts, ept{"fsync#1:ENOTSUP(ignorable)", "fsync", 1, "ENOTSUP", false, true, false, false})
			case "fsync2-ignorable": // fsyncDir ignores ENOTSUP, ENOENT, EINVAL
				epts = append(epts, ept{"fsync#2:" + c.DirSyncIgn + "(ignorable)", "fsync", 2, c.DirSyncIgn, false, true, true, false})
			case "fallocate": // preallocation is best effort: every error is ignored
				if c.Size > 0 {
					epts = append(epts, ept{"fallocate#1:" + c.FallocErrno + "(ignorable)", "fallocate", 1, c.FallocErrno, false, true, true, true})
				}
			case "fchmodat": // permission and "unsupported" errors of the final chmod are ignored, others are not
				if c.ChmodErrno == "EIO" {
					epts = append(epts, ept{"fchmodat#1:EIO", "fchmodat", 1, "EIO", true, true, true, false})
				} else {
					epts = append(epts, ept{"fchmodat#1:" + c.ChmodErrno + "(ignorable)", "fchmodat", 1, c.ChmodErrno, false, true, true, true})
				}
			case "close":
				if closeOK {
					epts = append(epts, ept{"close(tmp):EIO", "close", closeN, "EIO", true, false, true, false})
				} else {
					st.Class("close-ordinal-unknown")
				}
			}
		}
		for _, p := range epts {
			straceErrno := p.errno
			if straceErrno == "ENOTSUP" {
				straceErrno = "EOPNOTSUPP" // same number on Linux (syscall.ENOTSUP == 95); strace only knows this name
			}
			res := runStraceC36(fx.spec(-1), traceSet, fmt.Sprintf("%s:error=%s:when=%d", p.sys, straceErrno, p.when), logPath)
			inj := injectedCallC36(res.log, p.sys+"(")
			if inj == "" {
				inj = injectedCallC36(res.log, p.sys+" resumed")
			}
			switch {
			case !res.exited:
				st.Class("strace-run-broken")
				t.Logf("error injection %s: %s", p.label, res.broken)
				_ = fx.reset()
				continue
			case inj == "":
				st.Class("expected-syscall-absent:err=" + p.label)
				t.Logf("error injection %s never triggered (exit %d)", p.label, res.exitCode)
				_ = fx.reset()
				continue
			case res.exitCode != 0 && res.exitCode != 93:
				st.Class("harness-problem:helper-exit")
				t.Logf("error injection %s: helper exit code %d", p.label, res.exitCode)
				_ = fx.reset()
				continue
			}
			if p.sys == "close" {
				// must have hit the temp file's descriptor
				tmpFd := ""
				for _, evs := range parseStraceC36(res.log) {
					for _, e := range evs {
						if e.name == "openat" && strings.Contains(e.args, "-tmp-") && e.ret != "-1" {
							tmpFd = e.ret
						}
					}
				}
				if tmpFd == "" || !strings.Contains(inj, "close("+tmpFd+")") {
					st.Class("close-injection-misplaced")
					_ = fx.reset()
					continue
				}
			}
			saveOK := res.exitCode == 0
			state, viol := fx.inspect()
			st.Evals(1)
			outcome := "save-error"
			if saveOK {
				outcome = "save-ok"
			}
			st.Class("err="+p.label, "state@err="+p.sys+fmt.Sprintf("#%d", min(p.when, 2))+":"+outcome+","+state)
			point := "error " + p.errno + " injected into " + p.sys + fmt.Sprintf("#%d", p.when)
			finalNew := strings.HasPrefix(state, "final=new,")
			switch {
			case viol != "":
			case p.expectErr && saveOK:
				viol = fmt.Sprintf("the system call failed (%s) but Save reported SUCCESS; local.go does not document %s of %s as ignorable", strings.TrimSpace(inj), p.errno, p.sys)
			case !p.expectErr && !saveOK:
				viol = fmt.Sprintf("Save failed although local.go documents %s of %s as ignorable (%s)", p.errno, p.sys, strings.TrimSpace(inj))
			case saveOK && !strings.HasPrefix(state, "final=new"):
				viol = "Save returned success but the file does not have its final content"
			case !saveOK && finalNew && !p.allowNew:
				viol = "Save returned an error, yet the new content stands under the final name although the failing call precedes the rename"
			}
			if viol == "" && p.model {
				var ns int
				var minfo string
				viol, ns, minfo = modelC36(fx, res.log, saveOK, saveOK && p.durableEnd)
				st.Evals(ns)
				if viol != "" {
					viol += "\nsystem call sequence: " + minfo
				}
			}
			if viol != "" {
				fail(point, "%s: %s (state %s)", point, viol, state)
			}
			_ = fx.reset()
		}
	}

	rapid.Check(t, func(rt *rapid.T) {
		c := genCaseC36(rt)
		st.Case("")
		runCase(c, func(point, format string, args ...any) {
			msg := fmt.Sprintf(format, args...)
			rt.Fatalf("%s\ncase: %+v", msg, c)
		})
	})
}
