package sema

// C37: backend concurrency limits hold and lock operations are never blocked.
//
// The production sema backend wraps a gate backend: every Save/Load/Stat/Remove that
// reaches the gate is counted (under a mutex) and parked until the test releases it.
// rapid draws a schedule of actions: launch a caller (operation kind x file type, lock or
// non-lock), release a parked operation (drawn index), Freeze, Unfreeze, settle.
//
// The check runs on the real clock (the freeze mutex is invisible to synctest) and is
// one-sided wherever timing matters:
//   - safety properties are decided by counters maintained by the gate itself
//     (non-lock operations inside <= Connections at every entry; no non-lock entry between
//     Freeze() returning and Unfreeze() being called). A slow machine can only make the
//     check miss a violation, never invent one. Freeze is only called in quiescent states
//     (every caller is either parked inside the gate or cannot have passed the token gate),
//     so no operation can legitimately be "in flight" between the gate and the counter.
//   - "lock operations proceed" is decided by waiting for the arrival of the lock operation
//     in the gate until this goroutine has seen 1500 separate 1 ms ticks (normally it takes microseconds). If it does not arrive, the
//     backend is unfrozen and all slots are released: arriving only then = violation,
//     still not arriving = inconclusive (case discarded and counted).
//   - cancellation: every caller has its own context, cancelled at drawn points: before the
//     call, while it is queued on the saturated semaphore (or held back by the freeze), while
//     it is parked inside the backend, after it returned. A queued caller is only cancelled in
//     a quiescent state, where it provably has not yet passed the token gate. Nothing about
//     the oracle is relaxed: the gate keeps counting (a cancelled waiter that frees a slot it
//     never owned shows up as limit+1 operations inside), a cancelled caller that still enters
//     needs a real slot, and at the end of the schedule everything is released and EVERY caller
//     must return (a caller stuck in ReleaseToken = violation; tick-based, one-sided).

import (
	"context"
	"fmt"
	"hash"
	"io"
	"strings"
	"sync"
	"testing"
	"time"

	"github.com/restic/restic/internal/backend"
	"github.com/restic/restic/internal/verifkit"
	"pgregory.net/rapid"
)

type parkedC37 struct {
	id      int
	lock    bool
	release chan struct{}
}

type gateC37 struct {
	conns uint

	mu          sync.Mutex
	inside      int   // non-lock operations currently inside
	maxInside   int   // high-water mark
	entries     int64 // non-lock operations that ever entered
	lockEntries int64
	violation   string

	arrivals chan *parkedC37
}

var _ backend.Backend = &gateC37{}

type ctxKeyC37 struct{}

func (g *gateC37) enter(ctx context.Context, op string, h backend.Handle) {
	id, _ := ctx.Value(ctxKeyC37{}).(int)
	p := &parkedC37{id: id, lock: h.Type == backend.LockFile, release: make(chan struct{})}
	g.mu.Lock()
	if p.lock {
		g.lockEntries++
	} else {
		g.inside++
		g.entries++
		if g.inside > g.maxInside {
			g.maxInside = g.inside
		}
		if g.inside > int(g.conns) && g.violation == "" {
			g.violation = fmt.Sprintf("%d non-lock operations inside the backend at the same time (caller %d: %s %v), limit is %d", g.inside, id, op, h, g.conns)
		}
	}
	g.mu.Unlock()
	g.arrivals <- p
	<-p.release
	if !p.lock {
		g.mu.Lock()
		g.inside--
		g.mu.Unlock()
	}
}

func (g *gateC37) snapshot() (inside, maxInside int, entries, lockEntries int64, violation string) {
	g.mu.Lock()
	defer g.mu.Unlock()
	return g.inside, g.maxInside, g.entries, g.lockEntries, g.violation
}

func (g *gateC37) Properties() backend.Properties {
	return backend.Properties{Connections: g.conns, HasAtomicReplace: true}
}
func (g *gateC37) Hasher() hash.Hash { return nil }
func (g *gateC37) Close() error      { return nil }
func (g *gateC37) Save(ctx context.Context, h backend.Handle, _ backend.RewindReader) error {
	g.enter(ctx, "Save", h)
	return nil
}
func (g *gateC37) Load(ctx context.Context, h backend.Handle, _ int, _ int64, _ func(io.Reader) error) error {
	g.enter(ctx, "Load", h)
	return nil
}
func (g *gateC37) Stat(ctx context.Context, h backend.Handle) (backend.FileInfo, error) {
	g.enter(ctx, "Stat", h)
	return backend.FileInfo{Name: h.Name}, nil
}
func (g *gateC37) Remove(ctx context.Context, h backend.Handle) error {
	g.enter(ctx, "Remove", h)
	return nil
}
func (g *gateC37) List(context.Context, backend.FileType, func(backend.FileInfo) error) error {
	return nil
}
func (g *gateC37) IsNotExist(error) bool        { return false }
func (g *gateC37) IsPermanentError(error) bool  { return false }
func (g *gateC37) Delete(context.Context) error { return nil }
func (g *gateC37) Warmup(context.Context, []backend.Handle) ([]backend.Handle, error) {
	return nil, nil
}
func (g *gateC37) WarmupWait(context.Context, []backend.Handle) error { return nil }

// ---- the schedule interpreter ----

const (
	lockTicksC37  = 1500             // a lock operation normally arrives within microseconds; see waitTicks
	lockWait2C37  = 10 * time.Second // second stage after everything was released
	stallTicksC37 = 4000             // an expected non-lock arrival that never comes (ticks as above)
	settleWaitC37 = 300 * time.Microsecond
)

type callerC37 struct {
	id      int
	op      int
	h       backend.Handle
	started chan struct{}
	done    chan struct{}
	arrived *parkedC37
	lock    bool
	cancel  context.CancelFunc
	// cancelledPending: the context was cancelled before the caller reached the backend, so it
	// is not expected to arrive any more (and is not counted in outstandingNL)
	cancelledPending bool
	cancelled        bool
}

type runC37 struct {
	gate   *gateC37
	be     backend.Backend
	conns  int
	trace  []string
	callID int

	callers        map[int]*callerC37
	parked         []*parkedC37 // arrived, not yet released (lock and non-lock)
	parkedNonLock  int
	outstandingNL  int // launched non-lock callers not yet released
	frozen         bool
	entriesAtFrz   int64
	freezeWindows  int
	lockWhileFull  int
	lockWhileFrz   int
	blockedWhileFz int // non-lock callers launched or unblocked by a release while frozen
	cancels        map[string]int
}

var opNamesC37 = []string{"Save", "Load", "Stat", "Remove"}
var nonLockTypesC37 = []backend.FileType{backend.PackFile, backend.KeyFile, backend.SnapshotFile, backend.IndexFile, backend.ConfigFile}

func (r *runC37) logf(format string, args ...any) {
	r.trace = append(r.trace, fmt.Sprintf(format, args...))
}

func (r *runC37) launch(op int, h backend.Handle, preCancelled bool) *callerC37 {
	r.callID++
	c := &callerC37{id: r.callID, op: op, h: h, started: make(chan struct{}), done: make(chan struct{}), lock: h.Type == backend.LockFile}
	r.callers[c.id] = c
	ctx, cancel := context.WithCancel(context.WithValue(context.Background(), ctxKeyC37{}, c.id))
	c.cancel = cancel
	if preCancelled {
		cancel()
		c.cancelled, c.cancelledPending = true, true
	}
	go func() {
		defer close(c.done)
		close(c.started)
		switch op {
		case 0:
			_ = r.be.Save(ctx, h, backend.NewByteReader([]byte("x"), nil))
		case 1:
			_ = r.be.Load(ctx, h, 0, 0, func(io.Reader) error { return nil })
		case 2:
			_, _ = r.be.Stat(ctx, h)
		case 3:
			_ = r.be.Remove(ctx, h)
		}
	}()
	<-c.started
	r.logf("launch #%d %s %v precancelled=%v", c.id, opNamesC37[op], h, preCancelled)
	return c
}

func (c *callerC37) returned() bool {
	select {
	case <-c.done:
		return true
	default:
		return false
	}
}

// pick returns the callers satisfying f, ordered by id.
func (r *runC37) pick(f func(*callerC37) bool) []*callerC37 {
	var out []*callerC37
	for id := 1; id <= r.callID; id++ {
		if c := r.callers[id]; c != nil && f(c) {
			out = append(out, c)
		}
	}
	return out
}

func (r *runC37) noteArrival(p *parkedC37) {
	r.parked = append(r.parked, p)
	if !p.lock {
		r.parkedNonLock++
	}
	if c := r.callers[p.id]; c != nil {
		c.arrived = p
		if c.cancelledPending && !p.lock {
			// entered although cancelled before: allowed only with a real slot - the gate's counter decides
			c.cancelledPending = false
			r.outstandingNL++
			r.cancels["cancelled-caller-entered-anyway"]++
		}
	}
	r.logf("arrived #%d lock=%v", p.id, p.lock)
}

// drain takes all arrivals that are already queued.
func (r *runC37) drain() {
	for {
		select {
		case p := <-r.gate.arrivals:
			r.noteArrival(p)
		default:
			return
		}
	}
}

// waitFor blocks until cond() holds, consuming arrivals; false on timeout.
func (r *runC37) waitFor(cond func() bool, d time.Duration) bool {
	r.drain()
	if cond() {
		return true
	}
	tm := time.NewTimer(d)
	defer tm.Stop()
	for {
		select {
		case p := <-r.gate.arrivals:
			r.noteArrival(p)
			if cond() {
				return true
			}
		case <-tm.C:
			return cond()
		}
	}
}

// waitTicks waits for cond() while consuming arrivals, and gives up only after this
// goroutine has itself been woken by n separate 1ms ticks (a Ticker drops ticks nobody
// receives): the verdict "did not arrive" then means that the scheduler ran this goroutine
// n times over at least n milliseconds while the awaited goroutine, which was runnable all
// the time and needs microseconds, made no progress. A stalled or overloaded process only
// stretches the wait.
func (r *runC37) waitTicks(cond func() bool, n int) bool {
	r.drain()
	if cond() {
		return true
	}
	t0 := time.Now()
	defer func() {
		if d := time.Since(t0); d > slowestWaitC37 {
			slowestWaitC37 = d
			slowestWaitInfoC37 = fmt.Sprintf("%v for %d ticks, last trace entries: %s", d, n, strings.Join(r.trace[max(0, len(r.trace)-6):], "; "))
		}
	}()
	tk := time.NewTicker(time.Millisecond)
	defer tk.Stop()
	hard := time.NewTimer(2 * time.Minute)
	defer hard.Stop()
	for ticks := 0; ticks < n; {
		select {
		case p := <-r.gate.arrivals:
			r.noteArrival(p)
			if cond() {
				return true
			}
		case <-tk.C:
			ticks++
			if cond() {
				return true
			}
		case <-hard.C:
			return cond()
		}
	}
	r.drain()
	return cond()
}

func (r *runC37) releaseIdx(i int) {
	p := r.parked[i]
	r.parked = append(r.parked[:i], r.parked[i+1:]...)
	if !p.lock {
		r.parkedNonLock--
		r.outstandingNL--
	}
	close(p.release)
	r.logf("release #%d", p.id)
}

func (r *runC37) expectedParked() int { return min(r.outstandingNL, r.conns) }

// diagnostics only: the longest single wait of this process (goes into the evidence notes)
var (
	slowestWaitC37     time.Duration
	slowestWaitInfoC37 string
)

type failC37 struct{ msg string }

// quiesce waits until exactly the callers that can hold a token are parked in the gate.
func (r *runC37) quiesce() *failC37 {
	if r.frozen {
		return nil
	}
	if !r.waitTicks(func() bool { return r.parkedNonLock >= r.expectedParked() }, stallTicksC37) {
		return &failC37{fmt.Sprintf("stall: %d non-lock callers outstanding, limit %d, but only %d reached the backend during %d scheduler ticks (not frozen) - operations are blocked although slots are free", r.outstandingNL, r.conns, r.parkedNonLock, stallTicksC37)}
	}
	return nil
}

func (r *runC37) invariant() *failC37 {
	_, maxInside, entries, _, viol := r.gate.snapshot()
	if viol != "" {
		return &failC37{"limit exceeded: " + viol}
	}
	if maxInside > r.conns {
		return &failC37{fmt.Sprintf("limit exceeded: high-water mark %d > Connections %d", maxInside, r.conns)}
	}
	if r.frozen && entries != r.entriesAtFrz {
		return &failC37{fmt.Sprintf("frozen: %d non-lock operation(s) entered the backend after Freeze() returned and before Unfreeze()", entries-r.entriesAtFrz)}
	}
	return nil
}

// lockOp launches a lock-file operation and requires that it reaches the gate no matter
// what. Returns (violation, inconclusive).
func (r *runC37) lockOp(op int, name string, preCancelled bool) (*failC37, bool) {
	full := r.parkedNonLock >= r.conns
	frozen := r.frozen
	c := r.launch(op, backend.Handle{Type: backend.LockFile, Name: name}, preCancelled)
	// a lock operation with a cancelled context returns at once instead of reaching the backend
	reached := func() bool { return c.arrived != nil || (preCancelled && c.returned()) }
	if r.waitTicks(reached, lockTicksC37) {
		if full {
			r.lockWhileFull++
		}
		if frozen {
			r.lockWhileFrz++
		}
		return nil, false
	}
	// not arrived: find out whether freeing the slots / unfreezing lets it through
	state := fmt.Sprintf("slots taken %d/%d, frozen=%v", r.parkedNonLock, r.conns, frozen)
	if r.frozen {
		r.be.(backend.FreezeBackend).Unfreeze()
		r.frozen = false
	}
	deadline := time.Now().Add(lockWait2C37)
	for !reached() && time.Now().Before(deadline) {
		for len(r.parked) > 0 {
			r.releaseIdx(0)
		}
		r.waitFor(func() bool { return reached() || len(r.parked) > 0 }, 50*time.Millisecond)
	}
	if reached() {
		return &failC37{fmt.Sprintf("lock-file operation #%d (%s) did not reach the backend during %d scheduler ticks (>= %d ms) while %s, but did after the slots were released and the backend unfrozen: lock operations were blocked", c.id, opNamesC37[op], lockTicksC37, lockTicksC37, state)}, false
	}
	return nil, true
}

// finish unfreezes, releases everything and waits for all callers to return.
func (r *runC37) finish() *failC37 {
	if r.frozen {
		r.be.(backend.FreezeBackend).Unfreeze()
		r.frozen = false
	}
	allDone := func() bool {
		for _, c := range r.callers {
			if !c.returned() {
				return false
			}
		}
		return true
	}
	for ticks := 0; ; ticks += 50 {
		r.drain()
		for len(r.parked) > 0 {
			r.releaseIdx(0)
		}
		if allDone() {
			return nil
		}
		if ticks >= stallTicksC37 {
			var stuck []string
			for _, c := range r.pick(func(c *callerC37) bool { return !c.returned() }) {
				stuck = append(stuck, fmt.Sprintf("#%d %s %v (reached backend=%v cancelled=%v)", c.id, opNamesC37[c.op], c.h, c.arrived != nil, c.cancelled))
			}
			return &failC37{fmt.Sprintf("stall: after everything was released and unfrozen, %d caller(s) never returned during %d scheduler ticks - blocked forever (e.g. releasing a token nobody holds): %s", len(stuck), stallTicksC37, strings.Join(stuck, ", "))}
		}
		r.waitTicks(func() bool { return len(r.parked) > 0 || allDone() }, 50)
	}
}

func TestVerifC37Sema(t *testing.T) {
	st := verifkit.Begin(t, "C37")
	defer func() { st.Note(fmt.Sprintf("slowest_wait_shard%d", verifkit.Shard()), slowestWaitInfoC37) }()
	rapid.Check(t, func(t *rapid.T) {
		conns := rapid.IntRange(1, 5).Draw(t, "connections")
		gate := &gateC37{conns: uint(conns), arrivals: make(chan *parkedC37, 1024)}
		r := &runC37{gate: gate, be: NewBackend(gate), conns: conns, callers: map[int]*callerC37{}, cancels: map[string]int{}}
		fz := r.be.(backend.FreezeBackend)

		var fail *failC37
		inconclusive := false
		nsteps := rapid.IntRange(4, 40).Draw(t, "nsteps")
		maxOutstanding := 0
	steps:
		for i := 0; i < nsteps && fail == nil; i++ {
			act := rapid.SampledFrom([]string{"nonlock", "nonlock", "nonlock", "burst", "lock", "lock", "release", "release", "freeze", "unfreeze", "settle", "cancel-queued", "cancel-queued", "cancel-parked", "cancel-returned"}).Draw(t, "action")
			switch act {
			case "nonlock", "burst":
				n := 1
				if act == "burst" {
					n = rapid.IntRange(2, 7).Draw(t, "burst")
				}
				for j := 0; j < n && r.callID < 60; j++ {
					op := rapid.IntRange(0, 3).Draw(t, "op")
					ft := rapid.SampledFrom(nonLockTypesC37).Draw(t, "type")
					pre := rapid.IntRange(0, 7).Draw(t, "precancelled") == 0
					r.launch(op, backend.Handle{Type: ft, Name: fmt.Sprintf("f%d", r.callID)}, pre)
					if pre {
						// takes (or queues for) a slot, then must return without entering the backend
						r.cancels["cancel=before-call(nonlock)"]++
						continue
					}
					r.outstandingNL++
					if r.frozen {
						r.blockedWhileFz++
					}
				}
				maxOutstanding = max(maxOutstanding, r.outstandingNL)
				fail = r.quiesce()
			case "lock":
				op := rapid.IntRange(0, 3).Draw(t, "op")
				pre := rapid.IntRange(0, 7).Draw(t, "precancelled") == 0
				if pre {
					r.cancels["cancel=before-call(lock)"]++
				}
				var inc bool
				fail, inc = r.lockOp(op, fmt.Sprintf("l%d", r.callID), pre)
				if inc {
					inconclusive = true
					break steps
				}
			case "release":
				if len(r.parked) == 0 {
					continue
				}
				idx := rapid.IntRange(0, len(r.parked)-1).Draw(t, "which")
				waiting := r.outstandingNL - r.parkedNonLock
				wasLock := r.parked[idx].lock
				r.releaseIdx(idx)
				if r.frozen && !wasLock && waiting > 0 {
					r.blockedWhileFz++
				}
				fail = r.quiesce()
			case "freeze":
				if r.frozen {
					continue
				}
				if fail = r.quiesce(); fail != nil {
					break
				}
				fz.Freeze()
				_, _, r.entriesAtFrz, _, _ = gate.snapshot()
				r.frozen = true
				r.freezeWindows++
				r.logf("freeze (entries=%d)", r.entriesAtFrz)
			case "unfreeze":
				if !r.frozen {
					continue
				}
				// give blocked callers a chance to slip through a broken freeze
				time.Sleep(settleWaitC37)
				r.drain()
				if fail = r.invariant(); fail != nil {
					break
				}
				r.frozen = false
				fz.Unfreeze()
				r.logf("unfreeze")
				fail = r.quiesce()
			case "settle":
				time.Sleep(settleWaitC37)
				r.drain()
			case "cancel-queued":
				// Only in a quiescent state: then every live caller that has not arrived is queued on the
				// semaphore (all slots are held by parked operations) or held back by the freeze, i.e. it
				// has provably not yet passed the token gate and its context check.
				if fail = r.quiesce(); fail != nil {
					break
				}
				cands := r.pick(func(c *callerC37) bool { return !c.lock && c.arrived == nil && !c.cancelled && !c.returned() })
				if len(cands) == 0 {
					continue
				}
				c := cands[rapid.IntRange(0, len(cands)-1).Draw(t, "which")]
				c.cancelled, c.cancelledPending = true, true
				r.outstandingNL--
				c.cancel()
				if r.frozen {
					r.cancels["cancel=while-held-back-by-freeze"]++
				} else {
					r.cancels["cancel=while-queued"]++
				}
				r.logf("cancel queued #%d", c.id)
				// a waiter that wrongly frees a slot lets another queued caller in: give it a moment
				time.Sleep(settleWaitC37)
				r.drain()
				fail = r.quiesce()
			case "cancel-parked":
				cands := r.pick(func(c *callerC37) bool { return c.arrived != nil && !c.cancelled && !c.returned() })
				if len(cands) == 0 {
					continue
				}
				c := cands[rapid.IntRange(0, len(cands)-1).Draw(t, "which")]
				stillParked := false
				for _, p := range r.parked {
					if p == c.arrived {
						stillParked = true
					}
				}
				if !stillParked {
					continue
				}
				c.cancelled = true
				c.cancel()
				r.cancels["cancel=while-parked"]++
				r.logf("cancel parked #%d", c.id)
			case "cancel-returned":
				cands := r.pick(func(c *callerC37) bool { return !c.cancelled && c.returned() })
				if len(cands) == 0 {
					continue
				}
				c := cands[rapid.IntRange(0, len(cands)-1).Draw(t, "which")]
				c.cancelled = true
				c.cancel()
				r.cancels["cancel=after-return"]++
				r.logf("cancel returned #%d", c.id)
			}
			if fail == nil {
				fail = r.invariant()
			}
		}
		if fail == nil && !inconclusive && r.frozen {
			time.Sleep(settleWaitC37)
			r.drain()
			fail = r.invariant()
		}
		ffail := r.finish()
		if fail == nil && !inconclusive {
			fail = ffail
		}
		if fail == nil && !inconclusive {
			fail = r.invariant()
		}

		_, maxInside, entries, lockEntries, _ := gate.snapshot()
		classes := []string{
			fmt.Sprintf("connections=%d", conns),
			fmt.Sprintf("limit-reached=%v", maxInside == conns),
			fmt.Sprintf("more-callers-than-slots=%v", maxOutstanding > conns),
			fmt.Sprintf("freeze-windows=%d", min(r.freezeWindows, 3)),
		}
		if r.lockWhileFull > 0 {
			classes = append(classes, "lock-op-while-all-slots-taken")
		}
		if r.lockWhileFrz > 0 {
			classes = append(classes, "lock-op-while-frozen")
		}
		if r.blockedWhileFz > 0 {
			classes = append(classes, "nonlock-caller-held-back-by-freeze")
		}
		if inconclusive {
			classes = append(classes, "inconclusive-lock-op-never-arrived")
		}
		for k := range r.cancels {
			classes = append(classes, k)
		}
		key := ""
		if maxOutstanding > conns && r.freezeWindows >= 1 {
			key = fmt.Sprintf("c=%d|%s", conns, strings.Join(r.trace, ";"))
		}
		st.Case(key, classes...)
		st.ClassN("nonlock-entries", int(entries))
		st.ClassN("lock-entries", int(lockEntries))
		if st.WantSample() {
			tr := r.trace
			if len(tr) > 40 {
				tr = tr[:40]
			}
			st.Sample(map[string]any{"connections": conns, "max_inside": maxInside, "entries": entries, "lock_entries": lockEntries, "freeze_windows": r.freezeWindows, "trace": strings.Join(tr, "; ")})
		}
		if fail != nil {
			t.Fatalf("%s\nConnections=%d, trace:\n  %s", fail.msg, conns, strings.Join(r.trace, "\n  "))
		}
		if inconclusive {
			t.Skip("lock operation never arrived, even after releasing everything")
		}
	})
}
