package dump

// Property C45: dumping a file writes exactly its content; dumping a directory as tar or
// zip yields, in tree order, exactly one entry for each file, directory and symlink below
// it with correct type, permission bits, link target and content, and no entry for other
// node types, for any concurrent blob loading order.
//
// A model tree is generated, serialised with data.TreeJSONBuilder into an in-memory
// restic.Loader whose LoadBlob sleeps a drawn per-blob (virtual, testing/synctest) time,
// so the completion order of the concurrent loaders is decided by the scenario. The
// archive is parsed back with archive/tar / archive/zip and compared with the model in
// both directions (every expected entry, no other entry, same order).

import (
	"archive/tar"
	"archive/zip"
	"bytes"
	"context"
	"crypto/sha256"
	"fmt"
	"io"
	"math/rand/v2"
	"os"
	"path"
	"sort"
	"strings"
	"sync"
	"sync/atomic"
	"testing"
	"testing/synctest"
	"time"

	"github.com/restic/restic/internal/bloblru"
	"github.com/restic/restic/internal/data"
	"github.com/restic/restic/internal/restic"
	"github.com/restic/restic/internal/verifkit"
	"pgregory.net/rapid"
)

// ---------- in-memory loader ----------

type loaderC45 struct {
	mu      sync.Mutex
	blobs   map[restic.BlobHandle][]byte
	delay   map[restic.ID]time.Duration
	missing map[restic.ID]bool
	conns   uint
	loads   atomic.Int64
	cur     atomic.Int32
	maxCur  atomic.Int32
}

func (l *loaderC45) Connections() uint { return l.conns }

func (l *loaderC45) LookupBlobSize(bh restic.BlobHandle) (uint, bool) {
	l.mu.Lock()
	defer l.mu.Unlock()
	b, ok := l.blobs[bh]
	return uint(len(b)), ok
}

func (l *loaderC45) LoadBlob(ctx context.Context, bh restic.BlobHandle, buf []byte) ([]byte, error) {
	l.mu.Lock()
	b, ok := l.blobs[bh]
	d := l.delay[bh.ID]
	miss := l.missing[bh.ID]
	l.mu.Unlock()
	if bh.Type == restic.DataBlob {
		n := l.cur.Add(1)
		for {
			m := l.maxCur.Load()
			if n <= m || l.maxCur.CompareAndSwap(m, n) {
				break
			}
		}
		defer l.cur.Add(-1)
	}
	l.loads.Add(1)
	if d > 0 {
		time.Sleep(d) // virtual time inside the synctest bubble
	}
	if !ok || miss {
		return nil, fmt.Errorf("blob %v not found", bh)
	}
	// like Repository.LoadBlob: a buffer handed in by the caller is used when it is large
	// enough (the bytes it held before are overwritten - a caller that still needs them, e.g.
	// because the blob cache refers to that slice, must not hand it in)
	if buf != nil && cap(buf) >= len(b) {
		out := buf[:len(b)]
		copy(out, b)
		return out, nil
	}
	out := make([]byte, len(b), len(b)+3)
	copy(out, b)
	return out, nil
}

func (l *loaderC45) put(t restic.BlobType, b []byte) restic.ID {
	id := restic.ID(sha256.Sum256(b))
	l.blobs[restic.BlobHandle{Type: t, ID: id}] = b
	return id
}

// ---------- model ----------

type mnodeC45 struct {
	Name   string
	Type   data.NodeType
	Mode   os.FileMode
	Blobs  []int // indexes into the blob pool
	Target string
	Kids   []*mnodeC45
	UID    uint32
	GID    uint32
	User   string
	MTime  time.Time
	Xattrs []data.ExtendedAttribute
}

type entryC45 struct {
	Name    string // as in the archive: relative, directories with trailing slash
	Type    data.NodeType
	Mode    os.FileMode // permission bits + setuid/setgid/sticky
	Target  string
	Content []byte
	Node    *mnodeC45
}

type scenarioC45 struct {
	Pool      [][]byte
	Top       []*mnodeC45
	RootPath  string
	Conns     uint
	CacheSize int
	Delays    []time.Duration // per pool blob
	TreeDelay time.Duration
	Missing   int // pool index of a blob that cannot be loaded, -1: none
	// TarMustFail: an archived node carries an xattr whose name contains '=', which a
	// PAX record key cannot hold; the tar dump has to fail rather than alter the name.
	TarMustFail bool
}

var namePoolC45 = []string{
	"a", "b", "c", "file", "dir", "x.txt", "lib", "0", "Z", "~", "-", "--help", "..a", ".hidden", "a b", " lead", "trail ",
	"tab\there", "new\nline", "back\\slash", "quote\"s", "star*", "q?", "colon:", "ünïcödé", "日本語", "emoji🙂", "a.tar", "a.zip",
	"\xff\xfe-not-utf8", "bad\x80", "PaxHeader", "@LongLink", "CON", "a=b", "%41",
}

func genNameC45(t *rapid.T) string {
	switch rapid.IntRange(0, 9).Draw(t, "nameclass") {
	case 0, 1, 2, 3:
		return rapid.SampledFrom(namePoolC45).Draw(t, "name")
	case 4, 5, 6:
		return rapid.StringMatching(`[a-e]{1,3}`).Draw(t, "name")
	case 7: // around the ustar limits (100 name / 155 prefix)
		n := rapid.SampledFrom([]int{99, 100, 101, 154, 155, 156, 255, 256, 300}).Draw(t, "longlen")
		return strings.Repeat(rapid.SampledFrom([]string{"L", "m", "é"}).Draw(t, "longch"), n)[:n]
	case 8:
		b := rapid.SliceOfN(rapid.ByteRange(1, 255), 1, 12).Draw(t, "rawname")
		s := strings.ReplaceAll(string(b), "/", "_")
		if s == "." || s == ".." {
			s = "dots"
		}
		return s
	default:
		return rapid.StringMatching(`[a-zA-Z0-9._ -]{1,20}`).Draw(t, "name")
	}
}

func genPermC45(t *rapid.T) os.FileMode {
	p := os.FileMode(rapid.OneOf(
		rapid.SampledFrom([]int{0o644, 0o755, 0o600, 0o777, 0, 0o400, 0o111, 0o4755, 0o2755, 0o1777}),
		rapid.IntRange(0, 0o777),
	).Draw(t, "perm"))
	m := p & os.ModePerm
	if p&0o4000 != 0 || rapid.IntRange(0, 15).Draw(t, "suid") == 0 {
		m |= os.ModeSetuid
	}
	if p&0o2000 != 0 || rapid.IntRange(0, 15).Draw(t, "sgid") == 0 {
		m |= os.ModeSetgid
	}
	if p&0o1000 != 0 || rapid.IntRange(0, 15).Draw(t, "sticky") == 0 {
		m |= os.ModeSticky
	}
	return m
}

var specialTypesC45 = []data.NodeType{data.NodeTypeFifo, data.NodeTypeCharDev, data.NodeTypeDev, data.NodeTypeSocket, data.NodeTypeIrregular}

func typeBitsC45(tp data.NodeType) os.FileMode {
	switch tp {
	case data.NodeTypeDir:
		return os.ModeDir
	case data.NodeTypeSymlink:
		return os.ModeSymlink
	case data.NodeTypeFifo:
		return os.ModeNamedPipe
	case data.NodeTypeCharDev:
		return os.ModeDevice | os.ModeCharDevice
	case data.NodeTypeDev:
		return os.ModeDevice
	case data.NodeTypeSocket:
		return os.ModeSocket
	case data.NodeTypeIrregular:
		return os.ModeIrregular
	}
	return 0
}

func genNodesC45(t *rapid.T, depth int, npool int, budget *int, top bool) []*mnodeC45 {
	lo, hi := 0, 5
	if top {
		lo, hi = 2, 8
	}
	n := rapid.IntRange(lo, hi).Draw(t, "nkids")
	seen := map[string]bool{}
	var out []*mnodeC45
	for i := 0; i < n && *budget > 0; i++ {
		name := genNameC45(t)
		if name == "" || name == "." || name == ".." || seen[name] {
			continue // not a possible directory entry
		}
		seen[name] = true
		*budget--
		nd := &mnodeC45{Name: name}
		k := rapid.IntRange(0, 99).Draw(t, "kind")
		switch {
		case k < 32:
			nd.Type = data.NodeTypeFile
			nb := rapid.OneOf(rapid.IntRange(0, 2), rapid.IntRange(3, 8)).Draw(t, "nblobs")
			for j := 0; j < nb; j++ {
				if j >= 2 && rapid.IntRange(0, 2).Draw(t, "rep") == 0 {
					nd.Blobs = append(nd.Blobs, nd.Blobs[rapid.IntRange(0, j-1).Draw(t, "repidx")])
				} else {
					nd.Blobs = append(nd.Blobs, rapid.IntRange(0, npool-1).Draw(t, "blob"))
				}
			}
		case k < 62 && depth < 3:
			nd.Type = data.NodeTypeDir
			nd.Kids = genNodesC45(t, depth+1, npool, budget, false)
		case k < 76:
			nd.Type = data.NodeTypeSymlink
			nd.Target = rapid.OneOf(
				rapid.SampledFrom([]string{"a", "../x", "/abs/olute", "dir/", "ünï", "with space", strings.Repeat("t", 101), strings.Repeat("T/", 130), "bad\xff"}),
				rapid.StringMatching(`[a-z./]{1,12}`),
			).Draw(t, "target")
		default:
			nd.Type = rapid.SampledFrom(specialTypesC45).Draw(t, "special")
		}
		nd.Mode = genPermC45(t) | typeBitsC45(nd.Type)
		if nd.Type == data.NodeTypeSymlink {
			nd.Mode = os.ModeSymlink | 0o777
		}
		nd.UID = rapid.SampledFrom([]uint32{0, 1000, 65534, 1 << 21, 1<<21 - 1, 1<<32 - 2}).Draw(t, "uid")
		nd.GID = rapid.SampledFrom([]uint32{0, 100, 1 << 21, 1<<32 - 2}).Draw(t, "gid")
		nd.User = rapid.SampledFrom([]string{"", "root", "user", "üser"}).Draw(t, "user")
		nd.MTime = time.Unix(int64(rapid.IntRange(631152000, 2208988800).Draw(t, "mtime")), int64(rapid.SampledFrom([]int{0, 1, 499999999, 500000000, 999999999}).Draw(t, "nsec"))).UTC()
		if rapid.IntRange(0, 5).Draw(t, "xattr") == 0 {
			nd.Xattrs = append(nd.Xattrs, data.ExtendedAttribute{
				Name:  rapid.SampledFrom([]string{"user.comment", "user.ünï", "security.selinux", "user.with space"}).Draw(t, "xname"),
				Value: rapid.SliceOfN(rapid.Byte(), 0, 20).Draw(t, "xvalue"),
			})
		}
		out = append(out, nd)
	}
	sort.Slice(out, func(i, j int) bool { return out[i].Name < out[j].Name })
	return out
}

func genScenarioC45(t *rapid.T) scenarioC45 {
	var sc scenarioC45
	np := rapid.IntRange(1, 8).Draw(t, "npool")
	seed := rapid.Uint64().Draw(t, "seed")
	r := rand.New(rand.NewPCG(seed, 45))
	haveBig := false
	for i := 0; i < np; i++ {
		var sz int
		switch rapid.IntRange(0, 9).Draw(t, "bsz") {
		case 0:
			sz = 0
		case 1, 2, 3:
			sz = rapid.IntRange(1, 50).Draw(t, "sz")
		case 4, 5, 6:
			sz = rapid.IntRange(51, 600).Draw(t, "sz")
		case 7, 8:
			sz = rapid.IntRange(500, 5000).Draw(t, "sz")
		default:
			sz = rapid.IntRange(33000, 70000).Draw(t, "sz") // beyond the deflate window and many tar blocks
			if haveBig {
				sz /= 64 // one large blob per pool keeps the archives small
			}
			haveBig = true
		}
		b := make([]byte, sz)
		compressible := rapid.Bool().Draw(t, "compressible")
		for j := range b {
			if compressible {
				b[j] = byte('a' + (j/7+i)%5)
			} else {
				b[j] = byte(r.Uint32())
			}
		}
		if len(b) > 0 {
			b[0] = byte(i) // pool blobs of equal size stay distinct
		}
		sc.Pool = append(sc.Pool, b)
		sc.Delays = append(sc.Delays, time.Duration(rapid.SampledFrom([]int{0, 0, 1, 2, 5, 20, 100}).Draw(t, "delay"))*time.Millisecond)
	}
	budget := 40
	sc.Top = genNodesC45(t, 0, np, &budget, true)
	sc.RootPath = rapid.SampledFrom([]string{"/", "/", "/sub", "/home/other/work", "/ünï/x"}).Draw(t, "rootpath")
	sc.Conns = uint(rapid.IntRange(1, 6).Draw(t, "conns"))
	sc.CacheSize = rapid.OneOf(rapid.IntRange(100, 2000), rapid.Just(64<<20)).Draw(t, "cache")
	sc.TreeDelay = time.Duration(rapid.SampledFrom([]int{0, 3, 50}).Draw(t, "treedelay")) * time.Millisecond
	sc.Missing = -1
	return sc
}

// saveTreeC45 serialises nodes (and, recursively, their subtrees) into the loader.
func saveTreeC45(l *loaderC45, sc *scenarioC45, nodes []*mnodeC45, ids map[*mnodeC45]*data.Node) (restic.ID, error) {
	b := data.NewTreeJSONBuilder()
	for _, m := range nodes {
		n := &data.Node{
			Name: m.Name, Type: m.Type, Mode: m.Mode, UID: m.UID, GID: m.GID, User: m.User, Group: m.User,
			ModTime: m.MTime, AccessTime: m.MTime.Add(time.Hour), ChangeTime: m.MTime.Add(time.Minute),
			ExtendedAttributes: m.Xattrs, LinkTarget: m.Target,
		}
		switch m.Type {
		case data.NodeTypeFile:
			n.Content = restic.IDs{}
			for _, bi := range m.Blobs {
				id := l.put(restic.DataBlob, sc.Pool[bi])
				l.delay[id] = sc.Delays[bi]
				n.Content = append(n.Content, id)
				n.Size += uint64(len(sc.Pool[bi]))
			}
		case data.NodeTypeDir:
			sub, err := saveTreeC45(l, sc, m.Kids, ids)
			if err != nil {
				return restic.ID{}, err
			}
			n.Subtree = &sub
		case data.NodeTypeCharDev, data.NodeTypeDev:
			n.Device = 0x0103
		}
		ids[m] = n
		if err := b.AddNode(n); err != nil {
			return restic.ID{}, err
		}
	}
	buf, err := b.Finalize()
	if err != nil {
		return restic.ID{}, err
	}
	id := l.put(restic.TreeBlob, buf)
	l.delay[id] = sc.TreeDelay
	return id, nil
}

func contentC45(sc *scenarioC45, m *mnodeC45) []byte {
	var c []byte
	for _, bi := range m.Blobs {
		c = append(c, sc.Pool[bi]...)
	}
	return c
}

// expectC45 lists the archive entries the statement demands, in tree order.
func expectC45(sc *scenarioC45, nodes []*mnodeC45, prefix string, out []entryC45) []entryC45 {
	for _, m := range nodes {
		p := path.Join(prefix, m.Name)
		rel := strings.TrimPrefix(p, "/")
		mode := m.Mode & (os.ModePerm | os.ModeSetuid | os.ModeSetgid | os.ModeSticky)
		switch m.Type {
		case data.NodeTypeFile:
			out = append(out, entryC45{Name: rel, Type: m.Type, Mode: mode, Content: contentC45(sc, m), Node: m})
		case data.NodeTypeSymlink:
			out = append(out, entryC45{Name: rel, Type: m.Type, Mode: mode, Target: m.Target, Node: m})
		case data.NodeTypeDir:
			out = append(out, entryC45{Name: rel + "/", Type: m.Type, Mode: mode, Node: m})
			out = expectC45(sc, m.Kids, p, out)
		}
	}
	return out
}

func tarModeC45(m os.FileMode) int64 {
	v := int64(m.Perm())
	if m&os.ModeSetuid != 0 {
		v |= 0o4000
	}
	if m&os.ModeSetgid != 0 {
		v |= 0o2000
	}
	if m&os.ModeSticky != 0 {
		v |= 0o1000
	}
	return v
}

func checkTarC45(out []byte, exp []entryC45) error {
	tr := tar.NewReader(bytes.NewReader(out))
	for i := 0; ; i++ {
		hdr, err := tr.Next()
		if err == io.EOF {
			if i != len(exp) {
				return fmt.Errorf("tar has %d entries, expected %d (first missing: %q)", i, len(exp), exp[i].Name)
			}
			break
		}
		if err != nil {
			return fmt.Errorf("tar entry %d unreadable: %v", i, err)
		}
		if i >= len(exp) {
			return fmt.Errorf("tar has an extra entry %q (type %c) after the %d expected ones", hdr.Name, hdr.Typeflag, len(exp))
		}
		e := exp[i]
		if hdr.Name != e.Name {
			return fmt.Errorf("tar entry %d is %q (type %c), expected %q (%s)", i, hdr.Name, hdr.Typeflag, e.Name, e.Type)
		}
		var wantType byte
		switch e.Type {
		case data.NodeTypeFile:
			wantType = tar.TypeReg
		case data.NodeTypeDir:
			wantType = tar.TypeDir
		case data.NodeTypeSymlink:
			wantType = tar.TypeSymlink
		}
		if hdr.Typeflag != wantType {
			return fmt.Errorf("tar entry %q has type %c, expected %c", hdr.Name, hdr.Typeflag, wantType)
		}
		if hdr.Mode != tarModeC45(e.Mode) {
			return fmt.Errorf("tar entry %q has mode %o, expected %o", hdr.Name, hdr.Mode, tarModeC45(e.Mode))
		}
		if hdr.Linkname != e.Target {
			return fmt.Errorf("tar entry %q has link target %q, expected %q", hdr.Name, hdr.Linkname, e.Target)
		}
		body, err := io.ReadAll(tr)
		if err != nil {
			return fmt.Errorf("tar entry %q body: %v", hdr.Name, err)
		}
		if hdr.Size != int64(len(e.Content)) || !bytes.Equal(body, e.Content) {
			return fmt.Errorf("tar entry %q has %d bytes (header size %d), expected %d; equal prefix %d", hdr.Name, len(body), hdr.Size, len(e.Content), commonPrefixC45(body, e.Content))
		}
		// attributes beyond the statement, which the dump code sets explicitly
		if hdr.Uid != int(e.Node.UID) || hdr.Gid != int(e.Node.GID) || hdr.Uname != e.Node.User {
			return fmt.Errorf("tar entry %q has owner %d/%d/%q, expected %d/%d/%q", hdr.Name, hdr.Uid, hdr.Gid, hdr.Uname, e.Node.UID, e.Node.GID, e.Node.User)
		}
		if d := hdr.ModTime.Sub(e.Node.MTime); d > time.Second || d < -time.Second {
			return fmt.Errorf("tar entry %q has mtime %v, expected %v", hdr.Name, hdr.ModTime, e.Node.MTime)
		}
		for _, x := range e.Node.Xattrs {
			if v, ok := hdr.PAXRecords["SCHILY.xattr."+x.Name]; !ok || v != string(x.Value) {
				return fmt.Errorf("tar entry %q lacks xattr %q=%x (has %q, present %v)", hdr.Name, x.Name, x.Value, v, ok)
			}
		}
	}
	// a complete archive ends with two zero blocks
	if len(out)%512 != 0 || len(out) < 1024 || !bytes.Equal(out[len(out)-1024:], make([]byte, 1024)) {
		return fmt.Errorf("tar output (%d bytes) does not end with the end-of-archive marker", len(out))
	}
	return nil
}

func commonPrefixC45(a, b []byte) int {
	n := 0
	for n < len(a) && n < len(b) && a[n] == b[n] {
		n++
	}
	return n
}

func checkZipC45(out []byte, exp []entryC45) error {
	zr, err := zip.NewReader(bytes.NewReader(out), int64(len(out)))
	if err != nil {
		return fmt.Errorf("zip unreadable: %v", err)
	}
	if len(zr.File) != len(exp) {
		var names []string
		for _, f := range zr.File {
			names = append(names, f.Name)
		}
		return fmt.Errorf("zip has %d entries %q, expected %d", len(zr.File), names, len(exp))
	}
	for i, f := range zr.File {
		e := exp[i]
		if f.Name != e.Name {
			return fmt.Errorf("zip entry %d is %q, expected %q (%s)", i, f.Name, e.Name, e.Type)
		}
		mode := f.Mode()
		var wantType os.FileMode
		switch e.Type {
		case data.NodeTypeDir:
			wantType = os.ModeDir
		case data.NodeTypeSymlink:
			wantType = os.ModeSymlink
		}
		if mode&os.ModeType != wantType {
			return fmt.Errorf("zip entry %q has mode %v, expected type bits %v", f.Name, mode, wantType)
		}
		if mode&(os.ModePerm|os.ModeSetuid|os.ModeSetgid|os.ModeSticky) != e.Mode {
			return fmt.Errorf("zip entry %q has mode %v, expected permission bits %v", f.Name, mode, e.Mode)
		}
		rc, err := f.Open()
		if err != nil {
			return fmt.Errorf("zip entry %q: %v", f.Name, err)
		}
		body, err := io.ReadAll(rc)
		_ = rc.Close()
		if err != nil {
			return fmt.Errorf("zip entry %q body: %v", f.Name, err)
		}
		want := e.Content
		if e.Type == data.NodeTypeSymlink {
			want = []byte(e.Target) // zip stores the link target as the entry's data
		}
		if !bytes.Equal(body, want) || f.UncompressedSize64 != uint64(len(want)) {
			return fmt.Errorf("zip entry %q has %d bytes (header %d), expected %d; equal prefix %d", f.Name, len(body), f.UncompressedSize64, len(want), commonPrefixC45(body, want))
		}
		if d := f.Modified.Sub(e.Node.MTime); d > 2*time.Second || d < -2*time.Second {
			return fmt.Errorf("zip entry %q has mtime %v, expected %v", f.Name, f.Modified, e.Node.MTime)
		}
	}
	return nil
}

type statsC45 struct {
	files, multiBlobRepeat, topSpecial, nestedSpecial, symlinks, dirs, entries int
	longName, nonUTF8, emptyFile                                                bool
}

func surveyC45(nodes []*mnodeC45, depth int, s *statsC45) {
	for _, m := range nodes {
		if len(m.Name) > 100 {
			s.longName = true
		}
		if !validUTF8C45(m.Name) {
			s.nonUTF8 = true
		}
		switch m.Type {
		case data.NodeTypeFile:
			s.files++
			if len(m.Blobs) == 0 {
				s.emptyFile = true
			}
			seen := map[int]bool{}
			rep := false
			for _, b := range m.Blobs {
				rep = rep || seen[b]
				seen[b] = true
			}
			if len(m.Blobs) >= 3 && rep {
				s.multiBlobRepeat++
			}
		case data.NodeTypeDir:
			s.dirs++
			surveyC45(m.Kids, depth+1, s)
		case data.NodeTypeSymlink:
			s.symlinks++
		default:
			if depth == 0 {
				s.topSpecial++
			} else {
				s.nestedSpecial++
			}
		}
	}
}

func validUTF8C45(s string) bool { return strings.ToValidUTF8(s, "\x00") == s }

// runC45 builds the repository content and dumps it in both formats (and every file on
// its own) inside a synctest bubble. It returns a description of the first violation.
func runC45(outer *testing.T, sc *scenarioC45) (violation string, maxConc int32) {
	synctest.Test(outer, func(t *testing.T) {
		ctx := context.Background()
		l := &loaderC45{blobs: map[restic.BlobHandle][]byte{}, delay: map[restic.ID]time.Duration{}, missing: map[restic.ID]bool{}, conns: sc.Conns}
		nodes := map[*mnodeC45]*data.Node{}
		root, err := saveTreeC45(l, sc, sc.Top, nodes)
		if err != nil {
			violation = "harness: cannot build tree: " + err.Error()
			return
		}
		exp := expectC45(sc, sc.Top, sc.RootPath, nil)
		affected := false // the unloadable blob is part of a file below the dumped directory
		if sc.Missing >= 0 {
			id := restic.ID(sha256.Sum256(sc.Pool[sc.Missing]))
			l.missing[id] = true
			for _, e := range exp {
				for _, bi := range e.Node.Blobs {
					if e.Type == data.NodeTypeFile && restic.ID(sha256.Sum256(sc.Pool[bi])) == id {
						affected = true
					}
				}
			}
		}
		for _, format := range []string{"tar", "zip"} {
			tree, err := data.LoadTree(ctx, l, root)
			if err != nil {
				violation = "harness: LoadTree: " + err.Error()
				return
			}
			var buf bytes.Buffer
			d := New(format, l, &buf)
			d.cache = bloblru.New(sc.CacheSize)
			err = d.DumpTree(ctx, tree, sc.RootPath)
			if affected {
				if err == nil {
					violation = fmt.Sprintf("%s: DumpTree returned no error although blob %d of a dumped file cannot be loaded (%d bytes written)", format, sc.Missing, buf.Len())
					return
				}
				continue
			}
			if format == "tar" && sc.TarMustFail {
				if err == nil {
					violation = "tar: DumpTree succeeded although an xattr name cannot be represented as a PAX record"
					return
				}
				continue
			}
			if err != nil {
				violation = fmt.Sprintf("%s: DumpTree failed on a loadable tree: %v", format, err)
				return
			}
			if format == "tar" {
				err = checkTarC45(buf.Bytes(), exp)
			} else {
				err = checkZipC45(buf.Bytes(), exp)
			}
			if err != nil {
				violation = err.Error()
				return
			}
		}
		// single files: the raw content, no archive
		for _, e := range exp {
			if e.Type != data.NodeTypeFile {
				continue
			}
			var buf bytes.Buffer
			d := New("tar", l, &buf)
			d.cache = bloblru.New(sc.CacheSize)
			n := *nodes[e.Node]
			err := d.WriteNode(ctx, &n)
			bad := false
			for _, bi := range e.Node.Blobs {
				bad = bad || sc.Missing >= 0 && bytes.Equal(sc.Pool[bi], sc.Pool[sc.Missing])
			}
			if bad {
				if err == nil {
					violation = fmt.Sprintf("WriteNode(%q) returned no error although a blob cannot be loaded", e.Name)
					return
				}
				continue
			}
			if err != nil {
				violation = fmt.Sprintf("WriteNode(%q) failed: %v", e.Name, err)
				return
			}
			if !bytes.Equal(buf.Bytes(), e.Content) {
				violation = fmt.Sprintf("WriteNode(%q) wrote %d bytes, expected %d; equal prefix %d (blobs %v)", e.Name, buf.Len(), len(e.Content), commonPrefixC45(buf.Bytes(), e.Content), e.Node.Blobs)
				return
			}
		}
		maxConc = l.maxCur.Load()
	})
	return violation, maxConc
}

func describeC45(nodes []*mnodeC45, indent string, sb *strings.Builder) {
	for _, m := range nodes {
		fmt.Fprintf(sb, "%s%q %s %v", indent, m.Name, m.Type, m.Mode)
		if m.Type == data.NodeTypeFile {
			fmt.Fprintf(sb, " blobs=%v", m.Blobs)
		}
		if m.Type == data.NodeTypeSymlink {
			fmt.Fprintf(sb, " -> %q", m.Target)
		}
		sb.WriteString("\n")
		describeC45(m.Kids, indent+"  ", sb)
	}
}

func caseC45(st *verifkit.Stats, outer *testing.T, rt *rapid.T, sc *scenarioC45, prefix string) {
	var sv statsC45
	surveyC45(sc.Top, 0, &sv)
	violation, maxConc := runC45(outer, sc)
	classes := []string{}
	add := func(c string, ok bool) {
		if ok {
			classes = append(classes, prefix+c)
		}
	}
	add("file-with>=3-blobs-and-repeat", sv.multiBlobRepeat > 0)
	add("special-at-top-level", sv.topSpecial > 0)
	add("special-nested", sv.nestedSpecial > 0)
	add("symlink", sv.symlinks > 0)
	add("dir", sv.dirs > 0)
	add("empty-file", sv.emptyFile)
	add("name>100", sv.longName)
	add("name-not-utf8", sv.nonUTF8)
	add("rootpath=/", sc.RootPath == "/")
	add("rootpath=subdir", sc.RootPath != "/")
	add("small-cache", sc.CacheSize < 64<<20)
	add("concurrent-loads>=2", maxConc >= 2)
	add("unloadable-blob", sc.Missing >= 0)
	add("tar-must-fail", sc.TarMustFail)
	key := ""
	if sv.multiBlobRepeat > 0 && sv.topSpecial > 0 && sv.nestedSpecial > 0 {
		var sb strings.Builder
		describeC45(sc.Top, "", &sb)
		key = fmt.Sprintf("%s|%d|%v|%s", sc.RootPath, sc.Conns, sc.Delays, sb.String())
	}
	st.Case(key, classes...)
	if st.WantSample() {
		st.Sample(map[string]any{"files": sv.files, "dirs": sv.dirs, "symlinks": sv.symlinks, "top_special": sv.topSpecial, "nested_special": sv.nestedSpecial, "rootpath": sc.RootPath, "conns": sc.Conns})
	}
	if violation != "" {
		var sb strings.Builder
		describeC45(sc.Top, "  ", &sb)
		rt.Fatalf("C45 violated: %s\nrootPath %q, connections %d, cache %d, delays %v, tree:\n%s", violation, sc.RootPath, sc.Conns, sc.CacheSize, sc.Delays, sb.String())
	}
}

func TestVerifC45Dump(t *testing.T) {
	st := verifkit.Begin(t, "C45")
	rapid.Check(t, func(rt *rapid.T) {
		sc := genScenarioC45(rt)
		caseC45(st, t, rt, &sc, "")
	})
}

// TestVerifC45LoadError: one blob of the pool cannot be loaded; the dump must fail
// instead of producing a complete-looking archive, whatever the loading order is.
func TestVerifC45LoadError(t *testing.T) {
	st := verifkit.Begin(t, "C45")
	rapid.Check(t, func(rt *rapid.T) {
		sc := genScenarioC45(rt)
		sc.Missing = rapid.IntRange(0, len(sc.Pool)-1).Draw(rt, "missing")
		caseC45(st, t, rt, &sc, "loaderr:")
	})
}

// TestVerifC45UnrepresentableXattr: an xattr name with '=' cannot be a PAX record key.
// The tar dump must report an error (not write an altered or truncated record); the zip
// dump, which carries no xattrs, is unaffected.
func TestVerifC45UnrepresentableXattr(t *testing.T) {
	st := verifkit.Begin(t, "C45")
	rapid.Check(t, func(rt *rapid.T) {
		sc := genScenarioC45(rt)
		exp := expectC45(&sc, sc.Top, sc.RootPath, nil)
		if len(exp) == 0 {
			rt.Skip("nothing to archive")
		}
		n := exp[rapid.IntRange(0, len(exp)-1).Draw(rt, "victim")].Node
		n.Xattrs = append(n.Xattrs, data.ExtendedAttribute{Name: rapid.SampledFrom([]string{"user.k=v", "user.=", "=", "trusted.a=b=c"}).Draw(rt, "xname"), Value: []byte("v")})
		sc.TarMustFail = true
		caseC45(st, t, rt, &sc, "xattr=:")
	})
}

// TestVerifC45SpecialNodes is the regression probe of the repaired defect (known finding
// C45:toplevel-special-nodes-archived): every special node type once at the top level of
// the dumped directory and once nested, next to one file, one symlink and one directory.
func TestVerifC45SpecialNodes(t *testing.T) {
	st := verifkit.Begin(t, "C45")
	rapid.Check(t, func(rt *rapid.T) {
		var sc scenarioC45
		sc.Pool = [][]byte{[]byte("hello "), []byte("world"), {}}
		sc.Delays = []time.Duration{time.Duration(rapid.IntRange(0, 3).Draw(rt, "d0")) * time.Millisecond, time.Duration(rapid.IntRange(0, 3).Draw(rt, "d1")) * time.Millisecond, 0}
		mk := func(name string, tp data.NodeType) *mnodeC45 {
			return &mnodeC45{Name: name, Type: tp, Mode: 0o640 | typeBitsC45(tp), MTime: time.Unix(1700000000, 0).UTC()}
		}
		// which special types, where
		var top, nested []*mnodeC45
		for i, tp := range specialTypesC45 {
			where := rapid.IntRange(0, 3).Draw(rt, "where") // bit 0: top, bit 1: nested
			if where&1 != 0 {
				top = append(top, mk(fmt.Sprintf("s%d-%s", i, tp), tp))
			}
			if where&2 != 0 {
				nested = append(nested, mk(fmt.Sprintf("n%d-%s", i, tp), tp))
			}
		}
		f := mk("file", data.NodeTypeFile)
		f.Blobs = []int{0, 1, 0}
		lnk := mk("link", data.NodeTypeSymlink)
		lnk.Target = "file"
		lnk.Mode = os.ModeSymlink | 0o777
		nf := mk("inner", data.NodeTypeFile)
		nf.Blobs = []int{1, 2, 1, 1}
		dir := mk("d", data.NodeTypeDir)
		dir.Mode = os.ModeDir | 0o750
		dir.Kids = append(nested, nf)
		sort.Slice(dir.Kids, func(i, j int) bool { return dir.Kids[i].Name < dir.Kids[j].Name })
		sc.Top = append(top, f, lnk, dir)
		// the special node may also be the first / the only / the last node of the level
		if rapid.IntRange(0, 4).Draw(rt, "onlyspecial") == 0 && len(top) > 0 {
			sc.Top = top
		}
		sort.Slice(sc.Top, func(i, j int) bool { return sc.Top[i].Name < sc.Top[j].Name })
		sc.RootPath = rapid.SampledFrom([]string{"/", "/sub"}).Draw(rt, "rootpath")
		sc.Conns = uint(rapid.IntRange(1, 3).Draw(rt, "conns"))
		sc.CacheSize = 64 << 20
		sc.Missing = -1
		caseC45(st, t, rt, &sc, "probe:")
	})
}
