package archiver

// Property C17: splitting a file yields chunks whose concatenation is the file, every
// chunk except the last has a size between the minimum and maximum chunk size, and the
// chunk boundaries depend only on the content and the repository polynomial, not on read
// sizes or on previously processed files. Inserting or deleting bytes changes only the
// chunks around the edit.
//
// The code under test is the real file saver: newFileSaver with ONE worker (one reused
// chunker and one reused fileChunkState), fed through Save with fs.File fakes whose Read
// follows a drawn short-read pattern, the chunker coming from a real repository's
// ChunkerFactory (internal/repository/chunker.go over github.com/restic/chunker). The
// blob saver is a fake that records hash and length of every chunk.
//
// References: (1) the library's Chunker.Next over the whole buffer, (2) a bit-serial
// Rabin fingerprint written here from the definition (polynomial long division bit by
// bit, no tables), which defines the cut points as a function of the content only.

import (
	"bytes"
	"context"
	"crypto/sha256"
	"encoding/binary"
	"errors"
	"fmt"
	"io"
	"math/bits"
	"math/rand/v2"
	"strings"
	"sync"
	"testing"

	"github.com/restic/chunker"
	"github.com/restic/restic/internal/backend/mem"
	"github.com/restic/restic/internal/data"
	"github.com/restic/restic/internal/fs"
	"github.com/restic/restic/internal/repository"
	"github.com/restic/restic/internal/restic"
	"github.com/restic/restic/internal/verifkit"
	"golang.org/x/sync/errgroup"
	"pgregory.net/rapid"
)

const (
	minSizeC17 = 512 * 1024
	maxSizeC17 = 8 * 1024 * 1024
	bufSizeC17 = 512 * 1024 // chunkReadBufSize
)

// ---------- polynomials and chunker factories ----------

type prfReaderC17 struct{ c *rand.ChaCha8 }

func (r prfReaderC17) Read(p []byte) (int, error) { return r.c.Read(p) }

func seed32C17(seed uint64, domain byte) [32]byte {
	var s [32]byte
	binary.LittleEndian.PutUint64(s[:], seed)
	s[31] = domain
	return s
}

var polStateC17 struct {
	sync.Mutex
	pols      []chunker.Pol
	factories map[chunker.Pol]restic.ChunkerFactory
}

// polsC17 returns the polynomials used: restic's test polynomial and three polynomials
// derived with the library's own DerivePolynomial from fixed pseudo-random streams.
func polsC17(t testing.TB) []chunker.Pol {
	polStateC17.Lock()
	defer polStateC17.Unlock()
	if polStateC17.pols == nil {
		polStateC17.pols = []chunker.Pol{0x3DA3358B4DC173}
		for i := uint64(1); i <= 3; i++ {
			p, err := chunker.DerivePolynomial(prfReaderC17{rand.NewChaCha8(seed32C17(i, 'p'))})
			if err != nil {
				t.Fatalf("DerivePolynomial: %v", err)
			}
			polStateC17.pols = append(polStateC17.pols, p)
		}
		polStateC17.factories = map[chunker.Pol]restic.ChunkerFactory{}
	}
	return polStateC17.pols
}

// factoryC17 returns the ChunkerFactory of a real repository initialised with pol.
func factoryC17(t testing.TB, pol chunker.Pol) restic.ChunkerFactory {
	polStateC17.Lock()
	defer polStateC17.Unlock()
	if f, ok := polStateC17.factories[pol]; ok {
		return f
	}
	repository.TestUseLowSecurityKDFParameters(t)
	repo, err := repository.New(mem.New(), repository.Options{})
	if err != nil {
		t.Fatalf("repository.New: %v", err)
	}
	p := pol
	if err := repo.Init(context.Background(), restic.StableRepoVersion, "verif", &p); err != nil {
		t.Fatalf("repo.Init: %v", err)
	}
	if repo.Config().ChunkerPolynomial != pol {
		t.Fatalf("repository has polynomial %v, wanted %v", repo.Config().ChunkerPolynomial, pol)
	}
	f := repo.ChunkerFactory()
	polStateC17.factories[pol] = f
	return f
}

// ---------- content recipes ----------

type segC17 struct {
	Kind   string // "zeros" | "random" | "periodic"
	Len    int
	Seed   uint64
	Period int
}

type editC17 struct {
	Kind string // "insert" | "delete" | "overwrite"
	Pos  int
	Len  int
	Seed uint64
}

type recipeC17 struct {
	Segs []segC17
	Edit *editC17
}

func (r recipeC17) String() string {
	var sb strings.Builder
	for i, s := range r.Segs {
		if i > 0 {
			sb.WriteString("+")
		}
		switch s.Kind {
		case "zeros":
			fmt.Fprintf(&sb, "zeros(%d)", s.Len)
		case "random":
			fmt.Fprintf(&sb, "random(%d,seed=%d)", s.Len, s.Seed)
		default:
			fmt.Fprintf(&sb, "periodic(%d,period=%d,seed=%d)", s.Len, s.Period, s.Seed)
		}
	}
	if r.Edit != nil {
		fmt.Fprintf(&sb, " then %s(pos=%d,len=%d,seed=%d)", r.Edit.Kind, r.Edit.Pos, r.Edit.Len, r.Edit.Seed)
	}
	return sb.String()
}

func (r recipeC17) baseSize() int {
	n := 0
	for _, s := range r.Segs {
		n += s.Len
	}
	return n
}

func fillRandomC17(b []byte, seed uint64) {
	_, _ = rand.NewChaCha8(seed32C17(seed, 'd')).Read(b)
}

func (r recipeC17) build() []byte {
	out := make([]byte, 0, r.baseSize()+1<<20)
	for _, s := range r.Segs {
		start := len(out)
		out = out[:start+s.Len]
		seg := out[start:]
		switch s.Kind {
		case "zeros":
			clear(seg)
		case "random":
			fillRandomC17(seg, s.Seed)
		default:
			pat := make([]byte, s.Period)
			fillRandomC17(pat, s.Seed)
			for i := 0; i < len(seg); i += len(pat) {
				copy(seg[i:], pat)
			}
		}
	}
	if e := r.Edit; e != nil {
		switch e.Kind {
		case "insert":
			ins := make([]byte, e.Len)
			fillRandomC17(ins, e.Seed)
			out = append(out, ins...) // grow
			copy(out[e.Pos+e.Len:], out[e.Pos:len(out)-e.Len])
			copy(out[e.Pos:], ins)
		case "delete":
			out = append(out[:e.Pos], out[e.Pos+e.Len:]...)
		default:
			fillRandomC17(out[e.Pos:e.Pos+e.Len], e.Seed)
		}
	}
	return out
}

func genSizeC17(t *rapid.T, maxMiB int) int {
	const MiB = 1 << 20
	switch rapid.IntRange(0, 19).Draw(t, "sizeclass") {
	case 0, 1:
		return rapid.SampledFrom([]int{0, 1, 63, 64, 65, 2000}).Draw(t, "tiny")
	case 2, 3, 4:
		// around multiples of the 512 KiB read buffer
		k := rapid.IntRange(1, 8).Draw(t, "bufmult")
		return k*bufSizeC17 + rapid.IntRange(-1, 1).Draw(t, "bufdelta")
	case 5, 6, 7:
		// around multiples of the maximum chunk size
		k := rapid.IntRange(1, min(3, maxMiB/8)).Draw(t, "maxmult")
		return k*maxSizeC17 + rapid.SampledFrom([]int{-1, 0, 1, 64, minSizeC17 - 1, minSizeC17, minSizeC17 + 1}).Draw(t, "maxdelta")
	case 8:
		return rapid.IntRange(12*MiB, maxMiB*MiB).Draw(t, "large")
	default:
		return rapid.IntRange(2*MiB, 12*MiB).Draw(t, "medium")
	}
}

func genSegC17(t *rapid.T, n int) segC17 {
	s := segC17{Len: n, Seed: rapid.Uint64Range(0, 1<<20).Draw(t, "seed")}
	switch rapid.IntRange(0, 9).Draw(t, "kind") {
	case 0, 1:
		s.Kind = "zeros"
	case 2, 3, 4:
		s.Kind = "periodic"
		s.Period = rapid.SampledFrom([]int{1, 2, 3, 7, 63, 64, 65, 100, 4096, bufSizeC17 - 1, bufSizeC17, bufSizeC17 + 1, 1 << 20}).Draw(t, "period")
	default:
		s.Kind = "random"
	}
	return s
}

func genRecipeC17(t *rapid.T, maxMiB int) recipeC17 {
	total := genSizeC17(t, maxMiB)
	nseg := 1
	if total > 4 && rapid.IntRange(0, 9).Draw(t, "multi") < 4 {
		nseg = rapid.IntRange(2, 4).Draw(t, "nseg")
	}
	var r recipeC17
	rest := total
	for i := 0; i < nseg; i++ {
		n := rest
		if i < nseg-1 {
			n = rapid.IntRange(0, rest).Draw(t, "seglen")
		}
		rest -= n
		s := genSegC17(t, n)
		if i > 0 && rapid.IntRange(0, 3).Draw(t, "sameseed") == 0 {
			// the same content as an earlier segment, at another offset
			prev := r.Segs[rapid.IntRange(0, i-1).Draw(t, "prevseg")]
			s.Kind, s.Seed, s.Period = prev.Kind, prev.Seed, prev.Period
		}
		r.Segs = append(r.Segs, s)
	}
	return r
}

func genEditC17(t *rapid.T, size int) *editC17 {
	e := &editC17{Seed: rapid.Uint64Range(1<<20, 1<<21).Draw(t, "eseed")}
	e.Kind = rapid.SampledFrom([]string{"insert", "delete", "overwrite"}).Draw(t, "ekind")
	e.Len = rapid.SampledFrom([]int{1, 2, 63, 64, 65, 1000, 4096, 600000}).Draw(t, "elen")
	if e.Kind != "insert" {
		e.Len = min(e.Len, size)
	}
	hi := size
	if e.Kind != "insert" {
		hi = size - e.Len
	}
	e.Pos = rapid.OneOf(rapid.IntRange(0, hi), rapid.SampledFrom([]int{0, hi, hi / 2})).Draw(t, "epos")
	return e
}

// ---------- short-read reader / fs.File fake ----------

type patC17 struct {
	Sizes       []int // cyclic; 0 means a (0, nil) read
	EOFWithData bool  // the read that delivers the last byte also returns io.EOF
}

type fileC17 struct {
	data                   []byte
	off                    int
	pat                    patC17
	i                      int
	short, zero, afterEOF  int
	eofWithDataHappened    bool
	closed                 bool
	failAt                 int // >= 0: Read fails once this offset is reached
	readAfterClose, reads  int
}

func (f *fileC17) Read(p []byte) (int, error) {
	f.reads++
	if f.closed {
		f.readAfterClose++
	}
	if f.failAt >= 0 && f.off >= f.failAt {
		return 0, errInjectedC17
	}
	if f.off >= len(f.data) {
		f.afterEOF++
		return 0, io.EOF
	}
	k := f.pat.Sizes[f.i%len(f.pat.Sizes)]
	f.i++
	if k == 0 {
		f.zero++
		return 0, nil
	}
	n := min(k, len(p), len(f.data)-f.off)
	if f.failAt >= 0 {
		n = min(n, f.failAt-f.off)
	}
	copy(p, f.data[f.off:f.off+n])
	f.off += n
	if n < len(p) {
		f.short++
	}
	if f.off == len(f.data) && f.pat.EOFWithData {
		f.eofWithDataHappened = true
		return n, io.EOF
	}
	return n, nil
}

var errInjectedC17 = errors.New("injected read error")

func (f *fileC17) MakeReadable() error                 { return nil }
func (f *fileC17) Close() error                        { f.closed = true; return nil }
func (f *fileC17) Readdirnames(int) ([]string, error)  { return nil, fmt.Errorf("not a directory") }
func (f *fileC17) Stat() (*fs.ExtendedFileInfo, error) { return &fs.ExtendedFileInfo{Name: "f"}, nil }
func (f *fileC17) ToNode(bool, func(string, ...any)) (*data.Node, error) {
	return &data.Node{Name: "f", Type: data.NodeTypeFile}, nil
}

func genPatternC17(t *rapid.T, size int) (patC17, string) {
	var p patC17
	kind := rapid.SampledFrom([]string{"full", "full", "one-byte", "primes", "zero-nil", "buf-edge", "mixed", "mixed"}).Draw(t, "patkind")
	if kind == "one-byte" && size > 6<<20 {
		kind = "primes" // keep the number of Read calls per case bounded
	}
	switch kind {
	case "full":
		p.Sizes = []int{1 << 30}
	case "one-byte":
		p.Sizes = []int{1}
	case "primes":
		p.Sizes = []int{rapid.SampledFrom([]int{7, 251, 4093, 65537, 524287}).Draw(t, "prime")}
	case "zero-nil":
		p.Sizes = []int{0, rapid.SampledFrom([]int{1 << 30, 4093, 100000}).Draw(t, "zn"), 0, 0}
	case "buf-edge":
		p.Sizes = []int{bufSizeC17 + rapid.IntRange(-2, 0).Draw(t, "edge"), rapid.SampledFrom([]int{1, 2, bufSizeC17}).Draw(t, "edge2")}
	default:
		n := rapid.IntRange(2, 8).Draw(t, "patlen")
		for i := 0; i < n; i++ {
			p.Sizes = append(p.Sizes, rapid.SampledFrom([]int{0, 1, 2, 63, 64, 65, 1000, 4096, 65536, 100003, bufSizeC17 - 1, bufSizeC17, 1 << 30}).Draw(t, "ps"))
		}
		small := true
		for _, s := range p.Sizes {
			small = small && s <= 2
		}
		if small || size > 6<<20 {
			p.Sizes = append(p.Sizes, 100003) // progress guarantee / bounded call count
		}
	}
	p.EOFWithData = rapid.Bool().Draw(t, "eofwithdata")
	return p, kind
}

// ---------- blob saver fake ----------

type saverC17 struct {
	mu    sync.Mutex
	sizes map[restic.ID]int
	wg    sync.WaitGroup
}

func (s *saverC17) SaveBlobAsync(_ context.Context, tpe restic.BlobType, buf []byte, _ restic.ID, _ bool, cb func(newID restic.ID, known bool, sizeInRepo int, err error)) {
	id := restic.ID(sha256.Sum256(buf)) // hashing in the caller = back pressure like a full upload queue
	s.mu.Lock()
	_, known := s.sizes[id]
	s.sizes[id] = len(buf)
	s.mu.Unlock()
	s.wg.Add(1)
	go func() { // "The callback is called asynchronously from a different goroutine."
		defer s.wg.Done()
		cb(id, known, len(buf), nil)
	}()
}

// ---------- references ----------

// refCutsC17 computes the chunk ends from the definition: the fingerprint of the last 64
// bytes is the remainder of the window polynomial modulo pol, computed bit by bit; a
// chunk ends at the first position at least minSize after its start where the low 20 bits
// of the fingerprint are zero, or at maxSize. The window rolls over the whole file, so
// the set of candidate positions is a function of the content alone.
func refCutsC17(data []byte, pol uint64) []int {
	deg := bits.Len64(pol) - 1
	top := uint64(1) << deg
	const mask = 1<<20 - 1
	var xp [8]uint64 // x^(8*63+k) mod pol
	r := uint64(1)
	for i := 0; i < 8*63+8; i++ {
		if i >= 8*63 {
			xp[i-8*63] = r
		}
		r <<= 1
		if r&top != 0 {
			r ^= pol
		}
	}
	var win [64]byte
	var h uint64
	var cuts []int
	start := 0
	for i, b := range data {
		out := win[i&63]
		win[i&63] = b
		if out != 0 {
			for k := 0; k < 8; k++ {
				if out>>k&1 != 0 {
					h ^= xp[k]
				}
			}
		}
		for k := 7; k >= 0; k-- {
			h = h<<1 | uint64(b>>k&1)
			if h&top != 0 {
				h ^= pol
			}
		}
		n := i + 1 - start
		if n >= minSizeC17 && (h&mask == 0 || n >= maxSizeC17) {
			cuts = append(cuts, i+1)
			start = i + 1
		}
	}
	if start < len(data) {
		cuts = append(cuts, len(data))
	}
	return cuts
}

var libScratchC17 []byte

// libCutsC17: the library's own reader-based chunker over the whole buffer.
func libCutsC17(data []byte, pol chunker.Pol) ([]int, error) {
	if libScratchC17 == nil {
		libScratchC17 = make([]byte, 0, maxSizeC17)
	}
	c := chunker.New(bytes.NewReader(data), pol)
	var cuts []int
	for {
		ch, err := c.Next(libScratchC17)
		if err == io.EOF {
			return cuts, nil
		}
		if err != nil {
			return nil, err
		}
		cuts = append(cuts, int(ch.Start+ch.Length))
	}
}

// ---------- the worker session ----------

type sessionC17 struct {
	ctx    context.Context
	cancel context.CancelFunc
	wg     *errgroup.Group
	s      *fileSaver
	saver  *saverC17
}

func newSessionC17(factory restic.ChunkerFactory) *sessionC17 {
	ctx, cancel := context.WithCancel(context.Background())
	wg, ctx := errgroup.WithContext(ctx)
	saver := &saverC17{sizes: map[restic.ID]int{}}
	s := newFileSaver(ctx, wg, saver, factory, 1) // ONE worker: one chunker, one fileChunkState
	s.NodeFromFileInfo = func(snPath, filename string, meta toNoder, ignoreXattrListError bool) (*data.Node, error) {
		return meta.ToNode(ignoreXattrListError, func(string, ...any) {})
	}
	return &sessionC17{ctx: ctx, cancel: cancel, wg: wg, s: s, saver: saver}
}

func (se *sessionC17) close() error {
	se.s.TriggerShutdown()
	err := se.wg.Wait()
	se.saver.wg.Wait()
	se.cancel()
	return err
}

// chunk saves one file through the worker and returns the chunk ends.
func (se *sessionC17) chunk(f *fileC17) (ends []int, ids restic.IDs, err error) {
	fut := se.s.Save(se.ctx, "/f", "/f", f, func() {}, func() {}, func(*data.Node, ItemStats) {})
	res := fut.take(se.ctx)
	if res.err != nil {
		return nil, nil, fmt.Errorf("saving failed: %w", res.err)
	}
	node := res.node
	off := 0
	for i, id := range node.Content {
		se.saver.mu.Lock()
		l, ok := se.saver.sizes[id]
		se.saver.mu.Unlock()
		if !ok {
			return nil, nil, fmt.Errorf("chunk %d has ID %v which was never saved", i, id)
		}
		if off+l > len(f.data) {
			return nil, nil, fmt.Errorf("chunk %d (len %d) at offset %d reaches beyond the file (%d bytes)", i, l, off, len(f.data))
		}
		if restic.ID(sha256.Sum256(f.data[off:off+l])) != id {
			return nil, nil, fmt.Errorf("chunk %d (offset %d, len %d) is not that range of the file", i, off, l)
		}
		off += l
		ends = append(ends, off)
	}
	if off != len(f.data) {
		return nil, nil, fmt.Errorf("chunks cover %d bytes, file has %d", off, len(f.data))
	}
	if node.Size != uint64(len(f.data)) {
		return nil, nil, fmt.Errorf("node.Size %d, file has %d bytes", node.Size, len(f.data))
	}
	return ends, node.Content, nil
}

func checkBoundsC17(ends []int) error {
	prev := 0
	for i, e := range ends {
		l := e - prev
		prev = e
		if l <= 0 {
			return fmt.Errorf("chunk %d is empty", i)
		}
		if l > maxSizeC17 {
			return fmt.Errorf("chunk %d has %d bytes > max %d", i, l, maxSizeC17)
		}
		if i < len(ends)-1 && l < minSizeC17 {
			return fmt.Errorf("chunk %d of %d has %d bytes < min %d", i, len(ends), l, minSizeC17)
		}
	}
	return nil
}

func equalIntsC17(a, b []int) bool {
	if len(a) != len(b) {
		return false
	}
	for i := range a {
		if a[i] != b[i] {
			return false
		}
	}
	return true
}

func abbrevIntsC17(a []int) string {
	if len(a) > 12 {
		return fmt.Sprintf("%v...(%d)", a[:12], len(a))
	}
	return fmt.Sprint(a)
}

// localityC17 checks the edit-locality relations between the chunk ends of a file A and
// of B = A with [pos,pos+da) replaced by db bytes. It returns the number of chunks of B
// that are not chunks of A (by position relative to the edit) and whether the sequences
// re-synchronised.
func localityC17(endsA, endsB []int, nA, nB, pos, da, db int) (changed int, resynced bool, err error) {
	delta := db - da
	if nB != nA+delta {
		return 0, false, fmt.Errorf("harness: sizes %d -> %d do not match the edit", nA, nB)
	}
	inA := map[int]bool{}
	for _, e := range endsA {
		inA[e] = true
	}
	inB := map[int]bool{}
	for _, e := range endsB {
		inB[e] = true
	}
	// 1. cuts in the untouched prefix are common to both (the end of file is not a cut)
	for _, e := range endsA {
		if e <= pos && e < nA && !inB[e] {
			return 0, false, fmt.Errorf("cut at %d of the original lies before the edit at %d but is missing in the edited file (cuts %s)", e, pos, abbrevIntsC17(endsB))
		}
	}
	for _, e := range endsB {
		if e <= pos && e < nB && !inA[e] {
			return 0, false, fmt.Errorf("cut at %d of the edited file lies before the edit at %d but is missing in the original (cuts %s)", e, pos, abbrevIntsC17(endsA))
		}
	}
	// 2. once a cut behind the edited region coincides (shifted by delta), all later ones do
	sync := -1
	for _, e := range endsA {
		if e >= pos+da && e < nA && inB[e+delta] && e+delta < nB {
			sync = e
			break
		}
	}
	if sync >= 0 {
		var tailA, tailB []int
		for _, e := range endsA {
			if e > sync {
				tailA = append(tailA, e+delta)
			}
		}
		for _, e := range endsB {
			if e > sync+delta {
				tailB = append(tailB, e)
			}
		}
		if !equalIntsC17(tailA, tailB) {
			return 0, false, fmt.Errorf("cut %d (original) = %d (edited) coincides behind the edit, but the later cuts differ: original+delta %s, edited %s", sync, sync+delta, abbrevIntsC17(tailA), abbrevIntsC17(tailB))
		}
		resynced = true
	}
	for _, e := range endsB {
		var same bool
		if e <= pos {
			same = inA[e]
		} else {
			same = inA[e-delta] && e-delta >= pos+da
		}
		if !same {
			changed++
		}
	}
	return changed, resynced, nil
}

type fileSpecC17 struct {
	Recipe  recipeC17
	Pat     patC17
	PatKind string
	RepeatOf int // index of an earlier file with the same content, -1 otherwise
	EditOf   int // index of the earlier unedited file this one is an edited copy of, -1 otherwise
	FailAt   int // >= 0: the source fails at this offset; the worker's state stays behind dirty
}

type resultC17 struct {
	ends []int
	n    int
}

func TestVerifC17Chunking(t *testing.T) {
	st := verifkit.Begin(t, "C17")
	pols := polsC17(t)
	maxMiB := verifkit.Scale(24, 40)
	budget := verifkit.Scale(40, 96) << 20 // bytes per worker session
	rapid.Check(t, func(rt *rapid.T) {
		pol := pols[rapid.IntRange(0, len(pols)-1).Draw(rt, "pol")]
		factory := factoryC17(t, pol)
		nfiles := rapid.IntRange(1, 6).Draw(rt, "nfiles")
		var specs []fileSpecC17
		total := 0
		for i := 0; i < nfiles; i++ {
			sp := fileSpecC17{RepeatOf: -1, EditOf: -1, FailAt: -1}
			mode := rapid.IntRange(0, 9).Draw(rt, "mode")
			var eligible []int // earlier files that were saved (no injected read error)
			for j := range specs {
				if specs[j].FailAt < 0 {
					eligible = append(eligible, j)
				}
			}
			switch {
			case len(eligible) > 0 && mode < 2: // the same content again, other read pattern, later in the worker's life
				sp.RepeatOf = eligible[rapid.IntRange(0, len(eligible)-1).Draw(rt, "base")]
				sp.Recipe = specs[sp.RepeatOf].Recipe
				sp.EditOf = specs[sp.RepeatOf].EditOf
			case len(eligible) > 0 && mode < 5: // an edited copy of an earlier (unedited) file
				b := eligible[rapid.IntRange(0, len(eligible)-1).Draw(rt, "base")]
				if rapid.Bool().Draw(rt, "largestbase") { // prefer a base with several chunks
					for _, j := range eligible {
						if specs[j].Recipe.baseSize() > specs[b].Recipe.baseSize() {
							b = j
						}
					}
				}
				if specs[b].EditOf >= 0 {
					b = specs[b].EditOf
				}
				sp.EditOf = b
				sp.Recipe = recipeC17{Segs: specs[b].Recipe.Segs}
				sp.Recipe.Edit = genEditC17(rt, sp.Recipe.baseSize())
			default:
				sp.Recipe = genRecipeC17(rt, maxMiB)
			}
			size := sp.Recipe.baseSize()
			if total+size > budget && i > 0 {
				break
			}
			total += size
			sp.Pat, sp.PatKind = genPatternC17(rt, size)
			if sp.RepeatOf < 0 && sp.EditOf < 0 && i < nfiles-1 && rapid.IntRange(0, 7).Draw(rt, "readerror") == 0 {
				sp.FailAt = rapid.OneOf(rapid.IntRange(0, size), rapid.SampledFrom([]int{0, size, size / 2, min(size, bufSizeC17), min(size, minSizeC17+1)})).Draw(rt, "failat")
			}
			specs = append(specs, sp)
		}

		se := newSessionC17(factory)
		results := make([]resultC17, len(specs))
		refCache := map[string][]int{}
		fail := func(i int, format string, args ...any) {
			_ = se.close()
			rt.Fatalf("file %d of %d in one worker, polynomial %v\n content: %s\n read pattern: %v (eof with data: %v)\n %s",
				i, len(specs), pol, specs[i].Recipe, specs[i].Pat.Sizes, specs[i].Pat.EOFWithData, fmt.Sprintf(format, args...))
		}
		for i, sp := range specs {
			content := sp.Recipe.build()
			f := &fileC17{data: content, pat: sp.Pat, failAt: sp.FailAt}
			ends, _, err := se.chunk(f)
			if sp.FailAt >= 0 {
				// a source that fails must not be reported as saved; what matters here is the next file
				if err == nil || !errors.Is(err, errInjectedC17) {
					fail(i, "the source failed at offset %d but saving reported: %v", sp.FailAt, err)
				}
				st.Case("", "read-error-file")
				continue
			}
			if err != nil {
				fail(i, "lossless: %v", err)
			}
			if err := checkBoundsC17(ends); err != nil {
				fail(i, "bounds: %v (ends %s)", err, abbrevIntsC17(ends))
			}
			key := sp.Recipe.String()
			ref, ok := refCache[key]
			if !ok {
				ref = refCutsC17(content, uint64(pol))
				lib, err := libCutsC17(content, pol)
				if err != nil {
					fail(i, "harness: library chunker failed: %v", err)
				}
				if !equalIntsC17(ref, lib) {
					fail(i, "the library's Chunker.Next and the bit-serial reference disagree: library %s, reference %s", abbrevIntsC17(lib), abbrevIntsC17(ref))
				}
				refCache[key] = ref
			}
			if !equalIntsC17(ends, ref) {
				fail(i, "boundaries differ from the content-defined reference: got %s, want %s", abbrevIntsC17(ends), abbrevIntsC17(ref))
			}
			if !f.closed {
				fail(i, "file was not closed")
			}
			results[i] = resultC17{ends: ends, n: len(content)}

			// relations with the earlier file this one is derived from
			classes := []string{"content=" + contentClassC17(sp.Recipe), "pattern=" + sp.PatKind, "chunks=" + bucketC17(len(ends))}
			if sp.RepeatOf >= 0 {
				if !equalIntsC17(ends, results[sp.RepeatOf].ends) {
					fail(i, "same content as file %d but different boundaries: %s vs %s", sp.RepeatOf, abbrevIntsC17(ends), abbrevIntsC17(results[sp.RepeatOf].ends))
				}
				classes = append(classes, "same-content-again")
			}
			if e := sp.Recipe.Edit; e != nil && sp.EditOf >= 0 {
				da, db := 0, 0
				switch e.Kind {
				case "insert":
					db = e.Len
				case "delete":
					da = e.Len
				default:
					da, db = e.Len, e.Len
				}
				base := results[sp.EditOf]
				changed, resynced, err := localityC17(base.ends, ends, base.n, len(content), e.Pos, da, db)
				if err != nil {
					fail(i, "edit locality vs file %d (cuts %s): %v", sp.EditOf, abbrevIntsC17(base.ends), err)
				}
				classes = append(classes, "edit="+e.Kind, fmt.Sprintf("edit-changed-chunks=%s", bucketC17(changed)))
				if resynced {
					classes = append(classes, "edit-resynced")
				} else if len(base.ends) >= 3 {
					classes = append(classes, "edit-not-resynced")
				}
			}
			maxChunk, minChunk := false, false
			prev := 0
			for j, e := range ends {
				if e-prev == maxSizeC17 {
					maxChunk = true
				}
				if e-prev == minSizeC17 && j < len(ends)-1 {
					minChunk = true
				}
				prev = e
			}
			if maxChunk {
				classes = append(classes, "chunk-at-max-size")
			}
			if minChunk {
				classes = append(classes, "chunk-at-min-size")
			}
			if f.short > 0 {
				classes = append(classes, "short-reads")
			}
			if f.zero > 0 {
				classes = append(classes, "zero-nil-reads")
			}
			if f.eofWithDataHappened {
				classes = append(classes, "eof-with-data")
			}
			if i > 0 {
				classes = append(classes, "worker-reused")
				if specs[i-1].FailAt >= 0 {
					classes = append(classes, "worker-reused-after-read-error")
				}
			}
			if len(content)%bufSizeC17 == 0 && len(content) > 0 {
				classes = append(classes, "size-multiple-of-buffer")
			}
			nt := ""
			if len(ends) >= 3 && (f.short > 0 || f.zero > 0 || i > 0) {
				nt = fmt.Sprintf("%v|%s|%v|%v|%d", pol, key, sp.Pat.Sizes, sp.Pat.EOFWithData, i)
			}
			st.Case(nt, classes...)
			st.ClassN("bytes-chunked-MiB", len(content)>>20)
			if st.WantSample() {
				st.Sample(map[string]any{"pol": fmt.Sprint(pol), "content": key, "pattern": fmt.Sprint(sp.Pat.Sizes), "eof_with_data": sp.Pat.EOFWithData, "index_in_worker": i, "chunks": len(ends)})
			}
		}
		if err := se.close(); err != nil {
			rt.Fatalf("worker group failed: %v", err)
		}
	})
}

func contentClassC17(r recipeC17) string {
	if len(r.Segs) > 1 {
		return "mixed"
	}
	return r.Segs[0].Kind
}

func bucketC17(n int) string {
	switch {
	case n <= 2:
		return fmt.Sprint(n)
	case n <= 5:
		return "3-5"
	case n <= 12:
		return "6-12"
	default:
		return "13+"
	}
}
