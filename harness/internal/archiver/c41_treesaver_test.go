package archiver

import (
	"bytes"
	"context"
	"errors"
	"fmt"
	"runtime"
	"sort"
	"strings"
	"sync"
	"testing"
	"time"
	"unicode/utf8"

	"github.com/restic/restic/internal/data"
	"github.com/restic/restic/internal/restic"
	"github.com/restic/restic/internal/verifkit"
	"golang.org/x/sync/errgroup"
	"pgregory.net/rapid"
)

// ---------------------------------------------------------------------------
// C41 (concurrent part): the tree blob written by the treeSaver depends only on the
// entries of the directory, not on the order in which the entries' futures complete,
// the number of workers or what other directories are saved at the same time.
// ---------------------------------------------------------------------------

// vUploaderC41 records every tree blob, answering from another goroutine.
type vUploaderC41 struct {
	mu    sync.Mutex
	blobs map[restic.ID][]byte
}

func (u *vUploaderC41) SaveBlobAsync(_ context.Context, tpe restic.BlobType, buf []byte, _ restic.ID, _ bool, cb func(restic.ID, bool, int, error)) {
	cp := append([]byte{}, buf...)
	go func() {
		id := restic.Hash(cp)
		u.mu.Lock()
		_, known := u.blobs[id]
		u.blobs[id] = cp
		u.mu.Unlock()
		if tpe != restic.TreeBlob {
			cb(id, false, 0, fmt.Errorf("tree saved as %v", tpe))
			return
		}
		cb(id, known, len(cp), nil)
	}()
}

var nastyNamesC41 = []string{`"`, `\`, "\x00", "\n", "\u2028", "\u2029", "<", "&", "\xff", "\xc3", "\xed\xa0\x80", "é", "😀", " ", `\x41`, `\u`, "/"}

func genNameC41(t *rapid.T) string {
	var b strings.Builder
	for i := rapid.IntRange(1, 4).Draw(t, "parts"); i > 0; i-- {
		if rapid.Bool().Draw(t, "plain") {
			b.WriteString(rapid.StringMatching(`[a-c]{1,3}`).Draw(t, "w"))
		} else {
			b.WriteString(rapid.SampledFrom(nastyNamesC41).Draw(t, "nasty"))
		}
	}
	return b.String()
}

func genChildC41(t *rapid.T, name string) *data.Node {
	n := &data.Node{Name: name, Type: rapid.SampledFrom([]data.NodeType{data.NodeTypeFile, data.NodeTypeDir, data.NodeTypeSymlink}).Draw(t, "type")}
	n.Mode = 0o644
	n.ModTime = time.Date(rapid.IntRange(0, 9999).Draw(t, "year"), 6, 1, 12, 0, 0, rapid.IntRange(0, 999999999).Draw(t, "ns"), time.FixedZone("", 60*rapid.IntRange(-720, 840).Draw(t, "zone")))
	n.AccessTime, n.ChangeTime = n.ModTime, n.ModTime
	n.Size = rapid.Uint64().Draw(t, "size")
	if n.Type == data.NodeTypeSymlink {
		n.LinkTarget = genNameC41(t)
	}
	if rapid.Bool().Draw(t, "xattr") {
		n.ExtendedAttributes = []data.ExtendedAttribute{{Name: "user.k", Value: rapid.SliceOfN(rapid.Byte(), 0, 8).Draw(t, "xv")}}
	}
	if n.Type == data.NodeTypeFile {
		for i := rapid.IntRange(0, 2).Draw(t, "nc"); i > 0; i-- {
			n.Content = append(n.Content, restic.Hash([]byte{byte(rapid.IntRange(0, 255).Draw(t, "c"))}))
		}
	}
	return n
}

// dirC41 is one directory to be saved: slots in list order.
type dirC41 struct {
	slots    []slotC41
	expected []*data.Node // entries that must end up in the blob, in order
	ordered  bool         // false: the list contains a name that is not greater than its predecessor (and not an identical repeat)
}

type slotC41 struct {
	node     *data.Node // nil: excluded item
	err      error      // item failed (the error callback decides)
	prefill  bool       // result known before Save is called
	complete int        // position in the completion order
}

var errItemC41 = errors.New("c41 item error")

func genDirC41(t *rapid.T, allowDisorder bool) dirC41 {
	n := rapid.IntRange(0, 7).Draw(t, "entries")
	seen := map[string]bool{}
	var names []string
	for i := 0; i < n; i++ {
		name := genNameC41(t)
		if len(names) > 0 && rapid.IntRange(0, 3).Draw(t, "near") == 0 {
			name = names[rapid.IntRange(0, len(names)-1).Draw(t, "nearIdx")] + rapid.SampledFrom([]string{"\x00", "\xff", "a", " "}).Draw(t, "suffix")
		}
		if !seen[name] {
			seen[name] = true
			names = append(names, name)
		}
	}
	sort.Strings(names)
	d := dirC41{ordered: true}
	for _, name := range names {
		node := genChildC41(t, name)
		switch rapid.IntRange(0, 9).Draw(t, "slotKind") {
		case 0: // excluded
			d.slots = append(d.slots, slotC41{})
		case 1: // failed item, error ignored by the error callback
			d.slots = append(d.slots, slotC41{err: errItemC41})
		case 2: // the directory listed the same entry twice
			cp := *node
			d.slots = append(d.slots, slotC41{node: node}, slotC41{node: &cp})
			d.expected = append(d.expected, node)
		default:
			d.slots = append(d.slots, slotC41{node: node})
			d.expected = append(d.expected, node)
		}
	}
	if allowDisorder && len(d.expected) >= 2 {
		// swap two different entries, or repeat a name with different contents
		i := rapid.IntRange(0, len(d.slots)-1).Draw(t, "swapI")
		j := rapid.IntRange(0, len(d.slots)-1).Draw(t, "swapJ")
		if rapid.Bool().Draw(t, "repeatName") && d.slots[i].node != nil {
			cp := *d.slots[i].node
			cp.Size++
			d.slots = append(d.slots[:i+1], append([]slotC41{{node: &cp}}, d.slots[i+1:]...)...)
		} else {
			d.slots[i], d.slots[j] = d.slots[j], d.slots[i]
		}
		last := ""
		var lastNode *data.Node
		for _, s := range d.slots {
			if s.node == nil {
				continue
			}
			if s.node.Name <= last && !(lastNode != nil && s.node.Equals(*lastNode)) {
				d.ordered = false
			}
			last, lastNode = s.node.Name, s.node
		}
	}
	perm := rapid.Permutation(seqC41(len(d.slots))).Draw(t, "completion")
	for i := range d.slots {
		d.slots[i].complete = perm[i]
		d.slots[i].prefill = rapid.IntRange(0, 3).Draw(t, "prefill") == 0
	}
	return d
}

func seqC41(n int) []int {
	s := make([]int, n)
	for i := range s {
		s[i] = i
	}
	return s
}

func (d dirC41) expectedBlob() ([]byte, error) {
	b := data.NewTreeJSONBuilder()
	for _, n := range d.expected {
		if err := b.AddNode(n); err != nil {
			return nil, err
		}
	}
	return b.Finalize()
}

// runC41 saves the directories through one treeSaver and returns, per directory, the
// blob its node points to (nil if the save failed) plus the error of the worker group.
func runC41(dirs []dirC41, workers uint, yields bool) ([][]byte, error, int) {
	ctx, cancel := context.WithCancel(context.Background())
	defer cancel()
	wg, wgCtx := errgroup.WithContext(ctx)
	up := &vUploaderC41{blobs: map[restic.ID][]byte{}}
	var warnMu sync.Mutex
	warnings := 0
	errFn := func(_ string, err error) error {
		warnMu.Lock()
		defer warnMu.Unlock()
		warnings++
		if errors.Is(err, errItemC41) {
			return nil // ignore failed items
		}
		return err
	}
	ts := newTreeSaver(wgCtx, wg, workers, up, errFn)

	results := make([]futureNode, len(dirs))
	var senders sync.WaitGroup
	for di, d := range dirs {
		futures := make([]futureNode, len(d.slots))
		type pending struct {
			at  int
			ch  chan<- futureNodeResult
			res futureNodeResult
		}
		var later []pending
		for i, s := range d.slots {
			res := futureNodeResult{snPath: fmt.Sprintf("/d%d/%d", di, i), target: fmt.Sprintf("/t%d/%d", di, i), node: s.node, err: s.err}
			if s.prefill {
				futures[i] = newFutureNodeWithResult(res)
				continue
			}
			fn, ch := newFutureNode()
			futures[i] = fn
			later = append(later, pending{at: s.complete, ch: ch, res: res})
		}
		sort.Slice(later, func(a, b int) bool { return later[a].at < later[b].at })
		senders.Add(1)
		go func() {
			defer senders.Done()
			for _, p := range later {
				if yields {
					runtime.Gosched()
				}
				p.ch <- p.res
				close(p.ch)
			}
		}()
		dirNode := &data.Node{Name: fmt.Sprintf("dir%d", di), Type: data.NodeTypeDir}
		results[di] = ts.Save(wgCtx, fmt.Sprintf("/d%d", di), fmt.Sprintf("/t%d", di), dirNode, futures, nil)
	}
	blobs := make([][]byte, len(dirs))
	for di := range dirs {
		res := results[di].take(wgCtx)
		if res.err == nil && res.node != nil && res.node.Subtree != nil {
			up.mu.Lock()
			blobs[di] = up.blobs[*res.node.Subtree]
			up.mu.Unlock()
		}
	}
	ts.TriggerShutdown()
	err := wg.Wait()
	senders.Wait()
	return blobs, err, warnings
}

func TestVerifC41TreeSaver(t *testing.T) {
	st := verifkit.Begin(t, "C41")
	rapid.Check(t, func(t *rapid.T) {
		ndirs := rapid.IntRange(1, 4).Draw(t, "dirs")
		disorderAt := -1
		if rapid.IntRange(0, 4).Draw(t, "disorder") == 0 {
			disorderAt = rapid.IntRange(0, ndirs-1).Draw(t, "disorderAt")
		}
		dirs := make([]dirC41, ndirs)
		anyDisorder := false
		nasty, dups, skipped := false, false, false
		for i := range dirs {
			dirs[i] = genDirC41(t, i == disorderAt)
			anyDisorder = anyDisorder || !dirs[i].ordered
			for _, n := range dirs[i].expected {
				if !utf8.ValidString(n.Name) || strings.ContainsAny(n.Name, "\"\\\x00\n\u2028\u2029") {
					nasty = true
				}
			}
			dups = dups || len(dirs[i].slots) > len(dirs[i].expected)
			for _, s := range dirs[i].slots {
				skipped = skipped || s.node == nil
			}
		}
		workers := uint(rapid.IntRange(1, 6).Draw(t, "workers"))
		yields := rapid.Bool().Draw(t, "yields")

		blobs, err, _ := runC41(dirs, workers, yields)

		key := ""
		var classes []string
		if anyDisorder {
			classes = append(classes, "saver:unordered-input")
			if !errors.Is(err, data.ErrTreeNotOrdered) {
				t.Fatalf("a directory with unordered / conflicting entries was saved without ErrTreeNotOrdered (err=%v)", err)
			}
			for i, d := range dirs {
				if !d.ordered && blobs[i] != nil {
					t.Fatalf("directory %d has unordered entries but produced a tree blob: %s", i, blobs[i])
				}
			}
		} else {
			classes = append(classes, "saver:ordered-input")
			if err != nil {
				t.Fatalf("saving failed: %v", err)
			}
			var all bytes.Buffer
			for i, d := range dirs {
				want, werr := d.expectedBlob()
				if werr != nil {
					t.Fatalf("harness: %v", werr)
				}
				if !bytes.Equal(blobs[i], want) {
					t.Fatalf("directory %d (workers=%d): blob differs from the sequential encoding of its entries\n got: %s\nwant: %s", i, workers, blobs[i], want)
				}
				all.Write(want)
			}
			// a second run with another schedule gives the same bytes
			dirs2 := make([]dirC41, len(dirs))
			for i, d := range dirs {
				d2 := d
				d2.slots = append([]slotC41{}, d.slots...)
				perm := rapid.Permutation(seqC41(len(d2.slots))).Draw(t, "completion2")
				for j := range d2.slots {
					d2.slots[j].complete = perm[j]
					d2.slots[j].prefill = !d.slots[j].prefill
				}
				dirs2[len(dirs)-1-i] = d2
			}
			blobs2, err2, _ := runC41(dirs2, uint(rapid.IntRange(1, 6).Draw(t, "workers2")), !yields)
			if err2 != nil {
				t.Fatalf("second schedule failed: %v", err2)
			}
			for i := range dirs {
				if !bytes.Equal(blobs[i], blobs2[len(dirs)-1-i]) {
					t.Fatalf("directory %d: bytes depend on the schedule\n%s\n%s", i, blobs[i], blobs2[len(dirs)-1-i])
				}
			}
			if nasty {
				key = all.String()
			}
			if dups {
				classes = append(classes, "saver:repeated-or-skipped-entries")
			}
			if skipped {
				classes = append(classes, "saver:excluded-or-failed-items")
			}
			if ndirs > 1 && workers > 1 {
				classes = append(classes, "saver:parallel-dirs")
			}
		}
		st.Case(key, classes...)
	})
}
