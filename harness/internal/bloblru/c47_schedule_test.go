package bloblru

// Property C47: the in-memory blob cache never holds more bytes than its configured
// size and a lookup always returns the value computed for that blob ID, under any
// interleaving of concurrent lookups, computations, failures and evictions.
//
// The schedule is owned by the test: every compute function parks on its own gate
// inside a testing/synctest bubble, the (rapid-drawn) scenario decides which caller
// starts next and which parked computation is released next, and after every step
// synctest.Wait() guarantees that all goroutines are parked again, so that the
// cache's internal accounting can be read in-package and compared with a model.

import (
	"bytes"
	"encoding/binary"
	"errors"
	"fmt"
	"math/rand/v2"
	"runtime"
	"sort"
	"strings"
	"sync"
	"testing"
	"testing/synctest"

	"github.com/restic/restic/internal/restic"
	"github.com/restic/restic/internal/verifkit"
	"pgregory.net/rapid"
)

// blobSpecC47 is f(id): length, capacity and content are a function of the ID only.
type blobSpecC47 struct {
	Len, Cap int
}

type opC47 struct {
	Release bool // false: start a new caller
	ID      int  // caller: index of the blob ID
	Fail    bool // caller: its compute function fails when it is released
	Pick    int  // release: index into the (sorted) list of parked computations, mod its length
}

type scenarioC47 struct {
	Size  int
	Specs []blobSpecC47
	Ops   []opC47
	Drain []int // picks used to release what is still parked at the end
}

type callerC47 struct {
	idx      int
	id       int
	fail     bool
	gate     chan struct{}
	invoked  bool // compute function was entered
	released bool
	computed bool // compute function returned (value or error)
	done     bool
	val      []byte
	err      error
	// state at call time
	residentAtCall bool
	inflightAtCall bool
}

type errC47 struct{ caller, id int }

func (e *errC47) Error() string { return fmt.Sprintf("compute of caller %d for id %d failed", e.caller, e.id) }

func idC47(i int) restic.ID {
	var id restic.ID
	id[0] = byte(i + 1)
	binary.LittleEndian.PutUint64(id[8:], uint64(i+1)*0x9e3779b97f4a7c15)
	return id
}

// contentC47 returns f(id) as a fresh slice with the capacity of the spec.
func contentC47(i int, sp blobSpecC47) []byte {
	b := make([]byte, sp.Len, sp.Cap)
	r := rand.New(rand.NewPCG(uint64(i)+1, 47))
	for j := range b {
		b[j] = byte(r.Uint32())
	}
	if len(b) > 0 {
		b[0] = byte(i + 1) // IDs differ already in the first byte
	}
	return b
}

func genScenarioC47(t *rapid.T) scenarioC47 {
	var sc scenarioC47
	sc.Size = rapid.OneOf(
		rapid.IntRange(overhead, 6*overhead),
		rapid.IntRange(1<<10, 8<<10),
		rapid.IntRange(1<<10, 8<<10),
		rapid.IntRange(8<<10, 1<<20),
	).Draw(t, "size")
	nid := rapid.IntRange(1, 6).Draw(t, "nid")
	for i := 0; i < nid; i++ {
		budget := sc.Size - overhead // largest capacity that still fits
		var cp int
		switch rapid.IntRange(0, 9).Draw(t, "capclass") {
		case 0:
			cp = 0
		case 1, 2, 3:
			cp = rapid.IntRange(0, max(0, budget/4)).Draw(t, "cap")
		case 4, 5:
			cp = rapid.IntRange(budget/4, max(budget/4, budget/2)).Draw(t, "cap")
		case 6, 7:
			cp = rapid.IntRange(budget/2, budget).Draw(t, "cap")
		case 8: // exactly at / one beyond the limit
			cp = budget + rapid.IntRange(0, 1).Draw(t, "edge")
		default: // does not fit
			cp = budget + 1 + rapid.IntRange(0, max(1, sc.Size/4)).Draw(t, "cap")
		}
		ln := cp
		switch rapid.IntRange(0, 3).Draw(t, "lenclass") {
		case 0:
			ln = rapid.IntRange(0, cp).Draw(t, "len")
		case 1:
			ln = min(cp, 1)
		}
		sc.Specs = append(sc.Specs, blobSpecC47{Len: ln, Cap: cp})
	}
	nops := rapid.IntRange(4, 48).Draw(t, "nops")
	// a few IDs are "hot" so that several callers meet on one ID
	hot := rapid.IntRange(0, nid-1).Draw(t, "hot")
	for i := 0; i < nops; i++ {
		var op opC47
		op.Release = rapid.IntRange(0, 99).Draw(t, "kind") < 42
		if op.Release {
			op.Pick = rapid.IntRange(0, 63).Draw(t, "pick")
		} else {
			if rapid.Bool().Draw(t, "usehot") {
				op.ID = hot
			} else {
				op.ID = rapid.IntRange(0, nid-1).Draw(t, "id")
			}
			op.Fail = rapid.IntRange(0, 99).Draw(t, "fail") < 30
		}
		sc.Ops = append(sc.Ops, op)
	}
	sc.Drain = rapid.SliceOfN(rapid.IntRange(0, 63), 8, 8).Draw(t, "drain")
	return sc
}

type outcomeC47 struct {
	violation string
	classes   map[string]bool
	key       string
}

// runScenarioC47 executes the scenario inside a synctest bubble.
func runScenarioC47(outer *testing.T, sc scenarioC47) outcomeC47 {
	out := outcomeC47{classes: map[string]bool{}}
	synctest.Test(outer, func(t *testing.T) {
		c := New(sc.Size)
		var (
			mu      sync.Mutex // protects callers' fields written by bubble goroutines
			callers []*callerC47
			aborted bool
		)
		// model of what must be true for the cache content
		succeeded := make([]bool, len(sc.Specs)) // a compute for the ID has returned a value
		prevResident := map[int]bool{}
		evictions := 0
		var trace []string

		fail := func(format string, args ...any) {
			if out.violation == "" {
				out.violation = fmt.Sprintf(format, args...) + "\ntrace: " + strings.Join(trace, " ")
			}
		}

		parked := func() []*callerC47 {
			mu.Lock()
			defer mu.Unlock()
			var p []*callerC47
			for _, cl := range callers {
				if cl.invoked && !cl.released {
					p = append(p, cl)
				}
			}
			sort.Slice(p, func(i, j int) bool { return p[i].idx < p[j].idx })
			return p
		}

		// checkState reads the cache's internals; all goroutines are parked.
		checkState := func(when string) {
			c.mu.Lock()
			defer c.mu.Unlock()
			sum := 0
			now := map[int]bool{}
			for _, k := range c.c.Keys() {
				v, ok := c.c.Peek(k)
				if !ok {
					fail("%s: key %v listed but not peekable", when, k)
					return
				}
				i := int(k[0]) - 1
				if i < 0 || i >= len(sc.Specs) || idC47(i) != k {
					fail("%s: unknown key %v resident", when, k)
					return
				}
				if !bytes.Equal(v, contentC47(i, sc.Specs[i])) {
					fail("%s: resident value of id %d is not f(id): len %d want %d", when, i, len(v), sc.Specs[i].Len)
					return
				}
				if !succeeded[i] {
					fail("%s: id %d resident although no computation for it has succeeded", when, i)
					return
				}
				sum += cap(v) + overhead
				now[i] = true
			}
			if sum > c.size || c.size != sc.Size {
				fail("%s: cache holds %d bytes (capacity+overhead of %d entries) > configured size %d", when, sum, len(now), sc.Size)
				return
			}
			if c.free != c.size-sum {
				fail("%s: accounting inconsistent: free=%d, size=%d, resident bytes=%d (expected free=%d)", when, c.free, c.size, sum, c.size-sum)
				return
			}
			for i := range prevResident {
				if !now[i] {
					evictions++
				}
			}
			prevResident = now
		}

		inflight := func(id int) bool { // a computation of this id is parked
			mu.Lock()
			defer mu.Unlock()
			for _, cl := range callers {
				if cl.id == id && cl.invoked && !cl.released {
					return true
				}
			}
			return false
		}

		start := func(op opC47) {
			cl := &callerC47{idx: len(callers), id: op.ID, fail: op.Fail, gate: make(chan struct{})}
			cl.residentAtCall = prevResident[op.ID]
			cl.inflightAtCall = inflight(op.ID)
			mu.Lock()
			callers = append(callers, cl)
			mu.Unlock()
			go func() {
				v, err := c.GetOrCompute(idC47(cl.id), func() ([]byte, error) {
					mu.Lock()
					cl.invoked = true
					mu.Unlock()
					<-cl.gate
					mu.Lock()
					ab := aborted
					mu.Unlock()
					if ab {
						runtime.Goexit() // leave without touching the cache again
					}
					mu.Lock()
					cl.computed = true
					mu.Unlock()
					if cl.fail {
						return nil, &errC47{caller: cl.idx, id: cl.id}
					}
					return contentC47(cl.id, sc.Specs[cl.id]), nil
				})
				mu.Lock()
				cl.done, cl.val, cl.err = true, v, err
				mu.Unlock()
			}()
		}

		// checkResults validates every caller that has finished.
		checked := map[int]bool{}
		checkResults := func(when string) {
			mu.Lock()
			defer mu.Unlock()
			for _, cl := range callers {
				if cl.computed && !cl.fail {
					succeeded[cl.id] = true
				}
			}
			for _, cl := range callers {
				if !cl.done || checked[cl.idx] {
					continue
				}
				checked[cl.idx] = true
				if cl.err != nil {
					// an error must be the error of a failed computation for this ID
					var e *errC47
					if !errors.As(cl.err, &e) || e.id != cl.id {
						fail("%s: caller %d (id %d) got foreign error %v", when, cl.idx, cl.id, cl.err)
						return
					}
					if !(cl.computed && cl.fail && e.caller == cl.idx) {
						fail("%s: caller %d (id %d) got error %v although its own computation did not fail", when, cl.idx, cl.id, cl.err)
						return
					}
					out.classes["result=error"] = true
					continue
				}
				want := contentC47(cl.id, sc.Specs[cl.id])
				if !bytes.Equal(cl.val, want) {
					fail("%s: caller %d (id %d) got a value that is not f(id): len %d want %d", when, cl.idx, cl.id, len(cl.val), len(want))
					return
				}
				if !succeeded[cl.id] {
					fail("%s: caller %d (id %d) got a value although no computation for that id has succeeded", when, cl.idx, cl.id)
					return
				}
				if cl.computed && cl.fail {
					// own computation failed but a value came back: only legitimate if it was
					// served from another caller's successful computation -- the cache never does
					// that after calling compute, but the statement allows it.
					out.classes["value-after-own-failure"] = true
				}
				if cl.residentAtCall {
					// nothing ran between the state check and this call: it is a plain hit
					if cl.invoked {
						fail("%s: caller %d: id %d was resident at call time but compute was invoked", when, cl.idx, cl.id)
						return
					}
					out.classes["result=hit"] = true
				} else if !cl.invoked {
					out.classes["result=shared"] = true // waited for somebody else's computation
				} else {
					out.classes["result=computed"] = true
				}
			}
		}

		step := func(when string) bool {
			synctest.Wait()
			checkResults(when)
			if out.violation == "" {
				checkState(when)
			}
			return out.violation == ""
		}

		release := func(pick int) bool {
			p := parked()
			if len(p) == 0 {
				return false
			}
			cl := p[pick%len(p)]
			// classes about the situation in which the computation ends
			mu.Lock()
			waiters, others := 0, 0
			for _, o := range callers {
				if o != cl && o.id == cl.id && !o.done {
					if o.invoked && !o.released {
						others++
					} else if !o.invoked {
						waiters++
					}
				}
			}
			cl.released = true
			mu.Unlock()
			if waiters > 0 && cl.fail {
				out.classes["failure-with-waiters"] = true
			}
			if waiters > 0 && !cl.fail {
				out.classes["success-with-waiters"] = true
			}
			if others > 0 {
				out.classes["parallel-computes-same-id"] = true
				if !cl.fail && succeeded[cl.id] {
					out.classes["second-success-same-id"] = true
				}
			}
			if !cl.fail && sc.Specs[cl.id].Cap+overhead > sc.Size {
				out.classes["oversize-result"] = true
			}
			trace = append(trace, fmt.Sprintf("R%d", cl.idx))
			close(cl.gate)
			return true
		}

		abort := func() {
			mu.Lock()
			aborted = true
			var open []*callerC47
			for _, cl := range callers {
				if !cl.released {
					cl.released = true
					open = append(open, cl)
				}
			}
			mu.Unlock()
			for _, cl := range open {
				close(cl.gate)
			}
			// goroutines that enter compute later find their gate closed as well
		}

		ok := true
		for i, op := range sc.Ops {
			when := fmt.Sprintf("after op %d", i)
			if op.Release && release(op.Pick) {
				// released
			} else {
				if op.Release { // nothing parked: start a caller on a drawn id instead
					op = opC47{ID: op.Pick % len(sc.Specs), Fail: op.Pick%5 == 0}
				}
				if inflight(op.ID) {
					out.classes["caller-joins-inflight"] = true
				}
				trace = append(trace, fmt.Sprintf("C%d:id%d%s", len(callers), op.ID, map[bool]string{true: "!", false: ""}[op.Fail]))
				start(op)
			}
			if ok = step(when); !ok {
				break
			}
		}
		// drain: release everything that is still parked, in drawn order
		for n := 0; ok; n++ {
			if !release(sc.Drain[n%len(sc.Drain)]) {
				break
			}
			if ok = step(fmt.Sprintf("drain %d", n)); !ok {
				break
			}
		}
		if ok {
			mu.Lock()
			for _, cl := range callers {
				if !cl.done {
					fail("caller %d (id %d) never returned although nothing is being computed any more", cl.idx, cl.id)
					// the bubble cannot be left cleanly with a goroutine blocked for ever: say why first
					fmt.Printf("C47 violated (cache size %d, specs %v): %s\n", sc.Size, sc.Specs, out.violation)
					break
				}
			}
			mu.Unlock()
			c.mu.Lock()
			if n := len(c.inProgress); n != 0 && out.violation == "" {
				fail("%d in-progress markers left behind after all lookups returned", n)
			}
			c.mu.Unlock()
		}
		if out.violation == "" {
			// final probe: every id can still be looked up and yields f(id)
			for i, sp := range sc.Specs {
				v, err := c.GetOrCompute(idC47(i), func() ([]byte, error) {
					succeeded[i] = true
					return contentC47(i, sp), nil
				})
				if err != nil || !bytes.Equal(v, contentC47(i, sp)) {
					fail("final lookup of id %d: err %v, len %d want %d", i, err, len(v), sp.Len)
					break
				}
				checkState(fmt.Sprintf("final lookup %d", i))
				if out.violation != "" {
					break
				}
			}
		}
		if out.violation != "" {
			abort()
			synctest.Wait()
		}
		if evictions > 0 {
			out.classes["evictions>0"] = true
		}
		for _, sp := range sc.Specs {
			if sp.Cap > sp.Len {
				out.classes["cap>len"] = true
			}
			if sp.Cap == 0 {
				out.classes["empty-blob"] = true
			}
		}
		if out.classes["caller-joins-inflight"] && evictions > 0 {
			out.key = fmt.Sprintf("%d|%v|%s", sc.Size, sc.Specs, strings.Join(trace, " "))
		}
	})
	return out
}

func TestVerifC47Schedules(t *testing.T) {
	st := verifkit.Begin(t, "C47")
	rapid.Check(t, func(rt *rapid.T) {
		sc := genScenarioC47(rt)
		out := runScenarioC47(t, sc)
		var cls []string
		for k := range out.classes {
			cls = append(cls, k)
		}
		sort.Strings(cls)
		st.Case(out.key, cls...)
		if st.WantSample() {
			st.Sample(map[string]any{"size": sc.Size, "specs": fmt.Sprint(sc.Specs), "ops": len(sc.Ops), "classes": cls})
		}
		if out.violation != "" {
			rt.Fatalf("C47 violated (cache size %d, specs %v): %s", sc.Size, sc.Specs, out.violation)
		}
	})
}

// TestVerifC47DoubleAdd is a directed family: N callers wait for a failing first
// computation of one ID, then all of them compute concurrently and succeed one after the
// other while other IDs create eviction pressure. (The generic generator reaches this
// shape too; the directed family makes sure it is exercised at every seed.)
func TestVerifC47DoubleAdd(t *testing.T) {
	st := verifkit.Begin(t, "C47")
	rapid.Check(t, func(rt *rapid.T) {
		var sc scenarioC47
		sc.Size = rapid.IntRange(4*overhead, 4<<10).Draw(rt, "size")
		budget := sc.Size - overhead
		nid := rapid.IntRange(1, 3).Draw(rt, "nid")
		for i := 0; i < nid; i++ {
			cp := rapid.IntRange(0, budget/2).Draw(rt, "cap")
			sc.Specs = append(sc.Specs, blobSpecC47{Len: rapid.IntRange(0, cp).Draw(rt, "len"), Cap: cp})
		}
		w := rapid.IntRange(2, 4).Draw(rt, "waiters")
		sc.Ops = append(sc.Ops, opC47{ID: 0, Fail: true})
		for i := 0; i < w; i++ {
			sc.Ops = append(sc.Ops, opC47{ID: 0})
		}
		sc.Ops = append(sc.Ops, opC47{Release: true, Pick: 0}) // the failing leader
		for i := 0; i < 2*w+4; i++ {
			if rapid.Bool().Draw(rt, "rel") {
				sc.Ops = append(sc.Ops, opC47{Release: true, Pick: rapid.IntRange(0, 7).Draw(rt, "pick")})
			} else {
				sc.Ops = append(sc.Ops, opC47{ID: rapid.IntRange(0, nid-1).Draw(rt, "id")})
			}
		}
		sc.Drain = rapid.SliceOfN(rapid.IntRange(0, 7), 4, 4).Draw(rt, "drain")
		out := runScenarioC47(t, sc)
		var cls []string
		for k := range out.classes {
			cls = append(cls, "directed:"+k)
		}
		sort.Strings(cls)
		st.Case(out.key, cls...)
		if out.violation != "" {
			rt.Fatalf("C47 violated (cache size %d, specs %v): %s", sc.Size, sc.Specs, out.violation)
		}
	})
}
