//go:build darwin || freebsd || linux

package fuse

// Property C14, the mount as reader: while concurrent non-exclusive writers append to the
// repository, every snapshot the mounted file system lists is completely readable - the
// periodic refresh (SnapshotsDirStructure.updateSnapshots) must list the snapshots before
// it (re)loads the index.
//
// In-package, no kernel mount: a Root over a repository whose backend is a VIEW - a clone
// of the base store to which the recorded operations of the writers are applied by a drawn
// amount before every List/Load/Stat of the reader. Writers are produced with the
// repository API through their own repository handle on their own copy of the base state
// (packs -> index -> snapshot through the real flush code), recorded by the harness store.

import (
	"context"
	"fmt"
	"io"
	"sort"
	"strings"
	"sync"
	"testing"
	"time"

	"github.com/anacrolix/fuse"
	"github.com/anacrolix/fuse/fs"
	"github.com/restic/chunker"

	"github.com/restic/restic/internal/backend"
	"github.com/restic/restic/internal/data"
	"github.com/restic/restic/internal/repository"
	"github.com/restic/restic/internal/repository/index"
	"github.com/restic/restic/internal/restic"
	"github.com/restic/restic/internal/verifkit"
	"github.com/restic/restic/internal/verifkit/vbe"
	"pgregory.net/rapid"
)

const passwordC14 = "verif-pw"

// viewC14 is what the mount process sees of the repository.
type viewC14 struct {
	*vbe.Store

	mu      sync.Mutex
	pending []vbe.Op
	cursor  int
	active  bool
	steps   []int // drawn advance per read, used cyclically
	nReads  int

	// aimed burst: jumpBy operations become visible jumpAfter reads after the first listing of
	// snapshot or index files since arming
	armed     bool
	listSeen  bool
	jumpAfter int
	jumpBy    int
	fired     bool

	crossedIndex, crossedSnap int
}

func (v *viewC14) applyLocked(n int) {
	for i := 0; i < n && v.cursor < len(v.pending); i++ {
		op := v.pending[v.cursor]
		v.Store.Apply([]vbe.Op{op})
		v.cursor++
		if !op.Remove && op.Key.Type == backend.IndexFile {
			v.crossedIndex++
		}
		if !op.Remove && op.Key.Type == backend.SnapshotFile {
			v.crossedSnap++
		}
	}
}

func (v *viewC14) beforeRead(t backend.FileType, isList bool) {
	v.mu.Lock()
	defer v.mu.Unlock()
	if !v.active {
		return
	}
	n := v.steps[v.nReads%len(v.steps)]
	v.nReads++
	if v.armed && v.listSeen {
		if v.jumpAfter == 0 {
			n += v.jumpBy
			v.armed, v.fired = false, true
		} else {
			v.jumpAfter--
		}
	}
	v.applyLocked(n)
	if v.armed && !v.listSeen && isList && (t == backend.SnapshotFile || t == backend.IndexFile) {
		v.listSeen = true // this listing is served from the state before the burst
	}
}

func (v *viewC14) List(ctx context.Context, t backend.FileType, fn func(backend.FileInfo) error) error {
	v.beforeRead(t, true)
	return v.Store.List(ctx, t, fn)
}

func (v *viewC14) Load(ctx context.Context, h backend.Handle, length int, offset int64, fn func(rd io.Reader) error) error {
	v.beforeRead(h.Type, false)
	return v.Store.Load(ctx, h, length, offset, fn)
}

func (v *viewC14) Stat(ctx context.Context, h backend.Handle) (backend.FileInfo, error) {
	v.beforeRead(h.Type, false)
	return v.Store.Stat(ctx, h)
}

func openRepoC14(be backend.Backend) (*repository.Repository, error) {
	repo, err := repository.New(be, repository.Options{Compression: repository.CompressionOff})
	if err != nil {
		return nil, err
	}
	if err := repo.SearchKey(context.Background(), passwordC14, 10, ""); err != nil {
		return nil, err
	}
	if err := repo.LoadIndex(context.Background(), restic.NoopTerminalCounterFactory); err != nil {
		return nil, err
	}
	return repo, nil
}

// walkC14 reads everything below a node of the mount: directories are listed and every entry
// looked up, every file is opened (which resolves all its blobs in the index) and the first
// maxRead files are read completely.
func walkC14(ctx context.Context, path string, n fs.Node, filesRead *int) error {
	switch nd := n.(type) {
	case *dir:
		ents, err := nd.ReadDirAll(ctx)
		if err != nil {
			return fmt.Errorf("readdir %s: %w", path, err)
		}
		names := make([]string, 0, len(ents))
		for _, e := range ents {
			if e.Name != "." && e.Name != ".." {
				names = append(names, e.Name)
			}
		}
		sort.Strings(names)
		for _, name := range names {
			child, err := nd.Lookup(ctx, name)
			if err != nil {
				return fmt.Errorf("lookup %s/%s: %w", path, name, err)
			}
			if err := walkC14(ctx, path+"/"+name, child, filesRead); err != nil {
				return err
			}
		}
	case *file:
		h, err := nd.Open(ctx, &fuse.OpenRequest{}, &fuse.OpenResponse{})
		if err != nil {
			return fmt.Errorf("open %s: %w", path, err)
		}
		if *filesRead < 3 {
			*filesRead++
			of := h.(*openFile)
			size := int(of.node.Size)
			resp := &fuse.ReadResponse{Data: make([]byte, 0, size)}
			if err := of.Read(ctx, &fuse.ReadRequest{Offset: 0, Size: size}, resp); err != nil {
				return fmt.Errorf("read %s: %w", path, err)
			}
			if len(resp.Data) != size {
				return fmt.Errorf("read %s: got %d of %d bytes", path, len(resp.Data), size)
			}
		}
	}
	return nil
}

// readAllC14 is one pass of a user over the mount: ids/ is listed and every snapshot in it is
// walked, then snapshots/latest is resolved and listed. timePasses() says whether the refresh
// throttle has expired before the next operation on the snapshot directories.
func readAllC14(ctx context.Context, root *Root, timePasses func() bool) (listed int, err error) {
	expire := func() {
		if timePasses() {
			ds := root.SnapshotsDir.dirStruct
			ds.mutex.Lock()
			ds.lastCheck = time.Time{}
			ds.mutex.Unlock()
		}
	}
	idsNode, err := root.Lookup(ctx, "ids")
	if err != nil {
		return 0, fmt.Errorf("lookup ids: %w", err)
	}
	ids := idsNode.(*SnapshotsDir)
	ents, err := ids.ReadDirAll(ctx)
	if err != nil {
		return 0, fmt.Errorf("readdir ids: %w", err)
	}
	var names []string
	for _, e := range ents {
		if e.Name != "." && e.Name != ".." {
			names = append(names, e.Name)
		}
	}
	sort.Strings(names)
	for _, name := range names {
		expire()
		sn, err := ids.Lookup(ctx, name)
		if err != nil {
			return len(names), fmt.Errorf("ids/%s is listed, lookup: %w", name, err)
		}
		nread := 0
		if err := walkC14(ctx, "ids/"+name, sn, &nread); err != nil {
			return len(names), fmt.Errorf("snapshot %s is listed in the mount but not readable: %w", name, err)
		}
	}
	expire()
	snNode, err := root.Lookup(ctx, "snapshots")
	if err != nil {
		return len(names), fmt.Errorf("lookup snapshots: %w", err)
	}
	sdir := snNode.(*SnapshotsDir)
	latest, err := sdir.Lookup(ctx, "latest")
	if err != nil {
		return len(names), fmt.Errorf("lookup snapshots/latest: %w", err)
	}
	target, err := latest.(*snapshotLink).Readlink(ctx, &fuse.ReadlinkRequest{})
	if err != nil {
		return len(names), err
	}
	tn, err := sdir.Lookup(ctx, target)
	if err != nil {
		return len(names), fmt.Errorf("snapshots/latest -> %s, lookup: %w", target, err)
	}
	nread := 0
	if err := walkC14(ctx, "snapshots/"+target, tn, &nread); err != nil {
		return len(names), fmt.Errorf("snapshots/latest (%s) is not readable: %w", target, err)
	}
	return len(names), nil
}

type caseC14 struct {
	Version uint     `json:"version"`
	FullAt  int      `json:"full_at"`
	Base    int      `json:"base_snapshots"`
	Writers []int    `json:"writer_snapshots"`
	Merge   []int    `json:"merge"`
	Start   int      `json:"start"`
	Rounds  []string `json:"rounds"`
}

func opsStringC14(log []vbe.Op) string {
	var sb strings.Builder
	for i, op := range log {
		fmt.Fprintf(&sb, "  %2d %s\n", i, op)
	}
	return sb.String()
}

func TestVerifC14MountRefresh(t *testing.T) {
	repository.TestUseLowSecurityKDFParameters(t)
	restic.TestDisableCheckPolynomial(t)
	st := verifkit.Begin(t, "C14")
	origFull := index.Full
	defer func() { index.Full = origFull }()
	ctx := context.Background()

	rapid.Check(t, func(rt *rapid.T) {
		index.Full = origFull
		defer func() { index.Full = origFull }()

		c := caseC14{Version: uint(rapid.IntRange(1, 2).Draw(rt, "version"))}
		if rapid.IntRange(0, 2).Draw(rt, "fullOverride") > 0 {
			c.FullAt = rapid.IntRange(1, 8).Draw(rt, "fullAt")
			n := c.FullAt
			index.Full = func(idx *index.Index) bool {
				return int(idx.Len(restic.DataBlob)+idx.Len(restic.TreeBlob)) >= n
			}
		}

		// base repository
		store := vbe.New()
		repo0, err := repository.New(store, repository.Options{Compression: repository.CompressionOff})
		if err != nil {
			rt.Fatal(err)
		}
		pol := chunker.Pol(0x3DA3358B4DC173)
		if err := repo0.Init(ctx, c.Version, passwordC14, &pol); err != nil {
			rt.Fatal(err)
		}
		at := int64(1460289341)
		nextSnapshot := func(repo restic.Repository) {
			// content is derived from the (drawn) time stamp; time stamps are distinct and increasing
			at += 3600 + int64(rapid.IntRange(0, 3000).Draw(rt, "at"))
			data.TestCreateSnapshot(t, repo, time.Unix(at, 0), rapid.IntRange(1, 3).Draw(rt, "depth"))
		}
		c.Base = rapid.IntRange(1, 2).Draw(rt, "base")
		for i := 0; i < c.Base; i++ {
			nextSnapshot(repo0)
		}

		// writers: own repository handle on an own copy of the base state, recorded
		nw := rapid.IntRange(1, 2).Draw(rt, "writers")
		logs := make([][]vbe.Op, nw)
		total := c.Base
		for w := 0; w < nw; w++ {
			ws := store.Clone()
			wrepo, err := openRepoC14(ws)
			if err != nil {
				rt.Fatal(err)
			}
			ws.StartRecording(vbe.NoFaults())
			k := rapid.IntRange(1, 2).Draw(rt, "writerSnapshots")
			for i := 0; i < k; i++ {
				nextSnapshot(wrepo)
			}
			logs[w] = ws.StopRecording()
			c.Writers = append(c.Writers, k)
			total += k
		}
		var merged []vbe.Op
		pos := make([]int, nw)
		for {
			var avail []int
			for w := range logs {
				if pos[w] < len(logs[w]) {
					avail = append(avail, w)
				}
			}
			if len(avail) == 0 {
				break
			}
			w := avail[0]
			if len(avail) > 1 {
				w = avail[rapid.IntRange(0, len(avail)-1).Draw(rt, "mergePick")]
			}
			merged = append(merged, logs[w][pos[w]])
			pos[w]++
			c.Merge = append(c.Merge, w)
		}
		// aims: for every snapshot save the last index save of the same writer before it
		type aimC14 struct{ idx, snap int }
		var aims []aimC14
		for p, op := range merged {
			if op.Remove || op.Key.Type != backend.SnapshotFile {
				continue
			}
			for q := p - 1; q >= 0; q-- {
				if c.Merge[q] == c.Merge[p] && !merged[q].Remove && merged[q].Key.Type == backend.IndexFile {
					aims = append(aims, aimC14{q, p})
					break
				}
			}
		}

		// the mount: opened like `restic mount` does (open, LoadIndex, NewRoot) on the view
		view := &viewC14{Store: store.Clone(), pending: merged, steps: []int{0}}
		c.Start = rapid.IntRange(0, len(merged)/2).Draw(rt, "start")
		view.applyLocked(c.Start)
		view.crossedIndex, view.crossedSnap = 0, 0
		reader, err := openRepoC14(view)
		if err != nil {
			rt.Fatalf("mount: open repository: %v", err)
		}
		root := NewRoot(reader, Config{TimeTemplate: time.RFC3339}) // the default of `restic mount`

		describe := func() string {
			return fmt.Sprintf("cursor %d of %d\nmerged writer ops:\n%scase %+v", view.cursor, len(merged), opsStringC14(merged), c)
		}
		maxListed, fired, grew := 0, 0, false
		pass := func(kind string) {
			ds := root.SnapshotsDir.dirStruct
			ds.mutex.Lock()
			ds.lastCheck = time.Time{} // the 60 s throttle of updateSnapshots has expired
			ds.mutex.Unlock()
			view.mu.Lock()
			view.active = true
			view.mu.Unlock()
			listed, err := readAllC14(ctx, root, func() bool { return rapid.IntRange(0, 3).Draw(rt, "timePasses") == 0 })
			view.mu.Lock()
			view.active = false
			if view.fired {
				fired++
			}
			view.armed, view.fired, view.listSeen = false, false, false
			view.mu.Unlock()
			st.Evals(1)
			if err != nil {
				rt.Fatalf("mount pass %d (%s schedule): %v\n%s", len(c.Rounds), kind, err, describe())
			}
			if listed > maxListed {
				if maxListed > 0 {
					grew = true
				}
				maxListed = listed
			}
		}

		rounds := rapid.IntRange(2, 5).Draw(rt, "rounds")
		for r := 0; r < rounds; r++ {
			var later []aimC14
			for _, a := range aims {
				if a.idx >= view.cursor {
					later = append(later, a)
				}
			}
			kind := "random"
			if len(later) > 0 && rapid.IntRange(0, 2).Draw(rt, "aimed") > 0 {
				kind = "aimed"
			}
			c.Rounds = append(c.Rounds, kind)
			if kind == "aimed" {
				// the view stands right before a writer's last index file; a burst reaching at least that
				// writer's snapshot file becomes visible 0-2 reads after the mount's first listing
				a := later[rapid.IntRange(0, min(1, len(later)-1)).Draw(rt, "aim")]
				view.mu.Lock()
				view.applyLocked(a.idx - view.cursor)
				view.steps = []int{0}
				view.armed, view.listSeen, view.fired = true, false, false
				view.jumpAfter = rapid.IntRange(0, 2).Draw(rt, "jumpAfter")
				view.jumpBy = rapid.IntRange(a.snap-a.idx+1, len(merged)-a.idx).Draw(rt, "jumpBy")
				view.mu.Unlock()
			} else {
				view.mu.Lock()
				view.steps = rapid.SliceOfN(rapid.SampledFrom([]int{0, 0, 0, 0, 1, 1, 2, 3}), 4, 12).Draw(rt, "steps")
				view.mu.Unlock()
			}
			pass(kind)
		}
		// quiescence: everything the writers did is visible, one more refresh
		view.mu.Lock()
		view.applyLocked(len(merged))
		view.steps = []int{0}
		view.mu.Unlock()
		c.Rounds = append(c.Rounds, "final")
		pass("final")

		nt := view.crossedIndex >= 1 && view.crossedSnap >= 1
		key := ""
		if nt {
			key = fmt.Sprintf("%+v/%d", c, view.nReads)
		}
		st.Case(key, "reader=mount", fmt.Sprintf("mount:aimed_burst_fired=%v", fired > 0), fmt.Sprintf("mount:new_snapshot_listed=%v", grew),
			fmt.Sprintf("mount:all_snapshots_listed_at_end=%v", maxListed == total), fmt.Sprintf("mount:writers=%d", nw))
		if st.WantSample() && nt {
			st.Sample(map[string]any{"case": c, "reader": "mount", "backend_reads": view.nReads, "aimed_bursts_fired": fired, "snapshots_listed_at_end": maxListed,
				"ops": strings.Split(strings.TrimSpace(opsStringC14(merged)), "\n")})
		}
	})
}
