//go:build darwin || freebsd || linux

package fuse

// Property C46: reading any offset and length of a mounted file returns exactly that
// range of the file's content (empty past the end), for files with any number and sizes
// of blobs, including empty blobs, and under concurrent reads.
//
// Built in-package without mounting: a Root with a fake repository (LookupBlobSize +
// LoadBlob over an in-memory blob table) and a blob cache of drawn (small) size, a
// *file from newFile, a handle from file.Open, and Read requests shaped exactly like
// the ones the fuse server hands to HandleReader.Read (Data = make([]byte, 0, Size)).

import (
	"bytes"
	"context"
	"crypto/sha256"
	"fmt"
	"math/rand/v2"
	"runtime"
	"sort"
	"sync"
	"sync/atomic"
	"testing"

	"github.com/anacrolix/fuse"

	"github.com/restic/restic/internal/bloblru"
	"github.com/restic/restic/internal/data"
	"github.com/restic/restic/internal/restic"
	"github.com/restic/restic/internal/verifkit"
	"pgregory.net/rapid"
)

// repoC46 implements the two methods of restic.Repository that the file code uses.
type repoC46 struct {
	restic.Repository // nil: every other method panics, none may be called
	blobs             map[restic.ID][]byte
	loads             atomic.Int64
	yield             int // LoadBlob yields the processor that many times (concurrency test)
	slack             int // extra capacity of the returned buffers
}

func (r *repoC46) LookupBlobSize(bh restic.BlobHandle) (uint, bool) {
	if bh.Type != restic.DataBlob {
		return 0, false
	}
	b, ok := r.blobs[bh.ID]
	return uint(len(b)), ok
}

func (r *repoC46) LoadBlob(ctx context.Context, bh restic.BlobHandle, buf []byte) ([]byte, error) {
	b, ok := r.blobs[bh.ID]
	if !ok || bh.Type != restic.DataBlob {
		return nil, fmt.Errorf("blob %v not found", bh)
	}
	r.loads.Add(1)
	for i := 0; i < r.yield; i++ {
		runtime.Gosched()
	}
	out := make([]byte, len(b), len(b)+r.slack) // a fresh buffer per load, like the repository
	copy(out, b)
	return out, nil
}

type layoutC46 struct {
	Sizes     []int // blob sizes in file order
	Repeat    []int // Repeat[i] >= 0: blob i is the same blob (same ID) as blob Repeat[i]
	NodeSize  uint64
	CacheSize int
	Seed      uint64
}

type fileC46 struct {
	node    *data.Node
	content []byte
	cum     []int // cum[i] = total size of blobs[:i]
}

// buildC46 creates blobs and the node of one file and registers the blobs in repo.
func buildC46(repo *repoC46, name string, lay layoutC46) fileC46 {
	r := rand.New(rand.NewPCG(lay.Seed, 46))
	var f fileC46
	f.node = &data.Node{Name: name, Type: data.NodeTypeFile, Mode: 0o644, Content: restic.IDs{}}
	f.cum = []int{0}
	var blobs [][]byte
	for i, sz := range lay.Sizes {
		var b []byte
		if i < len(lay.Repeat) && lay.Repeat[i] >= 0 && lay.Repeat[i] < i {
			b = blobs[lay.Repeat[i]]
		} else {
			b = make([]byte, sz)
			for j := range b {
				b[j] = byte(r.Uint32())
			}
		}
		blobs = append(blobs, b)
		id := restic.ID(sha256.Sum256(b))
		repo.blobs[id] = b
		f.node.Content = append(f.node.Content, id)
		f.content = append(f.content, b...)
		f.cum = append(f.cum, len(f.content))
	}
	f.node.Size = lay.NodeSize
	return f
}

func genLayoutC46(t *rapid.T, maxBlobs int) layoutC46 {
	var lay layoutC46
	n := rapid.OneOf(rapid.IntRange(0, 3), rapid.IntRange(0, maxBlobs)).Draw(t, "nblobs")
	small := rapid.Bool().Draw(t, "small")
	for i := 0; i < n; i++ {
		var sz int
		switch rapid.IntRange(0, 9).Draw(t, "szclass") {
		case 0, 1, 2:
			sz = 0
		case 3, 4:
			sz = rapid.IntRange(1, 3).Draw(t, "sz")
		case 5, 6, 7:
			sz = rapid.IntRange(1, 40).Draw(t, "sz")
		default:
			if small {
				sz = rapid.IntRange(1, 40).Draw(t, "sz")
			} else {
				sz = rapid.IntRange(41, 1500).Draw(t, "sz")
			}
		}
		rep := -1
		if i > 0 && rapid.IntRange(0, 7).Draw(t, "repeat") == 0 {
			rep = rapid.IntRange(0, i-1).Draw(t, "repidx")
		}
		lay.Sizes = append(lay.Sizes, sz)
		lay.Repeat = append(lay.Repeat, rep)
	}
	// the real sizes (repeats take the size of their original)
	total := 0
	for i := range lay.Sizes {
		if lay.Repeat[i] >= 0 {
			lay.Sizes[i] = lay.Sizes[lay.Repeat[i]]
		}
		total += lay.Sizes[i]
	}
	switch rapid.IntRange(0, 7).Draw(t, "nodesize") {
	case 0:
		lay.NodeSize = 0 // stale: claims empty
	case 1:
		lay.NodeSize = uint64(rapid.IntRange(0, total).Draw(t, "stale")) // stale: too small
	case 2:
		lay.NodeSize = uint64(total + rapid.IntRange(1, 5000).Draw(t, "stale")) // stale: too large
	case 3:
		lay.NodeSize = 1 << 40
	default:
		lay.NodeSize = uint64(total)
	}
	lay.CacheSize = rapid.OneOf(
		rapid.IntRange(96, 400), // about one to three small blobs: evictions in the middle of a read
		rapid.IntRange(400, 4000),
		rapid.Just(1<<20),
	).Draw(t, "cache")
	lay.Seed = rapid.Uint64().Draw(t, "seed")
	return lay
}

func openC46(root *Root, f fileC46) (*openFile, error) {
	ff, err := newFile(root, func() {}, 42, f.node)
	if err != nil {
		return nil, err
	}
	h, err := ff.Open(context.Background(), &fuse.OpenRequest{}, &fuse.OpenResponse{})
	if err != nil {
		return nil, err
	}
	return h.(*openFile), nil
}

// readC46 issues one read the way the fuse server does and compares with the model.
func readC46(of *openFile, content []byte, off, size int) error {
	req := &fuse.ReadRequest{Offset: int64(off), Size: size}
	resp := &fuse.ReadResponse{Data: make([]byte, 0, size)}
	if err := of.Read(context.Background(), req, resp); err != nil {
		return fmt.Errorf("Read(off=%d,size=%d) failed: %v", off, size, err)
	}
	lo := min(off, len(content))
	hi := min(off+size, len(content))
	if !bytes.Equal(resp.Data, content[lo:hi]) {
		return fmt.Errorf("Read(off=%d,size=%d) of a %d byte file returned %d bytes %s, want %d bytes %s",
			off, size, len(content), len(resp.Data), abbrevC46(resp.Data), hi-lo, abbrevC46(content[lo:hi]))
	}
	return nil
}

func abbrevC46(b []byte) string {
	if len(b) > 12 {
		return fmt.Sprintf("%x..", b[:12])
	}
	return fmt.Sprintf("%x", b)
}

// pointsC46 is the neighbourhood (+-2) of every blob boundary, plus positions past EOF.
func pointsC46(cum []int) []int {
	set := map[int]bool{}
	for _, b := range cum {
		for d := -2; d <= 2; d++ {
			if b+d >= 0 {
				set[b+d] = true
			}
		}
	}
	total := cum[len(cum)-1]
	set[total+7] = true
	set[total+1000] = true
	var pts []int
	for p := range set {
		pts = append(pts, p)
	}
	sort.Ints(pts)
	return pts
}

func TestVerifC46ReadRanges(t *testing.T) {
	st := verifkit.Begin(t, "C46")
	rapid.Check(t, func(t *rapid.T) {
		lay := genLayoutC46(t, 30)
		repo := &repoC46{blobs: map[restic.ID][]byte{}, slack: rapid.IntRange(0, 3).Draw(t, "slack")}
		f := buildC46(repo, "file", lay)
		root := &Root{repo: repo, cfg: Config{}, blobCache: bloblru.New(lay.CacheSize)}
		of, err := openC46(root, f)
		if err != nil {
			t.Fatalf("Open failed: %v", err)
		}
		total := len(f.content)
		if of.node.Size != uint64(total) {
			t.Fatalf("open file reports size %d, content has %d bytes (node.Size was %d)", of.node.Size, total, lay.NodeSize)
		}

		pts := pointsC46(f.cum)
		reads, crossing, emptyTouch := 0, 0, 0
		hasEmpty := false
		for _, s := range lay.Sizes {
			hasEmpty = hasEmpty || s == 0
		}
		check := func(off, size int) {
			if err := readC46(of, f.content, off, size); err != nil {
				t.Fatalf("layout %v (node.Size %d, cache %d): %v", lay.Sizes, lay.NodeSize, lay.CacheSize, err)
			}
			reads++
			// classification: how many boundaries lie strictly inside (off, off+size)?
			lo, hi := min(off, total), min(off+size, total)
			nb, touch := 0, false
			for i := 1; i < len(f.cum)-1; i++ {
				if f.cum[i] > lo && f.cum[i] < hi {
					nb++
				}
				if lay.Sizes[i-1] == 0 || lay.Sizes[i] == 0 {
					if f.cum[i] >= lo && f.cum[i] <= hi && hi > lo {
						touch = true
					}
				}
			}
			if nb > 0 {
				crossing++
			}
			if touch {
				emptyTouch++
			}
		}
		// exhaustive over the boundary neighbourhood: every start point x every end point
		for _, off := range pts {
			for _, end := range pts {
				if end >= off {
					check(off, end-off)
				}
			}
		}
		// sizes far beyond the file: what the kernel asks for by default (128 KiB) and 1 MiB
		for _, off := range []int{0, f.cum[len(f.cum)/2], max(0, f.cum[len(f.cum)/2]-1), total, total + 1} {
			check(off, 128<<10)
		}
		check(0, 1<<20)
		check(total, 1<<20)
		// a few unstructured pairs
		for i := 0; i < 8; i++ {
			off := rapid.IntRange(0, total+3).Draw(t, "off")
			size := rapid.IntRange(0, total+3).Draw(t, "len")
			check(off, size)
		}
		// a second handle of the same node and a whole-file read through it
		of2, err := openC46(root, f)
		if err != nil {
			t.Fatalf("second Open failed: %v", err)
		}
		if err := readC46(of2, f.content, 0, total+1); err != nil {
			t.Fatalf("layout %v: second handle: %v", lay.Sizes, err)
		}

		classes := []string{fmt.Sprintf("blobs=%s", bucketC46(len(lay.Sizes)))}
		if hasEmpty {
			classes = append(classes, "layout-has-empty-blob")
		}
		if emptyTouch > 0 {
			classes = append(classes, "read-touches-empty-blob")
		}
		if crossing > 0 {
			classes = append(classes, "read-crosses-boundary")
		}
		switch {
		case lay.NodeSize == uint64(total):
			classes = append(classes, "node.Size=correct")
		case lay.NodeSize == 0:
			classes = append(classes, "node.Size=stale-zero")
		case lay.NodeSize < uint64(total):
			classes = append(classes, "node.Size=stale-small")
		default:
			classes = append(classes, "node.Size=stale-large")
		}
		if total == 0 && len(lay.Sizes) > 0 {
			classes = append(classes, "all-blobs-empty")
		}
		for _, r := range lay.Repeat {
			if r >= 0 {
				classes = append(classes, "repeated-blob")
				break
			}
		}
		if int(repo.loads.Load()) > len(repo.blobs) {
			classes = append(classes, "blob-reloaded-after-eviction")
		}
		key := ""
		if crossing > 0 || emptyTouch > 0 {
			key = fmt.Sprintf("%v|%d|%d|%x", lay.Sizes, lay.NodeSize, lay.CacheSize, lay.Seed)
		}
		st.Case(key, classes...)
		st.Evals(reads)
		st.ClassN("reads", reads)
		st.ClassN("reads-crossing-boundary", crossing)
		st.ClassN("reads-touching-empty-blob", emptyTouch)
		if st.WantSample() {
			st.Sample(map[string]any{"sizes": fmt.Sprint(lay.Sizes), "node_size": lay.NodeSize, "cache": lay.CacheSize, "reads": reads, "crossing": crossing})
		}
	})
}

func bucketC46(n int) string {
	switch {
	case n == 0:
		return "0"
	case n == 1:
		return "1"
	case n <= 4:
		return "2-4"
	case n <= 12:
		return "5-12"
	default:
		return "13+"
	}
}

// TestVerifC46Concurrent: several goroutines read drawn ranges through shared and
// separate handles of files that share blobs, with a cache so small that entries are
// evicted while other readers use them.
func TestVerifC46Concurrent(t *testing.T) {
	st := verifkit.Begin(t, "C46")
	rapid.Check(t, func(t *rapid.T) {
		repo := &repoC46{blobs: map[restic.ID][]byte{}, yield: rapid.IntRange(0, 3).Draw(t, "yield")}
		lay := genLayoutC46(t, 12)
		f1 := buildC46(repo, "a", lay)
		// the second file shares blobs with the first one (same seed => same blob contents for equal sizes)
		lay2 := lay
		lay2.Sizes = append([]int(nil), lay.Sizes...)
		lay2.Repeat = append([]int(nil), lay.Repeat...)
		if len(lay2.Sizes) > 0 {
			k := rapid.IntRange(0, len(lay2.Sizes)).Draw(t, "cut")
			lay2.Sizes, lay2.Repeat = lay2.Sizes[:k], lay2.Repeat[:k]
		}
		tot2 := 0
		for _, s := range lay2.Sizes {
			tot2 += s
		}
		lay2.NodeSize = uint64(tot2)
		f2 := buildC46(repo, "b", lay2)
		root := &Root{repo: repo, cfg: Config{}, blobCache: bloblru.New(lay.CacheSize)}
		files := []fileC46{f1, f2}

		shared := make([]*openFile, len(files))
		for i, f := range files {
			of, err := openC46(root, f)
			if err != nil {
				t.Fatalf("Open: %v", err)
			}
			shared[i] = of
		}
		type rd struct{ file, off, size int }
		nreaders := rapid.IntRange(2, 8).Draw(t, "readers")
		plans := make([][]rd, nreaders)
		own := make([]bool, nreaders)
		crossing := 0
		for g := range plans {
			own[g] = rapid.Bool().Draw(t, "ownhandle")
			n := rapid.IntRange(1, 12).Draw(t, "nreads")
			for i := 0; i < n; i++ {
				fi := rapid.IntRange(0, 1).Draw(t, "file")
				pts := pointsC46(files[fi].cum)
				off := pts[rapid.IntRange(0, len(pts)-1).Draw(t, "offidx")]
				var size int
				if rapid.Bool().Draw(t, "whole") {
					size = len(files[fi].content) + 1
				} else {
					end := pts[rapid.IntRange(0, len(pts)-1).Draw(t, "endidx")]
					size = max(0, end-off)
				}
				plans[g] = append(plans[g], rd{fi, off, size})
				for _, b := range files[fi].cum[1:] {
					if b > off && b < off+size && b < len(files[fi].content) {
						crossing++
						break
					}
				}
			}
		}
		var wg sync.WaitGroup
		errs := make([]error, nreaders)
		startCh := make(chan struct{})
		for g := range plans {
			wg.Add(1)
			go func() {
				defer wg.Done()
				handles := shared
				if own[g] {
					handles = make([]*openFile, len(files))
					for i, f := range files {
						of, err := openC46(root, f)
						if err != nil {
							errs[g] = err
							return
						}
						handles[i] = of
					}
				}
				<-startCh
				for _, r := range plans[g] {
					if err := readC46(handles[r.file], files[r.file].content, r.off, r.size); err != nil {
						errs[g] = fmt.Errorf("reader %d, file %d: %w", g, r.file, err)
						return
					}
				}
			}()
		}
		close(startCh)
		wg.Wait()
		nreads := 0
		for g, err := range errs {
			if err != nil {
				t.Fatalf("layout %v / %v (cache %d): %v", lay.Sizes, lay2.Sizes, lay.CacheSize, err)
			}
			nreads += len(plans[g])
		}
		classes := []string{"concurrent:case"}
		if int(repo.loads.Load()) > len(repo.blobs) {
			classes = append(classes, "concurrent:blob-reloaded-after-eviction")
		}
		key := ""
		if crossing > 0 {
			key = fmt.Sprintf("conc|%v|%v|%d|%x|%v", lay.Sizes, lay2.Sizes, lay.CacheSize, lay.Seed, plans)
		}
		st.Case(key, classes...)
		st.Evals(nreads)
		st.ClassN("concurrent:reads", nreads)
		st.ClassN("concurrent:reads-crossing-boundary", crossing)
	})
}
