package ui

// Property C49 (byte sizes): ParseBytes either rejects a string or returns exactly the
// number of bytes it denotes; it never panics.
//
// Reference (math/big) from the documentation (doc/040_backup.rst, --exclude-larger-than:
// "The default unit for the size value is bytes ... suffix the size value with one of
// k/K for KiB (1024 bytes), m/M for MiB, g/G for GiB, t/T for TiB"; the function comment
// adds B): [sign] DIGITS [unit]; the value is DIGITS * 1024^k and must fit a
// non-negative int64.

import (
	"fmt"
	"math"
	"math/big"
	"strings"
	"testing"

	"github.com/restic/restic/internal/verifkit"
	"pgregory.net/rapid"
)

var unitsC49 = map[byte]uint{'b': 0, 'B': 0, 'k': 10, 'K': 10, 'm': 20, 'M': 20, 'g': 30, 'G': 30, 't': 40, 'T': 40}

// refParseBytesC49 returns (syntaxOK, value). value is the denoted number of bytes.
func refParseBytesC49(s string) (bool, *big.Int) {
	if s == "" {
		return false, nil
	}
	shift := uint(0)
	if sh, ok := unitsC49[s[len(s)-1]]; ok {
		shift = sh
		s = s[:len(s)-1]
	}
	neg := false
	if s != "" && (s[0] == '+' || s[0] == '-') {
		neg = s[0] == '-'
		s = s[1:]
	}
	if s == "" {
		return false, nil
	}
	for i := 0; i < len(s); i++ {
		if s[i] < '0' || s[i] > '9' {
			return false, nil
		}
	}
	n, _ := new(big.Int).SetString(s, 10)
	n.Lsh(n, shift)
	if neg {
		n.Neg(n)
	}
	return true, n
}

func genSizeStringC49(t *rapid.T) string {
	if rapid.IntRange(0, 39).Draw(t, "fixed") == 0 {
		return rapid.SampledFrom([]string{"", "B", "k", "-", "+", "5BB", "5 K", " 5", "5 ", "1e3", "0x10", "1_000", "1.5G", "٣K", "５", "8P", "8E",
			"9223372036854775807", "9223372036854775808", "9007199254740992K", "18014398509481984K", "8388608T", "8388607T", "16777216T",
			"-0", "-0K", "+0T", "-1", "-9223372036854775808", "18446744073709551616", "18446744073709551615B", "KB", "1KB", "1kb", "1KiB"}).Draw(t, "fixedStr")
	}
	var b strings.Builder
	switch rapid.IntRange(0, 19).Draw(t, "sign") {
	case 0, 1:
		b.WriteString("-")
	case 2, 3:
		b.WriteString("+")
	case 4:
		b.WriteString(rapid.SampledFrom([]string{"--", "+-", "−", " ", "\t"}).Draw(t, "badSign"))
	}
	unit := rapid.SampledFrom([]string{"", "", "b", "B", "k", "K", "m", "M", "g", "G", "t", "T"}).Draw(t, "unit")
	shift := uint(0)
	if unit != "" {
		shift = unitsC49[unit[0]]
	}
	switch rapid.IntRange(0, 9).Draw(t, "numKind") {
	case 0, 1:
		b.WriteString(fmt.Sprint(rapid.IntRange(0, 5000).Draw(t, "small")))
	case 2, 3, 4, 5:
		// around the points where value*unit crosses 2^31, 2^53, 2^63, 2^64, 2^65, 2^127, 2^128
		k := rapid.SampledFrom([]uint{31, 53, 62, 63, 64, 65, 66, 74, 127, 128}).Draw(t, "pow")
		n := new(big.Int).Lsh(big.NewInt(1), k)
		if rapid.Bool().Draw(t, "times3") {
			n.Mul(n, big.NewInt(3)) // 3*2^64/unit: low word 0 after wrapping twice
		}
		n.Rsh(n, shift)
		n.Add(n, big.NewInt(int64(rapid.IntRange(-2, 2).Draw(t, "delta"))))
		if n.Sign() < 0 {
			n.SetInt64(0)
		}
		b.WriteString(n.String())
	case 6:
		b.WriteString(strings.Repeat("0", rapid.IntRange(1, 30).Draw(t, "lead0")) + fmt.Sprint(rapid.IntRange(0, 999).Draw(t, "after0")))
	case 7:
		b.WriteString(strings.Repeat("9", rapid.IntRange(1, 42).Draw(t, "nines")))
	case 8:
		b.WriteString(rapid.StringMatching(`[0-9]{1,40}`).Draw(t, "digits"))
	default:
		b.WriteString(rapid.SampledFrom([]string{"", "٣", "1 0", "1,0", "1.0", "1e2", "0x1", "1_0", "１０", "²"}).Draw(t, "junk"))
	}
	if rapid.IntRange(0, 24).Draw(t, "badUnit") == 0 {
		b.WriteString(rapid.SampledFrom([]string{"P", "E", "KB", "kb", "KiB", " K", "K ", "µ", "%"}).Draw(t, "badUnitStr"))
	} else {
		b.WriteString(unit)
	}
	return b.String()
}

func TestVerifC49ParseBytes(t *testing.T) {
	st := verifkit.Begin(t, "C49")
	maxI := big.NewInt(math.MaxInt64)
	rapid.Check(t, func(t *rapid.T) {
		s := genSizeStringC49(t)
		ok, want := refParseBytesC49(s)
		got, err := ParseBytes(s)
		class, key := "", ""
		switch {
		case !ok:
			class = "bytes:reject-syntax"
			if err == nil {
				t.Fatalf("ParseBytes(%q) accepted a malformed size as %d", s, got)
			}
		case want.Sign() < 0 || want.Cmp(maxI) > 0:
			class = "bytes:reject-range"
			if want.Sign() < 0 {
				class = "bytes:reject-negative"
			}
			key = "bytes|" + s
			if err == nil {
				t.Fatalf("ParseBytes(%q) = %d, but the size %v is outside 0..2^63-1", s, got, want)
			}
		default:
			class = "bytes:accept"
			key = "bytes|" + s
			if err != nil {
				t.Fatalf("ParseBytes(%q) rejected the valid size %v: %v", s, want, err)
			}
			if big.NewInt(got).Cmp(want) != 0 {
				t.Fatalf("ParseBytes(%q) = %d, denoted value %v", s, got, want)
			}
		}
		if err != nil && got != 0 {
			t.Fatalf("ParseBytes(%q) returned %d together with error %v", s, got, err)
		}
		st.Case(key, class)
		if st.WantSample() {
			st.Sample(map[string]any{"input": s, "value": got, "err": fmt.Sprint(err)})
		}
	})
}
