package restic

import (
	"context"
	"encoding/hex"
	"errors"
	"fmt"
	"sort"
	"strings"
	"testing"

	"github.com/restic/restic/internal/verifkit"
	"pgregory.net/rapid"
)

// vListerC57 lists a fixed set of IDs in a drawn order.
type vListerC57 struct{ ids []ID }

func (l vListerC57) List(ctx context.Context, _ FileType, fn func(ID, int64) error) error {
	for _, id := range l.ids {
		if ctx.Err() != nil {
			return ctx.Err()
		}
		if err := fn(id, 1); err != nil {
			return err
		}
	}
	return nil
}

// genIDSetC57 draws ID sets with long shared prefixes: a few random "stems", every
// member copies a stem up to a drawn nibble position and continues differently.
func genIDSetC57(t *rapid.T) []ID {
	nstem := rapid.IntRange(1, 3).Draw(t, "nstem")
	stems := make([][]byte, nstem)
	for i := range stems {
		stems[i] = rapid.SliceOfN(rapid.Byte(), 32, 32).Draw(t, "stem")
	}
	n := rapid.IntRange(0, 12).Draw(t, "n")
	seen := map[ID]bool{}
	var ids []ID
	for i := 0; i < n; i++ {
		var id ID
		stem := stems[rapid.IntRange(0, nstem-1).Draw(t, "stemidx")]
		copy(id[:], stem)
		// shared prefix length in nibbles, biased to long
		share := rapid.OneOf(rapid.IntRange(0, 64), rapid.IntRange(56, 64), rapid.IntRange(0, 3)).Draw(t, "share")
		if share < 64 {
			rest := rapid.SliceOfN(rapid.Byte(), 32, 32).Draw(t, "rest")
			for nib := share; nib < 64; nib++ {
				b := rest[nib/2]
				if nib%2 == 0 {
					id[nib/2] = id[nib/2]&0x0f | b&0xf0
				} else {
					id[nib/2] = id[nib/2]&0xf0 | b&0x0f
				}
			}
		}
		if id.IsNull() || seen[id] {
			continue // the null ID is the reserved sentinel; the backend never lists a name twice
		}
		seen[id] = true
		ids = append(ids, id)
	}
	return ids
}

func genPrefixC57(t *rapid.T, ids []ID) string {
	kind := rapid.IntRange(0, 9).Draw(t, "pkind")
	var base string
	if len(ids) > 0 && kind < 7 {
		base = ids[rapid.IntRange(0, len(ids)-1).Draw(t, "member")].String()
	} else {
		base = hex.EncodeToString(rapid.SliceOfN(rapid.Byte(), 32, 32).Draw(t, "rnd"))
	}
	l := rapid.OneOf(rapid.IntRange(0, 64), rapid.IntRange(60, 64), rapid.IntRange(0, 4)).Draw(t, "plen")
	p := base[:l]
	switch kind {
	case 5: // near miss: change last nibble
		if l > 0 {
			c := p[l-1]
			nc := "0123456789abcdef"[(strings.IndexByte("0123456789abcdef", c)+1+rapid.IntRange(0, 14).Draw(t, "d"))%16]
			p = p[:l-1] + string(nc)
		}
	case 6: // upper case
		p = strings.ToUpper(p)
	case 9: // non-hex / over-long
		p = p + rapid.SampledFrom([]string{"g", "z", " ", "0", "ff", "/", "\x00"}).Draw(t, "junk")
	}
	return p
}

func TestVerifC57Find(t *testing.T) {
	st := verifkit.Begin(t, "C57")
	rapid.Check(t, func(t *rapid.T) {
		ids := genIDSetC57(t)
		prefix := genPrefixC57(t, ids)
		// oracle: straightforward scan of the names
		var matches []ID
		for _, id := range ids {
			if strings.HasPrefix(id.String(), prefix) {
				matches = append(matches, id)
			}
		}
		ft := rapid.SampledFrom([]FileType{SnapshotFile, KeyFile, PackFile, IndexFile}).Draw(t, "ft")
		got, err := Find(context.Background(), vListerC57{ids}, ft, prefix)

		class := fmt.Sprintf("matches=%d", min(len(matches), 2))
		key := ""
		if len(ids) >= 2 {
			// non-trivial: the set has >=2 members and the prefix is a non-empty proper prefix or empty with >=2
			s := make([]string, len(ids))
			for i, id := range ids {
				s[i] = id.String()
			}
			sort.Strings(s)
			key = strings.Join(s, ",") + "|" + prefix
		}
		st.Case(key, class, fmt.Sprintf("plen=%d", len(prefix)/16*16))
		if st.WantSample() {
			st.Sample(map[string]any{"n_ids": len(ids), "prefix": prefix, "matches": len(matches), "err": fmt.Sprint(err)})
		}

		switch len(matches) {
		case 1:
			if err != nil || got != matches[0] {
				t.Fatalf("unique match %v for prefix %q, got %v err %v", matches[0], prefix, got, err)
			}
		case 0:
			var e *NoIDByPrefixError
			if !errors.As(err, &e) || !got.IsNull() {
				t.Fatalf("no match for %q: got %v err %v", prefix, got, err)
			}
		default:
			var e *MultipleIDMatchesError
			if !errors.As(err, &e) || !got.IsNull() {
				t.Fatalf("%d matches for %q: got %v err %v", len(matches), prefix, got, err)
			}
		}
	})
}
