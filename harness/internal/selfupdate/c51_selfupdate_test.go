package selfupdate

// C51: self-update installs only a signed, hash-matching binary.
//
// DownloadLatestStableRelease runs against a fake http.RoundTripper (installed into
// http.DefaultClient) that serves rapid-generated release metadata: the release JSON, an
// asset list with decoys in drawn order, SHA256SUMS in many well- and ill-formed shapes, a
// detached signature of several kinds, an archive (good / tampered / truncated / not bzip2),
// and HTTP faults. For the positive path the package-level keyring `key` is swapped for a
// test key generated at start-up; negative paths also run with the embedded release key.
//
// Oracle (computed from what was actually downloaded, recorded by the transport):
//   install  <=>  signature over the downloaded SHA256SUMS verifies under the keyring in use
//                 AND the hash listed for exactly the downloaded archive's name equals its SHA-256
//   install  =>   target == bzip2-decompressed archive, err == nil, version returned
//   otherwise     target byte-identical to before (or still absent) and err != nil
//                 (except "already up to date": unchanged, err == nil)

import (
	"bytes"
	"compress/bzip2"
	"context"
	"crypto"
	"crypto/sha256"
	"encoding/base64"
	"encoding/hex"
	"encoding/json"
	"errors"
	"fmt"
	"io"
	"math/rand/v2"
	"net/http"
	"os"
	"path/filepath"
	"runtime"
	"strings"
	"testing"

	"github.com/restic/restic/internal/verifkit"
	"golang.org/x/crypto/openpgp"
	"golang.org/x/crypto/openpgp/armor"
	"golang.org/x/crypto/openpgp/packet"
	"pgregory.net/rapid"
)

// ---------- keys ----------

type keysC51 struct {
	trusted, foreign *openpgp.Entity
	trustedPub       []byte // armored public key, installed as the package keyring
	cfg              *packet.Config
}

func newEntityC51(t *testing.T, name string, cfg *packet.Config) *openpgp.Entity {
	e, err := openpgp.NewEntity(name, "", name+"@example.invalid", cfg)
	if err != nil {
		t.Fatalf("generate test key: %v", err)
	}
	return e
}

func setupKeysC51(t *testing.T) *keysC51 {
	cfg := &packet.Config{RSABits: 2048, DefaultHash: crypto.SHA256}
	k := &keysC51{cfg: cfg}
	k.trusted = newEntityC51(t, "verif-trusted", cfg)
	k.foreign = newEntityC51(t, "verif-foreign", cfg)
	var buf bytes.Buffer
	w, err := armor.Encode(&buf, openpgp.PublicKeyType, nil)
	if err != nil {
		t.Fatal(err)
	}
	if err := k.trusted.Serialize(w); err != nil {
		t.Fatal(err)
	}
	_ = w.Close()
	k.trustedPub = buf.Bytes()
	return k
}

func (k *keysC51) sign(e *openpgp.Entity, data []byte) []byte {
	var buf bytes.Buffer
	if err := openpgp.ArmoredDetachSign(&buf, e, bytes.NewReader(data), k.cfg); err != nil {
		panic(err)
	}
	return buf.Bytes()
}

// verifies is the reference decision "sig is a valid signature over data by the trusted
// test key", taken with a keyring object of the harness (not the package's).
func (k *keysC51) verifies(data, sig []byte) bool {
	_, err := openpgp.CheckArmoredDetachedSignature(openpgp.EntityList{k.trusted}, bytes.NewReader(data), bytes.NewReader(sig))
	return err == nil
}

// ---------- fake transport ----------

type assetC51 struct {
	Name    string
	Data    []byte
	Fault   string // "", "404", "500", "403json", "rterr", "bodyerr", "truncate"
	FaultAt int    // permille of the body delivered before bodyerr / truncate
}

type fetchC51 struct {
	name     string
	served   []byte // bytes the client could read without error
	complete bool   // status 200 and body ended with EOF
}

type transportC51 struct {
	releaseStatus int
	releaseBody   []byte
	releaseCT     string
	releaseRTErr  bool
	assets        []assetC51
	log           []fetchC51
	releaseHits   int
	unknown       []string
}

type errBodyC51 struct {
	rd  io.Reader
	err error
}

func (b *errBodyC51) Read(p []byte) (int, error) {
	n, err := b.rd.Read(p)
	if err == io.EOF {
		return n, b.err
	}
	return n, err
}
func (b *errBodyC51) Close() error { return nil }

var errInjectedC51 = errors.New("injected transport error")

func respC51(req *http.Request, status int, ct string, body io.ReadCloser) *http.Response {
	h := http.Header{}
	if ct != "" {
		h.Set("Content-Type", ct)
	}
	return &http.Response{StatusCode: status, Status: fmt.Sprintf("%d %s", status, http.StatusText(status)),
		Proto: "HTTP/1.1", ProtoMajor: 1, ProtoMinor: 1, Header: h, Body: body, ContentLength: -1, Request: req}
}

func (tr *transportC51) RoundTrip(req *http.Request) (*http.Response, error) {
	u := req.URL.String()
	if u == "https://api.github.com/repos/restic/restic/releases/latest" {
		tr.releaseHits++
		if tr.releaseRTErr {
			return nil, errInjectedC51
		}
		return respC51(req, tr.releaseStatus, tr.releaseCT, io.NopCloser(bytes.NewReader(tr.releaseBody))), nil
	}
	const prefix = "https://assets.example.invalid/a/"
	if !strings.HasPrefix(u, prefix) {
		tr.unknown = append(tr.unknown, u)
		return respC51(req, 404, "", io.NopCloser(strings.NewReader("nope"))), nil
	}
	var idx int
	if _, err := fmt.Sscanf(u[len(prefix):], "%d", &idx); err != nil || idx < 0 || idx >= len(tr.assets) {
		tr.unknown = append(tr.unknown, u)
		return respC51(req, 404, "", io.NopCloser(strings.NewReader("nope"))), nil
	}
	a := tr.assets[idx]
	f := fetchC51{name: a.Name}
	defer func() { tr.log = append(tr.log, f) }()
	switch a.Fault {
	case "404":
		return respC51(req, 404, "text/plain", io.NopCloser(strings.NewReader("not found"))), nil
	case "500":
		return respC51(req, 500, "text/html", io.NopCloser(bytes.NewReader(a.Data))), nil
	case "403json":
		return respC51(req, 403, "application/json; charset=utf-8", io.NopCloser(strings.NewReader(`{"message":"API rate limit exceeded"}`))), nil
	case "rterr":
		return nil, errInjectedC51
	case "bodyerr":
		n := len(a.Data) * a.FaultAt / 1000
		f.served = a.Data[:n]
		return respC51(req, 200, "application/octet-stream", &errBodyC51{rd: bytes.NewReader(a.Data[:n]), err: io.ErrUnexpectedEOF}), nil
	case "truncate":
		// the connection delivers fewer bytes and a clean EOF (no Content-Length): that is what "was downloaded"
		n := len(a.Data) * a.FaultAt / 1000
		f.served = a.Data[:n]
		f.complete = true
		return respC51(req, 200, "application/octet-stream", io.NopCloser(bytes.NewReader(a.Data[:n]))), nil
	}
	f.served = a.Data
	f.complete = true
	return respC51(req, 200, "application/octet-stream", io.NopCloser(bytes.NewReader(a.Data))), nil
}

// fetched returns the first completely downloaded asset whose name ends in suffix.
func (tr *transportC51) fetched(suffix string) (fetchC51, bool) {
	for _, f := range tr.log {
		if f.complete && strings.HasSuffix(f.name, suffix) {
			return f, true
		}
	}
	return fetchC51{}, false
}

// ---------- archives ----------

var archivesC51 [][]byte

func loadArchivesC51(t *testing.T) {
	archivesC51 = nil
	for i, s := range archivesB64C51 {
		b, err := base64.StdEncoding.DecodeString(s)
		if err != nil {
			t.Fatal(err)
		}
		plain, err := io.ReadAll(bzip2.NewReader(bytes.NewReader(b)))
		if err != nil {
			t.Fatalf("pool archive %d does not decompress: %v", i, err)
		}
		sum := sha256.Sum256(plain)
		if hex.EncodeToString(sum[:]) != payloadSHA256C51[i] || len(plain) != payloadLenC51[i] {
			t.Fatalf("pool archive %d: payload mismatch", i)
		}
		archivesC51 = append(archivesC51, b)
	}
}

func hexOfC51(b []byte) string {
	s := sha256.Sum256(b)
	return hex.EncodeToString(s[:])
}

// ---------- case generation ----------

type caseC51 struct {
	keyring     string // "test" | "embedded"
	current     string
	tag         string
	releaseKind string
	sigKind     string
	sumsKind    string
	archKind    string
	tr          *transportC51
	oldContent  []byte // nil: target absent
	oldMode     os.FileMode
}

func suffixC51() string { return fmt.Sprintf("%s_%s.bz2", runtime.GOOS, runtime.GOARCH) }

func genCaseC51(t *rapid.T, keys *keysC51) *caseC51 {
	c := &caseC51{tr: &transportC51{releaseStatus: 200, releaseCT: "application/json; charset=utf-8"}}
	c.keyring = rapid.SampledFrom([]string{"test", "test", "test", "test", "embedded"}).Draw(t, "keyring")
	ver := rapid.SampledFrom([]string{"0.99.1", "0.99.1", "1.0.0", "0.18.1"}).Draw(t, "version")
	c.current = rapid.SampledFrom([]string{"0.18.0", "0.18.0", "0.18.0", "dev", "dev", "1.0.0"}).Draw(t, "current")
	c.tag = "v" + ver

	// --- archive ---
	ai := rapid.IntRange(0, len(archivesC51)-1).Draw(t, "archive")
	orig := archivesC51[ai]
	served := orig
	c.archKind = rapid.SampledFrom([]string{"good", "good", "good", "good", "tampered", "tampered-listed", "truncated", "truncated-listed", "notbz2-listed", "other-pool"}).Draw(t, "archkind")
	switch c.archKind {
	case "tampered", "tampered-listed":
		served = append([]byte(nil), orig...)
		pos := rapid.IntRange(0, len(served)-1).Draw(t, "flippos")
		served[pos] ^= byte(rapid.IntRange(1, 255).Draw(t, "flipmask"))
	case "truncated", "truncated-listed":
		served = orig[:rapid.IntRange(0, len(orig)-1).Draw(t, "cut")]
	case "notbz2-listed":
		r := rand.New(rand.NewPCG(rapid.Uint64().Draw(t, "junkseed"), 51))
		served = make([]byte, rapid.IntRange(0, 200).Draw(t, "junklen"))
		for i := range served {
			served[i] = byte(r.Uint32())
		}
	case "other-pool":
		// a different, valid release archive is served than the one the sums were made for
		served = archivesC51[(ai+1+rapid.IntRange(0, len(archivesC51)-2).Draw(t, "other"))%len(archivesC51)]
	}
	listedHash := hexOfC51(orig)
	if strings.HasSuffix(c.archKind, "-listed") {
		listedHash = hexOfC51(served)
	}
	name := fmt.Sprintf("restic_%s_%s", ver, suffixC51())

	// --- SHA256SUMS ---
	otherHash := hexOfC51([]byte("some other file " + name))
	otherName := fmt.Sprintf("restic_%s_%s_%s.bz2", ver, "plan9", "mips")
	c.sumsKind = rapid.SampledFrom([]string{
		"correct", "correct", "correct", "correct", "correct-upper", "correct-crlf", "no-trailing-newline",
		"wrong-hash", "swapped-lines", "name-missing", "name-prefixed", "name-suffixed", "name-dotslash", "name-upper",
		"single-space", "tab", "star", "trailing-space", "leading-space", "three-spaces",
		"hash-empty", "hash-prefix-8", "hash-prefix-62", "hash-odd", "hash-long", "nonhex",
		"dup-good-bad", "dup-bad-good", "dup-good-good", "empty-file",
	}).Draw(t, "sumskind")
	line := listedHash + "  " + name
	var lines []string
	switch c.sumsKind {
	case "correct", "no-trailing-newline", "correct-crlf":
		lines = []string{line}
	case "correct-upper":
		lines = []string{strings.ToUpper(listedHash) + "  " + name}
	case "wrong-hash":
		lines = []string{otherHash + "  " + name}
	case "swapped-lines": // the right hash stands next to another file's name
		lines = []string{otherHash + "  " + name, listedHash + "  " + otherName}
	case "name-missing":
		lines = []string{listedHash + "  " + otherName}
	case "name-prefixed":
		lines = []string{listedHash + "  x" + name}
	case "name-suffixed":
		lines = []string{listedHash + "  " + name + ".sig"}
	case "name-dotslash":
		lines = []string{listedHash + "  ./" + name}
	case "name-upper":
		lines = []string{listedHash + "  " + strings.ToUpper(name)}
	case "single-space":
		lines = []string{listedHash + " " + name}
	case "tab":
		lines = []string{listedHash + "\t" + name}
	case "star":
		lines = []string{listedHash + " *" + name}
	case "trailing-space":
		lines = []string{line + " "}
	case "leading-space":
		lines = []string{" " + line}
	case "three-spaces":
		lines = []string{listedHash + "   " + name}
	case "hash-empty":
		lines = []string{"  " + name}
	case "hash-prefix-8":
		lines = []string{listedHash[:8] + "  " + name}
	case "hash-prefix-62":
		lines = []string{listedHash[:62] + "  " + name}
	case "hash-odd":
		lines = []string{listedHash[:63] + "  " + name}
	case "hash-long":
		lines = []string{listedHash + "00" + "  " + name}
	case "nonhex":
		lines = []string{"zz" + listedHash[2:] + "  " + name}
	case "dup-good-bad":
		lines = []string{line, otherHash + "  " + name}
	case "dup-bad-good":
		lines = []string{otherHash + "  " + name, line}
	case "dup-good-good":
		lines = []string{line, line}
	case "empty-file":
	}
	// surrounding lines for other release files
	extra := []string{
		hexOfC51([]byte("a")) + "  restic_" + ver + "_darwin_arm64.bz2",
		hexOfC51([]byte("b")) + "  restic_" + ver + "_windows_amd64.zip",
		hexOfC51([]byte("c")) + "  restic-" + ver + ".tar.gz",
	}
	nb := rapid.IntRange(0, 3).Draw(t, "linesbefore")
	na := rapid.IntRange(0, 3).Draw(t, "linesafter")
	if c.sumsKind == "empty-file" {
		nb, na = 0, 0
	}
	all := append(append(append([]string{}, extra[:nb]...), lines...), extra[:na]...)
	nl := "\n"
	if c.sumsKind == "correct-crlf" {
		nl = "\r\n"
	}
	sums := strings.Join(all, nl)
	if c.sumsKind != "no-trailing-newline" && len(all) > 0 {
		sums += nl
	}
	sumsData := []byte(sums)

	// --- signature ---
	c.sigKind = rapid.SampledFrom([]string{"valid", "valid", "valid", "valid", "valid", "valid", "valid", "valid", "valid", "valid", "valid", "foreign", "garbage", "missing", "other-data", "empty", "wrong-armor-type", "truncated", "binary-unarmored"}).Draw(t, "sigkind")
	var sig []byte
	switch c.sigKind {
	case "valid", "missing":
		sig = keys.sign(keys.trusted, sumsData)
	case "foreign":
		sig = keys.sign(keys.foreign, sumsData)
	case "garbage":
		sig = []byte("-----BEGIN PGP SIGNATURE-----\n\nnot a signature\n-----END PGP SIGNATURE-----\n")
	case "other-data":
		// a genuine signature of the trusted key, but the sums file was changed afterwards
		sig = keys.sign(keys.trusted, sumsData)
		how := rapid.IntRange(0, 2).Draw(t, "tamper")
		switch {
		case how == 0 || len(sumsData) == 0:
			sumsData = append(append([]byte(nil), sumsData...), []byte(otherHash+"  added-later\n")...)
		case how == 1:
			sumsData = append([]byte(nil), sumsData[:len(sumsData)-1]...)
		default:
			sumsData = append([]byte(nil), sumsData...)
			p := rapid.IntRange(0, len(sumsData)-1).Draw(t, "tamperpos")
			if sumsData[p] == '0' {
				sumsData[p] = '1'
			} else {
				sumsData[p] = '0'
			}
		}
	case "empty":
		sig = nil
	case "wrong-armor-type":
		sig = keys.trustedPub
	case "truncated":
		full := keys.sign(keys.trusted, sumsData)
		sig = full[:rapid.IntRange(0, len(full)-10).Draw(t, "sigcut")]
	case "binary-unarmored":
		full := keys.sign(keys.trusted, sumsData)
		if blk, err := armor.Decode(bytes.NewReader(full)); err == nil {
			sig, _ = io.ReadAll(blk.Body)
		}
	}

	// --- assets, decoys, order, faults ---
	assets := []assetC51{
		{Name: "SHA256SUMS", Data: sumsData},
		{Name: name, Data: served},
		{Name: "restic_" + ver + "_windows_amd64.zip", Data: []byte("PK not for this platform")},
		{Name: "restic-" + ver + ".tar.gz", Data: []byte("source")},
	}
	if c.sigKind != "missing" {
		assets = append(assets, assetC51{Name: "SHA256SUMS.asc", Data: sig})
	}
	switch rapid.SampledFrom([]string{"none", "none", "none", "none", "decoy-archive", "decoy-sums", "decoy-sig", "no-archive", "no-sums"}).Draw(t, "assetkind") {
	case "decoy-archive":
		d := archivesC51[(ai+1)%len(archivesC51)]
		dn := "evil_" + suffixC51()
		assets = append(assets, assetC51{Name: dn, Data: d})
		if rapid.Bool().Draw(t, "decoylisted") {
			// the (signed) sums file vouches for the decoy under the decoy's own name: rebuild and re-sign
			sumsData = append(append([]byte(nil), sumsData...), []byte(hexOfC51(d)+"  "+dn+"\n")...)
			assets[0].Data = sumsData
			if c.sigKind == "valid" {
				for i := range assets {
					if assets[i].Name == "SHA256SUMS.asc" {
						assets[i].Data = keys.sign(keys.trusted, sumsData)
					}
				}
			}
		}
	case "decoy-sums":
		// an unsigned sums file that vouches for whatever is served
		assets = append(assets, assetC51{Name: "unofficial-SHA256SUMS", Data: []byte(hexOfC51(served) + "  " + name + "\n")})
	case "decoy-sig":
		assets = append(assets, assetC51{Name: "other-SHA256SUMS.asc", Data: keys.sign(keys.foreign, sumsData)})
	case "no-archive":
		assets = append(assets[:1], assets[2:]...)
	case "no-sums":
		assets = assets[1:]
	}
	perm := rapid.Permutation(assets).Draw(t, "order")
	if rapid.IntRange(0, 7).Draw(t, "faulty") == 0 {
		i := rapid.IntRange(0, len(perm)-1).Draw(t, "faultidx")
		perm[i].Fault = rapid.SampledFrom([]string{"404", "500", "403json", "rterr", "bodyerr", "truncate"}).Draw(t, "fault")
		perm[i].FaultAt = rapid.SampledFrom([]int{0, 500, 999}).Draw(t, "faultat")
	}
	c.tr.assets = perm

	// --- release document ---
	c.releaseKind = rapid.SampledFrom([]string{"ok", "ok", "ok", "ok", "ok", "ok", "ok", "ok", "ok", "ok", "ok", "ok", "ok", "ok", "ok", "ok", "ok", "ok", "ok", "ok", "up-to-date", "no-v", "empty-tag", "bad-json", "status-403", "status-500", "rterr"}).Draw(t, "release")
	tag := c.tag
	switch c.releaseKind {
	case "up-to-date":
		tag = "v" + c.current
	case "no-v":
		tag = ver
	case "empty-tag":
		tag = ""
	}
	type jsonAsset struct {
		ID   int    `json:"id"`
		Name string `json:"name"`
		URL  string `json:"url"`
	}
	var ja []jsonAsset
	for i, a := range perm {
		ja = append(ja, jsonAsset{ID: 1000 + i, Name: a.Name, URL: fmt.Sprintf("https://assets.example.invalid/a/%d", i)})
	}
	body, _ := json.Marshal(map[string]any{"name": "restic " + ver, "tag_name": tag, "draft": false, "prerelease": false,
		"published_at": "2026-01-02T03:04:05Z", "assets": ja})
	c.tag = tag
	c.tr.releaseBody = body
	switch c.releaseKind {
	case "bad-json":
		c.tr.releaseBody = body[:len(body)/2]
	case "status-403":
		c.tr.releaseStatus = 403
		c.tr.releaseBody = []byte(`{"message":"API rate limit exceeded"}`)
	case "status-500":
		c.tr.releaseStatus = 500
		c.tr.releaseCT = "text/html"
	case "rterr":
		c.tr.releaseRTErr = true
	}

	// --- the installed binary ---
	if rapid.IntRange(0, 5).Draw(t, "targetabsent") == 0 {
		c.oldContent = nil
	} else {
		c.oldContent = []byte("old restic binary " + rapid.StringMatching(`[a-z]{0,12}`).Draw(t, "oldtag"))
	}
	c.oldMode = rapid.SampledFrom([]os.FileMode{0o755, 0o700, 0o555}).Draw(t, "mode")
	return c
}

// ---------- oracle ----------

type expectC51 struct {
	verdict  string // "install" | "keep" | "either" | "uptodate"
	sigOK    bool
	named    bool // at least one line lists exactly the archive's name
	hashOK   bool // some such line carries the archive's hash
	content  []byte
	extracts bool
	why      string
}

func decideC51(c *caseC51, keys *keysC51) expectC51 {
	e := expectC51{verdict: "keep"}
	switch c.releaseKind {
	case "up-to-date":
		e.verdict, e.why = "uptodate", "latest release equals the running version"
		return e
	case "no-v", "empty-tag", "bad-json", "status-403", "status-500", "rterr":
		e.why = "release document unusable: " + c.releaseKind
		return e
	}
	if strings.TrimPrefix(c.tag, "v") == c.current {
		e.verdict, e.why = "uptodate", "latest release equals the running version"
		return e
	}
	sums, okS := c.tr.fetched("SHA256SUMS")
	sig, okSig := c.tr.fetched("SHA256SUMS.asc")
	arch, okA := c.tr.fetched(suffixC51())
	if okS && okSig {
		e.sigOK = c.keyring == "test" && keys.verifies(sums.served, sig.served)
	}
	if !okS || !okSig || !okA {
		e.why = fmt.Sprintf("not everything was downloaded (sums=%v sig=%v archive=%v)", okS, okSig, okA)
		return e
	}
	want := sha256.Sum256(arch.served)
	// hash fields of the lines that, in sha256sum text format ("<hex>  <name>"), name exactly the archive
	var exact [][]byte
	exactAllGood := true
	loose := false
	for _, ln := range strings.Split(string(sums.served), "\n") {
		ln = strings.TrimSuffix(ln, "\r")
		if i := strings.Index(ln, "  "); i >= 0 && ln[i+2:] == arch.name {
			h, err := hex.DecodeString(ln[:i])
			exact = append(exact, h)
			if err != nil || !bytes.Equal(h, want[:]) {
				exactAllGood = false
			}
		}
		// lenient reading: any whitespace, optional binary marker
		if f := strings.Fields(ln); len(f) == 2 && strings.TrimPrefix(f[1], "*") == arch.name {
			if h, err := hex.DecodeString(f[0]); err == nil && bytes.Equal(h, want[:]) {
				loose = true
			}
		}
	}
	e.named = len(exact) > 0
	e.hashOK = loose
	plain, err := io.ReadAll(bzip2.NewReader(bytes.NewReader(arch.served)))
	e.extracts = err == nil
	e.content = plain
	switch {
	case !e.sigOK:
		e.why = "signature does not verify under the keyring in use"
	case !loose:
		e.why = "no line lists the archive's SHA-256 for exactly its name"
	case !e.extracts:
		e.why = "archive is signed and hash-matching but does not decompress"
	case e.named && exactAllGood:
		e.verdict, e.why = "install", "signature valid and listed hash matches"
	default:
		e.verdict, e.why = "either", "hash listed only in a lenient format or contradictory duplicate lines"
	}
	return e
}

func TestVerifC51SelfUpdate(t *testing.T) {
	st := verifkit.Begin(t, "C51")
	loadArchivesC51(t)
	keys := setupKeysC51(t)

	embeddedKey := key
	oldTransport := http.DefaultClient.Transport
	oldToken, hadToken := os.LookupEnv("GITHUB_ACCESS_TOKEN")
	_ = os.Unsetenv("GITHUB_ACCESS_TOKEN")
	defer func() {
		key = embeddedKey
		http.DefaultClient.Transport = oldTransport
		if hadToken {
			_ = os.Setenv("GITHUB_ACCESS_TOKEN", oldToken)
		}
	}()

	// positive and negative control of the harness itself
	key = keys.trustedPub
	probe := []byte("probe\n")
	if ok, err := GPGVerify(probe, keys.sign(keys.trusted, probe)); !ok || err != nil {
		t.Fatalf("harness: swapped-in test key does not verify its own signature: %v", err)
	}
	if ok, _ := GPGVerify(probe, keys.sign(keys.foreign, probe)); ok {
		t.Fatalf("GPGVerify accepts a signature of a key that is not in the keyring")
	}
	key = embeddedKey
	if ok, _ := GPGVerify(probe, keys.sign(keys.trusted, probe)); ok {
		t.Fatalf("GPGVerify with the embedded release key accepts a signature of the test key")
	}

	base, err := os.MkdirTemp("", "c51-")
	if err != nil {
		t.Fatal(err)
	}
	defer os.RemoveAll(base)
	caseNo := 0

	rapid.Check(t, func(t *rapid.T) {
		c := genCaseC51(t, keys)
		caseNo++
		dir := filepath.Join(base, fmt.Sprintf("case%d", caseNo))
		if err := os.Mkdir(dir, 0o755); err != nil {
			t.Fatalf("mkdir: %v", err)
		}
		defer os.RemoveAll(dir)
		target := filepath.Join(dir, "restic")
		if c.oldContent != nil {
			if err := os.WriteFile(target, c.oldContent, c.oldMode); err != nil {
				t.Fatalf("write target: %v", err)
			}
			_ = os.Chmod(target, c.oldMode)
		}

		if c.keyring == "test" {
			key = keys.trustedPub
		} else {
			key = embeddedKey
		}
		http.DefaultClient.Transport = c.tr
		version, err := DownloadLatestStableRelease(context.Background(), target, c.current, nil)
		http.DefaultClient.Transport = oldTransport
		key = embeddedKey

		exp := decideC51(c, keys)
		got, rerr := os.ReadFile(target)
		exists := rerr == nil
		unchanged := (c.oldContent == nil && !exists) || (c.oldContent != nil && exists && bytes.Equal(got, c.oldContent))
		installed := exp.extracts && exists && bytes.Equal(got, exp.content) && !(unchanged && bytes.Equal(exp.content, c.oldContent))

		// ---- statistics ----
		// for the statistics the three conditions are evaluated on the assets restic would pick
		// (first name with the suffix), also when the run stopped before downloading them
		hyp := hypotheticalC51(c, keys)
		conds := 0
		for _, b := range []bool{hyp.sigOK, hyp.named, hyp.hashOK} {
			if b {
				conds++
			}
		}
		ntKey := ""
		if c.releaseKind == "ok" && (conds == 3 || conds == 2) {
			ntKey = fmt.Sprintf("%s|%s|%s|%s|%s|%d assets|%x", c.keyring, c.sigKind, c.sumsKind, c.archKind, exp.verdict, len(c.tr.assets), sha256.Sum256(c.tr.releaseBody))
		}
		leftovers := 0
		if ents, derr := os.ReadDir(dir); derr == nil {
			for _, e := range ents {
				if e.Name() != "restic" {
					leftovers++
				}
			}
		}
		classes := []string{"expect=" + exp.verdict, "keyring=" + c.keyring, "sig=" + c.sigKind, "sums=" + c.sumsKind, "archive=" + c.archKind, "release=" + c.releaseKind,
			fmt.Sprintf("conditions-true=%d", conds)}
		if c.oldContent == nil {
			classes = append(classes, "target-absent")
		}
		if installed {
			classes = append(classes, "outcome=installed")
		} else if unchanged {
			classes = append(classes, "outcome=unchanged")
		}
		if leftovers > 0 {
			classes = append(classes, "leftover-temp-file")
		}
		if exp.verdict == "keep" && exp.sigOK && exp.hashOK && !exp.extracts {
			classes = append(classes, "signed-and-matching-but-not-extractable")
		}
		st.Case(ntKey, classes...)
		if st.WantSample() {
			st.Sample(map[string]any{"keyring": c.keyring, "sig": c.sigKind, "sums": c.sumsKind, "archive": c.archKind, "release": c.releaseKind,
				"expect": exp.verdict, "why": exp.why, "err": fmt.Sprint(err), "installed": installed, "fetches": len(c.tr.log)})
		}

		// ---- verdict ----
		desc := fmt.Sprintf("keyring=%s sig=%s sums=%s archive=%s release=%s tag=%q current=%q assets=%v; sigOK=%v named=%v hashOK=%v extracts=%v (%s)",
			c.keyring, c.sigKind, c.sumsKind, c.archKind, c.releaseKind, c.tag, c.current, assetNamesC51(c.tr.assets), exp.sigOK, exp.named, exp.hashOK, exp.extracts, exp.why)
		if len(c.tr.unknown) > 0 {
			t.Fatalf("self-update requested URLs outside the release: %v\n%s", c.tr.unknown, desc)
		}
		if !unchanged && !installed {
			t.Fatalf("target is neither unchanged nor the decompressed archive (exists=%v, %d bytes), err=%v\n%s", exists, len(got), err, desc)
		}
		switch exp.verdict {
		case "uptodate":
			if !unchanged || err != nil || version != c.current {
				t.Fatalf("already up to date: want unchanged target, nil error, version %q; got unchanged=%v err=%v version=%q\n%s", c.current, unchanged, err, version, desc)
			}
		case "keep":
			if !unchanged {
				t.Fatalf("binary was REPLACED although it must not be: %s\nerr=%v\n%s", exp.why, err, desc)
			}
			if err == nil {
				t.Fatalf("no error reported although nothing was installed: %s\n%s", exp.why, desc)
			}
		case "install":
			if !installed || err != nil {
				t.Fatalf("valid signed release was not installed: installed=%v err=%v\n%s", installed, err, desc)
			}
			if version != strings.TrimPrefix(c.tag, "v") {
				t.Fatalf("installed, but returned version %q for tag %q\n%s", version, c.tag, desc)
			}
		case "either":
			if installed != (err == nil) {
				t.Fatalf("installed=%v but err=%v\n%s", installed, err, desc)
			}
		}
	})
}

// hypotheticalC51 evaluates the conditions of the statement on the first assets carrying the
// looked-up suffixes, ignoring faults. Used for the case statistics only, never for a verdict.
func hypotheticalC51(c *caseC51, keys *keysC51) expectC51 {
	tr := &transportC51{}
	for _, suffix := range []string{"SHA256SUMS", "SHA256SUMS.asc", suffixC51()} {
		for _, a := range c.tr.assets {
			if strings.HasSuffix(a.Name, suffix) {
				tr.log = append(tr.log, fetchC51{name: a.Name, served: a.Data, complete: true})
				break
			}
		}
	}
	cc := *c
	cc.tr = tr
	cc.releaseKind = "ok"
	cc.current = "\x00never"
	return decideC51(&cc, keys)
}

func assetNamesC51(as []assetC51) []string {
	var s []string
	for _, a := range as {
		n := a.Name
		if a.Fault != "" {
			n += "!" + a.Fault
		}
		s = append(s, n)
	}
	return s
}
