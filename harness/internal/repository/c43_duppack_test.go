package repository

import (
	"context"
	"crypto/sha256"
	"fmt"
	"testing"

	"github.com/restic/restic/internal/backend/mem"
	"github.com/restic/restic/internal/restic"
	"github.com/restic/restic/internal/verifkit"
	"pgregory.net/rapid"
)

// C43, packs that hold a blob more than once: "calls back exactly once per requested blob"
// must also hold when the pack itself stores the requested blob two or three times at
// different offsets (SaveBlob with storeDuplicate, what older versions and repacks of
// duplicates leave behind) - with and without a further copy in another pack. One session
// saves 1-10 blobs, some of them 2-3 times, into one pack; a second session optionally adds
// copies to a second pack. LoadBlobsFromPack(pack A, drawn subset in drawn order) must call
// back exactly once per requested handle with the right plaintext, for nothing else, and
// return nil. (Added after an independent seeded change - blobsInPack collecting every
// index entry of the blob in that pack instead of the first - was missed: the generated
// packs never repeated a blob.)
func TestVerifC43DuplicateInPack(t *testing.T) {
	st := verifkit.Begin(t, "C43")
	TestUseLowSecurityKDFParameters(t)
	restic.TestDisableCheckPolynomial(t)
	rapid.Check(t, func(t *rapid.T) {
		ctx := context.Background()
		version := uint(rapid.IntRange(1, 2).Draw(t, "version"))
		comp := rapid.SampledFrom([]CompressionMode{CompressionOff, CompressionFastest, CompressionAuto}).Draw(t, "compression")
		tpe := rapid.SampledFrom([]restic.BlobType{restic.DataBlob, restic.TreeBlob}).Draw(t, "type")
		repo, err := newRepoC43(mem.New(), version, Options{Compression: comp})
		if err != nil {
			t.Fatalf("init: %v", err)
		}
		type blobT struct {
			plain  []byte
			id     restic.ID
			copies int  // in pack A
			inB    bool // one more copy in a second pack
		}
		n := rapid.IntRange(1, 10).Draw(t, "n")
		var blobs []*blobT
		byID := map[restic.ID]*blobT{}
		repeated := 0
		for i := 0; i < n; i++ {
			b := &blobT{plain: prfC43(rapid.Uint64Range(1, 1<<32).Draw(t, "seed"), 1+genSmallSizeC43(t)%40000, rapid.IntRange(0, 2).Draw(t, "kind"))}
			b.id = restic.ID(sha256.Sum256(b.plain))
			if byID[b.id] != nil {
				continue
			}
			b.copies = rapid.SampledFrom([]int{1, 1, 2, 2, 3}).Draw(t, "copies")
			b.inB = rapid.IntRange(0, 3).Draw(t, "inB") == 0
			if b.copies > 1 {
				repeated++
			}
			byID[b.id] = b
			blobs = append(blobs, b)
		}
		if err := repo.WithBlobUploader(ctx, func(ctx context.Context, up restic.BlobSaverWithAsync) error {
			for round := 1; round <= 3; round++ { // copies are spread over the pack, not adjacent
				for _, b := range blobs {
					if b.copies < round {
						continue
					}
					if _, _, _, err := up.SaveBlob(ctx, tpe, b.plain, restic.ID{}, round > 1); err != nil {
						return err
					}
				}
			}
			return nil
		}); err != nil {
			t.Fatalf("saving: %v", err)
		}
		packA := restic.ID{}
		for _, b := range blobs {
			pbs := repo.LookupBlob(restic.BlobHandle{ID: b.id, Type: tpe})
			if len(pbs) != b.copies {
				t.Fatalf("harness: blob %v has %d index entries after the first session, saved %d times", b.id.Str(), len(pbs), b.copies)
			}
			for _, pb := range pbs {
				if packA.IsNull() {
					packA = pb.PackID()
				} else if packA != pb.PackID() {
					t.Skip("first session produced two packs")
				}
			}
		}
		if err := repo.WithBlobUploader(ctx, func(ctx context.Context, up restic.BlobSaverWithAsync) error {
			for _, b := range blobs {
				if b.inB {
					if _, _, _, err := up.SaveBlob(ctx, tpe, b.plain, restic.ID{}, true); err != nil {
						return err
					}
				}
			}
			return nil
		}); err != nil {
			t.Fatalf("saving copies: %v", err)
		}

		order := rapid.Permutation(blobs).Draw(t, "order")
		order = order[:rapid.IntRange(1, len(order)).Draw(t, "requested")]
		var handles []restic.BlobHandle
		requested := map[restic.ID]bool{}
		for _, b := range order {
			handles = append(handles, restic.BlobHandle{ID: b.id, Type: tpe})
			requested[b.id] = true
		}
		calls := map[restic.ID]int{}
		var problem string
		rerr := repo.LoadBlobsFromPack(ctx, packA, handles, func(blob restic.BlobHandle, buf []byte, err error) error {
			calls[blob.ID]++
			switch {
			case blob.Type != tpe || !requested[blob.ID]:
				problem = fmt.Sprintf("callback for the unrequested blob %v", blob)
			case err != nil:
				problem = fmt.Sprintf("blob %v of an intact pack delivered with error %v", blob, err)
			case restic.ID(sha256.Sum256(buf)) != blob.ID:
				problem = fmt.Sprintf("blob %v delivered with other content", blob)
			}
			return nil
		})
		describe := func() string {
			s := ""
			for _, b := range blobs {
				s += fmt.Sprintf("%s x%d inB=%v requested=%v; ", b.id.Str(), b.copies, b.inB, requested[b.id])
			}
			return s
		}
		if rerr != nil {
			t.Fatalf("LoadBlobsFromPack returned %v on an intact pack\n%s", rerr, describe())
		}
		if problem != "" {
			t.Fatalf("%s\n%s", problem, describe())
		}
		for _, b := range order {
			if calls[b.id] != 1 {
				t.Fatalf("blob %v (stored %d times in the pack) was delivered %d times, want exactly once\n%s", b.id.Str(), b.copies, calls[b.id], describe())
			}
		}
		key := ""
		if repeated > 0 {
			key = fmt.Sprintf("duppack|v%d|%v|%v|%s", version, comp, tpe, describe())
		}
		st.Case(key, fmt.Sprintf("duppack:repeated-in-pack=%v", repeated > 0))
		st.Evals(len(order))
		if st.WantSample() {
			st.Sample(map[string]any{"part": "duplicate-in-pack", "blobs": len(blobs), "stored_more_than_once_in_pack": repeated, "requested": len(order)})
		}
	})
}
