package repository

import (
	"bytes"
	"context"
	"crypto/sha256"
	"encoding/binary"
	"encoding/json"
	"errors"
	"fmt"
	"io"
	"math/rand/v2"
	"sort"
	"strings"
	"testing"

	"github.com/klauspost/compress/zstd"
	"github.com/restic/restic/internal/backend"
	"github.com/restic/restic/internal/repository/crypto"
	"github.com/restic/restic/internal/repository/pack"
	"github.com/restic/restic/internal/restic"
	"github.com/restic/restic/internal/verifkit"
	"pgregory.net/rapid"
)

// C43: streaming blobs from a pack delivers each requested blob exactly once.
//
// Part 1 (TestVerifC43StreamPack) drives the unexported streamPack directly:
//   - the pack is built by the real pack.Packer and the request is taken from the
//     header as decoded by pack.List (what every caller gets through the index);
//   - "filler" entries (never requested, arbitrary bytes of an exact length) make
//     gaps around the 1 MiB skip limit and ranges beyond the 32 MiB chunk limit cheap;
//   - beLoad is an in-memory backend.Load with a drawn per-call plan (fail before,
//     partial data without/with an internal retry, error after complete delivery)
//     and persistently damaged blobs (bit flip, validly sealed other plaintext,
//     validly sealed garbage for compressed blobs);
//   - loadBlobFn is nil / good for all / bad for all / good for a drawn subset.
//
// Oracle (the loads actually issued are observed, the split into parts is not
// re-implemented): a blob is "served" iff a load that returned nil covered its byte
// range. For every requested blob b, as long as the callback never returned an error:
//   served(b) && !damaged(b)  or  fallbackGood(b)  =>  exactly one callback, err == nil,
//                                                       sha256(buf) == b.ID
//   otherwise, with a fallback                     =>  exactly one callback with err != nil
//   otherwise, without a fallback                  =>  damaged: one callback with err != nil;
//                                                       not served: no callback or err != nil,
//                                                       and streamPack returns an error
// streamPack returns nil iff nothing went wrong at the level of the call (fallback
// present, or all loads fine). Never a callback for a blob that was not requested,
// never two for one blob. After the callback returned an error there is no further
// callback and streamPack returns an error.
//
// Part 2 (TestVerifC43RepoFallback) runs Repository.LoadBlobsFromPack on a real
// repository in which some blobs have a second copy in another pack, behind a backend
// that persistently damages / truncates / refuses the first pack.

// ---- deterministic content ----

func prfC43(seed uint64, n int, kind int) []byte {
	b := make([]byte, n)
	switch kind {
	case 1: // compressible: short period
		p := int(seed%61) + 1
		for i := range b {
			b[i] = byte(seed>>8) + byte(i%p)
		}
	case 2: // zeros with one marker
		if n > 0 {
			b[n/2] = byte(seed) | 1
		}
	default:
		var s [32]byte
		binary.LittleEndian.PutUint64(s[:], seed)
		binary.LittleEndian.PutUint64(s[8:], uint64(n))
		_, _ = rand.NewChaCha8(s).Read(b)
	}
	return b
}

var zstdEncC43 *zstd.Encoder

// fillers are slices of this (sizes stay below 2 MiB + a few bytes)
var zeroBufC43 = make([]byte, 2*(1<<20)+64)

func encC43() *zstd.Encoder {
	if zstdEncC43 == nil {
		enc, err := zstd.NewWriter(nil, zstd.WithEncoderLevel(zstd.SpeedFastest), zstd.WithEncoderCRC(false), zstd.WithWindowSize(512*1024))
		if err != nil {
			panic(err)
		}
		zstdEncC43 = enc
	}
	return zstdEncC43
}

func fixedKeyC43() *crypto.Key {
	const jsonKey = `{"mac":{"k":"eQenuI8adktfzZMuC8rwdA==","r":"k8cfAly2qQSky48CQK7SBA=="},"encrypt":"MKO9gZnRiQFl8mDUurSDa9NMjiu9MUifUrODTHS05wo="}`
	k := &crypto.Key{}
	if err := json.Unmarshal([]byte(jsonKey), k); err != nil {
		panic(err)
	}
	return k
}

func sealC43(key *crypto.Key, nonceSeed uint64, data []byte) []byte {
	nonce := make([]byte, 16)
	binary.LittleEndian.PutUint64(nonce, nonceSeed|1)
	binary.LittleEndian.PutUint64(nonce[8:], nonceSeed*0x9E3779B97F4A7C15+1)
	out := make([]byte, 0, len(data)+crypto.Extension)
	out = append(out, nonce...)
	return key.Seal(out, nonce, data, nil)
}

// ---- pack model ----

type vSegC43 struct {
	real     bool
	size     int // plaintext size (real) or exact stored length (filler)
	kind     int // content kind
	compress bool
	seed     uint64

	id    restic.ID
	entry pack.Blob // from pack.List
}

type vPackC43 struct {
	key   *crypto.Key
	id    restic.ID
	bytes []byte
	segs  []*vSegC43
	byID  map[restic.ID]*vSegC43
	tpe   restic.BlobType
}

func buildPackC43(t *rapid.T, key *crypto.Key, tpe restic.BlobType, segs []*vSegC43) *vPackC43 {
	var buf bytes.Buffer
	est := 0
	for _, s := range segs {
		est += s.size + 64
	}
	buf.Grow(est + 41*len(segs) + 64)
	p := pack.NewPacker(key, &buf)
	byID := map[restic.ID]*vSegC43{}
	for i, s := range segs {
		if !s.real {
			var idb [40]byte
			copy(idb[:], "filler")
			binary.LittleEndian.PutUint64(idb[8:], uint64(i))
			binary.LittleEndian.PutUint64(idb[16:], s.seed)
			s.id = restic.ID(sha256.Sum256(idb[:]))
			if _, err := p.Add(tpe, s.id, zeroBufC43[:s.size], 0); err != nil {
				t.Fatalf("packer add: %v", err)
			}
			byID[s.id] = s
			continue
		}
		plain := prfC43(s.seed, s.size, s.kind)
		s.id = restic.ID(sha256.Sum256(plain))
		for {
			if _, dup := byID[s.id]; !dup {
				break
			}
			// same content twice in one pack: make it distinct instead (requests are sets)
			s.seed += 0x1000003
			s.size++
			s.kind = 0
			plain = prfC43(s.seed, s.size, 0)
			s.id = restic.ID(sha256.Sum256(plain))
		}
		ulen := 0
		data := plain
		if s.compress && len(plain) > 0 {
			ulen = len(plain)
			data = encC43().EncodeAll(plain, nil)
		} else {
			s.compress = false
		}
		ct := sealC43(key, s.seed+uint64(i)<<40, data)
		if _, err := p.Add(tpe, s.id, ct, ulen); err != nil {
			t.Fatalf("packer add: %v", err)
		}
		byID[s.id] = s
	}
	if err := p.Finalize(); err != nil {
		t.Fatalf("packer finalize: %v", err)
	}
	pk := &vPackC43{key: key, bytes: buf.Bytes(), segs: segs, byID: byID, tpe: tpe}
	pk.id = restic.ID(sha256.Sum256(pk.bytes))
	entries, _, err := pack.List(key, bytes.NewReader(pk.bytes), int64(len(pk.bytes)))
	if err != nil {
		t.Fatalf("pack.List on freshly built pack: %v", err)
	}
	if len(entries) != len(segs) {
		t.Fatalf("pack.List: %d entries, built %d", len(entries), len(segs))
	}
	for _, e := range entries {
		s := byID[e.ID]
		if s == nil {
			t.Fatalf("pack.List: unknown entry %v", e)
		}
		s.entry = e
	}
	return pk
}

// damagedCopyC43 returns the stored bytes of s after damage of the given kind.
func damagedCopyC43(pk *vPackC43, s *vSegC43, kind int, pos uint64) []byte {
	off, l := int(s.entry.Offset), int(s.entry.Length)
	orig := pk.bytes[off : off+l]
	if kind == 1 && l == crypto.Extension {
		kind = 0 // an empty body has no "other plaintext"
	}
	switch kind {
	case 1: // validly sealed, other plaintext of the same stored length
		body := prfC43(s.seed^0xdead, l-crypto.Extension, 0)
		return sealC43(pk.key, s.seed^0xbeef, body)
	case 2: // all zero
		return make([]byte, l)
	default: // bit flip anywhere (nonce, body, MAC)
		c := bytes.Clone(orig)
		c[int(pos%uint64(l))] ^= 1 << (pos >> 32 % 8)
		return c
	}
}

// ---- generator ----

const (
	mibC43       = 1 << 20
	maxChunkC43  = 2 * DefaultPackSize
	maxUnusedC43 = maxUnusedRange
)

type vCaseC43 struct {
	shape string
	segs  []*vSegC43
	want  []int // indices into segs (all real), request order
}

func genSmallSizeC43(t *rapid.T) int {
	return rapid.OneOf(
		rapid.IntRange(0, 64),
		rapid.IntRange(65, 4096),
		rapid.IntRange(4097, 70000),
		rapid.SampledFrom([]int{0, 1, 15, 16, 17, 31, 32, 33, 512*1024 - 1, 512 * 1024, 512*1024 + 1}),
	).Draw(t, "size")
}

func genRealC43(t *rapid.T, size int) *vSegC43 {
	return &vSegC43{real: true, size: size,
		kind:     rapid.IntRange(0, 2).Draw(t, "kind"),
		compress: rapid.Bool().Draw(t, "compress"),
		seed:     rapid.Uint64Range(1, 1<<32).Draw(t, "seed")}
}

func genCaseC43(t *rapid.T) *vCaseC43 {
	c := &vCaseC43{}
	big := verifkit.Tier() == "thorough"
	// the two shapes that move > 32 MiB per case are kept at 1 in 20 each
	shapes := []string{"small", "small", "small", "small", "small", "small", "small", "gap", "gap", "gap", "gap", "gap", "gap",
		"mixed", "mixed", "mixed", "mixed", "mixed", "span", "huge"}
	if big {
		shapes = append(shapes, "realspan")
	}
	c.shape = rapid.SampledFrom(shapes).Draw(t, "shape")
	filler := func(n int) *vSegC43 {
		return &vSegC43{size: n, seed: rapid.Uint64Range(0, 1<<20).Draw(t, "fseed")}
	}
	gapSize := func() int {
		return rapid.OneOf(
			rapid.SampledFrom([]int{maxUnusedC43 - 1, maxUnusedC43, maxUnusedC43 + 1, maxUnusedC43 + 2}),
			rapid.IntRange(1, 2*mibC43),
		).Draw(t, "gap")
	}
	addReal := func(size int, want bool) {
		c.segs = append(c.segs, genRealC43(t, size))
		if want {
			c.want = append(c.want, len(c.segs)-1)
		}
	}
	switch c.shape {
	case "small":
		n := rapid.IntRange(1, 12).Draw(t, "n")
		for i := 0; i < n; i++ {
			addReal(genSmallSizeC43(t), rapid.IntRange(0, 3).Draw(t, "w") > 0)
		}
	case "gap":
		// real blobs separated by unrequested stretches around the 1 MiB limit; a stretch is
		// one filler, or a filler split in two, or contains an unrequested real blob
		n := rapid.IntRange(2, 6).Draw(t, "n")
		for i := 0; i < n; i++ {
			addReal(genSmallSizeC43(t)%5000, rapid.IntRange(0, 5).Draw(t, "w") > 0)
			if i == n-1 {
				break
			}
			g := gapSize()
			switch rapid.IntRange(0, 2).Draw(t, "gapkind") {
			case 0:
				c.segs = append(c.segs, filler(g))
			case 1:
				a := rapid.IntRange(1, max(1, g-1)).Draw(t, "split")
				c.segs = append(c.segs, filler(a))
				if g-a > 0 {
					c.segs = append(c.segs, filler(g-a))
				}
			default:
				// unrequested real blob of stored length 100+32 in the middle
				if g > 400 {
					a := (g - 132) / 2
					c.segs = append(c.segs, filler(a))
					s := genRealC43(t, 100)
					s.compress = false
					c.segs = append(c.segs, s)
					c.segs = append(c.segs, filler(g-132-a))
				} else {
					c.segs = append(c.segs, filler(g))
				}
			}
		}
	case "span":
		// many small requested blobs with unrequested stretches <= 1 MiB between them, so that the
		// requested range crosses the 32 MiB chunk limit (exactly at, just below, just above)
		total := 0
		target := maxChunkC43 + rapid.SampledFrom([]int{-3 * mibC43, -1, 0, 1, 4 * mibC43, 34 * mibC43}).Draw(t, "over")
		stretch := rapid.SampledFrom([]int{maxUnusedC43, maxUnusedC43 - 7, 700000}).Draw(t, "stretch")
		for total < target {
			sz := rapid.IntRange(1, 300).Draw(t, "sz")
			s := genRealC43(t, sz)
			s.compress = false
			c.segs = append(c.segs, s)
			c.want = append(c.want, len(c.segs)-1)
			total += sz + 32
			rest := target - total
			if rest <= 0 {
				break
			}
			f := min(stretch, rest)
			if rest-f < 40 { // let the last real blob end exactly at target
				f = max(1, rest-(1+32))
			}
			c.segs = append(c.segs, filler(f))
			total += f
		}
		if total < target+1 && rapid.Bool().Draw(t, "tail") {
			addReal(1, true)
		}
	case "huge":
		// a single blob at the chunk limit (stored length = size+32 when not compressed)
		d := rapid.SampledFrom([]int{-33, -32, -31, 0, 1, mibC43}).Draw(t, "d")
		pre := rapid.IntRange(0, 2).Draw(t, "pre")
		for i := 0; i < pre; i++ {
			addReal(rapid.IntRange(1, 3000).Draw(t, "s"), rapid.Bool().Draw(t, "w"))
		}
		h := genRealC43(t, maxChunkC43+d)
		h.kind = rapid.SampledFrom([]int{0, 1}).Draw(t, "hk")
		if h.kind == 0 {
			h.compress = false
		}
		c.segs = append(c.segs, h)
		c.want = append(c.want, len(c.segs)-1)
		post := rapid.IntRange(0, 2).Draw(t, "post")
		for i := 0; i < post; i++ {
			addReal(rapid.IntRange(1, 3000).Draw(t, "s"), rapid.Bool().Draw(t, "w"))
		}
	case "realspan":
		// range > 32 MiB made of real large blobs (thorough tier only)
		n := rapid.IntRange(5, 7).Draw(t, "n")
		for i := 0; i < n; i++ {
			addReal(rapid.IntRange(6*mibC43, 8*mibC43+1).Draw(t, "s"), rapid.IntRange(0, 7).Draw(t, "w") > 0)
		}
	default: // mixed
		n := rapid.IntRange(1, 10).Draw(t, "n")
		for i := 0; i < n; i++ {
			switch rapid.IntRange(0, 5).Draw(t, "what") {
			case 0:
				c.segs = append(c.segs, filler(gapSize()))
			case 1:
				addReal(rapid.IntRange(mibC43-64, mibC43+64).Draw(t, "s"), rapid.Bool().Draw(t, "w"))
			default:
				addReal(genSmallSizeC43(t), rapid.IntRange(0, 2).Draw(t, "w") > 0)
			}
		}
	}
	if len(c.want) == 0 {
		// request at least one real blob (an empty request is legal and also tried now and then)
		for i, s := range c.segs {
			if s.real && rapid.IntRange(0, 9).Draw(t, "forceone") > 0 {
				c.want = append(c.want, i)
				break
			}
		}
	}
	if len(c.want) > 1 {
		perm := rapid.Permutation(c.want).Draw(t, "order")
		c.want = perm
	}
	return c
}

// ---- load plan ----

const (
	actOKC43         = iota
	actFailC43       // error before any data
	actShortC43      // reader ends early, fn's error is returned (backend without retry)
	actReadErrC43    // reader fails after some data
	actRetryC43      // short first attempt, then a second full attempt inside the same Load
	actLateErrC43    // complete data delivered, then Load returns an error
	actShortNoErrC43 // reader ends early but Load swallows fn's error (misbehaving backend)
)

var actNamesC43 = []string{"ok", "fail", "short", "readerr", "retry", "lateerr", "short-swallowed"}

type vLoadC43 struct {
	off, length int
	act         int
	failed      bool
}

type vErrReaderC43 struct {
	data []byte
	err  error
}

func (r *vErrReaderC43) Read(p []byte) (int, error) {
	if len(r.data) == 0 {
		return 0, r.err
	}
	n := copy(p, r.data)
	r.data = r.data[n:]
	return n, nil
}

var errInjectedC43 = errors.New("injected load failure")
var errCallbackC43 = errors.New("callback says stop")

func TestVerifC43StreamPack(t *testing.T) {
	st := verifkit.Begin(t, "C43")
	key := fixedKeyC43()
	dec, err := zstd.NewReader(nil)
	if err != nil {
		t.Fatal(err)
	}
	defer dec.Close()

	rapid.Check(t, func(t *rapid.T) {
		c := genCaseC43(t)
		tpe := rapid.SampledFrom([]restic.BlobType{restic.DataBlob, restic.TreeBlob}).Draw(t, "type")
		pk := buildPackC43(t, key, tpe, c.segs)

		// persistent damage
		damaged := map[restic.ID]int{}
		served := pk.bytes
		if len(c.want) > 0 && rapid.IntRange(0, 2).Draw(t, "damage") == 0 {
			served = bytes.Clone(pk.bytes)
			nd := rapid.IntRange(1, min(3, len(c.want))).Draw(t, "nd")
			for i := 0; i < nd; i++ {
				s := c.segs[c.want[rapid.IntRange(0, len(c.want)-1).Draw(t, "dwhich")]]
				if _, ok := damaged[s.id]; ok {
					continue
				}
				kind := rapid.IntRange(0, 2).Draw(t, "dkind")
				d := damagedCopyC43(pk, s, kind, rapid.Uint64().Draw(t, "dpos"))
				copy(served[s.entry.Offset:], d)
				damaged[s.id] = kind
			}
		}

		// load plan
		var plan []int
		defAct := actOKC43
		switch rapid.IntRange(0, 5).Draw(t, "planmode") {
		case 0, 1, 2: // healthy
		case 3:
			plan = rapid.SliceOfN(rapid.IntRange(0, 6), 1, 4).Draw(t, "plan")
		case 4:
			defAct = rapid.IntRange(1, 6).Draw(t, "defact")
		case 5:
			plan = rapid.SliceOfN(rapid.SampledFrom([]int{actOKC43, actRetryC43}), 1, 4).Draw(t, "plan")
			defAct = actRetryC43
		}
		cut := rapid.Uint64().Draw(t, "cut")
		var loads []vLoadC43
		wantHandle := backend.Handle{Type: backend.PackFile, Name: pk.id.String(), IsMetadata: tpe == restic.TreeBlob}
		var harnessErr string
		beLoad := func(ctx context.Context, h backend.Handle, length int, offset int64, fn func(rd io.Reader) error) error {
			if h != wantHandle && harnessErr == "" {
				harnessErr = fmt.Sprintf("load of handle %v, want %v", h, wantHandle)
			}
			act := defAct
			if len(loads) < len(plan) {
				act = plan[len(loads)]
			}
			ld := vLoadC43{off: int(offset), length: length, act: act}
			if offset < 0 || length <= 0 || int(offset)+length > len(served) {
				ld.failed = true
				loads = append(loads, ld)
				return errors.New("access beyond end of file")
			}
			full := served[offset : int(offset)+length]
			k := int(cut % uint64(length)) // 0..length-1 bytes delivered by a short read
			var err error
			switch act {
			case actOKC43:
				err = fn(bytes.NewReader(full))
			case actFailC43:
				err = errInjectedC43
			case actShortC43:
				err = fn(bytes.NewReader(full[:k]))
				if err == nil {
					err = errors.New("harness: consumer accepted short data")
					harnessErr = "consumer accepted a short read without error"
				}
			case actReadErrC43:
				err = fn(&vErrReaderC43{data: full[:k], err: errInjectedC43})
				if err == nil {
					harnessErr = "consumer ignored a read error"
					err = errInjectedC43
				}
			case actRetryC43:
				err = fn(&vErrReaderC43{data: full[:k], err: errInjectedC43})
				if err != nil {
					err = fn(bytes.NewReader(full))
				}
			case actLateErrC43:
				err = fn(bytes.NewReader(full))
				if err == nil {
					err = errInjectedC43
				}
			case actShortNoErrC43:
				_ = fn(bytes.NewReader(full[:k]))
				err = nil
			}
			ld.failed = err != nil
			loads = append(loads, ld)
			return err
		}

		// fallback
		fbMode := rapid.SampledFrom([]string{"nil", "nil", "good", "bad", "mixed"}).Draw(t, "fallback")
		fbGood := map[restic.ID]bool{}
		for _, i := range c.want {
			switch fbMode {
			case "good":
				fbGood[c.segs[i].id] = true
			case "mixed":
				fbGood[c.segs[i].id] = rapid.Bool().Draw(t, "fbgood")
			}
		}
		fbCalls := map[restic.ID]int{}
		var fallback loadBlobFn
		if fbMode != "nil" {
			fallback = func(ctx context.Context, bh restic.BlobHandle, buf []byte) ([]byte, error) {
				fbCalls[bh.ID]++
				s := pk.byID[bh.ID]
				if s == nil || !s.real || bh.Type != tpe {
					harnessErr = fmt.Sprintf("fallback asked for unknown blob %v", bh)
					return nil, errors.New("unknown blob")
				}
				if fbGood[bh.ID] {
					return prfC43(s.seed, s.size, s.kind), nil
				}
				return nil, errors.New("no other copy")
			}
		}

		// callback
		cbErrAt := -1
		if rapid.IntRange(0, 7).Draw(t, "cberr") == 0 {
			cbErrAt = rapid.IntRange(0, max(0, len(c.want)-1)).Draw(t, "cberrat")
		}
		type cbRec struct {
			h    restic.BlobHandle
			good bool
			err  error
		}
		var cbs []cbRec
		handle := func(blob restic.BlobHandle, buf []byte, err error) error {
			rec := cbRec{h: blob, err: err}
			if err == nil {
				rec.good = restic.ID(sha256.Sum256(buf)) == blob.ID
			}
			cbs = append(cbs, rec)
			if len(cbs)-1 == cbErrAt {
				return errCallbackC43
			}
			return nil
		}

		// request, from the decoded header, in drawn order
		req := make(pack.Blobs, 0, len(c.want))
		wantSet := map[restic.ID]*vSegC43{}
		for _, i := range c.want {
			req = append(req, c.segs[i].entry)
			wantSet[c.segs[i].id] = c.segs[i]
		}

		// ---- classify ----
		sorted := make(pack.Blobs, len(req))
		copy(sorted, req)
		sort.Slice(sorted, func(i, j int) bool { return sorted[i].Offset < sorted[j].Offset })
		maxGap, span, maxBlob := 0, 0, 0
		anyComp, anyPlain := false, false
		for i, b := range sorted {
			if i > 0 {
				maxGap = max(maxGap, int(b.Offset-(sorted[i-1].Offset+sorted[i-1].Length)))
			}
			maxBlob = max(maxBlob, int(b.Length))
			if b.IsCompressed() {
				anyComp = true
			} else {
				anyPlain = true
			}
		}
		if len(sorted) > 0 {
			span = int(sorted[len(sorted)-1].Offset + sorted[len(sorted)-1].Length - sorted[0].Offset)
		}
		faulty := len(damaged) > 0 || len(plan) > 0 || defAct != actOKC43 || cbErrAt >= 0

		// ---- run ----
		rerr := streamPack(context.Background(), beLoad, fallback, dec, key, pk.id, req, handle)

		// ---- evidence ----
		classes := []string{"shape=" + c.shape, "fallback=" + fbMode}
		if maxGap > maxUnusedC43 {
			classes = append(classes, "gap>1MiB")
		} else if maxGap == maxUnusedC43 {
			classes = append(classes, "gap==1MiB")
		}
		if span >= maxChunkC43 {
			classes = append(classes, "span>=32MiB")
		}
		if maxBlob >= maxChunkC43 {
			classes = append(classes, "blob>=32MiB")
		}
		switch {
		case anyComp && anyPlain:
			classes = append(classes, "compression=mixed")
		case anyComp:
			classes = append(classes, "compression=all")
		default:
			classes = append(classes, "compression=none")
		}
		classes = append(classes, fmt.Sprintf("loads=%d", min(len(loads), 4)))
		anyFail := false
		for _, l := range loads {
			if l.act != actOKC43 {
				classes = append(classes, "loadfault="+actNamesC43[l.act])
			}
			anyFail = anyFail || l.failed
		}
		for _, k := range damaged {
			classes = append(classes, fmt.Sprintf("damage=%d", k))
		}
		if cbErrAt >= 0 && cbErrAt < len(cbs) {
			classes = append(classes, "callback-error")
		}
		if len(req) == 0 {
			classes = append(classes, "empty-request")
		}
		if rerr == nil {
			classes = append(classes, "result=nil")
		} else {
			classes = append(classes, "result=error")
		}
		keyStr := ""
		if maxGap > maxUnusedC43 || span >= maxChunkC43 || faulty {
			var sb strings.Builder
			fmt.Fprintf(&sb, "%s|%v|", c.shape, tpe)
			for _, s := range c.segs {
				fmt.Fprintf(&sb, "%v:%d:%d:%v:%d,", s.real, s.size, s.kind, s.compress, s.seed)
			}
			fmt.Fprintf(&sb, "|%v|%v|%d|%v|%s|%v|%d|%d", c.want, plan, defAct, damaged, fbMode, fbGood, cbErrAt, cut)
			keyStr = sb.String()
		}
		st.Case(keyStr, classes...)
		if st.WantSample() {
			st.Sample(map[string]any{"shape": c.shape, "entries": len(c.segs), "requested": len(req), "pack_bytes": len(pk.bytes),
				"max_gap": maxGap, "span": span, "loads": len(loads), "plan": plan, "default_action": actNamesC43[defAct],
				"damaged": len(damaged), "fallback": fbMode, "callback_error_at": cbErrAt, "callbacks": len(cbs), "result_error": rerr != nil})
		}

		// ---- oracle ----
		if harnessErr != "" {
			t.Fatalf("%s", harnessErr)
		}
		seen := map[restic.ID]cbRec{}
		for i, rec := range cbs {
			s := wantSet[rec.h.ID]
			if s == nil || rec.h.Type != tpe {
				t.Fatalf("callback %d for blob %v which was not requested", i, rec.h)
			}
			if _, dup := seen[rec.h.ID]; dup {
				t.Fatalf("callback %d: blob %v delivered twice", i, rec.h)
			}
			seen[rec.h.ID] = rec
			if rec.err == nil && !rec.good {
				t.Fatalf("callback %d: blob %v delivered without error but with wrong content", i, rec.h)
			}
		}
		aborted := cbErrAt >= 0 && cbErrAt < len(cbs)
		if aborted {
			if len(cbs) != cbErrAt+1 {
				t.Fatalf("callback returned an error at call %d, but %d callbacks were made", cbErrAt, len(cbs))
			}
			if rerr == nil {
				t.Fatalf("callback returned an error, streamPack returned nil")
			}
		}
		isServed := func(b pack.Blob) bool {
			for _, l := range loads {
				if !l.failed && l.act != actShortNoErrC43 && l.off <= int(b.Offset) && int(b.Offset+b.Length) <= l.off+l.length {
					return true
				}
			}
			return false
		}
		swallowed := false
		for _, l := range loads {
			if l.act == actShortNoErrC43 {
				swallowed = true
			}
		}
		for _, s := range wantSet {
			rec, got := seen[s.id]
			_, dmg := damaged[s.id]
			srv := isServed(s.entry)
			mustGood := (srv && !dmg) || fbGood[s.id]
			if got {
				// err == nil implies correct content (checked above); what must not happen is an
				// error for a blob that was obtainable
				if mustGood && rec.err != nil {
					t.Fatalf("blob %v (served=%v damaged=%v fallbackGood=%v): callback got error %v, want plaintext", s.id.Str(), srv, dmg, fbGood[s.id], rec.err)
				}
				continue
			}
			if aborted {
				continue
			}
			// no callback although the callback never asked to stop
			if fallback != nil {
				t.Fatalf("blob %v: no callback although a fallback exists (served=%v damaged=%v), result %v", s.id.Str(), srv, dmg, rerr)
			}
			if rerr == nil {
				t.Fatalf("blob %v: no callback and streamPack returned nil (served=%v damaged=%v)", s.id.Str(), srv, dmg)
			}
			if !anyFail && !swallowed {
				t.Fatalf("blob %v: no callback although every load succeeded; result %v", s.id.Str(), rerr)
			}
		}
		if !aborted {
			switch {
			case fallback != nil && rerr != nil:
				t.Fatalf("fallback present and callback never failed, but streamPack returned %v", rerr)
			case fallback == nil && !anyFail && !swallowed && rerr != nil:
				t.Fatalf("all loads succeeded and callback never failed, but streamPack returned %v", rerr)
			case fallback == nil && anyFail && rerr == nil:
				t.Fatalf("a load failed, no fallback, but streamPack returned nil")
			}
		}
	})
}
