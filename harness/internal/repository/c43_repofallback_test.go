package repository

import (
	"bytes"
	"context"
	"crypto/sha256"
	"errors"
	"fmt"
	"io"
	"sync"
	"testing"

	"github.com/restic/restic/internal/backend"
	"github.com/restic/restic/internal/backend/mem"
	"github.com/restic/restic/internal/restic"
	"github.com/restic/restic/internal/verifkit"
	"pgregory.net/rapid"
)

// C43 part 2: Repository.LoadBlobsFromPack with the real LoadBlob fallback.
//
// A repository on the mem backend gets n blobs in one upload session (pack A) and a
// drawn subset of them again in a second session with storeDuplicate (pack B). Then
// the backend starts to misbehave persistently for pack A only:
//   refuse   every Load of A fails
//   damage   the stored bytes of drawn blobs are altered (bit flip / zeroed)
//   truncate A ends at a drawn position (loads beyond it fail or deliver short data)
// Oracle for LoadBlobsFromPack(A, all blobs of A in drawn order): returns nil, exactly one
// callback per blob; a blob gets its plaintext (sha256 == ID, err == nil) iff its bytes in
// A are intact and readable or it has a copy in B, otherwise err != nil.

type vFaultBeC43 struct {
	backend.Backend
	mu       sync.Mutex
	active   bool
	target   backend.Handle // Name/Type of pack A
	mode     string
	served   []byte // bytes of A as the faulty backend sees them
	truncAt  int
	shortErr bool // truncate: deliver short data instead of failing up front
	loads    int
}

var errFaultC43 = errors.New("injected backend failure")

func (b *vFaultBeC43) Load(ctx context.Context, h backend.Handle, length int, offset int64, fn func(rd io.Reader) error) error {
	b.mu.Lock()
	hit := b.active && h.Type == b.target.Type && h.Name == b.target.Name
	if hit {
		b.loads++
	}
	b.mu.Unlock()
	if !hit {
		return b.Backend.Load(ctx, h, length, offset, fn)
	}
	data := b.served
	switch b.mode {
	case "refuse":
		return errFaultC43
	case "truncate":
		data = data[:b.truncAt]
	}
	end := int(offset) + length
	if length == 0 {
		end = len(data)
	}
	if int(offset) > len(data) || end > len(data) {
		if b.mode == "truncate" && b.shortErr && int(offset) <= len(data) {
			// short data; the consumer's error is passed on like util.DefaultLoad does
			if err := fn(bytes.NewReader(data[offset:])); err != nil {
				return err
			}
			return nil
		}
		return errors.New("access beyond end of file")
	}
	return fn(bytes.NewReader(data[offset:end]))
}

func (b *vFaultBeC43) Unwrap() backend.Backend { return b.Backend }

func newRepoC43(be backend.Backend, version uint, opts Options) (*Repository, error) {
	repo, err := New(be, opts)
	if err != nil {
		return nil, err
	}
	pol := testChunkerPol
	if err := repo.Init(context.Background(), version, "pw", &pol); err != nil {
		return nil, err
	}
	return repo, nil
}

func TestVerifC43RepoFallback(t *testing.T) {
	st := verifkit.Begin(t, "C43")
	TestUseLowSecurityKDFParameters(t)
	restic.TestDisableCheckPolynomial(t)

	rapid.Check(t, func(t *rapid.T) {
		ctx := context.Background()
		version := uint(rapid.IntRange(1, 2).Draw(t, "version"))
		comp := rapid.SampledFrom([]CompressionMode{CompressionOff, CompressionOff, CompressionOff, CompressionFastest, CompressionFastest, CompressionFastest, CompressionFastest, CompressionAuto}).Draw(t, "compression")
		tpe := rapid.SampledFrom([]restic.BlobType{restic.DataBlob, restic.TreeBlob}).Draw(t, "type")
		fbe := &vFaultBeC43{Backend: mem.New()}
		repo, err := newRepoC43(fbe, version, Options{Compression: comp})
		if err != nil {
			t.Fatalf("init: %v", err)
		}

		type blobT struct {
			seed  uint64
			size  int
			kind  int
			id    restic.ID
			inB   bool
			plain []byte
		}
		n := rapid.IntRange(1, 12).Draw(t, "n")
		var blobs []*blobT
		ids := map[restic.ID]*blobT{}
		for i := 0; i < n; i++ {
			b := &blobT{seed: rapid.Uint64Range(1, 1<<32).Draw(t, "seed"), size: genSmallSizeC43(t) % 70000, kind: rapid.IntRange(0, 2).Draw(t, "kind")}
			if b.size == 0 {
				b.size = 1
			}
			b.plain = prfC43(b.seed, b.size, b.kind)
			b.id = restic.ID(sha256.Sum256(b.plain))
			if ids[b.id] != nil {
				continue
			}
			b.inB = rapid.Bool().Draw(t, "dup")
			ids[b.id] = b
			blobs = append(blobs, b)
		}
		save := func(dupOnly bool) {
			err := repo.WithBlobUploader(ctx, func(ctx context.Context, up restic.BlobSaverWithAsync) error {
				for _, b := range blobs {
					if dupOnly && !b.inB {
						continue
					}
					id, known, _, err := up.SaveBlob(ctx, tpe, b.plain, restic.ID{}, dupOnly)
					if err != nil {
						return err
					}
					if id != b.id || known != dupOnly {
						return fmt.Errorf("SaveBlob returned id %v known %v, want %v %v", id, known, b.id, dupOnly)
					}
				}
				return nil
			})
			if err != nil {
				t.Fatalf("saving blobs: %v", err)
			}
		}
		save(false)
		// all blobs of the first session must be in one pack (n small blobs, flush merge)
		packA := restic.ID{}
		for _, b := range blobs {
			pbs := repo.LookupBlob(restic.BlobHandle{ID: b.id, Type: tpe})
			if len(pbs) != 1 {
				t.Fatalf("blob %v: %d index entries after first session", b.id.Str(), len(pbs))
			}
			if packA.IsNull() {
				packA = pbs[0].PackID()
			} else if packA != pbs[0].PackID() {
				t.Skip("first session produced two packs")
			}
		}
		save(true)
		type rng struct{ off, end int }
		where := map[restic.ID]rng{}
		for _, b := range blobs {
			pbs := repo.idx.Lookup(restic.BlobHandle{ID: b.id, Type: tpe})
			want := 1
			if b.inB {
				want = 2
			}
			if len(pbs) != want {
				t.Fatalf("blob %v: %d index entries, want %d", b.id.Str(), len(pbs), want)
			}
			for _, pb := range pbs {
				if pb.PackID() == packA {
					where[b.id] = rng{int(pb.Blob.Offset), int(pb.Blob.Offset + pb.Blob.Length)}
				}
			}
		}
		hA := backend.Handle{Type: backend.PackFile, Name: packA.String()}
		var packBytes []byte
		if err := fbe.Backend.Load(ctx, hA, 0, 0, func(rd io.Reader) error {
			var e error
			packBytes, e = io.ReadAll(rd)
			return e
		}); err != nil {
			t.Fatalf("reading pack A: %v", err)
		}
		dataEnd := 0
		for _, r := range where {
			dataEnd = max(dataEnd, r.end)
		}

		// fault
		fbe.target = hA
		fbe.mode = rapid.SampledFrom([]string{"none", "refuse", "damage", "damage", "truncate", "truncate"}).Draw(t, "mode")
		fbe.served = bytes.Clone(packBytes)
		damaged := map[restic.ID]bool{}
		switch fbe.mode {
		case "damage":
			nd := rapid.IntRange(1, min(3, len(blobs))).Draw(t, "nd")
			for i := 0; i < nd; i++ {
				b := blobs[rapid.IntRange(0, len(blobs)-1).Draw(t, "which")]
				r := where[b.id]
				if rapid.Bool().Draw(t, "zero") {
					clear(fbe.served[r.off:r.end])
				} else {
					pos := r.off + rapid.IntRange(0, r.end-r.off-1).Draw(t, "pos")
					fbe.served[pos] ^= 1 << rapid.IntRange(0, 7).Draw(t, "bit")
				}
				damaged[b.id] = true
			}
		case "truncate":
			fbe.truncAt = rapid.IntRange(0, dataEnd).Draw(t, "truncAt")
			fbe.shortErr = rapid.Bool().Draw(t, "shortErr")
		}
		fbe.active = true

		readable := func(b *blobT) bool {
			switch fbe.mode {
			case "refuse":
				return false
			case "damage":
				return !damaged[b.id]
			case "truncate":
				return where[b.id].end <= fbe.truncAt
			}
			return true
		}

		order := rapid.Permutation(blobs).Draw(t, "order")
		var handles []restic.BlobHandle
		for _, b := range order {
			handles = append(handles, restic.BlobHandle{ID: b.id, Type: tpe})
		}
		type rec struct {
			err  error
			good bool
		}
		got := map[restic.ID]rec{}
		var problem string
		rerr := repo.LoadBlobsFromPack(ctx, packA, handles, func(blob restic.BlobHandle, buf []byte, err error) error {
			b := ids[blob.ID]
			if b == nil || blob.Type != tpe {
				problem = fmt.Sprintf("callback for unrequested blob %v", blob)
				return nil
			}
			if _, dup := got[blob.ID]; dup {
				problem = fmt.Sprintf("blob %v delivered twice", blob)
			}
			got[blob.ID] = rec{err: err, good: err == nil && restic.ID(sha256.Sum256(buf)) == blob.ID}
			return nil
		})

		nGood, nBad, nRescued := 0, 0, 0
		for _, b := range blobs {
			if readable(b) || b.inB {
				nGood++
				if !readable(b) {
					nRescued++
				}
			} else {
				nBad++
			}
		}
		key := ""
		if fbe.mode != "none" {
			key = fmt.Sprintf("v%d|%v|%v|%s|%d|%v|", version, comp, tpe, fbe.mode, fbe.truncAt, fbe.shortErr)
			for _, b := range order {
				key += fmt.Sprintf("%d:%d:%d:%v:%v,", b.seed, b.size, b.kind, b.inB, damaged[b.id])
			}
		}
		classes := []string{"repo:mode=" + fbe.mode, fmt.Sprintf("repo:version=%d", version)}
		if nRescued > 0 {
			classes = append(classes, "repo:rescued-by-other-pack")
		}
		if nBad > 0 {
			classes = append(classes, "repo:blob-lost")
		}
		if nGood > 0 && nBad > 0 {
			classes = append(classes, "repo:good-and-lost-in-one-call")
		}
		st.Case(key, classes...)
		if st.WantSample() {
			st.Sample(map[string]any{"part": "repo", "blobs": len(blobs), "mode": fbe.mode, "expected_good": nGood, "expected_error": nBad, "rescued": nRescued, "backend_loads_of_A": fbe.loads})
		}

		if problem != "" {
			t.Fatalf("%s", problem)
		}
		if rerr != nil {
			t.Fatalf("LoadBlobsFromPack returned %v although the callback never failed (mode %s)", rerr, fbe.mode)
		}
		for _, b := range blobs {
			r, ok := got[b.id]
			if !ok {
				t.Fatalf("blob %v: no callback (mode %s)", b.id.Str(), fbe.mode)
			}
			if r.err == nil && !r.good {
				t.Fatalf("blob %v: wrong content delivered without error", b.id.Str())
			}
			wantGood := readable(b) || b.inB
			if wantGood && r.err != nil {
				t.Fatalf("blob %v (readable=%v, copy in B=%v, mode %s): got error %v", b.id.Str(), readable(b), b.inB, fbe.mode, r.err)
			}
			if !wantGood && r.err == nil {
				t.Fatalf("blob %v is neither readable in A nor stored elsewhere, but was delivered (mode %s)", b.id.Str(), fbe.mode)
			}
		}
	})
}
