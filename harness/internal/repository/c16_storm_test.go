package repository

// C16 (library part): identical content is stored once per repository, however the
// saving is scheduled.
//
// A case is a "storm": many goroutines submit a small set of distinct blobs again and
// again through SaveBlob / SaveBlobAsync inside one WithBlobUploader session. Some of the
// blobs were stored by an earlier session (same Repository object, or a freshly opened one
// that only knows them through the loaded index). All goroutines start behind one barrier
// and the first thing each does is to submit the "hot" blob, so that the
// known-check/insert window of the repository is hit concurrently.
//
// Oracle (does not trust the index): every pack file of the backend is listed with
// pack.List under the master key, every blob decrypted and hashed; each distinct blob
// occurs in exactly one pack, exactly once. Independently: exactly one submission of a new
// blob is answered "not known" (none for a blob stored before), the in-memory index and a
// freshly loaded index hold exactly one entry per blob, pointing at the pack found by the walk.

import (
	"bytes"
	"context"
	"fmt"
	"io"
	"math/rand/v2"
	"runtime"
	"sort"
	"sync"
	"testing"
	"time"

	"github.com/klauspost/compress/zstd"
	"github.com/restic/restic/internal/backend"
	"github.com/restic/restic/internal/backend/mem"
	"github.com/restic/restic/internal/repository/index"
	"github.com/restic/restic/internal/repository/pack"
	"github.com/restic/restic/internal/restic"
	"github.com/restic/restic/internal/verifkit"
	"pgregory.net/rapid"
)

type vBlobC16 struct {
	tpe   restic.BlobType
	plain []byte
	id    restic.ID
	pre   bool // stored by the earlier session
}

type vSubC16 struct {
	blob   int
	async  bool
	withID bool // pass the precomputed ID instead of the null ID
	yield  int
	// results
	known bool
	gotID restic.ID
	err   error
	done  bool
}

func vPlainC16(seed uint64, n int, compressible bool) []byte {
	b := make([]byte, n)
	x := seed*0x9e3779b97f4a7c15 + 1
	for i := range b {
		if compressible && i >= 16 {
			b[i] = b[i%16]
			continue
		}
		x ^= x << 13
		x ^= x >> 7
		x ^= x << 17
		b[i] = byte(x >> 24)
	}
	return b
}

// vWalkPacksC16 counts, per blob handle, the occurrences over all packs of the backend (decrypt-walk).
func vWalkPacksC16(ctx context.Context, be backend.Backend, repo *Repository, dec *zstd.Decoder) (map[restic.BlobHandle][]restic.ID, error) {
	occ := map[restic.BlobHandle][]restic.ID{}
	var names []string
	if err := be.List(ctx, backend.PackFile, func(fi backend.FileInfo) error {
		names = append(names, fi.Name)
		return nil
	}); err != nil {
		return nil, err
	}
	sort.Strings(names)
	for _, name := range names {
		var buf []byte
		if err := be.Load(ctx, backend.Handle{Type: backend.PackFile, Name: name}, 0, 0, func(rd io.Reader) (err error) {
			buf, err = io.ReadAll(rd)
			return err
		}); err != nil {
			return nil, err
		}
		pid, err := restic.ParseID(name)
		if err != nil {
			return nil, err
		}
		if restic.Hash(buf) != pid {
			return nil, fmt.Errorf("pack %v: content hash differs from its name", pid.Str())
		}
		entries, _, err := pack.List(repo.Key(), bytes.NewReader(buf), int64(len(buf)))
		if err != nil {
			return nil, fmt.Errorf("pack %v: %v", pid.Str(), err)
		}
		for _, e := range entries {
			ct := buf[e.Offset : e.Offset+e.Length]
			pt, err := repo.Key().Open(nil, ct[:16], ct[16:], nil)
			if err != nil {
				return nil, fmt.Errorf("pack %v blob %v: %v", pid.Str(), e.ID.Str(), err)
			}
			if e.IsCompressed() {
				if pt, err = dec.DecodeAll(pt, nil); err != nil {
					return nil, fmt.Errorf("pack %v blob %v: %v", pid.Str(), e.ID.Str(), err)
				}
			}
			if restic.Hash(pt) != e.ID {
				return nil, fmt.Errorf("pack %v blob %v: plaintext hash differs", pid.Str(), e.ID.Str())
			}
			occ[e.BlobHandle] = append(occ[e.BlobHandle], pid)
		}
	}
	return occ, nil
}

func vBucketC16(n int) string {
	switch {
	case n < 10:
		return "<10"
	case n < 30:
		return "10-29"
	case n < 100:
		return "30-99"
	default:
		return ">=100"
	}
}

func TestVerifC16DuplicateStorm(t *testing.T) {
	st := verifkit.Begin(t, "C16")
	TestUseLowSecurityKDFParameters(t)
	restic.TestDisableCheckPolynomial(t)
	dec, err := zstd.NewReader(nil, zstd.WithDecoderConcurrency(1))
	if err != nil {
		t.Fatal(err)
	}
	defer dec.Close()
	origFull := index.Full
	defer func() { index.Full = origFull }()

	rapid.Check(t, func(t *rapid.T) {
		ctx := context.Background()
		version := uint(rapid.SampledFrom([]int{1, 2, 2}).Draw(t, "version"))
		// a fraction of the cases: packs and intermediate index files are uploaded in the middle of the session
		if rapid.IntRange(0, 11).Draw(t, "midSessionUploads") == 0 {
			defer func() { index.Full = origFull }()
			vMidSessionCaseC16(t, st, dec, version)
			return
		}
		// stronger zstd levels only cost table initialisation here
		comp := rapid.SampledFrom([]CompressionMode{CompressionOff, CompressionFastest, CompressionFastest, CompressionAuto}).Draw(t, "compression")
		be := mem.New()
		opts := Options{Compression: comp}
		repo, err := New(be, opts)
		if err != nil {
			t.Fatal(err)
		}
		pol := testChunkerPol
		if err := repo.Init(ctx, version, "pw", &pol); err != nil {
			t.Fatal(err)
		}
		repo.packerCount = rapid.SampledFrom([]int{1, 2, 2, 4}).Draw(t, "packers")

		// ---- distinct blobs; blob 0 is the hot one ----
		nDistinct := rapid.IntRange(1, 6).Draw(t, "distinct")
		blobs := make([]*vBlobC16, nDistinct)
		seen := map[restic.ID]bool{}
		for i := range blobs {
			b := &vBlobC16{tpe: restic.DataBlob}
			if rapid.IntRange(0, 3).Draw(t, "tree") == 0 {
				b.tpe = restic.TreeBlob
			}
			size := rapid.OneOf(rapid.IntRange(1, 64), rapid.IntRange(65, 4000), rapid.IntRange(4001, 60000)).Draw(t, "size")
			b.plain = vPlainC16(rapid.Uint64().Draw(t, "seed"), size, rapid.Bool().Draw(t, "compressible"))
			b.id = restic.Hash(b.plain)
			for seen[b.id] { // distinct by construction
				b.plain = append(b.plain, byte(i))
				b.id = restic.Hash(b.plain)
			}
			seen[b.id] = true
			blobs[i] = b
		}
		// the same bytes as a tree blob and as a data blob are two different blobs
		if nDistinct >= 2 && rapid.IntRange(0, 4).Draw(t, "sameBytesOtherType") == 0 {
			blobs[1].plain, blobs[1].id = blobs[0].plain, blobs[0].id
			if blobs[0].tpe == restic.DataBlob {
				blobs[1].tpe = restic.TreeBlob
			} else {
				blobs[1].tpe = restic.DataBlob
			}
		}

		// ---- earlier session: some blobs are already in the repository ----
		prior := rapid.SampledFrom([]string{"none", "none", "same-object", "reopened", "reopened"}).Draw(t, "prior")
		if prior != "none" {
			n := 0
			for _, b := range blobs {
				b.pre = rapid.Bool().Draw(t, "pre")
				if b.pre {
					n++
				}
			}
			if n == 0 {
				blobs[0].pre = true
			}
			if err := repo.WithBlobUploader(ctx, func(ctx context.Context, up restic.BlobSaverWithAsync) error {
				for _, b := range blobs {
					if !b.pre {
						continue
					}
					if _, known, _, err := up.SaveBlob(ctx, b.tpe, b.plain, restic.ID{}, false); err != nil || known {
						return fmt.Errorf("prior session: known=%v err=%v", known, err)
					}
				}
				return nil
			}); err != nil {
				t.Fatal(err)
			}
			if prior == "reopened" {
				repo, err = New(be, opts)
				if err != nil {
					t.Fatal(err)
				}
				if err := repo.SearchKey(ctx, "pw", 1, ""); err != nil {
					t.Fatal(err)
				}
				if err := repo.LoadIndex(ctx, restic.NoopTerminalCounterFactory); err != nil {
					t.Fatal(err)
				}
				repo.packerCount = rapid.SampledFrom([]int{1, 2, 4}).Draw(t, "packers2")
			}
		}

		// ---- the storm ----
		workers := rapid.SampledFrom([]int{2, 4, 8, 16, 32}).Draw(t, "workers")
		perWorker := rapid.IntRange(1, 12).Draw(t, "perWorker")
		hotFirst := rapid.IntRange(0, 4).Draw(t, "hotFirst") != 0
		subs := make([][]*vSubC16, workers)
		count := make([]int, nDistinct)
		for w := range subs {
			for j := 0; j < perWorker; j++ {
				s := &vSubC16{async: rapid.Bool().Draw(t, "async"), withID: rapid.IntRange(0, 3).Draw(t, "withID") == 0}
				if j == 0 && hotFirst {
					s.blob = 0
				} else {
					s.blob = rapid.IntRange(0, nDistinct-1).Draw(t, "blob")
					s.yield = rapid.IntRange(0, 3).Draw(t, "yield")
				}
				count[s.blob]++
				subs[w] = append(subs[w], s)
			}
		}
		start := make(chan struct{})
		serr := repo.WithBlobUploader(ctx, func(ctx context.Context, up restic.BlobSaverWithAsync) error {
			var wg sync.WaitGroup
			for w := range subs {
				wg.Add(1)
				go func(list []*vSubC16) {
					defer wg.Done()
					<-start
					for _, s := range list {
						for i := 0; i < s.yield; i++ {
							runtime.Gosched()
						}
						b := blobs[s.blob]
						id := restic.ID{}
						if s.withID {
							id = b.id
						}
						if s.async {
							wg.Add(1)
							up.SaveBlobAsync(ctx, b.tpe, b.plain, id, false, func(newID restic.ID, known bool, _ int, err error) {
								s.gotID, s.known, s.err, s.done = newID, known, err, true
								wg.Done()
							})
						} else {
							s.gotID, s.known, _, s.err = up.SaveBlob(ctx, b.tpe, b.plain, id, false)
							s.done = true
						}
					}
				}(subs[w])
			}
			close(start)
			wg.Wait()
			return nil
		})
		if serr != nil {
			t.Fatalf("upload session failed on a healthy backend: %v", serr)
		}

		// ---- oracle ----
		notKnown := make([]int, nDistinct)
		for _, list := range subs {
			for _, s := range list {
				if !s.done || s.err != nil {
					t.Fatalf("submission of blob %d: done=%v err=%v", s.blob, s.done, s.err)
				}
				if s.gotID != blobs[s.blob].id {
					t.Fatalf("submission of blob %d returned id %v, want %v", s.blob, s.gotID.Str(), blobs[s.blob].id.Str())
				}
				if !s.known {
					notKnown[s.blob]++
				}
			}
		}
		occ, err := vWalkPacksC16(ctx, be, repo, dec)
		if err != nil {
			t.Fatal(err)
		}
		fresh, err := New(be, opts)
		if err != nil {
			t.Fatal(err)
		}
		if err := fresh.SearchKey(ctx, "pw", 1, ""); err != nil {
			t.Fatal(err)
		}
		if err := fresh.LoadIndex(ctx, restic.NoopTerminalCounterFactory); err != nil {
			t.Fatal(err)
		}
		desc := fmt.Sprintf("version=%d prior=%s workers=%d perWorker=%d hotFirst=%v distinct=%d", version, prior, workers, perWorker, hotFirst, nDistinct)
		maxDup := 0
		stored := 0
		for i, b := range blobs {
			bh := restic.BlobHandle{ID: b.id, Type: b.tpe}
			submitted := count[i]
			if b.pre {
				submitted++
			}
			if submitted == 0 {
				if len(occ[bh]) != 0 {
					t.Fatalf("blob %d was never submitted but is in packs %v", i, occ[bh])
				}
				continue
			}
			stored++
			if submitted-1 > maxDup {
				maxDup = submitted - 1
			}
			want := 1
			if b.pre {
				want = 0
			}
			if count[i] > 0 || b.pre {
				if count[i] > 0 && notKnown[i] != want {
					t.Fatalf("blob %d (%v, %d bytes, stored before: %v): %d of %d submissions were answered 'not known', want %d [%s]",
						i, bh, len(b.plain), b.pre, notKnown[i], count[i], want, desc)
				}
			}
			if len(occ[bh]) != 1 {
				t.Fatalf("blob %d (%v, %d bytes, stored before: %v, %d submissions in the storm) is stored %d times, in packs %v [%s]",
					i, bh, len(b.plain), b.pre, count[i], len(occ[bh]), occ[bh], desc)
			}
			for name, r := range map[string]*Repository{"session": repo, "freshly loaded": fresh} {
				pbs := r.LookupBlob(bh)
				if len(pbs) != 1 {
					t.Fatalf("blob %d (%v): %d entries in the %s index, want 1 [%s]", i, bh, len(pbs), name, desc)
				}
				if pbs[0].PackID() != occ[bh][0] {
					t.Fatalf("blob %d (%v): %s index points to pack %v, blob is in %v", i, bh, name, pbs[0].PackID(), occ[bh][0])
				}
			}
		}
		if len(occ) != stored {
			t.Fatalf("packs hold %d distinct blobs, %d were submitted [%s]", len(occ), stored, desc)
		}
		nIdx := 0
		if err := fresh.ListBlobs(ctx, func(restic.PackBlob) { nIdx++ }); err != nil {
			t.Fatal(err)
		}
		if nIdx != stored {
			t.Fatalf("freshly loaded index lists %d entries for %d distinct blobs [%s]", nIdx, stored, desc)
		}

		key := ""
		if maxDup >= 10 {
			key = fmt.Sprintf("%s %v", desc, count)
		}
		hotNew := "hot=new"
		if blobs[0].pre {
			hotNew = "hot=stored-before"
		}
		st.Case(key, "prior="+prior, fmt.Sprintf("workers=%d", workers), "dups-of-one-blob="+vBucketC16(maxDup), hotNew,
			fmt.Sprintf("hotFirst=%v", hotFirst), fmt.Sprintf("version=%d", version), "part=storm")
		if st.WantSample() {
			st.Sample(map[string]any{"case": desc, "submissions_per_blob": count, "not_known_per_blob": notKnown, "packs": len(occ)})
		}
	})
}

// ---------------------------------------------------------------------------
// Variant: uploads in the middle of the session.
//
// Blobs of 1-2 MiB with the minimum pack size make several packs finish before the final
// flush; index.Full (the exported hook; in production: 50000 blobs or 10 minutes) reports an
// index as full from k blobs on, so finished packs trigger intermediate index files. The
// backend delays the Save of an index file until a later pack Save has completed (plus a few
// ms, or 50 ms at most): a slow index upload that overlaps with the completion of another
// pack upload. After every blob was submitted once, all savers resubmit all blobs inside the
// SAME session: each resubmission must be answered "known", and the decrypt-walk must find
// every blob exactly once with exactly one index entry.

type vGateBeC16 struct {
	backend.Backend
	mu         sync.Mutex
	packDone   chan struct{} // closed and replaced whenever a pack Save completes
	inflight   int
	indexSaves int
	packSaves  int
	overlapped int // index Saves that were still in flight when a later pack Save completed
}

func (b *vGateBeC16) Save(ctx context.Context, h backend.Handle, rd backend.RewindReader) error {
	b.mu.Lock()
	b.inflight++
	wait := b.packDone
	b.mu.Unlock()
	defer func() {
		b.mu.Lock()
		b.inflight--
		b.mu.Unlock()
	}()
	switch h.Type {
	case backend.IndexFile:
		select {
		case <-wait:
			b.mu.Lock()
			b.overlapped++
			b.mu.Unlock()
			// the other uploader goes on (StorePack of its pack) while this upload is still not done
			time.Sleep(5 * time.Millisecond)
		case <-time.After(50 * time.Millisecond):
		case <-ctx.Done():
			return ctx.Err()
		}
		b.mu.Lock()
		b.indexSaves++
		b.mu.Unlock()
		return b.Backend.Save(ctx, h, rd)
	case backend.PackFile:
		err := b.Backend.Save(ctx, h, rd)
		b.mu.Lock()
		b.packSaves++
		close(b.packDone)
		b.packDone = make(chan struct{})
		b.mu.Unlock()
		return err
	}
	return b.Backend.Save(ctx, h, rd)
}

func (b *vGateBeC16) quiesce(max time.Duration) {
	deadline := time.Now().Add(max)
	idle := 0
	for time.Now().Before(deadline) && idle < 3 {
		b.mu.Lock()
		n := b.inflight
		b.mu.Unlock()
		if n == 0 {
			idle++
		} else {
			idle = 0
		}
		time.Sleep(time.Millisecond)
	}
}

func vMidSessionCaseC16(t *rapid.T, st *verifkit.Stats, dec *zstd.Decoder, version uint) {
	ctx := context.Background()
	gbe := &vGateBeC16{Backend: mem.New(), packDone: make(chan struct{})}
	opts := Options{Compression: CompressionOff, PackSize: MinPackSize}
	repo, err := New(gbe, opts)
	if err != nil {
		t.Fatal(err)
	}
	pol := testChunkerPol
	if err := repo.Init(ctx, version, "pw", &pol); err != nil {
		t.Fatal(err)
	}
	repo.packerCount = rapid.SampledFrom([]int{1, 2, 2}).Draw(t, "packers")
	fullFrom := uint(rapid.SampledFrom([]int{1, 2, 2, 3, 3, 4, 6}).Draw(t, "indexFullFrom"))
	index.Full = func(idx *index.Index) bool {
		return idx.Len(restic.DataBlob)+idx.Len(restic.TreeBlob) >= fullFrom
	}

	n := rapid.IntRange(6, 12).Draw(t, "blobs")
	seed := rapid.Uint64().Draw(t, "seed")
	blobs := make([]*vBlobC16, n)
	for i := range blobs {
		b := &vBlobC16{tpe: restic.DataBlob}
		size := rapid.IntRange(1<<20, 2<<20).Draw(t, "size")
		if rapid.IntRange(0, 5).Draw(t, "smalltree") == 0 {
			b.tpe = restic.TreeBlob
			size = rapid.IntRange(100, 5000).Draw(t, "treesize")
		}
		var s [32]byte
		s[0], s[1], s[2], s[3], s[4], s[5], s[6], s[7] = byte(seed), byte(seed>>8), byte(seed>>16), byte(seed>>24), byte(seed>>32), byte(seed>>40), byte(seed>>48), byte(seed>>56)
		s[8] = byte(i)
		b.plain = make([]byte, size)
		_, _ = rand.NewChaCha8(s).Read(b.plain)
		b.id = restic.Hash(b.plain)
		blobs[i] = b
	}
	savers := rapid.IntRange(2, 8).Draw(t, "savers")
	owner := make([]int, n)
	for i := range owner {
		owner[i] = rapid.IntRange(0, savers-1).Draw(t, "owner")
	}
	nullID := rapid.IntRange(0, 3).Draw(t, "resubmitWithNullID") == 0
	rounds := rapid.IntRange(1, 2).Draw(t, "rounds")

	type res struct {
		blob, saver, round int
		known              bool
		err                error
	}
	var mu sync.Mutex
	var first, again []res
	serr := repo.WithBlobUploader(ctx, func(ctx context.Context, up restic.BlobSaverWithAsync) error {
		var wg sync.WaitGroup
		for w := 0; w < savers; w++ {
			wg.Add(1)
			go func(w int) {
				defer wg.Done()
				for i, b := range blobs {
					if owner[i] != w {
						continue
					}
					_, known, _, err := up.SaveBlob(ctx, b.tpe, b.plain, restic.ID{}, false)
					mu.Lock()
					first = append(first, res{blob: i, saver: w, known: known, err: err})
					mu.Unlock()
				}
			}(w)
		}
		wg.Wait()
		for r := 0; r < rounds; r++ {
			// let the queued packs and intermediate index files finish
			gbe.quiesce(400 * time.Millisecond)
			for w := 0; w < savers; w++ {
				wg.Add(1)
				go func(w int) {
					defer wg.Done()
					for k := range blobs {
						i := (k + w) % n
						b := blobs[i]
						id := b.id
						if nullID {
							id = restic.ID{}
						}
						_, known, _, err := up.SaveBlob(ctx, b.tpe, b.plain, id, false)
						mu.Lock()
						again = append(again, res{blob: i, saver: w, round: r, known: known, err: err})
						mu.Unlock()
					}
				}(w)
			}
			wg.Wait()
		}
		return nil
	})
	if serr != nil {
		t.Fatalf("upload session failed on a healthy backend: %v", serr)
	}
	gbe.mu.Lock()
	packSaves, indexSaves, overlapped := gbe.packSaves, gbe.indexSaves, gbe.overlapped
	gbe.mu.Unlock()
	desc := fmt.Sprintf("mid-session version=%d blobs=%d savers=%d packers=%d indexFullFrom=%d rounds=%d packs=%d indexfiles=%d overlapped=%d",
		version, n, savers, repo.packerCount, fullFrom, rounds, packSaves, indexSaves, overlapped)

	for _, r := range first {
		if r.err != nil || r.known {
			t.Fatalf("first submission of blob %d by saver %d: known=%v err=%v [%s]", r.blob, r.saver, r.known, r.err, desc)
		}
	}
	if len(first) != n {
		t.Fatalf("harness: %d first submissions for %d blobs", len(first), n)
	}
	for _, r := range again {
		if r.err != nil {
			t.Fatalf("resubmission of blob %d: %v", r.blob, r.err)
		}
		if !r.known {
			bh := restic.BlobHandle{ID: blobs[r.blob].id, Type: blobs[r.blob].tpe}
			t.Fatalf("blob %d (%v, %d bytes) was saved earlier in the same session, its resubmission (round %d, saver %d) was answered 'not known' [%s]",
				r.blob, bh, len(blobs[r.blob].plain), r.round, r.saver, desc)
		}
	}
	occ, err := vWalkPacksC16(ctx, gbe, repo, dec)
	if err != nil {
		t.Fatal(err)
	}
	fresh, err := New(gbe, opts)
	if err != nil {
		t.Fatal(err)
	}
	if err := fresh.SearchKey(ctx, "pw", 1, ""); err != nil {
		t.Fatal(err)
	}
	if err := fresh.LoadIndex(ctx, restic.NoopTerminalCounterFactory); err != nil {
		t.Fatal(err)
	}
	for i, b := range blobs {
		bh := restic.BlobHandle{ID: b.id, Type: b.tpe}
		if len(occ[bh]) != 1 {
			t.Fatalf("blob %d (%v, %d bytes) is stored %d times, in packs %v [%s]", i, bh, len(b.plain), len(occ[bh]), occ[bh], desc)
		}
		for name, r := range map[string]*Repository{"session": repo, "freshly loaded": fresh} {
			pbs := r.LookupBlob(bh)
			if len(pbs) != 1 {
				t.Fatalf("blob %d (%v): %d entries in the %s index, want 1 [%s]", i, bh, len(pbs), name, desc)
			}
			if pbs[0].PackID() != occ[bh][0] {
				t.Fatalf("blob %d (%v): %s index points to pack %v, blob is in %v", i, bh, name, pbs[0].PackID(), occ[bh][0])
			}
		}
	}
	if len(occ) != n {
		t.Fatalf("packs hold %d distinct blobs, %d were submitted [%s]", len(occ), n, desc)
	}
	nIdx := 0
	if err := fresh.ListBlobs(ctx, func(restic.PackBlob) { nIdx++ }); err != nil {
		t.Fatal(err)
	}
	if nIdx != n {
		t.Fatalf("freshly loaded index lists %d entries for %d distinct blobs [%s]", nIdx, n, desc)
	}

	key := ""
	if overlapped > 0 && indexSaves >= 2 {
		key = desc + fmt.Sprint(seed)
	}
	st.Case(key, "part=storm-midsession", fmt.Sprintf("storm:intermediate-index=%v", indexSaves >= 2),
		fmt.Sprintf("storm:index-upload-overlapped-pack-upload=%v", overlapped > 0), fmt.Sprintf("storm:packs-before-flush>=2=%v", packSaves >= 3),
		fmt.Sprintf("storm:indexFullFrom=%d", fullFrom))
	if st.WantSample() {
		st.Sample(map[string]any{"case": desc})
	}
}
