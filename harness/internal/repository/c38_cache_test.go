package repository

import (
	"bytes"
	"context"
	"crypto/sha256"
	"encoding/binary"
	"errors"
	"fmt"
	"io"
	"math/rand/v2"
	"os"
	"path/filepath"
	"runtime"
	"sort"
	"strings"
	"sync"
	"testing"

	"github.com/klauspost/compress/zstd"
	"github.com/restic/restic/internal/backend"
	"github.com/restic/restic/internal/backend/cache"
	"github.com/restic/restic/internal/backend/mem"
	"github.com/restic/restic/internal/repository/pack"
	"github.com/restic/restic/internal/restic"
	"github.com/restic/restic/internal/verifkit"
	"pgregory.net/rapid"
)

// C38: the local cache never changes what restic reads.
//
// A small repository (tree pack(s), data pack(s), snapshots, index files) lives on a mem
// backend. A real cache directory (internal/backend/cache layout) is prepared file by
// file in a drawn state: absent / valid / truncated / one bit flipped / zero length /
// content of another file of the same type / valid plus tmp leftovers, plus entries
// for files that do not exist in the repository. A fresh Repository object (new
// process: empty "forgotten" set) with cache.New(...) on that directory then runs
// LoadIndex and a drawn plan of reads - LoadUnpacked(snapshot|index), LoadBlob(tree|data
// blob), LoadBlobsFromPack(all blobs of a pack), listPack - in 1-6 goroutines that
// share targets, optionally while another goroutine clears the cache (Cache.Clear with
// an empty valid set, removal of single files, removal of the whole directory) and
// optionally on a backend that fails drawn Loads.
//
// Oracle: every result is an error or exactly the model content (plaintext for blobs
// and unpacked files, true header for listPack). With a healthy backend and no cleaner
// every read - including LoadIndex - must succeed whatever the state of the cache (each
// file is damaged at most once, which the forget-once circuit breaker allows for), and
// after a plan that covers a cached file completely (whole-file reads; all blobs +
// header for packs) the cached file is byte-identical to the repository file (snapshot
// and index files: present and identical; packs: identical or removed).

func prfC38(seed uint64, n int) []byte {
	b := make([]byte, n)
	var s [32]byte
	binary.LittleEndian.PutUint64(s[:], seed)
	binary.LittleEndian.PutUint64(s[8:], uint64(n))
	_, _ = rand.NewChaCha8(s).Read(b)
	return b
}

var cacheDirsC38 = map[backend.FileType]string{backend.PackFile: "data", backend.SnapshotFile: "snapshots", backend.IndexFile: "index"}

func cachePathC38(base, repoID string, h backend.Handle) string {
	return filepath.Join(base, repoID, cacheDirsC38[h.Type], h.Name[:2], h.Name)
}

type vFailBeC38 struct {
	backend.Backend
	mu      sync.Mutex
	active  bool
	failSet map[int]bool // Load call numbers (after activation) that fail
	calls   int
	failed  int
}

var errFailC38 = errors.New("injected backend failure")

func (b *vFailBeC38) Load(ctx context.Context, h backend.Handle, length int, offset int64, fn func(rd io.Reader) error) error {
	b.mu.Lock()
	fail := false
	if b.active {
		fail = b.failSet[b.calls]
		b.calls++
		if fail {
			b.failed++
		}
	}
	b.mu.Unlock()
	if fail {
		return errFailC38
	}
	return b.Backend.Load(ctx, h, length, offset, fn)
}

func (b *vFailBeC38) Unwrap() backend.Backend { return b.Backend }

type vOpC38 struct {
	kind   string // unpacked blob pack listpack
	h      backend.Handle
	blob   restic.BlobHandle
	yields int
	// result
	err        error
	wrong      string
	twinHeader bool
}

// listPack returns the header of another pack without error when the cached (or served)
// bytes are those of a different pack of exactly the same length. Listed in
// known_findings.json (status known); only exactly this shape (listPack, authentic other pack
// of the same length, listing == that pack's header) is recognised, and it is a violation if
// the entry is absent. TestVerifC38ListPackTwinProbe constructs the shape once per run.
const listPackTwinKeyC38 = "C38:listpack-header-not-bound-to-pack-id"

func sameEntriesC38(a, b pack.Blobs) bool {
	if len(a) != len(b) {
		return false
	}
	m := map[pack.Blob]int{}
	for _, e := range a {
		m[e]++
	}
	for _, e := range b {
		m[e]--
	}
	for _, n := range m {
		if n != 0 {
			return false
		}
	}
	return true
}

// permuteC38 returns a drawn permutation of ops (indices are drawn to keep rapid's log small).
func permuteC38(t *rapid.T, ops []vOpC38, label string) []vOpC38 {
	idx := make([]int, len(ops))
	for i := range idx {
		idx[i] = i
	}
	out := make([]vOpC38, 0, len(ops))
	for _, i := range rapid.Permutation(idx).Draw(t, label) {
		out = append(out, ops[i])
	}
	return out
}

type vPackC38 struct {
	id      restic.ID
	h       backend.Handle
	data    []byte
	entries pack.Blobs
	tpe     restic.BlobType
}

func TestVerifC38Cache(t *testing.T) {
	st := verifkit.Begin(t, "C38")
	TestUseLowSecurityKDFParameters(t)
	restic.TestDisableCheckPolynomial(t)
	dec, err := zstd.NewReader(nil)
	if err != nil {
		t.Fatal(err)
	}
	defer dec.Close()

	rapid.Check(t, func(t *rapid.T) {
		ctx := context.Background()
		version := uint(rapid.SampledFrom([]int{1, 2, 2}).Draw(t, "version"))
		comp := rapid.SampledFrom([]CompressionMode{CompressionOff, CompressionFastest}).Draw(t, "compression")
		fbe := &vFailBeC38{Backend: mem.New()}
		wrepo, err := New(fbe, Options{Compression: comp})
		if err != nil {
			t.Fatalf("New: %v", err)
		}
		pol := testChunkerPol
		if err := wrepo.Init(ctx, version, "pw", &pol); err != nil {
			t.Fatalf("Init: %v", err)
		}
		wrepo.packerCount = 1

		// ---- repository content ----
		sessions := rapid.IntRange(1, 2).Draw(t, "sessions")
		nd := rapid.IntRange(1, 3).Draw(t, "ndata")
		ntr := rapid.IntRange(1, 4).Draw(t, "ntree")
		sizes := make([]int, nd+ntr)
		for i := range sizes {
			sizes[i] = rapid.OneOf(rapid.IntRange(1, 300), rapid.IntRange(1, 12000)).Draw(t, "size")
		}
		blobPlain := map[restic.BlobHandle][]byte{}
		for s := 0; s < sessions; s++ {
			var bufs [][]byte
			for _, sz := range sizes {
				bufs = append(bufs, prfC38(rapid.Uint64Range(1, 1<<40).Draw(t, "bseed"), sz))
			}
			err := wrepo.WithBlobUploader(ctx, func(ctx context.Context, up restic.BlobSaverWithAsync) error {
				for i, buf := range bufs {
					tpe := restic.DataBlob
					if i >= nd {
						tpe = restic.TreeBlob
					}
					id, _, _, err := up.SaveBlob(ctx, tpe, buf, restic.ID{}, false)
					if err != nil {
						return err
					}
					blobPlain[restic.BlobHandle{ID: id, Type: tpe}] = buf
				}
				return nil
			})
			if err != nil {
				t.Fatalf("session: %v", err)
			}
		}
		unpPlain := map[backend.Handle][]byte{}
		nsn := rapid.IntRange(1, 3).Draw(t, "snapshots")
		for i := 0; i < nsn; i++ {
			data := []byte(fmt.Sprintf(`{"time":"2021-02-0%dT00:00:00Z","hostname":"h","paths":["/p%d"],"x":"%x"}`, i+1, i, prfC38(uint64(i)+rapid.Uint64Range(1, 1<<30).Draw(t, "sseed"), 30)))
			id, err := wrepo.SaveUnpacked(ctx, restic.WriteableSnapshotFile, data)
			if err != nil {
				t.Fatalf("snapshot: %v", err)
			}
			unpPlain[backend.Handle{Type: backend.SnapshotFile, Name: id.String()}] = data
		}
		// model
		files := map[backend.Handle][]byte{}
		byType := map[backend.FileType][]backend.Handle{}
		for _, ft := range []backend.FileType{backend.PackFile, backend.SnapshotFile, backend.IndexFile} {
			var names []string
			_ = fbe.Backend.List(ctx, ft, func(fi backend.FileInfo) error { names = append(names, fi.Name); return nil })
			sort.Strings(names)
			for _, n := range names {
				h := backend.Handle{Type: ft, Name: n}
				_ = fbe.Backend.Load(ctx, h, 0, 0, func(rd io.Reader) error {
					b, err := io.ReadAll(rd)
					files[h] = b
					return err
				})
				byType[ft] = append(byType[ft], h)
			}
		}
		key := wrepo.Key()
		var packs []*vPackC38
		packOf := map[restic.BlobHandle]*vPackC38{}
		for _, h := range byType[backend.PackFile] {
			data := files[h]
			entries, _, err := pack.List(key, bytes.NewReader(data), int64(len(data)))
			if err != nil || len(entries) == 0 {
				t.Fatalf("pack list: %v", err)
			}
			id, _ := restic.ParseID(h.Name)
			p := &vPackC38{id: id, h: h, data: data, entries: entries, tpe: entries[0].Type}
			packs = append(packs, p)
			for _, e := range entries {
				if _, ok := packOf[e.BlobHandle]; !ok {
					packOf[e.BlobHandle] = p
				}
			}
		}
		for _, h := range byType[backend.IndexFile] {
			raw := files[h]
			plain, err := key.Open(nil, raw[:key.NonceSize()], raw[key.NonceSize():], nil)
			if err != nil {
				t.Fatalf("index decrypt: %v", err)
			}
			if version >= 2 && len(plain) > 0 && plain[0] == 2 {
				plain, err = dec.DecodeAll(plain[1:], nil)
				if err != nil {
					t.Fatalf("index decompress: %v", err)
				}
			}
			unpPlain[h] = plain
		}
		repoID := wrepo.Config().ID

		// ---- cache directory in a drawn state ----
		base, err := os.MkdirTemp("", "c38-cache-")
		if err != nil {
			t.Fatalf("tempdir: %v", err)
		}
		defer os.RemoveAll(base)
		if _, err := cache.New(repoID, base); err != nil { // creates the layout like an earlier run would have
			t.Fatalf("cache.New: %v", err)
		}
		state := map[backend.Handle]string{}
		twinPlanted := map[backend.Handle]*vPackC38{} // cached copy is another authentic pack of the same length
		writeCache := func(h backend.Handle, data []byte) {
			p := cachePathC38(base, repoID, h)
			if err := os.MkdirAll(filepath.Dir(p), 0o700); err != nil {
				t.Fatalf("mkdir: %v", err)
			}
			if err := os.WriteFile(p, data, 0o644); err != nil {
				t.Fatalf("write: %v", err)
			}
		}
		var cacheable []backend.Handle
		cacheable = append(cacheable, byType[backend.IndexFile]...)
		cacheable = append(cacheable, byType[backend.SnapshotFile]...)
		cacheable = append(cacheable, byType[backend.PackFile]...)
		damagedAny := false
		for _, h := range cacheable {
			truth := files[h]
			isDataPack := false
			for _, p := range packs {
				if p.h == h && p.tpe == restic.DataBlob {
					isDataPack = true
				}
			}
			choices := []string{"absent", "valid", "valid", "truncated", "bitflip", "bitflip", "zero-length", "wrong-file", "valid+tmp"}
			if isDataPack {
				// data packs are not cached automatically; a copy can only have been planted
				choices = []string{"absent", "absent", "absent", "valid", "truncated", "bitflip", "wrong-file"}
			}
			s := rapid.SampledFrom(choices).Draw(t, "state")
			switch s {
			case "valid":
				writeCache(h, truth)
			case "truncated":
				writeCache(h, truth[:rapid.IntRange(0, len(truth)-1).Draw(t, "cut")])
			case "bitflip":
				c := bytes.Clone(truth)
				c[rapid.IntRange(0, len(c)-1).Draw(t, "pos")] ^= 1 << rapid.IntRange(0, 7).Draw(t, "bit")
				writeCache(h, c)
			case "zero-length":
				writeCache(h, nil)
			case "wrong-file":
				var others []backend.Handle
				for _, o := range byType[h.Type] {
					if o != h {
						others = append(others, o)
					}
				}
				if len(others) == 0 {
					s = "zero-length"
					writeCache(h, nil)
				} else {
					oh := others[rapid.IntRange(0, len(others)-1).Draw(t, "other")]
					o := files[oh]
					writeCache(h, o)
					if h.Type == backend.PackFile && len(o) == len(truth) {
						for _, p := range packs {
							if p.h == oh {
								twinPlanted[h] = p
							}
						}
					}
				}
			case "valid+tmp":
				writeCache(h, truth)
				p := cachePathC38(base, repoID, h)
				_ = os.WriteFile(filepath.Join(filepath.Dir(p), "tmp-123456"), truth[:len(truth)/2], 0o600)
			}
			state[h] = s
			if s != "absent" && s != "valid" && s != "valid+tmp" {
				damagedAny = true
			}
		}
		// entries for files that are not in the repository (any more)
		nStale := rapid.IntRange(0, 3).Draw(t, "staleEntries")
		for i := 0; i < nStale; i++ {
			ft := rapid.SampledFrom([]backend.FileType{backend.PackFile, backend.SnapshotFile, backend.IndexFile}).Draw(t, "staleType")
			content := prfC38(rapid.Uint64().Draw(t, "staleSeed"), 200)
			name := restic.ID(sha256.Sum256(content)).String()
			writeCache(backend.Handle{Type: ft, Name: name}, content)
		}

		// ---- plan ----
		mode := rapid.SampledFrom([]string{"sequential", "sequential", "concurrent", "concurrent", "concurrent+cleaner", "failing-backend", "failing-backend+cleaner"}).Draw(t, "mode")
		healthy := !strings.HasPrefix(mode, "failing")
		cleaner := strings.HasSuffix(mode, "cleaner")
		goroutines := 1
		if mode != "sequential" {
			goroutines = rapid.IntRange(2, 6).Draw(t, "goroutines")
		}
		var blobHandles []restic.BlobHandle
		for h := range blobPlain {
			blobHandles = append(blobHandles, h)
		}
		sort.Slice(blobHandles, func(i, j int) bool { return blobHandles[i].ID.String() < blobHandles[j].ID.String() })
		fullOps := func() []vOpC38 { // covers every cached file completely
			var ops []vOpC38
			for _, h := range byType[backend.SnapshotFile] {
				ops = append(ops, vOpC38{kind: "unpacked", h: h})
			}
			for _, h := range byType[backend.IndexFile] {
				ops = append(ops, vOpC38{kind: "unpacked", h: h})
			}
			for _, p := range packs {
				ops = append(ops, vOpC38{kind: "pack", h: p.h}, vOpC38{kind: "listpack", h: p.h})
			}
			return ops
		}
		genOp := func() vOpC38 {
			op := vOpC38{yields: rapid.IntRange(0, 3).Draw(t, "yield")}
			switch rapid.IntRange(0, 5).Draw(t, "opkind") {
			case 0:
				op.kind = "unpacked"
				hs := append(append([]backend.Handle{}, byType[backend.SnapshotFile]...), byType[backend.IndexFile]...)
				op.h = hs[rapid.IntRange(0, len(hs)-1).Draw(t, "file")]
			case 1, 2:
				op.kind = "blob"
				op.blob = blobHandles[rapid.IntRange(0, len(blobHandles)-1).Draw(t, "blob")]
				op.h = packOf[op.blob].h
			case 3:
				op.kind = "pack"
				op.h = packs[rapid.IntRange(0, len(packs)-1).Draw(t, "pack")].h
			default:
				op.kind = "listpack"
				op.h = packs[rapid.IntRange(0, len(packs)-1).Draw(t, "pack")].h
			}
			return op
		}
		plans := make([][]vOpC38, goroutines)
		covered := false
		if mode == "sequential" {
			full := fullOps()
			plans[0] = permuteC38(t, full, "order")
			covered = true
			extra := rapid.IntRange(0, 3).Draw(t, "extra")
			for i := 0; i < extra; i++ {
				plans[0] = append(plans[0], genOp())
			}
		} else {
			// goroutines share targets: a common plan, permuted / thinned per goroutine
			var common []vOpC38
			for i, n := 0, rapid.IntRange(1, 5).Draw(t, "ncommon"); i < n; i++ {
				common = append(common, genOp())
			}
			if rapid.Bool().Draw(t, "withFull") {
				common = append(common, fullOps()...)
				covered = true
			}
			for g := range plans {
				plans[g] = permuteC38(t, common, "gorder")
				if !covered && len(plans[g]) > 1 && rapid.Bool().Draw(t, "thin") {
					plans[g] = plans[g][:len(plans[g])-1]
				}
			}
		}
		cleanAfter := 0
		var cleanActs []string
		if cleaner {
			cleanAfter = rapid.IntRange(0, 200).Draw(t, "cleanAfterYields")
			cleanActs = rapid.SliceOfN(rapid.SampledFrom([]string{"clear", "clear", "remove-file", "remove-file", "remove-dir"}), 1, 4).Draw(t, "cleanActs")
		}
		if !healthy {
			fbe.failSet = map[int]bool{}
			for _, k := range rapid.SliceOfN(rapid.IntRange(0, 12), 1, 5).Draw(t, "failLoads") {
				fbe.failSet[k] = true
			}
		}
		cleanTarget := cacheable[rapid.IntRange(0, len(cacheable)-1).Draw(t, "cleanTarget")]

		// ---- reader ----
		rd, err := New(fbe, Options{})
		if err != nil {
			t.Fatalf("New: %v", err)
		}
		if err := rd.SearchKey(ctx, "pw", 10, ""); err != nil {
			t.Fatalf("SearchKey: %v", err)
		}
		c, err := cache.New(repoID, base)
		if err != nil {
			t.Fatalf("cache.New: %v", err)
		}
		var logMu sync.Mutex
		var cacheLog []string
		rd.UseCache(c, func(f string, a ...any) {
			logMu.Lock()
			cacheLog = append(cacheLog, fmt.Sprintf(f, a...))
			logMu.Unlock()
		})
		fbe.mu.Lock()
		fbe.active = true
		fbe.mu.Unlock()

		runOp := func(op *vOpC38) {
			for i := 0; i < op.yields; i++ {
				runtime.Gosched()
			}
			switch op.kind {
			case "unpacked":
				id, _ := restic.ParseID(op.h.Name)
				buf, err := rd.LoadUnpacked(ctx, restic.FileType(op.h.Type), id)
				op.err = err
				if err == nil && !bytes.Equal(buf, unpPlain[op.h]) {
					op.wrong = fmt.Sprintf("LoadUnpacked(%v) returned %d bytes that are not the content of the file", op.h, len(buf))
				}
			case "blob":
				buf, err := rd.LoadBlob(ctx, op.blob, nil)
				op.err = err
				if err == nil && !bytes.Equal(buf, blobPlain[op.blob]) {
					op.wrong = fmt.Sprintf("LoadBlob(%v) returned %d wrong bytes", op.blob, len(buf))
				}
			case "pack":
				var p *vPackC38
				for _, q := range packs {
					if q.h == op.h {
						p = q
					}
				}
				var hs []restic.BlobHandle
				for _, e := range p.entries {
					hs = append(hs, e.BlobHandle)
				}
				got := 0
				err := rd.LoadBlobsFromPack(ctx, p.id, hs, func(blob restic.BlobHandle, buf []byte, err error) error {
					if err != nil {
						if op.err == nil {
							op.err = err
						}
						return nil
					}
					got++
					if !bytes.Equal(buf, blobPlain[blob]) && op.wrong == "" {
						op.wrong = fmt.Sprintf("LoadBlobsFromPack(%v) delivered %d wrong bytes for %v", p.id.Str(), len(buf), blob)
					}
					return nil
				})
				if err != nil {
					op.err = err
				}
				if op.err == nil && got != len(hs) {
					op.wrong = fmt.Sprintf("LoadBlobsFromPack(%v) delivered %d of %d blobs without any error", p.id.Str(), got, len(hs))
				}
			case "listpack":
				var p *vPackC38
				for _, q := range packs {
					if q.h == op.h {
						p = q
					}
				}
				entries, err := rd.listPack(ctx, p.id, int64(len(p.data)))
				op.err = err
				if err == nil {
					m := map[pack.Blob]int{}
					for _, e := range entries {
						m[e]++
					}
					for _, e := range p.entries {
						m[e]--
					}
					for _, n := range m {
						if n != 0 {
							op.wrong = fmt.Sprintf("listPack(%v) returned a different header", p.id.Str())
						}
					}
					if o := twinPlanted[op.h]; op.wrong != "" && o != nil && sameEntriesC38(entries, o.entries) {
						// the cache holds a different pack of exactly the same length under this name: its
						// header is authentic, not bound to the pack ID, and a ranged read cannot be checked
						// against the ID (see listPackTwinKeyC38)
						op.wrong = ""
						op.twinHeader = true
					}
				}
			}
		}

		var wg sync.WaitGroup
		stopClean := make(chan struct{})
		cleanDone := make(chan struct{})
		if cleaner {
			go func() {
				defer close(cleanDone)
				for i := 0; i < cleanAfter; i++ {
					runtime.Gosched()
				}
				for _, a := range cleanActs {
					select {
					case <-stopClean:
						return
					default:
					}
					switch a {
					case "clear":
						for ft := range cacheDirsC38 {
							_ = c.Clear(ft, map[string]struct{}{})
						}
					case "remove-file":
						_ = os.Remove(cachePathC38(base, repoID, cleanTarget))
					case "remove-dir":
						_ = os.RemoveAll(filepath.Join(base, repoID))
					}
					for i := 0; i < 20; i++ {
						runtime.Gosched()
					}
				}
			}()
		} else {
			close(cleanDone)
		}

		idxErr := rd.LoadIndex(ctx, restic.NoopTerminalCounterFactory)
		if idxErr == nil {
			for g := range plans {
				wg.Add(1)
				go func(ops []vOpC38) {
					defer wg.Done()
					for i := range ops {
						runOp(&ops[i])
					}
				}(plans[g])
			}
			wg.Wait()
		}
		close(stopClean)
		<-cleanDone

		// ---- evidence ----
		nOps, nErr := 0, 0
		sameTarget := false
		touched := map[backend.Handle]bool{}
		for g := range plans {
			for _, op := range plans[g] {
				nOps++
				if op.err != nil {
					nErr++
				}
				touched[op.h] = true
			}
		}
		if goroutines > 1 {
			sameTarget = true
		}
		classes := []string{"mode=" + mode}
		stateSeen := map[string]bool{}
		for h, s := range state {
			if touched[h] || h.Type == backend.IndexFile {
				stateSeen[s] = true
			}
		}
		for s := range stateSeen {
			classes = append(classes, "cache-state="+s)
		}
		if nStale > 0 {
			classes = append(classes, "stale-entries")
		}
		if idxErr != nil {
			classes = append(classes, "loadindex=error")
		}
		if nErr > 0 {
			classes = append(classes, "some-read-failed")
		} else if idxErr == nil {
			classes = append(classes, "all-reads-ok")
		}
		if sameTarget && damagedAny {
			classes = append(classes, "concurrent-loads-of-damaged-file")
		}
		if fbe.failed > 0 {
			classes = append(classes, "backend-load-failed")
		}
		caseKey := ""
		if damagedAny || cleaner {
			var sb strings.Builder
			fmt.Fprintf(&sb, "%d|%v|%s|%d|%v|%d|%v|%v|", version, comp, mode, goroutines, sizes, cleanAfter, cleanActs, fbe.failSet)
			for _, h := range cacheable {
				fmt.Fprintf(&sb, "%s:%s,", h.Name[:8], state[h])
			}
			for g := range plans {
				for _, op := range plans[g] {
					fmt.Fprintf(&sb, "%s:%s:%s,", op.kind, op.h.Name[:6], op.blob.ID.Str())
				}
				sb.WriteString("|")
			}
			caseKey = sb.String()
		}
		st.Case(caseKey, classes...)
		st.Evals(nOps)
		if st.WantSample() {
			ss := map[string]int{}
			for _, s := range state {
				ss[s]++
			}
			st.Sample(map[string]any{"mode": mode, "goroutines": goroutines, "cache_states": ss, "stale_entries": nStale, "reads": nOps, "failed_reads": nErr,
				"loadindex_error": idxErr != nil, "clean_actions": cleanActs, "backend_loads_failed": fbe.failed})
		}

		// ---- oracle ----
		for g := range plans {
			for _, op := range plans[g] {
				if op.twinHeader {
					st.Class("listPack-accepted-header-of-equally-long-other-pack")
					if !st.Known(listPackTwinKeyC38) {
						t.Fatalf("listPack(%v) returned the header of a different pack of the same length that was in the cache under its name", op.h)
					}
				}
				if op.wrong != "" {
					t.Fatalf("%s (mode %s, cache state of %v: %s)", op.wrong, mode, op.h, state[op.h])
				}
			}
		}
		if healthy && !cleaner {
			if idxErr != nil {
				st := []string{}
				for _, h := range byType[backend.IndexFile] {
					st = append(st, state[h])
				}
				t.Fatalf("LoadIndex failed on a healthy backend (cached index files: %v): %v", st, idxErr)
			}
			for g := range plans {
				for _, op := range plans[g] {
					if op.err != nil {
						t.Fatalf("%s of %v failed on a healthy backend (cache state %s, mode %s, %d goroutines): %v", op.kind, op.h, state[op.h], mode, goroutines, op.err)
					}
				}
			}
			if covered {
				for _, h := range cacheable {
					got, err := os.ReadFile(cachePathC38(base, repoID, h))
					// whole-file loads go through the cache and therefore leave a fresh copy; a pack whose
					// damage was noticed by listPack is only removed (its handle carries no metadata flag,
					// so the retry bypasses the cache) and re-cached by the next blob read
					isPack := h.Type == backend.PackFile
					switch {
					case err != nil && isPack:
					case err != nil:
						t.Fatalf("after reading %v completely it is not in the cache (initial state %s): %v", h, state[h], err)
					case !bytes.Equal(got, files[h]):
						t.Fatalf("after reading %v completely the cached copy (%d bytes) still differs from the repository file (%d bytes); initial state %s", h, len(got), len(files[h]), state[h])
					}
				}
			}
		}
	})
}
