package repository

import (
	"context"
	"encoding/binary"
	"encoding/json"
	"fmt"
	"testing"

	"github.com/restic/restic/internal/repository/crypto"
	"github.com/restic/restic/internal/repository/pack"
	"github.com/restic/restic/internal/restic"
	"github.com/restic/restic/internal/verifkit"
	"pgregory.net/rapid"
)

// C44, header limit: the packerManager is driven directly with pre-made tiny
// "ciphertexts" (the manager never looks into them), so that hundreds of thousands of
// entries cost well under a second. queueFn plays the uploader: it finalizes the
// packer exactly like savePacker does and reads the header back from the temp file.
//
// Scenarios (drawn): n around pack.MaxHeaderEntries (one packer driven to exactly the
// limit), around twice the limit, the 600 000 x 33 byte shape of the repaired defect
// (two open packers whose entry counts sum above the limit while their bytes sum far
// below the pack size when Flush merges), free n; 1-4 packers; 16-128 MiB pack size.
//
// Oracle: every blob handed to SaveBlob is in exactly one queued pack (ids are counters,
// checked with a bitmap); each queued pack can be finalized, its header can be decoded
// again and has Count() <= pack.MaxHeaderEntries entries; the bytes stored before the last
// blob of a pack are below the pack size; nothing stays behind in the manager after Flush.

func fixedKeyC44() *crypto.Key {
	const jsonKey = `{"mac":{"k":"eQenuI8adktfzZMuC8rwdA==","r":"k8cfAly2qQSky48CQK7SBA=="},"encrypt":"MKO9gZnRiQFl8mDUurSDa9NMjiu9MUifUrODTHS05wo="}`
	k := &crypto.Key{}
	if err := json.Unmarshal([]byte(jsonKey), k); err != nil {
		panic(err)
	}
	return k
}

type vQueuedC44 struct {
	count     int
	size      uint
	finalErr  error
	listErr   error
	listed    int
	atFlush   bool
	firstIdx  uint64
	blobs     pack.Blobs
	lastStart uint
}

func TestVerifC44HeaderLimit(t *testing.T) {
	st := verifkit.Begin(t, "C44")
	key := fixedKeyC44()
	limit := int(pack.MaxHeaderEntries)

	rapid.Check(t, func(t *rapid.T) {
		n := rapid.OneOf(
			rapid.SampledFrom([]int{limit - 1, limit, limit + 1, 2 * limit, 2*limit + 1, 600000, 600000}),
			rapid.IntRange(limit+1, 2*limit),
			rapid.IntRange(1, 900000),
		).Draw(t, "n")
		packers := rapid.SampledFrom([]int{1, 2, 2, 2, 3, 4}).Draw(t, "packers")
		ctLen := rapid.IntRange(33, 48).Draw(t, "ciphertextLen")
		packSize := uint(rapid.SampledFrom([]int{16, 64, 128, 128}).Draw(t, "packMiB")) << 20
		tpe := rapid.SampledFrom([]restic.BlobType{restic.DataBlob, restic.TreeBlob}).Draw(t, "type")
		ulen := rapid.SampledFrom([]int{0, 100}).Draw(t, "uncompressedLength")

		var queued []*vQueuedC44
		flushing := false
		queueFn := func(ctx context.Context, qt restic.BlobType, p *packer) error {
			q := &vQueuedC44{count: p.Count(), size: p.Size(), atFlush: flushing}
			q.blobs = p.Blobs()
			if len(q.blobs) > 0 {
				q.lastStart = q.blobs[len(q.blobs)-1].Offset
			}
			// what savePacker does before the upload
			q.finalErr = p.Packer.Finalize()
			if q.finalErr == nil {
				q.finalErr = p.bufWr.Flush()
			}
			if q.finalErr == nil {
				fi, err := p.tmpfile.Stat()
				if err != nil {
					q.listErr = err
				} else {
					entries, _, err := pack.List(key, p.tmpfile, fi.Size())
					q.listErr = err
					q.listed = len(entries)
				}
			}
			_ = p.tmpfile.Close()
			if qt != tpe {
				q.finalErr = fmt.Errorf("queued as %v, want %v", qt, tpe)
			}
			queued = append(queued, q)
			return nil
		}
		pm := newPackerManager(key, tpe, packSize, packers, queueFn)
		ct := make([]byte, ctLen)
		ctx := context.Background()
		for i := 0; i < n; i++ {
			var id restic.ID
			binary.LittleEndian.PutUint64(id[:], uint64(i))
			id[31] = 1
			if _, err := pm.SaveBlob(ctx, tpe, id, ct, ulen); err != nil {
				t.Fatalf("SaveBlob #%d: %v", i, err)
			}
		}
		// state at flush time
		open, openCount, openBytes := 0, 0, uint(0)
		for _, p := range pm.packers {
			if p != nil {
				open++
				openCount += p.Count()
				openBytes += p.Size()
			}
		}
		mergeOverLimit := open >= 2 && openCount > limit && openBytes < packSize
		beforeFlush := len(queued)
		flushing = true
		ferr := pm.Flush(ctx)
		for _, p := range pm.packers {
			if p != nil {
				t.Fatalf("a packer is still open after Flush")
			}
		}

		exactly := false
		for _, q := range queued {
			if q.count == limit {
				exactly = true
			}
		}
		classes := []string{"hdr:packers=" + fmt.Sprint(packers)}
		if mergeOverLimit {
			classes = append(classes, "hdr:flush-merge-would-exceed-limit")
		}
		if exactly {
			classes = append(classes, "hdr:pack-with-exactly-max-entries")
		}
		if beforeFlush > 0 {
			classes = append(classes, "hdr:pack-closed-by-header-limit")
		}
		if open >= 2 && openCount <= limit {
			classes = append(classes, "hdr:flush-merge-allowed")
		}
		caseKey := ""
		if n > limit {
			caseKey = fmt.Sprintf("hdr|%d|%d|%d|%d|%v|%d", n, packers, ctLen, packSize, tpe, ulen)
		}
		st.Case(caseKey, classes...)
		if st.WantSample() {
			st.Sample(map[string]any{"part": "header-limit", "n": n, "packers": packers, "ciphertext_len": ctLen, "pack_size": packSize,
				"open_at_flush": open, "open_entries": openCount, "packs": len(queued), "merge_over_limit_possible": mergeOverLimit})
		}

		if ferr != nil {
			t.Fatalf("Flush: %v", ferr)
		}
		seen := make([]uint64, (n+63)/64)
		total := 0
		for i, q := range queued {
			if q.count > limit {
				t.Fatalf("pack %d of %d (queued at flush: %v) has %d entries, limit is %d; Finalize says: %v", i, len(queued), q.atFlush, q.count, limit, q.finalErr)
			}
			if q.finalErr != nil {
				t.Fatalf("pack %d with %d entries cannot be finalized: %v", i, q.count, q.finalErr)
			}
			if q.listErr != nil || q.listed != q.count {
				t.Fatalf("pack %d: header read back: %d entries, err %v; want %d", i, q.listed, q.listErr, q.count)
			}
			if q.count == 0 {
				t.Fatalf("empty pack queued")
			}
			if q.lastStart >= packSize {
				t.Fatalf("pack %d: %d bytes before its last blob, pack size %d", i, q.lastStart, packSize)
			}
			for _, b := range q.blobs {
				if b.Type != tpe {
					t.Fatalf("pack %d holds a %v blob", i, b.Type)
				}
				k := binary.LittleEndian.Uint64(b.ID[:])
				if k >= uint64(n) || seen[k/64]&(1<<(k%64)) != 0 {
					t.Fatalf("blob #%d is in more than one pack (or unknown)", k)
				}
				seen[k/64] |= 1 << (k % 64)
			}
			total += q.count
		}
		if total != n {
			t.Fatalf("%d blobs saved, %d found in queued packs", n, total)
		}
	})
}
