package repository

import (
	"bytes"
	"context"
	"crypto/sha256"
	"encoding/binary"
	"errors"
	"fmt"
	"io"
	"math/rand/v2"
	"os"
	"sort"
	"strings"
	"sync"
	"testing"
	"time"

	"github.com/klauspost/compress/zstd"
	"github.com/restic/chunker"
	"github.com/restic/restic/internal/backend"
	"github.com/restic/restic/internal/backend/cache"
	"github.com/restic/restic/internal/backend/mem"
	"github.com/restic/restic/internal/backend/retry"
	"github.com/restic/restic/internal/repository/crypto"
	"github.com/restic/restic/internal/repository/pack"
	"github.com/restic/restic/internal/restic"
	"github.com/restic/restic/internal/verifkit"
	"pgregory.net/rapid"
)

// C02: loaded data always matches its content address.
//
// TestVerifC02SaveAddress - payloads centred on the all-zero minimum-size chunk shortcut
// (exactly chunker.MinSize zeros, zeros except one byte, MinSize±1, 1 KiB block edges of
// ZeroPrefixLen, sizes up to 8 MiB+1) are saved with a null ID (restic computes the
// address) or a given one, together with unpacked files of every type. Oracle,
// independent of restic's loaders: the returned ID is SHA-256(plaintext); saving valid
// data succeeds; every backend file except config is named SHA-256(its bytes); every
// header entry of every pack decrypts/decompresses to a plaintext with SHA-256 == entry
// ID; LoadBlob / LoadUnpacked give the saved bytes back.
//
// TestVerifC02ReadFaults - a small repository (two upload sessions with equal blob
// size sequences and one packer, so that "twin" packs with identical layout but other
// content exist; snapshot, lock, key, index files) is read through a backend that, for
// one target file, answers successive Loads with a drawn sequence of behaviours: good /
// bit flip / truncated / extended / stale (bytes of another file of the same type) /
// empty / error, with or without the local cache. For LoadBlob, LoadBlobsFromPack,
// LoadRaw, LoadUnpacked and listPack the result must be an error or exactly the content
// that belongs to the requested ID (hash for blobs and raw files, model plaintext for
// unpacked files, true header for listPack); LoadRaw's documented (buf, ErrInvalidData)
// pair counts as error. Further answers model interrupted transfers: "partial-error"
// delivers the first k bytes (0, 1, inside, len-1) of the requested range and then a read
// error; "double-partial" and "double-full" are Loads in which the backend itself invokes
// the consumer twice (interrupted first, complete second; or complete twice - the Load
// contract allows repeated invocation). In half of the cases the reader sits on the
// production stack fault layer -> retry.Backend -> (cache ->) Repository, so that read
// errors lead to a re-invocation of the consumer inside one Load. Positive direction: an
// unharmed target must load; when the answers are n bad ones followed by good ones and a
// good one was reached, the read must succeed if n <= 1 (every API retries once) or if all
// bad answers are errors absorbed by the retry layer.

func prfC02(seed uint64, n int) []byte {
	b := make([]byte, n)
	var s [32]byte
	binary.LittleEndian.PutUint64(s[:], seed)
	binary.LittleEndian.PutUint64(s[8:], uint64(n))
	_, _ = rand.NewChaCha8(s).Read(b)
	return b
}

func initC02(t *testing.T) {
	retry.TestFastRetries(t)
	TestUseLowSecurityKDFParameters(t)
	restic.TestDisableCheckPolynomial(t)
}

func newRepoC02(be backend.Backend, version uint, opts Options) (*Repository, error) {
	repo, err := New(be, opts)
	if err != nil {
		return nil, err
	}
	pol := testChunkerPol
	if err := repo.Init(context.Background(), version, "pw", &pol); err != nil {
		return nil, err
	}
	return repo, nil
}

var allTypesC02 = []backend.FileType{backend.PackFile, backend.KeyFile, backend.LockFile, backend.SnapshotFile, backend.IndexFile}

// walkC02 returns all files of the backend except config.
func walkC02(be backend.Backend) (map[backend.Handle][]byte, error) {
	ctx := context.Background()
	out := map[backend.Handle][]byte{}
	for _, ft := range allTypesC02 {
		var names []string
		if err := be.List(ctx, ft, func(fi backend.FileInfo) error { names = append(names, fi.Name); return nil }); err != nil {
			return nil, err
		}
		for _, n := range names {
			h := backend.Handle{Type: ft, Name: n}
			err := be.Load(ctx, h, 0, 0, func(rd io.Reader) error {
				b, err := io.ReadAll(rd)
				out[h] = b
				return err
			})
			if err != nil {
				return nil, err
			}
		}
	}
	return out, nil
}

func openBlobC02(k *crypto.Key, dec *zstd.Decoder, packData []byte, e pack.Blob) ([]byte, error) {
	if int(e.Offset+e.Length) > len(packData) || int(e.Length) < crypto.Extension {
		return nil, fmt.Errorf("entry %v outside of pack", e)
	}
	ct := packData[e.Offset : e.Offset+e.Length]
	plain, err := k.Open(nil, ct[:k.NonceSize()], ct[k.NonceSize():], nil)
	if err != nil {
		return nil, err
	}
	if e.IsCompressed() {
		return dec.DecodeAll(plain, nil)
	}
	return plain, nil
}

func openUnpackedC02(k *crypto.Key, dec *zstd.Decoder, version uint, buf []byte) ([]byte, error) {
	if len(buf) < crypto.Extension {
		return nil, errors.New("too short")
	}
	plain, err := k.Open(nil, buf[:k.NonceSize()], buf[k.NonceSize():], nil)
	if err != nil {
		return nil, err
	}
	if version < 2 || len(plain) == 0 || plain[0] == '{' || plain[0] == '[' {
		return plain, nil
	}
	if plain[0] != 2 {
		return nil, fmt.Errorf("unknown encoding %d", plain[0])
	}
	return dec.DecodeAll(plain[1:], nil)
}

// ---------------------------------------------------------------- save side

type vPayloadC02 struct {
	size    int
	content string
	pos     int
	seed    uint64
	tpe     restic.BlobType
	giveID  bool
	buf     []byte
	id      restic.ID
}

func genPayloadC02(t *rapid.T) *vPayloadC02 {
	const ms = chunker.MinSize
	p := &vPayloadC02{seed: rapid.Uint64Range(1, 1<<40).Draw(t, "seed")}
	big := 2 * ms
	if verifkit.Tier() == "thorough" {
		big = 8*1024*1024 + 1
	}
	p.size = rapid.OneOf(
		rapid.Just(ms), rapid.Just(ms), rapid.Just(ms),
		rapid.SampledFrom([]int{ms - 1, ms + 1, ms - 1024, ms + 1024, ms - 1023, ms - 1025, 2 * ms, ms / 2}),
		rapid.SampledFrom([]int{0, 1, 2, 1023, 1024, 1025, 2048, 4096}),
		rapid.IntRange(0, 5000),
		rapid.IntRange(ms-3, ms+3),
		rapid.SampledFrom([]int{big, big - 1, 1024 * 1024}),
	).Draw(t, "size")
	p.content = rapid.SampledFrom([]string{"zero", "zero", "zero-but-one", "zero-but-one", "zero-but-one", "random", "lead-nonzero"}).Draw(t, "content")
	p.buf = make([]byte, p.size)
	switch p.content {
	case "zero-but-one":
		if p.size > 0 {
			p.pos = rapid.OneOf(
				rapid.SampledFrom([]int{0, p.size - 1, p.size / 2, 1023 % p.size, 1024 % p.size, max(0, p.size-1024), max(0, p.size-1025), max(0, p.size-2)}),
				rapid.IntRange(0, p.size-1),
			).Draw(t, "pos")
			p.buf[p.pos] = byte(rapid.IntRange(1, 255).Draw(t, "val"))
		}
	case "random":
		p.buf = prfC02(p.seed, p.size)
	case "lead-nonzero":
		if p.size > 0 {
			p.buf[0] = 1
		}
	}
	if rapid.IntRange(0, 3).Draw(t, "tree") == 0 {
		p.tpe = restic.TreeBlob
	} else {
		p.tpe = restic.DataBlob
	}
	p.giveID = rapid.IntRange(0, 3).Draw(t, "giveID") == 0
	p.id = restic.ID(sha256.Sum256(p.buf))
	return p
}

func TestVerifC02SaveAddress(t *testing.T) {
	st := verifkit.Begin(t, "C02")
	initC02(t)
	dec, err := zstd.NewReader(nil)
	if err != nil {
		t.Fatal(err)
	}
	defer dec.Close()

	rapid.Check(t, func(t *rapid.T) {
		ctx := context.Background()
		version := uint(rapid.SampledFrom([]int{1, 2, 2}).Draw(t, "version"))
		comp := rapid.SampledFrom([]CompressionMode{CompressionOff, CompressionOff, CompressionFastest, CompressionFastest, CompressionFastest, CompressionAuto}).Draw(t, "compression")
		noVerify := rapid.Bool().Draw(t, "noExtraVerify")
		be := mem.New()
		repo, err := newRepoC02(be, version, Options{Compression: comp, NoExtraVerify: noVerify})
		if err != nil {
			t.Fatalf("init: %v", err)
		}
		n := rapid.IntRange(1, 5).Draw(t, "n")
		var payloads []*vPayloadC02
		for i := 0; i < n; i++ {
			payloads = append(payloads, genPayloadC02(t))
		}
		// unpacked files
		type unpT struct {
			ft   restic.FileType
			data []byte
			id   restic.ID
		}
		var unp []*unpT
		nu := rapid.IntRange(0, 4).Draw(t, "unpacked")
		for i := 0; i < nu; i++ {
			u := &unpT{ft: rapid.SampledFrom([]restic.FileType{restic.SnapshotFile, restic.LockFile, restic.IndexFile, restic.KeyFile}).Draw(t, "ft")}
			switch rapid.IntRange(0, 4).Draw(t, "ukind") {
			case 0:
				u.data = []byte(fmt.Sprintf(`{"time":"2020-01-01T00:00:00Z","hostname":"h%d","paths":["/p"]}`, rapid.IntRange(0, 1<<30).Draw(t, "h")))
			case 1:
				u.data = prfC02(rapid.Uint64().Draw(t, "useed"), rapid.IntRange(1, 3000).Draw(t, "ulen"))
			case 2:
				u.data = append([]byte{2}, prfC02(rapid.Uint64().Draw(t, "useed"), rapid.IntRange(0, 40).Draw(t, "ulen"))...)
			case 3:
				u.data = make([]byte, rapid.IntRange(1, 70000).Draw(t, "ulen"))
			default:
				u.data = []byte("[" + strings.Repeat("1,", rapid.IntRange(0, 2000).Draw(t, "ulen")) + "1]")
			}
			unp = append(unp, u)
		}

		zeroEdge := false
		seen := map[restic.BlobHandle]bool{}
		serr := repo.WithBlobUploader(ctx, func(ctx context.Context, up restic.BlobSaverWithAsync) error {
			for _, p := range payloads {
				id := restic.ID{}
				if p.giveID {
					id = p.id
				}
				got, known, _, err := up.SaveBlob(ctx, p.tpe, p.buf, id, false)
				if err != nil {
					return fmt.Errorf("SaveBlob(%s, %d bytes, %s): %w", p.tpe, p.size, p.content, err)
				}
				if got != p.id {
					return fmt.Errorf("SaveBlob(%s, %d bytes, %s, pos %d) returned ID %v, SHA-256 of the data is %v", p.tpe, p.size, p.content, p.pos, got, p.id)
				}
				h := restic.BlobHandle{ID: p.id, Type: p.tpe}
				if known != seen[h] {
					return fmt.Errorf("SaveBlob known=%v, want %v", known, seen[h])
				}
				seen[h] = true
			}
			return nil
		})
		for _, p := range payloads {
			if p.size >= chunker.MinSize-1 && p.size <= chunker.MinSize+1 && p.content != "random" {
				zeroEdge = true
			}
		}
		for _, u := range unp {
			if serr != nil {
				break
			}
			u.id, serr = (&internalRepository{repo}).SaveUnpacked(ctx, u.ft, u.data)
		}

		key := ""
		if zeroEdge {
			key = fmt.Sprintf("save|%d|%v|%v|", version, comp, noVerify)
			for _, p := range payloads {
				key += fmt.Sprintf("%d:%s:%d:%d:%v:%v,", p.size, p.content, p.pos, p.seed, p.tpe, p.giveID)
			}
		}
		classes := []string{fmt.Sprintf("save:version=%d", version)}
		for _, p := range payloads {
			switch {
			case p.size == chunker.MinSize && p.content == "zero":
				classes = append(classes, "save:zero-chunk")
			case p.size == chunker.MinSize && p.content == "zero-but-one" && p.pos == p.size-1:
				classes = append(classes, "save:minsize-last-byte-set")
			case p.size == chunker.MinSize && p.content != "random":
				classes = append(classes, "save:minsize-one-byte-set")
			case (p.size == chunker.MinSize+1 || p.size == chunker.MinSize-1) && p.content == "zero":
				classes = append(classes, "save:zeros-minsize±1")
			case p.size > chunker.MinSize+1 && p.content == "zero":
				classes = append(classes, "save:zeros-longer")
			case p.size == 0:
				classes = append(classes, "save:empty-blob")
			}
		}
		st.Case(key, classes...)
		if st.WantSample() {
			var d []string
			for _, p := range payloads {
				d = append(d, fmt.Sprintf("%s/%d/%s@%d", p.tpe, p.size, p.content, p.pos))
			}
			st.Sample(map[string]any{"part": "save", "version": version, "payloads": d, "unpacked": len(unp), "noExtraVerify": noVerify})
		}

		if serr != nil {
			t.Fatalf("saving valid data failed: %v", serr)
		}

		// address/content relation on the backend, without restic's loaders
		files, err := walkC02(be)
		if err != nil {
			t.Fatalf("walk: %v", err)
		}
		stored := map[restic.BlobHandle]int{}
		for h, data := range files {
			sum := restic.ID(sha256.Sum256(data))
			if h.Name != sum.String() {
				t.Fatalf("%v file stored as %s, SHA-256 of its bytes is %s", h.Type, h.Name, sum)
			}
			if h.Type != backend.PackFile {
				continue
			}
			entries, _, err := pack.List(repo.Key(), bytes.NewReader(data), int64(len(data)))
			if err != nil {
				t.Fatalf("pack %s: %v", h.Name, err)
			}
			for _, e := range entries {
				plain, err := openBlobC02(repo.Key(), dec, data, e)
				if err != nil {
					t.Fatalf("pack %s blob %v: %v", h.Name, e, err)
				}
				if got := restic.ID(sha256.Sum256(plain)); got != e.ID {
					t.Fatalf("pack %s: blob stored as %v has plaintext with SHA-256 %v (%d bytes)", h.Name[:8], e.ID, got, len(plain))
				}
				stored[e.BlobHandle]++
			}
		}
		for _, p := range payloads {
			h := restic.BlobHandle{ID: p.id, Type: p.tpe}
			if stored[h] != 1 {
				t.Fatalf("blob %v (%d bytes %s): %d stored copies", h, p.size, p.content, stored[h])
			}
			got, err := repo.LoadBlob(ctx, h, nil)
			if err != nil || !bytes.Equal(got, p.buf) {
				t.Fatalf("LoadBlob(%v) of a just saved blob: err %v, equal %v", h, err, bytes.Equal(got, p.buf))
			}
		}
		for _, u := range unp {
			raw, ok := files[backend.Handle{Type: backend.FileType(u.ft), Name: u.id.String()}]
			if !ok {
				t.Fatalf("SaveUnpacked(%v) returned %v, no such file", u.ft, u.id)
			}
			plain, err := openUnpackedC02(repo.Key(), dec, version, raw)
			if err != nil || !bytes.Equal(plain, u.data) {
				t.Fatalf("%v %v: stored bytes decode to something else (err %v)", u.ft, u.id.Str(), err)
			}
			got, err := repo.LoadUnpacked(ctx, u.ft, u.id)
			if err != nil || !bytes.Equal(got, u.data) {
				// v2 treats a decrypted payload starting with '{' or '[' as uncompressed legacy data; saved
				// data never looks like that because it always carries the version byte
				t.Fatalf("LoadUnpacked(%v %v): err %v, equal %v", u.ft, u.id.Str(), err, bytes.Equal(got, u.data))
			}
		}
	})
}

// ---------------------------------------------------------------- read side

type vBehC02 struct {
	kind  string // good flip truncate extend stale empty error partial-error double-partial double-full
	kmode int    // partial answers: 0 -> 0 bytes, 1 -> 1 byte, 2 -> inside (pos), 3 -> all but one
	pos   uint64
	bit   int
	k     int
	stale []byte
}

type vFaultBeC02 struct {
	backend.Backend
	mu        sync.Mutex
	active    bool
	target    backend.Handle
	truth     []byte
	seq       []vBehC02
	tail      vBehC02
	calls     int
	shortData bool // too-short requests deliver the available bytes instead of failing up front
}

var errFaultC02 = errors.New("injected backend failure")
var errTooShortC02 = errors.New("access beyond end of file")

func goodKindC02(k string) bool { return k == "good" || k == "double-partial" || k == "double-full" }
func errKindC02(k string) bool  { return k == "error" || k == "partial-error" }

// IsPermanentError: like real backends a request beyond the end of the file is permanent,
// injected transfer errors are not (the retry layer repeats them).
func (b *vFaultBeC02) IsPermanentError(err error) bool {
	return errors.Is(err, errTooShortC02) || b.Backend.IsPermanentError(err)
}

type vPartialReaderC02 struct {
	data []byte
	err  error
}

func (r *vPartialReaderC02) Read(p []byte) (int, error) {
	if len(r.data) == 0 {
		return 0, r.err
	}
	n := copy(p, r.data)
	r.data = r.data[n:]
	return n, nil
}

func partialLenC02(beh vBehC02, n int) int {
	if n == 0 {
		return 0
	}
	switch beh.kmode {
	case 0:
		return 0
	case 1:
		return min(1, n-1)
	case 3:
		return n - 1
	}
	return int(beh.pos % uint64(n))
}

func (b *vFaultBeC02) view(beh vBehC02) []byte {
	t := b.truth
	switch beh.kind {
	case "flip":
		if len(t) == 0 {
			return t
		}
		c := bytes.Clone(t)
		c[beh.pos%uint64(len(c))] ^= 1 << beh.bit
		return c
	case "truncate":
		return t[:min(len(t), beh.k)]
	case "extend":
		return append(bytes.Clone(t), make([]byte, max(1, beh.k))...)
	case "stale":
		return beh.stale
	case "empty":
		return nil
	}
	return t
}

func (b *vFaultBeC02) Load(ctx context.Context, h backend.Handle, length int, offset int64, fn func(rd io.Reader) error) error {
	b.mu.Lock()
	hit := b.active && h.Type == b.target.Type && h.Name == b.target.Name
	var beh vBehC02
	if hit {
		beh = b.tail
		if b.calls < len(b.seq) {
			beh = b.seq[b.calls]
		}
		b.calls++
	}
	b.mu.Unlock()
	if !hit {
		return b.Backend.Load(ctx, h, length, offset, fn)
	}
	if beh.kind == "error" {
		return errFaultC02
	}
	data := b.view(beh)
	end := int(offset) + length
	if length == 0 {
		end = max(len(data), int(offset))
	}
	if int(offset) > len(data) || end > len(data) {
		if b.shortData && int(offset) <= len(data) {
			return fn(bytes.NewReader(data[offset:]))
		}
		return errTooShortC02
	}
	rng := data[offset:end]
	switch beh.kind {
	case "partial-error":
		err := fn(&vPartialReaderC02{data: rng[:partialLenC02(beh, len(rng))], err: errFaultC02})
		if err == nil {
			// the consumer swallowed the read error; a real backend would report its own failure
			return errFaultC02
		}
		return err
	case "double-partial":
		// the backend re-runs the transfer itself after an interruption
		if err := fn(&vPartialReaderC02{data: rng[:partialLenC02(beh, len(rng))], err: errFaultC02}); err == nil {
			return nil
		}
		return fn(bytes.NewReader(rng))
	case "double-full":
		// "fn may be called multiple times during the same Load invocation"
		if err := fn(bytes.NewReader(rng)); err != nil {
			return err
		}
		return fn(bytes.NewReader(rng))
	}
	return fn(bytes.NewReader(rng))
}

func (b *vFaultBeC02) Unwrap() backend.Backend { return b.Backend }

// listPack returns the header of another pack without error when the backend answers the
// ranged header read with the bytes of a different pack of exactly the same length: headers
// are authenticated but not bound to the pack ID. Listed in known_findings.json (status
// known); only exactly this shape is recognised, and it is a violation if the entry is absent.
// TestVerifC02ListPackTwinProbe constructs the shape once per run.
const listPackTwinKeyC02 = "C02:listpack-header-not-bound-to-pack-id"

type vBlobC02 struct {
	h     restic.BlobHandle
	plain []byte
}

func TestVerifC02ReadFaults(t *testing.T) {
	st := verifkit.Begin(t, "C02")
	initC02(t)
	dec, err := zstd.NewReader(nil)
	if err != nil {
		t.Fatal(err)
	}
	defer dec.Close()

	rapid.Check(t, func(t *rapid.T) {
		ctx := context.Background()
		version := uint(rapid.SampledFrom([]int{1, 2, 2}).Draw(t, "version"))
		comp := rapid.SampledFrom([]CompressionMode{CompressionOff, CompressionOff, CompressionFastest}).Draw(t, "compression")
		fbe := &vFaultBeC02{Backend: mem.New()}
		repo, err := newRepoC02(fbe, version, Options{Compression: comp})
		if err != nil {
			t.Fatalf("init: %v", err)
		}
		repo.packerCount = 1

		// two sessions with the same size sequence
		nd := rapid.IntRange(1, 5).Draw(t, "ndata")
		ntr := rapid.IntRange(1, 3).Draw(t, "ntree")
		sizes := make([]int, nd+ntr)
		for i := range sizes {
			sizes[i] = rapid.OneOf(rapid.IntRange(1, 200), rapid.IntRange(1, 20000)).Draw(t, "size")
		}
		blobPlain := map[restic.BlobHandle][]byte{}
		var blobs []vBlobC02
		var contents [2][][]byte // drawn here: the upload callback runs on another goroutine
		for s := 0; s < 2; s++ {
			for _, sz := range sizes {
				contents[s] = append(contents[s], prfC02(rapid.Uint64Range(1, 1<<40).Draw(t, "bseed"), sz))
			}
		}
		for s := 0; s < 2; s++ {
			err := repo.WithBlobUploader(ctx, func(ctx context.Context, up restic.BlobSaverWithAsync) error {
				for i := range sizes {
					tpe := restic.DataBlob
					if i >= nd {
						tpe = restic.TreeBlob
					}
					buf := contents[s][i]
					id, known, _, err := up.SaveBlob(ctx, tpe, buf, restic.ID{}, false)
					if err != nil {
						return err
					}
					if known {
						continue
					}
					h := restic.BlobHandle{ID: id, Type: tpe}
					blobPlain[h] = buf
					blobs = append(blobs, vBlobC02{h, buf})
				}
				return nil
			})
			if err != nil {
				t.Fatalf("session: %v", err)
			}
		}
		unpPlain := map[backend.Handle][]byte{}
		for i := 0; i < 3; i++ {
			data := []byte(fmt.Sprintf(`{"time":"2020-01-0%dT00:00:00Z","hostname":"h","paths":["/p%d"],"x":"%x"}`, i+1, i, prfC02(uint64(i)+rapid.Uint64Range(1, 1<<30).Draw(t, "sseed"), 40)))
			id, err := repo.SaveUnpacked(ctx, restic.WriteableSnapshotFile, data)
			if err != nil {
				t.Fatalf("snapshot: %v", err)
			}
			unpPlain[backend.Handle{Type: backend.SnapshotFile, Name: id.String()}] = data
		}
		for i := 0; i < 2; i++ {
			data := []byte(fmt.Sprintf(`{"time":"2020-01-01T00:00:00Z","exclusive":false,"hostname":"h","pid":%d}`, 100+i))
			id, err := (&internalRepository{repo}).SaveUnpacked(ctx, restic.LockFile, data)
			if err != nil {
				t.Fatalf("lock: %v", err)
			}
			unpPlain[backend.Handle{Type: backend.LockFile, Name: id.String()}] = data
		}
		files, err := walkC02(fbe.Backend)
		if err != nil {
			t.Fatalf("walk: %v", err)
		}
		// model of packs
		type packM struct {
			id      restic.ID
			data    []byte
			entries pack.Blobs
			tpe     restic.BlobType
		}
		var packs []*packM
		blobPack := map[restic.BlobHandle]*packM{}
		byType := map[backend.FileType][]backend.Handle{}
		for h, data := range files {
			byType[h.Type] = append(byType[h.Type], h)
			if h.Type == backend.IndexFile {
				plain, err := openUnpackedC02(repo.Key(), dec, version, data)
				if err != nil {
					t.Fatalf("index: %v", err)
				}
				unpPlain[h] = plain
			}
			if h.Type != backend.PackFile {
				continue
			}
			entries, _, err := pack.List(repo.Key(), bytes.NewReader(data), int64(len(data)))
			if err != nil {
				t.Fatalf("pack list: %v", err)
			}
			id, _ := restic.ParseID(h.Name)
			pm := &packM{id: id, data: data, entries: entries, tpe: entries[0].Type}
			packs = append(packs, pm)
			for _, e := range entries {
				blobPack[e.BlobHandle] = pm
			}
		}
		for _, hs := range byType {
			sort.Slice(hs, func(i, j int) bool { return hs[i].Name < hs[j].Name })
		}
		sort.Slice(packs, func(i, j int) bool { return packs[i].id.String() < packs[j].id.String() })

		// ---- choose operation and target ----
		op := rapid.SampledFrom([]string{"LoadBlob", "LoadBlob", "LoadBlobsFromPack", "LoadRaw", "LoadUnpacked", "LoadUnpacked", "listPack"}).Draw(t, "op")
		var target backend.Handle
		var tblob vBlobC02
		var tpack *packM
		switch op {
		case "LoadBlob":
			tblob = blobs[rapid.IntRange(0, len(blobs)-1).Draw(t, "blob")]
			tpack = blobPack[tblob.h]
			target = backend.Handle{Type: backend.PackFile, Name: tpack.id.String()}
		case "LoadBlobsFromPack", "listPack":
			tpack = packs[rapid.IntRange(0, len(packs)-1).Draw(t, "pack")]
			target = backend.Handle{Type: backend.PackFile, Name: tpack.id.String()}
		case "LoadRaw":
			ft := rapid.SampledFrom(allTypesC02).Draw(t, "ft")
			hs := byType[ft]
			target = hs[rapid.IntRange(0, len(hs)-1).Draw(t, "file")]
		default:
			ft := rapid.SampledFrom([]backend.FileType{backend.SnapshotFile, backend.SnapshotFile, backend.LockFile, backend.IndexFile}).Draw(t, "ft")
			hs := byType[ft]
			target = hs[rapid.IntRange(0, len(hs)-1).Draw(t, "file")]
		}
		truth := files[target]

		// ---- fault sequence ----
		// stale candidates: other files of the same type, twin (same length) first
		var staleCands [][]byte
		twin := false
		for _, h := range byType[target.Type] {
			if h != target && len(files[h]) == len(truth) {
				staleCands = append(staleCands, files[h])
				twin = true
			}
		}
		for _, h := range byType[target.Type] {
			if h != target && len(files[h]) != len(truth) {
				staleCands = append(staleCands, files[h])
			}
		}
		genBeh := func(label string) vBehC02 {
			kinds := []string{"good", "flip", "flip", "truncate", "extend", "stale", "stale", "stale", "empty", "error",
				"partial-error", "partial-error", "partial-error", "double-partial", "double-full"}
			b := vBehC02{kind: rapid.SampledFrom(kinds).Draw(t, label)}
			switch b.kind {
			case "partial-error", "double-partial":
				b.kmode = rapid.IntRange(0, 3).Draw(t, "kmode")
				b.pos = rapid.Uint64().Draw(t, "ppos")
			case "flip":
				b.pos = rapid.Uint64().Draw(t, "pos") % uint64(max(1, len(truth)))
				b.bit = rapid.IntRange(0, 7).Draw(t, "bit")
				if op == "LoadBlob" && rapid.Bool().Draw(t, "inblob") {
					for _, e := range tpack.entries {
						if e.BlobHandle == tblob.h {
							b.pos = uint64(e.Offset) + b.pos%uint64(e.Length)
						}
					}
				}
			case "truncate":
				b.k = rapid.IntRange(0, max(0, len(truth)-1)).Draw(t, "k")
			case "extend":
				b.k = rapid.IntRange(1, 64).Draw(t, "k")
			case "stale":
				if len(staleCands) == 0 {
					b.kind = "empty"
				} else {
					b.stale = staleCands[rapid.IntRange(0, len(staleCands)-1).Draw(t, "stalewhich")]
				}
			}
			return b
		}
		nseq := rapid.IntRange(0, 3).Draw(t, "nseq")
		if rapid.IntRange(0, 3).Draw(t, "interrupted") == 0 {
			// interrupted transfers only: 1-3 partial answers, then a good attempt
			nseq = rapid.IntRange(1, 3).Draw(t, "ninterrupted")
			for i := 0; i < nseq; i++ {
				fbe.seq = append(fbe.seq, vBehC02{kind: "partial-error", kmode: rapid.IntRange(0, 3).Draw(t, "kmode"), pos: rapid.Uint64().Draw(t, "ppos")})
			}
			fbe.tail = vBehC02{kind: "good"}
		} else {
			for i := 0; i < nseq; i++ {
				fbe.seq = append(fbe.seq, genBeh("beh"))
			}
			if rapid.Bool().Draw(t, "tailgood") {
				fbe.tail = vBehC02{kind: "good"}
			} else {
				fbe.tail = genBeh("tail")
			}
		}
		fbe.shortData = rapid.Bool().Draw(t, "shortData")
		fbe.target = target
		fbe.truth = truth
		// shape "n bad answers, then only good ones"
		nBad := 0
		for nBad < len(fbe.seq) && !goodKindC02(fbe.seq[nBad].kind) {
			nBad++
		}
		badPrefixThenGood := goodKindC02(fbe.tail.kind)
		badsAreErrors := true
		for i, b := range fbe.seq {
			if i >= nBad && !goodKindC02(b.kind) {
				badPrefixThenGood = false
			}
			if i < nBad && !errKindC02(b.kind) {
				badsAreErrors = false
			}
		}

		// ---- reader: a fresh repository object, optionally with a cache ----
		useCache := rapid.Bool().Draw(t, "cache")
		warm := useCache && rapid.IntRange(0, 3).Draw(t, "warm") == 0
		// production order: fault layer (the storage) -> retry -> (cache ->) repository
		useRetry := rapid.Bool().Draw(t, "retryLayer")
		var stack backend.Backend = fbe
		if useRetry {
			stack = retry.New(fbe, 30*time.Millisecond, nil, nil)
		}
		rd, err := New(stack, Options{})
		if err != nil {
			t.Fatalf("New: %v", err)
		}
		if err := rd.SearchKey(ctx, "pw", 10, ""); err != nil {
			t.Fatalf("SearchKey: %v", err)
		}
		var cacheDir string
		if useCache {
			cacheDir, err = os.MkdirTemp("", "c02-cache-")
			if err != nil {
				t.Fatalf("tempdir: %v", err)
			}
			defer os.RemoveAll(cacheDir)
			c, err := cache.New(rd.Config().ID, cacheDir)
			if err != nil {
				t.Fatalf("cache: %v", err)
			}
			rd.UseCache(c, func(string, ...any) {})
		}
		if err := rd.LoadIndex(ctx, restic.NoopTerminalCounterFactory); err != nil {
			t.Fatalf("LoadIndex on a healthy backend: %v", err)
		}

		doOp := func() (violation string, failed bool) {
			switch op {
			case "LoadBlob":
				buf, err := rd.LoadBlob(ctx, tblob.h, nil)
				if err != nil {
					return "", true
				}
				if restic.ID(sha256.Sum256(buf)) != tblob.h.ID {
					return fmt.Sprintf("LoadBlob(%v) returned %d bytes with SHA-256 %x", tblob.h, len(buf), sha256.Sum256(buf)), false
				}
			case "LoadBlobsFromPack":
				var hs []restic.BlobHandle
				for _, e := range tpack.entries {
					hs = append(hs, e.BlobHandle)
				}
				var v string
				anyErr := false
				err := rd.LoadBlobsFromPack(ctx, tpack.id, hs, func(blob restic.BlobHandle, buf []byte, err error) error {
					if err != nil {
						anyErr = true
						return nil
					}
					if restic.ID(sha256.Sum256(buf)) != blob.ID && v == "" {
						v = fmt.Sprintf("LoadBlobsFromPack delivered %d bytes with SHA-256 %x as %v", len(buf), sha256.Sum256(buf), blob)
					}
					return nil
				})
				return v, err != nil || anyErr
			case "LoadRaw":
				id, _ := restic.ParseID(target.Name)
				buf, err := rd.LoadRaw(ctx, restic.FileType(target.Type), id)
				if err != nil {
					// (buf, ErrInvalidData) is the documented way to hand the damaged bytes to the caller
					return "", true
				}
				if restic.ID(sha256.Sum256(buf)) != id {
					return fmt.Sprintf("LoadRaw(%v) returned %d bytes with SHA-256 %x and no error", target, len(buf), sha256.Sum256(buf)), false
				}
			case "LoadUnpacked":
				id, _ := restic.ParseID(target.Name)
				buf, err := rd.LoadUnpacked(ctx, restic.FileType(target.Type), id)
				if err != nil {
					return "", true
				}
				if !bytes.Equal(buf, unpPlain[target]) {
					return fmt.Sprintf("LoadUnpacked(%v) returned %d bytes that are not the content of that file", target, len(buf)), false
				}
			case "listPack":
				entries, err := rd.listPack(ctx, tpack.id, int64(len(tpack.data)))
				if err != nil {
					return "", true
				}
				if !sameEntriesC02(entries, tpack.entries) {
					// the one known shape: the backend served the bytes of ANOTHER authentic pack of EXACTLY
					// the same length and the listing is exactly that pack's header
					for _, b := range append(append([]vBehC02{}, fbe.seq...), fbe.tail) {
						if b.kind != "stale" || len(b.stale) != len(truth) {
							continue
						}
						for _, o := range packs {
							if o != tpack && bytes.Equal(o.data, b.stale) && sameEntriesC02(entries, o.entries) {
								return "stale-twin-header", false
							}
						}
					}
					return fmt.Sprintf("listPack(%v) returned %d entries that are not the header of that pack", tpack.id.Str(), len(entries)), false
				}
			}
			return "", false
		}

		if warm {
			if v, failed := doOp(); v != "" || failed {
				t.Fatalf("healthy backend: %s failed (%v %s)", op, failed, v)
			}
		}
		fbe.mu.Lock()
		fbe.active = true
		fbe.mu.Unlock()
		violation, failed := doOp()
		fbe.mu.Lock()
		calls := fbe.calls
		fbe.mu.Unlock()

		// ---- evidence ----
		kinds := map[string]bool{}
		for i, b := range fbe.seq {
			if i < calls {
				kinds[b.kind] = true
			}
		}
		if calls > len(fbe.seq) {
			kinds[fbe.tail.kind] = true
		}
		classes := []string{"read:op=" + op, fmt.Sprintf("read:cache=%v", useCache), "read:target=" + target.Type.String(), fmt.Sprintf("read:retry-layer=%v", useRetry)}
		nontriv := false
		for k := range kinds {
			classes = append(classes, "read:fault="+k)
			if k != "good" {
				nontriv = true
			}
			if k == "partial-error" || k == "double-partial" || k == "double-full" {
				if op == "LoadRaw" || op == "LoadUnpacked" {
					classes = append(classes, "read:"+k+"-on-whole-file-load")
				} else {
					classes = append(classes, "read:"+k+"-on-ranged-load")
				}
			}
		}
		reachedGood := badPrefixThenGood && calls > nBad
		if useRetry && nBad >= 1 && badsAreErrors && reachedGood {
			classes = append(classes, "read:retried-to-good-inside-one-load")
			if nBad >= 2 {
				classes = append(classes, "read:several-interruptions-then-good")
			}
		}
		if useRetry && nBad >= 1 && badsAreErrors && badPrefixThenGood && !reachedGood && consumedBadC02(kinds) {
			classes = append(classes, "read:retry-budget-exhausted")
		}
		if twin {
			classes = append(classes, "read:twin-available")
		}
		if failed {
			classes = append(classes, "read:result=error")
		} else {
			classes = append(classes, "read:result=ok")
		}
		if calls == 0 {
			classes = append(classes, "read:served-from-cache")
		}
		twinHeader := false
		if violation == "stale-twin-header" {
			classes = append(classes, "read:listPack-accepted-header-of-equally-long-other-pack")
			violation = ""
			twinHeader = true
		}
		key := ""
		if nontriv {
			var sb strings.Builder
			fmt.Fprintf(&sb, "read|%d|%v|%s|%s|%v|%v|%v|%v|", version, comp, op, target.Type, useCache, warm, fbe.shortData, useRetry)
			for _, b := range append(append([]vBehC02{}, fbe.seq...), fbe.tail) {
				fmt.Fprintf(&sb, "%s:%d:%d:%d:%d:%d,", b.kind, b.pos, b.bit, b.k, len(b.stale), b.kmode)
			}
			fmt.Fprintf(&sb, "%v|%x", sizes, sha256.Sum256(truth))
			key = sb.String()
		}
		st.Case(key, classes...)
		if st.WantSample() {
			var seq []string
			for _, b := range fbe.seq {
				seq = append(seq, b.kind)
			}
			st.Sample(map[string]any{"part": "read", "op": op, "target": target.Type.String(), "answers": seq, "then": fbe.tail.kind, "cache": useCache, "warm_cache": warm, "retry_layer": useRetry,
				"backend_loads_of_target": calls, "failed": failed})
		}

		// ---- oracle ----
		if twinHeader && !st.Known(listPackTwinKeyC02) {
			t.Fatalf("listPack(%v) returned the header of a different pack of the same length served under its name", tpack.id.Str())
		}
		if violation != "" {
			t.Fatalf("%s (answers %v then %s, cache %v)", violation, kindsC02(fbe.seq), fbe.tail.kind, useCache)
		}
		if failed && !consumedBadC02(kinds) {
			t.Fatalf("%s on %v failed although every answer of the backend (%d loads of the target, kinds %v) was correct", op, target, calls, kinds)
		}
		autoCached := target.Type == backend.SnapshotFile || target.Type == backend.IndexFile || (tpack != nil && tpack.tpe == restic.TreeBlob)
		if failed && warm && autoCached && calls == 0 {
			t.Fatalf("%s on %v failed although a verified copy was in the cache and the backend was not asked", op, target)
		}
		if failed && reachedGood && (nBad <= 1 || (useRetry && badsAreErrors)) {
			t.Fatalf("%s on %v failed although the backend answered correctly after %d bad answer(s) %v (retry layer %v, cache %v, backend loads of the target: %d)",
				op, target, nBad, kindsC02(fbe.seq[:nBad]), useRetry, useCache, calls)
		}
	})
}

func consumedBadC02(kinds map[string]bool) bool {
	for k := range kinds {
		if !goodKindC02(k) {
			return true
		}
	}
	return false
}

func kindsC02(seq []vBehC02) []string {
	var out []string
	for _, b := range seq {
		out = append(out, b.kind)
	}
	return out
}

func sameEntriesC02(a, b pack.Blobs) bool {
	if len(a) != len(b) {
		return false
	}
	m := map[pack.Blob]int{}
	for _, e := range a {
		m[e]++
	}
	for _, e := range b {
		m[e]--
	}
	for _, n := range m {
		if n != 0 {
			return false
		}
	}
	return true
}
