package repository

import (
	"bytes"
	"context"
	"crypto/sha256"
	"io"
	"os"
	"path/filepath"
	"testing"

	"github.com/restic/restic/internal/backend"
	"github.com/restic/restic/internal/backend/cache"
	"github.com/restic/restic/internal/backend/mem"
	"github.com/restic/restic/internal/repository/index"
	"github.com/restic/restic/internal/repository/pack"
	"github.com/restic/restic/internal/restic"
	"github.com/restic/restic/internal/verifkit"
)

// Fixed probe for the known finding C38:listpack-header-not-bound-to-pack-id (printed on
// every run): two tree packs P and P' of exactly the same length; the cache holds the
// bytes of P' under the name of P; the backend is healthy. listPack(P) must be an error,
// the true header, or - the known shape - exactly the header of P'. A repository whose
// index was built from that listing must answer LoadBlob for the wrongly listed blobs with
// an error or bytes that hash to the requested ID, with the wrong cache file still in place
// and after it was removed.
func TestVerifC38ListPackTwinProbe(t *testing.T) {
	st := verifkit.Begin(t, "C38")
	TestUseLowSecurityKDFParameters(t)
	restic.TestDisableCheckPolynomial(t)
	ctx := context.Background()
	be := mem.New()
	repo, err := New(be, Options{Compression: CompressionOff})
	if err != nil {
		t.Fatal(err)
	}
	pol := testChunkerPol
	if err := repo.Init(ctx, 1, "pw", &pol); err != nil { // version 1: tree blobs are not compressed, equal sizes give equal packs
		t.Fatal(err)
	}
	repo.packerCount = 1
	sizes := []int{300, 41, 1500}
	for s := 0; s < 2; s++ {
		err := repo.WithBlobUploader(ctx, func(ctx context.Context, up restic.BlobSaverWithAsync) error {
			for i, sz := range sizes {
				if _, _, _, err := up.SaveBlob(ctx, restic.TreeBlob, prfC38(uint64(77*s+i+1), sz), restic.ID{}, false); err != nil {
					return err
				}
			}
			return nil
		})
		if err != nil {
			t.Fatal(err)
		}
	}
	type pm struct {
		h       backend.Handle
		id      restic.ID
		data    []byte
		entries pack.Blobs
	}
	var packs []pm
	var names []string
	_ = be.List(ctx, backend.PackFile, func(fi backend.FileInfo) error { names = append(names, fi.Name); return nil })
	for _, n := range names {
		h := backend.Handle{Type: backend.PackFile, Name: n}
		var data []byte
		_ = be.Load(ctx, h, 0, 0, func(rd io.Reader) error { var e error; data, e = io.ReadAll(rd); return e })
		entries, _, err := pack.List(repo.Key(), bytes.NewReader(data), int64(len(data)))
		if err != nil {
			t.Fatal(err)
		}
		id, _ := restic.ParseID(n)
		packs = append(packs, pm{h, id, data, entries})
	}
	if len(packs) != 2 || len(packs[0].data) != len(packs[1].data) {
		t.Fatalf("probe construction: want two packs of equal length, got %d packs", len(packs))
	}
	P, Q := packs[0], packs[1]

	base, err := os.MkdirTemp("", "c38-probe-")
	if err != nil {
		t.Fatal(err)
	}
	defer os.RemoveAll(base)
	repoID := repo.Config().ID
	c, err := cache.New(repoID, base)
	if err != nil {
		t.Fatal(err)
	}
	cp := cachePathC38(base, repoID, P.h)
	if err := os.MkdirAll(filepath.Dir(cp), 0o700); err != nil {
		t.Fatal(err)
	}
	if err := os.WriteFile(cp, Q.data, 0o644); err != nil {
		t.Fatal(err)
	}
	open := func() *Repository {
		rd, err := New(be, Options{})
		if err != nil {
			t.Fatal(err)
		}
		if err := rd.SearchKey(ctx, "pw", 10, ""); err != nil {
			t.Fatal(err)
		}
		rd.UseCache(c, func(string, ...any) {})
		return rd
	}
	rd := open()
	entries, lerr := rd.listPack(ctx, P.id, int64(len(P.data)))
	outcome := ""
	switch {
	case lerr != nil:
		outcome = "probe:listPack=error"
	case sameEntriesC38(entries, P.entries):
		outcome = "probe:listPack=true-header"
	case sameEntriesC38(entries, Q.entries):
		outcome = "probe:listPack=header-of-equally-long-other-pack"
		if !st.Known(listPackTwinKeyC38) {
			verifkit.SaveReplay("C38", "listpack-twin-probe", map[string]any{"pack": P.id.String(), "cached_bytes_of": Q.id.String(), "sizes": sizes})
			t.Fatalf("listPack(%v) returned the header of %v, whose bytes were in the cache under that name, without error", P.id.Str(), Q.id.Str())
		}
	default:
		verifkit.SaveReplay("C38", "listpack-twin-probe", map[string]any{"pack": P.id.String(), "cached_bytes_of": Q.id.String(), "sizes": sizes, "entries": len(entries)})
		t.Fatalf("listPack(%v) returned %d entries that are neither its header nor that of the cached pack", P.id.Str(), len(entries))
	}
	after, rerr := os.ReadFile(cp)
	switch {
	case rerr != nil:
		st.Class("probe:cache-file-removed")
	case bytes.Equal(after, P.data):
		st.Class("probe:cache-file-replaced")
	default:
		st.Class("probe:cache-file-still-wrong")
	}
	st.Case("probe|listpack-twin", outcome)

	if lerr == nil {
		for _, keepWrongCacheFile := range []bool{true, false} {
			if !keepWrongCacheFile {
				_ = os.Remove(cp)
			}
			rd2 := open()
			idx := index.NewIndex()
			idx.StorePack(P.id, entries)
			rd2.idx.Insert(idx)
			for _, e := range entries {
				buf, err := rd2.LoadBlob(ctx, e.BlobHandle, nil)
				st.Evals(1)
				if err != nil {
					st.Class("probe:LoadBlob-after-wrong-listing=error")
					continue
				}
				if restic.ID(sha256.Sum256(buf)) != e.ID {
					t.Fatalf("LoadBlob(%v) through an index built from the wrong listing returned %d bytes with another hash (wrong cache file present: %v)", e.BlobHandle, len(buf), keepWrongCacheFile)
				}
				st.Class("probe:LoadBlob-after-wrong-listing=correct-bytes")
			}
		}
	}
}
