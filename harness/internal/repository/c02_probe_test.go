package repository

import (
	"bytes"
	"context"
	"crypto/sha256"
	"testing"

	"github.com/restic/restic/internal/backend"
	"github.com/restic/restic/internal/backend/mem"
	"github.com/restic/restic/internal/repository/index"
	"github.com/restic/restic/internal/repository/pack"
	"github.com/restic/restic/internal/restic"
	"github.com/restic/restic/internal/verifkit"
)

// Fixed probe for the known finding C02:listpack-header-not-bound-to-pack-id, so that the
// KNOWN-FINDING line appears on every run: two packs P and P' of exactly the same length
// (same blob sizes, no compression, one packer); the backend answers every Load of P with
// the bytes of P'. listPack(P) must be an error, the true header of P, or - the known
// shape - exactly the header of P'. Afterwards a repository whose index was built from
// that wrong listing (what `repair index` would do) must still answer LoadBlob for the
// wrongly listed blobs with an error or with bytes that hash to the requested ID, both
// while the backend keeps serving P' and after it serves the true P again.
func TestVerifC02ListPackTwinProbe(t *testing.T) {
	st := verifkit.Begin(t, "C02")
	initC02(t)
	ctx := context.Background()
	fbe := &vFaultBeC02{Backend: mem.New()}
	repo, err := newRepoC02(fbe, 2, Options{Compression: CompressionOff})
	if err != nil {
		t.Fatal(err)
	}
	repo.packerCount = 1
	sizes := []int{100, 2000, 37, 512}
	for s := 0; s < 2; s++ {
		err := repo.WithBlobUploader(ctx, func(ctx context.Context, up restic.BlobSaverWithAsync) error {
			for i, sz := range sizes {
				if _, _, _, err := up.SaveBlob(ctx, restic.DataBlob, prfC02(uint64(1000*s+i+1), sz), restic.ID{}, false); err != nil {
					return err
				}
			}
			return nil
		})
		if err != nil {
			t.Fatal(err)
		}
	}
	files, err := walkC02(fbe.Backend)
	if err != nil {
		t.Fatal(err)
	}
	type pm struct {
		h       backend.Handle
		id      restic.ID
		data    []byte
		entries pack.Blobs
	}
	var packs []pm
	for h, data := range files {
		if h.Type != backend.PackFile {
			continue
		}
		entries, _, err := pack.List(repo.Key(), bytes.NewReader(data), int64(len(data)))
		if err != nil {
			t.Fatal(err)
		}
		id, _ := restic.ParseID(h.Name)
		packs = append(packs, pm{h, id, data, entries})
	}
	if len(packs) != 2 || len(packs[0].data) != len(packs[1].data) {
		t.Fatalf("probe construction: want two packs of equal length, got %d packs", len(packs))
	}
	P, Q := packs[0], packs[1]

	rd, err := New(fbe, Options{})
	if err != nil {
		t.Fatal(err)
	}
	if err := rd.SearchKey(ctx, "pw", 10, ""); err != nil {
		t.Fatal(err)
	}
	fbe.target = P.h
	fbe.truth = P.data
	fbe.tail = vBehC02{kind: "stale", stale: Q.data}
	fbe.active = true

	entries, lerr := rd.listPack(ctx, P.id, int64(len(P.data)))
	outcome := ""
	switch {
	case lerr != nil:
		outcome = "probe:listPack=error"
	case sameEntriesC02(entries, P.entries):
		outcome = "probe:listPack=true-header"
	case sameEntriesC02(entries, Q.entries):
		outcome = "probe:listPack=header-of-equally-long-other-pack"
		if !st.Known(listPackTwinKeyC02) {
			verifkit.SaveReplay("C02", "listpack-twin-probe", map[string]any{"pack": P.id.String(), "served": Q.id.String(), "sizes": sizes})
			t.Fatalf("listPack(%v) returned the header of %v, whose bytes the backend served under that name, without error", P.id.Str(), Q.id.Str())
		}
	default:
		verifkit.SaveReplay("C02", "listpack-twin-probe", map[string]any{"pack": P.id.String(), "served": Q.id.String(), "sizes": sizes, "entries": len(entries)})
		t.Fatalf("listPack(%v) returned %d entries that are neither its header nor that of the served pack", P.id.Str(), len(entries))
	}
	st.Case("probe|listpack-twin", outcome)

	// blob reads stay verified even with an index built from the wrong listing
	if lerr == nil {
		for _, servedStale := range []bool{true, false} {
			rd2, err := New(fbe, Options{})
			if err != nil {
				t.Fatal(err)
			}
			fbe.mu.Lock()
			fbe.active = false
			fbe.mu.Unlock()
			if err := rd2.SearchKey(ctx, "pw", 10, ""); err != nil {
				t.Fatal(err)
			}
			idx := index.NewIndex()
			idx.StorePack(P.id, entries)
			rd2.idx.Insert(idx)
			fbe.mu.Lock()
			fbe.active = servedStale
			fbe.mu.Unlock()
			for _, e := range entries {
				buf, err := rd2.LoadBlob(ctx, e.BlobHandle, nil)
				st.Evals(1)
				if err != nil {
					st.Class("probe:LoadBlob-after-wrong-listing=error")
					continue
				}
				if restic.ID(sha256.Sum256(buf)) != e.ID {
					t.Fatalf("LoadBlob(%v) through an index built from the wrong listing returned %d bytes with another hash (backend serving stale bytes: %v)", e.BlobHandle, len(buf), servedStale)
				}
				st.Class("probe:LoadBlob-after-wrong-listing=correct-bytes")
			}
		}
	}
}
