package repository

// Property C13: lock holders stop before their lock can be considered stale.
//
// One lock holder runs for up to 3 virtual hours inside a testing/synctest bubble with
// the production time constants. Its backend is wired the way global.OpenRepository
// wires one:   store -> sema -> logger -> [fault layer] -> retry(15 min) -> repository
// (the fault layer sits where BackendInnerTestHook sits). A timeline drawn by rapid
// before the bubble is entered makes lock-file Save/List/Remove fail, fail permanently
// or hang during windows, and lets "others" remove the holder's lock files at given
// instants. A workload goroutine saves a pack file every virtual minute with the lock
// context. The recorded history is checked against the four invariants of the property.

import (
	"context"
	"encoding/json"
	"errors"
	"fmt"
	"hash"
	"io"
	"runtime"
	"sort"
	"strings"
	"sync"
	"testing"
	"testing/synctest"
	"time"

	"github.com/restic/restic/internal/backend"
	belogger "github.com/restic/restic/internal/backend/logger"
	"github.com/restic/restic/internal/backend/mem"
	"github.com/restic/restic/internal/backend/retry"
	"github.com/restic/restic/internal/backend/sema"
	"github.com/restic/restic/internal/restic"
	"github.com/restic/restic/internal/verifkit"
	"pgregory.net/rapid"
)

var (
	errNotFoundC13  = errors.New("c13: file does not exist")
	errInjectedC13  = errors.New("c13: injected transient backend error")
	errTimeoutC13   = errors.New("c13: injected request timeout")
	errPermanentC13 = errors.New("c13: injected permanent backend error")
)

const (
	hangCapC13     = 5 * time.Minute // a hanging request times out after this long
	knownKeyC13    = "C13:refresh-blocked-in-retry"
	deadlockKeyC13 = "C13:refresh-monitor-deadlock"
	slowKeyC13     = "C13:monitor-counts-from-refresh-completion"
	monitorDueC13  = 22*time.Minute + 30*time.Second // production refreshabilityTimeout (deliberately not read from lockerInst)
	staleAfterC13  = 30 * time.Minute                // == staleLockTimeout (asserted in the test)
	workloadGapC13 = time.Minute
)

// ---------------------------------------------------------------- base repository

var (
	baseOnceC13 sync.Once
	baseRepC13  *Repository
)

func baseRepoC13(t testing.TB) {
	baseOnceC13.Do(func() {
		repo, _ := TestRepositoryWithBackend(t, mem.New(), 0, Options{})
		// shared zstd coders, initialised outside any bubble (see C12)
		if _, err := repo.getZstdDecoder().DecodeAll(repo.getZstdEncoder().EncodeAll([]byte("warm-up"), nil), nil); err != nil {
			t.Fatal(err)
		}
		baseRepC13 = repo
	})
}

func decodeLockC13(buf []byte) (Lock, error) {
	var lock Lock
	key := baseRepC13.key
	if len(buf) < key.NonceSize() {
		return lock, errors.New("too short")
	}
	buf = append([]byte(nil), buf...)
	nonce, ct := buf[:key.NonceSize()], buf[key.NonceSize():]
	pt, err := key.Open(ct[:0], nonce, ct, nil)
	if err != nil {
		return lock, err
	}
	pt, err = baseRepC13.decompressUnpacked(pt)
	if err != nil {
		return lock, err
	}
	return lock, json.Unmarshal(pt, &lock)
}

// ---------------------------------------------------------------- scenario

type vWindowC13 struct {
	Op      string // save list remove
	Mode    string // fail permfail hang
	From    time.Duration
	Dur     time.Duration
	Latency time.Duration // time a failing request takes
}

func (w vWindowC13) covers(t time.Duration) bool { return t >= w.From && t < w.From+w.Dur }

type vOthersC13 struct {
	At        time.Duration
	StaleOnly bool // like `restic unlock` (only lock files older than 30 min) or like `unlock --remove-all`
}

type vScenarioC13 struct {
	Excl    bool
	Finish  time.Duration
	Windows []vWindowC13
	Others  []vOthersC13
	// workload: Savers goroutines save one pack per virtual minute each. In the contended
	// class there are more savers than backend connections and every SlowEvery-th upload
	// is slow: it keeps its connection until the next release event (every ReleaseEvery),
	// so the other savers queue for a connection inside the sema layer.
	Conns        int
	Savers       int
	SlowEvery    int
	ReleaseEvery time.Duration
	// FinishInStale > 0: the holder finishes (Unlock) that long after the first lock file it
	// writes during a forced refresh of its stale lock - i.e. inside refreshStaleLock, between
	// the creation of the replacement lock and its adoption (whichever of this and Finish comes first)
	FinishInStale time.Duration `json:",omitempty"`
}

var (
	finishC13 = []time.Duration{12 * time.Minute, 27 * time.Minute, 40 * time.Minute, 65 * time.Minute, 100 * time.Minute, 170 * time.Minute}
	// window starts: shortly before / after refresh ticks, monitor deadline, stale deadline
	fromC13 = []time.Duration{3 * time.Second, 3 * time.Minute, 4*time.Minute + 59*time.Second, 5*time.Minute + time.Second, 9 * time.Minute, 12 * time.Minute, 14*time.Minute + 50*time.Second,
		19 * time.Minute, 22 * time.Minute, 22*time.Minute + 40*time.Second, 24 * time.Minute, 28 * time.Minute, 33 * time.Minute, 47 * time.Minute, 61 * time.Minute, 95 * time.Minute}
	durC13 = []time.Duration{10 * time.Second, 2 * time.Minute, 6 * time.Minute, 11 * time.Minute, 14 * time.Minute, 16 * time.Minute, 21 * time.Minute, 31 * time.Minute, 46 * time.Minute, 70 * time.Minute, 3 * time.Hour}
)

func genScenarioC13(t *rapid.T) vScenarioC13 {
	sc := vScenarioC13{
		Excl:   rapid.Bool().Draw(t, "excl"),
		Finish: rapid.SampledFrom(finishC13).Draw(t, "finish"),
	}
	nw := rapid.IntRange(0, 4).Draw(t, "windows")
	for i := 0; i < nw; i++ {
		w := vWindowC13{
			Op:   rapid.SampledFrom([]string{"save", "save", "save", "list", "remove"}).Draw(t, "op"),
			Mode: rapid.SampledFrom([]string{"fail", "fail", "fail", "permfail", "hang"}).Draw(t, "mode"),
			Dur:  rapid.SampledFrom(durC13).Draw(t, "dur"),
		}
		if rapid.Bool().Draw(t, "aligned") {
			w.From = rapid.SampledFrom(fromC13).Draw(t, "from")
		} else {
			w.From = time.Duration(rapid.IntRange(2, 150*60).Draw(t, "fromSec")) * time.Second
		}
		if w.Mode == "fail" {
			w.Latency = rapid.SampledFrom([]time.Duration{0, 0, 2 * time.Second, 30 * time.Second}).Draw(t, "latency")
		}
		sc.Windows = append(sc.Windows, w)
	}
	no := rapid.SampledFrom([]int{0, 0, 0, 1, 1, 2}).Draw(t, "others")
	for i := 0; i < no; i++ {
		o := vOthersC13{StaleOnly: rapid.Bool().Draw(t, "staleOnly")}
		if rapid.Bool().Draw(t, "aligned") {
			// around refreshes (every 5 min) and the forced refresh of a starved holder
			o.At = rapid.SampledFrom([]time.Duration{5*time.Minute + 100*time.Millisecond, 5*time.Minute + 300*time.Millisecond, 22*time.Minute + 30*time.Second + 100*time.Millisecond,
				22*time.Minute + 30*time.Second + 300*time.Millisecond, 31 * time.Minute, 36 * time.Minute, 50 * time.Minute}).Draw(t, "at")
		} else {
			o.At = time.Duration(rapid.IntRange(1000, 160*60*1000).Draw(t, "atMs")) * time.Millisecond
		}
		sc.Others = append(sc.Others, o)
	}
	sort.Slice(sc.Others, func(i, j int) bool { return sc.Others[i].At < sc.Others[j].At })
	sc.Conns, sc.Savers = 2, 1
	if rapid.Bool().Draw(t, "contended") {
		sc.Conns = rapid.IntRange(1, 2).Draw(t, "conns")
		sc.Savers = rapid.IntRange(3, 6).Draw(t, "savers")
		sc.SlowEvery = rapid.IntRange(1, 3).Draw(t, "slowEvery")
		sc.ReleaseEvery = rapid.SampledFrom([]time.Duration{20 * time.Second, 45 * time.Second, 90 * time.Second, 4 * time.Minute}).Draw(t, "releaseEvery")
	}
	if rapid.IntRange(0, 2).Draw(t, "finishInStale") == 0 {
		sc.FinishInStale = time.Duration(rapid.IntRange(1, 400).Draw(t, "finishInStaleMs")) * time.Millisecond
	}
	return sc
}

// ---------------------------------------------------------------- history

type vWriteC13 struct {
	landed   time.Duration
	lockTime time.Duration // the Time field of the lock file, relative to start
	name     string
}

type vAttemptC13 struct {
	op      string
	name    string
	at      time.Duration
	until   time.Duration
	outcome string // ok fail permfail hang-timeout hang-ok error
}

type vCallC13 struct { // one lock-file call as the repository sees it (above the retry layer)
	op         string
	name       string
	start, end time.Duration
	done       bool
	err        error
}

type vHistC13 struct {
	mu    sync.Mutex
	start time.Time
	sc    *vScenarioC13

	lockCtx    context.Context // set once LockRepo returned
	acquiredAt time.Duration
	finishing  bool
	finishAt   time.Duration
	cancelAt   time.Duration
	cancelled  bool

	files    map[backend.Handle][]byte
	lockTime map[string]time.Duration // live lock files of the holder
	expected map[string]bool          // E': holder's lock files minus those the holder itself (tried to) remove

	writes   []vWriteC13
	attempts []vAttemptC13
	calls    []*vCallC13

	// freeze bookkeeping
	gateClosed bool          // non-lock operations are held above the sema layer
	frozen     bool          // between Freeze and Unfreeze of the sema layer
	thawed     chan struct{} // closed when the gate reopens
	inflight   int           // non-lock operations between the fault layer and their return
	inStore    int           // ... of which inside the store
	parked     []chan struct{}
	slowNames  map[string]bool
	changed    chan struct{} // closed and replaced whenever the counters change
	stopped    bool

	staleSave       chan struct{} // closed at the first lock-file save while the backend is frozen (forced stale refresh)
	staleSaveSeen   bool
	removeFaultHit  bool
	othersRemoved   int
	workloadSaves   int
	workloadBlocked int
	staleMutations  int
	violations      []string
	trace           []string
	classes         map[string]bool
}

func (h *vHistC13) now() time.Duration { return time.Since(h.start) }

func (h *vHistC13) logf(format string, args ...any) { // h.mu held
	if len(h.trace) < 3000 {
		h.trace = append(h.trace, fmt.Sprintf("%13v ", h.now())+fmt.Sprintf(format, args...))
	}
}

func (h *vHistC13) active() bool { // h.mu held: holder believes it holds the lock
	return h.lockCtx != nil && h.lockCtx.Err() == nil && !h.finishing
}

func (h *vHistC13) violate(format string, args ...any) { // h.mu held
	msg := fmt.Sprintf("at +%v: ", h.now()) + fmt.Sprintf(format, args...)
	h.violations = append(h.violations, msg)
	h.logf("VIOLATION %s", msg)
}

// ---------------------------------------------------------------- innermost store

type vStoreC13 struct{ h *vHistC13 }

var _ backend.Backend = &vStoreC13{}

func (s *vStoreC13) Properties() backend.Properties {
	return backend.Properties{Connections: uint(s.h.sc.Conns), HasAtomicReplace: false}
}

func (h *vHistC13) bump() { // h.mu held
	close(h.changed)
	h.changed = make(chan struct{})
}

// releaseSlow lets the n oldest slow uploads finish (they hand back their connection). h.mu held.
func (h *vHistC13) releaseSlow(n int) {
	for ; n > 0 && len(h.parked) > 0; n-- {
		close(h.parked[0])
		h.parked = h.parked[1:]
	}
	h.bump()
}
func (s *vStoreC13) Hasher() hash.Hash                                  { return nil }
func (s *vStoreC13) Close() error                                       { return nil }
func (s *vStoreC13) IsNotExist(err error) bool                          { return errors.Is(err, errNotFoundC13) }
func (s *vStoreC13) IsPermanentError(err error) bool                    { return errors.Is(err, errNotFoundC13) }
func (s *vStoreC13) Delete(context.Context) error                       { return errors.New("c13: not supported") }
func (s *vStoreC13) WarmupWait(context.Context, []backend.Handle) error { return nil }
func (s *vStoreC13) Warmup(context.Context, []backend.Handle) ([]backend.Handle, error) {
	return nil, nil
}

func (s *vStoreC13) Save(ctx context.Context, hd backend.Handle, rd backend.RewindReader) error {
	buf, err := io.ReadAll(rd)
	if err != nil {
		return err
	}
	hd.IsMetadata = false
	h := s.h
	h.mu.Lock()
	defer h.mu.Unlock()
	if _, ok := h.files[hd]; ok {
		return errors.New("c13: file already exists")
	}
	if hd.Type == backend.LockFile && h.frozen && !h.staleSaveSeen && h.staleSave != nil {
		h.staleSaveSeen = true
		close(h.staleSave)
	}
	if hd.Type != backend.LockFile {
		h.inStore++
		h.bump()
		defer func() {
			h.inStore--
			h.bump()
		}()
		// invariant (5): while the backend is frozen for the forced refresh of a stale lock
		// no new non-lock request reaches the backend (requests that were already inside
		// when Freeze was called are fine)
		if h.frozen {
			h.violate("invariant 5: %v arrived at the backend while it was frozen for the forced refresh of the stale lock", hd)
		}
		if h.slowNames[hd.Name] && !h.stopped {
			// slow upload: keeps its connection until the next release event
			ch := make(chan struct{})
			h.parked = append(h.parked, ch)
			h.classes["slow-upload-holds-connection"] = true
			h.bump()
			h.mu.Unlock()
			select {
			case <-ch:
				h.mu.Lock()
			case <-ctx.Done():
				h.mu.Lock()
				// (not while the backend is frozen: the connection this upload hands back
				// would let a queued operation run into the sema layer's mutex, and a mutex
				// wait stops virtual time, which the forced refresh may still need)
				for h.gateClosed {
					thawed := h.thawed
					h.mu.Unlock()
					<-thawed
					h.mu.Lock()
				}
				for i, c := range h.parked {
					if c == ch {
						h.parked = append(h.parked[:i], h.parked[i+1:]...)
						break
					}
				}
				h.bump()
				return ctx.Err() // an upload aborted in flight leaves nothing behind
			}
		}
		// invariant (2): no repository modification once the lock context is cancelled
		if h.lockCtx != nil && h.lockCtx.Err() != nil {
			h.violate("invariant 2: %v was written after the lock context had been cancelled", hd)
		}
		h.files[hd] = buf
		h.workloadSaves++
		// measurement (the harm behind invariant 1): a modification that lands while the
		// holder's newest lock file is already stale and its context is not cancelled
		if h.active() && len(h.writes) > 0 {
			newest := h.writes[0].lockTime
			for _, w := range h.writes {
				if w.lockTime > newest {
					newest = w.lockTime
				}
			}
			if h.now()-newest > staleAfterC13 {
				h.staleMutations++
				h.classes["modification-landed-while-newest-lock-stale"] = true
			}
		}
		return nil
	}
	lock, err := decodeLockC13(buf)
	if err != nil {
		return fmt.Errorf("c13: undecodable lock file: %w", err)
	}
	h.files[hd] = buf
	lt := lock.Time.Sub(h.start)
	h.lockTime[hd.Name] = lt
	h.expected[hd.Name] = true
	h.writes = append(h.writes, vWriteC13{landed: h.now(), lockTime: lt, name: hd.Name})
	h.logf("lock file %s written (time field +%v)", hd.Name[:8], lt)
	return nil
}

func (s *vStoreC13) Load(ctx context.Context, hd backend.Handle, length int, offset int64, fn func(rd io.Reader) error) error {
	hd.IsMetadata = false
	s.h.mu.Lock()
	buf, ok := s.h.files[hd]
	s.h.mu.Unlock()
	if !ok {
		return errNotFoundC13
	}
	if offset > int64(len(buf)) || offset+int64(length) > int64(len(buf)) {
		return errors.New("c13: read beyond end of file")
	}
	buf = buf[offset:]
	if length > 0 {
		buf = buf[:length]
	}
	return fn(strings.NewReader(string(buf)))
}

func (s *vStoreC13) Stat(ctx context.Context, hd backend.Handle) (backend.FileInfo, error) {
	hd.IsMetadata = false
	s.h.mu.Lock()
	defer s.h.mu.Unlock()
	buf, ok := s.h.files[hd]
	if !ok {
		return backend.FileInfo{}, errNotFoundC13
	}
	return backend.FileInfo{Name: hd.Name, Size: int64(len(buf))}, nil
}

func (s *vStoreC13) Remove(ctx context.Context, hd backend.Handle) error {
	hd.IsMetadata = false
	h := s.h
	h.mu.Lock()
	defer h.mu.Unlock()
	_, ok := h.files[hd]
	if hd.Type == backend.LockFile {
		wasExpected := h.expected[hd.Name]
		delete(h.expected, hd.Name)
		delete(h.lockTime, hd.Name)
		h.logf("holder removes lock file %s (exists=%v)", hd.Name[:8], ok)
		// invariant (3): while it holds the lock the holder never removes its last lock
		// file (files removed by others still count: their loss is not the holder's doing)
		if wasExpected && h.active() && len(h.expected) == 0 {
			h.violate("invariant 3: the holder removed lock file %s and is left without any lock file while it still holds the lock", hd.Name[:8])
		}
	}
	if ok && hd.Type == backend.LockFile && h.frozen && len(h.parked) > 0 && h.inflight > h.inStore {
		// The removal of an EXISTING lock file is the last request of a forced refresh
		// (adopting or discarding the replacement lock); nothing after it needs virtual time
		// to pass before Unfreeze. (The retry layer's clean-up Remove after a failed Save
		// names a file that does not exist.)
		// Let the slow uploads finish now, so that their connections become available to
		// the operations queued inside the sema layer while the backend is still frozen,
		// and give those goroutines a chance to run.
		h.classes["connection-released-during-forced-refresh"] = true
		h.logf("slow uploads finish while the backend is frozen (%d operations queued for a connection)", h.inflight-h.inStore)
		h.releaseSlow(len(h.parked))
		h.mu.Unlock()
		for i := 0; i < 1000; i++ {
			runtime.Gosched()
		}
		h.mu.Lock()
	}
	if !ok {
		return errNotFoundC13
	}
	delete(h.files, hd)
	return nil
}

func (s *vStoreC13) List(ctx context.Context, t backend.FileType, fn func(backend.FileInfo) error) error {
	s.h.mu.Lock()
	var out []backend.FileInfo
	for hd, buf := range s.h.files {
		if hd.Type == t {
			out = append(out, backend.FileInfo{Name: hd.Name, Size: int64(len(buf))})
		}
	}
	s.h.mu.Unlock()
	sort.Slice(out, func(i, j int) bool { return out[i].Name < out[j].Name })
	for _, fi := range out {
		if ctx.Err() != nil {
			return ctx.Err()
		}
		if err := fn(fi); err != nil {
			return err
		}
	}
	return ctx.Err()
}

// removeByOthers is another client deleting the holder's lock files directly.
func (h *vHistC13) removeByOthers(staleOnly bool) {
	h.mu.Lock()
	defer h.mu.Unlock()
	now := h.now()
	for name, lt := range h.lockTime {
		if staleOnly && now-lt <= staleAfterC13 {
			continue
		}
		delete(h.files, backend.Handle{Type: backend.LockFile, Name: name})
		delete(h.lockTime, name)
		h.othersRemoved++
		h.logf("OTHERS remove lock file %s (age %v, staleOnly=%v)", name[:8], now-lt, staleOnly)
		if h.active() {
			h.classes["others-removed-lock-of-active-holder"] = true
			if now-lt > staleAfterC13 {
				h.classes["others-removed-STALE-lock-of-active-holder"] = true
			}
		}
	}
}

// ---------------------------------------------------------------- fault layer (BackendInnerTestHook position)

type vFaultC13 struct {
	backend.Backend
	h *vHistC13
}

func (f *vFaultC13) Unwrap() backend.Backend { return f.Backend }
func (f *vFaultC13) IsPermanentError(err error) bool {
	return errors.Is(err, errPermanentC13) || f.Backend.IsPermanentError(err)
}

// Freeze/Unfreeze. The sema layer below implements the freeze with a sync.Mutex, and a
// goroutine waiting for a mutex is not durably blocked for synctest (virtual time would
// stop). This layer therefore
//   - holds NEW non-lock operations on a channel while the backend is frozen (they would
//     wait inside the sema layer anyway) and lets them run into the real layer afterwards,
//     which still performs its own barrier and context check;
//   - calls the real Freeze only in a settled state: every non-lock operation that passed
//     this layer earlier is either a slow upload occupying a connection inside the store or
//     is queued for a connection inside the sema layer (durably, on its semaphore channel).
//
// While frozen, connections are handed back only at the very end of the forced refresh
// (see vStoreC13.Remove), when nothing needs virtual time any more.
func (f *vFaultC13) Freeze() {
	h := f.h
	h.mu.Lock()
	h.gateClosed = true
	h.thawed = make(chan struct{})
	for !(h.inStore == len(h.parked) && (h.inflight == h.inStore || len(h.parked) >= h.sc.Conns)) {
		ch := h.changed
		h.mu.Unlock()
		<-ch
		h.mu.Lock()
	}
	h.mu.Unlock()
	for i := 0; i < 50; i++ {
		runtime.Gosched() // let operations that are about to queue reach the semaphore
	}
	h.mu.Lock()
	h.frozen = true
	h.classes["backend-frozen"] = true
	if q := h.inflight - h.inStore; q > 0 {
		h.classes["queued-behind-busy-slots-during-forced-refresh"] = true
		h.logf("backend frozen (%d operations queued for a connection, %d slow uploads in progress)", q, len(h.parked))
	} else {
		h.logf("backend frozen")
	}
	h.mu.Unlock()
	backend.AsBackend[backend.FreezeBackend](f.Backend).Freeze()
}

func (f *vFaultC13) Unfreeze() {
	h := f.h
	h.mu.Lock()
	h.frozen = false
	h.logf("backend unfrozen")
	h.mu.Unlock()
	backend.AsBackend[backend.FreezeBackend](f.Backend).Unfreeze()
	h.mu.Lock()
	h.gateClosed = false
	close(h.thawed)
	h.mu.Unlock()
}

func (f *vFaultC13) enterNonLock() {
	h := f.h
	h.mu.Lock()
	blocked := false
	for h.gateClosed {
		ch := h.thawed
		if !blocked {
			blocked = true
			h.workloadBlocked++
			h.classes["workload-blocked-by-freeze"] = true
		}
		h.mu.Unlock()
		<-ch
		h.mu.Lock()
	}
	h.inflight++
	h.bump()
	h.mu.Unlock()
}

func (f *vFaultC13) leaveNonLock() {
	h := f.h
	h.mu.Lock()
	h.inflight--
	h.bump()
	h.mu.Unlock()
}

// inject applies the fault timeline to one lock-file request.
func (f *vFaultC13) inject(ctx context.Context, op, name string) error {
	h := f.h
	at := h.now()
	var win *vWindowC13
	for i := range h.sc.Windows {
		if w := &h.sc.Windows[i]; w.Op == op && w.covers(at) {
			win = w
			break
		}
	}
	rec := func(outcome string) {
		h.mu.Lock()
		h.attempts = append(h.attempts, vAttemptC13{op: op, name: name, at: at, until: h.now(), outcome: outcome})
		if outcome != "ok" {
			h.logf("%s %s: %s", op, short(name), outcome)
			if op == "remove" {
				h.removeFaultHit = true
			}
		}
		h.mu.Unlock()
	}
	if win == nil {
		rec("ok")
		return nil
	}
	wait := func(d time.Duration) error {
		if d <= 0 {
			return nil
		}
		timer := time.NewTimer(d)
		defer timer.Stop()
		select {
		case <-timer.C:
			return nil
		case <-ctx.Done():
			return ctx.Err()
		}
	}
	switch win.Mode {
	case "permfail":
		rec("permfail")
		return errPermanentC13
	case "hang":
		left := win.From + win.Dur - at
		if left > hangCapC13 {
			if err := wait(hangCapC13); err != nil {
				rec("hang-cancelled")
				return err
			}
			rec("hang-timeout")
			return errTimeoutC13
		}
		if err := wait(left); err != nil {
			rec("hang-cancelled")
			return err
		}
		rec("hang-ok")
		return nil
	default:
		if err := wait(win.Latency); err != nil {
			rec("fail-cancelled")
			return err
		}
		rec("fail")
		return errInjectedC13
	}
}

func short(name string) string {
	if len(name) > 8 {
		return name[:8]
	}
	return name
}

func (f *vFaultC13) Save(ctx context.Context, hd backend.Handle, rd backend.RewindReader) error {
	if hd.Type != backend.LockFile {
		f.enterNonLock()
		defer f.leaveNonLock()
		return f.Backend.Save(ctx, hd, rd)
	}
	if err := f.inject(ctx, "save", hd.Name); err != nil {
		return err
	}
	return f.Backend.Save(ctx, hd, rd)
}

func (f *vFaultC13) Remove(ctx context.Context, hd backend.Handle) error {
	if hd.Type != backend.LockFile {
		f.enterNonLock()
		defer f.leaveNonLock()
		return f.Backend.Remove(ctx, hd)
	}
	if err := f.inject(ctx, "remove", hd.Name); err != nil {
		return err
	}
	return f.Backend.Remove(ctx, hd)
}

func (f *vFaultC13) List(ctx context.Context, t backend.FileType, fn func(backend.FileInfo) error) error {
	if t != backend.LockFile {
		f.enterNonLock()
		defer f.leaveNonLock()
		return f.Backend.List(ctx, t, fn)
	}
	if err := f.inject(ctx, "list", ""); err != nil {
		return err
	}
	return f.Backend.List(ctx, t, fn)
}

// ---------------------------------------------------------------- observer above the retry layer (BackendTestHook position)

type vObserverC13 struct {
	backend.Backend
	h *vHistC13
}

func (o *vObserverC13) Unwrap() backend.Backend { return o.Backend }

func (o *vObserverC13) begin(op, name string) *vCallC13 {
	o.h.mu.Lock()
	defer o.h.mu.Unlock()
	c := &vCallC13{op: op, name: name, start: o.h.now()}
	o.h.calls = append(o.h.calls, c)
	return c
}

func (o *vObserverC13) finish(c *vCallC13, err error) {
	o.h.mu.Lock()
	defer o.h.mu.Unlock()
	c.end, c.done, c.err = o.h.now(), true, err
	if d := c.end - c.start; d >= time.Minute {
		o.h.logf("%s %s returned after %v: %v", c.op, short(c.name), d, err)
	}
}

func (o *vObserverC13) Save(ctx context.Context, hd backend.Handle, rd backend.RewindReader) error {
	if hd.Type != backend.LockFile {
		return o.Backend.Save(ctx, hd, rd)
	}
	c := o.begin("save", hd.Name)
	err := o.Backend.Save(ctx, hd, rd)
	o.finish(c, err)
	return err
}

func (o *vObserverC13) List(ctx context.Context, t backend.FileType, fn func(backend.FileInfo) error) error {
	if t != backend.LockFile {
		return o.Backend.List(ctx, t, fn)
	}
	c := o.begin("list", "")
	err := o.Backend.List(ctx, t, fn)
	o.finish(c, err)
	return err
}

func (o *vObserverC13) Remove(ctx context.Context, hd backend.Handle) error {
	if hd.Type != backend.LockFile {
		return o.Backend.Remove(ctx, hd)
	}
	c := o.begin("remove", hd.Name)
	err := o.Backend.Remove(ctx, hd)
	o.finish(c, err)
	return err
}

// ---------------------------------------------------------------- running one scenario

type vResultC13 struct {
	h          *vHistC13
	acquireErr error
	inv1       []vInv1C13
	end        time.Duration
}

// vInv1C13 is one interval in which the holder, not yet cancelled, had no lock file
// younger than the stale timeout.
type vInv1C13 struct {
	staleAt  time.Duration // instant at which its newest lock file turned stale
	until    time.Duration // next fresh lock file landed / context cancelled / finished
	how      string
	known    bool   // shape "refresh blocked in backend retry"
	stuckOp  string // the call that was stuck at staleAt
	stuckFor time.Duration
	deadlock bool // shape "refresh and monitor goroutines deadlocked"
	silence  time.Duration
	slow     bool // shape "monitor deadline counted from the completion of a slow refresh"
	took     time.Duration
}

// vRefreshC13 is one lock write together with what the expiry monitor learned about it.
type vRefreshC13 struct {
	name     string
	start    time.Duration // Save call began (== Time field of the lock file)
	landed   time.Duration
	notified bool          // the refresh succeeded as a whole (replacement saved, old file removed)
	notify   time.Duration // ... at this instant the monitor restarted its 22.5 min countdown
}

// refreshes reconstructs the refresh attempts that wrote a lock file. h.mu held.
func (h *vHistC13) refreshes() []vRefreshC13 {
	var out []vRefreshC13
	for i, c := range h.calls {
		if c.op != "save" || !c.done || c.err != nil {
			continue
		}
		r := vRefreshC13{name: c.name, start: c.start, landed: c.end}
		if len(out) == 0 {
			// acquisition: the monitor starts counting when LockRepo returns
			r.notified, r.notify = true, h.acquiredAt
		} else {
			for _, n := range h.calls[i+1:] {
				if n.op != "remove" {
					continue
				}
				// the next removal the holder issues is that of the old lock file (success)
				// or that of the replacement itself (forced refresh given up)
				if n.name != c.name && n.done && n.err == nil {
					r.notified, r.notify = true, n.end
				}
				break
			}
		}
		out = append(out, r)
	}
	return out
}

func runScenarioC13(t *testing.T, sc *vScenarioC13) *vResultC13 {
	res := &vResultC13{}
	if sc.Conns == 0 {
		sc.Conns, sc.Savers = 2, 1
	}
	synctest.Test(t, func(t *testing.T) {
		h := &vHistC13{start: time.Now(), sc: sc, files: map[backend.Handle][]byte{}, lockTime: map[string]time.Duration{},
			expected: map[string]bool{}, classes: map[string]bool{}, slowNames: map[string]bool{}, changed: make(chan struct{}), staleSave: make(chan struct{})}
		res.h = h

		// production wiring (global.wrapBackend): sema -> logger -> inner hook -> retry -> outer hook
		var be backend.Backend = &vStoreC13{h: h}
		be = belogger.New(sema.NewBackend(be))
		be = &vFaultC13{Backend: be, h: h}
		be = retry.New(be, 15*time.Minute, nil, nil)
		be = &vObserverC13{Backend: be, h: h}

		repo, err := New(be, Options{})
		if err != nil {
			panic(err)
		}
		repo.key, repo.keyID = baseRepC13.key, baseRepC13.keyID
		repo.setConfig(baseRepC13.cfg)
		repo.allocEnc.Do(func() { repo.enc = baseRepC13.enc })
		repo.allocDec.Do(func() { repo.dec = baseRepC13.dec })

		logf := func(format string, args ...any) {
			h.mu.Lock()
			h.logf("restic: "+strings.TrimSpace(format), args...)
			h.mu.Unlock()
		}
		unlock, lctx, err := LockRepo(context.Background(), repo, sc.Excl, 0, func(string) {}, logf)
		if err != nil {
			res.acquireErr = err
			return
		}
		h.mu.Lock()
		h.lockCtx, h.acquiredAt = lctx, h.now()
		h.logf("LockRepo succeeded")
		h.mu.Unlock()

		stop := make(chan struct{})
		var wg sync.WaitGroup

		// records the instant of cancellation
		wg.Add(1)
		go func() {
			defer wg.Done()
			<-lctx.Done()
			h.mu.Lock()
			if !h.finishing {
				h.cancelled, h.cancelAt = true, h.now()
				h.logf("lock context CANCELLED")
			}
			h.mu.Unlock()
		}()

		// workload: every saver issues one repository modification per virtual minute with
		// the lock context; it stops when the backend refuses because the context is cancelled
		for j := 0; j < sc.Savers; j++ {
			wg.Add(1)
			go func(j int) {
				defer wg.Done()
				time.Sleep(time.Duration(j) * 7 * time.Second)
				for i := 0; ; i++ {
					timer := time.NewTimer(workloadGapC13)
					select {
					case <-stop:
						timer.Stop()
						return
					case <-timer.C:
					}
					data := []byte(fmt.Sprintf("pack %d/%d", j, i))
					hd := backend.Handle{Type: backend.PackFile, Name: restic.Hash(data).String()}
					if sc.SlowEvery > 0 && (i+j)%sc.SlowEvery == 0 {
						h.mu.Lock()
						h.slowNames[hd.Name] = true
						h.mu.Unlock()
					}
					err := repo.be.Save(lctx, hd, backend.NewByteReader(data, repo.be.Hasher()))
					if err != nil && lctx.Err() != nil {
						return
					}
				}
			}(j)
		}
		// release events: the oldest slow upload finishes (never while the backend is frozen)
		if sc.ReleaseEvery > 0 {
			wg.Add(1)
			go func() {
				defer wg.Done()
				for {
					timer := time.NewTimer(sc.ReleaseEvery)
					select {
					case <-stop:
						timer.Stop()
						return
					case <-timer.C:
					}
					h.mu.Lock()
					if !h.gateClosed && !h.frozen {
						h.releaseSlow(1)
					}
					h.mu.Unlock()
				}
			}()
		}

		// other clients removing lock files
		wg.Add(1)
		go func() {
			defer wg.Done()
			for _, o := range sc.Others {
				timer := time.NewTimer(o.At - h.now())
				select {
				case <-stop:
					timer.Stop()
					return
				case <-timer.C:
				}
				h.removeByOthers(o.StaleOnly)
			}
		}()

		timer := time.NewTimer(sc.Finish - h.now())
		var inStale <-chan struct{}
		if sc.FinishInStale > 0 {
			inStale = h.staleSave
		}
		select {
		case <-timer.C:
			h.mu.Lock()
			if lctx.Err() == nil {
				h.finishing, h.finishAt = true, h.now()
				h.logf("holder finishes normally")
			}
			h.mu.Unlock()
		case <-inStale:
			timer.Stop()
			time.Sleep(sc.FinishInStale)
			h.mu.Lock()
			if lctx.Err() == nil {
				h.finishing, h.finishAt = true, h.now()
				h.classes["finish-inside-forced-stale-refresh"] = true
				h.logf("holder finishes %v after the replacement lock of the forced stale refresh was written", sc.FinishInStale)
			}
			h.mu.Unlock()
		case <-lctx.Done():
			timer.Stop()
		}
		unlock()
		h.mu.Lock()
		h.stopped = true
		h.releaseSlow(len(h.parked))
		h.mu.Unlock()
		close(stop)
		wg.Wait()
		synctest.Wait()

		h.mu.Lock()
		defer h.mu.Unlock()
		res.end = h.now()
		h.logf("unlock returned")
		// invariant (4): when the holder is done its lock file is gone (provided no removal
		// of a lock file was disturbed by an injected fault)
		if !h.removeFaultHit && len(h.lockTime) > 0 {
			var names []string
			for n, lt := range h.lockTime {
				names = append(names, fmt.Sprintf("%s(time +%v)", n[:8], lt))
			}
			sort.Strings(names)
			h.violate("invariant 4: lock files left behind after Unlock although no lock-file removal was disturbed: %v", names)
		}
		res.inv1 = h.checkInv1()
	})
	return res
}

// checkInv1 evaluates invariant (1) over the recorded history: at every instant before
// cancellation / normal finish the newest lock file the holder has successfully
// written is not older than the stale timeout. h.mu held.
func (h *vHistC13) checkInv1() []vInv1C13 {
	var out []vInv1C13
	if len(h.writes) == 0 {
		return nil
	}
	end, how := h.now(), "end of run"
	switch {
	case h.cancelled:
		end, how = h.cancelAt, "context cancelled"
	case h.finishing:
		end, how = h.finishAt, "normal finish"
	}
	newest := h.writes[0].lockTime
	newestW := h.writes[0]
	check := func(t time.Duration, how string) {
		if t-newest > staleAfterC13 {
			v := vInv1C13{staleAt: newest + staleAfterC13, until: t, how: how}
			h.classifyInv1(&v)
			if !v.known {
				h.classifyMonitor(&v, newestW)
			}
			out = append(out, v)
		}
	}
	for _, w := range h.writes[1:] {
		if w.landed > end {
			break
		}
		check(w.landed, "next lock file landed")
		if w.lockTime > newest {
			newest, newestW = w.lockTime, w
		}
	}
	check(end, how)
	return out
}

// classifyInv1 recognises the shape of the listed finding: at the instant the newest
// lock file turned stale, the refresh path was inside a lock-file call (Save or Remove of
// a refresh, List or Save of a forced refresh) in the retry layer, and every request of that call up to that instant was refused or
// kept hanging by an injected fault window.
func (h *vHistC13) classifyInv1(v *vInv1C13) {
	for _, c := range h.calls {
		if c.start >= v.staleAt || (c.done && c.end < v.staleAt) {
			continue
		}
		n, bad := 0, 0
		for _, a := range h.attempts {
			if a.op != c.op || a.name != c.name || a.at < c.start || a.at > v.staleAt || (c.done && a.at > c.end) {
				continue
			}
			n++
			switch a.outcome {
			case "fail", "permfail", "hang-timeout":
				// (a permanently failing Save keeps the call busy when the retry layer's
				// clean-up Remove of the partial file hangs)
			case "hang-ok", "hang-cancelled", "fail-cancelled":
				if a.until < v.staleAt {
					bad++
				}
			default:
				bad++
			}
		}
		if n > 0 && bad == 0 {
			v.known = true
			v.stuckOp = c.op
			v.stuckFor = v.staleAt - c.start
			return
		}
	}
}

// classifyMonitor recognises the two listed findings in which nothing is in progress
// at the stale instant. Let R be the refresh that wrote the holder's newest lock file w
// and N the instant it completed as a whole (replacement saved and old file removed);
// only then does the expiry monitor restart its 22.5 min countdown - from N, not from
// the lock file's time stamp.
//
// refresh-monitor-deadlock: R was still running when the monitor's previous deadline
// passed (the monitor is then blocked handing over a forced-refresh request), R
// succeeded (the refresh goroutine is then blocked reporting that), and from N on the
// holder issued no lock-file request at all.
//
// monitor-counts-from-refresh-completion: R took longer than the 7.5 min margin, so the
// monitor's deadline N + 22.5 min lies behind the instant w turns stale, and w turned
// stale before that deadline.
func (h *vHistC13) classifyMonitor(v *vInv1C13, w vWriteC13) {
	for _, c := range h.calls {
		if c.start < v.staleAt && (!c.done || c.end >= v.staleAt) {
			return // something is in progress at the stale instant: neither shape
		}
	}
	rs := h.refreshes()
	var r *vRefreshC13
	prevNotify := time.Duration(0)
	for i := range rs {
		if rs[i].name == w.name {
			r = &rs[i]
			break
		}
		if rs[i].notified {
			prevNotify = rs[i].notify
		}
	}
	if r == nil || !r.notified {
		return
	}
	silent := true
	for _, a := range h.attempts {
		if a.at > r.notify+time.Second && a.at < v.until {
			silent = false
		}
	}
	switch {
	case silent && v.until > r.notify+monitorDueC13+5*time.Second && r.notify >= prevNotify+monitorDueC13 && r.notify-r.start >= time.Second:
		// not even the monitor acted when its (late) deadline came
		v.deadlock, v.silence = true, v.until-r.notify
	case r.notify-r.start > staleAfterC13-monitorDueC13 && v.staleAt < r.notify+monitorDueC13:
		// (the ticker path is silent by design once the lock is older than 22.5 min: it
		// waits for the monitor, which counts from the completion of the slow refresh)
		v.slow, v.took = true, r.notify-r.start
	}
}

// ---------------------------------------------------------------- the property

func scenarioClassesC13(sc *vScenarioC13) (classes []string, nontrivial bool) {
	for _, w := range sc.Windows {
		if w.From >= sc.Finish {
			continue
		}
		if w.Dur > defaultRefreshInterval {
			nontrivial = true
			classes = append(classes, "window>refresh-interval:"+w.Op+"/"+w.Mode)
		}
		if w.Op == "save" && w.Mode != "permfail" && w.Dur >= staleAfterC13 && w.From < 20*time.Minute && w.From+w.Dur > sc.Finish-time.Minute == false {
			classes = append(classes, "save-window>=30min-early")
		}
		// the class DESIGN section 6 names: lock saves failing for >= 30 min from shortly
		// before a refresh tick on
		toTick := (defaultRefreshInterval - w.From%defaultRefreshInterval) % defaultRefreshInterval
		if w.Op == "save" && w.Mode == "fail" && w.Dur >= staleAfterC13 && toTick <= 2*time.Minute && w.From+staleAfterC13 < sc.Finish {
			classes = append(classes, "save-fails>=30min-from-shortly-before-a-tick")
		}
		if w.Op == "save" && w.Mode == "permfail" && w.Dur >= staleAfterC13 && w.From+staleAfterC13 < sc.Finish {
			classes = append(classes, "save-fails-permanently>=30min")
		}
	}
	for _, o := range sc.Others {
		if o.At < sc.Finish {
			classes = append(classes, "others-remove-event")
			nontrivial = true
			break
		}
	}
	return classes, nontrivial
}

func TestVerifC13LockHolder(t *testing.T) {
	if staleLockTimeout != staleAfterC13 || lockerInst.refreshInterval != 5*time.Minute {
		t.Fatalf("production constants changed: stale timeout %v, refresh interval %v", staleLockTimeout, lockerInst.refreshInterval)
	}
	baseRepoC13(t)
	st := verifkit.Begin(t, "C13")
	rapid.Check(t, func(rt *rapid.T) {
		sc := genScenarioC13(rt)
		res := runScenarioC13(t, &sc)
		checkResultC13(rt, st, &sc, res)
	})
}

func checkResultC13(rt *rapid.T, st *verifkit.Stats, sc *vScenarioC13, res *vResultC13) {
	h := res.h
	if res.acquireErr != nil {
		rt.Fatalf("harness: LockRepo failed although no fault is injected before +2s: %v", res.acquireErr)
	}
	classes, nontrivial := scenarioClassesC13(sc)
	for c := range h.classes {
		classes = append(classes, c)
	}
	if sc.Savers > sc.Conns {
		classes = append(classes, "contended:more-savers-than-connections")
	}
	switch {
	case h.cancelled:
		classes = append(classes, "end:context-cancelled-by-lock-monitor")
		if h.cancelAt < 23*time.Minute+time.Duration(0) {
			classes = append(classes, "cancelled-before-23min")
		}
	case h.finishing:
		classes = append(classes, "end:normal-finish")
	}
	if len(h.writes) > 1 {
		classes = append(classes, "refreshed>=1")
	}
	if h.removeFaultHit {
		classes = append(classes, "remove-disturbed(inv4-not-applicable)")
	} else {
		classes = append(classes, "inv4-applicable")
	}
	starved := false
	for _, c := range h.calls {
		if c.done && c.end-c.start >= 10*time.Minute {
			starved = true
		}
	}
	if starved {
		classes = append(classes, "some-lock-call-in-retry>=10min")
	} else {
		classes = append(classes, "refresh-path-never-starved")
	}
	if len(res.inv1) == 0 {
		classes = append(classes, "inv1-holds")
		if !starved {
			classes = append(classes, "inv1-holds/refresh-path-never-starved")
		}
	}
	key := ""
	if nontrivial {
		key = fmt.Sprintf("%+v", *sc)
	}
	sort.Strings(classes)
	st.Case(key, classes...)
	st.Evals(len(h.attempts))
	if st.WantSample() {
		tr := h.trace
		if len(tr) > 30 {
			tr = tr[:30]
		}
		st.Sample(map[string]any{"scenario": fmt.Sprintf("%+v", *sc), "virtual_duration": res.end.String(), "lock_files_written": len(h.writes),
			"lock_requests": len(h.attempts), "workload_saves": h.workloadSaves, "trace_head": tr})
	}

	fail := func(msg string) {
		rt.Fatalf("C13 violated: %s\nscenario: %+v\ntrace:\n%s", msg, *sc, strings.Join(h.trace, "\n"))
	}
	if len(h.violations) > 0 {
		fail(strings.Join(h.violations, "\n"))
	}
	for _, v := range res.inv1 {
		desc := fmt.Sprintf("invariant 1: the holder's newest lock file turned stale at +%v but the holder went on until +%v (%s) with its context not cancelled",
			v.staleAt, v.until, v.how)
		if v.deadlock {
			if !st.Known(deadlockKeyC13) {
				fail(desc + fmt.Sprintf(" [shape %s: the refresh that wrote the newest lock file finished after the monitor deadline and the holder then issued no lock-file request for %v]",
					deadlockKeyC13, v.silence))
			}
			st.Class("known:refresh-monitor-deadlock")
			continue
		}
		if v.slow {
			if !st.Known(slowKeyC13) {
				fail(desc + fmt.Sprintf(" [shape %s: the refresh that wrote the newest lock file took %v, the monitor counts its 22.5 min from the end of that refresh]", slowKeyC13, v.took))
			}
			st.Class("known:monitor-counts-from-refresh-completion")
			continue
		}
		if !v.known {
			st.Class("inv1-violated/other-shape")
			fail(desc + " - and the refresh path was NOT blocked in an injected lock-file outage at that instant")
		}
		if !st.Known(knownKeyC13) {
			fail(desc + fmt.Sprintf(" [shape %s: at the stale instant a lock-file %s call had been in the retry layer for %v, all its requests refused by the injected outage]",
				knownKeyC13, v.stuckOp, v.stuckFor))
		}
		st.Class("known:refresh-blocked-in-retry/" + v.stuckOp)
	}
}

// Fixed regression probes (no drawn input) for the listed findings and for the repaired
// one: C13:refresh-monitor-deadlock is fixed in /repo (non-blocking refresh notification),
// so its two timelines must satisfy invariant (1) now.
func TestVerifC13KnownShapeProbes(t *testing.T) {
	baseRepoC13(t)
	st := verifkit.Begin(t, "C13")
	probes := []struct {
		name string
		sc   vScenarioC13
	}{
		// DESIGN section 6: lock-file saves fail from +3 min on; stale at +30 min
		{"refresh-blocked-in-retry", vScenarioC13{Finish: 170 * time.Minute,
			Windows: []vWindowC13{{Op: "save", Mode: "fail", From: 3 * time.Minute, Dur: 3 * time.Hour}}}},
		// a lock-file outage from +6 min to +29 min that ends: the refresh started at ~+25 min
		// succeeds at ~+29 min, after the monitor deadline (+5m0.2s + 22.5 min)
		{"refresh-monitor-deadlock", vScenarioC13{Finish: 170 * time.Minute,
			Windows: []vWindowC13{{Op: "save", Mode: "fail", From: 6 * time.Minute, Dur: 23 * time.Minute}}}},
		// the same with the slow part in the removal of the old lock file: the refresh begun
		// at +25m0.2s completes at ~+28.5 min, after the monitor deadline (+27m30s)
		{"refresh-monitor-deadlock-slow-remove", vScenarioC13{Finish: 170 * time.Minute,
			Windows: []vWindowC13{{Op: "remove", Mode: "fail", From: 7 * time.Minute, Dur: 21*time.Minute + 20*time.Second}}}},
		// a refresh whose Save takes 9.5 min (two stuck requests), then lock saves fail for a
		// while: the monitor counts 22.5 min from +14m27s, the lock (time +5m0.2s) is stale at +35m0.2s
		{"monitor-counts-from-refresh-completion", vScenarioC13{Finish: 65 * time.Minute,
			Windows: []vWindowC13{{Op: "save", Mode: "hang", From: 4 * time.Minute, Dur: 10*time.Minute + 27*time.Second},
				{Op: "save", Mode: "fail", From: 14 * time.Minute, Dur: 17 * time.Minute}}}},
		// more savers than connections, every upload slow: lock saves fail permanently until
		// +22 min, the forced refresh at +22.5 min succeeds while uploads queue for the single
		// connection; the connection is handed back while the backend is still frozen
		{"contended-forced-refresh", vScenarioC13{Finish: 40 * time.Minute, Conns: 1, Savers: 4, SlowEvery: 1, ReleaseEvery: 45 * time.Second,
			Windows: []vWindowC13{{Op: "save", Mode: "permfail", From: 3 * time.Minute, Dur: 19 * time.Minute}}}},
		// same outage, but permanent errors (no retry): the refresh path is never starved
		{"permanent-failure-control", vScenarioC13{Finish: 170 * time.Minute,
			Windows: []vWindowC13{{Op: "save", Mode: "permfail", From: 3 * time.Minute, Dur: 3 * time.Hour}}}},
	}
	for _, p := range probes {
		sc := p.sc
		res := runScenarioC13(t, &sc)
		h := res.h
		if res.acquireErr != nil {
			t.Fatalf("probe %s: LockRepo failed: %v", p.name, res.acquireErr)
		}
		outcome := "inv1-holds"
		for _, v := range res.inv1 {
			switch {
			case v.known:
				outcome = "inv1-violated:refresh-blocked-in-retry"
			case v.deadlock:
				outcome = "inv1-violated:refresh-monitor-deadlock"
			case v.slow:
				outcome = "inv1-violated:monitor-counts-from-refresh-completion"
			default:
				outcome = "inv1-violated:other"
			}
		}
		end := "finish"
		if h.cancelled {
			end = fmt.Sprintf("cancelled at +%v", h.cancelAt.Round(time.Minute))
		}
		st.Case(p.name, "probe:"+p.name+":"+outcome)
		for _, c := range []string{"queued-behind-busy-slots-during-forced-refresh", "connection-released-during-forced-refresh"} {
			if h.classes[c] {
				st.Class("probe:" + p.name + ":" + c)
			}
		}
		st.Note("probe "+p.name, outcome+", "+end)
		fail := func(msg string) {
			t.Fatalf("C13 violated (probe %s): %s\nscenario: %+v\ntrace:\n%s", p.name, msg, sc, strings.Join(h.trace, "\n"))
		}
		if len(h.violations) > 0 {
			fail(strings.Join(h.violations, "\n"))
		}
		for _, v := range res.inv1 {
			desc := fmt.Sprintf("invariant 1: the holder's newest lock file turned stale at +%v but the holder went on until +%v (%s) with its context not cancelled", v.staleAt, v.until, v.how)
			switch {
			case v.known && st.Known(knownKeyC13):
				st.Class("known:refresh-blocked-in-retry/" + v.stuckOp)
			case v.deadlock && st.Known(deadlockKeyC13):
				st.Class("known:refresh-monitor-deadlock")
			case v.slow && st.Known(slowKeyC13):
				st.Class("known:monitor-counts-from-refresh-completion")
			default:
				fail(fmt.Sprintf("%s [shape: retry=%v deadlock=%v slow=%v]", desc, v.known, v.deadlock, v.slow))
			}
		}
	}
}
