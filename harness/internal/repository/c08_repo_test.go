package repository

import (
	"context"
	"crypto/sha256"
	"encoding/json"
	"fmt"
	"math"
	"sort"
	"strings"
	"testing"

	"github.com/restic/restic/internal/repository/index"
	"github.com/restic/restic/internal/repository/pack"
	"github.com/restic/restic/internal/restic"
	"github.com/restic/restic/internal/verifkit"
	"pgregory.net/rapid"
)

// C08 at the repository level: index files are written into a real (encrypted,
// for v2 compressed) repository on the mem backend, then Repository.LoadIndex is
// run incrementally on a long-lived Repository and on a freshly opened one, and
// LookupBlob / LookupBlobSize / ListBlobs are compared with the model (the
// entries of the index files currently stored).

type vEntC08r struct {
	bh                restic.BlobHandle
	pack              restic.ID
	off, length, ulen uint
}

func (e vEntC08r) String() string {
	return fmt.Sprintf("%v@%s+%d/%d/%d", e.bh, e.pack.Str(), e.off, e.length, e.ulen)
}

func idC08r(tag string, i int) restic.ID {
	return restic.ID(sha256.Sum256([]byte(fmt.Sprintf("c08r-%s-%d", tag, i))))
}

// handJSONC08r writes the documented index format without restic's encoder.
func handJSONC08r(ents []vEntC08r) []byte {
	type blob struct {
		ID     string `json:"id"`
		Type   string `json:"type"`
		Offset uint   `json:"offset"`
		Length uint   `json:"length"`
		ULen   uint   `json:"uncompressed_length,omitempty"`
	}
	type pk struct {
		ID    string `json:"id"`
		Blobs []blob `json:"blobs"`
	}
	var packs []pk
	pos := map[restic.ID]int{}
	for _, e := range ents {
		i, ok := pos[e.pack]
		if !ok {
			i = len(packs)
			pos[e.pack] = i
			packs = append(packs, pk{ID: e.pack.String()})
		}
		packs[i].Blobs = append(packs[i].Blobs, blob{e.bh.ID.String(), e.bh.Type.String(), e.off, e.length, e.ulen})
	}
	if packs == nil {
		packs = []pk{}
	}
	buf, _ := json.Marshal(map[string]any{"packs": packs})
	return buf
}

func setOfC08r(files map[restic.ID][]vEntC08r) (map[vEntC08r]bool, map[restic.BlobHandle]map[vEntC08r]bool) {
	set := map[vEntC08r]bool{}
	by := map[restic.BlobHandle]map[vEntC08r]bool{}
	for _, ents := range files {
		for _, e := range ents {
			set[e] = true
			if by[e.bh] == nil {
				by[e.bh] = map[vEntC08r]bool{}
			}
			by[e.bh][e] = true
		}
	}
	return set, by
}

func entOfC08r(t *rapid.T, pb restic.PackBlob) vEntC08r {
	p, ok := pb.(*pack.PackedBlob)
	if !ok {
		t.Fatalf("unexpected PackBlob implementation %T", pb)
	}
	e := vEntC08r{p.Blob.BlobHandle, p.Pack, p.Blob.Offset, p.Blob.Length, p.Blob.UncompressedLength}
	if pb.PackID() != e.pack || pb.Handle() != e.bh || pb.CiphertextLength() != e.length {
		t.Fatalf("PackBlob accessors disagree with its fields: %+v", *p)
	}
	return e
}

func checkRepoC08r(t *rapid.T, what string, repo *Repository, files map[restic.ID][]vEntC08r, universe []restic.BlobHandle) map[vEntC08r]int {
	set, by := setOfC08r(files)
	listed := map[vEntC08r]int{}
	err := repo.ListBlobs(context.Background(), func(pb restic.PackBlob) {
		listed[entOfC08r(t, pb)]++
	})
	if err != nil {
		t.Fatalf("%s: ListBlobs: %v", what, err)
	}
	for e := range listed {
		if !set[e] {
			t.Fatalf("%s: ListBlobs yields %v which is in no index file", what, e)
		}
	}
	for e := range set {
		if listed[e] == 0 {
			t.Fatalf("%s: ListBlobs lacks %v", what, e)
		}
	}
	for _, bh := range universe {
		want := by[bh]
		got := map[vEntC08r]bool{}
		for _, pb := range repo.LookupBlob(bh) {
			e := entOfC08r(t, pb)
			if !want[e] {
				t.Fatalf("%s: LookupBlob(%v) returned %v, not recorded in any index file", what, bh, e)
			}
			got[e] = true
		}
		if len(got) != len(want) {
			t.Fatalf("%s: LookupBlob(%v) returned %d of %d recorded locations", what, bh, len(got), len(want))
		}
		size, found := repo.LookupBlobSize(bh)
		if found != (len(want) > 0) {
			t.Fatalf("%s: LookupBlobSize(%v) found=%v, recorded locations %d", what, bh, found, len(want))
		}
		if found {
			ok, decidable := false, true
			for e := range want {
				switch {
				case e.ulen != 0:
					ok = ok || size == e.ulen
				case e.length >= 32:
					ok = ok || size == e.length-32
				default:
					decidable = false
				}
			}
			if !ok && decidable {
				t.Fatalf("%s: LookupBlobSize(%v)=%d fits no recorded location", what, bh, size)
			}
		}
	}
	return listed
}

func TestVerifC08Repository(t *testing.T) {
	st := verifkit.Begin(t, "C08")
	outer := t
	ctx := context.Background()
	rapid.Check(t, func(t *rapid.T) {
		version := uint(rapid.SampledFrom([]int{1, 2, 2}).Draw(t, "version"))
		repo, unpacked, be := TestRepositoryWithVersion(outer, version)

		var universe []restic.BlobHandle
		nb := rapid.IntRange(1, 5).Draw(t, "nblobs")
		for i := 0; i < nb; i++ {
			universe = append(universe, restic.BlobHandle{ID: idC08r("blob", i), Type: rapid.SampledFrom([]restic.BlobType{restic.DataBlob, restic.TreeBlob}).Draw(t, "type")})
		}
		inIndex := len(universe)
		universe = append(universe, restic.BlobHandle{ID: idC08r("absent", 0), Type: restic.DataBlob},
			restic.BlobHandle{ID: universe[0].ID, Type: restic.DataBlob + restic.TreeBlob - universe[0].Type})
		npacks := rapid.IntRange(1, 4).Draw(t, "npacks")
		u32 := func(label string) uint {
			return rapid.OneOf(rapid.SampledFrom([]uint{0, 32, 40, 100, 1 << 31, math.MaxUint32}), rapid.SampledFrom([]uint{40, 100}), rapid.UintRange(0, math.MaxUint32)).Draw(t, label)
		}
		genEnts := func() []vEntC08r {
			n := rapid.IntRange(0, 6).Draw(t, "nents")
			var ents []vEntC08r
			for i := 0; i < n; i++ {
				e := vEntC08r{bh: universe[rapid.IntRange(0, inIndex-1).Draw(t, "bh")], pack: idC08r("pack", rapid.IntRange(0, npacks-1).Draw(t, "pack")),
					off: u32("off"), length: u32("len")}
				if version >= 2 {
					e.ulen = u32("ulen")
				}
				ents = append(ents, e)
			}
			return ents
		}

		files := map[restic.ID][]vEntC08r{}
		sortedIDs := func() restic.IDs {
			ids := make(restic.IDs, 0, len(files))
			for id := range files {
				ids = append(ids, id)
			}
			sort.Sort(ids)
			return ids
		}
		var hist []string
		removed, removalThenIncr, multiLoc := false, false, false
		classes := map[string]bool{fmt.Sprintf("repo-v%d", version): true}

		load := func(incremental bool) {
			what := fmt.Sprintf("v%d repo, %v, fresh", version, hist)
			r := repo
			if incremental {
				what = fmt.Sprintf("v%d repo, %v, incremental", version, hist)
				if removed {
					removalThenIncr = true
					classes["repo-incremental-after-removal"] = true
				}
			} else {
				// a newly opened repository replaces the long-lived one
				repo = TestOpenBackend(outer, be)
				r = repo
				classes["repo-fresh-open"] = true
			}
			removed = false
			if err := r.LoadIndex(ctx, restic.NoopTerminalCounterFactory); err != nil {
				t.Fatalf("%s: LoadIndex: %v", what, err)
			}
			got := checkRepoC08r(t, what, r, files, universe)
			if incremental {
				fresh := TestOpenBackend(outer, be)
				if err := fresh.LoadIndex(ctx, restic.NoopTerminalCounterFactory); err != nil {
					t.Fatalf("%s: LoadIndex (fresh for comparison): %v", what, err)
				}
				fgot := checkRepoC08r(t, what+" (fresh for comparison)", fresh, files, universe)
				for e, n := range got {
					if fgot[e] != n {
						t.Fatalf("%s: %v listed %d times, by a fresh load %d times", what, e, n, fgot[e])
					}
				}
			}
			_, by := setOfC08r(files)
			for _, locs := range by {
				if len(locs) >= 2 {
					multiLoc = true
				}
			}
			hist = append(hist, map[bool]string{true: "iload", false: "fload"}[incremental])
		}

		nops := rapid.IntRange(1, 14).Draw(t, "nops")
		for op := 0; op < nops; op++ {
			switch kind := rapid.IntRange(0, 9).Draw(t, "op"); {
			case kind <= 1: // hand-written file
				ents := genEnts()
				id, err := unpacked.SaveUnpacked(ctx, restic.IndexFile, handJSONC08r(ents))
				if err != nil {
					t.Fatalf("SaveUnpacked: %v", err)
				}
				files[id] = ents
				hist = append(hist, fmt.Sprintf("raw:%x", sha256.Sum256(handJSONC08r(ents)))[:12])
			case kind <= 3: // restic's own writer
				ents := genEnts()
				idx := index.NewIndex()
				for _, e := range ents {
					idx.StorePack(e.pack, pack.Blobs{{BlobHandle: e.bh, Offset: e.off, Length: e.length, UncompressedLength: e.ulen}})
				}
				idx.Finalize()
				if len(ents) == 0 {
					continue
				}
				id, err := idx.SaveIndex(ctx, unpacked)
				if err != nil {
					t.Fatalf("SaveIndex: %v", err)
				}
				files[id] = ents
				hist = append(hist, fmt.Sprintf("save:%x", sha256.Sum256(handJSONC08r(ents)))[:13])
			case kind == 4 && len(files) > 0: // delete
				ids := sortedIDs()
				id := ids[rapid.IntRange(0, len(ids)-1).Draw(t, "victim")]
				if err := unpacked.RemoveUnpacked(ctx, restic.IndexFile, id); err != nil {
					t.Fatalf("RemoveUnpacked: %v", err)
				}
				delete(files, id)
				removed = true
				hist = append(hist, "del")
			case kind == 5 && len(files) >= 2: // supersede two files by one
				ids := sortedIDs()
				i := rapid.IntRange(0, len(ids)-2).Draw(t, "first")
				merged := append(append([]vEntC08r{}, files[ids[i]]...), files[ids[i+1]]...)
				id, err := unpacked.SaveUnpacked(ctx, restic.IndexFile, handJSONC08r(merged))
				if err != nil {
					t.Fatalf("SaveUnpacked: %v", err)
				}
				files[id] = merged
				for _, old := range ids[i : i+2] {
					if err := unpacked.RemoveUnpacked(ctx, restic.IndexFile, old); err != nil {
						t.Fatalf("RemoveUnpacked: %v", err)
					}
					delete(files, old)
				}
				removed = true
				hist = append(hist, "supersede")
			case kind <= 8:
				load(true)
			default:
				load(false)
			}
		}
		load(true)

		var cl []string
		for c := range classes {
			cl = append(cl, c)
		}
		sort.Strings(cl)
		key := ""
		if removalThenIncr && multiLoc {
			key = fmt.Sprintf("repo|v%d|%s|%d", version, strings.Join(hist, ","), len(files))
			cl = append(cl, "repo-nontrivial")
		}
		st.Case(key, cl...)
		st.Evals(len(hist))
	})
}
