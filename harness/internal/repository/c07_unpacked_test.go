package repository

// Property C07: index, snapshot, lock and config files decode to what was saved.
//
// Oracle:
//   * round trip: LoadUnpacked(SaveUnpacked(p)) == p byte for byte, for every payload
//     shape, file type, repository version (1, 2) and compression mode;
//   * the stored object is inspected independently of LoadUnpacked: raw bytes are read
//     from the backend, name == SHA-256(raw) (config: fixed name), raw is decrypted with
//     the master key and the plaintext must be  p  (version 1 and config) or
//     0x02 || zstd frame that a separately constructed decoder expands to p (version 2);
//   * decode rules of doc/design.rst "Unpacked Data Format" on hand-encrypted files:
//     v2: first byte '[' / '{' -> returned raw, 0x02 -> zstd payload, any other first
//     byte -> rejected (even if a valid zstd frame follows); v1 and config: raw.

import (
	"bytes"
	"context"
	"crypto/sha256"
	"encoding/binary"
	"encoding/json"
	"fmt"
	"io"
	"math/rand/v2"
	"testing"

	"github.com/klauspost/compress/zstd"
	"github.com/restic/chunker"
	"github.com/restic/restic/internal/backend"
	"github.com/restic/restic/internal/backend/mem"
	"github.com/restic/restic/internal/restic"
	"github.com/restic/restic/internal/verifkit"
	"pgregory.net/rapid"
)

type repoC07 struct {
	repo     *Repository
	be       backend.Backend
	version  uint
	mode     CompressionMode
	noVerify bool
	name     string
}

var modesC07 = []CompressionMode{CompressionAuto, CompressionOff, CompressionMax, CompressionFastest, CompressionBetter}

// newReposC07 builds one repository per (version, compression mode, extra-verify) on
// mem backends. outer must be the *testing.T (the restic helpers take testing.TB).
func newReposC07(outer *testing.T) []*repoC07 {
	TestUseLowSecurityKDFParameters(outer)
	restic.TestDisableCheckPolynomial(outer)
	var out []*repoC07
	for _, version := range []uint{1, 2} {
		for _, mode := range modesC07 {
			for _, nv := range []bool{false, true} {
				be := mem.New()
				repo, err := New(be, Options{Compression: mode, NoExtraVerify: nv})
				if err != nil {
					outer.Fatalf("New: %v", err)
				}
				pol := chunker.Pol(0x3DA3358B4DC173)
				if err := repo.Init(context.Background(), version, "geheim", &pol); err != nil {
					outer.Fatalf("Init v%d: %v", version, err)
				}
				if repo.Config().Version != version {
					outer.Fatalf("repository version %d, want %d", repo.Config().Version, version)
				}
				m := mode
				out = append(out, &repoC07{repo: repo, be: be, version: version, mode: mode, noVerify: nv,
					name: fmt.Sprintf("v%d/%s/noverify=%v", version, m.String(), nv)})
			}
		}
	}
	return out
}

// drawRepoC07 picks a repository: version 2 three times out of four; the slow encoder
// levels (max, better) get a third of the weight of the others.
func drawRepoC07(t *rapid.T, repos []*repoC07) *repoC07 {
	version := rapid.SampledFrom([]uint{2, 1, 2, 2}).Draw(t, "version")
	mode := rapid.SampledFrom([]CompressionMode{CompressionAuto, CompressionOff, CompressionMax, CompressionFastest, CompressionBetter,
		CompressionFastest, CompressionOff, CompressionAuto, CompressionFastest, CompressionOff, CompressionAuto}).Draw(t, "mode")
	nv := rapid.Bool().Draw(t, "noverify")
	for _, r := range repos {
		if r.version == version && r.mode == mode && r.noVerify == nv {
			return r
		}
	}
	panic("no such repository")
}

func prfBytesC07(seed, stream uint64, n int) []byte {
	r := rand.New(rand.NewPCG(seed, stream))
	b := make([]byte, n)
	for i := 0; i+8 <= n; i += 8 {
		binary.LittleEndian.PutUint64(b[i:], r.Uint64())
	}
	for i := n &^ 7; i < n; i++ {
		b[i] = byte(r.Uint64())
	}
	return b
}

// first bytes that matter for the stored form, each twice, then near misses
var specialFirstC07 = []byte{0x03, 0xff, 0x02, '[', '{', 0x00, 0x02, '[', '{', 0x00, 0x03, 0xff, 0x01, 0x28, ' ', '"', ']', '}', 0x5a, 0x7a, 0x5c, 0x7c}

func isSpecialFirstC07(b byte) bool { return bytes.IndexByte(specialFirstC07[:6], b) >= 0 }

var refEncC07, _ = zstd.NewWriter(nil)
var crcEncC07, _ = zstd.NewWriter(nil, zstd.WithEncoderCRC(true), zstd.WithEncoderLevel(zstd.SpeedFastest))

// genPayloadC07 returns the payload and its shape label.
func genPayloadC07(t *rapid.T) ([]byte, string) {
	kind := rapid.SampledFrom([]string{"empty", "json-object", "json-array", "binary", "compressible", "special-first", "special-first",
		"special-first", "single-byte", "zstd-lookalike"}).Draw(t, "payload")
	size := func() int {
		w := rapid.IntRange(0, 99).Draw(t, "sizeclass")
		switch {
		case w == 50:
			return rapid.IntRange(65537, 1<<20).Draw(t, "size")
		case w >= 90:
			return rapid.IntRange(4097, 65536).Draw(t, "size")
		case w >= 60:
			return rapid.IntRange(65, 4096).Draw(t, "size")
		default:
			return rapid.IntRange(1, 64).Draw(t, "size")
		}
	}
	seed := rapid.Uint64().Draw(t, "pseed")
	compressible := func(n int) []byte {
		unit := prfBytesC07(seed, 2, 1+int(seed%37))
		return bytes.Repeat(unit, n/len(unit)+1)[:n]
	}
	switch kind {
	case "empty":
		return []byte{}, kind
	case "json-object":
		m := map[string]any{"time": "2026-01-02T03:04:05Z", "paths": []string{"/a", "/b"}, "n": seed % 1000,
			"pad": fmt.Sprintf("%x", prfBytesC07(seed, 3, size()/2))}
		b, _ := json.Marshal(m)
		return b, kind
	case "json-array":
		b, _ := json.Marshal([]any{seed, "x", map[string]int{"a": 1}, fmt.Sprintf("%x", prfBytesC07(seed, 3, size()/2))})
		return b, kind
	case "binary":
		return prfBytesC07(seed, 1, size()), kind
	case "compressible":
		return compressible(size()), kind
	case "single-byte":
		return []byte{rapid.SampledFrom(specialFirstC07).Draw(t, "byte")}, kind
	case "zstd-lookalike":
		// payloads that themselves look like stored forms
		inner := compressible(size())
		frame := refEncC07.EncodeAll(inner, nil)
		switch rapid.IntRange(0, 2).Draw(t, "look") {
		case 0:
			return append([]byte{2}, frame...), kind
		case 1:
			return frame, kind // starts with the zstd magic 0x28 b5 2f fd
		default:
			return append([]byte{2}, inner...), kind
		}
	default: // special-first
		var b []byte
		if rapid.Bool().Draw(t, "compr") {
			b = compressible(size())
		} else {
			b = prfBytesC07(seed, 1, size())
		}
		b[0] = rapid.SampledFrom(specialFirstC07).Draw(t, "first")
		return b, kind
	}
}

func rawLoadC07(be backend.Backend, ft restic.FileType, id restic.ID) ([]byte, error) {
	var buf []byte
	h := backend.Handle{Type: backend.FileType(ft), Name: id.String()}
	err := be.Load(context.Background(), h, 0, 0, func(rd io.Reader) error {
		var e error
		buf, e = io.ReadAll(rd)
		return e
	})
	return buf, err
}

// refDecC07 is the harness' own decoder (not the repository's instance or options).
var refDecC07, _ = zstd.NewReader(nil, zstd.WithDecoderConcurrency(1))

func refZstdDecodeC07(frame []byte) ([]byte, error) {
	return refDecC07.DecodeAll(frame, nil)
}

func firstClassC07(p []byte) string {
	if len(p) == 0 {
		return "first=none"
	}
	switch p[0] {
	case 2:
		return "first=0x02"
	case '[':
		return "first=["
	case '{':
		return "first={"
	case 0:
		return "first=0x00"
	case 3:
		return "first=0x03"
	case 0xff:
		return "first=0xff"
	}
	return "first=other"
}

var fileTypesC07 = []restic.FileType{restic.SnapshotFile, restic.SnapshotFile, restic.IndexFile, restic.IndexFile, restic.LockFile, restic.ConfigFile}

// saveC07 saves through the public API where one exists (snapshots) and through the
// internal all-types saver otherwise, as restic itself does.
func saveC07(r *repoC07, ft restic.FileType, p []byte, viaPublic bool) (restic.ID, error) {
	if ft == restic.SnapshotFile && viaPublic {
		return r.repo.SaveUnpacked(context.Background(), restic.WriteableSnapshotFile, p)
	}
	return (&internalRepository{r.repo}).SaveUnpacked(context.Background(), ft, p)
}

func TestVerifC07RoundTrip(t *testing.T) {
	st := verifkit.Begin(t, "C07")
	repos := newReposC07(t)
	ctx := context.Background()
	rapid.Check(t, func(t *rapid.T) {
		r := drawRepoC07(t, repos)
		ft := rapid.SampledFrom(fileTypesC07).Draw(t, "filetype")
		payload, shape := genPayloadC07(t)
		orig := append([]byte(nil), payload...)
		viaPublic := rapid.Bool().Draw(t, "public")

		if ft == restic.ConfigFile {
			_ = r.be.Remove(ctx, backend.Handle{Type: backend.ConfigFile})
		}
		id, err := saveC07(r, ft, payload, viaPublic)
		if err != nil {
			t.Fatalf("%s: SaveUnpacked(%v, %d bytes, %s) failed: %v", r.name, ft, len(payload), firstClassC07(payload), err)
		}
		if !bytes.Equal(payload, orig) {
			t.Fatalf("SaveUnpacked modified its input")
		}

		// ---- the stored object, inspected without LoadUnpacked
		raw, err := rawLoadC07(r.be, ft, id)
		if err != nil {
			t.Fatalf("%s: stored file %v/%v not found in the backend: %v", r.name, ft, id, err)
		}
		if ft == restic.ConfigFile {
			if !id.IsNull() {
				t.Fatalf("config saved under id %v", id)
			}
		} else if id != restic.ID(sha256.Sum256(raw)) {
			t.Fatalf("%s: returned id %v is not SHA-256 of the stored bytes", r.name, id)
		}
		if len(raw) < 32 {
			t.Fatalf("stored file has %d bytes", len(raw))
		}
		if bytes.Equal(raw[:16], make([]byte, 16)) {
			t.Fatalf("all-zero nonce")
		}
		plain, err := r.repo.Key().Open(nil, raw[:16], raw[16:], nil)
		if err != nil {
			t.Fatalf("%s: stored file does not decrypt: %v", r.name, err)
		}
		stored := "stored=raw"
		switch {
		case ft == restic.ConfigFile:
			if !bytes.Equal(plain, payload) {
				t.Fatalf("%s: config is not stored as the plain payload (stored %d bytes, first %x)", r.name, len(plain), plain[:min(4, len(plain))])
			}
			stored = "stored=config-raw"
		case r.version == 1:
			if !bytes.Equal(plain, payload) {
				t.Fatalf("%s: version 1 file is not stored as the plain payload", r.name)
			}
		default:
			if len(plain) == 0 || plain[0] != 2 {
				t.Fatalf("%s: version 2 file does not start with encoding version 2 (plaintext %x...)", r.name, plain[:min(4, len(plain))])
			}
			dec, derr := refZstdDecodeC07(plain[1:])
			if derr != nil || !bytes.Equal(dec, payload) {
				t.Fatalf("%s: version 2 file body is not a zstd frame of the payload: %v", r.name, derr)
			}
			stored = "stored=v2-zstd"
		}

		// ---- the round trip
		got, err := r.repo.LoadUnpacked(ctx, ft, id)
		if err != nil {
			t.Fatalf("%s: LoadUnpacked(%v) of what was just saved failed: %v (payload %d bytes, %s)", r.name, ft, err, len(payload), firstClassC07(payload))
		}
		if !bytes.Equal(got, payload) {
			t.Fatalf("%s: LoadUnpacked returned %d bytes (%x...), saved %d bytes (%x...)", r.name, len(got), got[:min(8, len(got))], len(payload), payload[:min(8, len(payload))])
		}

		// ---- saving the same bytes again gives a second, independently valid object
		if ft != restic.ConfigFile && rapid.IntRange(0, 3).Draw(t, "again") == 0 {
			id2, err := saveC07(r, ft, payload, viaPublic)
			if err != nil {
				t.Fatalf("second save failed: %v", err)
			}
			if id2 == id {
				t.Fatalf("two saves produced the same ciphertext (nonce reuse)")
			}
			got2, err := r.repo.LoadUnpacked(ctx, ft, id2)
			if err != nil || !bytes.Equal(got2, payload) {
				t.Fatalf("second copy does not load: %v", err)
			}
			_ = r.be.Remove(ctx, backend.Handle{Type: backend.FileType(ft), Name: id2.String()})
		}
		if ft != restic.ConfigFile {
			if err := r.be.Remove(ctx, backend.Handle{Type: backend.FileType(ft), Name: id.String()}); err != nil {
				t.Fatalf("cleanup: %v", err)
			}
		}

		key := ""
		if len(payload) > 0 && isSpecialFirstC07(payload[0]) {
			key = fmt.Sprintf("%s|%v|%x", r.name, ft, sha256.Sum256(payload))
		}
		sizeClass := "size=0"
		switch {
		case len(payload) > 65536:
			sizeClass = "size>64K"
		case len(payload) > 4096:
			sizeClass = "size=4K..64K"
		case len(payload) > 64:
			sizeClass = "size=65..4096"
		case len(payload) > 0:
			sizeClass = "size=1..64"
		}
		st.Case(key, fmt.Sprintf("v%d", r.version), "mode="+r.mode.String(), fmt.Sprintf("noverify=%v", r.noVerify), "type="+ft.String(),
			"shape="+shape, firstClassC07(payload), sizeClass, stored, fmt.Sprintf("v%d/%s", r.version, firstClassC07(payload)))
		if st.WantSample() {
			st.Sample(map[string]any{"repo": r.name, "type": ft.String(), "shape": shape, "len": len(payload), "first": firstClassC07(payload), "stored_len": len(raw)})
		}
	})
}

// TestVerifC07Config: the real config document round-trips through SaveConfig/LoadConfig
// and is stored as plain JSON in both repository versions.
func TestVerifC07Config(t *testing.T) {
	st := verifkit.Begin(t, "C07")
	repos := newReposC07(t)
	ctx := context.Background()
	rapid.Check(t, func(t *rapid.T) {
		r := drawRepoC07(t, repos)
		cfg := restic.Config{
			Version:           uint(rapid.IntRange(1, 2).Draw(t, "cfgversion")),
			ID:                fmt.Sprintf("%x", prfBytesC07(rapid.Uint64().Draw(t, "idseed"), 9, 32)),
			ChunkerPolynomial: chunker.Pol(rapid.Uint64Range(1, 1<<53-1).Draw(t, "pol")),
		}
		_ = r.be.Remove(ctx, backend.Handle{Type: backend.ConfigFile})
		if err := restic.SaveConfig(ctx, &internalRepository{r.repo}, cfg); err != nil {
			t.Fatalf("%s: SaveConfig: %v", r.name, err)
		}
		got, err := restic.LoadConfig(ctx, r.repo)
		if err != nil || got != cfg {
			t.Fatalf("%s: LoadConfig = %+v, %v; saved %+v", r.name, got, err, cfg)
		}
		raw, err := rawLoadC07(r.be, restic.ConfigFile, restic.ID{})
		if err != nil {
			t.Fatalf("config not in backend: %v", err)
		}
		plain, err := r.repo.Key().Open(nil, raw[:16], raw[16:], nil)
		want, _ := json.Marshal(cfg)
		if err != nil || !bytes.Equal(plain, want) {
			t.Fatalf("%s: stored config is not the plain JSON document: %v", r.name, err)
		}
		st.Case(fmt.Sprintf("%s|%+v", r.name, cfg), "config-doc", fmt.Sprintf("config-doc/v%d", r.version))
	})
}

// TestVerifC07Decode: files encrypted by hand (as an older or a foreign writer would
// have) are decoded by the documented rules.
func TestVerifC07Decode(t *testing.T) {
	st := verifkit.Begin(t, "C07")
	repos := newReposC07(t)
	ctx := context.Background()
	rapid.Check(t, func(t *rapid.T) {
		r := drawRepoC07(t, repos)
		ft := rapid.SampledFrom(fileTypesC07).Draw(t, "filetype")
		payload, _ := genPayloadC07(t)
		if len(payload) > 70000 {
			payload = payload[:70000]
		}
		form := rapid.SampledFrom([]string{"raw", "raw", "v2-frame", "unknown-version+frame", "unknown-version+frame", "v2+junk", "v2-truncated", "v2-empty", "v2-two-frames", "empty"}).Draw(t, "form")
		var frame []byte
		switch rapid.IntRange(0, 2).Draw(t, "enc") {
		case 0:
			frame = refEncC07.EncodeAll(payload, nil)
		case 1:
			frame = r.repo.getZstdEncoder().EncodeAll(payload, nil)
		default: // a writer with checksums and another level
			frame = crcEncC07.EncodeAll(payload, nil)
		}
		var q []byte
		switch form {
		case "raw":
			q = payload
		case "v2-frame":
			q = append([]byte{2}, frame...)
		case "unknown-version+frame":
			v := byte(rapid.OneOf(rapid.SampledFrom([]int{0, 1, 3, 4, 0x28, 0xff, 'Z', 'z', ']', '}', ' ', '"'}), rapid.IntRange(0, 255)).Draw(t, "version"))
			q = append([]byte{v}, frame...)
		case "v2+junk":
			q = append(append([]byte{2}, frame...), prfBytesC07(uint64(len(payload)), 5, rapid.IntRange(1, 20).Draw(t, "junk"))...)
		case "v2-truncated":
			cut := rapid.IntRange(1, max(1, len(frame)-1)).Draw(t, "cut")
			q = append([]byte{2}, frame[:len(frame)-min(cut, len(frame))]...)
		case "v2-empty":
			q = []byte{2}
		case "v2-two-frames":
			q = append(append([]byte{2}, frame...), refEncC07.EncodeAll([]byte("tail"), nil)...)
		case "empty":
			q = nil
		}

		// what the documentation says the reader must do with plaintext q
		type verdict int
		const (
			vReturn verdict = iota
			vReject
			vEither
		)
		var want []byte
		var v verdict
		rule := ""
		switch {
		case ft == restic.ConfigFile:
			want, v, rule = q, vReturn, "config=raw"
		case r.version == 1:
			want, v, rule = q, vReturn, "v1=raw"
		case len(q) == 0:
			v, rule = vEither, "v2/empty-plaintext" // no version byte at all: not specified
		case q[0] == '[' || q[0] == '{':
			want, v, rule = q, vReturn, "v2/legacy-json-raw"
		case q[0] == 2:
			dec, err := refZstdDecodeC07(q[1:])
			if err != nil {
				v, rule = vReject, "v2/0x02+invalid-zstd"
			} else {
				want, v, rule = dec, vReturn, "v2/0x02+zstd"
			}
		default:
			v, rule = vReject, "v2/unknown-version"
			if _, err := refZstdDecodeC07(q[1:]); err == nil {
				rule = "v2/unknown-version+valid-frame"
			}
		}

		// store it under the key of the repository
		nonce := prfBytesC07(rapid.Uint64().Draw(t, "nonceseed"), 6, 16)
		nonce[0] |= 1
		raw := append([]byte(nil), nonce...)
		raw = r.repo.Key().Seal(raw, nonce, q, nil)
		id := restic.ID(sha256.Sum256(raw))
		h := backend.Handle{Type: backend.FileType(ft), Name: id.String()}
		if ft == restic.ConfigFile {
			id = restic.ID{}
			h = backend.Handle{Type: backend.ConfigFile}
			_ = r.be.Remove(ctx, h)
		}
		if err := r.be.Save(ctx, h, backend.NewByteReader(raw, r.be.Hasher())); err != nil {
			t.Fatalf("backend save: %v", err)
		}
		got, err := r.repo.LoadUnpacked(ctx, ft, id)
		if ft != restic.ConfigFile {
			_ = r.be.Remove(ctx, h)
		}

		outcome := "returned"
		if err != nil {
			outcome = "rejected"
		}
		switch v {
		case vReturn:
			if err != nil {
				t.Fatalf("%s %v: rule %s: plaintext %x... (%d bytes) must be returned, got error %v", r.name, ft, rule, q[:min(6, len(q))], len(q), err)
			}
			if !bytes.Equal(got, want) {
				t.Fatalf("%s %v: rule %s: returned %d bytes (%x...), want %d bytes", r.name, ft, rule, len(got), got[:min(6, len(got))], len(want))
			}
		case vReject:
			if err == nil {
				t.Fatalf("%s %v: rule %s: plaintext starting with %#x (%d bytes) must be rejected, LoadUnpacked returned %d bytes", r.name, ft, rule, q[0], len(q), len(got))
			}
			// (the zstd decoder may hand back the partial output next to the error; callers look at err)
		case vEither:
			if err == nil && len(got) != 0 {
				t.Fatalf("%s: empty plaintext decoded to %d bytes", r.name, len(got))
			}
		}
		st.Case(fmt.Sprintf("%s|%v|%s|%x", r.name, ft, form, sha256.Sum256(q)), "decode:"+rule+"/"+outcome, "decode-form="+form)
	})
}
