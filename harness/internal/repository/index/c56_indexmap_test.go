package index

import (
	"crypto/sha256"
	"encoding/binary"
	"fmt"
	"math"
	"math/rand/v2"
	"testing"

	"github.com/restic/restic/internal/restic"
	"github.com/restic/restic/internal/verifkit"
	"pgregory.net/rapid"
)

// C56: the index hash table behaves as a multimap.
//
// Reference model: map[ID][]entry plus the firstIndex value observed right after
// the first insertion of a key. Oracle (both directions, with multiplicities):
//   - valuesWithID(id) as a multiset == reference entries of id (empty for absent ids)
//   - get(id) != nil  <=>  id present; a returned entry is one of the reference entries
//   - firstIndex(id) is the value recorded at first insertion, lies in [1, len()]
//     (AssociatedSet sizes its arrays as len()+1), and is distinct for distinct keys;
//     -1 for absent ids
//   - values() as a multiset == all reference entries; len() == number of insertions

type vValC56 struct{ pack, off, length, ulen uint32 }

type vFullC56 struct {
	id restic.ID
	v  vValC56
}

type vRefC56 struct {
	byID    map[restic.ID][]vValC56
	first   map[restic.ID]int
	firstBy map[int]restic.ID
	order   []restic.ID // keys in order of first insertion
	all     map[vFullC56]int
	n       int
	maxMult int
}

func newRefC56() *vRefC56 {
	return &vRefC56{
		byID: map[restic.ID][]vValC56{}, first: map[restic.ID]int{},
		firstBy: map[int]restic.ID{}, all: map[vFullC56]int{},
	}
}

type vFataler interface {
	Fatalf(format string, args ...any)
}

// addC56 inserts into the map under test and the reference; records firstIndex on
// the first insertion of a key.
func (r *vRefC56) addC56(t vFataler, m *indexMap, id restic.ID, v vValC56) {
	m.add(id, v.pack, v.off, v.length, v.ulen)
	r.n++
	r.all[vFullC56{id, v}]++
	old, seen := r.byID[id]
	r.byID[id] = append(old, v)
	if len(old)+1 > r.maxMult {
		r.maxMult = len(old) + 1
	}
	if !seen {
		r.order = append(r.order, id)
		fi := m.firstIndex(id)
		if fi < 1 || fi > int(m.len()) {
			t.Fatalf("firstIndex(%v)=%d right after first insertion, want within [1,%d]", id.Str(), fi, m.len())
		}
		if o, dup := r.firstBy[fi]; dup {
			t.Fatalf("firstIndex(%v)=%d is also the firstIndex of %v", id.Str(), fi, o.Str())
		}
		r.first[id] = fi
		r.firstBy[fi] = id
	}
}

func multisetC56(vs []vValC56) map[vValC56]int {
	m := make(map[vValC56]int, len(vs))
	for _, v := range vs {
		m[v]++
	}
	return m
}

// checkKeyC56 checks every lookup function for one present key.
func (r *vRefC56) checkKeyC56(t vFataler, m *indexMap, id restic.ID) {
	want := r.byID[id]
	var got []vValC56
	for e := range m.valuesWithID(id) {
		if e.id != id {
			t.Fatalf("valuesWithID(%v) yielded an entry of %v", id.Str(), e.id.Str())
		}
		got = append(got, vValC56{e.packIndex, e.offset, e.length, e.uncompressedLength})
	}
	if len(got) != len(want) {
		t.Fatalf("valuesWithID(%v): %d entries, inserted %d (len=%d)", id.Str(), len(got), len(want), m.len())
	}
	if len(want) == 1 {
		if got[0] != want[0] {
			t.Fatalf("valuesWithID(%v): got %+v, inserted %+v", id.Str(), got[0], want[0])
		}
	} else {
		wm := multisetC56(want)
		for _, g := range got {
			if wm[g] == 0 {
				t.Fatalf("valuesWithID(%v): entry %+v too often or never inserted; inserted %+v", id.Str(), g, want)
			}
			wm[g]--
		}
	}
	e := m.get(id)
	if e == nil {
		t.Fatalf("get(%v)=nil, %d entries were inserted", id.Str(), len(want))
	}
	if e.id != id || r.all[vFullC56{id, vValC56{e.packIndex, e.offset, e.length, e.uncompressedLength}}] == 0 {
		t.Fatalf("get(%v) returned %+v which was never inserted", id.Str(), *e)
	}
	if fi := m.firstIndex(id); fi != r.first[id] {
		t.Fatalf("firstIndex(%v) changed from %d to %d (len=%d)", id.Str(), r.first[id], fi, m.len())
	}
}

func checkAbsentC56(t vFataler, m *indexMap, id restic.ID) {
	for e := range m.valuesWithID(id) {
		t.Fatalf("valuesWithID(absent %v) yielded %+v", id.Str(), *e)
	}
	if e := m.get(id); e != nil {
		t.Fatalf("get(absent %v) = %+v", id.Str(), *e)
	}
	if fi := m.firstIndex(id); fi != -1 {
		t.Fatalf("firstIndex(absent %v) = %d", id.Str(), fi)
	}
}

// checkAllC56 is the full two-directional comparison.
func (r *vRefC56) checkAllC56(t vFataler, m *indexMap) {
	if int(m.len()) != r.n {
		t.Fatalf("len()=%d after %d insertions", m.len(), r.n)
	}
	for _, id := range r.order {
		r.checkKeyC56(t, m, id)
	}
	got := make(map[vFullC56]int, len(r.all))
	cnt := 0
	for e := range m.values() {
		cnt++
		k := vFullC56{e.id, vValC56{e.packIndex, e.offset, e.length, e.uncompressedLength}}
		got[k]++
		if got[k] > r.all[k] {
			t.Fatalf("values() yields %v %+v %d times, inserted %d times", e.id.Str(), k.v, got[k], r.all[k])
		}
	}
	if cnt != r.n {
		t.Fatalf("values() yields %d entries, %d were inserted", cnt, r.n)
	}
	// early termination must be honoured
	if r.n > 0 {
		c := 0
		for range m.values() {
			c++
			break
		}
		id := r.order[len(r.order)/2]
		for range m.valuesWithID(id) {
			c++
			break
		}
		if c != 2 {
			t.Fatalf("iterators did not yield for early-exit probe")
		}
	}
}

var vExtremesC56 = []uint32{0, 1, 2, math.MaxUint32, math.MaxUint32 - 1, 1 << 31, 1<<31 - 1, 1 << 16, 4096}

func genValC56(rng *rand.Rand) vValC56 {
	f := func() uint32 {
		switch rng.IntN(4) {
		case 0:
			return vExtremesC56[rng.IntN(len(vExtremesC56))]
		case 1:
			return uint32(rng.IntN(4)) // tiny range: produces fully identical entries
		default:
			return rng.Uint32()
		}
	}
	return vValC56{f(), f(), f(), f()}
}

// genPoolC56 draws a small pool of distinct IDs. The first byte decides the bloom
// bit (id[0] % 28): a case uses only 1-3 residues, so most different IDs share a
// bloom bit; the rest of the ID differs in one late byte only.
func genPoolC56(t *rapid.T) []restic.ID {
	nres := rapid.IntRange(1, 3).Draw(t, "nres")
	res := make([]int, nres)
	for i := range res {
		res[i] = rapid.IntRange(0, 27).Draw(t, "res")
	}
	var stem restic.ID
	copy(stem[:], rapid.SliceOfN(rapid.Byte(), 32, 32).Draw(t, "stem"))
	n := rapid.IntRange(1, 24).Draw(t, "npool")
	seen := map[restic.ID]bool{}
	var pool []restic.ID
	for i := 0; i < n; i++ {
		id := stem
		r := res[rapid.IntRange(0, nres-1).Draw(t, "r")]
		k := rapid.IntRange(0, (255-r)/28).Draw(t, "k")
		id[0] = byte(r + 28*k)
		pos := rapid.SampledFrom([]int{1, 15, 31}).Draw(t, "pos")
		id[pos] = rapid.Byte().Draw(t, "b")
		if !seen[id] {
			seen[id] = true
			pool = append(pool, id)
		}
	}
	return pool
}

// freshIDC56 derives a new ID from a counter; id[0] is forced onto one of the
// bloom residues of the case half of the time.
func freshIDC56(seed uint64, ctr int, res0 byte, force bool) restic.ID {
	var buf [16]byte
	binary.LittleEndian.PutUint64(buf[:8], seed)
	binary.LittleEndian.PutUint64(buf[8:], uint64(ctr))
	id := restic.ID(sha256.Sum256(buf[:]))
	if force {
		id[0] = res0%28 + 28*(id[0]%9)
	}
	return id
}

func absentProbeC56(rng *rand.Rand, ref *vRefC56, kind int) (restic.ID, bool) {
	var id restic.ID
	if len(ref.order) == 0 || kind == 3 {
		for i := range id {
			id[i] = byte(rng.Uint32())
		}
	} else {
		id = ref.order[rng.IntN(len(ref.order))]
		switch kind {
		case 0: // same bloom bit, differs late
			id[31] ^= byte(1 + rng.IntN(255))
		case 1: // same bloom bit, other first byte
			if id[0] >= 28 {
				id[0] -= 28
			} else {
				id[0] += 28
			}
		case 2: // neighbouring bloom bit
			id[0]++
		}
	}
	_, present := ref.byID[id]
	return id, !present
}

// chainStatsC56 walks all bucket chains (white box, statistics only).
func chainStatsC56(m *indexMap) (mixed, multiBloom bool) {
	for _, head := range m.buckets {
		ids := map[restic.ID]bool{}
		bits := map[uint]bool{}
		for ei := head; bloomCleanID(ei) != 0; {
			e := m.resolve(ei)
			ids[e.id] = true
			bits[bloomForID(e.id)] = true
			ei = e.next
		}
		if len(ids) >= 2 {
			mixed = true
		}
		if len(bits) >= 2 {
			multiBloom = true
		}
	}
	return
}

func TestVerifC56Multimap(t *testing.T) {
	st := verifkit.Begin(t, "C56")
	rapid.Check(t, func(t *rapid.T) {
		var m indexMap
		ref := newRefC56()
		pool := genPoolC56(t)
		seed := rapid.Uint64().Draw(t, "seed")
		rng := rand.New(rand.NewPCG(seed, 56))
		nops := rapid.OneOf(rapid.IntRange(0, 12), rapid.IntRange(0, 60), rapid.IntRange(20, 140)).Draw(t, "nops")
		fresh := 0
		h := sha256.New()

		bucketGrowth, hatGrowth, preallocGrowth, ntGrowth, prealloc := 0, 0, 0, 0, 0
		bloomHit, bloomMiss := 0, 0
		shape := func() (int, uint) { return len(m.buckets), m.blockList.blockSize }
		noteGrowth := func(b0 int, h0 uint, viaPrealloc bool) {
			b1, h1 := shape()
			grew := false
			if b0 != 0 && b1 != b0 {
				bucketGrowth++
				grew = true
			}
			if h0 != 0 && h1 != h0 {
				hatGrowth++
				grew = true
			}
			if grew {
				if viaPrealloc {
					preallocGrowth++
				}
				if ref.maxMult >= 3 {
					ntGrowth++
				}
			}
		}
		add := func(id restic.ID, v vValC56) {
			b0, h0 := shape()
			ref.addC56(t, &m, id, v)
			noteGrowth(b0, h0, false)
		}

		for op := 0; op < nops; op++ {
			kind := rapid.IntRange(0, 11).Draw(t, "op")
			fmt.Fprintf(h, "%d,", kind)
			switch {
			case kind <= 2: // one entry for a pool key
				add(pool[rapid.IntRange(0, len(pool)-1).Draw(t, "key")], genValC56(rng))
			case kind == 3: // run of entries for one pool key, partly identical values
				id := pool[rapid.IntRange(0, len(pool)-1).Draw(t, "key")]
				n := rapid.OneOf(rapid.IntRange(1, 6), rapid.IntRange(1, 60)).Draw(t, "run")
				v := genValC56(rng)
				for i := 0; i < n; i++ {
					if rng.IntN(3) != 0 {
						v = genValC56(rng)
					}
					add(id, v)
				}
				fmt.Fprintf(h, "%v:%d,", id, n)
			case kind <= 6: // batch of fresh distinct keys
				n := rapid.OneOf(rapid.IntRange(1, 8), rapid.IntRange(1, 80), rapid.IntRange(50, 400)).Draw(t, "nfresh")
				for i := 0; i < n; i++ {
					fresh++
					add(freshIDC56(seed, fresh, pool[0][0], rng.IntN(2) == 0), genValC56(rng))
				}
				fmt.Fprintf(h, "%d,", n)
			case kind == 7: // interleave pool keys and fresh keys
				n := rapid.IntRange(1, 40).Draw(t, "nmix")
				for i := 0; i < n; i++ {
					if rng.IntN(2) == 0 {
						add(pool[rng.IntN(len(pool))], genValC56(rng))
					} else {
						fresh++
						add(freshIDC56(seed, fresh, pool[0][0], true), genValC56(rng))
					}
				}
				fmt.Fprintf(h, "%d,", n)
			case kind == 8: // preallocate
				cur := int(m.len())
				n := rapid.OneOf(
					rapid.IntRange(0, cur+4),
					rapid.IntRange(cur, 4*cur+300),
					rapid.SampledFrom([]int{15, 16, 17, 63, 64, 65, 255, 256, 257, 258, 1023, 1024, 1025, 4096, 4097, 16385, 70000}),
				).Draw(t, "prealloc")
				b0, h0 := shape()
				m.preallocate(n)
				prealloc++
				noteGrowth(b0, h0, true)
				fmt.Fprintf(h, "%d,", n)
			case kind == 9: // full check in the middle of the history
				ref.checkAllC56(t, &m)
			default: // probes: present keys and near-miss absent keys
				for i := 0; i < 6; i++ {
					if len(ref.order) > 0 && i%2 == 0 {
						ref.checkKeyC56(t, &m, ref.order[rng.IntN(len(ref.order))])
						continue
					}
					id, absent := absentProbeC56(rng, ref, rng.IntN(4))
					if !absent {
						continue
					}
					if len(m.buckets) > 0 {
						if bloomHasID(m.buckets[m.hash(id)], id) {
							bloomHit++
						} else {
							bloomMiss++
						}
					}
					checkAbsentC56(t, &m, id)
				}
			}
		}
		// final: everything, plus absent probes of every kind
		ref.checkAllC56(t, &m)
		for i := 0; i < 8; i++ {
			id, absent := absentProbeC56(rng, ref, i%4)
			if !absent {
				continue
			}
			if len(m.buckets) > 0 {
				if bloomHasID(m.buckets[m.hash(id)], id) {
					bloomHit++
				} else {
					bloomMiss++
				}
			}
			checkAbsentC56(t, &m, id)
		}

		classes := []string{fmt.Sprintf("entries<=%d", bucketC56(ref.n))}
		flag := func(c bool, name string) {
			if c {
				classes = append(classes, name)
			}
		}
		flag(bucketGrowth > 0, "bucket-growth")
		flag(hatGrowth > 0, "hat-growth")
		flag(preallocGrowth > 0, "growth-by-preallocate")
		flag(prealloc > 0, "preallocate-called")
		flag(ref.maxMult >= 3, "key-with>=3-entries")
		flag(ref.maxMult >= 30, "key-with>=30-entries")
		flag(bloomHit > 0, "absent-probe-bloom-hit")
		flag(bloomMiss > 0, "absent-probe-bloom-miss")
		dupIdentical := false
		for _, c := range ref.all {
			if c >= 2 {
				dupIdentical = true
				break
			}
		}
		flag(dupIdentical, "identical-entries")
		mixed, multi := chainStatsC56(&m)
		flag(mixed, "chain-with-several-ids")
		flag(multi, "chain-with-several-bloom-bits")
		flag(ntGrowth > 0, "nontrivial")

		key := ""
		if ntGrowth > 0 {
			fmt.Fprintf(h, "|%d|%d", seed, len(pool))
			key = fmt.Sprintf("%x", h.Sum(nil))
		}
		st.Case(key, classes...)
		st.Evals(len(ref.order))
		if st.WantSample() {
			st.Sample(map[string]any{"ops": nops, "entries": ref.n, "keys": len(ref.order), "max_entries_per_key": ref.maxMult,
				"bucket_growths": bucketGrowth, "hat_growths": hatGrowth, "growths_with_key>=3": ntGrowth, "buckets": len(m.buckets), "hat_block": m.blockList.blockSize})
		}
	})
}

func bucketC56(n int) int {
	for _, b := range []int{0, 16, 256, 1024, 4096, 16384, 100000, 1000000} {
		if n <= b {
			return b
		}
	}
	return math.MaxInt32
}

// TestVerifC56Large drives few but long histories (10^5 entries, thorough 10^6):
// natural growth through every table size, a small hot pool of keys with thousands
// of entries each, adversarial first bytes, occasional preallocate calls.
func TestVerifC56Large(t *testing.T) {
	st := verifkit.Begin(t, "C56")
	total := verifkit.Scale(100000, 1000000)
	rapid.Check(t, func(t *rapid.T) {
		var m indexMap
		ref := newRefC56()
		seed := rapid.Uint64().Draw(t, "seed")
		rng := rand.New(rand.NewPCG(seed, 5656))
		n := rapid.IntRange(total/2, total).Draw(t, "n")
		hot := rapid.SampledFrom([]int{1, 3, 20, 500}).Draw(t, "hot")
		hotPct := rapid.IntRange(1, 60).Draw(t, "hotpct")
		nres := rapid.SampledFrom([]int{1, 2, 28}).Draw(t, "nres") // how many bloom bits are in use
		prealloc := rapid.SampledFrom([]int{0, 0, n / 3, n, n + 1, 2 * n}).Draw(t, "prealloc")
		preallocAt := rapid.IntRange(0, n/2).Draw(t, "preallocAt")
		nchecks := 3
		checkAt := map[int]bool{}
		for i := 0; i < nchecks; i++ {
			checkAt[rapid.IntRange(0, n).Draw(t, "checkAt")] = true
		}

		mkID := func(i int) restic.ID {
			id := freshIDC56(seed, i, 0, false)
			id[0] = byte(int(id[0]) % nres) // residues 0..nres-1
			if nres < 28 {
				id[0] += 28 * byte(rng.IntN(9))
			}
			return id
		}
		hotIDs := make([]restic.ID, hot)
		for i := range hotIDs {
			hotIDs[i] = mkID(-1 - i)
		}
		growths, ntGrowths := 0, 0
		for i := 0; i < n; i++ {
			if i == preallocAt && prealloc > 0 {
				m.preallocate(prealloc)
			}
			b0, h0 := len(m.buckets), m.blockList.blockSize
			if rng.IntN(100) < hotPct {
				ref.addC56(t, &m, hotIDs[rng.IntN(hot)], genValC56(rng))
			} else {
				ref.addC56(t, &m, mkID(i), genValC56(rng))
			}
			if b0 != 0 && (len(m.buckets) != b0 || m.blockList.blockSize != h0) {
				growths++
				if ref.maxMult >= 3 {
					ntGrowths++
				}
				// right after a growth: the hot keys and a sample of others
				for _, id := range hotIDs {
					if _, ok := ref.byID[id]; ok {
						ref.checkKeyC56(t, &m, id)
					}
				}
				for j := 0; j < 200; j++ {
					ref.checkKeyC56(t, &m, ref.order[rng.IntN(len(ref.order))])
				}
			}
			if checkAt[i] {
				for j := 0; j < 2000; j++ {
					ref.checkKeyC56(t, &m, ref.order[rng.IntN(len(ref.order))])
					if id, absent := absentProbeC56(rng, ref, j%4); absent {
						checkAbsentC56(t, &m, id)
					}
				}
			}
		}
		ref.checkAllC56(t, &m)
		for j := 0; j < 2000; j++ {
			if id, absent := absentProbeC56(rng, ref, j%4); absent {
				checkAbsentC56(t, &m, id)
			}
		}
		key := ""
		if ntGrowths > 0 {
			key = fmt.Sprintf("large|%d|%d|%d|%d|%d|%d|%d", seed, n, hot, hotPct, nres, prealloc, preallocAt)
		}
		classes := []string{"large", fmt.Sprintf("large-hot=%d", hot), fmt.Sprintf("large-bloombits=%d", nres)}
		if prealloc > 0 {
			classes = append(classes, "large-preallocate")
		}
		if ref.maxMult >= 1000 {
			classes = append(classes, "large-key-with>=1000-entries")
		}
		st.Case(key, classes...)
		st.Evals(len(ref.order))
		st.ClassN("large-growths", growths)
		if st.WantSample() {
			st.Sample(map[string]any{"large_entries": ref.n, "keys": len(ref.order), "max_entries_per_key": ref.maxMult,
				"growths": growths, "buckets": len(m.buckets), "hat_block": m.blockList.blockSize, "prealloc": prealloc})
		}
	})
}
