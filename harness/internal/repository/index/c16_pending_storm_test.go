package index

import (
	"context"
	"fmt"
	"math/rand/v2"
	"sync"
	"sync/atomic"
	"testing"

	"github.com/restic/restic/internal/repository/pack"
	"github.com/restic/restic/internal/restic"
	"github.com/restic/restic/internal/verifkit"
	"pgregory.net/rapid"
)

// C16 at the level of the master index: "identical content is stored once" rests on
// MasterIndex.AddPending answering "new" exactly once per blob, no matter how the savers
// and the pack uploads (StorePack moves a blob from "pending" to "indexed") interleave.
// 2-32 goroutines released by one barrier walk the same list of 50-3000 blob handles in
// nearly the same order (drawn small local shuffles), so that they meet at the same handle;
// whoever is answered "new" immediately reports the blob's pack as uploaded (StorePack,
// packs of 1-3 blobs), which is exactly the moment a second saver may be between its look
// into the indexes and its look at the pending set. Oracle: every handle is answered "new"
// exactly once, and afterwards the index holds exactly one entry per handle.
// (Added after an independent seeded change - AddPending scanning the indexes under the read
// lock and only then taking the write lock for the pending set - was missed by the
// repository-level storm, whose packs complete only at the final flush.)

type noSaverC16 struct{ saved atomic.Int64 }

func (s *noSaverC16) Connections() uint { return 2 }
func (s *noSaverC16) SaveUnpacked(_ context.Context, _ restic.FileType, buf []byte) (restic.ID, error) {
	s.saved.Add(1)
	return restic.Hash(buf), nil
}

func TestVerifC16AddPendingStorm(t *testing.T) {
	st := verifkit.Begin(t, "C16")
	rapid.Check(t, func(t *rapid.T) {
		workers := rapid.SampledFrom([]int{2, 3, 4, 8, 16, 32}).Draw(t, "workers")
		nblobs := rapid.IntRange(50, 3000).Draw(t, "blobs")
		perPack := rapid.IntRange(1, 3).Draw(t, "perpack")
		window := rapid.SampledFrom([]int{1, 2, 4, 16}).Draw(t, "window") // local shuffle width
		seed := rapid.Uint64().Draw(t, "seed")
		preloaded := rapid.IntRange(0, 3).Draw(t, "preloaded") == 0 // some blobs are known from a loaded (final) index
		// intermediate index files: an index counts as full from that many blobs on (0 = never), so
		// that StorePack finalizes, "uploads" and merges indexes while other savers store packs -
		// the C14 side of this storm: no blob of an uploaded pack may drop out of the index
		fullFrom := rapid.SampledFrom([]uint{0, 1, 2, 5, 20, 100}).Draw(t, "fullFrom")
		oldFull := Full
		defer func() { Full = oldFull }()
		if fullFrom > 0 {
			Full = func(idx *Index) bool {
				return idx.Len(restic.DataBlob)+idx.Len(restic.TreeBlob) >= fullFrom
			}
		} else {
			Full = func(*Index) bool { return false }
		}

		handles := make([]restic.BlobHandle, nblobs)
		r := rand.New(rand.NewPCG(seed, 0xc16))
		for i := range handles {
			var id restic.ID
			for j := 0; j < len(id); j += 8 {
				v := r.Uint64()
				for k := 0; k < 8; k++ {
					id[j+k] = byte(v >> (8 * k))
				}
			}
			tpe := restic.DataBlob
			if i%5 == 0 {
				tpe = restic.TreeBlob
			}
			handles[i] = restic.BlobHandle{Type: tpe, ID: id}
		}
		mi := NewMasterIndex()
		known := map[int]bool{}
		if preloaded {
			idx := NewIndex()
			var pid restic.ID
			pid[0] = 0xee
			var bl pack.Blobs
			for i := 0; i < nblobs; i += 7 {
				known[i] = true
				bl = append(bl, pack.Blob{BlobHandle: handles[i], Length: 40, Offset: uint(len(bl)) * 40})
			}
			idx.StorePack(pid, bl)
			idx.Finalize()
			mi.Insert(idx)
		}

		saver := &noSaverC16{}
		wins := make([]atomic.Int32, nblobs)
		var packSeq atomic.Uint64
		var wg sync.WaitGroup
		start := make(chan struct{})
		ctx := context.Background()
		for w := 0; w < workers; w++ {
			wg.Add(1)
			go func(w int) {
				defer wg.Done()
				order := make([]int, nblobs)
				for i := range order {
					order[i] = i
				}
				lr := rand.New(rand.NewPCG(seed+uint64(w)+1, 0xc16c16))
				for i := 0; i+window <= nblobs; i += window {
					lr.Shuffle(window, func(a, b int) { order[i+a], order[i+b] = order[i+b], order[i+a] })
				}
				var mine pack.Blobs
				flush := func() {
					if len(mine) == 0 {
						return
					}
					var pid restic.ID
					n := packSeq.Add(1)
					for k := 0; k < 8; k++ {
						pid[k] = byte(n >> (8 * k))
					}
					pid[31] = 0x16
					if err := mi.StorePack(ctx, pid, mine, saver); err != nil {
						panic(err)
					}
					mine = nil
				}
				<-start
				for _, i := range order {
					if mi.AddPending(handles[i], 40) {
						wins[i].Add(1)
						mine = append(mine, pack.Blob{BlobHandle: handles[i], Length: 40, Offset: uint(len(mine)) * 40})
						if len(mine) >= perPack {
							flush()
						}
					}
				}
				flush()
			}(w)
		}
		close(start)
		wg.Wait()

		for i := range wins {
			n := wins[i].Load()
			want := int32(1)
			if known[i] {
				want = 0
			}
			if n != want {
				t.Fatalf("blob %d (%v) was answered 'new' %d times by AddPending, want %d (%d savers, %d blobs, %d per pack, window %d, preloaded index %v)",
					i, handles[i], n, want, workers, nblobs, perPack, window, preloaded)
			}
		}
		entries := map[restic.BlobHandle]int{}
		for pb := range mi.Values() {
			entries[pb.Handle()]++
		}
		for i, h := range handles {
			if entries[h] != 1 {
				t.Fatalf("blob %d (%v) has %d index entries after the storm, want 1 (%d savers, %d blobs, %d per pack, index full from %d blobs, %d index files saved)",
					i, h, entries[h], workers, nblobs, perPack, fullFrom, saver.saved.Load())
			}
			if _, ok := mi.LookupSize(h); !ok {
				t.Fatalf("blob %d (%v) of an uploaded pack is not found by LookupSize", i, h)
			}
		}
		if len(entries) != nblobs {
			t.Fatalf("index lists %d blobs, %d were saved", len(entries), nblobs)
		}
		key := ""
		if workers >= 2 {
			key = fmt.Sprintf("pendingstorm|%d|%d|%d|%d|%x|%v|%d", workers, nblobs, perPack, window, seed, preloaded, fullFrom)
		}
		st.Case(key, fmt.Sprintf("pendingstorm:workers=%d", workers), fmt.Sprintf("pendingstorm:preloaded=%v", preloaded),
			fmt.Sprintf("pendingstorm:intermediate-index-files=%v", saver.saved.Load() > 0))
		st.Evals(nblobs)
		if st.WantSample() {
			st.Sample(map[string]any{"part": "pending-storm", "workers": workers, "blobs": nblobs, "blobs_per_pack": perPack, "packs": packSeq.Load(), "index_files_saved": saver.saved.Load()})
		}
	})
}
