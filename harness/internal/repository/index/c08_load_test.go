package index

import (
	"bytes"
	"context"
	"crypto/sha256"
	"encoding/hex"
	"encoding/json"
	"fmt"
	"math"
	"sort"
	"strings"
	"sync"
	"testing"

	"github.com/restic/restic/internal/repository/pack"
	"github.com/restic/restic/internal/restic"
	"github.com/restic/restic/internal/verifkit"
	"pgregory.net/rapid"
)

// C08: the loaded index matches exactly the index files in the repository.
//
// An in-memory store of index files is driven through a rapid state machine
// (add / add hand-written JSON / supersede / delete / MasterIndex.Rewrite /
// incremental load / fresh load). The reference model is re-derived from the
// stored files with an independent decoder of the documented JSON format.

// ---------------------------------------------------------------- store

type vStoreC08 struct {
	mu    sync.Mutex
	files map[restic.ID][]byte
	loads int
	nonce uint64
}

func (s *vStoreC08) Connections() uint { return 2 }

func (s *vStoreC08) List(ctx context.Context, t restic.FileType, fn func(restic.ID, int64) error) error {
	if t != restic.IndexFile {
		return nil
	}
	s.mu.Lock()
	ids := make(restic.IDs, 0, len(s.files))
	for id := range s.files {
		ids = append(ids, id)
	}
	s.mu.Unlock()
	sort.Sort(ids)
	for _, id := range ids {
		if ctx.Err() != nil {
			return ctx.Err()
		}
		s.mu.Lock()
		n := len(s.files[id])
		s.mu.Unlock()
		if err := fn(id, int64(n)); err != nil {
			return err
		}
	}
	return nil
}

func (s *vStoreC08) LoadUnpacked(_ context.Context, t restic.FileType, id restic.ID) ([]byte, error) {
	s.mu.Lock()
	defer s.mu.Unlock()
	buf, ok := s.files[id]
	if !ok || t != restic.IndexFile {
		return nil, fmt.Errorf("c08 store: %v %v does not exist", t, id.Str())
	}
	s.loads++
	return bytes.Clone(buf), nil
}

func (s *vStoreC08) SaveUnpacked(_ context.Context, t restic.FileType, buf []byte) (restic.ID, error) {
	if t != restic.IndexFile {
		return restic.ID{}, fmt.Errorf("c08 store: unexpected type %v", t)
	}
	// As in a real repository the file ID is the hash of the ciphertext, which
	// contains a fresh nonce: saving the same plaintext twice gives two files.
	s.mu.Lock()
	defer s.mu.Unlock()
	s.nonce++
	h := sha256.New()
	fmt.Fprintf(h, "nonce-%d|", s.nonce)
	h.Write(buf)
	var id restic.ID
	copy(id[:], h.Sum(nil))
	s.files[id] = bytes.Clone(buf)
	return id, nil
}

func (s *vStoreC08) RemoveUnpacked(_ context.Context, t restic.FileType, id restic.ID) error {
	s.mu.Lock()
	defer s.mu.Unlock()
	if _, ok := s.files[id]; !ok || t != restic.IndexFile {
		return fmt.Errorf("c08 store: remove %v %v: does not exist", t, id.Str())
	}
	delete(s.files, id)
	return nil
}

func (s *vStoreC08) idsC08() restic.IDs {
	s.mu.Lock()
	defer s.mu.Unlock()
	ids := make(restic.IDs, 0, len(s.files))
	for id := range s.files {
		ids = append(ids, id)
	}
	sort.Sort(ids)
	return ids
}

// ---------------------------------------------------------------- model

// vEntC08 is one index entry: a blob and one location.
type vEntC08 struct {
	bh     restic.BlobHandle
	pack   restic.ID
	off    uint
	length uint
	ulen   uint
}

func (e vEntC08) String() string {
	return fmt.Sprintf("%v@%s+%d/%d/%d", e.bh, e.pack.Str(), e.off, e.length, e.ulen)
}

func entOfC08(pb *pack.PackedBlob) vEntC08 {
	return vEntC08{pb.Blob.BlobHandle, pb.Pack, pb.Blob.Offset, pb.Blob.Length, pb.Blob.UncompressedLength}
}

// independent decoder of the documented index file format (doc/design.rst, "Indexing")
type vRawBlobC08 struct {
	ID     string `json:"id"`
	Type   string `json:"type"`
	Offset uint64 `json:"offset"`
	Length uint64 `json:"length"`
	ULen   uint64 `json:"uncompressed_length"`
}
type vRawPackC08 struct {
	ID    string        `json:"id"`
	Blobs []vRawBlobC08 `json:"blobs"`
}
type vRawIndexC08 struct {
	Supersedes []string      `json:"supersedes,omitempty"`
	Packs      []vRawPackC08 `json:"packs"`
}

func hexIDC08(s string) (restic.ID, error) {
	var id restic.ID
	b, err := hex.DecodeString(s)
	if err != nil || len(b) != len(id) {
		return id, fmt.Errorf("bad id %q", s)
	}
	copy(id[:], b)
	return id, nil
}

// decodeRefC08 returns the multiset of entries and the listed packs of one file.
func decodeRefC08(buf []byte) (map[vEntC08]int, restic.IDSet, error) {
	var raw vRawIndexC08
	if err := json.Unmarshal(buf, &raw); err != nil {
		return nil, nil, err
	}
	ents := map[vEntC08]int{}
	packs := restic.NewIDSet()
	for _, p := range raw.Packs {
		pid, err := hexIDC08(p.ID)
		if err != nil {
			return nil, nil, err
		}
		packs.Insert(pid)
		for _, b := range p.Blobs {
			bid, err := hexIDC08(b.ID)
			if err != nil {
				return nil, nil, err
			}
			var bt restic.BlobType
			switch b.Type {
			case "data":
				bt = restic.DataBlob
			case "tree":
				bt = restic.TreeBlob
			default:
				return nil, nil, fmt.Errorf("bad blob type %q", b.Type)
			}
			ents[vEntC08{restic.BlobHandle{ID: bid, Type: bt}, pid, uint(b.Offset), uint(b.Length), uint(b.ULen)}]++
		}
	}
	return ents, packs, nil
}

// vModelC08 is the union over all files currently in the store.
type vModelC08 struct {
	files   restic.IDs
	set     map[vEntC08]bool // distinct entries
	byBlob  map[restic.BlobHandle]map[vEntC08]bool
	packs   restic.IDSet // packs listed in some file
	packsNE restic.IDSet // packs with at least one entry
}

func modelOfC08(t vFatalerC08, s *vStoreC08, only restic.IDSet) *vModelC08 {
	m := &vModelC08{set: map[vEntC08]bool{}, byBlob: map[restic.BlobHandle]map[vEntC08]bool{},
		packs: restic.NewIDSet(), packsNE: restic.NewIDSet()}
	for _, id := range s.idsC08() {
		if only != nil && !only.Has(id) {
			continue
		}
		m.files = append(m.files, id)
		s.mu.Lock()
		buf := s.files[id]
		s.mu.Unlock()
		ents, packs, err := decodeRefC08(buf)
		if err != nil {
			t.Fatalf("reference decoder rejects index file %v: %v\n%s", id.Str(), err, buf)
		}
		m.packs.Merge(packs)
		for e := range ents {
			m.set[e] = true
			if m.byBlob[e.bh] == nil {
				m.byBlob[e.bh] = map[vEntC08]bool{}
			}
			m.byBlob[e.bh][e] = true
			m.packsNE.Insert(e.pack)
		}
	}
	return m
}

type vFatalerC08 interface {
	Fatalf(format string, args ...any)
}

func sizeOfC08(e vEntC08) (uint, bool) {
	if e.ulen != 0 {
		return e.ulen, true
	}
	if e.length < 32 { // shorter than nonce+MAC: no meaningful plaintext length
		return 0, false
	}
	return e.length - 32, true
}

// checkLoadedC08 compares a loaded MasterIndex with the model, both directions.
func checkLoadedC08(t vFatalerC08, what string, mi *MasterIndex, m *vModelC08, probes []restic.BlobHandle) map[vEntC08]int {
	// index file IDs
	got := mi.IDs()
	if !got.Equals(restic.NewIDSet(m.files...)) {
		t.Fatalf("%s: MasterIndex.IDs()=%v, index files in the repository: %v", what, got, m.files)
	}
	// ListBlobs / Values: covers exactly the model set
	vals := map[vEntC08]int{}
	for pb := range mi.Values() {
		e := entOfC08(pb)
		vals[e]++
		if !m.set[e] {
			t.Fatalf("%s: Values() yields %v which is in no index file", what, e)
		}
	}
	for e := range m.set {
		if vals[e] == 0 {
			t.Fatalf("%s: entry %v of the index files is missing from Values() (%d of %d present)", what, e, len(vals), len(m.set))
		}
	}
	// Lookup per blob: exactly the recorded locations
	check := func(bh restic.BlobHandle) {
		want := m.byBlob[bh]
		seen := map[vEntC08]int{}
		for _, pb := range mi.Lookup(bh) {
			e := entOfC08(pb)
			if e.bh != bh {
				t.Fatalf("%s: Lookup(%v) returned an entry of %v", what, bh, e.bh)
			}
			if !want[e] {
				t.Fatalf("%s: Lookup(%v) returned %v, recorded locations: %v", what, bh, e, keysEntC08(want))
			}
			seen[e]++
		}
		if len(seen) != len(want) {
			t.Fatalf("%s: Lookup(%v) returned %d distinct locations %v, recorded: %v", what, bh, len(seen), seen, keysEntC08(want))
		}
		for e, n := range seen {
			if n != vals[e] {
				t.Fatalf("%s: Lookup(%v) returns %v %d times, Values() %d times", what, bh, e, n, vals[e])
			}
		}
		size, found := mi.LookupSize(bh)
		if found != (len(want) > 0) {
			t.Fatalf("%s: LookupSize(%v) found=%v, recorded locations: %d", what, bh, found, len(want))
		}
		if found {
			ok, decidable := false, true
			for e := range want {
				s, d := sizeOfC08(e)
				if !d {
					decidable = false
				} else if s == size {
					ok = true
				}
			}
			if !ok && decidable {
				t.Fatalf("%s: LookupSize(%v)=%d matches none of the recorded locations %v", what, bh, size, keysEntC08(want))
			}
		}
		has := false
		for _, idx := range mi.idx {
			has = has || idx.Has(bh)
		}
		if has != (len(want) > 0) {
			t.Fatalf("%s: Has(%v)=%v, recorded locations: %d", what, bh, has, len(want))
		}
	}
	for bh := range m.byBlob {
		check(bh)
	}
	for _, bh := range probes {
		check(bh)
	}
	// packs
	packs := mi.Packs(nil)
	for p := range m.packsNE {
		if !packs.Has(p) {
			t.Fatalf("%s: Packs() lacks pack %v", what, p.Str())
		}
	}
	for p := range packs {
		if !m.packs.Has(p) {
			t.Fatalf("%s: Packs() contains %v which no index file lists", what, p.Str())
		}
	}
	return vals
}

func keysEntC08(m map[vEntC08]bool) string {
	var s []string
	for e := range m {
		s = append(s, e.String())
	}
	sort.Strings(s)
	return "[" + strings.Join(s, " ") + "]"
}

// ---------------------------------------------------------------- generators

type vGenC08 struct {
	blobs []restic.BlobHandle
	packs []restic.ID
}

func idC08(tag string, i int) restic.ID {
	return restic.ID(sha256.Sum256([]byte(fmt.Sprintf("c08-%s-%d", tag, i))))
}

var vU32C08 = []uint{0, 0, 1, 31, 32, 33, 40, 4096, 1 << 31, math.MaxUint32 - 1, math.MaxUint32}

func genWorldC08(t *rapid.T) *vGenC08 {
	g := &vGenC08{}
	nb := rapid.IntRange(1, 8).Draw(t, "nblobids")
	for i := 0; i < nb; i++ {
		id := idC08("blob", i)
		switch rapid.IntRange(0, 3).Draw(t, "btype") {
		case 0:
			g.blobs = append(g.blobs, restic.BlobHandle{ID: id, Type: restic.TreeBlob})
		case 1:
			g.blobs = append(g.blobs, restic.BlobHandle{ID: id, Type: restic.DataBlob}, restic.BlobHandle{ID: id, Type: restic.TreeBlob})
		default:
			g.blobs = append(g.blobs, restic.BlobHandle{ID: id, Type: restic.DataBlob})
		}
	}
	np := rapid.IntRange(1, 6).Draw(t, "npacks")
	for i := 0; i < np; i++ {
		g.packs = append(g.packs, idC08("pack", i))
	}
	return g
}

func (g *vGenC08) genBlobC08(t *rapid.T) pack.Blob {
	u := func(label string) uint {
		return rapid.OneOf(rapid.SampledFrom(vU32C08), rapid.SampledFrom([]uint{0, 40, 100}), rapid.UintRange(0, math.MaxUint32)).Draw(t, label)
	}
	return pack.Blob{
		BlobHandle:         g.blobs[rapid.IntRange(0, len(g.blobs)-1).Draw(t, "blob")],
		Offset:             u("off"),
		Length:             u("len"),
		UncompressedLength: u("ulen"),
	}
}

// genPacksC08 draws the (pack, blobs) lists of one index file.
func (g *vGenC08) genPacksC08(t *rapid.T, maxPacks, maxBlobs int) []PackBlobs {
	n := rapid.IntRange(1, maxPacks).Draw(t, "np")
	var out []PackBlobs
	for i := 0; i < n; i++ {
		pb := PackBlobs{PackID: g.packs[rapid.IntRange(0, len(g.packs)-1).Draw(t, "pack")]}
		nb := rapid.IntRange(0, maxBlobs).Draw(t, "nb")
		for j := 0; j < nb; j++ {
			b := g.genBlobC08(t)
			pb.Blobs = append(pb.Blobs, b)
			if rapid.IntRange(0, 9).Draw(t, "repeat") == 0 { // the same entry twice in one file
				pb.Blobs = append(pb.Blobs, b)
			}
		}
		out = append(out, pb)
	}
	return out
}

func encodeC08(t vFatalerC08, packs []PackBlobs) []byte {
	idx := NewIndex()
	for _, p := range packs {
		idx.StorePack(p.PackID, p.Blobs)
	}
	idx.Finalize()
	var buf bytes.Buffer
	if err := idx.Encode(&buf); err != nil {
		t.Fatalf("Encode: %v", err)
	}
	return buf.Bytes()
}

// rawJSONC08 writes an index file by hand: a pack may be listed twice, a pack may
// have no blobs, a (meanwhile ignored) "supersedes" list may be present.
func rawJSONC08(packs []PackBlobs, supersedes restic.IDs) []byte {
	var raw vRawIndexC08
	for _, id := range supersedes {
		raw.Supersedes = append(raw.Supersedes, id.String())
	}
	raw.Packs = []vRawPackC08{}
	for _, p := range packs {
		rp := vRawPackC08{ID: p.PackID.String(), Blobs: []vRawBlobC08{}}
		for _, b := range p.Blobs {
			rp.Blobs = append(rp.Blobs, vRawBlobC08{ID: b.ID.String(), Type: b.Type.String(), Offset: uint64(b.Offset), Length: uint64(b.Length), ULen: uint64(b.UncompressedLength)})
		}
		raw.Packs = append(raw.Packs, rp)
	}
	buf, _ := json.Marshal(raw)
	return buf
}

func multisetOfPacksC08(packs []PackBlobs) map[vEntC08]int {
	m := map[vEntC08]int{}
	for _, p := range packs {
		for _, b := range p.Blobs {
			m[vEntC08{b.BlobHandle, p.PackID, b.Offset, b.Length, b.UncompressedLength}]++
		}
	}
	return m
}

func equalMultisetC08(a, b map[vEntC08]int) (vEntC08, bool) {
	for e, n := range a {
		if b[e] != n {
			return e, false
		}
	}
	for e, n := range b {
		if a[e] != n {
			return e, false
		}
	}
	return vEntC08{}, true
}

// ---------------------------------------------------------------- round trip

func TestVerifC08RoundTrip(t *testing.T) {
	st := verifkit.Begin(t, "C08")
	rapid.Check(t, func(t *rapid.T) {
		g := genWorldC08(t)
		packs := g.genPacksC08(t, 6, 8)
		want := multisetOfPacksC08(packs)
		buf := encodeC08(t, packs)

		// 1. the written file, read by the independent decoder, has every entry (with multiplicity)
		ref, _, err := decodeRefC08(buf)
		if err != nil {
			t.Fatalf("reference decoder rejects Encode output: %v\n%s", err, buf)
		}
		if e, ok := equalMultisetC08(want, ref); !ok {
			t.Fatalf("Encode: entry %v stored %d times, file has it %d times\n%s", e, want[e], ref[e], buf)
		}
		// 2. DecodeIndex(Encode(x)) preserves every entry
		id := restic.Hash(buf)
		idx, err := DecodeIndex(buf, id)
		if err != nil {
			t.Fatalf("DecodeIndex: %v", err)
		}
		got := map[vEntC08]int{}
		for pb := range idx.Values() {
			got[entOfC08(pb)]++
		}
		if e, ok := equalMultisetC08(want, got); !ok {
			t.Fatalf("round trip: entry %v stored %d times, decoded %d times\n%s", e, want[e], got[e], buf)
		}
		ids, err := idx.IDs()
		if err != nil || len(ids) != 1 || ids[0] != id || !idx.Final() {
			t.Fatalf("decoded index: IDs=%v err=%v final=%v", ids, err, idx.Final())
		}
		perType := map[restic.BlobType]uint{}
		for e, n := range want {
			perType[e.bh.Type] += uint(n)
		}
		if idx.Len(restic.DataBlob) != perType[restic.DataBlob] || idx.Len(restic.TreeBlob) != perType[restic.TreeBlob] {
			t.Fatalf("decoded index: Len data=%d tree=%d, want %v", idx.Len(restic.DataBlob), idx.Len(restic.TreeBlob), perType)
		}
		// 3. encoding the decoded index again gives the same entries (second generation)
		var buf2 bytes.Buffer
		if err := idx.Encode(&buf2); err != nil {
			t.Fatalf("re-Encode: %v", err)
		}
		ref2, _, err := decodeRefC08(buf2.Bytes())
		if err != nil {
			t.Fatalf("reference decoder rejects re-encoded index: %v", err)
		}
		if e, ok := equalMultisetC08(want, ref2); !ok {
			t.Fatalf("second generation: entry %v stored %d times, file has it %d times", e, want[e], ref2[e])
		}
		// 4. a hand-written file with the same content decodes to the same entries
		rawIdx, err := DecodeIndex(rawJSONC08(packs, nil), id)
		if err != nil {
			t.Fatalf("DecodeIndex(hand-written): %v", err)
		}
		got = map[vEntC08]int{}
		for pb := range rawIdx.Values() {
			got[entOfC08(pb)]++
		}
		if e, ok := equalMultisetC08(want, got); !ok {
			t.Fatalf("hand-written file: entry %v written %d times, decoded %d times", e, want[e], got[e])
		}

		extreme, dup, bothTypes := false, false, false
		ids32 := map[restic.ID]int{}
		for e, n := range want {
			if e.off >= math.MaxUint32-1 || e.length >= math.MaxUint32-1 || e.ulen >= math.MaxUint32-1 {
				extreme = true
			}
			if n >= 2 {
				dup = true
			}
			ids32[e.bh.ID] |= 1 << e.bh.Type
		}
		for _, m := range ids32 {
			if m == 1<<restic.DataBlob|1<<restic.TreeBlob {
				bothTypes = true
			}
		}
		var classes []string
		if extreme {
			classes = append(classes, "rt-32bit-extreme")
		}
		if dup {
			classes = append(classes, "rt-identical-entry-twice")
		}
		if bothTypes {
			classes = append(classes, "rt-id-as-data-and-tree")
		}
		if len(want) == 0 {
			classes = append(classes, "rt-empty")
		}
		key := ""
		if len(want) >= 2 {
			key = "rt|" + id.String()
		}
		st.Case(key, classes...)
	})
}

// ---------------------------------------------------------------- state machine

type vMachineC08 struct {
	g      *vGenC08
	store  *vStoreC08
	mi     *MasterIndex // long-lived, loaded incrementally
	probes []restic.BlobHandle

	removedSinceLoad bool
	addedSinceLoad   bool
	classes          map[string]int
	ntRemovalReload  bool
	ntMultiLoc       bool
	hist             []string
}

func (sm *vMachineC08) note(c string) { sm.classes[c]++ }

// save stores a file; the second result is the content hash used in the history key
// (file IDs assigned during Rewrite depend on goroutine scheduling).
func (sm *vMachineC08) save(t *rapid.T, buf []byte) (restic.ID, string) {
	id, err := sm.store.SaveUnpacked(context.Background(), restic.IndexFile, buf)
	if err != nil {
		t.Fatalf("save: %v", err)
	}
	sm.addedSinceLoad = true
	ch := restic.Hash(buf)
	return id, ch.Str()
}

func (sm *vMachineC08) remove(t *rapid.T, id restic.ID) {
	if err := sm.store.RemoveUnpacked(context.Background(), restic.IndexFile, id); err != nil {
		t.Fatalf("remove: %v", err)
	}
	sm.removedSinceLoad = true
}

func (sm *vMachineC08) addIndex(t *rapid.T) {
	packs := sm.g.genPacksC08(t, 3, 5)
	_, ch := sm.save(t, encodeC08(t, packs))
	sm.hist = append(sm.hist, "add:"+ch)
	sm.note("op-add")
}

func (sm *vMachineC08) addRaw(t *rapid.T) {
	packs := sm.g.genPacksC08(t, 4, 3)
	var sup restic.IDs
	if ids := sm.store.idsC08(); len(ids) > 0 && rapid.Bool().Draw(t, "supersedes") {
		sup = restic.IDs{ids[rapid.IntRange(0, len(ids)-1).Draw(t, "sup")]}
		sm.note("raw-with-supersedes-field")
	}
	seen := map[restic.ID]bool{}
	for _, p := range packs {
		if seen[p.PackID] {
			sm.note("raw-pack-listed-twice")
		}
		seen[p.PackID] = true
	}
	_, ch := sm.save(t, rawJSONC08(packs, sup))
	sm.hist = append(sm.hist, "raw:"+ch)
	sm.note("op-add-raw")
}

// copyOf re-adds the content of an existing file under a new ID (one more pack appended).
func (sm *vMachineC08) addOverlapping(t *rapid.T) {
	ids := sm.store.idsC08()
	if len(ids) == 0 {
		t.Skip("no file")
	}
	src := ids[rapid.IntRange(0, len(ids)-1).Draw(t, "src")]
	idx, err := DecodeIndex(sm.store.files[src], src)
	if err != nil {
		t.Fatalf("DecodeIndex: %v", err)
	}
	var packs []PackBlobs
	for pbs := range idx.EachByPack(context.Background(), restic.NewIDSet()) {
		packs = append(packs, pbs)
	}
	sort.Slice(packs, func(i, j int) bool { return bytes.Compare(packs[i].PackID[:], packs[j].PackID[:]) < 0 })
	for i := range packs {
		packs[i].Blobs.Sort()
	}
	packs = append(packs, sm.g.genPacksC08(t, 1, 3)...)
	_, ch := sm.save(t, encodeC08(t, packs))
	sm.hist = append(sm.hist, "overlap:"+ch)
	sm.note("op-add-overlapping")
}

func (sm *vMachineC08) deleteIndex(t *rapid.T) {
	ids := sm.store.idsC08()
	if len(ids) == 0 {
		t.Skip("no file")
	}
	id := ids[rapid.IntRange(0, len(ids)-1).Draw(t, "victim")]
	ch := restic.Hash(sm.store.files[id])
	sm.hist = append(sm.hist, "del:"+ch.Str())
	sm.remove(t, id)
	sm.note("op-delete")
}

// supersede: write one file with the entries of k files, then delete the k files.
func (sm *vMachineC08) supersede(t *rapid.T) {
	ids := sm.store.idsC08()
	if len(ids) == 0 {
		t.Skip("no file")
	}
	k := rapid.IntRange(1, min(3, len(ids))).Draw(t, "k")
	perm := rapid.Permutation(ids).Draw(t, "perm")[:k]
	before := modelOfC08(t, sm.store, nil)
	merged := NewIndex()
	for _, id := range perm {
		idx, err := DecodeIndex(sm.store.files[id], id)
		if err != nil {
			t.Fatalf("DecodeIndex: %v", err)
		}
		var packs []PackBlobs
		for pbs := range idx.EachByPack(context.Background(), restic.NewIDSet()) {
			packs = append(packs, pbs)
		}
		sort.Slice(packs, func(i, j int) bool { return bytes.Compare(packs[i].PackID[:], packs[j].PackID[:]) < 0 })
		for _, p := range packs {
			p.Blobs.Sort()
			merged.StorePack(p.PackID, p.Blobs)
		}
	}
	merged.Finalize()
	var buf bytes.Buffer
	if err := merged.Encode(&buf); err != nil {
		t.Fatalf("Encode: %v", err)
	}
	_, ch := sm.save(t, buf.Bytes())
	for _, id := range perm {
		sm.remove(t, id)
	}
	after := modelOfC08(t, sm.store, nil)
	if len(after.set) != len(before.set) {
		t.Fatalf("harness: supersede changed the entry set (%d -> %d)", len(before.set), len(after.set))
	}
	sm.hist = append(sm.hist, fmt.Sprintf("supersede%d:%s", k, ch))
	sm.note("op-supersede")
}

// rewrite drives MasterIndex.Rewrite (what prune and repair index use to supersede
// index files) and checks that exactly the entries of excluded packs disappear.
func (sm *vMachineC08) rewrite(t *rapid.T) {
	ids := sm.store.idsC08()
	if len(ids) == 0 {
		t.Skip("no file")
	}
	ctx := context.Background()
	mi := sm.mi
	if rapid.Bool().Draw(t, "freshForRewrite") {
		mi = NewMasterIndex()
	}
	if err := mi.Load(ctx, sm.store, restic.NoopCounter, nil); err != nil {
		t.Fatalf("Load before Rewrite: %v", err)
	}
	snap := map[restic.ID][]byte{}
	for _, id := range ids {
		snap[id] = sm.store.files[id]
	}

	exclude := restic.NewIDSet()
	for _, p := range sm.g.packs {
		if rapid.IntRange(0, 3).Draw(t, "exclude") == 0 {
			exclude.Insert(p)
		}
	}
	var old restic.IDSet
	if rapid.IntRange(0, 3).Draw(t, "oldOnly") == 0 {
		old = restic.NewIDSet()
		for _, id := range ids {
			if rapid.Bool().Draw(t, "old") {
				old.Insert(id)
			}
		}
		sm.note("rewrite-old-subset")
	}
	processed := old
	if processed == nil {
		processed = restic.NewIDSet(ids...)
	}
	// make small indexes count as "full" so that the keep-as-is path is reached
	fullAt := uint(rapid.SampledFrom([]int{1, 2, 4, 1000000}).Draw(t, "fullAt"))
	overAt := fullAt + uint(rapid.SampledFrom([]int{1, 3, 1000000}).Draw(t, "overAt"))
	count := func(idx *Index) uint {
		idx.m.RLock()
		defer idx.m.RUnlock()
		var n uint
		for typ := range idx.byType {
			n += idx.byType[typ].len()
		}
		return n
	}
	oldFull, oldOver := Full, Oversized
	Full = func(idx *Index) bool { return count(idx) >= fullAt }
	Oversized = func(idx *Index) bool { return count(idx) >= overAt }
	err := mi.Rewrite(ctx, sm.store, exclude, old, nil, MasterIndexRewriteOpts{})
	Full, Oversized = oldFull, oldOver
	if err != nil {
		t.Fatalf("Rewrite: %v", err)
	}
	sm.removedSinceLoad = true
	sm.addedSinceLoad = true

	// expected: everything that was there, minus entries of excluded packs in processed files
	want := map[vEntC08]bool{}
	dropped := 0
	for id, buf := range snap {
		ents, _, err := decodeRefC08(buf)
		if err != nil {
			t.Fatalf("reference decoder: %v", err)
		}
		for e := range ents {
			if processed.Has(id) && exclude.Has(e.pack) {
				dropped++
				continue
			}
			want[e] = true
		}
		if _, still := sm.store.files[id]; !still && !processed.Has(id) {
			t.Fatalf("Rewrite removed index %v which was not to be processed", id.Str())
		}
	}
	after := modelOfC08(t, sm.store, nil)
	for e := range want {
		if !after.set[e] {
			t.Fatalf("Rewrite(exclude=%v, old=%v) lost entry %v", exclude, old, e)
		}
	}
	for e := range after.set {
		if !want[e] {
			t.Fatalf("Rewrite(exclude=%v, old=%v) kept/invented entry %v", exclude, old, e)
		}
	}
	for _, id := range ids {
		if _, ok := sm.store.files[id]; ok && processed.Has(id) {
			sm.note("rewrite-kept-full-index")
			break
		}
	}
	if dropped > 0 {
		sm.note("rewrite-excluded-entries")
	}
	sm.hist = append(sm.hist, fmt.Sprintf("rewrite:%v:%d:%d", exclude, len(old), fullAt))
	sm.note("op-rewrite")
}

func (sm *vMachineC08) load(t *rapid.T, incremental bool) {
	ctx := context.Background()
	model := modelOfC08(t, sm.store, nil)
	for _, locs := range model.byBlob {
		if len(locs) >= 2 {
			sm.ntMultiLoc = true
		}
	}
	what := "fresh load"
	if incremental {
		what = "incremental load"
		switch {
		case sm.removedSinceLoad && sm.addedSinceLoad:
			sm.note("incremental-after-removal-and-add")
		case sm.removedSinceLoad:
			sm.note("incremental-after-removal")
		case sm.addedSinceLoad:
			sm.note("incremental-after-add")
		default:
			sm.note("incremental-no-change")
		}
		if sm.removedSinceLoad {
			sm.ntRemovalReload = true
		}
	} else {
		sm.mi = NewMasterIndex()
		sm.note("fresh-load")
	}
	before := sm.store.loads
	if err := sm.mi.Load(ctx, sm.store, restic.NoopCounter, nil); err != nil {
		t.Fatalf("%s: %v", what, err)
	}
	if n := sm.store.loads - before; n != len(model.files) {
		// (Load reads and decodes every listed file, also on an incremental load; only the merge is skipped)
		sm.note("load-did-not-read-all-files")
	}
	sm.removedSinceLoad, sm.addedSinceLoad = false, false
	what = fmt.Sprintf("%s after %v", what, sm.hist)
	vals := checkLoadedC08(t, what, sm.mi, model, sm.probes)
	if len(sm.mi.idx) != 1 {
		t.Fatalf("%s: %d indexes left after Load, want one merged index", what, len(sm.mi.idx))
	}
	if incremental {
		// the same lookups as a load into a new MasterIndex, as multisets
		fresh := NewMasterIndex()
		if err := fresh.Load(ctx, sm.store, restic.NoopCounter, nil); err != nil {
			t.Fatalf("fresh load for comparison: %v", err)
		}
		fvals := checkLoadedC08(t, "fresh load for comparison with "+what, fresh, model, sm.probes)
		if e, ok := equalMultisetC08(vals, fvals); !ok {
			t.Fatalf("%s: entry %v %d times, fresh load has it %d times", what, e, vals[e], fvals[e])
		}
	}
	sm.hist = append(sm.hist, map[bool]string{true: "iload", false: "fload"}[incremental])
}

func TestVerifC08Histories(t *testing.T) {
	st := verifkit.Begin(t, "C08")
	rapid.Check(t, func(t *rapid.T) {
		g := genWorldC08(t)
		sm := &vMachineC08{g: g, store: &vStoreC08{files: map[restic.ID][]byte{}}, mi: NewMasterIndex(), classes: map[string]int{}}
		sm.probes = []restic.BlobHandle{
			{ID: idC08("absent", 0), Type: restic.DataBlob},
			{ID: idC08("absent", 1), Type: restic.TreeBlob},
			{ID: g.blobs[0].ID, Type: restic.DataBlob},
			{ID: g.blobs[0].ID, Type: restic.TreeBlob},
		}
		incr := func(t *rapid.T) { sm.load(t, true) }
		t.Repeat(map[string]func(*rapid.T){
			"addIndex":         sm.addIndex,
			"addIndex2":        sm.addIndex,
			"addRaw":           sm.addRaw,
			"addOverlapping":   sm.addOverlapping,
			"deleteIndex":      sm.deleteIndex,
			"supersede":        sm.supersede,
			"rewrite":          sm.rewrite,
			"incrementalLoad":  incr,
			"incrementalLoad2": incr,
			"incrementalLoad3": incr,
			"freshLoad":        func(t *rapid.T) { sm.load(t, false) },
			"":                 func(*rapid.T) {},
		})
		sm.load(t, true)

		model := modelOfC08(t, sm.store, nil)
		var classes []string
		for c := range sm.classes {
			classes = append(classes, c)
		}
		sort.Strings(classes)
		if sm.ntMultiLoc {
			classes = append(classes, "blob-with>=2-locations")
		}
		for e := range model.set {
			if e.off >= math.MaxUint32-1 || e.length >= math.MaxUint32-1 || e.ulen >= math.MaxUint32-1 {
				classes = append(classes, "32bit-extreme-entry")
				break
			}
		}
		classes = append(classes, fmt.Sprintf("final-files=%d", min(len(model.files), 5)))
		key := ""
		if sm.ntRemovalReload && sm.ntMultiLoc {
			key = strings.Join(sm.hist, ",")
			classes = append(classes, "nontrivial")
		}
		st.Case(key, classes...)
		st.Evals(len(sm.hist))
		if st.WantSample() {
			st.Sample(map[string]any{"history": strings.Join(sm.hist, ","), "final_files": len(model.files), "final_entries": len(model.set), "blobs": len(model.byBlob)})
		}
	})
}
