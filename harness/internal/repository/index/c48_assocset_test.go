package index

import (
	"context"
	"crypto/sha256"
	"fmt"
	"sort"
	"strings"
	"testing"

	"github.com/restic/restic/internal/repository/pack"
	"github.com/restic/restic/internal/restic"
	"github.com/restic/restic/internal/verifkit"
	"pgregory.net/rapid"
)

// C48: blob sets report each member once.
//
// Reference model: map[BlobHandle]uint8 per set. Oracle after every step:
// Len() == |map|, Keys() and All() enumerate exactly the keys of the map, each
// once, All() with the stored value; Get/Has agree with the map for every handle
// of the universe (handles in the index, handles outside of it).

type vSaverC48 struct{}

func (vSaverC48) Connections() uint { return 2 }
func (vSaverC48) SaveUnpacked(_ context.Context, _ restic.FileType, buf []byte) (restic.ID, error) {
	return restic.Hash(buf), nil
}

func idC48(tag string, i int) restic.ID {
	return restic.ID(sha256.Sum256([]byte(fmt.Sprintf("c48-%s-%d", tag, i))))
}

type vWorldC48 struct {
	mi       *MasterIndex
	handles  []restic.BlobHandle // handles that may be put into the index
	outside  []restic.BlobHandle // handles never put into the index
	packs    []restic.ID
	entries  map[restic.BlobHandle]int // index entries per handle, as inserted (before exact-duplicate removal)
	locs     map[restic.BlobHandle]map[string]bool
	newPacks int
	classes  map[string]bool
}

// genBlobsC48 draws the blobs of one pack; offsets/lengths come from tiny sets so
// that exact duplicates (same blob, pack, offset, length) arise as well.
func (w *vWorldC48) genBlobsC48(t *rapid.T, packID restic.ID, file string, max int) pack.Blobs {
	n := rapid.IntRange(0, max).Draw(t, "nblobs")
	var blobs pack.Blobs
	for i := 0; i < n; i++ {
		bh := w.handles[rapid.IntRange(0, len(w.handles)-1).Draw(t, "bh")]
		b := pack.Blob{BlobHandle: bh,
			Offset:             uint(rapid.SampledFrom([]int{0, 0, 100, 4096}).Draw(t, "off")),
			Length:             uint(rapid.SampledFrom([]int{40, 40, 1000}).Draw(t, "len")),
			UncompressedLength: uint(rapid.SampledFrom([]int{0, 0, 2000}).Draw(t, "ulen")),
		}
		blobs = append(blobs, b)
		w.entries[bh]++
		if w.locs[bh] == nil {
			w.locs[bh] = map[string]bool{}
		}
		loc := fmt.Sprintf("%s/%s/%d/%d/%d", file, packID.Str(), b.Offset, b.Length, b.UncompressedLength)
		if w.locs[bh][loc] {
			w.classes["dup-identical-entry-in-one-file"] = true
		}
		for other := range w.locs[bh] {
			parts := strings.SplitN(other, "/", 3)
			switch {
			case parts[0] == file && parts[1] != packID.Str():
				w.classes["dup-two-packs-one-file"] = true
			case parts[0] != file:
				w.classes["dup-two-files"] = true
			}
		}
		w.locs[bh][loc] = true
	}
	return blobs
}

func genWorldC48(t *rapid.T) *vWorldC48 {
	w := &vWorldC48{mi: NewMasterIndex(), entries: map[restic.BlobHandle]int{}, locs: map[restic.BlobHandle]map[string]bool{}, classes: map[string]bool{}}
	nid := rapid.IntRange(1, 6).Draw(t, "nid")
	for i := 0; i < nid; i++ {
		id := idC48("blob", i)
		switch rapid.IntRange(0, 3).Draw(t, "types") {
		case 0:
			w.handles = append(w.handles, restic.BlobHandle{ID: id, Type: restic.TreeBlob})
		case 1: // the same ID as data and as tree blob: two different members
			w.handles = append(w.handles, restic.BlobHandle{ID: id, Type: restic.DataBlob}, restic.BlobHandle{ID: id, Type: restic.TreeBlob})
			w.classes["same-id-both-types"] = true
		default:
			w.handles = append(w.handles, restic.BlobHandle{ID: id, Type: restic.DataBlob})
		}
	}
	w.outside = []restic.BlobHandle{
		{ID: idC48("outside", 0), Type: restic.DataBlob},
		{ID: idC48("outside", 1), Type: restic.TreeBlob},
		{ID: w.handles[0].ID, Type: restic.DataBlob + restic.TreeBlob - w.handles[0].Type}, // known ID, other type
	}
	if len(w.handles) > 1 && w.handles[1].ID == w.handles[0].ID {
		w.outside = w.outside[:2]
	}
	npack := rapid.IntRange(1, 5).Draw(t, "npack")
	for i := 0; i < npack; i++ {
		w.packs = append(w.packs, idC48("pack", i))
	}

	// index files as loaded from the repository
	nfiles := rapid.IntRange(0, 4).Draw(t, "nfiles")
	var final []*Index
	for f := 0; f < nfiles; f++ {
		idx := NewIndex()
		np := rapid.IntRange(1, 3).Draw(t, "np")
		for p := 0; p < np; p++ {
			packID := w.packs[rapid.IntRange(0, npack-1).Draw(t, "pack")]
			idx.StorePack(packID, w.genBlobsC48(t, packID, fmt.Sprintf("f%d", f), 5))
		}
		idx.Finalize()
		if err := idx.SetID(idC48("index", f)); err != nil {
			t.Fatalf("SetID: %v", err)
		}
		final = append(final, idx)
	}
	// how many of them are merged (as Load does) before the sets are created
	merged := nfiles
	if nfiles > 0 && rapid.IntRange(0, 3).Draw(t, "leaveUnmerged") == 0 {
		merged = rapid.IntRange(0, nfiles-1).Draw(t, "merged")
		w.classes["unmerged-final-index"] = true
	}
	for _, idx := range final[:merged] {
		w.mi.Insert(idx)
	}
	if err := w.mi.MergeFinalIndexes(); err != nil {
		t.Fatalf("MergeFinalIndexes: %v", err)
	}
	for _, idx := range final[merged:] {
		w.mi.Insert(idx)
	}
	// packs written in this run, not yet saved
	if rapid.IntRange(0, 2).Draw(t, "nonfinal") == 0 {
		w.storeNewPackC48(t)
		w.classes["nonfinal-index"] = true
	}
	return w
}

func (w *vWorldC48) storeNewPackC48(t *rapid.T) {
	var packID restic.ID
	if rapid.Bool().Draw(t, "reusePack") {
		packID = w.packs[rapid.IntRange(0, len(w.packs)-1).Draw(t, "pack")]
	} else {
		packID = idC48("newpack", w.newPacks)
	}
	w.newPacks++
	w.mi.storePack(packID, w.genBlobsC48(t, packID, fmt.Sprintf("n%d", w.newPacks), 4))
}

type vSetC48 struct {
	s *AssociatedSet[uint8]
	m map[restic.BlobHandle]uint8
}

func (w *vWorldC48) universeC48() []restic.BlobHandle {
	return append(append([]restic.BlobHandle{}, w.handles...), w.outside...)
}

func (w *vWorldC48) checkSetC48(t *rapid.T, name string, vs *vSetC48) {
	if got := vs.s.Len(); got != len(vs.m) {
		t.Fatalf("%s.Len()=%d, set has %d distinct members %v; Keys()=%v", name, got, len(vs.m), keysC48(vs.m), vs.s.String())
	}
	seen := map[restic.BlobHandle]int{}
	for bh := range vs.s.Keys() {
		seen[bh]++
		if _, ok := vs.m[bh]; !ok {
			t.Fatalf("%s.Keys() yields %v which is not a member (members %v)", name, bh, keysC48(vs.m))
		}
		if seen[bh] > 1 {
			t.Fatalf("%s.Keys() yields %v %d times (index entries for it: %d)", name, bh, seen[bh], w.entries[bh])
		}
	}
	if len(seen) != len(vs.m) {
		t.Fatalf("%s.Keys() yields %d members, set has %d: %v", name, len(seen), len(vs.m), keysC48(vs.m))
	}
	seenAll := map[restic.BlobHandle]int{}
	for bh, v := range vs.s.All() {
		seenAll[bh]++
		want, ok := vs.m[bh]
		if !ok || seenAll[bh] > 1 || v != want {
			t.Fatalf("%s.All() yields (%v,%d) #%d; member=%v want value %d", name, bh, v, seenAll[bh], ok, want)
		}
	}
	if len(seenAll) != len(vs.m) {
		t.Fatalf("%s.All() yields %d members, set has %d", name, len(seenAll), len(vs.m))
	}
	for _, bh := range w.universeC48() {
		want, ok := vs.m[bh]
		got, has := vs.s.Get(bh)
		if has != ok || (ok && got != want) || vs.s.Has(bh) != ok {
			t.Fatalf("%s.Get(%v)=(%d,%v) Has=%v, want (%d,%v)", name, bh, got, has, vs.s.Has(bh), want, ok)
		}
	}
	// early exit
	for range vs.s.Keys() {
		break
	}
}

func keysC48(m map[restic.BlobHandle]uint8) string {
	var s []string
	for bh, v := range m {
		s = append(s, fmt.Sprintf("%v=%d", bh, v))
	}
	sort.Strings(s)
	return strings.Join(s, " ")
}

func TestVerifC48AssociatedSet(t *testing.T) {
	st := verifkit.Begin(t, "C48")
	rapid.Check(t, func(t *rapid.T) {
		w := genWorldC48(t)
		uni := w.universeC48()
		sets := []*vSetC48{
			{NewAssociatedSet[uint8](w.mi), map[restic.BlobHandle]uint8{}},
			{NewAssociatedSet[uint8](w.mi), map[restic.BlobHandle]uint8{}},
		}
		h := sha256.New()
		nops := rapid.OneOf(rapid.IntRange(0, 8), rapid.IntRange(4, 40)).Draw(t, "nops")
		nt := false
		noteNT := func() {
			for _, vs := range sets {
				for bh := range vs.m {
					if len(w.mi.Lookup(bh)) < 2 {
						continue
					}
					nt = true
					w.classes["member-with>=2-index-entries"] = true
					if _, inOverflow := vs.s.overflow[bh]; inOverflow {
						w.classes["dup-member-in-overflow"] = true
					} else {
						w.classes["dup-member-in-array"] = true
					}
				}
				if len(vs.s.overflow) > 0 {
					w.classes["overflow-member"] = true
				}
			}
		}
		for op := 0; op < nops; op++ {
			kind := rapid.IntRange(0, 13).Draw(t, "op")
			si := rapid.IntRange(0, 1).Draw(t, "set")
			vs := sets[si]
			fmt.Fprintf(h, "%d.%d,", kind, si)
			switch {
			case kind <= 3:
				bh := uni[rapid.IntRange(0, len(uni)-1).Draw(t, "h")]
				v := uint8(rapid.IntRange(0, 3).Draw(t, "v"))
				vs.s.Set(bh, v)
				vs.m[bh] = v
				fmt.Fprintf(h, "%v=%d,", bh, v)
			case kind <= 5:
				bh := uni[rapid.IntRange(0, len(uni)-1).Draw(t, "h")]
				vs.s.Insert(bh)
				vs.m[bh] = 0
				fmt.Fprintf(h, "%v,", bh)
			case kind <= 7:
				bh := uni[rapid.IntRange(0, len(uni)-1).Draw(t, "h")]
				vs.s.Delete(bh)
				delete(vs.m, bh)
				fmt.Fprintf(h, "%v,", bh)
			case kind == 8: // insert everything the index knows (as prune/check do with ListBlobs)
				for pb := range w.mi.Values() {
					vs.s.Set(pb.Handle(), 1)
					vs.m[pb.Handle()] = 1
				}
				w.classes["insert-all-index-blobs"] = true
			case kind == 9 || kind == 10:
				other := sets[1-si]
				var res *AssociatedSet[uint8]
				want := map[restic.BlobHandle]uint8{}
				useBlobSet := rapid.Bool().Draw(t, "plainBlobSet")
				var oh haser = other.s
				if useBlobSet {
					bs := restic.NewBlobSet()
					for bh := range other.m {
						bs.Insert(bh)
					}
					oh = bs
				}
				if kind == 9 {
					res = vs.s.Intersect(oh)
					for bh, v := range vs.m {
						if _, ok := other.m[bh]; ok {
							want[bh] = v
						}
					}
					w.classes["intersect"] = true
				} else {
					res = vs.s.Sub(oh)
					for bh, v := range vs.m {
						if _, ok := other.m[bh]; !ok {
							want[bh] = v
						}
					}
					w.classes["sub"] = true
				}
				// the operands are unchanged, the result replaces a drawn one
				w.checkSetC48(t, "operand", vs)
				w.checkSetC48(t, "other", other)
				sets[rapid.IntRange(0, 1).Draw(t, "dst")] = &vSetC48{res, want}
			case kind == 11: // the index grows while the sets are alive (copy, backup, repack)
				w.storeNewPackC48(t)
				w.classes["index-grown-after-creation"] = true
			case kind == 12: // pending packs are saved and merged into the main index
				if err := w.mi.Flush(context.Background(), vSaverC48{}); err != nil {
					t.Fatalf("Flush: %v", err)
				}
				w.classes["flush-merge-after-creation"] = true
			default: // a new set over the current (possibly grown) index
				sets[si] = &vSetC48{NewAssociatedSet[uint8](w.mi), map[restic.BlobHandle]uint8{}}
			}
			noteNT()
			for i, s := range sets {
				w.checkSetC48(t, fmt.Sprintf("set%d", i), s)
			}
		}
		noteNT()
		for i, s := range sets {
			w.checkSetC48(t, fmt.Sprintf("set%d", i), s)
		}
		var classes []string
		for c := range w.classes {
			classes = append(classes, c)
		}
		sort.Strings(classes)
		key := ""
		if nt {
			for _, bh := range w.handles {
				fmt.Fprintf(h, "|%v:%d", bh, w.entries[bh])
			}
			key = fmt.Sprintf("%x", h.Sum(nil))
			classes = append(classes, "nontrivial")
		}
		st.Case(key, classes...)
		if st.WantSample() {
			st.Sample(map[string]any{"handles": len(w.handles), "ops": nops, "index_entries": fmt.Sprint(w.entries), "classes": classes,
				"set0": keysC48(sets[0].m), "set1": keysC48(sets[1].m)})
		}
	})
}

// TestVerifC48Regression is the regression probe for the defect repaired in
// /repo (32aed4623): a blob with several index entries was reported once per
// entry. Shapes: one blob in two packs of one index file; one blob in two index
// files (merged as Load does, and left unmerged); the same for a drawn number of
// extra copies. The IDs are drawn so that bucket placement varies.
func TestVerifC48Regression(t *testing.T) {
	st := verifkit.Begin(t, "C48")
	rapid.Check(t, func(t *rapid.T) {
		var bh restic.BlobHandle
		copy(bh.ID[:], rapid.SliceOfN(rapid.Byte(), 32, 32).Draw(t, "id"))
		bh.Type = rapid.SampledFrom([]restic.BlobType{restic.DataBlob, restic.TreeBlob}).Draw(t, "type")
		shape := rapid.SampledFrom([]string{"two-packs-one-file", "two-files-merged", "two-files-unmerged", "file-and-pending"}).Draw(t, "shape")
		copies := rapid.IntRange(2, 5).Draw(t, "copies")
		other := restic.BlobHandle{ID: idC48("reg-other", 0), Type: bh.Type}
		if other == bh {
			return
		}

		mi := NewMasterIndex()
		blob := func(h restic.BlobHandle, off uint) pack.Blob {
			return pack.Blob{BlobHandle: h, Offset: off, Length: 50}
		}
		mkFile := func(i int, packs ...int) *Index {
			idx := NewIndex()
			for _, p := range packs {
				idx.StorePack(idC48("reg-pack", p), pack.Blobs{blob(bh, 0), blob(other, 50)}[:1+p%2])
			}
			idx.Finalize()
			if err := idx.SetID(idC48("reg-index", i)); err != nil {
				t.Fatalf("SetID: %v", err)
			}
			return idx
		}
		switch shape {
		case "two-packs-one-file":
			ps := make([]int, copies)
			for i := range ps {
				ps[i] = i
			}
			mi.Insert(mkFile(0, ps...))
			if err := mi.MergeFinalIndexes(); err != nil {
				t.Fatalf("%v", err)
			}
		case "two-files-merged", "two-files-unmerged":
			for i := 0; i < copies; i++ {
				mi.Insert(mkFile(i, i))
				if shape == "two-files-merged" || i == 0 {
					if err := mi.MergeFinalIndexes(); err != nil {
						t.Fatalf("%v", err)
					}
				}
			}
		case "file-and-pending":
			mi.Insert(mkFile(0, 0))
			if err := mi.MergeFinalIndexes(); err != nil {
				t.Fatalf("%v", err)
			}
			for i := 1; i < copies; i++ {
				mi.storePack(idC48("reg-pack", i), pack.Blobs{blob(bh, 0)})
			}
		}
		if n := len(mi.Lookup(bh)); n != copies {
			t.Fatalf("setup: %d index entries for the blob, want %d", n, copies)
		}
		set := NewAssociatedSet[uint8](mi)
		set.Set(bh, 7)
		if set.Len() != 1 {
			t.Fatalf("%s x%d: Len()=%d for a set with one member", shape, copies, set.Len())
		}
		n := 0
		for k, v := range set.All() {
			n++
			if k != bh || v != 7 {
				t.Fatalf("%s: All() yields (%v,%d)", shape, k, v)
			}
		}
		nk := 0
		for range set.Keys() {
			nk++
		}
		if n != 1 || nk != 1 {
			t.Fatalf("%s x%d: member enumerated %d times by All(), %d times by Keys()", shape, copies, n, nk)
		}
		// the same through the interface prune/check use: all index blobs inserted
		all := NewAssociatedSet[uint8](mi)
		distinct := map[restic.BlobHandle]bool{}
		for pb := range mi.Values() {
			all.Insert(pb.Handle())
			distinct[pb.Handle()] = true
		}
		if all.Len() != len(distinct) {
			t.Fatalf("%s x%d: Len()=%d after inserting %d distinct blobs", shape, copies, all.Len(), len(distinct))
		}
		st.Case(fmt.Sprintf("reg|%s|%d|%v", shape, copies, bh), "regression-"+shape, "nontrivial")
	})
}
