package pack

// Property C06: pack files list back exactly the blobs written into them; truncated,
// extended or malformed packs are rejected with an error, never a panic, never a
// different listing.
//
// Oracle:
//   * model of the blobs handed to the real Packer (type, ID, offset = running sum,
//     stored length, uncompressed length); List must return exactly the model, hdrSize
//     must be 4 + 32 + sum(entry sizes) and sum(lengths) + hdrSize the file size;
//   * refListC06: a parser written from doc/design.rst ("Pack Format") that decides for
//     ANY byte string whether it is a well-formed pack tail and what it lists. Every
//     mutated file is judged by it in both directions (reference lists => List returns
//     the same listing; reference rejects => List returns an error);
//   * statement level: every mutation that can be done without the key (truncation,
//     extension, length field values, bit flips in the encrypted header) must end in an
//     error.

import (
	"bytes"
	"encoding/binary"
	"fmt"
	"io"
	"math/rand/v2"
	"testing"

	"github.com/restic/restic/internal/repository/crypto"
	"github.com/restic/restic/internal/restic"
	"github.com/restic/restic/internal/verifkit"
	"pgregory.net/rapid"
)

// ---------------------------------------------------------------- reference

const (
	refPlainEntryC06 = 1 + 4 + 32
	refComprEntryC06 = 1 + 4 + 4 + 32
	refMaxHeaderC06  = 16 * 1024 * 1024 // encrypted header without the length field
	refMinFileC06    = refPlainEntryC06 + 32 + 4
)

// refParseHeaderC06 parses a decrypted header as documented.
func refParseHeaderC06(p []byte) ([]Blob, bool) {
	var out []Blob
	var off uint
	for len(p) > 0 {
		if len(p) < refPlainEntryC06 {
			return nil, false
		}
		var b Blob
		switch p[0] {
		case 0:
			b.Type = restic.DataBlob
		case 1:
			b.Type = restic.TreeBlob
		case 2:
			b.Type = restic.DataBlob
		case 3:
			b.Type = restic.TreeBlob
		default:
			return nil, false
		}
		b.Length = uint(binary.LittleEndian.Uint32(p[1:5]))
		n := refPlainEntryC06
		if p[0] >= 2 {
			if len(p) < refComprEntryC06 {
				return nil, false
			}
			b.UncompressedLength = uint(binary.LittleEndian.Uint32(p[5:9]))
			copy(b.ID[:], p[9:41])
			n = refComprEntryC06
		} else {
			copy(b.ID[:], p[5:37])
		}
		b.Offset = off
		off += b.Length
		out = append(out, b)
		p = p[n:]
	}
	return out, true
}

// refListC06 decides whether file is a well-formed pack (tail) under key k.
func refListC06(k *crypto.Key, file []byte) (entries []Blob, hdrSize uint32, ok bool) {
	size := len(file)
	if size < 4 {
		return nil, 0, false
	}
	hlen := int64(binary.LittleEndian.Uint32(file[size-4:]))
	if hlen < 32 || hlen > int64(size-4) || hlen > refMaxHeaderC06 {
		return nil, 0, false
	}
	enc := file[size-4-int(hlen) : size-4]
	plain, err := k.Open(nil, enc[:16], enc[16:], nil)
	if err != nil {
		return nil, 0, false
	}
	entries, ok = refParseHeaderC06(plain)
	if !ok {
		return nil, 0, false
	}
	return entries, uint32(hlen) + 4, true
}

func refEncodeEntryC06(b Blob, forceType int) []byte {
	var e []byte
	t := byte(0)
	if b.Type == restic.TreeBlob {
		t = 1
	}
	if b.UncompressedLength != 0 {
		t |= 2
	}
	if forceType >= 0 {
		t = byte(forceType)
	}
	e = append(e, t)
	e = binary.LittleEndian.AppendUint32(e, uint32(b.Length))
	if t&2 != 0 || (forceType >= 4 && b.UncompressedLength != 0) {
		e = binary.LittleEndian.AppendUint32(e, uint32(b.UncompressedLength))
	}
	return append(e, b.ID[:]...)
}

// ---------------------------------------------------------------- generators

func prfC06(seed, stream uint64) *rand.Rand { return rand.New(rand.NewPCG(seed, stream)) }

func prfBytesC06(r *rand.Rand, n int) []byte {
	b := make([]byte, n)
	for i := 0; i+8 <= n; i += 8 {
		binary.LittleEndian.PutUint64(b[i:], r.Uint64())
	}
	for i := n &^ 7; i < n; i++ {
		b[i] = byte(r.Uint64())
	}
	return b
}

func genKeyC06(seed uint64) *crypto.Key {
	r := prfC06(seed, 1)
	k := &crypto.Key{}
	copy(k.EncryptionKey[:], prfBytesC06(r, 32))
	copy(k.MACKey.K[:], prfBytesC06(r, 16))
	copy(k.MACKey.R[:], prfBytesC06(r, 16))
	return k
}

type blobSpecC06 struct {
	Type    restic.BlobType
	ID      restic.ID
	Len     int
	Uncompr uint // 0 = stored uncompressed
}

var uncomprValuesC06 = []uint{1, 2, 31, 32, 255, 256, 65535, 65536, 1 << 24, 1<<31 - 1, 1 << 31, 1<<32 - 1}

func genBlobsC06(t *rapid.T) []blobSpecC06 {
	n := rapid.OneOf(
		rapid.SampledFrom([]int{0, 1, 1, 2, 3, 13, 14, 15, 16, 17, 18}), // eagerEntries = 15
		rapid.IntRange(2, 40),
		rapid.IntRange(2, 40),
		rapid.IntRange(2, 40),
		rapid.IntRange(41, 400),
		rapid.IntRange(41, 400),
		rapid.SampledFrom([]int{401, 1000, 3000}),
	).Draw(t, "nblobs")
	if n >= 401 {
		n = rapid.IntRange(401, 3000).Draw(t, "nblobsMid")
	}
	if rapid.IntRange(0, 299).Draw(t, "huge") == 150 { // an inner value: rapid favours the bounds
		n = rapid.IntRange(3001, 20000).Draw(t, "nblobsHuge")
	}
	mix := rapid.SampledFrom([]string{"mixed", "mixed", "mixed", "plain", "compressed", "mostly-plain", "mostly-compressed"}).Draw(t, "mix")
	types := rapid.SampledFrom([]string{"data", "tree", "both"}).Draw(t, "types")
	specs := make([]blobSpecC06, n)
	if n <= 48 {
		for i := range specs {
			s := &specs[i]
			s.Type = restic.DataBlob
			if types == "tree" || types == "both" && rapid.Bool().Draw(t, "tree") {
				s.Type = restic.TreeBlob
			}
			s.Len = rapid.OneOf(rapid.IntRange(0, 80), rapid.SampledFrom([]int{0, 1, 31, 32, 33, 36, 37, 41, 255, 256, 4096}),
				rapid.IntRange(0, 80), rapid.IntRange(81, 70000)).Draw(t, "len")
			compressed := false
			switch mix {
			case "mixed":
				compressed = rapid.Bool().Draw(t, "compressed")
			case "compressed":
				compressed = true
			case "mostly-plain":
				compressed = rapid.IntRange(0, 9).Draw(t, "c10") == 0
			case "mostly-compressed":
				compressed = rapid.IntRange(0, 9).Draw(t, "c10") != 0
			}
			if compressed {
				s.Uncompr = rapid.OneOf(rapid.SampledFrom(uncomprValuesC06), rapid.UintRange(1, 1<<32-1), rapid.UintRange(1, 100000)).Draw(t, "uncompr")
			}
			copy(s.ID[:], rapid.SliceOfN(rapid.Byte(), 32, 32).Draw(t, "id"))
		}
		if n >= 2 && rapid.IntRange(0, 9).Draw(t, "dupid") == 0 {
			specs[n-1].ID = specs[0].ID // the same blob twice in one pack is legal
		}
		return specs
	}
	// bulk: expand one drawn seed
	r := prfC06(rapid.Uint64().Draw(t, "bulkseed"), 2)
	bigAt := -1
	if rapid.IntRange(0, 3).Draw(t, "withbig") == 0 {
		bigAt = rapid.IntRange(0, n-1).Draw(t, "bigat")
	}
	for i := range specs {
		s := &specs[i]
		s.Type = restic.DataBlob
		if types == "tree" || types == "both" && r.IntN(2) == 0 {
			s.Type = restic.TreeBlob
		}
		s.Len = r.IntN(9)
		if n <= 400 {
			s.Len = r.IntN(200)
		}
		if i == bigAt {
			s.Len = 100000 + r.IntN(900000)
		}
		compressed := false
		switch mix {
		case "mixed":
			compressed = r.IntN(2) == 0
		case "compressed":
			compressed = true
		case "mostly-plain":
			compressed = r.IntN(50) == 0
		case "mostly-compressed":
			compressed = r.IntN(50) != 0
		}
		if compressed {
			if r.IntN(4) == 0 {
				s.Uncompr = uncomprValuesC06[r.IntN(len(uncomprValuesC06))]
			} else {
				s.Uncompr = uint(r.Uint32())
				if s.Uncompr == 0 {
					s.Uncompr = 1
				}
			}
		}
		copy(s.ID[:], prfBytesC06(r, 32))
	}
	return specs
}

// ---------------------------------------------------------------- helpers

// listC06 calls List and converts a panic into a failure description.
func listC06(k *crypto.Key, file []byte) (entries Blobs, hdrSize uint32, err error, panicked any) {
	defer func() {
		if r := recover(); r != nil {
			panicked = r
		}
	}()
	entries, hdrSize, err = List(k, bytes.NewReader(file), int64(len(file)))
	return
}

func sameListingC06(got Blobs, want []Blob) string {
	if len(got) != len(want) {
		return fmt.Sprintf("%d entries, want %d", len(got), len(want))
	}
	for i := range want {
		if got[i] != want[i] {
			return fmt.Sprintf("entry %d is %v, want %v", i, got[i], want[i])
		}
	}
	return ""
}

// judgeC06 checks List on an arbitrary file against the reference in both directions.
// mustReject: the mutation was made without the key, the statement demands an error.
// It returns "accepted" / "rejected" for the histogram.
func judgeC06(t *rapid.T, k *crypto.Key, file []byte, mustReject bool, whatFmt string, whatArgs ...any) string {
	what := lazyC06{whatFmt, whatArgs}
	refEntries, refHdr, refOK := refListC06(k, file)
	got, hdr, err, pv := listC06(k, file)
	if pv != nil {
		t.Fatalf("%s: List panicked: %v", what, pv)
	}
	if err != nil && (got != nil || hdr != 0) {
		t.Fatalf("%s: List returned an error together with a listing (%d entries, hdrSize %d)", what, len(got), hdr)
	}
	if mustReject {
		if refOK {
			t.Fatalf("%s: reference accepts a keyless mutation (coincidence of negligible probability, or harness error)", what)
		}
		if err == nil {
			t.Fatalf("%s: damaged pack was listed without error (%d entries)", what, len(got))
		}
		return "rejected"
	}
	switch {
	case refOK && len(file) >= refMinFileC06:
		if err != nil {
			// A header that was crafted with the key and that the documented format allows, but that
			// no Packer writes (e.g. a compressed entry with uncompressed length 0): the statement
			// demands "an error, never a panic or a wrong listing" for malformed packs and a correct
			// listing for packs that were WRITTEN; refusing such a header is therefore not a
			// violation (a benign tightening of parseHeaderEntry was flagged here before). Packs
			// written by the real Packer are judged by oracle A, where an error is a violation.
			return "refused-though-format-allows"
		}
		if d := sameListingC06(got, refEntries); d != "" {
			t.Fatalf("%s: wrong listing: %s", what, d)
		}
		if hdr != refHdr {
			t.Fatalf("%s: hdrSize %d, want %d", what, hdr, refHdr)
		}
		return "accepted"
	case refOK: // shorter than any pack with at least one entry: List may refuse, must not invent
		if err == nil {
			if d := sameListingC06(got, refEntries); d != "" || hdr != refHdr {
				t.Fatalf("%s: wrong listing for tiny file: %s", what, d)
			}
			return "accepted"
		}
		return "rejected"
	default:
		if err == nil {
			t.Fatalf("%s: malformed pack was listed without error (%d entries)", what, len(got))
		}
		return "rejected"
	}
}

type lazyC06 struct {
	f string
	a []any
}

func (l lazyC06) String() string { return fmt.Sprintf(l.f, l.a...) }

// sealHeaderC06 builds  front || nonce || Seal(plainHeader) || len  with the key.
func sealHeaderC06(k *crypto.Key, front, plainHeader, nonce []byte) []byte {
	out := append([]byte(nil), front...)
	out = append(out, nonce...)
	out = k.Seal(out, nonce, plainHeader, nil)
	return binary.LittleEndian.AppendUint32(out, uint32(len(plainHeader)+32))
}

type failWriterC06 struct {
	w     io.Writer
	after int
}

func (f *failWriterC06) Write(p []byte) (int, error) {
	if f.after <= 0 {
		return 0, fmt.Errorf("injected write error")
	}
	f.after--
	return f.w.Write(p)
}

// ---------------------------------------------------------------- the property

func TestVerifC06PackList(t *testing.T) {
	st := verifkit.Begin(t, "C06")
	rapid.Check(t, func(t *rapid.T) {
		keySeed := rapid.Uint64().Draw(t, "keyseed")
		k := genKeyC06(keySeed)
		specs := genBlobsC06(t)
		n := len(specs)
		dataRnd := prfC06(keySeed, 3)

		// ---- write with the real Packer, keep the model
		var buf bytes.Buffer
		p := NewPacker(k, &buf)
		want := make([]Blob, 0, n)
		var off uint
		nCompr, nPlain, entryBytes := 0, 0, 0
		for i, s := range specs {
			data := prfBytesC06(dataRnd, s.Len)
			ret, err := p.Add(s.Type, s.ID, data, int(s.Uncompr))
			es := refPlainEntryC06
			if s.Uncompr != 0 {
				es = refComprEntryC06
				nCompr++
			} else {
				nPlain++
			}
			entryBytes += es
			if err != nil || ret != s.Len+es {
				t.Fatalf("Add #%d returned (%d, %v), want %d", i, ret, err, s.Len+es)
			}
			want = append(want, Blob{BlobHandle: restic.BlobHandle{Type: s.Type, ID: s.ID}, Length: uint(s.Len), Offset: off, UncompressedLength: s.Uncompr})
			off += uint(s.Len)
			if p.Size() != off || p.Count() != i+1 {
				t.Fatalf("after Add #%d: Size %d Count %d, want %d %d", i, p.Size(), p.Count(), off, i+1)
			}
		}
		if p.HeaderFull() {
			t.Fatalf("HeaderFull with %d entries", n)
		}
		err := p.Finalize()

		sizeClass := "blobs=0"
		switch {
		case n == 1:
			sizeClass = "blobs=1"
		case n >= 2 && n <= 13:
			sizeClass = "blobs=2..13"
		case n >= 14 && n <= 18:
			sizeClass = "blobs=14..18(eager-read boundary)"
		case n >= 19 && n <= 400:
			sizeClass = "blobs=19..400"
		case n > 400 && n <= 3000:
			sizeClass = "blobs=401..3000"
		case n > 3000:
			sizeClass = "blobs=3001..20000"
		}
		mixClass := "entries=empty"
		switch {
		case nCompr > 0 && nPlain > 0:
			mixClass = "entries=mixed"
		case nCompr > 0:
			mixClass = "entries=all-compressed"
		case nPlain > 0:
			mixClass = "entries=all-plain"
		}

		if n == 0 {
			// A pack needs at least one blob (doc: minimum file size); the Packer must refuse
			// or produce something that lists as empty - never a non-empty listing.
			if err == nil {
				if got, _, lerr, pv := listC06(k, buf.Bytes()); pv != nil || (lerr == nil && len(got) != 0) {
					t.Fatalf("empty packer: listing %v panic %v", got, pv)
				}
			} else if buf.Len() != 0 {
				t.Fatalf("empty packer: Finalize failed (%v) but wrote %d bytes", err, buf.Len())
			}
			st.Case("", sizeClass, mixClass)
			return
		}
		if err != nil {
			t.Fatalf("Finalize failed for %d blobs: %v", n, err)
		}
		file := buf.Bytes()
		size := len(file)
		wantHdr := uint32(4 + 32 + entryBytes)
		if p.Size() != uint(size) {
			t.Fatalf("Packer.Size %d, file has %d bytes", p.Size(), size)
		}
		if uint(size) != off+uint(wantHdr) {
			t.Fatalf("file size %d != blob bytes %d + header %d", size, off, wantHdr)
		}
		if binary.LittleEndian.Uint32(file[size-4:]) != wantHdr-4 {
			t.Fatalf("length field %d, want %d", binary.LittleEndian.Uint32(file[size-4:]), wantHdr-4)
		}
		if CalculateHeaderSize(want) != int(wantHdr) {
			t.Fatalf("CalculateHeaderSize %d, want %d", CalculateHeaderSize(want), wantHdr)
		}

		// ---- List == model
		got, hdr, lerr, pv := listC06(k, file)
		if pv != nil || lerr != nil {
			t.Fatalf("List of a fresh pack with %d blobs failed: %v %v", n, lerr, pv)
		}
		if d := sameListingC06(got, want); d != "" {
			t.Fatalf("List of fresh pack: %s", d)
		}
		if hdr != wantHdr {
			t.Fatalf("hdrSize %d, want %d", hdr, wantHdr)
		}
		var sum uint
		for _, b := range got {
			sum += b.Length
		}
		if sum+uint(hdr) != uint(size) {
			t.Fatalf("sum of lengths %d + hdrSize %d != file size %d", sum, hdr, size)
		}
		if _, _, ok := refListC06(k, file); !ok {
			t.Fatalf("reference rejects the fresh pack")
		}
		evals := 1

		big := size > 64*1024 || wantHdr > 4096
		m := append([]byte(nil), file...)
		hdrStart := size - int(wantHdr)
		muts := map[string]int{}

		// ---- a wrong key never lists
		judgeC06(t, genKeyC06(keySeed+1), file, true, "foreign key")
		muts["mut=foreign-key"]++
		evals++

		// ---- front is irrelevant: damaging blob bytes never changes the listing
		if hdrStart > 0 {
			pos := rapid.IntRange(0, hdrStart-1).Draw(t, "frontpos")
			m[pos] ^= 0x40
			g2, h2, e2, pv2 := listC06(k, m)
			if pv2 != nil || e2 != nil || h2 != hdr || sameListingC06(g2, want) != "" {
				t.Fatalf("flipping a bit in blob area at %d changed the listing: %v %v", pos, e2, pv2)
			}
			m[pos] ^= 0x40
			muts["control=front-flip-same-listing"]++
			evals++
		}

		// ---- truncation by k
		var ks []int
		if !big && size <= 1500 {
			for c := 1; c <= size; c++ {
				ks = append(ks, c)
			}
		} else {
			for c := 1; c <= 40; c++ {
				if !big || c <= 8 || c == 16 || c == 32 {
					ks = append(ks, c)
				}
			}
			ks = append(ks, int(wantHdr)-1, int(wantHdr), int(wantHdr)+1, size-1, size, size-4, size-72, size-73, size-74)
			ks = append(ks, rapid.SliceOfN(rapid.IntRange(1, size), 4, 12).Draw(t, "trunc")...)
		}
		for _, c := range ks {
			if c < 1 || c > size {
				continue
			}
			judgeC06(t, k, file[:size-c], true, "truncated by %d to %d bytes", c, size-c)
			muts["mut=truncate"]++
			evals++
		}

		// ---- extension by k bytes
		extRnd := prfC06(keySeed, 4)
		for _, c := range []int{1, 2, 3, 4, 5, 8, 36, 37, 41, 73, int(wantHdr)} {
			if big && c != 1 && c != 4 && c != 5 && c != int(wantHdr) {
				continue
			}
			for _, kind := range []string{"zero", "ff", "random", "tailcopy"} {
				ext := make([]byte, c)
				switch kind {
				case "ff":
					for i := range ext {
						ext[i] = 0xff
					}
				case "random":
					ext = prfBytesC06(extRnd, c)
				case "tailcopy":
					if c > size {
						continue
					}
					copy(ext, file[size-c:])
				}
				e := append(append(make([]byte, 0, size+c), file...), ext...)
				what := fmt.Sprintf("extended by %d %s bytes", c, kind)
				if kind == "tailcopy" && c == int(wantHdr) {
					// Replaying the pack's own encrypted header behind the pack is, for a reader of
					// the tail, the same as inserting bytes at the front (out of scope for List, see
					// DESIGN C06 Limits): the listing must still be the same or an error.
					g2, _, e2, pv2 := listC06(k, e)
					if pv2 != nil || (e2 == nil && sameListingC06(g2, want) != "") {
						t.Fatalf("%s: different listing / panic: %v %v", what, e2, pv2)
					}
					muts[fmt.Sprintf("control=own-header-replay(listed-same=%v)", e2 == nil)]++
					evals++
					continue
				}
				judgeC06(t, k, e, true, "%s", what)
				muts["mut=extend"]++
				evals++
			}
		}

		// ---- every interesting value of the length field
		orig := wantHdr - 4
		vals := []uint32{0, 1, 15, 16, 31, 32, 33, 36, 37, 41, 68, 69, 72, 73, orig - 1, orig + 1, orig - 37, orig + 37, orig - 41, orig + 41,
			orig - 16, orig + 16, orig - 32, orig + 4, orig ^ 0x80000000, orig | 0x01000000, orig << 8, orig >> 8, orig * 2,
			uint32(size - 4), uint32(size - 5), uint32(size - 3), uint32(size), uint32(size + 1), uint32(size - 36),
			refMaxHeaderC06 - 1, refMaxHeaderC06, refMaxHeaderC06 + 1, refMaxHeaderC06 + 4, refMaxHeaderC06 + 5,
			1 << 31, 1<<31 - 1, 1<<32 - 1, 1<<32 - 2, 1<<32 - 4, 1 << 24, 1 << 16, 1 << 8}
		vals = append(vals, rapid.SliceOfN(rapid.Uint32(), 2, 6).Draw(t, "lenvals")...)
		vals = append(vals, rapid.SliceOfN(rapid.Uint32Range(0, uint32(size+8)), 2, 6).Draw(t, "lenvals2")...)
		for _, v := range vals {
			if v == orig {
				continue
			}
			binary.LittleEndian.PutUint32(m[size-4:], v)
			judgeC06(t, k, m, true, "length field %d -> %d (file %d bytes)", orig, v, size)
			muts["mut=lenfield"]++
			evals++
		}
		binary.LittleEndian.PutUint32(m[size-4:], orig)

		// ---- bit flips inside the encrypted header (nonce, ciphertext, tag)
		hdrBits := (int(wantHdr) - 4) * 8
		var bitsToFlip []int
		if hdrBits <= (32+41*4)*8 {
			for b := 0; b < hdrBits; b++ {
				bitsToFlip = append(bitsToFlip, b)
			}
		} else {
			for b := 0; b < 128+41*8; b++ { // nonce and first entry
				bitsToFlip = append(bitsToFlip, b)
			}
			for b := hdrBits - 128 - 41*8; b < hdrBits; b++ { // last entry and tag
				bitsToFlip = append(bitsToFlip, b)
			}
			cnt := 24
			if big {
				cnt = 6
				bitsToFlip = bitsToFlip[:0]
				for _, b := range []int{0, 127, 128, 128 + 7, hdrBits - 129, hdrBits - 128, hdrBits - 1} {
					bitsToFlip = append(bitsToFlip, b)
				}
			}
			bitsToFlip = append(bitsToFlip, rapid.SliceOfN(rapid.IntRange(0, hdrBits-1), cnt, cnt).Draw(t, "hdrflips")...)
		}
		for _, b := range bitsToFlip {
			m[hdrStart+b/8] ^= 1 << (b % 8)
			judgeC06(t, k, m, true, "bit %d of the encrypted header flipped", b)
			m[hdrStart+b/8] ^= 1 << (b % 8)
			muts["mut=hdrflip"]++
			evals++
		}
		if !bytes.Equal(m, file) {
			t.Fatalf("harness error: mutation buffer not restored")
		}

		// ---- crafted headers, re-encrypted with the key: malformed ones must be refused,
		//      well-formed ones listed exactly as the reference parser reads them
		if !big {
			front := file[:hdrStart]
			nonce := prfBytesC06(extRnd, 16)
			var plain []byte
			for _, b := range want {
				plain = append(plain, refEncodeEntryC06(b, -1)...)
			}
			nCraft := rapid.IntRange(4, 10).Draw(t, "ncraft")
			for c := 0; c < nCraft; c++ {
				kind := rapid.SampledFrom([]string{"badtype", "badtype", "cut-tail", "cut-compressed-entry", "junk-tail", "type-to-compressed",
					"type-to-plain", "random-plaintext", "empty-header", "reordered", "huge-lengths"}).Draw(t, "craft")
				var h []byte
				idx := rapid.IntRange(0, n-1).Draw(t, "entry")
				entryOff := 0
				for i := 0; i < idx; i++ {
					entryOff += len(refEncodeEntryC06(want[i], -1))
				}
				switch kind {
				case "badtype":
					h = append([]byte(nil), plain...)
					h[entryOff] = byte(rapid.OneOf(rapid.IntRange(4, 255), rapid.SampledFrom([]int{4, 5, 6, 7, 8, 16, 0x80, 0x82, 0xfe, 0xff})).Draw(t, "type"))
				case "cut-tail":
					cut := rapid.IntRange(1, min(len(plain), 45)).Draw(t, "cut")
					h = append([]byte(nil), plain[:len(plain)-cut]...)
				case "cut-compressed-entry": // a compressed entry with only 37..40 bytes left
					h = append([]byte(nil), plain[:entryOff]...)
					e := refEncodeEntryC06(Blob{BlobHandle: want[idx].BlobHandle, Length: want[idx].Length, UncompressedLength: 7}, -1)
					h = append(h, e[:rapid.IntRange(37, 40).Draw(t, "keep")]...)
				case "junk-tail":
					h = append(append([]byte(nil), plain...), prfBytesC06(extRnd, rapid.IntRange(1, 36).Draw(t, "junk"))...)
					h[len(plain)] &= 3 // looks like the start of a valid entry
				case "type-to-compressed": // plain entry relabelled: shifts all following entries
					h = append([]byte(nil), plain...)
					h[entryOff] |= 2
				case "type-to-plain":
					h = append([]byte(nil), plain...)
					h[entryOff] &^= 2
				case "random-plaintext":
					h = prfBytesC06(extRnd, rapid.SampledFrom([]int{1, 36, 37, 38, 41, 74, 78, 82, 200}).Draw(t, "rlen"))
					if rapid.Bool().Draw(t, "oktype") {
						h[0] &= 3
					}
				case "empty-header":
					h = nil
				case "reordered":
					for _, j := range rapid.Permutation(seqC06(min(n, 8))).Draw(t, "perm") {
						h = append(h, refEncodeEntryC06(want[j], -1)...)
					}
				case "huge-lengths":
					for i := 0; i < min(n, 5); i++ {
						b := want[i]
						b.Length = uint(rapid.SampledFrom([]uint32{1<<32 - 1, 1 << 31, 1<<32 - 2, 0}).Draw(t, "hl"))
						h = append(h, refEncodeEntryC06(b, -1)...)
					}
				}
				crafted := sealHeaderC06(k, front, h, nonce)
				verdict := judgeC06(t, k, crafted, false, "crafted header %s (entry %d of %d)", kind, idx, n)
				muts["crafted="+kind+"/"+verdict]++
				evals++
			}
		}

		key := ""
		if n >= 2 && nCompr > 0 && nPlain > 0 {
			key = fmt.Sprintf("%x|%d|%d|%x", keySeed, n, nCompr, want[0].ID[:8])
		}
		st.Case(key, sizeClass, mixClass)
		st.Evals(evals - 1)
		for c, v := range muts {
			st.ClassN(c, v)
		}
		if st.WantSample() {
			st.Sample(map[string]any{"blobs": n, "compressed": nCompr, "plain": nPlain, "file_size": size, "hdr_size": wantHdr, "mutations": muts})
		}
	})
}

func seqC06(n int) []int {
	s := make([]int, n)
	for i := range s {
		s[i] = i
	}
	return s
}

// TestVerifC06PackerErrors: a Packer whose writer fails, or that is given an invalid
// blob type, must report it - it never claims to have produced a pack that then lists
// differently from what was added.
func TestVerifC06PackerErrors(t *testing.T) {
	st := verifkit.Begin(t, "C06")
	rapid.Check(t, func(t *rapid.T) {
		keySeed := rapid.Uint64().Draw(t, "keyseed")
		k := genKeyC06(keySeed)
		n := rapid.IntRange(1, 12).Draw(t, "n")
		kind := rapid.SampledFrom([]string{"write-error", "invalid-type"}).Draw(t, "kind")
		var buf bytes.Buffer
		failAt := rapid.IntRange(0, n).Draw(t, "failat") // n = the header write
		var w io.Writer = &buf
		if kind == "write-error" {
			w = &failWriterC06{w: &buf, after: failAt}
		}
		p := NewPacker(k, w)
		r := prfC06(keySeed, 5)
		var want []Blob
		var off uint
		sawErr := false
		badIdx := rapid.IntRange(0, n-1).Draw(t, "badidx")
		for i := 0; i < n; i++ {
			tpe := restic.BlobType(1 + r.IntN(2))
			if kind == "invalid-type" && i == badIdx {
				tpe = restic.BlobType(rapid.SampledFrom([]int{0, 3, 4, 255}).Draw(t, "btype"))
			}
			var id restic.ID
			copy(id[:], prfBytesC06(r, 32))
			data := prfBytesC06(r, 1+r.IntN(60))
			ul := uint(r.IntN(2) * (1 + r.IntN(1000)))
			_, err := p.Add(tpe, id, data, int(ul))
			if err != nil {
				sawErr = true
				continue
			}
			if sawErr {
				t.Fatalf("Add succeeded after an earlier write error")
			}
			want = append(want, Blob{BlobHandle: restic.BlobHandle{Type: tpe, ID: id}, Length: uint(len(data)), Offset: off, UncompressedLength: ul})
			off += uint(len(data))
		}
		err := p.Finalize()
		st.Case(fmt.Sprintf("%s|%x|%d|%d", kind, keySeed, n, failAt), "packer-error="+kind)
		if err == nil {
			if kind == "invalid-type" || sawErr {
				t.Fatalf("%s: Finalize reported success", kind)
			}
			t.Fatalf("write-error: Finalize reported success although the writer failed at write %d of %d", failAt, n+1)
		}
		// whatever was written must not list as a well-formed pack with a different content
		got, _, lerr, pv := listC06(k, buf.Bytes())
		if pv != nil {
			t.Fatalf("List panicked on the partial pack: %v", pv)
		}
		if lerr == nil && sameListingC06(got, want) != "" {
			t.Fatalf("partial pack lists %d entries, %d were added", len(got), len(want))
		}
	})
}

// TestVerifC06HeaderLimit: HeaderFull/MaxHeaderEntries agree with what List accepts.
// quick: arithmetic only (HeaderFull()==false  <=>  one more compressed entry still
// gives a header List can read: 32 + 41*(n+1) <= 16 MiB). thorough: real packs with
// MaxHeaderEntries-1, =, +1 blobs and byte-exact mixes around the 16 MiB limit.
func TestVerifC06HeaderLimit(t *testing.T) {
	st := verifkit.Begin(t, "C06")
	k := genKeyC06(uint64(verifkit.Seed()))
	fits := func(compr, plain int) bool { return 32+refComprEntryC06*compr+refPlainEntryC06*plain <= refMaxHeaderC06 }

	maxE := int(MaxHeaderEntries)
	if !fits(maxE, 0) || fits(maxE+1, 0) {
		t.Fatalf("MaxHeaderEntries=%d is not the largest number of compressed entries List accepts", maxE)
	}
	for n := maxE - 3; n <= maxE+2; n++ {
		p := NewPacker(k, io.Discard)
		p.blobs = make([]Blob, n)
		full := p.HeaderFull()
		st.Case(fmt.Sprintf("headerfull|%d", n), "headerfull-arith")
		if full != !fits(n+1, 0) {
			t.Fatalf("HeaderFull()=%v with %d entries, but a header with %d compressed entries fits=%v", full, n, n+1, fits(n+1, 0))
		}
	}
	// real packs at the exact entry boundary: the three all-compressed ones also in the quick
	// tier (a few seconds; an independent seeded change that mis-bounded the header length in
	// readRecords was only visible with a pack of exactly MaxHeaderEntries entries), the
	// byte-exact mixes in the thorough tier
	type bcase struct{ compr, plain int }
	cases := []bcase{{maxE - 1, 0}, {maxE, 0}, {maxE + 1, 0}}
	quickCases := len(cases)
	// byte-exact: choose plain counts so that the header is exactly at / one entry over the limit
	limit := refMaxHeaderC06 - 32
	for plain := 1; plain <= 41 && len(cases) < 9; plain++ {
		rest := limit - refPlainEntryC06*plain
		if rest%refComprEntryC06 == 0 { // exactly full
			cases = append(cases, bcase{rest / refComprEntryC06, plain}, bcase{rest / refComprEntryC06, plain + 1}, bcase{rest/refComprEntryC06 + 1, plain})
		}
	}
	cases = append(cases, bcase{0, limit / refPlainEntryC06}, bcase{0, limit/refPlainEntryC06 + 1})
	for ci, c := range cases {
		if ci%verifkit.Shards() != verifkit.Shard() {
			continue
		}
		if verifkit.Tier() != "thorough" && ci >= quickCases {
			continue
		}
		n := c.compr + c.plain
		var buf bytes.Buffer
		buf.Grow(n + refMaxHeaderC06 + 64)
		p := NewPacker(k, &buf)
		r := prfC06(uint64(ci), 6)
		want := make([]Blob, 0, n)
		flippedAt := -1
		// plain entries spread deterministically among the compressed ones
		for i := 0; i < n; i++ {
			if flippedAt < 0 && p.HeaderFull() {
				flippedAt = i
			}
			var id restic.ID
			binary.LittleEndian.PutUint64(id[:], r.Uint64())
			binary.LittleEndian.PutUint64(id[8:], uint64(i))
			ul := uint(0)
			if i >= c.plain {
				ul = uint(1 + i%1000)
			}
			tpe := restic.DataBlob
			if _, err := p.Add(tpe, id, []byte{byte(i)}, int(ul)); err != nil {
				t.Fatalf("Add: %v", err)
			}
			want = append(want, Blob{BlobHandle: restic.BlobHandle{Type: tpe, ID: id}, Length: 1, Offset: uint(i), UncompressedLength: ul})
		}
		err := p.Finalize()
		ok := fits(c.compr, c.plain)
		st.Case(fmt.Sprintf("boundary|%d|%d", c.compr, c.plain), fmt.Sprintf("boundary-pack(fits=%v)", ok))
		st.Note(fmt.Sprintf("boundary_%dc_%dp", c.compr, c.plain), map[string]any{"fits": ok, "finalize_err": err != nil, "headerfull_at": flippedAt})
		if flippedAt >= 0 && !fits(flippedAt, 0) {
			t.Fatalf("HeaderFull turned true only at %d entries", flippedAt)
		}
		if !ok {
			if err == nil {
				// the Packer claimed success: then the pack must be readable and exact
				got, _, lerr, pv := listC06(k, buf.Bytes())
				if pv != nil || lerr != nil || sameListingC06(got, want) != "" {
					t.Fatalf("Finalize succeeded for %d+%d entries (over the limit) but List: %v %v", c.compr, c.plain, lerr, pv)
				}
			}
			continue
		}
		if err != nil {
			t.Fatalf("Finalize failed for %d compressed + %d plain entries although the header fits: %v", c.compr, c.plain, err)
		}
		file := buf.Bytes()
		got, hdr, lerr, pv := listC06(k, file)
		if pv != nil || lerr != nil {
			t.Fatalf("List at the boundary (%d+%d): %v %v", c.compr, c.plain, lerr, pv)
		}
		if d := sameListingC06(got, want); d != "" {
			t.Fatalf("boundary listing: %s", d)
		}
		if int(hdr) != 36+refComprEntryC06*c.compr+refPlainEntryC06*c.plain || len(file) != n+int(hdr) {
			t.Fatalf("boundary hdrSize %d file %d", hdr, len(file))
		}
		// one byte more in the length field, one byte less of file: both refused
		m := append([]byte(nil), file...)
		binary.LittleEndian.PutUint32(m[len(m)-4:], hdr-4+1)
		if _, _, e, pv := listC06(k, m); e == nil || pv != nil {
			t.Fatalf("boundary: length+1 accepted")
		}
		if _, _, e, pv := listC06(k, file[:len(file)-1]); e == nil || pv != nil {
			t.Fatalf("boundary: truncated pack accepted")
		}
		st.Evals(2)
	}
}

// FuzzList: native fuzz target, run by ./check in the thorough tier (conf/C06.json "fuzz").
// data is used (a) raw as a pack file and (b) as a decrypted header that is sealed with
// a fixed key behind 100 bytes of blob area. Oracle: no panic; List succeeds exactly when
// the reference parser accepts, with the same entries; and re-encoding the listed entries
// with makeHeader reproduces the decrypted header (up to compressed entries that carry an
// uncompressed length of zero, which makeHeader cannot express).
func FuzzList(f *testing.F) {
	k := genKeyC06(1)
	nonce := prfBytesC06(prfC06(1, 7), 16)
	front := prfBytesC06(prfC06(1, 8), 100)
	var id restic.ID
	e0 := refEncodeEntryC06(Blob{BlobHandle: restic.BlobHandle{Type: restic.DataBlob, ID: id}, Length: 5}, -1)
	e1 := refEncodeEntryC06(Blob{BlobHandle: restic.BlobHandle{Type: restic.TreeBlob, ID: id}, Length: 9, UncompressedLength: 20}, -1)
	f.Add(append(append([]byte(nil), e0...), e1...))
	f.Add(e1[:38])
	f.Add([]byte{4})
	f.Add(sealHeaderC06(k, front, e0, nonce))
	f.Fuzz(func(t *testing.T, data []byte) {
		for _, file := range [][]byte{data, sealHeaderC06(k, front, data, nonce)} {
			refEntries, refHdr, refOK := refListC06(k, file)
			got, hdr, err, pv := listC06(k, file)
			if pv != nil {
				t.Fatalf("panic: %v", pv)
			}
			if refOK && len(file) >= refMinFileC06 {
				// arbitrary bytes sealed as a header: what the format allows may be refused (no Packer
				// wrote it), but if it is listed the listing must be the reference's
				if err == nil && (hdr != refHdr || sameListingC06(got, refEntries) != "") {
					t.Fatalf("well-formed pack: wrong listing, hdr=%d/%d", hdr, refHdr)
				}
			} else if !refOK && err == nil {
				t.Fatalf("malformed pack listed: %d entries", len(got))
			}
			if err == nil {
				enc := file[len(file)-int(hdr) : len(file)-4]
				plain, oerr := k.Open(nil, enc[:16], enc[16:], nil)
				if oerr != nil {
					t.Fatalf("listed although the header does not authenticate")
				}
				re, merr := makeHeader(got)
				if merr != nil {
					t.Fatalf("makeHeader: %v", merr)
				}
				if !bytes.Equal(re, plain) {
					// only explanation allowed: type 2/3 entries with uncompressed length 0
					again, ok := refParseHeaderC06(re)
					if !ok || sameListingC06(got, again) != "" {
						t.Fatalf("re-encoded header differs")
					}
				}
			}
		}
	})
}
