package repository

import (
	"context"
	"crypto/sha256"
	"fmt"
	"sort"
	"strings"
	"testing"

	"github.com/restic/restic/internal/repository/index"
	"github.com/restic/restic/internal/repository/pack"
	"github.com/restic/restic/internal/restic"
	"github.com/restic/restic/internal/verifkit"
	"pgregory.net/rapid"
)

// C48 at the interface prune/check/copy/diff/stats use: Repository.NewAssociatedBlobSet
// (restic.AssociatedBlobSet: Has/Insert/Delete/Len/Keys/Intersect/Sub) over a master
// index that lists blobs in several packs and index files. Reference: map[BlobHandle]struct{}.

func idC48r(tag string, i int) restic.ID {
	return restic.ID(sha256.Sum256([]byte(fmt.Sprintf("c48r-%s-%d", tag, i))))
}

type vSetC48r struct {
	s restic.AssociatedBlobSet
	m map[restic.BlobHandle]struct{}
}

func checkSetC48r(t *rapid.T, name string, vs *vSetC48r, universe []restic.BlobHandle, entries map[restic.BlobHandle]int) {
	if vs.s.Len() != len(vs.m) {
		t.Fatalf("%s.Len()=%d, distinct members %d (%v)", name, vs.s.Len(), len(vs.m), membersC48r(vs.m, entries))
	}
	seen := map[restic.BlobHandle]int{}
	for bh := range vs.s.Keys() {
		seen[bh]++
		if _, ok := vs.m[bh]; !ok || seen[bh] > 1 {
			t.Fatalf("%s.Keys() yields %v #%d (member=%v, index entries %d)", name, bh, seen[bh], ok, entries[bh])
		}
	}
	if len(seen) != len(vs.m) {
		t.Fatalf("%s.Keys() yields %d of %d members", name, len(seen), len(vs.m))
	}
	for _, bh := range universe {
		if _, ok := vs.m[bh]; ok != vs.s.Has(bh) {
			t.Fatalf("%s.Has(%v)=%v, member=%v", name, bh, !ok, ok)
		}
	}
}

func membersC48r(m map[restic.BlobHandle]struct{}, entries map[restic.BlobHandle]int) string {
	var s []string
	for bh := range m {
		s = append(s, fmt.Sprintf("%v(x%d)", bh, entries[bh]))
	}
	sort.Strings(s)
	return strings.Join(s, " ")
}

func TestVerifC48RepositoryBlobSet(t *testing.T) {
	st := verifkit.Begin(t, "C48")
	repo := TestRepository(t)
	rapid.Check(t, func(t *rapid.T) {
		var handles []restic.BlobHandle
		nh := rapid.IntRange(1, 6).Draw(t, "nhandles")
		for i := 0; i < nh; i++ {
			handles = append(handles, restic.BlobHandle{ID: idC48r("blob", i/2), Type: rapid.SampledFrom([]restic.BlobType{restic.DataBlob, restic.TreeBlob}).Draw(t, "type")})
		}
		universe := append(append([]restic.BlobHandle{}, handles...), restic.BlobHandle{ID: idC48r("outside", 0), Type: restic.DataBlob}, restic.BlobHandle{ID: idC48r("outside", 1), Type: restic.TreeBlob})

		// the master index as LoadIndex leaves it: all files merged into one index
		mi := index.NewMasterIndex()
		entries := map[restic.BlobHandle]int{}
		locs := map[string]bool{}
		nfiles := rapid.IntRange(0, 3).Draw(t, "nfiles")
		shape := map[string]bool{}
		for f := 0; f < nfiles; f++ {
			idx := index.NewIndex()
			np := rapid.IntRange(1, 3).Draw(t, "npacks")
			for p := 0; p < np; p++ {
				packID := idC48r("pack", rapid.IntRange(0, 3).Draw(t, "pack"))
				var blobs pack.Blobs
				nb := rapid.IntRange(0, 4).Draw(t, "nblobs")
				for b := 0; b < nb; b++ {
					bh := handles[rapid.IntRange(0, nh-1).Draw(t, "bh")]
					off := uint(rapid.SampledFrom([]int{0, 0, 77}).Draw(t, "off"))
					blobs = append(blobs, pack.Blob{BlobHandle: bh, Offset: off, Length: 60})
					loc := fmt.Sprintf("%v|%v|%d", bh, packID, off)
					if !locs[loc] { // exact duplicates are dropped when the files are merged
						locs[loc] = true
						entries[bh]++
					}
				}
				idx.StorePack(packID, blobs)
			}
			idx.Finalize()
			if err := idx.SetID(idC48r("index", f)); err != nil {
				t.Fatalf("SetID: %v", err)
			}
			mi.Insert(idx)
		}
		if err := mi.MergeFinalIndexes(); err != nil {
			t.Fatalf("MergeFinalIndexes: %v", err)
		}
		for _, bh := range handles {
			if n := len(mi.Lookup(bh)); n != entries[bh] {
				t.Fatalf("harness: %v has %d index entries, expected %d", bh, n, entries[bh])
			}
		}
		repo.idx = mi

		sets := []*vSetC48r{{repo.NewAssociatedBlobSet(), map[restic.BlobHandle]struct{}{}}, {repo.NewAssociatedBlobSet(), map[restic.BlobHandle]struct{}{}}}
		nt := false
		h := sha256.New()
		nops := rapid.IntRange(1, 25).Draw(t, "nops")
		for op := 0; op < nops; op++ {
			kind := rapid.IntRange(0, 9).Draw(t, "op")
			si := rapid.IntRange(0, 1).Draw(t, "set")
			vs, other := sets[si], sets[1-si]
			fmt.Fprintf(h, "%d.%d", kind, si)
			switch {
			case kind <= 3:
				bh := universe[rapid.IntRange(0, len(universe)-1).Draw(t, "h")]
				vs.s.Insert(bh)
				vs.m[bh] = struct{}{}
				fmt.Fprintf(h, "%v", bh)
			case kind <= 5:
				bh := universe[rapid.IntRange(0, len(universe)-1).Draw(t, "h")]
				vs.s.Delete(bh)
				delete(vs.m, bh)
				fmt.Fprintf(h, "%v", bh)
			case kind == 6: // everything the index lists, as check/prune do
				_ = repo.ListBlobs(context.Background(), func(pb restic.PackBlob) {
					vs.s.Insert(pb.Handle())
					vs.m[pb.Handle()] = struct{}{}
				})
				shape["list-blobs-inserted"] = true
			case kind == 7:
				res := vs.s.Intersect(other.s)
				want := map[restic.BlobHandle]struct{}{}
				for bh := range vs.m {
					if _, ok := other.m[bh]; ok {
						want[bh] = struct{}{}
					}
				}
				sets[si] = &vSetC48r{res, want}
				shape["repo-intersect"] = true
			case kind == 8:
				res := vs.s.Sub(other.s)
				want := map[restic.BlobHandle]struct{}{}
				for bh := range vs.m {
					if _, ok := other.m[bh]; !ok {
						want[bh] = struct{}{}
					}
				}
				sets[si] = &vSetC48r{res, want}
				shape["repo-sub"] = true
			default:
				sets[si] = &vSetC48r{repo.NewAssociatedBlobSet(), map[restic.BlobHandle]struct{}{}}
			}
			for i, s := range sets {
				checkSetC48r(t, fmt.Sprintf("set%d", i), s, universe, entries)
				for bh := range s.m {
					if entries[bh] >= 2 {
						nt = true
					}
				}
			}
		}
		classes := []string{"repo-blobset"}
		for c := range shape {
			classes = append(classes, c)
		}
		sort.Strings(classes)
		key := ""
		if nt {
			for _, bh := range handles {
				fmt.Fprintf(h, "|%v:%d", bh, entries[bh])
			}
			key = fmt.Sprintf("repo|%x", h.Sum(nil))
			classes = append(classes, "repo-member-with>=2-index-entries")
		}
		st.Case(key, classes...)
	})
}
