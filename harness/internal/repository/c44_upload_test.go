package repository

import (
	"bytes"
	"context"
	"crypto/sha256"
	"encoding/binary"
	"errors"
	"fmt"
	"io"
	"math/rand/v2"
	"runtime"
	"sort"
	"strings"
	"sync"
	"testing"

	"github.com/klauspost/compress/zstd"
	"github.com/restic/restic/internal/backend"
	"github.com/restic/restic/internal/backend/mem"
	"github.com/restic/restic/internal/repository/crypto"
	"github.com/restic/restic/internal/repository/index"
	"github.com/restic/restic/internal/repository/pack"
	"github.com/restic/restic/internal/restic"
	"github.com/restic/restic/internal/verifkit"
	"pgregory.net/rapid"
)

// C44: every saved blob ends up in exactly one uploaded, indexed pack.
//
// TestVerifC44UploadSession runs complete upload sessions (Repository.WithBlobUploader
// with 1-16 concurrent savers using SaveBlob or SaveBlobAsync) on a mem backend behind
// a tracing wrapper that records every completed Save in commit order. After the
// session the trace alone is evaluated (pack headers are decoded with pack.List, index
// files with index.DecodeIndex, blobs are decrypted and hashed by the harness):
//   1. every call that stored a blob (known == false, or storeDuplicate) corresponds to
//      exactly one header entry of an uploaded pack; nothing else is in the packs; the
//      entry decrypts (and decompresses) to the submitted bytes
//   2. exactly one submission of each distinct blob was reported as not known
//   3. every header entry is listed (same pack, offset, length, uncompressed length)
//      in an index file saved during the session, index files list nothing else, and
//      the pack was saved before the first index file naming it
//   4. no Save happens after WithBlobUploader returned
//   5. a pack holds one blob type only
//   6. for each pack the stored size before its last blob is below the target size
//      (a pack that has reached the target gets no further blob; flush merging included)
//   7. a pack has at most pack.MaxHeaderEntries entries
// If a backend Save was made to fail, the session must return an error; 3 (no index
// entry without an uploaded pack, pack before index) and 5-7 are still checked on what
// was uploaded. Schedules are explored by real goroutines (with drawn yields and
// backend delays); packer selection inside restic is random by design, the oracle does
// not depend on either.
//
// The target size is the repository option (4 MiB and up) in "real" cases and a small
// value written into the unexported options in "synthetic" ones, which only scales the
// same code path down (packerManager has no notion of a minimum).

type vOpC44 struct {
	h    backend.Handle
	data []byte
}

type vTraceBeC44 struct {
	backend.Backend
	mu        sync.Mutex
	ops       []vOpC44
	attempts  map[backend.FileType]int
	failType  backend.FileType
	failAt    int // attempt number (0-based) of failType that fails; -1: none
	failedHit bool
	yields    []int // per attempt: number of Gosched calls before the save
	closed    bool
	late      []backend.Handle
}

var errSaveC44 = errors.New("injected save failure")

func (b *vTraceBeC44) Save(ctx context.Context, h backend.Handle, rd backend.RewindReader) error {
	buf, err := io.ReadAll(rd)
	if err != nil {
		return err
	}
	if err := rd.Rewind(); err != nil {
		return err
	}
	b.mu.Lock()
	n := b.attempts[h.Type]
	b.attempts[h.Type] = n + 1
	total := 0
	for _, c := range b.attempts {
		total += c
	}
	y := 0
	if len(b.yields) > 0 {
		y = b.yields[total%len(b.yields)]
	}
	fail := b.failAt >= 0 && h.Type == b.failType && n == b.failAt
	if fail {
		b.failedHit = true
	}
	b.mu.Unlock()
	for i := 0; i < y; i++ {
		runtime.Gosched()
	}
	if fail {
		return errSaveC44
	}
	b.mu.Lock()
	defer b.mu.Unlock()
	if b.closed {
		b.late = append(b.late, h)
	}
	if err := b.Backend.Save(ctx, h, rd); err != nil {
		return err
	}
	b.ops = append(b.ops, vOpC44{h: h, data: buf})
	return nil
}

func (b *vTraceBeC44) Unwrap() backend.Backend { return b.Backend }

func prfC44(seed uint64, n int, compressible bool) []byte {
	b := make([]byte, n)
	if compressible {
		p := int(seed%53) + 1
		for i := range b {
			b[i] = byte(seed>>8) + byte(i%p)
		}
		// keep contents distinct per seed even for n < 2
		if n >= 8 {
			binary.LittleEndian.PutUint64(b, seed)
		}
		return b
	}
	var s [32]byte
	binary.LittleEndian.PutUint64(s[:], seed)
	binary.LittleEndian.PutUint64(s[8:], uint64(n))
	_, _ = rand.NewChaCha8(s).Read(b)
	return b
}

type vBlobC44 struct {
	tpe   restic.BlobType
	seed  uint64
	size  int
	comp  bool // compressible content
	dup   bool // storeDuplicate flag of this submission
	saver int
	yield int

	plain []byte
	id    restic.ID
	// results
	gotID restic.ID
	known bool
	err   error
	done  bool
}

func TestVerifC44UploadSession(t *testing.T) {
	st := verifkit.Begin(t, "C44")
	TestUseLowSecurityKDFParameters(t)
	restic.TestDisableCheckPolynomial(t)
	dec, err := zstd.NewReader(nil)
	if err != nil {
		t.Fatal(err)
	}
	defer dec.Close()
	origFull := index.Full
	defer func() { index.Full = origFull }()

	rapid.Check(t, func(t *rapid.T) {
		ctx := context.Background()
		version := uint(rapid.SampledFrom([]int{1, 2, 2}).Draw(t, "version"))
		// the compression level is irrelevant here and the stronger zstd encoders cost tens of MiB of
		// table initialisation per repository object; "auto" is kept at 1 in 10
		comp := rapid.SampledFrom([]CompressionMode{CompressionOff, CompressionOff, CompressionOff, CompressionOff, CompressionFastest,
			CompressionFastest, CompressionFastest, CompressionFastest, CompressionFastest, CompressionAuto}).Draw(t, "compression")
		real := rapid.IntRange(0, 24).Draw(t, "realsize") == 0
		var packSize int
		if real {
			packSize = rapid.SampledFrom([]int{MinPackSize, MinPackSize, MinPackSize + 4096, 6 * 1024 * 1024}).Draw(t, "packsize")
		} else {
			packSize = rapid.OneOf(rapid.IntRange(400, 4096), rapid.IntRange(4097, 300000)).Draw(t, "packsize")
		}
		// aim at stored sizes that hit the target exactly: sizes on a grid of packSize/8, no compression
		exact := rapid.IntRange(0, 3).Draw(t, "exactfill") == 0
		if exact {
			comp = CompressionOff
			if !real {
				packSize -= packSize % 8
			}
		}
		packers := rapid.SampledFrom([]int{1, 2, 2, 2, 3, 4}).Draw(t, "packers")
		savers := rapid.SampledFrom([]int{1, 2, 3, 4, 8, 16}).Draw(t, "savers")
		async := rapid.Bool().Draw(t, "async")
		idxEvery := rapid.SampledFrom([]int{0, 0, 1, 2, 7}).Draw(t, "indexFullAfter")

		tbe := &vTraceBeC44{Backend: mem.New(), attempts: map[backend.FileType]int{}, failAt: -1}
		opts := Options{Compression: comp}
		if real {
			opts.PackSize = uint(packSize)
		}
		repo, err := New(tbe, opts)
		if err != nil {
			t.Fatalf("New: %v", err)
		}
		pol := testChunkerPol
		if err := repo.Init(ctx, version, "pw", &pol); err != nil {
			t.Fatalf("Init: %v", err)
		}
		if !real {
			repo.opts.PackSize = uint(packSize)
		}
		repo.packerCount = packers

		// ---- blobs ----
		var blobs []*vBlobC44
		var budget int
		if real {
			budget = rapid.IntRange(packSize, 3*packSize).Draw(t, "bytes")
		} else if rapid.IntRange(0, 5).Draw(t, "smallbudget") == 0 {
			budget = rapid.IntRange(0, packSize).Draw(t, "bytes")
		} else {
			budget = packSize * rapid.IntRange(2, 10).Draw(t, "packsworth")
		}
		maxBlobs := 80
		sum := 0
		for sum <= budget && len(blobs) < maxBlobs {
			b := &vBlobC44{seed: rapid.Uint64Range(1, 1<<40).Draw(t, "seed")}
			if rapid.IntRange(0, 3).Draw(t, "tree") == 0 {
				b.tpe = restic.TreeBlob
			} else {
				b.tpe = restic.DataBlob
			}
			b.comp = rapid.IntRange(0, 3).Draw(t, "compressible") == 0
			var size int
			switch rapid.IntRange(0, 9).Draw(t, "sizeclass") {
			case 0:
				size = rapid.IntRange(1, 64).Draw(t, "size")
			case 1, 2, 3:
				size = rapid.IntRange(1, max(1, packSize/6)).Draw(t, "size")
			case 4, 5:
				size = rapid.IntRange(max(1, packSize/4), max(1, packSize/2)).Draw(t, "size")
			case 6:
				// stored size (plaintext + 32 when not compressed) at the target and around it
				size = max(1, packSize-crypto.Extension+rapid.IntRange(-2, 2).Draw(t, "d"))
			case 7:
				size = rapid.IntRange(packSize, packSize+packSize/3).Draw(t, "size")
			default:
				// fill up: the rest to the next multiple of the target, as stored size
				rest := packSize - sum%packSize
				size = max(1, rest-crypto.Extension+rapid.IntRange(-1, 1).Draw(t, "d"))
			}
			if exact && !b.comp {
				// quantise stored sizes to packSize/8 so that exact hits are frequent with one packer
				q := packSize / 8
				stored := ((size+crypto.Extension)/q + 1) * q
				size = stored - crypto.Extension
			}
			b.size = size
			b.yield = rapid.IntRange(0, 3).Draw(t, "yield")
			b.saver = rapid.IntRange(0, savers-1).Draw(t, "saver")
			blobs = append(blobs, b)
			sum += size + crypto.Extension
			// resubmission of the same content (possibly other saver, possibly storeDuplicate)
			if rapid.IntRange(0, 11).Draw(t, "again") == 0 {
				c := *b
				c.saver = rapid.IntRange(0, savers-1).Draw(t, "saver2")
				c.dup = rapid.IntRange(0, 2).Draw(t, "storeDuplicate") == 0
				blobs = append(blobs, &c)
				if c.dup {
					sum += size + crypto.Extension
				}
			}
		}
		for _, b := range blobs {
			b.plain = prfC44(b.seed, b.size, b.comp)
			b.id = restic.ID(sha256.Sum256(b.plain))
		}

		// ---- faults / delays ----
		tbe.yields = rapid.SliceOfN(rapid.IntRange(0, 40), 0, 6).Draw(t, "beYields")
		if rapid.IntRange(0, 7).Draw(t, "failsave") == 0 {
			tbe.failType = rapid.SampledFrom([]backend.FileType{backend.PackFile, backend.PackFile, backend.IndexFile}).Draw(t, "failtype")
			tbe.failAt = rapid.IntRange(0, 3).Draw(t, "failat")
		}
		if idxEvery > 0 {
			k := uint(idxEvery)
			index.Full = func(idx *index.Index) bool {
				return idx.Len(restic.DataBlob)+idx.Len(restic.TreeBlob) >= k
			}
		} else {
			index.Full = origFull
		}
		tbe.mu.Lock()
		setupOps := len(tbe.ops) // config + key
		tbe.mu.Unlock()

		// ---- session ----
		perSaver := make([][]*vBlobC44, savers)
		for _, b := range blobs {
			perSaver[b.saver] = append(perSaver[b.saver], b)
		}
		serr := repo.WithBlobUploader(ctx, func(ctx context.Context, up restic.BlobSaverWithAsync) error {
			var wg sync.WaitGroup
			var mu sync.Mutex
			var firstErr error
			setErr := func(err error) {
				mu.Lock()
				if firstErr == nil {
					firstErr = err
				}
				mu.Unlock()
			}
			if async {
				// one submitting goroutine per saver, completion through callbacks
				for s := 0; s < savers; s++ {
					wg.Add(1)
					go func(list []*vBlobC44) {
						defer wg.Done()
						for _, b := range list {
							if ctx.Err() != nil {
								return
							}
							for i := 0; i < b.yield; i++ {
								runtime.Gosched()
							}
							wg.Add(1)
							up.SaveBlobAsync(ctx, b.tpe, b.plain, restic.ID{}, b.dup, func(newID restic.ID, known bool, size int, err error) {
								defer wg.Done()
								b.gotID, b.known, b.err, b.done = newID, known, err, true
								if err != nil {
									setErr(err)
								}
							})
						}
					}(perSaver[s])
				}
				wg.Wait()
				return firstErr
			}
			for s := 0; s < savers; s++ {
				wg.Add(1)
				go func(list []*vBlobC44) {
					defer wg.Done()
					for _, b := range list {
						if ctx.Err() != nil {
							return
						}
						for i := 0; i < b.yield; i++ {
							runtime.Gosched()
						}
						b.gotID, b.known, _, b.err = up.SaveBlob(ctx, b.tpe, b.plain, restic.ID{}, b.dup)
						b.done = true
						if b.err != nil {
							setErr(b.err)
							return
						}
					}
				}(perSaver[s])
			}
			wg.Wait()
			return firstErr
		})
		tbe.mu.Lock()
		tbe.closed = true
		ops := append([]vOpC44(nil), tbe.ops[setupOps:]...)
		failedHit := tbe.failedHit
		tbe.mu.Unlock()

		// ---- decode the trace ----
		type entryT struct {
			pack restic.ID
			blob pack.Blob
		}
		type packT struct {
			id      restic.ID
			pos     int
			entries []pack.Blob
			data    []byte
		}
		var packs []*packT
		packByID := map[restic.ID]*packT{}
		headerEntries := map[entryT]int{}
		indexEntries := map[entryT]int{} // -> position of first index file listing it
		var problems []string
		bad := func(f string, a ...any) { problems = append(problems, fmt.Sprintf(f, a...)) }
		nIndex := 0
		for pos, op := range ops {
			switch op.h.Type {
			case backend.PackFile:
				entries, _, err := pack.List(repo.Key(), bytes.NewReader(op.data), int64(len(op.data)))
				if err != nil {
					bad("uploaded pack %v: header unreadable: %v", op.h.Name, err)
					continue
				}
				id, _ := restic.ParseID(op.h.Name)
				sort.Slice(entries, func(i, j int) bool { return entries[i].Offset < entries[j].Offset })
				p := &packT{id: id, pos: pos, entries: entries, data: op.data}
				if packByID[id] != nil {
					bad("pack %v uploaded twice", id.Str())
				}
				packs = append(packs, p)
				packByID[id] = p
				for _, e := range entries {
					headerEntries[entryT{id, e}]++
				}
			case backend.IndexFile:
				nIndex++
				id, _ := restic.ParseID(op.h.Name)
				plain, err := decryptUnpackedC44(repo, dec, op.data)
				if err != nil {
					bad("index %v: %v", op.h.Name, err)
					continue
				}
				idx, err := index.DecodeIndex(plain, id)
				if err != nil {
					bad("index %v: decode: %v", op.h.Name, err)
					continue
				}
				for pb := range idx.Values() {
					e := entryT{pb.Pack, pb.Blob}
					if _, ok := indexEntries[e]; !ok {
						indexEntries[e] = pos
					}
					p := packByID[pb.Pack]
					if p == nil {
						bad("index %v (save #%d) names pack %v which has not been saved before", op.h.Name, pos, pb.Pack.Str())
					}
				}
			default:
				bad("unexpected save of %v during the session", op.h)
			}
		}
		for e := range indexEntries {
			if headerEntries[e] == 0 {
				bad("index lists %v in pack %v which no uploaded pack header contains", e.blob, e.pack.Str())
			}
		}
		maxEntries, multiPacks := 0, map[restic.BlobType]int{}
		exactHit := false
		for _, p := range packs {
			if len(p.entries) == 0 {
				bad("pack %v without entries", p.id.Str())
				continue
			}
			tpe := p.entries[0].Type
			multiPacks[tpe]++
			before := uint(0)
			for i, e := range p.entries {
				if e.Type != tpe {
					bad("pack %v mixes %v and %v blobs", p.id.Str(), tpe, e.Type)
				}
				if i == len(p.entries)-1 {
					before = e.Offset
				}
			}
			if before >= uint(packSize) {
				bad("pack %v: %d bytes were stored before its last blob, target size is %d", p.id.Str(), before, packSize)
			}
			last := p.entries[len(p.entries)-1]
			if last.Offset+last.Length == uint(packSize) {
				exactHit = true
			}
			if uint(len(p.entries)) > pack.MaxHeaderEntries {
				bad("pack %v has %d entries", p.id.Str(), len(p.entries))
			}
			maxEntries = max(maxEntries, len(p.entries))
		}
		if len(tbe.late) > 0 {
			bad("saves after the session returned: %v", tbe.late)
		}

		// ---- evidence ----
		distinct := map[restic.BlobHandle]bool{}
		resub, oversize := false, false
		for _, b := range blobs {
			h := restic.BlobHandle{ID: b.id, Type: b.tpe}
			if distinct[h] {
				resub = true
			}
			distinct[h] = true
			if b.size+crypto.Extension >= packSize && !b.comp {
				oversize = true
			}
		}
		classes := []string{fmt.Sprintf("savers=%d", savers), fmt.Sprintf("packers=%d", packers), fmt.Sprintf("version=%d", version)}
		if real {
			classes = append(classes, "packsize=real")
		} else {
			classes = append(classes, "packsize=synthetic")
		}
		if async {
			classes = append(classes, "api=SaveBlobAsync")
		} else {
			classes = append(classes, "api=SaveBlob")
		}
		nt := false
		for tpe, n := range multiPacks {
			if n >= 2 {
				classes = append(classes, fmt.Sprintf(">=2-packs-%v", tpe))
				if savers > 1 {
					nt = true
				}
			}
		}
		if multiPacks[restic.DataBlob] > 0 && multiPacks[restic.TreeBlob] > 0 {
			classes = append(classes, "tree+data")
		}
		if nIndex >= 2 {
			classes = append(classes, "index-files>=2")
		}
		if resub {
			classes = append(classes, "resubmitted-blob")
		}
		if oversize {
			classes = append(classes, "blob>=packsize")
		}
		if exactHit {
			classes = append(classes, "pack-ends-exactly-at-target")
		}
		if failedHit {
			classes = append(classes, "save-failed")
		}
		if serr == nil {
			classes = append(classes, "session=ok")
		} else {
			classes = append(classes, "session=error")
		}
		classes = append(classes, fmt.Sprintf("packs=%s", bucketC44(len(packs))))
		key := ""
		if nt {
			var sb strings.Builder
			fmt.Fprintf(&sb, "%d|%v|%d|%d|%d|%v|%d|%v|%d|%d|", version, comp, packSize, packers, savers, async, idxEvery, tbe.yields, tbe.failAt, tbe.failType)
			for _, b := range blobs {
				fmt.Fprintf(&sb, "%v:%d:%d:%v:%v:%d,", b.tpe, b.seed, b.size, b.comp, b.dup, b.saver)
			}
			key = sb.String()
		}
		st.Case(key, classes...)
		if st.WantSample() {
			st.Sample(map[string]any{"blobs": len(blobs), "distinct": len(distinct), "pack_size": packSize, "packers": packers, "savers": savers, "async": async,
				"packs": len(packs), "index_files": nIndex, "max_entries": maxEntries, "save_failed": failedHit, "session_error": serr != nil})
		}

		// ---- oracle ----
		if failedHit && serr == nil {
			t.Fatalf("a backend Save failed (%v #%d) but the session returned nil", tbe.failType, tbe.failAt)
		}
		if !failedHit && serr != nil {
			t.Fatalf("session failed on a healthy backend: %v", serr)
		}
		if len(problems) > 0 {
			t.Fatalf("%d problems, first: %s", len(problems), strings.Join(problems[:min(3, len(problems))], "\n"))
		}
		if serr != nil {
			return
		}
		// every header entry is indexed, after its pack
		for e, n := range headerEntries {
			if n != 1 {
				t.Fatalf("pack %v lists %v %d times", e.pack.Str(), e.blob, n)
			}
			ipos, ok := indexEntries[e]
			if !ok {
				t.Fatalf("%v in pack %v is in no index file saved during the session", e.blob, e.pack.Str())
			}
			if ipos < packByID[e.pack].pos {
				t.Fatalf("index (save #%d) names pack %v saved later (#%d)", ipos, e.pack.Str(), packByID[e.pack].pos)
			}
		}
		// submissions vs stored copies
		type accT struct{ calls, stored, notKnown int }
		acc := map[restic.BlobHandle]*accT{}
		plainOf := map[restic.BlobHandle][]byte{}
		for _, b := range blobs {
			if !b.done || b.err != nil {
				t.Fatalf("session returned nil but a submission did not complete (done=%v err=%v)", b.done, b.err)
			}
			if b.gotID != b.id {
				t.Fatalf("SaveBlob returned ID %v for content with SHA-256 %v", b.gotID, b.id)
			}
			h := restic.BlobHandle{ID: b.id, Type: b.tpe}
			a := acc[h]
			if a == nil {
				a = &accT{}
				acc[h] = a
				plainOf[h] = b.plain
			}
			a.calls++
			if !b.known {
				a.notKnown++
			}
			if !b.known || b.dup {
				a.stored++
			}
		}
		found := map[restic.BlobHandle]int{}
		for _, p := range packs {
			for _, e := range p.entries {
				h := e.BlobHandle
				if acc[h] == nil {
					t.Fatalf("pack %v contains %v which was never submitted", p.id.Str(), h)
				}
				found[h]++
				got, err := openBlobC44(repo.Key(), dec, p.data, e)
				if err != nil {
					t.Fatalf("pack %v blob %v: %v", p.id.Str(), h, err)
				}
				if !bytes.Equal(got, plainOf[h]) {
					t.Fatalf("pack %v blob %v: stored content differs from the submitted bytes", p.id.Str(), h)
				}
			}
		}
		for h, a := range acc {
			if a.notKnown != 1 {
				t.Fatalf("blob %v: %d of %d submissions were answered 'not known before'", h, a.notKnown, a.calls)
			}
			if found[h] != a.stored {
				t.Fatalf("blob %v: %d submissions stored it, %d pack entries exist", h, a.stored, found[h])
			}
			if n := len(repo.idx.Lookup(h)); n != a.stored {
				t.Fatalf("blob %v: in-memory index has %d entries, %d copies were uploaded", h, n, a.stored)
			}
		}
	})
}

func bucketC44(n int) string {
	switch {
	case n <= 2:
		return fmt.Sprint(n)
	case n <= 5:
		return "3-5"
	case n <= 10:
		return "6-10"
	}
	return ">10"
}

// decryptUnpackedC44 decodes an unpacked file without going through the repository's loaders.
func decryptUnpackedC44(repo *Repository, dec *zstd.Decoder, buf []byte) ([]byte, error) {
	k := repo.Key()
	if len(buf) < crypto.Extension {
		return nil, errors.New("too short")
	}
	plain, err := k.Open(nil, buf[:k.NonceSize()], buf[k.NonceSize():], nil)
	if err != nil {
		return nil, err
	}
	if repo.Config().Version < 2 || len(plain) == 0 || plain[0] == '{' || plain[0] == '[' {
		return plain, nil
	}
	if plain[0] != 2 {
		return nil, fmt.Errorf("unknown encoding %d", plain[0])
	}
	return dec.DecodeAll(plain[1:], nil)
}

func openBlobC44(k *crypto.Key, dec *zstd.Decoder, packData []byte, e pack.Blob) ([]byte, error) {
	if int(e.Offset+e.Length) > len(packData) || int(e.Length) < crypto.Extension {
		return nil, fmt.Errorf("entry %v outside of pack", e)
	}
	ct := packData[e.Offset : e.Offset+e.Length]
	plain, err := k.Open(nil, ct[:k.NonceSize()], ct[k.NonceSize():], nil)
	if err != nil {
		return nil, err
	}
	if e.IsCompressed() {
		plain, err = dec.DecodeAll(plain, nil)
		if err != nil {
			return nil, err
		}
		if len(plain) != int(e.UncompressedLength) {
			return nil, fmt.Errorf("uncompressed length %d, header says %d", len(plain), e.UncompressedLength)
		}
	}
	return plain, nil
}
