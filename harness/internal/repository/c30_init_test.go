package repository

// Property C30: init never overwrites an existing repository.
//
// Exhaustive: every subset of pre-existing {config, key, snapshot, index, pack, lock} files
// (2^6) x repository version 0..3 x chunker polynomial {random, given irreducible (what the CLI
// passes with --copy-chunker-params), given reducible (observation only)} x one or two files per
// present type, on the mem backend through Repository.Init.
//
// What the code promises (repository.go Init: Stat(config), List(keys), List(snapshots); the
// documentation says nothing about other leftovers): refused iff a config, a key or a snapshot is
// present or the version is outside [MinRepoVersion, MaxRepoVersion] - and then the backend is
// byte-identical; otherwise (also over index/pack/lock-only leftovers, which stay byte-identical)
// exactly one config and one key are added, the password opens it, the config has the requested
// version, an irreducible polynomial (the given one if given) and a fresh random ID.

import (
	"bytes"
	"context"
	"encoding/hex"
	"fmt"
	"io"
	"sort"
	"strings"
	"testing"

	"github.com/restic/chunker"
	"github.com/restic/restic/internal/backend"
	"github.com/restic/restic/internal/backend/mem"
	"github.com/restic/restic/internal/restic"
	"github.com/restic/restic/internal/verifkit"
	"pgregory.net/rapid"
)

var typesC30 = []backend.FileType{backend.ConfigFile, backend.KeyFile, backend.SnapshotFile, backend.IndexFile, backend.PackFile, backend.LockFile}
var typeNamesC30 = []string{"config", "key", "snapshot", "index", "pack", "lock"}

type caseC30 struct {
	Subset  int    `json:"subset"` // bit i: a file of type typesC30[i] exists
	Version uint   `json:"version"`
	Pol     string `json:"pol"` // random|given|reducible
	PerType int    `json:"per_type"`
	// Content of the pre-existing files: "" / "text" (some bytes), "empty" (zero-length files, as an
	// interrupted upload or a truncating sync tool leaves them), "binary"
	Content string `json:"content,omitempty"`
	// Password is only set by the random variant; empty means "derive from the case"
	Password string `json:"password,omitempty"`
	// Fault: the backend answers the first call of this kind with a transient (not a
	// "does not exist") error: "" | "stat-config" | "list-key" | "list-snapshot" | "stat-config-always"
	Fault string `json:"fault,omitempty"`
}

// faultBackendC30 fails Stat(config) / List(key) / List(snapshot) with an error that is NOT a
// not-exist error, once or always. Everything else goes to the mem backend.
type faultBackendC30 struct {
	backend.Backend
	fault string
	hits  int
}

var errFaultC30 = fmt.Errorf("injected: input/output error")

func (b *faultBackendC30) Stat(ctx context.Context, h backend.Handle) (backend.FileInfo, error) {
	if h.Type == backend.ConfigFile && strings.HasPrefix(b.fault, "stat-config") {
		b.hits++
		if b.hits == 1 || b.fault == "stat-config-always" {
			return backend.FileInfo{}, errFaultC30
		}
	}
	return b.Backend.Stat(ctx, h)
}

func (b *faultBackendC30) List(ctx context.Context, t backend.FileType, fn func(backend.FileInfo) error) error {
	if (t == backend.KeyFile && b.fault == "list-key") || (t == backend.SnapshotFile && b.fault == "list-snapshot") {
		b.hits++
		if b.hits == 1 {
			return errFaultC30
		}
	}
	return b.Backend.List(ctx, t, fn)
}

func (c caseC30) String() string {
	var present []string
	for i, n := range typeNamesC30 {
		if c.Subset&(1<<i) != 0 {
			present = append(present, n)
		}
	}
	f := ""
	if c.Fault != "" {
		f = " fault=" + c.Fault
	}
	return fmt.Sprintf("pre-existing={%s}x%d(%s) version=%d polynomial=%s%s", strings.Join(present, ","), c.PerType, c.Content, c.Version, c.Pol, f)
}

func dumpBackendC30(t testing.TB, be backend.Backend) map[string][]byte {
	ctx := context.Background()
	out := map[string][]byte{}
	for _, ft := range typesC30 {
		err := be.List(ctx, ft, func(fi backend.FileInfo) error {
			h := backend.Handle{Type: ft, Name: fi.Name}
			var buf []byte
			err := be.Load(ctx, h, 0, 0, func(rd io.Reader) (err error) {
				buf, err = io.ReadAll(rd)
				return err
			})
			if err != nil {
				return err
			}
			out[fmt.Sprintf("%v/%s", ft, fi.Name)] = buf
			return nil
		})
		if err != nil {
			t.Fatalf("harness: list %v: %v", ft, err)
		}
	}
	return out
}

func diffDumpC30(before, after map[string][]byte) (changed, added []string) {
	for k, b := range before {
		a, ok := after[k]
		if !ok {
			changed = append(changed, "removed "+k)
		} else if !bytes.Equal(a, b) {
			changed = append(changed, "modified "+k)
		}
	}
	for k := range after {
		if _, ok := before[k]; !ok {
			added = append(added, k)
		}
	}
	sort.Strings(changed)
	sort.Strings(added)
	return changed, added
}

// secondIrreducibleC30 finds (deterministically) an irreducible polynomial of degree 53 other
// than the one the test helpers use.
func secondIrreducibleC30() chunker.Pol {
	for p := chunker.Pol(0x3DA3358B4DC173 + 2); ; p += 2 {
		if p.Irreducible() {
			return p
		}
	}
}

func runCaseC30(t testing.TB, st *verifkit.Stats, c caseC30, given chunker.Pol, seenIDs map[string]string) string {
	ctx := context.Background()
	be := mem.New()
	// pre-existing files: arbitrary bytes under plausible names
	for i, ft := range typesC30 {
		if c.Subset&(1<<i) == 0 {
			continue
		}
		for k := 0; k < c.PerType; k++ {
			content := []byte(fmt.Sprintf("pre-existing %s #%d of case %v", typeNamesC30[i], k, c))
			h := backend.Handle{Type: ft, Name: restic.Hash(content).String()}
			switch c.Content {
			case "empty":
				content = nil
			case "binary":
				sum := restic.Hash(content)
				content = append(sum[:], 0, 0xff, 2)
			}
			if ft == backend.ConfigFile {
				h.Name = ""
				if k > 0 {
					continue
				}
			}
			if err := be.Save(ctx, h, backend.NewByteReader(content, be.Hasher())); err != nil {
				t.Fatalf("harness: %v", err)
			}
		}
	}
	before := dumpBackendC30(t, be)

	var ibe backend.Backend = be
	if c.Fault != "" {
		ibe = &faultBackendC30{Backend: be, fault: c.Fault}
	}
	repo, err := New(ibe, Options{})
	if err != nil {
		t.Fatalf("harness: %v", err)
	}
	var pol *chunker.Pol
	switch c.Pol {
	case "given":
		p := given
		pol = &p
	case "reducible":
		p := chunker.Pol(0x3DA3358B4DC173 + 1) // even: divisible by x
		pol = &p
	}
	password := c.Password
	if password == "" {
		password = fmt.Sprintf("pw-%d-%d-%s", c.Subset, c.Version, c.Pol)
	}
	initErr := repo.Init(ctx, c.Version, password, pol)
	after := dumpBackendC30(t, be)
	changed, added := diffDumpC30(before, after)

	mustRefuse := c.Subset&0b111 != 0 || c.Version < restic.MinRepoVersion || c.Version > restic.MaxRepoVersion
	if len(changed) > 0 {
		return fmt.Sprintf("pre-existing files were touched: %v (Init err: %v)", changed, initErr)
	}
	if mustRefuse {
		st.Class("outcome=refused")
		if initErr == nil {
			return "Init succeeded although it must refuse"
		}
		if len(added) > 0 {
			return fmt.Sprintf("Init refused (%v) but added %v", initErr, added)
		}
		return ""
	}
	if initErr != nil && c.Fault != "" {
		// a failed existence check may (and does) make Init give up; then nothing may have been created
		st.Class("outcome=gave-up-on-backend-error")
		if len(added) > 0 {
			return fmt.Sprintf("Init failed (%v) but added %v", initErr, added)
		}
		return ""
	}
	if initErr != nil {
		return fmt.Sprintf("Init failed over a location without config, key and snapshot: %v", initErr)
	}
	st.Class("outcome=initialised")
	if c.Subset != 0 {
		st.Class("outcome=initialised-over-leftovers")
	}
	var nconfig, nkey int
	for _, a := range added {
		switch {
		case strings.HasPrefix(a, "config/"):
			nconfig++
		case strings.HasPrefix(a, "key/"):
			nkey++
		default:
			return fmt.Sprintf("Init added unexpected file %s", a)
		}
	}
	if nconfig != 1 || nkey != 1 {
		return fmt.Sprintf("Init added %d config and %d key files: %v", nconfig, nkey, added)
	}

	// the password opens it, a wrong one does not
	r2, err := New(be, Options{})
	if err != nil {
		t.Fatalf("harness: %v", err)
	}
	if err := r2.SearchKey(ctx, password+"x", 20, ""); err == nil {
		return "a wrong password opens the new repository"
	}
	err = r2.SearchKey(ctx, password, 20, "")
	if c.Pol == "reducible" {
		// observation only: Init stores whatever polynomial the caller hands over; such a
		// repository cannot be opened again. cmd/restic only passes polynomials taken from
		// another repository's (validated) config.
		if err != nil {
			st.Class("given-reducible-polynomial:accepted-then-unopenable")
		} else {
			st.Class("given-reducible-polynomial:accepted-and-openable")
		}
		return ""
	}
	if err != nil {
		return fmt.Sprintf("the password does not open the new repository: %v", err)
	}
	cfg := r2.Config()
	if cfg.Version != c.Version {
		return fmt.Sprintf("config version %d, requested %d", cfg.Version, c.Version)
	}
	if cfg.Version < restic.MinRepoVersion || cfg.Version > restic.MaxRepoVersion {
		return fmt.Sprintf("unsupported config version %d", cfg.Version)
	}
	if !cfg.ChunkerPolynomial.Irreducible() {
		return fmt.Sprintf("chunker polynomial %v is not irreducible", cfg.ChunkerPolynomial)
	}
	if cfg.ChunkerPolynomial.Deg() != 53 {
		return fmt.Sprintf("chunker polynomial %v has degree %d", cfg.ChunkerPolynomial, cfg.ChunkerPolynomial.Deg())
	}
	if c.Pol == "given" && cfg.ChunkerPolynomial != given {
		return fmt.Sprintf("chunker polynomial %v, given %v", cfg.ChunkerPolynomial, given)
	}
	if raw, err := hex.DecodeString(cfg.ID); err != nil || len(raw) != 32 {
		return fmt.Sprintf("config ID %q is not a 32 byte hex ID", cfg.ID)
	}
	if prev, dup := seenIDs[cfg.ID]; dup {
		return fmt.Sprintf("config ID %s was already used by case %s", cfg.ID, prev)
	}
	seenIDs[cfg.ID] = c.String()
	if repo.Config() != cfg {
		return fmt.Sprintf("the initialising Repository holds config %+v, the stored one is %+v", repo.Config(), cfg)
	}

	// a second init of the now initialised location is refused and changes nothing
	r3, _ := New(be, Options{})
	if err := r3.Init(ctx, c.Version, "other password", pol); err == nil {
		return "second Init of the same location succeeded"
	}
	if ch, ad := diffDumpC30(after, dumpBackendC30(t, be)); len(ch)+len(ad) > 0 {
		return fmt.Sprintf("refused second Init changed the backend: %v %v", ch, ad)
	}
	return ""
}

func TestVerifC30Init(t *testing.T) {
	st := verifkit.Begin(t, "C30")
	TestUseLowSecurityKDFParameters(t) // scrypt N=128 instead of a calibration run; nothing else is relaxed
	given := secondIrreducibleC30()
	seenIDs := map[string]string{}

	var cases []caseC30
	if verifkit.ReplayFile() != "" {
		var c caseC30
		if err := verifkit.LoadReplay(&c); err != nil {
			t.Fatal(err)
		}
		cases = []caseC30{c}
	} else {
		for subset := 0; subset < 64; subset++ {
			for version := uint(0); version <= 3; version++ {
				for _, pol := range []string{"random", "given", "reducible"} {
					for per := 1; per <= 2; per++ {
						if per == 2 && subset&^1 == 0 {
							continue // nothing to double
						}
						for _, content := range []string{"text", "empty"} {
							if content == "empty" && subset == 0 {
								continue
							}
							cases = append(cases, caseC30{Subset: subset, Version: version, Pol: pol, PerType: per, Content: content})
						}
					}
				}
			}
		}
		// backend faults on the three existence checks: whatever pre-exists, a transient error of
		// Stat(config) / List(key) / List(snapshot) must never let Init go ahead over it
		for _, fault := range []string{"stat-config", "stat-config-always", "list-key", "list-snapshot"} {
			for subset := 0; subset < 64; subset++ {
				for version := uint(1); version <= 2; version++ {
					cases = append(cases, caseC30{Subset: subset, Version: version, Pol: "random", PerType: 1, Content: "text", Fault: fault})
				}
			}
		}
	}
	for i, c := range cases {
		if verifkit.ReplayFile() == "" && i%verifkit.Shards() != verifkit.Shard() {
			continue
		}
		key := ""
		if c.Subset != 0 && c.Version >= restic.MinRepoVersion && c.Version <= restic.MaxRepoVersion {
			key = c.String() // non-trivial: something is already there and the version is acceptable
		}
		classes := []string{fmt.Sprintf("version=%d", c.Version), "polynomial=" + c.Pol, "content=" + c.Content}
		if c.Fault != "" {
			classes = append(classes, "fault="+c.Fault)
		}
		for b, n := range typeNamesC30 {
			if c.Subset&(1<<b) != 0 {
				classes = append(classes, "pre="+n)
			}
		}
		st.Case(key, classes...)
		if msg := runCaseC30(t, st, c, given, seenIDs); msg != "" {
			verifkit.SaveReplay("C30", "init", c)
			t.Fatalf("%v: %s", c, msg)
		}
	}
	st.Note("distinct_config_ids", len(seenIDs))
}

// Random variant over a wider product: versions 0..6 and huge, up to three files per type, drawn
// passwords (long, non-ASCII, with NUL), same oracle.
func TestVerifC30InitRandom(t *testing.T) {
	if verifkit.ReplayFile() != "" && !strings.HasSuffix(verifkit.ReplayFile(), ".fail") {
		t.Skip("JSON replays belong to TestVerifC30Init")
	}
	st := verifkit.Begin(t, "C30")
	TestUseLowSecurityKDFParameters(t)
	given := secondIrreducibleC30()
	seenIDs := map[string]string{}
	n := 0
	rapid.Check(t, func(rt *rapid.T) {
		c := caseC30{
			Subset:   rapid.OneOf(rapid.IntRange(0, 63), rapid.SampledFrom([]int{0, 8, 16, 32, 56})).Draw(rt, "subset"),
			Version:  rapid.OneOf(rapid.UintRange(0, 6), rapid.SampledFrom([]uint{1, 2, 1 << 31, ^uint(0)})).Draw(rt, "version"),
			Pol:      rapid.SampledFrom([]string{"random", "given"}).Draw(rt, "pol"),
			PerType:  rapid.IntRange(1, 3).Draw(rt, "pertype"),
			Content:  rapid.SampledFrom([]string{"text", "empty", "binary"}).Draw(rt, "content"),
			Password: rapid.OneOf(rapid.StringN(1, 40, 200), rapid.SampledFrom([]string{"p", "pass word", "p\x00q", "пароль", strings.Repeat("long", 300)})).Draw(rt, "password"),
			Fault:    rapid.SampledFrom([]string{"", "", "", "stat-config", "stat-config-always", "list-key", "list-snapshot"}).Draw(rt, "fault"),
		}
		n++
		key := ""
		if c.Subset != 0 && c.Version >= restic.MinRepoVersion && c.Version <= restic.MaxRepoVersion {
			key = fmt.Sprintf("random|%v|%q", c, c.Password)
		}
		st.Case(key, "random-variant")
		if msg := runCaseC30(t, st, c, given, seenIDs); msg != "" {
			rt.Fatalf("%v password %q: %s", c, c.Password, msg)
		}
	})
}
