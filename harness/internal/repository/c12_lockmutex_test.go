package repository

// Property C12: an exclusive lock never coexists with another active lock.
//
// 2-3 simulated restic processes (separate Repository objects, one shared in-memory
// lock store) run LockRepo / hold / Unlock / crash / RemoveStaleLocks inside a
// testing/synctest bubble with the production time constants. Every lock-file
// operation of every process parks at a gate; the scheduler (the bubble's main
// goroutine) waits until the bubble is quiescent (synctest.Wait), then either
// releases one parked operation picked by a pre-drawn choice or lets virtual time
// advance. The whole scenario (scripts, schedule choices, listing delays, crash
// points) is drawn by rapid BEFORE the bubble is entered.

import (
	"context"
	"errors"
	"fmt"
	"hash"
	"io"
	"sort"
	"strings"
	"sync"
	"testing"
	"testing/synctest"
	"time"

	"github.com/restic/restic/internal/backend"
	"github.com/restic/restic/internal/backend/mem"
	"github.com/restic/restic/internal/repository/crypto"
	"github.com/restic/restic/internal/restic"
	"github.com/restic/restic/internal/verifkit"
	"pgregory.net/rapid"
)

var (
	errNotFoundC12 = errors.New("c12: file does not exist")
	errDeadC12     = errors.New("c12: process crashed")
)

// ---------------------------------------------------------------- base repository

var (
	baseOnceC12  sync.Once
	baseKeyC12   *crypto.Key
	baseKeyIDC12 restic.ID
	baseCfgC12   restic.Config
	baseRepC12   *Repository
)

func baseRepoC12(t testing.TB) {
	baseOnceC12.Do(func() {
		repo, _ := TestRepositoryWithBackend(t, mem.New(), 0, Options{})
		baseKeyC12, baseKeyIDC12, baseCfgC12 = repo.key, repo.keyID, repo.cfg
		// the zstd encoder/decoder are expensive to set up (large window buffers) and safe
		// for concurrent use: all simulated processes share one pair
		// (used once here so that their lazily created channels do not belong to a bubble)
		if _, err := repo.getZstdDecoder().DecodeAll(repo.getZstdEncoder().EncodeAll([]byte("warm-up"), nil), nil); err != nil {
			t.Fatal(err)
		}
		baseRepC12 = repo
	})
}

// ---------------------------------------------------------------- scenario

type vEpisodeC12 struct {
	Pre   time.Duration
	Kind  int // 0 = lock, 1 = RemoveStaleLocks
	Excl  bool
	Retry time.Duration
	Hold  time.Duration
	End   int // 0 unlock, 1 crash, 2 parent context cancelled (graceful exit)
}

type vScenarioC12 struct {
	Procs      [][]vEpisodeC12
	CrashAt    []int  // first incarnation of process i dies at its CrashAt-th lock-file operation (0 = never)
	CrashAfter []bool // ... after (true) or before (false) that operation took effect
	MaxPark    time.Duration
	Vis        []time.Duration // listing visibility delay of the n-th saved lock file (others' List)
	Ghost      []time.Duration // how long the n-th lock file stays in others' listings after removal
	Script     []vStepC12      // directed schedule executed first (regression probes only; nil for drawn scenarios)
	Lazy       []int           // per process: percentage of scheduling steps at which its parked operations are passed over
	Choices    []int
}

// vStepC12 is one step of a directed schedule: let virtual time pass, or wait until
// process Proc has an operation of kind Kind parked and release it.
// The operation must arrive within Within of virtual time, otherwise the rest of
// the script is abandoned (the code under test no longer behaves as the probe expects)
// and the drawn-choice scheduler takes over.
type vStepC12 struct {
	Advance time.Duration
	Proc    int
	Kind    string
	Within  time.Duration
}

var (
	preDurC12 = []time.Duration{0, 0, 0, 0, 0, 40 * time.Millisecond, 120 * time.Millisecond, 190 * time.Millisecond, 230 * time.Millisecond, 230 * time.Millisecond, time.Second, 7 * time.Second,
		6 * time.Minute, 31 * time.Minute,
		// around the refresh ticks of a process that acquired its lock at about +0.2 s
		4*time.Minute + 59900*time.Millisecond, 5*time.Minute + 100*time.Millisecond, 5*time.Minute + 250*time.Millisecond, 10*time.Minute + 200*time.Millisecond}
	holdDurC12  = []time.Duration{0, 150 * time.Millisecond, time.Second, 30 * time.Second, 6 * time.Minute, 11 * time.Minute, 26 * time.Minute, 36 * time.Minute}
	retryDurC12 = []time.Duration{0, 0, 3 * time.Second, 20 * time.Second, 2 * time.Minute}
	parkDurC12  = []time.Duration{150 * time.Millisecond, 400 * time.Millisecond, 5 * time.Second, 90 * time.Second, 7 * time.Minute}
	advDurC12   = []time.Duration{20 * time.Millisecond, 70 * time.Millisecond, 120 * time.Millisecond, 190 * time.Millisecond, 210 * time.Millisecond, 450 * time.Millisecond, 3 * time.Second, 40 * time.Second, 3 * time.Minute, 6 * time.Minute}
	visDurC12   = []time.Duration{0, 0, 0, 0, 30 * time.Millisecond, 100 * time.Millisecond, 180 * time.Millisecond, 199 * time.Millisecond}
)

func genScenarioC12(t *rapid.T) vScenarioC12 {
	var sc vScenarioC12
	n := rapid.IntRange(2, 3).Draw(t, "procs")
	for i := 0; i < n; i++ {
		ne := rapid.IntRange(1, 4).Draw(t, "episodes")
		var eps []vEpisodeC12
		for j := 0; j < ne; j++ {
			ep := vEpisodeC12{Pre: rapid.SampledFrom(preDurC12).Draw(t, "pre")}
			if rapid.IntRange(0, 5).Draw(t, "kind") == 0 {
				ep.Kind = 1
			} else {
				ep.Excl = rapid.IntRange(0, 2).Draw(t, "excl") > 0
				ep.Retry = rapid.SampledFrom(retryDurC12).Draw(t, "retry")
				ep.Hold = rapid.SampledFrom(holdDurC12).Draw(t, "hold")
				ep.End = rapid.SampledFrom([]int{0, 0, 0, 1, 1, 2}).Draw(t, "end")
			}
			eps = append(eps, ep)
		}
		sc.Procs = append(sc.Procs, eps)
		ca := 0
		if rapid.IntRange(0, 3).Draw(t, "crashes") == 0 {
			ca = rapid.IntRange(1, 12).Draw(t, "crashAt")
		}
		sc.CrashAt = append(sc.CrashAt, ca)
		sc.CrashAfter = append(sc.CrashAfter, rapid.Bool().Draw(t, "crashAfter"))
	}
	sc.MaxPark = rapid.SampledFrom(parkDurC12).Draw(t, "maxPark")
	sc.Vis = rapid.SliceOfN(rapid.SampledFrom(visDurC12), 8, 8).Draw(t, "vis")
	sc.Ghost = rapid.SliceOfN(rapid.SampledFrom(visDurC12), 8, 8).Draw(t, "ghost")
	sc.Lazy = rapid.SliceOfN(rapid.SampledFrom([]int{0, 0, 0, 50, 90, 97}), n, n).Draw(t, "lazy")
	sc.Choices = rapid.SliceOfN(rapid.IntRange(0, 99), 240, 240).Draw(t, "choices")
	return sc
}

// ---------------------------------------------------------------- world: store + gate + bookkeeping

type vFileC12 struct {
	seq       int
	name      string
	data      []byte
	owner     int // incarnation
	savedAt   time.Time
	vis       time.Duration
	removed   bool
	removedAt time.Time
	remover   int
	ghost     time.Duration
	byRefresh bool // saved by a process that already held its lock (replacement lock file)
}

// vListRecC12 is what one List call showed / did not show, per owning incarnation.
type vListRecC12 struct {
	at             time.Time
	visible        map[int]int // live lock files listed
	omittedRefresh map[int]int // live replacement lock files not yet visible to this lister
	omittedOther   map[int]int // other live lock files not yet visible to this lister
}

type vOpC12 struct {
	view    *vViewC12
	kind    string // save load list remove
	fseq    int    // file the operation refers to (-1: none/unknown)
	arrival int
	at      time.Time
	release chan bool
}

type vHolderC12 struct {
	proc  int
	inc   int
	excl  bool
	ctx   context.Context
	since time.Time
	list  *vListRecC12 // the last listing of the acquisition that succeeded (its re-check)
}

type vWindowC12 struct { // one acquisition between its create and its re-check
	open        bool
	interleaved int
}

type vWorldC12 struct {
	mu       sync.Mutex
	sc       *vScenarioC12
	start    time.Time
	end      time.Duration
	files    []*vFileC12
	byName   map[string]*vFileC12
	parked   []*vOpC12
	arrivals int
	wake     chan struct{}
	done     int
	aborted  bool

	holders   map[int]*vHolderC12 // by incarnation
	acquiring map[int]*vWindowC12 // by incarnation, while inside LockRepo
	views     []*vViewC12

	violation string
	shape     string // "" or the recognised shape of the violation
	trace     []string
	sig       []string // canonical executed-operation sequence (schedule identity)

	// measurements
	classes        map[string]bool
	interleavedMax int
	nExecuted      int
	maxHolders     int
	maxStall       time.Duration
}

func (w *vWorldC12) signal() {
	select {
	case w.wake <- struct{}{}:
	default:
	}
}

func (w *vWorldC12) logf(format string, args ...any) { // w.mu held
	if len(w.trace) < 4000 {
		w.trace = append(w.trace, fmt.Sprintf("%12v ", time.Since(w.start))+fmt.Sprintf(format, args...))
	}
}

// checkInvariant: among the processes that hold a lock (LockRepo succeeded, not yet
// unlocking, context not cancelled) no exclusive one coexists with any other. w.mu held.
func (w *vWorldC12) checkInvariant(where string) {
	w.checkInvariantNew(where, nil)
}

// listingGapC12 reports whether x's successful re-check missed every live lock file of
// y only because y's replacement lock file (written by a refresh, the old one already
// removed) was not yet visible in x's listing.
func listingGapC12(x, y *vHolderC12) bool {
	l := x.list
	if l == nil || y.since.After(l.at) {
		return false
	}
	return l.omittedRefresh[y.inc] > 0 && l.visible[y.inc] == 0 && l.omittedOther[y.inc] == 0
}

func (w *vWorldC12) checkInvariantNew(where string, newcomer *vHolderC12) {
	var active []*vHolderC12
	excl := false
	for _, h := range w.holders {
		if h.ctx.Err() == nil {
			active = append(active, h)
			excl = excl || h.excl
		}
	}
	if len(active) > w.maxHolders {
		w.maxHolders = len(active)
	}
	if len(active) >= 2 && !excl {
		w.classes["shared-coexist"] = true
	}
	if excl && len(active) >= 2 && w.violation == "" {
		sort.Slice(active, func(i, j int) bool { return active[i].proc < active[j].proc })
		var d []string
		for _, h := range active {
			d = append(d, fmt.Sprintf("process %d exclusive=%v", h.proc, h.excl))
		}
		w.violation = fmt.Sprintf("at +%v (%s): conflicting locks are held at the same time: %s", time.Since(w.start), where, strings.Join(d, "; "))
		if newcomer != nil {
			gap := true
			for _, h := range active {
				if h != newcomer && (h.excl || newcomer.excl) && !listingGapC12(newcomer, h) {
					gap = false
				}
			}
			if gap {
				w.shape = "refresh-listing-gap"
			}
		}
		w.logf("VIOLATION %s", w.violation)
	}
}

// ---------------------------------------------------------------- per-process backend view

type vViewC12 struct {
	w          *vWorldC12
	proc, inc  int
	dead       bool // w.mu
	ops        int  // w.mu
	crashAt    int
	crashAfter bool
	cancel     context.CancelFunc
	// RemoveStaleLocks removes a stale file from inside forAllLocks' callback, i.e. while
	// holding a sync.Mutex its other list worker may be waiting for. A mutex wait is not
	// durably blocking for synctest, so that one Remove is not parked (it takes effect right
	// after the Load that preceded it; lock files are immutable, so a file judged stale
	// stays stale and deferring its removal adds no behaviour).
	noParkRemove bool // w.mu

	// stall accounting (w.mu): total time operations of the current lock operation
	// (one LockRepo call / refresh / forced refresh / release / RemoveStaleLocks run) of
	// this process have spent parked
	stallUsed time.Duration
	lastOp    time.Time
	lastList  *vListRecC12 // w.mu
}

var _ backend.Backend = &vViewC12{}

func (v *vViewC12) Properties() backend.Properties {
	return backend.Properties{Connections: 2, HasAtomicReplace: false}
}
func (v *vViewC12) Hasher() hash.Hash                                      { return nil }
func (v *vViewC12) Close() error                                           { return nil }
func (v *vViewC12) IsNotExist(err error) bool                              { return errors.Is(err, errNotFoundC12) }
func (v *vViewC12) IsPermanentError(err error) bool                        { return errors.Is(err, errNotFoundC12) }
func (v *vViewC12) Delete(_ context.Context) error                         { return errors.New("c12: not supported") }
func (v *vViewC12) WarmupWait(_ context.Context, _ []backend.Handle) error { return nil }
func (v *vViewC12) Warmup(_ context.Context, _ []backend.Handle) ([]backend.Handle, error) {
	return nil, nil
}
func (v *vViewC12) Stat(_ context.Context, h backend.Handle) (backend.FileInfo, error) {
	return backend.FileInfo{}, fmt.Errorf("c12: unexpected Stat(%v)", h)
}

// kill makes the incarnation a crashed process: nothing it does has any effect any
// more, its lock files stay where they are.
func (v *vViewC12) kill(why string) {
	w := v.w
	w.mu.Lock()
	if v.dead {
		w.mu.Unlock()
		return
	}
	v.dead = true
	w.classes["crash"] = true
	if _, ok := w.holders[v.inc]; ok {
		w.classes["crash-while-holding"] = true
	}
	if _, ok := w.acquiring[v.inc]; ok {
		w.classes["crash-while-acquiring"] = true
	}
	delete(w.holders, v.inc)
	delete(w.acquiring, v.inc)
	w.logf("p%d#%d CRASH (%s)", v.proc, v.inc, why)
	w.sig = append(w.sig, fmt.Sprintf("p%d:crash", v.proc))
	keep := w.parked[:0]
	var mine []*vOpC12
	for _, op := range w.parked {
		if op.view == v {
			mine = append(mine, op)
		} else {
			keep = append(keep, op)
		}
	}
	w.parked = keep
	w.mu.Unlock()
	for _, op := range mine {
		op.release <- false
	}
	v.cancel()
}

// park blocks the calling operation at the gate until the scheduler releases it.
func (v *vViewC12) park(kind, name string) error {
	w := v.w
	w.mu.Lock()
	if v.dead {
		w.mu.Unlock()
		return errDeadC12
	}
	now := time.Now()
	if _, acq := w.acquiring[v.inc]; !acq && now.Sub(v.lastOp) >= time.Second {
		v.stallUsed = 0 // a new lock operation of this process begins
	}
	v.lastOp = now
	op := &vOpC12{view: v, kind: kind, fseq: -1, at: now, release: make(chan bool, 1)}
	if f := w.byName[name]; f != nil {
		op.fseq = f.seq
	}
	w.arrivals++
	op.arrival = w.arrivals
	w.parked = append(w.parked, op)
	w.mu.Unlock()
	w.signal()
	if !<-op.release {
		return errDeadC12
	}
	return nil
}

// exec runs the effect of a released operation atomically (the scheduler does nothing
// until the bubble is quiescent again) and applies the crash point.
func (v *vViewC12) exec(ctx context.Context, kind, name string, effect func() error) error {
	w := v.w
	w.mu.Lock()
	if v.dead {
		w.mu.Unlock()
		return errDeadC12
	}
	v.lastOp = time.Now()
	if ctx.Err() != nil {
		// like the connection-limiting layer every production backend is wrapped in: a
		// request whose context is already cancelled is not issued
		w.logf("p%d#%d %s -> not issued, %v", v.proc, v.inc, kind, ctx.Err())
		w.mu.Unlock()
		return ctx.Err()
	}
	v.ops++
	crashNow := v.crashAt > 0 && v.ops == v.crashAt
	if crashNow && !v.crashAfter {
		w.mu.Unlock()
		v.kill("before " + kind)
		return errDeadC12
	}
	err := effect()
	w.nExecuted++
	fseq := -1
	if f := w.byName[name]; f != nil {
		fseq = f.seq
	}
	w.logf("p%d#%d %s f%d -> %v", v.proc, v.inc, kind, fseq, err)
	w.sig = append(w.sig, fmt.Sprintf("p%d:%s:%d", v.proc, kind, fseq))
	// interleaving measurement: operations of another acquisition that take effect
	// between this process's lock creation and its re-check
	if _, acq := w.acquiring[v.inc]; acq {
		for inc, win := range w.acquiring {
			if inc != v.inc && win.open {
				win.interleaved++
				if win.interleaved > w.interleavedMax {
					w.interleavedMax = win.interleaved
				}
			}
		}
	}
	if win := w.acquiring[v.inc]; win != nil && err == nil {
		switch {
		case kind == "save":
			win.open = true
			for inc, other := range w.acquiring {
				if inc != v.inc && other.open {
					w.classes["both-created-before-recheck"] = true
				}
			}
		case kind == "list" && win.open:
			win.open = false
		}
	} else if _, holding := w.holders[v.inc]; holding && kind == "save" && len(w.acquiring) > 0 {
		w.classes["refresh-during-acquisition"] = true
	}
	w.checkInvariant(fmt.Sprintf("after p%d %s", v.proc, kind))
	w.mu.Unlock()
	if crashNow {
		v.kill("after " + kind)
		return errDeadC12
	}
	return err
}

func (v *vViewC12) Save(ctx context.Context, h backend.Handle, rd backend.RewindReader) error {
	if h.Type != backend.LockFile {
		return fmt.Errorf("c12: unexpected Save(%v)", h)
	}
	buf, err := io.ReadAll(rd)
	if err != nil {
		return err
	}
	if err := v.park("save", h.Name); err != nil {
		return err
	}
	return v.exec(ctx, "save", h.Name, func() error {
		w := v.w
		if f := w.byName[h.Name]; f != nil && !f.removed {
			return errors.New("c12: file already exists")
		}
		n := len(w.files)
		_, holding := w.holders[v.inc]
		f := &vFileC12{seq: n, name: h.Name, data: buf, owner: v.inc, savedAt: time.Now(), byRefresh: holding,
			vis: w.sc.Vis[n%len(w.sc.Vis)], ghost: w.sc.Ghost[n%len(w.sc.Ghost)]}
		if f.vis > 0 {
			w.classes["listing-delay"] = true
		}
		w.files = append(w.files, f)
		w.byName[h.Name] = f
		return ctx.Err()
	})
}

func (v *vViewC12) Load(ctx context.Context, h backend.Handle, length int, offset int64, fn func(rd io.Reader) error) error {
	if h.Type != backend.LockFile || length != 0 || offset != 0 {
		return fmt.Errorf("c12: unexpected Load(%v, %d, %d)", h, length, offset)
	}
	if err := v.park("load", h.Name); err != nil {
		return err
	}
	var data []byte
	err := v.exec(ctx, "load", h.Name, func() error {
		f := v.w.byName[h.Name]
		if f == nil || f.removed {
			v.w.classes["load-of-removed-file"] = true
			return errNotFoundC12
		}
		data = f.data
		return ctx.Err()
	})
	if err != nil {
		return err
	}
	return fn(strings.NewReader(string(data)))
}

func (v *vViewC12) Remove(ctx context.Context, h backend.Handle) error {
	if h.Type != backend.LockFile {
		return fmt.Errorf("c12: unexpected Remove(%v)", h)
	}
	v.w.mu.Lock()
	direct := v.noParkRemove
	v.w.mu.Unlock()
	if !direct {
		if err := v.park("remove", h.Name); err != nil {
			return err
		}
	}
	return v.exec(ctx, "remove", h.Name, func() error {
		f := v.w.byName[h.Name]
		if f == nil || f.removed {
			return errNotFoundC12
		}
		f.removed, f.removedAt, f.remover = true, time.Now(), v.inc
		if f.owner != v.inc {
			v.w.classes["removed-by-other"] = true
		}
		return ctx.Err()
	})
}

func (v *vViewC12) List(ctx context.Context, t backend.FileType, fn func(backend.FileInfo) error) error {
	if t != backend.LockFile {
		return fmt.Errorf("c12: unexpected List(%v)", t)
	}
	if err := v.park("list", ""); err != nil {
		return err
	}
	var out []backend.FileInfo
	err := v.exec(ctx, "list", "", func() error {
		now := time.Now()
		rec := &vListRecC12{at: now, visible: map[int]int{}, omittedRefresh: map[int]int{}, omittedOther: map[int]int{}}
		v.lastList = rec
		for _, f := range v.w.files {
			switch {
			case f.removed:
				if f.remover != v.inc && now.Sub(f.removedAt) < f.ghost {
					v.w.classes["listing-shows-removed-file"] = true
					out = append(out, backend.FileInfo{Name: f.name, Size: int64(len(f.data))})
				}
			case f.owner == v.inc || now.Sub(f.savedAt) >= f.vis:
				rec.visible[f.owner]++
				out = append(out, backend.FileInfo{Name: f.name, Size: int64(len(f.data))})
			case f.byRefresh:
				rec.omittedRefresh[f.owner]++
				v.w.classes["listing-misses-new-file"] = true
				v.w.classes["listing-misses-replacement-lock"] = true
			default:
				rec.omittedOther[f.owner]++
				v.w.classes["listing-misses-new-file"] = true
			}
		}
		return ctx.Err()
	})
	if err != nil {
		return err
	}
	for _, fi := range out {
		if ctx.Err() != nil {
			return ctx.Err()
		}
		if err := fn(fi); err != nil {
			return err
		}
	}
	return ctx.Err()
}

// ---------------------------------------------------------------- simulated process

func (w *vWorldC12) newIncarnation(proc int, first bool) (*vViewC12, *Repository, context.Context) {
	ctx, cancel := context.WithCancel(context.Background())
	w.mu.Lock()
	v := &vViewC12{w: w, proc: proc, inc: len(w.views), cancel: cancel}
	if first {
		v.crashAt, v.crashAfter = w.sc.CrashAt[proc], w.sc.CrashAfter[proc]
	}
	w.views = append(w.views, v)
	w.mu.Unlock()
	repo, err := New(v, Options{})
	if err != nil {
		panic(err)
	}
	repo.key, repo.keyID = baseKeyC12, baseKeyIDC12
	repo.setConfig(baseCfgC12)
	repo.allocEnc.Do(func() { repo.enc = baseRepC12.enc })
	repo.allocDec.Do(func() { repo.dec = baseRepC12.dec })
	return v, repo, ctx
}

func (w *vWorldC12) isAborted() bool {
	w.mu.Lock()
	defer w.mu.Unlock()
	return w.aborted
}

func (w *vWorldC12) runProcess(proc int, eps []vEpisodeC12) {
	defer func() {
		w.mu.Lock()
		w.done++
		w.mu.Unlock()
		w.signal()
	}()
	v, repo, ctx := w.newIncarnation(proc, true)
	nop := func(string) {}
	nopf := func(string, ...any) {}
	for _, ep := range eps {
		if w.isAborted() {
			break
		}
		v.w.mu.Lock()
		dead := v.dead
		v.w.mu.Unlock()
		if dead || ctx.Err() != nil {
			v, repo, ctx = w.newIncarnation(proc, false) // a new process is started in this slot
		}
		time.Sleep(ep.Pre)
		if ep.Kind == 1 {
			w.mu.Lock()
			v.noParkRemove = true
			w.mu.Unlock()
			n, err := RemoveStaleLocks(ctx, repo)
			w.mu.Lock()
			v.noParkRemove = false
			w.logf("p%d#%d RemoveStaleLocks -> %d, %v", proc, v.inc, n, err)
			if n > 0 {
				w.classes["stale-lock-removed"] = true
			}
			w.mu.Unlock()
			continue
		}
		w.mu.Lock()
		if !v.dead {
			w.acquiring[v.inc] = &vWindowC12{}
			v.stallUsed = 0
			if len(w.acquiring) >= 2 {
				w.classes["concurrent-acquisitions"] = true
			}
		}
		w.logf("p%d#%d LockRepo(exclusive=%v, retry=%v) ...", proc, v.inc, ep.Excl, ep.Retry)
		w.mu.Unlock()

		unlock, lctx, err := LockRepo(ctx, repo, ep.Excl, ep.Retry, nop, nopf)

		w.mu.Lock()
		if win := w.acquiring[v.inc]; win != nil && win.interleaved > 0 {
			w.classes["interleaved-create-recheck"] = true
		}
		delete(w.acquiring, v.inc)
		w.logf("p%d#%d LockRepo(exclusive=%v) -> %v", proc, v.inc, ep.Excl, err)
		switch {
		case err == nil && !v.dead:
			nh := &vHolderC12{proc: proc, inc: v.inc, excl: ep.Excl, ctx: lctx, since: time.Now(), list: v.lastList}
			w.holders[v.inc] = nh
			if ep.Excl {
				w.classes["acquired-exclusive"] = true
			} else {
				w.classes["acquired-shared"] = true
			}
			w.checkInvariantNew(fmt.Sprintf("p%d LockRepo returned", proc), nh)
		case IsAlreadyLocked(errors.Unwrap(err)) || IsAlreadyLocked(err):
			w.classes["refused-already-locked"] = true
		}
		w.mu.Unlock()
		if err != nil {
			continue
		}

		// hold: the process works until it is done or its lock context is cancelled
		timer := time.NewTimer(ep.Hold)
		select {
		case <-timer.C:
		case <-lctx.Done():
			timer.Stop()
			w.mu.Lock()
			w.classes["lock-context-cancelled-while-holding"] = true
			w.mu.Unlock()
		}
		switch ep.End {
		case 1:
			v.kill("script")
		case 2:
			v.cancel()
		}
		w.mu.Lock()
		delete(w.holders, v.inc)
		w.logf("p%d#%d Unlock (end=%d)", proc, v.inc, ep.End)
		w.mu.Unlock()
		unlock()
	}
	v.cancel()
}

// ---------------------------------------------------------------- scheduler

func (w *vWorldC12) sortedParked() []*vOpC12 { // w.mu held
	ops := append([]*vOpC12(nil), w.parked...)
	sort.Slice(ops, func(i, j int) bool {
		a, b := ops[i], ops[j]
		if a.view.proc != b.view.proc {
			return a.view.proc < b.view.proc
		}
		if a.kind != b.kind {
			return a.kind < b.kind
		}
		if a.fseq != b.fseq {
			return a.fseq < b.fseq
		}
		return a.arrival < b.arrival
	})
	return ops
}

func (w *vWorldC12) releaseOp(op *vOpC12) { // w.mu held
	op.view.stallUsed += time.Since(op.at)
	if op.view.stallUsed > w.maxStall {
		w.maxStall = op.view.stallUsed
	}
	for i, p := range w.parked {
		if p == op {
			w.parked = append(w.parked[:i], w.parked[i+1:]...)
			break
		}
	}
	op.release <- true
}

func (w *vWorldC12) abort(why string) {
	w.mu.Lock()
	w.aborted = true
	w.logf("ABORT: %s", why)
	views := append([]*vViewC12(nil), w.views...)
	w.mu.Unlock()
	for _, v := range views {
		v.kill("abort")
	}
}

// runScript executes the directed part of a schedule.
func (w *vWorldC12) runScript(nprocs int) {
	for i, st := range w.sc.Script {
		if st.Advance > 0 {
			time.Sleep(st.Advance)
			continue
		}
		deadline := time.Now().Add(st.Within)
		for {
			synctest.Wait()
			w.mu.Lock()
			var found *vOpC12
			for _, op := range w.sortedParked() {
				if op.view.proc == st.Proc && op.kind == st.Kind {
					found = op
					break
				}
			}
			left := time.Until(deadline)
			stop := w.violation != "" || w.done == nprocs || (found == nil && left <= 0)
			if found != nil && !stop {
				w.releaseOp(found)
			}
			if found == nil && stop && w.violation == "" {
				w.classes["script-abandoned"] = true
				w.logf("script abandoned at step %d (%+v)", i, st)
			}
			w.mu.Unlock()
			if stop {
				return
			}
			if found != nil {
				break
			}
			timer := time.NewTimer(left)
			select {
			case <-w.wake:
				timer.Stop()
			case <-timer.C:
			}
		}
	}
}

func (w *vWorldC12) schedule(nprocs int) {
	const maxSteps = 20000
	step := 0
	w.runScript(nprocs)
	for {
		synctest.Wait()
		w.mu.Lock()
		w.checkInvariant("quiescent")
		if w.violation != "" && !w.aborted {
			w.mu.Unlock()
			w.abort("violation")
			continue
		}
		parked := w.sortedParked()
		if len(parked) == 0 {
			done := w.done == nprocs
			w.mu.Unlock()
			if done {
				return
			}
			<-w.wake // nothing to schedule: virtual time advances to the next timer
			continue
		}
		step++
		if step > maxSteps && !w.aborted {
			w.mu.Unlock()
			w.abort("step limit")
			continue
		}
		// assumption of the statement: a process never stalls longer than MaxPark (< the
		// staleness margin) inside one lock operation. room = how far virtual time may
		// still advance before the most stalled process exhausts that budget.
		now := time.Now()
		oldest := parked[0]
		room := time.Duration(1 << 62)
		for _, op := range parked {
			if r := w.sc.MaxPark - op.view.stallUsed - now.Sub(op.at); r < room {
				room, oldest = r, op
			}
		}
		// two drawn numbers per step: a decides which processes are passed over at this
		// step (a lazy process models a slow client or connection), b picks the operation
		// to release among the others or lets virtual time advance
		a := w.sc.Choices[(2*step)%len(w.sc.Choices)]
		b := w.sc.Choices[(2*step+1)%len(w.sc.Choices)]
		var eligible []*vOpC12
		for _, op := range parked {
			if w.sc.Lazy[op.view.proc] <= a {
				eligible = append(eligible, op)
			}
		}
		switch {
		case w.aborted:
			w.releaseOp(parked[0])
			w.mu.Unlock()
		case room <= 0:
			w.releaseOp(oldest)
			w.mu.Unlock()
		case len(eligible) == 0 || b >= 80:
			d := advDurC12[b%len(advDurC12)]
			if d > room {
				d = room
			}
			w.mu.Unlock()
			timer := time.NewTimer(d)
			select {
			case <-w.wake:
				timer.Stop()
			case <-timer.C:
			}
		default:
			w.releaseOp(eligible[b%len(eligible)])
			w.mu.Unlock()
		}
	}
}

// ---------------------------------------------------------------- the property

func runScenarioC12(t *testing.T, sc *vScenarioC12) *vWorldC12 {
	var w *vWorldC12
	synctest.Test(t, func(t *testing.T) {
		w = &vWorldC12{sc: sc, start: time.Now(), byName: map[string]*vFileC12{}, wake: make(chan struct{}, 1),
			holders: map[int]*vHolderC12{}, acquiring: map[int]*vWindowC12{}, classes: map[string]bool{}}
		for i, eps := range sc.Procs {
			go w.runProcess(i, eps)
		}
		w.schedule(len(sc.Procs))
		synctest.Wait()
		w.end = time.Since(w.start)
		w.mu.Lock()
		for _, f := range w.files {
			if !f.removed {
				if w.views[f.owner].dead {
					w.classes["lock-left-by-crashed-process"] = true
				} else {
					// release stalled beyond the 1 min grace period after cancellation; not
					// part of this property (C13 covers the release of the lock file)
					w.classes["lock-left-by-finished-process"] = true
				}
			}
		}
		w.mu.Unlock()
	})
	return w
}

func TestVerifC12LockExclusion(t *testing.T) {
	baseRepoC12(t)
	st := verifkit.Begin(t, "C12")
	var nSched, nInter, nOps, sumInter int64
	rapid.Check(t, func(rt *rapid.T) {
		sc := genScenarioC12(rt)
		w := runScenarioC12(t, &sc)

		key := ""
		if w.classes["interleaved-create-recheck"] {
			key = strings.Join(w.sig, " ")
			nInter++
			sumInter += int64(w.interleavedMax)
		}
		nSched++
		nOps += int64(w.nExecuted)
		var cls []string
		for c := range w.classes {
			cls = append(cls, c)
		}
		sort.Strings(cls)
		cls = append(cls, fmt.Sprintf("procs=%d", len(sc.Procs)), fmt.Sprintf("max-simultaneous-holders=%d", min(w.maxHolders, 3)),
			"maxpark="+sc.MaxPark.String())
		st.Case(key, cls...)
		st.Evals(w.nExecuted)
		if st.WantSample() {
			tr := w.trace
			if len(tr) > 40 {
				tr = tr[:40]
			}
			st.Sample(map[string]any{"procs": len(sc.Procs), "scheduled_ops": w.nExecuted, "virtual_duration": w.end.String(),
				"max_interleaved_in_window": w.interleavedMax, "trace_head": tr})
		}
		if w.aborted && w.violation == "" {
			rt.Fatalf("harness: scenario aborted (step limit)\n%s", strings.Join(w.trace, "\n"))
		}
		if w.violation != "" && w.shape == "refresh-listing-gap" && st.Known("C12:refresh-listing-gap") {
			// listed finding: refresh removes the old lock file while the replacement is
			// not yet visible in other processes' listings; any other shape still fails
			st.Class("known:refresh-listing-gap")
			return
		}
		if w.violation != "" {
			rt.Fatalf("C12 violated (shape %q): %s\nscenario: %+v\ntrace:\n%s", w.shape, w.violation, sc, strings.Join(w.trace, "\n"))
		}
	})
	st.Note("schedules", nSched)
	st.Note("schedules_with_interleaved_create_recheck", nInter)
	st.Note("scheduled_lock_file_operations", nOps)
	if nInter > 0 {
		st.Note("mean_max_ops_of_other_acquisition_inside_window", float64(sumInter)/float64(nInter))
	}
}

// TestVerifC12RefreshListingGapProbe is the fixed regression probe for the listed finding
// C12:refresh-listing-gap (directed schedule, no drawn choices): process 0 holds an
// exclusive lock and refreshes it at +5m0.2s and +10m0.2s; each replacement lock file
// becomes visible in the listings of other processes 180 ms after it was saved, the
// removal of the old file at once. Process 1 requests an exclusive lock: its first
// check lists at +5m0.25s, its create stalls for just under 5 minutes, its re-check lists
// at +10m0.2s right after the second refresh. If both listings show no lock, two
// exclusive locks coexist.
func TestVerifC12RefreshListingGapProbe(t *testing.T) {
	baseRepoC12(t)
	st := verifkit.Begin(t, "C12")
	ms := time.Millisecond
	sc := vScenarioC12{
		Procs: [][]vEpisodeC12{
			{{Kind: 0, Excl: true, Hold: 11 * time.Minute, End: 0}},
			{{Pre: 5*time.Minute + 250*ms, Kind: 0, Excl: true, Hold: time.Second, End: 0}},
		},
		CrashAt: []int{0, 0}, CrashAfter: []bool{false, false},
		MaxPark: 7 * time.Minute,
		Vis:     []time.Duration{0, 180 * ms, 0, 180 * ms},
		Ghost:   []time.Duration{0},
		Lazy:    []int{0, 0},
		Choices: []int{0},
		Script: []vStepC12{
			// process 0 acquires (+0.2s)
			{Proc: 0, Kind: "list"}, {Proc: 0, Kind: "save"}, {Proc: 0, Kind: "list", Within: time.Second},
			// its refresh at +5m0.2s: replacement saved, old file removed at once
			{Proc: 0, Kind: "save", Within: 6 * time.Minute}, {Proc: 0, Kind: "remove"},
			// first check of process 1 at +5m0.25s
			{Proc: 1, Kind: "list", Within: time.Second},
			// its create is stalled until +10m0s, the re-check then arrives at +10m0.2s
			{Advance: 4*time.Minute + 59*time.Second + 750*ms},
			{Proc: 1, Kind: "save"},
			// refresh of process 0 at +10m0.2s
			{Proc: 0, Kind: "save", Within: time.Second}, {Proc: 0, Kind: "remove"},
			// re-check of process 1
			{Proc: 1, Kind: "list"},
		},
	}
	w := runScenarioC12(t, &sc)
	cls := "probe:refresh-listing-gap:no-violation"
	if w.classes["script-abandoned"] {
		cls = "probe:refresh-listing-gap:schedule-no-longer-possible"
	}
	if w.violation != "" {
		cls = "probe:refresh-listing-gap:violation"
	}
	st.Case(strings.Join(w.sig, " "), cls)
	st.Evals(w.nExecuted)
	if w.aborted && w.violation == "" {
		t.Fatalf("harness: probe aborted\n%s", strings.Join(w.trace, "\n"))
	}
	if w.violation == "" {
		return
	}
	if w.shape == "refresh-listing-gap" && st.Known("C12:refresh-listing-gap") {
		st.Class("known:refresh-listing-gap")
		return
	}
	t.Fatalf("C12 violated (shape %q): %s\ntrace:\n%s", w.shape, w.violation, strings.Join(w.trace, "\n"))
}
