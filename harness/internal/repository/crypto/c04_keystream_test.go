package crypto

import (
	"encoding/binary"
	"fmt"
	"math/rand/v2"
	"sort"
	"testing"

	"github.com/restic/restic/internal/verifkit"
	"pgregory.net/rapid"
)

// Library part of C04, second half: "a fresh nonce per object" is there so that no part of
// the key stream is ever used twice. The harness knows the plaintext, so the key stream of
// an object is ciphertext XOR plaintext; over all objects sealed with one key in a case
// (1-6 objects, sizes from one block up to 9 MiB - blobs reach 8 MiB, index files more)
// every 16-byte key stream block must occur once. A repeated block means two plaintext
// blocks were encrypted with the same pad: their XOR is readable from the stored bytes
// alone. (Added after an independent seeded change - Seal/Open working in parallel 4 MiB
// segments whose counters restart at IV+segment - went unnoticed by the nonce comparison:
// all nonces stay distinct there.) The oracle does not depend on the cipher being AES-CTR.
type ksBlockC04 struct {
	a, b uint64
	obj  int32
	blk  int32
}

func ksPrfC04(seed uint64, n int) []byte {
	r := rand.New(rand.NewPCG(seed, 0xc04c04))
	b := make([]byte, n)
	i := 0
	for ; i+8 <= n; i += 8 {
		binary.LittleEndian.PutUint64(b[i:], r.Uint64())
	}
	for ; i < n; i++ {
		b[i] = byte(r.Uint32())
	}
	return b
}

func TestVerifC04KeystreamBlocks(t *testing.T) {
	st := verifkit.Begin(t, "C04")
	k := NewRandomKey()
	const MiB = 1 << 20
	rapid.Check(t, func(t *rapid.T) {
		nobj := rapid.IntRange(1, 6).Draw(t, "objects")
		var blocks []ksBlockC04
		sizes := make([]int, nobj)
		big := false
		budget := 20 * MiB
		for o := 0; o < nobj; o++ {
			var n int
			switch rapid.IntRange(0, 9).Draw(t, "sizeclass") {
			case 0, 1, 2:
				n = rapid.IntRange(16, 4096).Draw(t, "small")
			case 3, 4:
				n = rapid.IntRange(4097, MiB).Draw(t, "medium")
			case 5:
				n = rapid.SampledFrom([]int{MiB, 2 * MiB, 4 * MiB, 8 * MiB}).Draw(t, "pow2") + rapid.IntRange(-33, 33).Draw(t, "delta")
			case 6, 7:
				n = rapid.IntRange(4*MiB+1, 9*MiB).Draw(t, "large")
			default:
				n = rapid.IntRange(MiB, 4*MiB).Draw(t, "mid")
			}
			if n > budget {
				n = rapid.IntRange(16, 4096).Draw(t, "smallInstead")
			}
			budget -= n
			sizes[o] = n
			if n > 4*MiB {
				big = true
			}
			seed := rapid.Uint64().Draw(t, "pseed")
			var pt []byte
			if rapid.IntRange(0, 3).Draw(t, "zeros") == 0 {
				pt = make([]byte, n) // known plaintext: the stored bytes ARE the key stream
			} else {
				pt = ksPrfC04(seed, n)
			}
			nonce := NewRandomNonce()
			ct := k.Seal(nil, nonce, pt, nil)
			if len(ct) != n+macSize {
				t.Fatalf("Seal of %d bytes returned %d bytes", n, len(ct))
			}
			back, err := k.Open(nil, nonce, ct, nil)
			if err != nil || len(back) != n {
				t.Fatalf("Open(Seal(p)) failed for %d bytes: %v", n, err)
			}
			for i := 0; i+16 <= n; i += 16 {
				blocks = append(blocks, ksBlockC04{
					a:   binary.LittleEndian.Uint64(ct[i:]) ^ binary.LittleEndian.Uint64(pt[i:]),
					b:   binary.LittleEndian.Uint64(ct[i+8:]) ^ binary.LittleEndian.Uint64(pt[i+8:]),
					obj: int32(o), blk: int32(i / 16),
				})
			}
		}
		sort.Slice(blocks, func(i, j int) bool {
			if blocks[i].a != blocks[j].a {
				return blocks[i].a < blocks[j].a
			}
			return blocks[i].b < blocks[j].b
		})
		for i := 1; i < len(blocks); i++ {
			p, q := blocks[i-1], blocks[i]
			if p.a == q.a && p.b == q.b {
				t.Fatalf("key stream block reused: object %d (%d bytes) offset %d and object %d (%d bytes) offset %d are encrypted with the same 16-byte pad",
					p.obj, sizes[p.obj], int(p.blk)*16, q.obj, sizes[q.obj], int(q.blk)*16)
			}
		}
		key := ""
		if len(blocks) >= 2 {
			key = fmt.Sprintf("%v|%x", sizes, blocks[0].a)
		}
		cls := "keystream:max<=4MiB"
		if big {
			cls = "keystream:object>4MiB"
		}
		st.Case(key, cls, fmt.Sprintf("keystream:objects=%d", nobj))
		st.Evals(nobj)
		if st.WantSample() {
			st.Sample(map[string]any{"keystream_object_sizes": sizes, "blocks_compared": len(blocks)})
		}
	})
}
