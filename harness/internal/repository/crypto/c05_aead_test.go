package crypto

// Property C05: authenticated encryption round-trips and rejects every forgery.
//
// Oracle (all parts independent of the code under test):
//   * refSealC05 / refOpenC05: AES-256-CTR written out with crypto/aes block
//     encryptions of an explicitly incremented 128-bit big-endian counter, and
//     Poly1305-AES (Bernstein 2005) evaluated with math/big: r clamped,
//     h = sum(block_i + 2^(8*len)) * r^(q-i+1) mod 2^130-5, tag = h + AES_k(nonce) mod 2^128.
//     golang.org/x/crypto/poly1305 is used only as a third voice on the tag.
//   * statement level: Open(Seal(p)) == p; every changed bit / truncation /
//     extension / foreign key is rejected with an error and a nil result.
//
// The differential direction is checked both ways: whenever the reference accepts an
// input Open must accept it with the reference plaintext, and whenever the reference
// rejects it Open must return an error and no plaintext.

import (
	"bytes"
	"crypto/aes"
	"encoding/binary"
	"fmt"
	"math/big"
	"math/rand/v2"
	"testing"

	"github.com/restic/restic/internal/verifkit"
	xpoly "golang.org/x/crypto/poly1305"
	"pgregory.net/rapid"
)

// ---------------------------------------------------------------- reference

var (
	polyPC05    = new(big.Int).Sub(new(big.Int).Lsh(big.NewInt(1), 130), big.NewInt(5))
	poly2p128C05 = new(big.Int).Lsh(big.NewInt(1), 128)
)

func leToBigC05(b []byte) *big.Int {
	rev := make([]byte, len(b))
	for i := range b {
		rev[len(b)-1-i] = b[i]
	}
	return new(big.Int).SetBytes(rev)
}

// refPolyAESC05 computes Poly1305-AES_{k,r}(msg, nonce) from the definition.
func refPolyAESC05(msg, nonce []byte, mk *MACKey) [16]byte {
	r := make([]byte, 16)
	copy(r, mk.R[:])
	r[3] &= 15
	r[7] &= 15
	r[11] &= 15
	r[15] &= 15
	r[4] &= 252
	r[8] &= 252
	r[12] &= 252
	rb := leToBigC05(r)

	blk, err := aes.NewCipher(mk.K[:])
	if err != nil {
		panic(err)
	}
	var s [16]byte
	blk.Encrypt(s[:], nonce)

	h, c, q, prod := new(big.Int), new(big.Int), new(big.Int), new(big.Int)
	var tmp [17]byte
	for off := 0; off < len(msg); off += 16 {
		end := min(off+16, len(msg))
		n := end - off
		// little-endian chunk with a 1 byte appended, written big-endian for SetBytes
		for i := 0; i < n; i++ {
			tmp[n-i] = msg[off+i]
		}
		tmp[0] = 1
		c.SetBytes(tmp[:n+1])
		h.Add(h, c)
		prod.Mul(h, rb)
		q.QuoRem(prod, polyPC05, h)
	}
	h.Add(h, leToBigC05(s[:]))
	h.Mod(h, poly2p128C05)
	var out [16]byte
	hb := h.Bytes() // big endian
	for i := 0; i < len(hb); i++ {
		out[i] = hb[len(hb)-1-i]
	}
	return out
}

// refTagXC05 is the cheap second reference for the mass of forgeries on long messages:
// golang.org/x/crypto/poly1305 with a one-time key r || AES_k(nonce) prepared here.
func refTagXC05(msg, nonce []byte, mk *MACKey) [16]byte {
	var otk [32]byte
	copy(otk[:16], mk.R[:])
	blk, err := aes.NewCipher(mk.K[:])
	if err != nil {
		panic(err)
	}
	blk.Encrypt(otk[16:], nonce)
	var tag [16]byte
	xpoly.Sum(&tag, msg, &otk)
	return tag
}

// refCTRC05 is AES-256-CTR with the full 16-byte IV as big-endian counter.
func refCTRC05(ek *EncryptionKey, iv, in []byte) []byte {
	blk, err := aes.NewCipher(ek[:])
	if err != nil {
		panic(err)
	}
	hi := binary.BigEndian.Uint64(iv[:8])
	lo := binary.BigEndian.Uint64(iv[8:])
	out := make([]byte, len(in))
	var ctr, ks [16]byte
	for off := 0; off < len(in); off += 16 {
		binary.BigEndian.PutUint64(ctr[:8], hi)
		binary.BigEndian.PutUint64(ctr[8:], lo)
		blk.Encrypt(ks[:], ctr[:])
		for i := off; i < min(off+16, len(in)); i++ {
			out[i] = in[i] ^ ks[i-off]
		}
		lo++
		if lo == 0 {
			hi++
		}
	}
	return out
}

func refSealC05(k *Key, nonce, pt []byte) []byte {
	ct := refCTRC05(&k.EncryptionKey, nonce, pt)
	tag := refPolyAESC05(ct, nonce, &k.MACKey)
	return append(ct, tag[:]...)
}

// refOpenC05 decides acceptance from the definition; ok=false means reject.
func refOpenC05(k *Key, nonce, ctTag []byte) (pt []byte, ok bool) {
	if len(ctTag) < 16 {
		return nil, false
	}
	ct, tag := ctTag[:len(ctTag)-16], ctTag[len(ctTag)-16:]
	want := refPolyAESC05(ct, nonce, &k.MACKey)
	if !bytes.Equal(want[:], tag) {
		return nil, false
	}
	return refCTRC05(&k.EncryptionKey, nonce, ct), true
}

// ---------------------------------------------------------------- generators

func prfBytesC05(seed uint64, stream uint64, n int) []byte {
	r := rand.New(rand.NewPCG(seed, stream))
	b := make([]byte, n)
	for i := 0; i+8 <= n; i += 8 {
		binary.LittleEndian.PutUint64(b[i:], r.Uint64())
	}
	for i := n &^ 7; i < n; i++ {
		b[i] = byte(r.Uint64())
	}
	return b
}

// genKeyC05 draws a key whose three sub-keys come from independent streams.
func genKeyC05(t *rapid.T, label string) *Key {
	seed := rapid.Uint64().Draw(t, label+"seed")
	k := &Key{}
	copy(k.EncryptionKey[:], prfBytesC05(seed, 11, 32))
	copy(k.MACKey.K[:], prfBytesC05(seed, 12, 16))
	copy(k.MACKey.R[:], prfBytesC05(seed, 13, 16))
	return k
}

func genNonceC05(t *rapid.T) ([]byte, string) {
	kind := rapid.SampledFrom([]string{"random", "random", "random", "onebit", "lowbyte", "ctrwrap64", "ctrwrap128", "allff"}).Draw(t, "noncekind")
	n := make([]byte, 16)
	switch kind {
	case "random":
		copy(n, prfBytesC05(rapid.Uint64().Draw(t, "nonceseed"), 21, 16))
		if allZeroC05(n) {
			n[15] = 1
		}
	case "onebit":
		bit := rapid.IntRange(0, 127).Draw(t, "noncebit")
		n[bit/8] = 1 << (bit % 8)
	case "lowbyte":
		n[15] = byte(rapid.IntRange(1, 255).Draw(t, "noncelow"))
	case "ctrwrap64": // low 64 bit of the counter overflow inside the message
		copy(n, prfBytesC05(rapid.Uint64().Draw(t, "nonceseed"), 22, 16))
		binary.BigEndian.PutUint64(n[8:], ^uint64(0)-uint64(rapid.IntRange(0, 3).Draw(t, "dist")))
	case "ctrwrap128": // whole counter wraps to zero inside the message
		for i := range n {
			n[i] = 0xff
		}
		n[15] = 0xff - byte(rapid.IntRange(0, 3).Draw(t, "dist"))
	case "allff":
		for i := range n {
			n[i] = 0xff
		}
	}
	return n, kind
}

func genLenC05(t *rapid.T) int {
	small := rapid.OneOf(
		rapid.SampledFrom([]int{0, 1, 15, 16, 17, 31, 32, 33, 47, 48, 49, 255, 256}),
		rapid.IntRange(0, 64),
		rapid.IntRange(0, 256),
		rapid.Map(rapid.IntRange(0, 16), func(i int) int { return i * 16 }),
	)
	switch w := rapid.IntRange(0, 39).Draw(t, "lenclass"); {
	case w < 30:
		return small.Draw(t, "len")
	case w < 36:
		return rapid.OneOf(rapid.IntRange(257, 4096), rapid.SampledFrom([]int{257, 4095, 4096})).Draw(t, "len")
	case w < 38:
		return rapid.IntRange(4097, 65535).Draw(t, "len")
	default:
		return rapid.SampledFrom([]int{4097, 65519, 65520, 65535, 65536, 65536}).Draw(t, "len")
	}
}

func lenClassC05(n int) string {
	switch {
	case n == 0:
		return "len=0"
	case n < 16:
		return "len=1..15"
	case n == 16:
		return "len=16"
	case n <= 256 && n%16 == 0:
		return "len=17..256,block-multiple"
	case n <= 256:
		return "len=17..256"
	case n <= 4096:
		return "len=257..4096"
	case n < 65536:
		return "len=4097..65535"
	default:
		return "len=65536"
	}
}

// ---------------------------------------------------------------- helpers

// allZeroC05 is the harness' own "nonce is all zero" test.
func allZeroC05(b []byte) bool {
	return bytes.Equal(b, make([]byte, len(b)))
}

// keyValidC05 is the documented validity rule: none of the three sub-keys is all zero.
func keyValidC05(k *Key) bool {
	return !allZeroC05(k.EncryptionKey[:]) && !allZeroC05(k.MACKey.K[:]) && !allZeroC05(k.MACKey.R[:])
}

// panicsC05 runs f and reports whether it panicked.
func panicsC05(f func()) (panicked bool) {
	defer func() {
		if r := recover(); r != nil {
			panicked = true
		}
	}()
	f()
	return false
}

// openNoPlaintextC05 runs Open and reports whether it yielded a plaintext
// (neither error nor panic).
func openMustRejectC05(k *Key, nonce, ct []byte) (rejected bool, detail string) {
	var out []byte
	var err error
	if panicsC05(func() { out, err = k.Open(nil, nonce, ct, nil) }) {
		return false, "panic"
	}
	if err == nil {
		return false, fmt.Sprintf("accepted, %d plaintext bytes", len(out))
	}
	if out != nil {
		return false, "error but non-nil plaintext"
	}
	return true, ""
}

var sealFormsC05 = []string{"nil", "buf0", "smallcap", "prefix", "inplace", "inplace-nocap", "nonceprefix"}
var openFormsC05 = []string{"nil", "inplace", "prefix", "sepbuf", "smallcap", "restic"}

// sealFormC05 calls Seal in one of the documented dst/plaintext aliasing forms and
// returns only the bytes appended by Seal; it fails the case if bytes before them changed.
func sealFormC05(t *rapid.T, k *Key, form string, nonce, pt []byte) []byte {
	want := len(pt) + 16
	ptCopy := append([]byte(nil), pt...)
	var out []byte
	var prefix []byte
	switch form {
	case "nil":
		out = k.Seal(nil, nonce, ptCopy, nil)
	case "buf0":
		out = k.Seal(make([]byte, 0, want+rapid.IntRange(0, 40).Draw(t, "slack")), nonce, ptCopy, nil)
	case "smallcap":
		out = k.Seal(make([]byte, 0, rapid.IntRange(0, max(0, want-1)).Draw(t, "cap")), nonce, ptCopy, nil)
	case "prefix":
		pl := rapid.IntRange(1, 48).Draw(t, "prefixlen")
		prefix = prfBytesC05(uint64(pl), 31, pl)
		dst := make([]byte, pl, pl+rapid.SampledFrom([]int{0, 1, want - 1, want, want + 7}).Draw(t, "pcap"))
		copy(dst, prefix)
		out = k.Seal(dst, nonce, ptCopy, nil)
	case "nonceprefix": // the way restic calls it: nonce || Seal(...)
		prefix = append([]byte(nil), nonce...)
		dst := NewBlobBuffer(len(pt))[:0]
		dst = append(dst, nonce...)
		out = k.Seal(dst, nonce, ptCopy, nil)
	case "inplace": // "To reuse plaintext's storage for the encrypted output, use plaintext[:0] as dst."
		buf := make([]byte, len(pt), want+rapid.IntRange(0, 8).Draw(t, "slack"))
		copy(buf, pt)
		out = k.Seal(buf[:0], nonce, buf, nil)
		if len(out) > 0 && len(buf) > 0 && &out[0] != &buf[0] {
			t.Fatalf("Seal(plaintext[:0]) with sufficient capacity did not reuse the storage")
		}
		return out
	case "inplace-nocap":
		buf := make([]byte, len(pt))
		copy(buf, pt)
		out = k.Seal(buf[:0], nonce, buf, nil)
		return out
	}
	if !bytes.Equal(ptCopy, pt) {
		t.Fatalf("Seal form %s modified the plaintext argument", form)
	}
	if len(out) < len(prefix) || !bytes.Equal(out[:len(prefix)], prefix) {
		t.Fatalf("Seal form %s did not preserve dst prefix", form)
	}
	return out[len(prefix):]
}

func openFormC05(t *rapid.T, k *Key, form string, nonce, ct []byte) ([]byte, error) {
	ctCopy := append([]byte(nil), ct...)
	var out []byte
	var err error
	var prefix []byte
	switch form {
	case "nil":
		out, err = k.Open(nil, nonce, ctCopy, nil)
	case "inplace": // "To reuse ciphertext's storage for the decrypted output, use ciphertext[:0] as dst."
		out, err = k.Open(ctCopy[:0], nonce, ctCopy, nil)
		return out, err
	case "restic": // buf = nonce||ct||tag, as LoadUnpacked / pack.List do
		buf := append(append([]byte(nil), nonce...), ct...)
		n, c := buf[:k.NonceSize()], buf[k.NonceSize():]
		out, err = k.Open(c[:0], n, c, nil)
		if err == nil && !bytes.Equal(buf[:16], nonce) {
			t.Fatalf("Open form restic modified the nonce")
		}
		return out, err
	case "prefix":
		pl := rapid.IntRange(1, 48).Draw(t, "oprefixlen")
		prefix = prfBytesC05(uint64(pl), 32, pl)
		dst := make([]byte, pl, pl+rapid.SampledFrom([]int{0, 1, len(ct), len(ct) + 7}).Draw(t, "opcap"))
		copy(dst, prefix)
		out, err = k.Open(dst, nonce, ctCopy, nil)
	case "sepbuf":
		out, err = k.Open(make([]byte, 0, len(ct)), nonce, ctCopy, nil)
	case "smallcap":
		out, err = k.Open(make([]byte, 0, rapid.IntRange(0, max(0, len(ct)-17)).Draw(t, "ocap")), nonce, ctCopy, nil)
	}
	if !bytes.Equal(ctCopy, ct) {
		t.Fatalf("Open form %s modified the ciphertext argument", form)
	}
	if err == nil {
		if len(out) < len(prefix) || !bytes.Equal(out[:len(prefix)], prefix) {
			t.Fatalf("Open form %s did not preserve dst prefix", form)
		}
		out = out[len(prefix):]
	}
	return out, err
}

// ---------------------------------------------------------------- the property

func TestVerifC05SealOpen(t *testing.T) {
	st := verifkit.Begin(t, "C05")
	exhaustiveMax := 256
	rapid.Check(t, func(t *rapid.T) {
		k := genKeyC05(t, "key")
		if !keyValidC05(k) {
			t.Skip("2^-128 event")
		}
		nonce, nkind := genNonceC05(t)
		n := genLenC05(t)
		pt := prfBytesC05(rapid.Uint64().Draw(t, "ptseed"), 41, n)
		if rapid.IntRange(0, 9).Draw(t, "ptkind") == 0 {
			pt = make([]byte, n) // all-zero plaintext: ciphertext == key stream
		}
		sform := rapid.SampledFrom(sealFormsC05).Draw(t, "sealform")
		oform := rapid.SampledFrom(openFormsC05).Draw(t, "openform")

		// ---- seal: differential against the definition
		sealed := sealFormC05(t, k, sform, nonce, pt)
		if len(sealed) != n+16 || len(sealed) != n+k.Overhead() || CiphertextLength(n) != n+32 || PlaintextLength(n+32) != n {
			t.Fatalf("ciphertext length %d for plaintext length %d", len(sealed), n)
		}
		ref := refSealC05(k, nonce, pt)
		if !bytes.Equal(sealed, ref) {
			t.Fatalf("Seal differs from AES-256-CTR + Poly1305-AES reference (len %d, nonce %x, form %s)", n, nonce, sform)
		}
		{ // third voice on the tag: x/crypto/poly1305 with an independently prepared one-time key
			var otk [32]byte
			copy(otk[:16], k.MACKey.R[:])
			blk, _ := aes.NewCipher(k.MACKey.K[:])
			blk.Encrypt(otk[16:], nonce)
			var tag [16]byte
			xpoly.Sum(&tag, sealed[:n], &otk)
			if !bytes.Equal(tag[:], sealed[n:]) {
				t.Fatalf("tag differs from x/crypto poly1305")
			}
		}
		if n >= 16 && bytes.Equal(sealed[:n], pt) {
			t.Fatalf("ciphertext equals plaintext")
		}

		// ---- open: round trip in the drawn aliasing form
		got, err := openFormC05(t, k, oform, nonce, sealed)
		if err != nil {
			t.Fatalf("Open(Seal(p)) failed: %v (len %d, form %s)", err, n, oform)
		}
		if !bytes.Equal(got, pt) {
			t.Fatalf("Open(Seal(p)) != p (len %d, form %s)", n, oform)
		}

		opens := 1
		flips, truncs, exts, swaps := 0, 0, 0, 0
		reject := func(whatFmt string, arg int, kk *Key, nn, cc []byte) {
			what := func() string { return fmt.Sprintf(whatFmt, arg) }
			opens++
			refOK := false
			if len(cc) >= 16 {
				var want [16]byte
				if len(cc) <= exhaustiveMax+64 {
					want = refPolyAESC05(cc[:len(cc)-16], nn, &kk.MACKey)
				} else {
					want = refTagXC05(cc[:len(cc)-16], nn, &kk.MACKey)
				}
				refOK = bytes.Equal(want[:], cc[len(cc)-16:])
			}
			if refOK {
				t.Fatalf("reference accepts forgery %s (len %d) - collision of probability ~2^-100?", what(), n)
			}
			if ok, detail := openMustRejectC05(kk, nn, cc); !ok {
				t.Fatalf("forgery not rejected: %s (plaintext len %d, nonce %x): %s", what(), n, nonce, detail)
			}
		}

		// ---- every single-bit flip of nonce || ciphertext || tag
		msg := append(append([]byte(nil), nonce...), sealed...)
		total := len(msg) * 8
		m := append([]byte(nil), msg...)
		flipAt := func(bit int) {
			m[bit/8] ^= 1 << (bit % 8)
			defer func() { m[bit/8] ^= 1 << (bit % 8) }()
			if allZeroC05(m[:16]) {
				// flipping the only set bit of the nonce: refused as invalid nonce, also a rejection
				if ok, detail := openMustRejectC05(k, m[:16], m[16:]); !ok {
					t.Fatalf("zero nonce after flip not rejected: %s", detail)
				}
				opens++
				flips++
				return
			}
			reject("flip of bit %d of nonce||ciphertext||tag", bit, k, m[:16], m[16:])
			flips++
		}
		if n <= exhaustiveMax {
			for bit := 0; bit < total; bit++ {
				flipAt(bit)
			}
		} else {
			// all nonce and tag bits, first/last ciphertext bytes, and a drawn sample inside
			for bit := 0; bit < 128; bit++ {
				flipAt(bit)
			}
			for bit := total - 128 - 16; bit < total; bit++ {
				flipAt(bit)
			}
			for bit := 128; bit < 128+16; bit++ {
				flipAt(bit)
			}
			for _, bit := range rapid.SliceOfN(rapid.IntRange(128, total-129), 16, 48).Draw(t, "flipbits") {
				flipAt(bit)
			}
		}

		// ---- every truncation length (prefixes), and dropping bytes at the front
		truncAt := func(l int) {
			reject("truncation to %d bytes", l, k, nonce, sealed[:l])
			truncs++
		}
		if n <= exhaustiveMax {
			for l := 0; l < len(sealed); l++ {
				truncAt(l)
			}
			for l := 1; l <= len(sealed); l++ {
				reject("front truncation by %d", l, k, nonce, sealed[l:])
				truncs++
			}
		} else {
			for l := 0; l <= 33; l++ {
				truncAt(l)
			}
			for l := len(sealed) - 33; l < len(sealed); l++ {
				truncAt(l)
			}
			for _, l := range rapid.SliceOfN(rapid.IntRange(34, len(sealed)-34), 8, 24).Draw(t, "trunclens") {
				truncAt(l)
			}
			reject("front truncation by %d", 1, k, nonce, sealed[1:])
			reject("front truncation by %d", 16, k, nonce, sealed[16:])
			truncs += 2
		}

		// ---- extensions
		for _, e := range []int{1, 2, 15, 16, 17, 32} {
			reject("extension by %d zero bytes", e, k, nonce, append(append([]byte(nil), sealed...), make([]byte, e)...))
			reject("extension by %d random bytes", e, k, nonce, append(append([]byte(nil), sealed...), prfBytesC05(uint64(e), 51, e)...))
			exts += 2
		}
		reject("tag duplicated%.0d", 0, k, nonce, append(append([]byte(nil), sealed...), sealed[n:]...))
		reject("sealed twice concatenated%.0d", 0, k, nonce, append(append([]byte(nil), sealed...), sealed...))
		exts += 2

		// ---- foreign keys
		k2 := genKeyC05(t, "otherkey")
		if keyValidC05(k2) && k2.MACKey != k.MACKey && k2.EncryptionKey != k.EncryptionKey {
			reject("key swap (independent key)%.0d", 0, k2, nonce, sealed)
			swaps++
			kk := *k
			kk.MACKey.K = k2.MACKey.K
			reject("key swap (MAC AES key only)%.0d", 0, &kk, nonce, sealed)
			swaps++
			if n > 0 { // for the empty message Poly1305 does not depend on r at all
				kr := *k
				kr.MACKey.R = k2.MACKey.R
				reject("key swap (MAC r only)%.0d", 0, &kr, nonce, sealed)
				swaps++
			}
			// and the other way round: what the other key sealed is rejected by this key
			other := k2.Seal(nil, nonce, pt, nil)
			reject("ciphertext of the other key%.0d", 0, k, nonce, other)
			swaps++
		}
		// differential only: a key that differs in nothing but the clamped bits of r is the same
		// Poly1305 key by definition; reference and implementation must agree on accepting it.
		{
			kc := *k
			kc.MACKey.R[3] ^= 0xf0
			kc.MACKey.R[4] ^= 0x03
			kc.MACKey.R[15] ^= 0x80
			refPT, refOK := refOpenC05(&kc, nonce, sealed)
			out, err := kc.Open(nil, nonce, sealed, nil)
			opens++
			if refOK != (err == nil) || (refOK && !bytes.Equal(out, refPT)) {
				t.Fatalf("clamp-equivalent key: reference ok=%v, Open err=%v", refOK, err)
			}
		}

		key := ""
		if n >= 1 && flips+truncs+exts+swaps >= 1 {
			key = fmt.Sprintf("%x|%x|%x", k.EncryptionKey[:8], nonce, ref[max(0, len(ref)-16):])
		}
		st.Case(key, lenClassC05(n), "nonce="+nkind, "seal="+sform, "open="+oform)
		st.Evals(opens)
		st.ClassN("forgery=bitflip", flips)
		st.ClassN("forgery=truncation", truncs)
		st.ClassN("forgery=extension", exts)
		st.ClassN("forgery=keyswap", swaps)
		if n <= exhaustiveMax {
			st.Class("bitflips=exhaustive")
		} else {
			st.Class("bitflips=sampled")
		}
		if st.WantSample() {
			st.Sample(map[string]any{"len": n, "nonce": fmt.Sprintf("%x", nonce), "seal_form": sform, "open_form": oform,
				"bitflips": flips, "truncations": truncs, "extensions": exts, "keyswaps": swaps})
		}
	})
}

// TestVerifC05Refusals: invalid keys and zero nonces are never accepted for
// encryption (Seal has no error result: refusing = panicking) and yield an error,
// not a plaintext, on decryption; keys that are merely close to invalid still work.
func TestVerifC05Refusals(t *testing.T) {
	st := verifkit.Begin(t, "C05")
	rapid.Check(t, func(t *rapid.T) {
		good := genKeyC05(t, "key")
		if !keyValidC05(good) {
			t.Skip()
		}
		nonce, _ := genNonceC05(t)
		n := rapid.OneOf(rapid.IntRange(0, 64), rapid.IntRange(0, 1024)).Draw(t, "len")
		pt := prfBytesC05(rapid.Uint64().Draw(t, "ptseed"), 61, n)
		sealed := good.Seal(nil, nonce, pt, nil)
		zeroNonce := make([]byte, 16)

		kind := rapid.SampledFrom([]string{"zero-enc", "zero-macK", "zero-macR", "zero-mac", "zero-all", "zero-value",
			"zero-nonce", "onebit-enc", "onebit-macK", "onebit-macR", "short-input"}).Draw(t, "kind")
		bad := *good
		opens := 0
		switch kind {
		case "zero-enc", "zero-macK", "zero-macR", "zero-mac", "zero-all", "zero-value":
			switch kind {
			case "zero-enc":
				bad.EncryptionKey = EncryptionKey{}
			case "zero-macK":
				bad.MACKey.K = [16]byte{}
			case "zero-macR":
				bad.MACKey.R = [16]byte{}
			case "zero-mac":
				bad.MACKey = MACKey{}
			case "zero-all", "zero-value":
				bad = Key{}
			}
			if bad.Valid() {
				t.Fatalf("%s: key reported valid", kind)
			}
			var out []byte
			if !panicsC05(func() { out = bad.Seal(nil, nonce, pt, nil) }) {
				t.Fatalf("%s: Seal accepted an invalid key and produced %d bytes", kind, len(out))
			}
			// what the good key sealed, and what the reference says the bad key would have sealed
			for _, ct := range [][]byte{sealed, refSealC05(&bad, nonce, pt)} {
				opens++
				if ok, detail := openMustRejectC05(&bad, nonce, ct); !ok {
					t.Fatalf("%s: Open with invalid key: %s", kind, detail)
				}
			}
		case "zero-nonce":
			var out []byte
			if !panicsC05(func() { out = good.Seal(nil, zeroNonce, pt, nil) }) {
				t.Fatalf("Seal accepted the all-zero nonce and produced %d bytes", len(out))
			}
			// a ciphertext that would be perfectly valid under the zero nonce
			forged := refSealC05(good, zeroNonce, pt)
			if _, ok := refOpenC05(good, zeroNonce, forged); !ok {
				t.Fatalf("reference self-check failed")
			}
			opens++
			if ok, detail := openMustRejectC05(good, zeroNonce, forged); !ok {
				t.Fatalf("Open accepted the all-zero nonce: %s", detail)
			}
		case "onebit-enc", "onebit-macK", "onebit-macR":
			// the closest valid neighbours of the invalid keys must be accepted and round-trip
			bit := rapid.IntRange(0, 127).Draw(t, "bit")
			k := *good
			switch kind {
			case "onebit-enc":
				bit = rapid.IntRange(0, 255).Draw(t, "bit256")
				k.EncryptionKey = EncryptionKey{}
				k.EncryptionKey[bit/8] = 1 << (bit % 8)
			case "onebit-macK":
				k.MACKey.K = [16]byte{}
				k.MACKey.K[bit/8] = 1 << (bit % 8)
			case "onebit-macR":
				k.MACKey.R = [16]byte{}
				k.MACKey.R[bit/8] = 1 << (bit % 8)
			}
			if !k.Valid() {
				t.Fatalf("%s bit %d: non-zero key reported invalid", kind, bit)
			}
			s := k.Seal(nil, nonce, pt, nil)
			if !bytes.Equal(s, refSealC05(&k, nonce, pt)) {
				t.Fatalf("%s: Seal differs from reference", kind)
			}
			out, err := k.Open(nil, nonce, s, nil)
			opens++
			if err != nil || !bytes.Equal(out, pt) {
				t.Fatalf("%s bit %d: round trip failed: %v", kind, bit, err)
			}
			if kind == "onebit-macR" && n > 0 {
				// measured, not asserted: an r whose only set bits are clamped away is the zero
				// polynomial key although MACKey.Valid() accepts it (2^-106 for random keys)
				var rr [16]byte
				copy(rr[:], k.MACKey.R[:])
				rr[3] &= 15
				rr[7] &= 15
				rr[11] &= 15
				rr[15] &= 15
				rr[4] &= 252
				rr[8] &= 252
				rr[12] &= 252
				if rr == ([16]byte{}) {
					f := append([]byte(nil), s...)
					f[0] ^= 1
					_, err := k.Open(nil, nonce, f, nil)
					opens++
					st.Class(fmt.Sprintf("weak-r(clamped-to-zero)-accepts-forgery=%v", err == nil))
				}
			}
		case "short-input":
			for l := 0; l < 16; l++ {
				opens++
				if ok, detail := openMustRejectC05(good, nonce, prfBytesC05(uint64(l), 62, l)); !ok {
					t.Fatalf("input of %d bytes (< overhead): %s", l, detail)
				}
			}
		}
		st.Case(fmt.Sprintf("%s|%x|%d", kind, nonce, n), "refusal="+kind)
		st.Evals(opens)
	})
}

// TestVerifC05KDF: KDF rejects every salt length other than 64 and invalid scrypt
// parameters; for valid parameters the key is scrypt(password, salt, N, r, p, 64)
// split as encrypt(32) || k(16) || r(16), deterministic, and sensitive to its inputs.
func TestVerifC05KDF(t *testing.T) {
	st := verifkit.Begin(t, "C05")
	rapid.Check(t, func(t *rapid.T) {
		pwd := rapid.OneOf(rapid.StringN(0, 40, -1), rapid.Just(""), rapid.Just("geheim")).Draw(t, "password")
		saltLen := rapid.OneOf(rapid.Just(64), rapid.IntRange(0, 130), rapid.SampledFrom([]int{0, 8, 16, 32, 63, 65, 128, 4096})).Draw(t, "saltlen")
		salt := prfBytesC05(rapid.Uint64().Draw(t, "saltseed"), 71, saltLen)
		if rapid.IntRange(0, 19).Draw(t, "nilsalt") == 0 && saltLen == 0 {
			salt = nil
		}
		pkind := rapid.SampledFrom([]string{"valid", "valid", "valid", "badN", "badR", "badP", "toolarge"}).Draw(t, "pkind")
		p := Params{N: 1 << rapid.IntRange(1, 9).Draw(t, "logN"), R: rapid.IntRange(1, 4).Draw(t, "r"), P: rapid.IntRange(1, 3).Draw(t, "p")}
		switch pkind {
		case "badN":
			p.N = rapid.OneOf(rapid.SampledFrom([]int{0, 1, -1, -2, -16384, 3, 6, 12, 1000, 16383, 16385, 1 << 31, 1 << 32, 1<<31 - 1, -1 << 63}),
				rapid.Map(rapid.IntRange(1, 14), func(i int) int { return 1<<i + 1<<(i-1) }), // 3*2^k: even, not a power of two
				rapid.IntRange(-100, 1)).Draw(t, "N")
		case "badR":
			p.R = rapid.SampledFrom([]int{0, -1, -8, -1 << 63, 1 << 31, 1 << 62, 1 << 23}).Draw(t, "R")
		case "badP":
			p.P = rapid.SampledFrom([]int{0, -1, -8, -1 << 63, 1 << 31, 1 << 62}).Draw(t, "P")
		case "toolarge":
			switch rapid.IntRange(0, 2).Draw(t, "which") {
			case 0:
				p.R, p.P = 1<<15, 1<<15 // r*p >= 2^30
			case 1:
				p.R, p.P = 1<<20, 1<<10
			case 2:
				p.N, p.R = 1<<24, 1<<10 // N > maxInt/128/r
			}
		}
		wantErr := saltLen != 64 || pkind != "valid"

		var k *Key
		var err error
		if panicsC05(func() { k, err = KDF(p, salt, pwd) }) {
			t.Fatalf("KDF panicked for %+v salt %d", p, saltLen)
		}
		cls := "kdf=valid"
		switch {
		case saltLen != 64 && pkind != "valid":
			cls = "kdf=bad-salt+bad-params"
		case saltLen != 64:
			cls = "kdf=bad-salt"
		case pkind != "valid":
			cls = "kdf=" + pkind
		}
		st.Case(fmt.Sprintf("%q|%x|%+v", pwd, salt, p), cls, fmt.Sprintf("saltlen<64=%v,>64=%v", saltLen < 64, saltLen > 64))
		if wantErr {
			if err == nil || k != nil {
				t.Fatalf("KDF accepted params %+v with salt length %d", p, saltLen)
			}
			return
		}
		if err != nil || k == nil {
			t.Fatalf("KDF rejected valid params %+v: %v", p, err)
		}
		want := refScryptC05([]byte(pwd), salt, p.N, p.R, p.P, 64)
		if !bytes.Equal(k.EncryptionKey[:], want[:32]) || !bytes.Equal(k.MACKey.K[:], want[32:48]) || !bytes.Equal(k.MACKey.R[:], want[48:64]) {
			t.Fatalf("KDF output is not scrypt(...)[0:32] || k || r for %+v", p)
		}
		k2, err2 := KDF(p, append([]byte(nil), salt...), pwd)
		if err2 != nil || *k2 != *k {
			t.Fatalf("KDF not deterministic")
		}
		k3, err3 := KDF(p, salt, pwd+"x")
		salt2 := append([]byte(nil), salt...)
		salt2[rapid.IntRange(0, 63).Draw(t, "saltbyte")] ^= 1 << rapid.IntRange(0, 7).Draw(t, "saltbit")
		k4, err4 := KDF(p, salt2, pwd)
		if err3 != nil || err4 != nil || *k3 == *k || *k4 == *k {
			t.Fatalf("KDF insensitive to password or salt")
		}
		// the derived key must be usable
		nonce := prfBytesC05(1, 72, 16)
		s := k.Seal(nil, nonce, []byte(pwd), nil)
		out, err := k2.Open(nil, nonce, s, nil)
		if err != nil || string(out) != pwd {
			t.Fatalf("derived key does not round-trip: %v", err)
		}
		if ok, _ := openMustRejectC05(k3, nonce, s); !ok {
			t.Fatalf("key of another password opens the ciphertext")
		}
	})
}

// FuzzOpen: native fuzz target, run by ./check in the thorough tier (conf/C05.json "fuzz").
// Oracle: Open returns a plaintext  <=>  key valid, nonce non-zero and the reference
// Poly1305-AES tag verifies; the plaintext then equals the reference CTR decryption.
func FuzzOpen(f *testing.F) {
	k := &Key{}
	copy(k.EncryptionKey[:], prfBytesC05(1, 11, 32))
	copy(k.MACKey.K[:], prfBytesC05(1, 12, 16))
	copy(k.MACKey.R[:], prfBytesC05(1, 13, 16))
	kb := append(append(append([]byte(nil), k.EncryptionKey[:]...), k.MACKey.K[:]...), k.MACKey.R[:]...)
	nonce := prfBytesC05(1, 21, 16)
	for _, n := range []int{0, 1, 16, 17, 100} {
		f.Add(kb, nonce, k.Seal(nil, nonce, prfBytesC05(2, 41, n), nil))
	}
	f.Add(make([]byte, 64), nonce, make([]byte, 16))
	f.Add(kb, make([]byte, 16), make([]byte, 16))
	f.Fuzz(func(t *testing.T, keyBytes, nonce, ct []byte) {
		kb := make([]byte, 64)
		copy(kb, keyBytes)
		n := make([]byte, 16)
		copy(n, nonce)
		k := &Key{}
		copy(k.EncryptionKey[:], kb[:32])
		copy(k.MACKey.K[:], kb[32:48])
		copy(k.MACKey.R[:], kb[48:])
		in := append([]byte(nil), ct...)
		out, err := k.Open(nil, n, in, nil)
		refPT, refOK := refOpenC05(k, n, ct)
		wantOK := refOK && keyValidC05(k) && !allZeroC05(n)
		if !bytes.Equal(in, ct) {
			t.Fatalf("Open modified its input")
		}
		if wantOK != (err == nil) {
			t.Fatalf("Open err=%v, reference accepts=%v", err, wantOK)
		}
		if err == nil && !bytes.Equal(out, refPT) {
			t.Fatalf("plaintext differs from reference")
		}
		if err != nil && out != nil {
			t.Fatalf("error and plaintext")
		}
	})
}
