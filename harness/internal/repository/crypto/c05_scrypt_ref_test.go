package crypto

// Independent scrypt (RFC 7914) written from the specification, used as the
// reference of KDF in property C05: PBKDF2-HMAC-SHA256 with one iteration is spelled
// out with crypto/hmac, Salsa20/8, BlockMix and ROMix follow the RFC text.

import (
	"crypto/hmac"
	"crypto/sha256"
	"encoding/binary"
	"math/bits"
)

func refPBKDF2OneC05(pw, salt []byte, dkLen int) []byte {
	var out []byte
	for i := uint32(1); len(out) < dkLen; i++ {
		m := hmac.New(sha256.New, pw)
		m.Write(salt)
		var ctr [4]byte
		binary.BigEndian.PutUint32(ctr[:], i)
		m.Write(ctr[:])
		out = m.Sum(out)
	}
	return out[:dkLen]
}

func refSalsa208C05(b *[64]byte) {
	var in, x [16]uint32
	for i := range in {
		in[i] = binary.LittleEndian.Uint32(b[4*i:])
	}
	x = in
	qr := func(a, b, c, d int) {
		x[b] ^= bits.RotateLeft32(x[a]+x[d], 7)
		x[c] ^= bits.RotateLeft32(x[b]+x[a], 9)
		x[d] ^= bits.RotateLeft32(x[c]+x[b], 13)
		x[a] ^= bits.RotateLeft32(x[d]+x[c], 18)
	}
	for i := 0; i < 8; i += 2 {
		// column round
		qr(0, 4, 8, 12)
		qr(5, 9, 13, 1)
		qr(10, 14, 2, 6)
		qr(15, 3, 7, 11)
		// row round
		qr(0, 1, 2, 3)
		qr(5, 6, 7, 4)
		qr(10, 11, 8, 9)
		qr(15, 12, 13, 14)
	}
	for i := range x {
		binary.LittleEndian.PutUint32(b[4*i:], x[i]+in[i])
	}
}

func refBlockMixC05(b []byte, r int) []byte {
	var x [64]byte
	copy(x[:], b[(2*r-1)*64:])
	y := make([]byte, len(b))
	for i := 0; i < 2*r; i++ {
		for j := 0; j < 64; j++ {
			x[j] ^= b[i*64+j]
		}
		refSalsa208C05(&x)
		// even blocks first, then odd blocks
		pos := i / 2
		if i%2 == 1 {
			pos = r + i/2
		}
		copy(y[pos*64:], x[:])
	}
	return y
}

func refROMixC05(b []byte, n, r int) {
	x := append([]byte(nil), b...)
	v := make([][]byte, n)
	for i := 0; i < n; i++ {
		v[i] = x
		x = refBlockMixC05(x, r)
	}
	for i := 0; i < n; i++ {
		j := binary.LittleEndian.Uint64(x[(2*r-1)*64:]) % uint64(n)
		t := make([]byte, len(x))
		for k := range x {
			t[k] = x[k] ^ v[j][k]
		}
		x = refBlockMixC05(t, r)
	}
	copy(b, x)
}

func refScryptC05(pw, salt []byte, n, r, p, dkLen int) []byte {
	b := refPBKDF2OneC05(pw, salt, p*128*r)
	for i := 0; i < p; i++ {
		refROMixC05(b[i*128*r:(i+1)*128*r], n, r)
	}
	return refPBKDF2OneC05(pw, b, dkLen)
}
