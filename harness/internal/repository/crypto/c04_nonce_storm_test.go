package crypto

import (
	"fmt"
	"sync"
	"testing"

	"github.com/restic/restic/internal/verifkit"
	"pgregory.net/rapid"
)

// Library part of C04: "every encrypted object uses a fresh nonce" must also hold when
// many goroutines encrypt at the same time (the archiver and the packer do). The schedule
// is a real one (start barrier, drawn numbers of goroutines and of nonces per goroutine);
// the oracle is the invariant itself: over everything handed out in one case, all nonces
// (those of NewRandomNonce and those embedded in Seal's output through Encrypt-style use)
// are non-zero and pairwise distinct.
func TestVerifC04NonceStorm(t *testing.T) {
	st := verifkit.Begin(t, "C04")
	k := NewRandomKey()
	rapid.Check(t, func(t *rapid.T) {
		workers := rapid.SampledFrom([]int{1, 2, 4, 8, 16, 32}).Draw(t, "workers")
		per := rapid.IntRange(300, 3000).Draw(t, "per")
		viaSeal := rapid.Bool().Draw(t, "viaSeal")
		out := make([][][ivSize]byte, workers)
		var wg sync.WaitGroup
		start := make(chan struct{})
		for w := 0; w < workers; w++ {
			wg.Add(1)
			go func(w int) {
				defer wg.Done()
				mine := make([][ivSize]byte, per)
				<-start
				for i := range mine {
					nonce := NewRandomNonce()
					if viaSeal {
						// the way the repository uses it: nonce || Seal(...)
						ct := k.Seal(nonce[:len(nonce):len(nonce)], nonce, []byte{byte(i)}, nil)
						copy(mine[i][:], ct[:ivSize])
					} else {
						copy(mine[i][:], nonce)
					}
				}
				out[w] = mine
			}(w)
		}
		close(start)
		wg.Wait()
		seen := make(map[[ivSize]byte]int, workers*per)
		var zero [ivSize]byte
		for w := range out {
			for i, n := range out[w] {
				if n == zero {
					t.Fatalf("all-zero nonce handed out (worker %d, #%d)", w, i)
				}
				if prev, dup := seen[n]; dup {
					t.Fatalf("nonce %x handed out twice (worker %d #%d and worker %d #%d; %d workers x %d nonces)", n, prev>>32, prev&0xffffffff, w, i, workers, per)
				}
				seen[n] = w<<32 | i
			}
		}
		key := ""
		if workers >= 2 && workers*per >= 20 {
			key = fmt.Sprintf("%d|%d|%v|%x", workers, per, viaSeal, out[0][0])
		}
		st.Case(key, fmt.Sprintf("storm:workers=%d", workers), fmt.Sprintf("storm:viaSeal=%v", viaSeal))
		st.Evals(workers*per - 1)
		if st.WantSample() {
			st.Sample(map[string]any{"storm_workers": workers, "nonces_per_worker": per, "via_seal": viaSeal, "distinct": len(seen)})
		}
	})
}
