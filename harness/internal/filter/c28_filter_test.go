package filter

// Property C28: path patterns match per the documented glob semantics.
//
// The reference matcher below is written from doc/040_backup.rst ("Excluding files")
// and from the grammar in the documentation of Go's filepath.Match, which the restic
// manual names as the syntax of a single path component:
//
//   * a pattern is a '/'-separated list of components; a trailing '/' is ignored, a
//     leading '/' anchors the pattern at the root directory;
//   * a component is a shell glob (filepath.Match grammar) matched against one complete
//     path component; the component "**" matches any number (including zero) of
//     components;
//   * a pattern that is not anchored matches at any depth;
//   * a match on a directory covers everything inside it;
//   * in a list, a pattern starting with '!' cancels an earlier match.

import (
	"errors"
	"fmt"
	"path/filepath"
	"strings"
	"testing"
	"unicode/utf8"

	"github.com/restic/restic/internal/verifkit"
	"pgregory.net/rapid"
)

// ---------------------------------------------------------------------------
// reference: one component glob (filepath.Match grammar, from its documentation)
//
//	pattern: { term }
//	term:    '*' | '?' | '[' [ '^' ] { character-range } ']' (non-empty) | c | '\\' c
//	range:   c | '\\' c | lo '-' hi        (c != '\\', '-', ']')
// ---------------------------------------------------------------------------

type globTokC28 struct {
	kind   byte // 'c' literal, '?' any one, '*' any sequence, '[' class
	r      rune
	neg    bool
	ranges [][2]rune
}

func refParseGlobC28(p string) (toks []globTokC28, valid bool) {
	if !utf8.ValidString(p) {
		return nil, false
	}
	rs := []rune(p)
	i := 0
	// classChar reads one (possibly escaped) class member
	classChar := func() (rune, bool) {
		if i >= len(rs) || rs[i] == '-' || rs[i] == ']' {
			return 0, false
		}
		if rs[i] == '\\' {
			i++
			if i >= len(rs) {
				return 0, false
			}
		}
		r := rs[i]
		i++
		return r, true
	}
	for i < len(rs) {
		switch rs[i] {
		case '*':
			toks = append(toks, globTokC28{kind: '*'})
			i++
		case '?':
			toks = append(toks, globTokC28{kind: '?'})
			i++
		case '\\':
			i++
			if i >= len(rs) {
				return nil, false
			}
			toks = append(toks, globTokC28{kind: 'c', r: rs[i]})
			i++
		case '[':
			i++
			tok := globTokC28{kind: '['}
			if i < len(rs) && rs[i] == '^' {
				tok.neg = true
				i++
			}
			for {
				if i < len(rs) && rs[i] == ']' && len(tok.ranges) > 0 {
					i++
					break
				}
				lo, ok := classChar()
				if !ok {
					return nil, false
				}
				hi := lo
				if i < len(rs) && rs[i] == '-' {
					i++
					hi, ok = classChar()
					if !ok {
						return nil, false
					}
				}
				tok.ranges = append(tok.ranges, [2]rune{lo, hi})
				if i >= len(rs) {
					return nil, false // unterminated class
				}
			}
			toks = append(toks, tok)
		default:
			toks = append(toks, globTokC28{kind: 'c', r: rs[i]})
			i++
		}
	}
	return toks, true
}

func refGlobC28(toks []globTokC28, name []rune) bool {
	if len(toks) == 0 {
		return len(name) == 0
	}
	t := toks[0]
	switch t.kind {
	case '*':
		for k := 0; k <= len(name); k++ {
			if refGlobC28(toks[1:], name[k:]) {
				return true
			}
		}
		return false
	case '?':
		return len(name) > 0 && refGlobC28(toks[1:], name[1:])
	case '[':
		if len(name) == 0 {
			return false
		}
		in := false
		for _, rg := range t.ranges {
			if rg[0] <= name[0] && name[0] <= rg[1] {
				in = true
			}
		}
		return in != t.neg && refGlobC28(toks[1:], name[1:])
	default:
		return len(name) > 0 && name[0] == t.r && refGlobC28(toks[1:], name[1:])
	}
}

// ---------------------------------------------------------------------------
// reference: whole patterns
// ---------------------------------------------------------------------------

type refCompC28 struct {
	src   string
	dstar bool
	valid bool
	toks  []globTokC28
}

type refPatC28 struct {
	orig  string
	neg   bool
	abs   bool
	valid bool
	comps []refCompC28
	ndst  int
}

func refParsePatternC28(p string, listContext bool) refPatC28 {
	rp := refPatC28{orig: p, valid: true}
	if listContext && strings.HasPrefix(p, "!") {
		rp.neg = true
		p = p[1:]
	}
	rp.abs = strings.HasPrefix(p, "/")
	for _, c := range strings.Split(p, "/") {
		if c == "" {
			continue // leading '/', trailing '/'
		}
		if c == "**" {
			rp.comps = append(rp.comps, refCompC28{src: c, dstar: true, valid: true})
			rp.ndst++
			continue
		}
		toks, ok := refParseGlobC28(c)
		if !ok {
			rp.valid = false
		}
		rp.comps = append(rp.comps, refCompC28{src: c, toks: toks, valid: ok})
	}
	return rp
}

func splitRefPathC28(path string) (abs bool, comps [][]rune) {
	abs = strings.HasPrefix(path, "/")
	for _, c := range strings.Split(path, "/") {
		if c != "" {
			comps = append(comps, []rune(c))
		}
	}
	return abs, comps
}

// refExactC28: the component globs g match the components c exactly ("**" = any number).
func refExactC28(g []refCompC28, c [][]rune) bool {
	if len(g) == 0 {
		return len(c) == 0
	}
	if g[0].dstar {
		if refExactC28(g[1:], c) {
			return true
		}
		return len(c) > 0 && refExactC28(g, c[1:])
	}
	return len(c) > 0 && refGlobC28(g[0].toks, c[0]) && refExactC28(g[1:], c[1:])
}

// refMatchC28: the path or one of its ancestors (a match on a directory covers
// everything inside it) is matched by the pattern; anchored patterns start at the root,
// other patterns at any depth.
func refMatchC28(p refPatC28, abs bool, comps [][]rune) bool {
	n := len(comps)
	if p.abs {
		if !abs {
			return false // nothing is anchored at the root of a relative path
		}
		for k := 0; k <= n; k++ {
			if refExactC28(p.comps, comps[:k]) {
				return true
			}
		}
		return false
	}
	for i := 0; i < n; i++ {
		for j := i + 1; j <= n; j++ {
			if refExactC28(p.comps, comps[i:j]) {
				return true
			}
		}
	}
	return false
}

func refListC28(ps []refPatC28, abs bool, comps [][]rune) bool {
	matched := false
	for _, p := range ps {
		m := refMatchC28(p, abs, comps)
		if p.neg {
			if m {
				matched = false
			}
		} else if m {
			matched = true
		}
	}
	return matched
}

// ---------------------------------------------------------------------------
// model of a repaired defect (fix "patterns with several '**' match when a later '**'
// expands to nothing"); used only to label the cases that have exactly that shape in
// the histogram, never as the oracle: restic used to expand the first "**" to at most
// len(path)-len(pattern)+1 components where len(pattern) still counted every later "**"
// as one component, so a match that needs the first "**" to be longer while a later
// "**" is empty was missed.
// ---------------------------------------------------------------------------

type bpartC28 struct {
	root, dstar, star bool
	toks              []globTokC28
}

func boundedModelC28(parts []bpartC28, strs [][]rune, strsAbs bool) bool {
	// strs includes the root marker as strs[0] == nil when strsAbs
	pos := -1
	for i, p := range parts {
		if p.dstar {
			pos = i
			break
		}
	}
	if pos >= 0 {
		for i := 0; i <= len(strs)-len(parts)+1; i++ {
			np := make([]bpartC28, 0, len(parts)+i)
			np = append(np, parts[:pos]...)
			for k := 0; k < i; k++ {
				np = append(np, bpartC28{star: true})
			}
			np = append(np, parts[pos+1:]...)
			if boundedModelC28(np, strs, strsAbs) {
				return true
			}
		}
		return false
	}
	if len(parts) == 0 {
		return len(strs) == 0
	}
	if len(parts) > len(strs) {
		return false
	}
	minOff, maxOff := 0, len(strs)-len(parts)
	if parts[0].root {
		maxOff = 0
	} else if strsAbs {
		minOff = 1
	}
	for off := maxOff; off >= minOff; off-- {
		ok := true
		for i := range parts {
			isRootStr := strsAbs && off+i == 0
			switch {
			case parts[i].root:
				ok = isRootStr
			case isRootStr:
				ok = false
			case parts[i].star:
				ok = true
			default:
				ok = refGlobC28(parts[i].toks, strs[off+i])
			}
			if !ok {
				break
			}
		}
		if ok {
			return true
		}
	}
	return false
}

func boundedMatchC28(p refPatC28, abs bool, comps [][]rune) bool {
	var parts []bpartC28
	if p.abs {
		parts = append(parts, bpartC28{root: true})
	}
	for _, c := range p.comps {
		parts = append(parts, bpartC28{dstar: c.dstar, toks: c.toks})
	}
	if p.abs && len(p.comps) == 0 {
		parts = append(parts, bpartC28{dstar: true}) // "/" is cleaned to root + empty component
	}
	strs := comps
	if abs {
		strs = append([][]rune{nil}, comps...)
	}
	return boundedModelC28(parts, strs, abs)
}

// regression probes for that defect (all must match)
var regressionC28 = [][2]string{
	{"/home/**/cache/**/tmp", "/home/u/cache/tmp"},
	{"/home/**/cache/**/tmp", "/home/cache/tmp"},
	{"/home/**/cache/**/tmp", "/home/u/v/cache/tmp"},
	{"/**/a/**/b", "/a/b"},
	{"/**/a/**/b", "/x/a/b"},
	{"/a/**/b/**", "/a/b"},
	{"/**/b/**", "/a/a/b"},
	{"/**/node_modules/**", "/srv/app/node_modules"},
	{"**/a/**/b", "a/b"},
	{"**/**/**", "a"},
	{"a/**/**/**/b", "/a/b"},
}

// ---------------------------------------------------------------------------
// generators
// ---------------------------------------------------------------------------

type tmplC28 struct {
	pat string
	wit []string
}

var validTmplC28 = []tmplC28{
	{"a", []string{"a"}}, {"b", []string{"b"}}, {"ab", []string{"ab"}}, {"c", []string{"c"}},
	{"*", []string{"a", "ab", "é"}}, {"?", []string{"a", "é", "*"}}, {"a*", []string{"a", "ab"}},
	{"*b", []string{"b", "ab"}}, {"*a*", []string{"a", "ba", "ab"}}, {"?b", []string{"ab"}},
	{"a**", []string{"a", "ab"}}, {"**b", []string{"b", "ab"}}, {"***", []string{"zz", "a"}},
	{"[ab]", []string{"a", "b"}}, {"[^a]", []string{"b", "é", "!"}}, {"[!a]", []string{"!", "a"}},
	{"[a-c]", []string{"b", "c"}}, {"[c-a]", []string{"b"}}, {"[^a-b]b", []string{"!b", "cb"}},
	{"[ab][ab]", []string{"ab", "ba"}}, {`[\]]`, []string{"]"}}, {`[\-a]`, []string{"-", "a"}},
	{`[\^a]`, []string{"^", "a"}}, {"[a-a]*", []string{"a", "ab"}}, {"[é]", []string{"é"}},
	{`\*`, []string{"*"}}, {`\?`, []string{"?"}}, {`\[ab]`, []string{"[ab]"}}, {`a\b`, []string{"ab"}},
	{`\!a`, []string{"!a"}}, {`\\`, []string{`\`}}, {`\a`, []string{"a"}}, {"é", []string{"é"}},
	{"]", []string{"]"}}, {"a]", []string{"a]"}}, {"-", []string{"-"}}, {"^", []string{"^"}},
	{"*\\**", []string{"*", "a*b"}}, {"?*", []string{"a", "ab"}},
}

var invalidTmplC28 = []string{"[", "[a", "[]", "[]a]", "[a-]", "[-a]", `a\`, "[^]", `[a\`, "[a-b-c]", "a[", "*[", "[^", `\`, "a*[b", "[a][", `\**[`, "[a]*[", `\a*[a`, "b*a\\"}

var namePoolC28 = []string{"a", "b", "ab", "ba", "c", "zz", "*", "?", "[ab]", "!a", "é", "!", "]", "-", `\`, "a*b", "cb", "^"}

type genPatC28 struct {
	str     string
	comps   []int // index into validTmplC28, -1 = "**", -2 = invalid
	abs     bool
	neg     bool
	invalid bool
}

func genPatternC28(t *rapid.T, allowNeg bool, invalidOneIn int) genPatC28 {
	var g genPatC28
	n := rapid.IntRange(1, 5).Draw(t, "ncomp")
	g.invalid = rapid.IntRange(0, invalidOneIn-1).Draw(t, "invalid") == invalidOneIn/2
	badAt := -1
	if g.invalid {
		badAt = rapid.IntRange(0, n-1).Draw(t, "badAt")
	}
	var parts []string
	for i := 0; i < n; i++ {
		switch {
		case i == badAt:
			parts = append(parts, rapid.SampledFrom(invalidTmplC28).Draw(t, "bad"))
			g.comps = append(g.comps, -2)
		case rapid.IntRange(0, 9).Draw(t, "dst") < 3:
			parts = append(parts, "**")
			g.comps = append(g.comps, -1)
		default:
			// bias to the plain letters so that literal matches are frequent
			var k int
			if rapid.Bool().Draw(t, "plain") {
				k = rapid.IntRange(0, 3).Draw(t, "tmpl")
			} else {
				k = rapid.IntRange(0, len(validTmplC28)-1).Draw(t, "tmpl")
			}
			parts = append(parts, validTmplC28[k].pat)
			g.comps = append(g.comps, k)
		}
	}
	g.str = strings.Join(parts, "/")
	g.abs = rapid.Bool().Draw(t, "abs")
	if g.abs {
		g.str = "/" + g.str
	}
	if rapid.IntRange(0, 9).Draw(t, "trail") == 0 {
		g.str += "/"
	}
	if allowNeg && rapid.IntRange(0, 9).Draw(t, "neg") < 3 {
		g.neg = true
		g.str = "!" + g.str
	}
	return g
}

func drawNameC28(t *rapid.T) string {
	return rapid.SampledFrom(namePoolC28).Draw(t, "name")
}

// genWitnessC28 walks the pattern and produces components that match it (mostly).
func genWitnessC28(t *rapid.T, g genPatC28) []string {
	var out []string
	if !g.abs || rapid.IntRange(0, 7).Draw(t, "preAbs") == 0 {
		for k := rapid.IntRange(0, 2).Draw(t, "npre"); k > 0; k-- {
			out = append(out, drawNameC28(t))
		}
	}
	for _, c := range g.comps {
		switch {
		case c == -1:
			for k := rapid.SampledFrom([]int{0, 0, 1, 1, 2}).Draw(t, "nds"); k > 0; k-- {
				out = append(out, drawNameC28(t))
			}
		case c == -2 || rapid.IntRange(0, 9).Draw(t, "miss") == 0:
			out = append(out, drawNameC28(t))
		default:
			out = append(out, rapid.SampledFrom(validTmplC28[c].wit).Draw(t, "wit"))
		}
	}
	return out
}

func joinPathC28(abs bool, comps []string) string {
	s := strings.Join(comps, "/")
	if abs {
		return "/" + s
	}
	return s
}

// genPathC28: a clean, non-root path around a witness of the pattern.
func genPathC28(t *rapid.T, g genPatC28) (string, int) {
	w := genWitnessC28(t, g)
	for k := rapid.SampledFrom([]int{0, 0, 0, 1, 2}).Draw(t, "nsuf"); k > 0; k-- {
		w = append(w, drawNameC28(t))
	}
	if len(w) > 1 && rapid.IntRange(0, 4).Draw(t, "cut") == 0 {
		w = w[:rapid.IntRange(1, len(w)-1).Draw(t, "cutAt")]
	}
	if len(w) == 0 {
		w = append(w, drawNameC28(t))
	}
	if len(w) > 7 {
		w = w[:7]
	}
	abs := rapid.IntRange(0, 11).Draw(t, "pathAbs") != 0
	return joinPathC28(abs, w), len(w)
}

// genDirC28: a proper prefix of a witness (so that descendants can match), sometimes damaged.
func genDirC28(t *rapid.T, g genPatC28) (string, bool, []string) {
	w := genWitnessC28(t, g)
	if len(w) > 1 {
		w = w[:rapid.IntRange(1, len(w)-1).Draw(t, "dirLen")]
	}
	if len(w) == 0 {
		w = append(w, drawNameC28(t))
	}
	if len(w) > 4 {
		w = w[:4]
	}
	if rapid.IntRange(0, 3).Draw(t, "damage") == 0 {
		w[rapid.IntRange(0, len(w)-1).Draw(t, "damageAt")] = drawNameC28(t)
	}
	abs := rapid.IntRange(0, 11).Draw(t, "dirAbs") != 0
	return joinPathC28(abs, w), abs, w
}

// alphabetC28: component names used for the exhaustive enumeration of descendants: the
// witnesses of the patterns' components, then fixed fillers.
func alphabetC28(gs []genPatC28, size int) []string {
	var out []string
	seen := map[string]bool{}
	add := func(s string) {
		if !seen[s] && len(out) < size {
			seen[s] = true
			out = append(out, s)
		}
	}
	for round := 0; round < 3; round++ {
		for _, g := range gs {
			for _, c := range g.comps {
				if c >= 0 && round < len(validTmplC28[c].wit) {
					add(validTmplC28[c].wit[round])
				}
			}
		}
		if round == 0 {
			add("zz")
		}
	}
	add("a")
	add("b")
	return out
}

// anyDescendantC28 reports the first descendant (depth 1..3 over alpha) accepted by ok.
func anyDescendantC28(dir []string, alpha []string, depth int, ok func(comps []string) bool) []string {
	var rec func(cur []string, d int) []string
	rec = func(cur []string, d int) []string {
		if d == 0 {
			return nil
		}
		for _, a := range alpha {
			next := append(append([]string{}, cur...), a)
			if ok(next) {
				return next
			}
			if r := rec(next, d-1); r != nil {
				return r
			}
		}
		return nil
	}
	return rec(dir, depth)
}

func toRunesC28(comps []string) [][]rune {
	out := make([][]rune, len(comps))
	for i, c := range comps {
		out[i] = []rune(c)
	}
	return out
}

func patClassesC28(g genPatC28) []string {
	var cl []string
	nd := 0
	for i, c := range g.comps {
		if c == -1 {
			nd++
			switch {
			case i == 0 && len(g.comps) == 1:
				cl = append(cl, "pat:**only")
			case i == 0:
				cl = append(cl, "pat:**first")
			case i == len(g.comps)-1:
				cl = append(cl, "pat:**last")
			default:
				cl = append(cl, "pat:**middle")
			}
		}
	}
	if nd >= 2 {
		cl = append(cl, "pat:**multiple")
	}
	if nd == 0 {
		cl = append(cl, "pat:no**")
	}
	if g.abs {
		cl = append(cl, "pat:anchored")
	} else {
		cl = append(cl, "pat:unanchored")
	}
	if strings.Contains(g.str, "[") && !g.invalid {
		cl = append(cl, "pat:class")
	}
	if strings.Contains(g.str, `\`) && !g.invalid {
		cl = append(cl, "pat:escape")
	}
	if g.neg {
		cl = append(cl, "pat:negated")
	}
	if g.invalid {
		cl = append(cl, "pat:invalid")
	}
	return cl
}

func okErrC28(err error) bool {
	return err == nil || errors.Is(err, filepath.ErrBadPattern)
}

// ---------------------------------------------------------------------------
// Match / ChildMatch / ValidatePatterns, single pattern
// ---------------------------------------------------------------------------

func TestVerifC28Match(t *testing.T) {
	st := verifkit.Begin(t, "C28")
	alphaSize := verifkit.Scale(5, 6)
	if verifkit.ReplayFile() != "" && strings.HasSuffix(verifkit.ReplayFile(), ".json") {
		// replay of a saved regression case
		var c map[string]string
		if err := verifkit.LoadReplay(&c); err != nil {
			t.Fatalf("replay: %v", err)
		}
		rp := refParsePatternC28(c["pattern"], false)
		abs, comps := splitRefPathC28(c["path"])
		m, err := Match(c["pattern"], c["path"])
		if want := refMatchC28(rp, abs, comps); err != nil || m != want {
			t.Fatalf("replay: Match(%q, %q) = %v, %v; documented semantics give %v", c["pattern"], c["path"], m, err, want)
		}
		return
	}
	for _, c := range regressionC28 {
		if m, err := Match(c[0], c[1]); err != nil || !m {
			verifkit.SaveReplay("C28", "regression", map[string]string{"pattern": c[0], "path": c[1]})
			t.Fatalf("regression: Match(%q, %q) = %v, %v; the documented semantics ('**' matches any number of components, including none) give true", c[0], c[1], m, err)
		}
		rp := refParsePatternC28(c[0], false)
		abs, comps := splitRefPathC28(c[1])
		if !refMatchC28(rp, abs, comps) || boundedMatchC28(rp, abs, comps) {
			t.Fatalf("harness: regression case %q on %q is not of the repaired shape", c[0], c[1])
		}
	}
	rapid.Check(t, func(t *rapid.T) {
		g := genPatternC28(t, false, 10)
		path, plen := genPathC28(t, g)
		dir, dirAbs, dirComps := genDirC28(t, g)

		rp := refParsePatternC28(g.str, false)
		if rp.valid == g.invalid {
			t.Fatalf("harness: reference validity of %q is %v, generator says invalid=%v", g.str, rp.valid, g.invalid)
		}
		pabs, pcomps := splitRefPathC28(path)
		// sanity of the reference glob against the function the manual names
		for _, c := range rp.comps {
			if c.dstar {
				continue
			}
			// filepath.Match validates lazily (it stops at the first mismatch), so it may
			// miss a malformed tail; it must never reject what the grammar accepts.
			_, gerr := filepath.Match(c.src, c.src)
			if gerr != nil && c.valid {
				t.Fatalf("harness: reference glob accepts %q, filepath.Match says %v", c.src, gerr)
			}
			for _, name := range pcomps {
				if gm, _ := filepath.Match(c.src, string(name)); c.valid && gm != refGlobC28(c.toks, name) {
					t.Fatalf("harness: reference glob %q on %q differs from filepath.Match (%v)", c.src, string(name), gm)
				}
			}
		}
		want := refMatchC28(rp, pabs, pcomps)

		classes := patClassesC28(g)
		key := ""
		if rp.ndst > 0 && plen >= 3 {
			key = g.str + "\x00" + path + "\x00" + dir
		}

		// --- ValidatePatterns agrees with the grammar
		verr := ValidatePatterns([]string{g.str})
		if rp.valid && verr != nil {
			t.Fatalf("ValidatePatterns(%q) rejects a well-formed pattern: %v", g.str, verr)
		}
		if !rp.valid {
			// ValidatePatterns matches every component against itself; because
			// filepath.Match validates lazily this can miss a malformed tail (e.g.
			// `[a]*[`). That is outside the property's statement (such a pattern still
			// gives ErrBadPattern when the matcher reaches it); everything the
			// self-match does detect must be reported, naming exactly this pattern.
			selfDetects := false
			for _, c := range rp.comps {
				if !c.dstar {
					if _, e := filepath.Match(c.src, c.src); e != nil {
						selfDetects = true
					}
				}
			}
			var ipe *InvalidPatternError
			switch {
			case errors.As(verr, &ipe):
				if len(ipe.InvalidPatterns) != 1 || ipe.InvalidPatterns[0] != g.str {
					t.Fatalf("ValidatePatterns(%q) = %v, want InvalidPatternError naming exactly the pattern", g.str, verr)
				}
				classes = append(classes, "validate:rejected")
			case verr == nil && !selfDetects:
				classes = append(classes, "validate:malformed-tail-not-detected")
			default:
				t.Fatalf("ValidatePatterns(%q) = %v, want InvalidPatternError naming the pattern", g.str, verr)
			}
		}

		// --- Match
		got, err := Match(g.str, path)
		switch {
		case !rp.valid:
			if !okErrC28(err) {
				t.Fatalf("Match(%q, %q): error %v is not ErrBadPattern", g.str, path, err)
			}
			if err != nil {
				classes = append(classes, "match:ErrBadPattern")
			} else {
				classes = append(classes, "match:invalid-not-reached")
			}
		case err != nil:
			t.Fatalf("Match(%q, %q): unexpected error %v (reference: %v)", g.str, path, err, want)
		case got != want:
			t.Fatalf("Match(%q, %q) = %v, documented semantics give %v", g.str, path, got, want)
		default:
			classes = append(classes, fmt.Sprintf("match=%v", got))
			if want && rp.ndst >= 2 && !boundedMatchC28(rp, pabs, pcomps) {
				classes = append(classes, "match:repaired-multi**-shape")
			}
		}
		if rp.valid && boundedMatchC28(rp, pabs, pcomps) && !want {
			t.Fatalf("harness: defect model matches %q on %q but the reference does not", g.str, path)
		}

		// --- ChildMatch: never false when a descendant matches
		child, cerr := ChildMatch(g.str, dir)
		if !rp.valid {
			if !okErrC28(cerr) {
				t.Fatalf("ChildMatch(%q, %q): error %v is not ErrBadPattern", g.str, dir, cerr)
			}
		} else {
			if cerr != nil {
				t.Fatalf("ChildMatch(%q, %q): unexpected error %v", g.str, dir, cerr)
			}
			alpha := alphabetC28([]genPatC28{g}, alphaSize)
			wit := anyDescendantC28(dirComps, alpha, 3, func(c []string) bool {
				return refMatchC28(rp, dirAbs, toRunesC28(c))
			})
			switch {
			case wit != nil && !child:
				t.Fatalf("ChildMatch(%q, %q) = false, but descendant %q matches", g.str, dir, joinPathC28(dirAbs, wit))
			case wit != nil:
				classes = append(classes, "child:descendant-matches")
			case child:
				classes = append(classes, "child:true-no-descendant<=3")
			default:
				classes = append(classes, "child:false")
			}
		}

		st.Case(key, classes...)
		if st.WantSample() {
			st.Sample(map[string]any{"pattern": g.str, "path": path, "match": got, "dir": dir, "child": child})
		}
	})
}

// ---------------------------------------------------------------------------
// List / ListWithChild / RejectByPattern / IncludeByPattern, pattern lists with negation
// ---------------------------------------------------------------------------

func TestVerifC28List(t *testing.T) {
	st := verifkit.Begin(t, "C28")
	alphaSize := verifkit.Scale(5, 6)
	rapid.Check(t, func(t *rapid.T) {
		n := rapid.IntRange(1, 4).Draw(t, "npat")
		gs := make([]genPatC28, n)
		strs := make([]string, 0, n+1)
		rps := make([]refPatC28, n)
		allValid := true
		anyNeg, anyDst := false, false
		for i := range gs {
			gs[i] = genPatternC28(t, true, 40)
			if i == 0 && n > 1 && gs[i].neg && rapid.Bool().Draw(t, "posFirst") {
				// a leading negation is legal but inert; keep some
				gs[i].neg = false
				gs[i].str = gs[i].str[1:]
			}
			strs = append(strs, gs[i].str)
			rps[i] = refParsePatternC28(gs[i].str, true)
			allValid = allValid && rps[i].valid
			anyNeg = anyNeg || rps[i].neg
			anyDst = anyDst || rps[i].ndst > 0
		}
		if rapid.IntRange(0, 7).Draw(t, "emptyPat") == 0 {
			// empty patterns are ignored
			at := rapid.IntRange(0, len(strs)).Draw(t, "emptyAt")
			strs = append(strs[:at], append([]string{""}, strs[at:]...)...)
		}
		src := gs[rapid.IntRange(0, n-1).Draw(t, "src")]
		path, plen := genPathC28(t, src)
		dir, dirAbs, dirComps := genDirC28(t, src)
		pabs, pcomps := splitRefPathC28(path)
		want := refListC28(rps, pabs, pcomps)

		classes := []string{fmt.Sprintf("list:npat=%d", n)}
		if anyNeg {
			classes = append(classes, "list:has-negation")
		}
		if anyDst {
			classes = append(classes, "list:has**")
		}
		if !allValid {
			classes = append(classes, "list:has-invalid")
		}
		key := ""
		if (anyNeg || anyDst) && plen >= 3 {
			key = strings.Join(strs, "\x01") + "\x00" + path + "\x00" + dir
		}

		pats := ParsePatterns(strs)
		if len(pats) != n {
			t.Fatalf("ParsePatterns(%q) kept %d patterns, want %d", strs, len(pats), n)
		}

		repairedShape := func(abs bool, comps [][]rune) bool {
			for _, rp := range rps {
				if rp.ndst >= 2 && refMatchC28(rp, abs, comps) && !boundedMatchC28(rp, abs, comps) {
					return true
				}
			}
			return false
		}

		// --- List, RejectByPattern
		got, err := List(pats, path)
		var warned int
		rej := RejectByPattern(strs, func(string, ...any) { warned++ })(path)
		if !allValid {
			if !okErrC28(err) {
				t.Fatalf("List(%q, %q): error %v is not ErrBadPattern", strs, path, err)
			}
		} else {
			if err != nil || warned != 0 {
				t.Fatalf("List(%q, %q): unexpected error %v (warnings %d)", strs, path, err, warned)
			}
			if rej != got {
				t.Fatalf("RejectByPattern(%q)(%q) = %v but List = %v", strs, path, rej, got)
			}
			if got != want {
				t.Fatalf("List(%q, %q) = %v, documented semantics give %v", strs, path, got, want)
			}
			classes = append(classes, fmt.Sprintf("list=%v", got))
			if want && anyNeg {
				classes = append(classes, "list:true-with-negation")
			}
			if repairedShape(pabs, pcomps) {
				classes = append(classes, "list:repaired-multi**-shape")
			}
			// case-insensitive variant: the answer does not depend on the casing of the path
			lower := make([]string, len(strs))
			for i, s := range strs {
				lower[i] = strings.ToLower(s)
			}
			up := strings.ToUpper(path)
			ri := RejectByInsensitivePattern(strs, func(string, ...any) {})
			if ri(path) != ri(up) {
				t.Fatalf("RejectByInsensitivePattern(%q): %q -> %v but %q -> %v", strs, path, ri(path), up, ri(up))
			}
		}

		// --- ListWithChild, IncludeByPattern on the directory
		dabs, dcomps := dirAbs, toRunesC28(dirComps)
		wantDir := refListC28(rps, dabs, dcomps)
		m, child, lerr := ListWithChild(pats, dir)
		im, ichild := IncludeByPattern(strs, func(string, ...any) {})(dir)
		if !allValid {
			if !okErrC28(lerr) {
				t.Fatalf("ListWithChild(%q, %q): error %v is not ErrBadPattern", strs, dir, lerr)
			}
		} else {
			if lerr != nil {
				t.Fatalf("ListWithChild(%q, %q): unexpected error %v", strs, dir, lerr)
			}
			if im != m || ichild != child {
				t.Fatalf("IncludeByPattern(%q)(%q) = %v,%v but ListWithChild = %v,%v", strs, dir, im, ichild, m, child)
			}
			if m != wantDir {
				t.Fatalf("ListWithChild(%q, %q) matched = %v, documented semantics give %v", strs, dir, m, wantDir)
			}
			alpha := alphabetC28(gs, alphaSize)
			wit := anyDescendantC28(dirComps, alpha, 3, func(c []string) bool {
				return refListC28(rps, dirAbs, toRunesC28(c))
			})
			switch {
			case wit != nil && !child:
				t.Fatalf("ListWithChild(%q, %q) childMayMatch = false, but descendant %q is matched by the list",
					strs, dir, joinPathC28(dirAbs, wit))
			case wit != nil:
				classes = append(classes, "listchild:descendant-matches")
			case child:
				classes = append(classes, "listchild:true-no-descendant<=3")
			default:
				classes = append(classes, "listchild:false")
			}
		}

		st.Case(key, classes...)
		if st.WantSample() {
			st.Sample(map[string]any{"patterns": strs, "path": path, "list": got, "dir": dir, "dirMatched": m, "childMayMatch": child})
		}
	})
}

// ---------------------------------------------------------------------------
// totality: arbitrary pattern and path strings never panic and fail only with the two
// documented errors
// ---------------------------------------------------------------------------

func TestVerifC28Total(t *testing.T) {
	st := verifkit.Begin(t, "C28")
	pieces := []string{"/", "//", "!", "**", "*", "?", "[", "]", "^", "-", `\`, "a", "b", ".", "..", "é", "\xff", " ", "[a-", "[^", "!/", "***", ""}
	genStr := rapid.Custom(func(t *rapid.T) string {
		if rapid.IntRange(0, 5).Draw(t, "raw") == 0 {
			return rapid.String().Draw(t, "s")
		}
		return strings.Join(rapid.SliceOfN(rapid.SampledFrom(pieces), 0, 8).Draw(t, "pieces"), "")
	})
	rapid.Check(t, func(t *rapid.T) {
		pat := genStr.Draw(t, "pattern")
		path := genStr.Draw(t, "path")
		more := rapid.SliceOfN(genStr, 0, 3).Draw(t, "more")
		check := func(what string, err error) {
			if err != nil && !errors.Is(err, filepath.ErrBadPattern) && !errors.Is(err, ErrBadString) {
				t.Fatalf("%s(%q, %q): unexpected error %v", what, pat, path, err)
			}
			if errors.Is(err, ErrBadString) && path != "" {
				t.Fatalf("%s(%q, %q): ErrBadString for a non-empty path", what, pat, path)
			}
		}
		_, err := Match(pat, path)
		check("Match", err)
		_, err2 := ChildMatch(pat, path)
		check("ChildMatch", err2)
		all := append([]string{pat}, more...)
		verr := ValidatePatterns(all)
		pats := ParsePatterns(all)
		_, err3 := List(pats, path)
		check("List", err3)
		_, _, err4 := ListWithChild(pats, path)
		check("ListWithChild", err4)
		var ipe *InvalidPatternError
		if verr != nil && !errors.As(verr, &ipe) {
			t.Fatalf("ValidatePatterns(%q): unexpected error type %T", all, verr)
		}
		cls := "total:ok"
		if err != nil || err2 != nil || err3 != nil || err4 != nil {
			cls = "total:error"
		}
		key := ""
		if strings.Contains(pat, "**") || strings.HasPrefix(pat, "!") {
			key = pat + "\x00" + path + "\x00" + strings.Join(more, "\x01")
		}
		st.Case(key, cls)
	})
}
