package data

import (
	"context"
	"encoding/json"
	"errors"
	"fmt"
	"strings"
	"testing"
	"time"

	"github.com/restic/restic/internal/restic"
	"github.com/restic/restic/internal/verifkit"
	"pgregory.net/rapid"
)

// vSnapRepoC57 is an in-memory Lister + LoaderUnpacked over snapshot files.
type vSnapRepoC57 struct {
	order []restic.ID
	files map[restic.ID][]byte
}

func (r *vSnapRepoC57) Connections() uint { return 2 }
func (r *vSnapRepoC57) List(ctx context.Context, t restic.FileType, fn func(restic.ID, int64) error) error {
	if t != restic.SnapshotFile {
		return nil
	}
	for _, id := range r.order {
		if ctx.Err() != nil {
			return ctx.Err()
		}
		if err := fn(id, int64(len(r.files[id]))); err != nil {
			return err
		}
	}
	return nil
}
func (r *vSnapRepoC57) LoadUnpacked(_ context.Context, t restic.FileType, id restic.ID) ([]byte, error) {
	b, ok := r.files[id]
	if !ok || t != restic.SnapshotFile {
		return nil, fmt.Errorf("file %v does not exist", id)
	}
	return b, nil
}

// genRepoC57 builds snapshot files; their IDs are real hashes, so shared prefixes are
// obtained by searching a pool of candidate snapshots for collisions on the first
// nibbles (prefix lengths 0-3 occur naturally with 40 candidates over 16 buckets).
func genRepoC57(t *rapid.T) *vSnapRepoC57 {
	r := &vSnapRepoC57{files: map[restic.ID][]byte{}}
	n := rapid.IntRange(0, 40).Draw(t, "n")
	base := rapid.Int64Range(0, 1<<32).Draw(t, "base")
	for i := 0; i < n; i++ {
		sn := Snapshot{Time: time.Unix(base+int64(i), 0).UTC(), Hostname: fmt.Sprintf("h%d", i), Paths: []string{"/p"}}
		buf, _ := json.Marshal(sn)
		id := restic.Hash(buf)
		r.files[id] = buf
		r.order = append(r.order, id)
	}
	return r
}

func TestVerifC57FindSnapshot(t *testing.T) {
	st := verifkit.Begin(t, "C57")
	rapid.Check(t, func(t *rapid.T) {
		r := genRepoC57(t)
		var prefix string
		kind := rapid.IntRange(0, 5).Draw(t, "kind")
		if len(r.order) > 0 && kind < 4 {
			s := r.order[rapid.IntRange(0, len(r.order)-1).Draw(t, "m")].String()
			prefix = s[:rapid.OneOf(rapid.IntRange(0, 4), rapid.IntRange(0, 64)).Draw(t, "l")]
		} else {
			prefix = rapid.StringMatching(`[0-9a-f]{0,3}`).Draw(t, "p")
		}
		if kind == 3 {
			prefix = strings.ToUpper(prefix)
		}
		sub := rapid.SampledFrom([]string{"", ":", ":sub/dir", ":a:b"}).Draw(t, "sub")
		var matches []restic.ID
		// a complete 64-digit hex string denotes an ID whatever its letter case (hex
		// decoding is case-insensitive); anything shorter is a textual prefix of the
		// lower-case file name.
		cmp := prefix
		if len(prefix) == 64 {
			cmp = strings.ToLower(prefix)
		}
		for _, id := range r.order {
			if strings.HasPrefix(id.String(), cmp) {
				matches = append(matches, id)
			}
		}
		key := ""
		if len(r.order) >= 2 {
			key = fmt.Sprintf("%v|%s%s", r.order[0], prefix, sub)
		}
		st.Case(key, fmt.Sprintf("matches=%d", min(len(matches), 2)))
		if st.WantSample() {
			st.Sample(map[string]any{"snapshots": len(r.order), "arg": prefix + sub, "matches": len(matches)})
		}

		sn, gotSub, err := FindSnapshot(context.Background(), r, r, prefix+sub)
		wantSub := strings.TrimPrefix(sub, ":")
		switch len(matches) {
		case 1:
			if err != nil || sn == nil || *sn.ID() != matches[0] {
				t.Fatalf("unique match %v for %q: got %v err %v", matches[0], prefix, sn, err)
			}
			if gotSub != wantSub {
				t.Fatalf("subfolder %q, want %q", gotSub, wantSub)
			}
			if sn.Hostname == "" {
				t.Fatalf("snapshot not loaded")
			}
		case 0:
			var e *restic.NoIDByPrefixError
			if sn != nil || err == nil || (len(prefix) != 64 && !errors.As(err, &e)) {
				t.Fatalf("no match for %q: got %v err %v", prefix, sn, err)
			}
		default:
			var e *restic.MultipleIDMatchesError
			if sn != nil || !errors.As(err, &e) {
				t.Fatalf("%d matches for %q: got %v err %v", len(matches), prefix, sn, err)
			}
		}
	})
}
