package data

import (
	"fmt"
	"slices"
	"testing"

	"github.com/restic/restic/internal/verifkit"
	"pgregory.net/rapid"
)

// Pure part of C25: Snapshot.AddTags / RemoveTags against a set model, for tag
// lists that already contain duplicates.
func TestVerifC25AddRemoveTags(t *testing.T) {
	st := verifkit.Begin(t, "C25")
	pool := []string{"a", "b", "c", "d", ""}
	gen := rapid.SliceOfN(rapid.SampledFrom(pool), 0, 6)
	rapid.Check(t, func(t *rapid.T) {
		old := gen.Draw(t, "tags")
		add := gen.Draw(t, "add")
		rm := gen.Draw(t, "remove")
		sn := &Snapshot{Tags: slices.Clone(old)}
		ca := sn.AddTags(add)
		afterAdd := slices.Clone(sn.Tags)
		cr := sn.RemoveTags(rm)
		got := sn.Tags

		dup := false
		for _, r := range rm {
			n := 0
			for _, o := range afterAdd {
				if o == r {
					n++
				}
			}
			if n >= 2 {
				dup = true
			}
		}
		key := ""
		if dup {
			key = fmt.Sprint(old, add, rm)
		}
		st.Case(key, fmt.Sprintf("dup=%v", dup))
		if st.WantSample() {
			st.Sample(map[string]any{"tags": old, "add": add, "remove": rm, "result": got})
		}
		has := func(l []string, x string) bool { return slices.Contains(l, x) }
		for _, a := range add {
			if !has(afterAdd, a) {
				t.Fatalf("AddTags(%q) on %q -> %q lacks %q", add, old, afterAdd, a)
			}
		}
		for _, o := range old {
			if !has(afterAdd, o) {
				t.Fatalf("AddTags lost %q", o)
			}
		}
		if ca != (len(afterAdd) != len(old)) {
			t.Fatalf("AddTags changed=%v but %q -> %q", ca, old, afterAdd)
		}
		for _, r := range rm {
			if has(got, r) {
				t.Fatalf("RemoveTags(%q) on %q -> %q still has %q", rm, afterAdd, got, r)
			}
		}
		for _, x := range afterAdd {
			if !has(rm, x) && !has(got, x) {
				t.Fatalf("RemoveTags(%q) on %q -> %q lost %q", rm, afterAdd, got, x)
			}
		}
		for _, x := range got {
			if !has(afterAdd, x) {
				t.Fatalf("RemoveTags invented %q", x)
			}
		}
		if cr != (len(got) != len(afterAdd)) {
			t.Fatalf("RemoveTags changed=%v but %q -> %q", cr, afterAdd, got)
		}
	})
}
