package data

// Property C49 (durations): every string is either rejected with an error or parsed to
// exactly the duration it denotes, nothing panics, and Duration.String() parses back to
// the same value.
//
// Reference (math/big), from the documented format `6y5m234d37h` (doc/060_forget.rst:
// "a number of years, months, days, and hours, e.g. 2y5m7d3h"): after trimming white
// space the string is a sequence of groups  ['-'] DIGITS UNIT  with UNIT in y m d h.
// A number beyond the int range cannot be represented and must be rejected.

import (
	"fmt"
	"math"
	"math/big"
	"strings"
	"testing"

	"github.com/restic/restic/internal/verifkit"
	"pgregory.net/rapid"
)

type refDurC49 struct {
	syntaxOK bool
	rangeOK  bool // every number fits the int range (magnitude <= MaxInt64)
	minEdge  bool // some number is exactly -2^63: representable, but rejecting it is tolerated
	dupUnit  bool
	last     map[byte]*big.Int // value of the last group per unit
	sum      map[byte]*big.Int // sum of all groups per unit
}

func isDigitC49(c byte) bool { return c >= '0' && c <= '9' }

func refParseDurationC49(s string) refDurC49 {
	r := refDurC49{rangeOK: true, last: map[byte]*big.Int{}, sum: map[byte]*big.Int{}}
	s = strings.TrimSpace(s)
	maxInt := big.NewInt(math.MaxInt64)
	i := 0
	for i < len(s) {
		neg := false
		if s[i] == '-' {
			neg = true
			i++
		}
		j := i
		for j < len(s) && isDigitC49(s[j]) {
			j++
		}
		if j == i || j >= len(s) {
			return r // no digits, or no unit
		}
		u := s[j]
		if u != 'y' && u != 'm' && u != 'd' && u != 'h' {
			return r
		}
		n, _ := new(big.Int).SetString(s[i:j], 10)
		if n.Cmp(maxInt) > 0 {
			if neg && n.Cmp(new(big.Int).Add(maxInt, big.NewInt(1))) == 0 {
				r.minEdge = true
			} else {
				r.rangeOK = false
			}
		}
		if neg {
			n.Neg(n)
		}
		if _, seen := r.last[u]; seen {
			r.dupUnit = true
			r.sum[u] = new(big.Int).Add(r.sum[u], n)
		} else {
			r.sum[u] = n
		}
		r.last[u] = n
		i = j + 1
	}
	r.syntaxOK = true
	return r
}

func durFieldsC49(d Duration) map[byte]int {
	return map[byte]int{'y': d.Years, 'm': d.Months, 'd': d.Days, 'h': d.Hours}
}

// ---- generators ----

var spacesC49 = []string{"", "", "", " ", "\t", "\n", " ", " ", "  "}

// genNumberC49: digit strings around the interesting magnitudes.
func genNumberC49(t *rapid.T) string {
	switch rapid.IntRange(0, 9).Draw(t, "numKind") {
	case 0, 1, 2:
		return fmt.Sprint(rapid.IntRange(0, 400).Draw(t, "small"))
	case 3, 4, 5:
		k := rapid.SampledFrom([]uint{7, 8, 15, 16, 31, 32, 53, 62, 63, 64, 65, 127, 128, 129}).Draw(t, "pow")
		n := new(big.Int).Lsh(big.NewInt(1), k)
		n.Add(n, big.NewInt(int64(rapid.IntRange(-3, 3).Draw(t, "delta"))))
		return n.String()
	case 6:
		return "1" + strings.Repeat("0", rapid.IntRange(1, 45).Draw(t, "zeros"))
	case 7:
		return strings.Repeat("9", rapid.IntRange(1, 45).Draw(t, "nines"))
	case 8:
		return strings.Repeat("0", rapid.IntRange(1, 25).Draw(t, "lead0")) + fmt.Sprint(rapid.IntRange(0, 99).Draw(t, "after0"))
	default:
		return rapid.StringMatching(`[0-9]{1,40}`).Draw(t, "digits")
	}
}

func genDurationStringC49(t *rapid.T) string {
	if rapid.IntRange(0, 39).Draw(t, "fixed") == 0 {
		return rapid.SampledFrom([]string{
			"99999999999999999999d", // regression probe: used to panic
			"-99999999999999999999h", "9223372036854775808y", "-9223372036854775808m", "9223372036854775807d",
			"", " ", "d", "-", "-d", "1", "1w", "1D", "1d1d", "--1d", "+1d", "1 d", "1d 2h", "٣d", "３h", "1.5d", "0x10d", "1e3d", "1_000d",
		}).Draw(t, "fixedStr")
	}
	var b strings.Builder
	b.WriteString(rapid.SampledFrom(spacesC49).Draw(t, "lead"))
	n := rapid.IntRange(0, 5).Draw(t, "groups")
	units := []string{"y", "m", "d", "h"}
	perm := rapid.Permutation(units).Draw(t, "unitOrder")
	for i := 0; i < n; i++ {
		switch rapid.IntRange(0, 19).Draw(t, "sign") {
		case 0, 1, 2, 3:
			b.WriteString("-")
		case 4:
			b.WriteString(rapid.SampledFrom([]string{"+", "--", "−", "-+"}).Draw(t, "badSign"))
		}
		if rapid.IntRange(0, 29).Draw(t, "noNum") != 0 {
			b.WriteString(genNumberC49(t))
		}
		switch rapid.IntRange(0, 29).Draw(t, "unitKind") {
		case 0:
			b.WriteString(rapid.SampledFrom([]string{"w", "s", "Y", "M", "D", "H", "µ", "", "dd", " d", "d ", "٣", "e"}).Draw(t, "badUnit"))
		case 1, 2:
			b.WriteString(rapid.SampledFrom(units).Draw(t, "anyUnit")) // may repeat a unit
		default:
			b.WriteString(perm[i%4])
		}
	}
	b.WriteString(rapid.SampledFrom(spacesC49).Draw(t, "trail"))
	return b.String()
}

func TestVerifC49Duration(t *testing.T) {
	st := verifkit.Begin(t, "C49")

	// regression probes for the repaired defect (panicked before the fix), and replay of a saved one
	probes := []string{"99999999999999999999d", "-99999999999999999999h", "1y99999999999999999999m", " 9223372036854775808d "}
	if rf := verifkit.ReplayFile(); rf != "" && strings.HasSuffix(rf, ".json") {
		var c map[string]string
		if err := verifkit.LoadReplay(&c); err != nil {
			t.Fatalf("replay: %v", err)
		}
		probes = []string{c["input"]}
	}
	for _, p := range probes {
		func() {
			defer func() {
				if r := recover(); r != nil {
					verifkit.SaveReplay("C49", "duration-probe", map[string]string{"input": p})
					t.Fatalf("ParseDuration(%q) panicked: %v", p, r)
				}
			}()
			if d, err := ParseDuration(p); err == nil {
				verifkit.SaveReplay("C49", "duration-probe", map[string]string{"input": p})
				t.Fatalf("ParseDuration(%q) accepted a number beyond the int range as %+v", p, d)
			}
		}()
	}
	if verifkit.ReplayFile() != "" && strings.HasSuffix(verifkit.ReplayFile(), ".json") {
		return
	}

	rapid.Check(t, func(t *rapid.T) {
		s := genDurationStringC49(t)
		ref := refParseDurationC49(s)

		d, err := ParseDuration(s) // a panic is reported by rapid as a failure

		var set Duration
		serr := set.Set(s)
		if (serr == nil) != (err == nil) || (err == nil && set != d) {
			t.Fatalf("Duration.Set(%q) = %+v, %v differs from ParseDuration = %+v, %v", s, set, serr, d, err)
		}

		class := ""
		key := ""
		switch {
		case !ref.syntaxOK:
			class = "dur:reject-syntax"
			if err == nil {
				t.Fatalf("ParseDuration(%q) accepted a malformed duration as %+v", s, d)
			}
		case !ref.rangeOK:
			class = "dur:reject-range"
			key = "dur|" + s
			if err == nil {
				t.Fatalf("ParseDuration(%q) accepted a number beyond the int range as %+v", s, d)
			}
		default:
			if err != nil {
				if ref.minEdge {
					class = "dur:reject-minint-edge"
					break
				}
				t.Fatalf("ParseDuration(%q) rejected a well-formed duration: %v", s, err)
			}
			class = "dur:accept"
			key = "dur|" + s
			got := durFieldsC49(d)
			for _, u := range []byte("ymdh") {
				want := ref.last[u]
				if want == nil {
					want = big.NewInt(0)
				}
				g := big.NewInt(int64(got[u]))
				if g.Cmp(want) == 0 {
					continue
				}
				// a repeated unit has no documented meaning: the last value or the sum
				if ref.dupUnit && ref.sum[u] != nil && g.Cmp(ref.sum[u]) == 0 {
					continue
				}
				t.Fatalf("ParseDuration(%q): unit %c = %d, denoted value %v", s, u, got[u], want)
			}
			if ref.dupUnit {
				class = "dur:accept-repeated-unit"
			}
			if d.Zero() != (d == Duration{}) {
				t.Fatalf("Zero() of %+v", d)
			}
			// prints back in a form that parses to the same value
			back, berr := ParseDuration(d.String())
			if berr != nil || back != d {
				t.Fatalf("ParseDuration(%q) = %+v; String() = %q parses to %+v, %v", s, d, d.String(), back, berr)
			}
		}
		st.Case(key, class)
		if st.WantSample() {
			st.Sample(map[string]any{"input": s, "value": fmt.Sprintf("%+v", d), "err": fmt.Sprint(err)})
		}
	})
}

// Round trip over Duration values that did not come from a string.
func TestVerifC49DurationString(t *testing.T) {
	st := verifkit.Begin(t, "C49")
	// -2^63 is excluded: no accepted input produces it (ParseDuration reads the magnitude first)
	genInt := rapid.OneOf(
		rapid.IntRange(-3, 3),
		rapid.IntRange(-math.MaxInt64, math.MaxInt64),
		rapid.SampledFrom([]int{math.MaxInt64, -math.MaxInt64, math.MaxInt32, math.MinInt32, 1 << 53, 0}),
		rapid.Just(0),
	)
	rapid.Check(t, func(t *rapid.T) {
		d := Duration{Hours: genInt.Draw(t, "h"), Days: genInt.Draw(t, "d"), Months: genInt.Draw(t, "m"), Years: genInt.Draw(t, "y")}
		s := d.String()
		back, err := ParseDuration(s)
		if err != nil || back != d {
			t.Fatalf("%+v prints as %q which parses to %+v, %v", d, s, back, err)
		}
		// the printed form denotes the value under the reference as well
		ref := refParseDurationC49(s)
		if !ref.syntaxOK || !ref.rangeOK || ref.dupUnit {
			t.Fatalf("%+v prints as %q which is not a well-formed duration", d, s)
		}
		for u, v := range durFieldsC49(d) {
			want := ref.last[u]
			if want == nil {
				want = big.NewInt(0)
			}
			if want.Cmp(big.NewInt(int64(v))) != 0 {
				t.Fatalf("%+v prints as %q which denotes %c=%v", d, s, u, want)
			}
		}
		nz := 0
		for _, v := range durFieldsC49(d) {
			if v != 0 {
				nz++
			}
		}
		key := ""
		if nz >= 2 {
			key = "durstr|" + s
		}
		st.Case(key, fmt.Sprintf("durstr:nonzero-fields=%d", nz))
	})
}
