package data

import (
	"context"
	"encoding/json"
	"errors"
	"fmt"
	"path/filepath"
	"sort"
	"strings"
	"testing"
	"time"

	"github.com/restic/restic/internal/restic"
	"github.com/restic/restic/internal/verifkit"
	"pgregory.net/rapid"
)

// ---------------------------------------------------------------------------
// C24  Snapshot filters, grouping and 'latest' select the right snapshots.
// ---------------------------------------------------------------------------

// vSnapRepoC24 is an in-memory Lister + LoaderUnpacked over snapshot files.
type vSnapRepoC24 struct {
	order []restic.ID
	files map[restic.ID][]byte
	conns uint
}

func (r *vSnapRepoC24) Connections() uint { return r.conns }
func (r *vSnapRepoC24) List(ctx context.Context, t restic.FileType, fn func(restic.ID, int64) error) error {
	if t != restic.SnapshotFile {
		return nil
	}
	for _, id := range r.order {
		if ctx.Err() != nil {
			return ctx.Err()
		}
		if err := fn(id, int64(len(r.files[id]))); err != nil {
			return err
		}
	}
	return nil
}
func (r *vSnapRepoC24) LoadUnpacked(_ context.Context, t restic.FileType, id restic.ID) ([]byte, error) {
	b, ok := r.files[id]
	if !ok || t != restic.SnapshotFile {
		return nil, fmt.Errorf("file %v does not exist", id)
	}
	return b, nil
}

// vSnapC24 is the model's view of one snapshot (taken before restic touches it).
type vSnapC24 struct {
	id    restic.ID
	time  time.Time
	host  string
	paths []string
	tags  []string
}

var (
	hostPoolC24 = []string{"h1", "h2", "H1", "h1 ", ""}
	pathPoolC24 = []string{"/a", "/b", "/a/b", "/c d", "/", "/A"}
	tagPoolC24  = []string{"t1", "t2", "t3", "T1", "t1,t2", "t 1"}
)

func genSubsetC24(t *rapid.T, label string, pool []string, minN, maxN int) []string {
	n := rapid.IntRange(minN, maxN).Draw(t, label+"n")
	out := make([]string, 0, n)
	for i := 0; i < n; i++ {
		if i > 0 && rapid.IntRange(0, 5).Draw(t, label+"dup") == 0 {
			out = append(out, out[rapid.IntRange(0, i-1).Draw(t, label+"dupi")]) // duplicate entry
			continue
		}
		out = append(out, rapid.SampledFrom(pool).Draw(t, label))
	}
	return out
}

func genRepoC24(t *rapid.T) (*vSnapRepoC24, []vSnapC24) {
	r := &vSnapRepoC24{files: map[restic.ID][]byte{}, conns: uint(rapid.IntRange(1, 4).Draw(t, "conns"))}
	n := rapid.OneOf(rapid.IntRange(0, 8), rapid.IntRange(0, 30)).Draw(t, "n")
	base := time.Date(2020, 2, 29, 22, 0, 0, 0, time.UTC)
	var model []vSnapC24
	// a few "profiles" (host, paths, tags) are reused with permutations so that groups
	// with more than one member and order-permuted keys are common
	type profile struct {
		host        string
		paths, tags []string
	}
	var profiles []profile
	for i := 0; i < n; i++ {
		var pr profile
		if len(profiles) > 0 && rapid.IntRange(0, 2).Draw(t, "reuse") > 0 {
			src := profiles[rapid.IntRange(0, len(profiles)-1).Draw(t, "profile")]
			pr.host = src.host
			pr.paths = rapid.Permutation(src.paths).Draw(t, "permPaths")
			pr.tags = rapid.Permutation(src.tags).Draw(t, "permTags")
			switch rapid.IntRange(0, 7).Draw(t, "vary") { // near misses of the profile
			case 0:
				pr.host = rapid.SampledFrom(hostPoolC24).Draw(t, "host")
			case 1:
				pr.tags = append(append([]string{}, pr.tags...), rapid.SampledFrom(tagPoolC24).Draw(t, "tag+"))
			case 2:
				if len(pr.tags) > 0 {
					pr.tags = pr.tags[1:]
				}
			case 3:
				pr.paths = append(append([]string{}, pr.paths...), rapid.SampledFrom(pathPoolC24).Draw(t, "path+"))
			}
		} else {
			pr.host = rapid.SampledFrom(hostPoolC24).Draw(t, "host")
			pr.paths = genSubsetC24(t, "path", pathPoolC24, 1, 3)
			pr.tags = genSubsetC24(t, "tag", tagPoolC24, 0, 3)
			if rapid.IntRange(0, 19).Draw(t, "emptytag") == 0 {
				pr.tags = append(pr.tags, "") // a literal empty tag (not creatable by the CLI, but storable)
			}
		}
		profiles = append(profiles, pr)
		// few distinct instants, in different zones: ties are common
		ts := base.Add(time.Duration(rapid.IntRange(0, 5).Draw(t, "hour")) * time.Hour)
		if rapid.IntRange(0, 3).Draw(t, "fine") == 0 {
			ts = ts.Add(time.Duration(rapid.IntRange(-2, 2).Draw(t, "ns")))
		}
		ts = ts.In(time.FixedZone("", rapid.SampledFrom([]int{0, 3600, -7200, 19800}).Draw(t, "zone")))
		var tags []string
		if len(pr.tags) > 0 {
			tags = append(tags, pr.tags...)
		}
		sn := Snapshot{Time: ts, Hostname: pr.host, Paths: append([]string{}, pr.paths...), Tags: tags, Username: fmt.Sprintf("u%d", i)}
		buf, err := json.Marshal(sn)
		if err != nil {
			t.Fatalf("marshal: %v", err)
		}
		id := restic.Hash(buf)
		r.files[id] = buf
		r.order = append(r.order, id)
		model = append(model, vSnapC24{id: id, time: ts, host: pr.host, paths: append([]string{}, pr.paths...), tags: append([]string{}, tags...)})
	}
	return r, model
}

func genTagListC24(t *rapid.T) TagList {
	switch rapid.IntRange(0, 9).Draw(t, "tlk") {
	case 0:
		return TagList{""} // untagged only
	case 1:
		return TagList{} // no requirement
	case 2:
		return TagList{"", rapid.SampledFrom(tagPoolC24).Draw(t, "tle")} // '' first, then a real tag
	case 3:
		return TagList{rapid.SampledFrom(tagPoolC24).Draw(t, "tle"), ""}
	case 4:
		return TagList{"", ""}
	default:
		return TagList(genSubsetC24(t, "tl", tagPoolC24, 1, 3))
	}
}

type filterC24 struct {
	hosts []string
	tags  []TagList
	paths []string
	limit time.Time
}

func genFilterC24(t *rapid.T, model []vSnapC24) filterC24 {
	var f filterC24
	// derive from an existing snapshot in half of the cases so that non-empty strict subsets are common
	var from *vSnapC24
	if len(model) > 0 && rapid.Bool().Draw(t, "fromSnap") {
		from = &model[rapid.IntRange(0, len(model)-1).Draw(t, "fromIdx")]
	}
	if rapid.IntRange(0, 2).Draw(t, "fh") == 0 {
		f.hosts = genSubsetC24(t, "fhost", append([]string{"nosuch"}, hostPoolC24...), 1, 2)
		if from != nil && rapid.IntRange(0, 3).Draw(t, "fhFrom") > 0 {
			f.hosts[0] = from.host
		}
	}
	for i := rapid.IntRange(-1, 2).Draw(t, "ftl"); i > 0; i-- {
		l := genTagListC24(t)
		if from != nil && len(from.tags) > 0 && rapid.IntRange(0, 2).Draw(t, "ftFrom") > 0 {
			l = TagList(rapid.Permutation(from.tags).Draw(t, "ftPerm"))
			l = l[:rapid.IntRange(1, len(l)).Draw(t, "ftCut")]
		}
		f.tags = append(f.tags, l)
	}
	if rapid.IntRange(0, 2).Draw(t, "fp") == 0 {
		f.paths = genSubsetC24(t, "fpath", append([]string{"/nosuch"}, pathPoolC24...), 1, 2)
		if from != nil && rapid.IntRange(0, 3).Draw(t, "fpFrom") > 0 {
			f.paths[0] = from.paths[rapid.IntRange(0, len(from.paths)-1).Draw(t, "fpIdx")]
		}
	}
	if rapid.IntRange(0, 2).Draw(t, "fl") == 0 {
		base := time.Date(2020, 2, 29, 22, 0, 0, 0, time.UTC)
		f.limit = base.Add(time.Duration(rapid.IntRange(-1, 6).Draw(t, "flh"))*time.Hour + time.Duration(rapid.IntRange(-2, 2).Draw(t, "flns")))
		if from != nil && rapid.Bool().Draw(t, "flFrom") {
			f.limit = from.time
		}
	}
	return f
}

func (f filterC24) String() string {
	lim := "-"
	if !f.limit.IsZero() {
		lim = f.limit.Format(time.RFC3339Nano)
	}
	return fmt.Sprintf("{hosts:%q tags:%q paths:%q limit:%s}", f.hosts, f.tags, f.paths, lim)
}

func (f filterC24) restic() *SnapshotFilter {
	sf := &SnapshotFilter{TimestampLimit: f.limit}
	sf.Hosts = append([]string(nil), f.hosts...)
	sf.Paths = append([]string(nil), f.paths...)
	for _, l := range f.tags {
		sf.Tags = append(sf.Tags, append(TagList(nil), l...))
	}
	return sf
}

func containsC24(l []string, s string) bool {
	for _, x := range l {
		if x == s {
			return true
		}
	}
	return false
}

// hasTagsC24: "tags separated by commas mean the snapshot must have all of those tags
// (AND within the list)"; '' "will match untagged snapshots only".
func hasTagsC24(s vSnapC24, l TagList) bool {
	for _, want := range l {
		if want == "" && len(s.tags) == 0 {
			continue
		}
		if !containsC24(s.tags, want) {
			return false
		}
	}
	return true
}

// matchesC24 is the documented filter semantics: host is one of the hosts (if any),
// at least one tag list is satisfied (if any), every path is among the snapshot's paths.
func matchesC24(s vSnapC24, f filterC24, cleanPaths bool) bool {
	if len(f.hosts) > 0 && !containsC24(f.hosts, s.host) {
		return false
	}
	if len(f.tags) > 0 {
		any := false
		for _, l := range f.tags {
			any = any || hasTagsC24(s, l)
		}
		if !any {
			return false
		}
	}
	for _, p := range f.paths {
		if cleanPaths {
			p = filepath.Clean(p)
		}
		if !containsC24(s.paths, p) {
			return false
		}
	}
	return true
}

func sortedC24(l []string) string {
	c := append([]string{}, l...)
	sort.Strings(c)
	return fmt.Sprintf("%q", c)
}

func TestVerifC24Filter(t *testing.T) {
	st := verifkit.Begin(t, "C24")
	ctx := context.Background()

	// regression probe, exact shape of the repaired finding C24:hastags-empty-tag-short-circuit
	for _, c := range []struct {
		have []string
		list TagList
		want bool
	}{
		{nil, TagList{"", "a"}, false}, {nil, TagList{"a", ""}, false}, {nil, TagList{""}, true}, {nil, TagList{"", ""}, true},
		{[]string{"a"}, TagList{"", "a"}, false}, {[]string{"a"}, TagList{"a"}, true}, {[]string{"a"}, TagList{""}, false}, {nil, TagList{}, true},
	} {
		if got := (&Snapshot{Tags: c.have}).HasTags(c.list); got != c.want {
			t.Fatalf("HasTags(%q) on a snapshot tagged %q = %v, want %v", []string(c.list), c.have, got, c.want)
		}
	}
	rapid.Check(t, func(t *rapid.T) {
		repo, model := genRepoC24(t)
		f := genFilterC24(t, model)
		byID := map[restic.ID]vSnapC24{}
		untagged, ties := 0, 0
		stamps := map[int64]bool{}
		for _, s := range model {
			byID[s.id] = s
			if len(s.tags) == 0 {
				untagged++
			}
			if stamps[s.time.UnixNano()] {
				ties++
			}
			stamps[s.time.UnixNano()] = true
		}

		// ---- the predicates themselves, on loaded snapshots
		for _, s := range model {
			sn, err := LoadSnapshot(ctx, repo, s.id)
			if err != nil {
				t.Fatalf("LoadSnapshot: %v", err)
			}
			for _, l := range f.tags {
				got, want := sn.HasTags(l), hasTagsC24(s, l)
				if got != want {
					t.Fatalf("HasTags(%q) on a snapshot with tags %q = %v; documented (all of the tags, '' = untagged): %v", []string(l), s.tags, got, want)
				}
			}
		}
		for _, s := range model {
			sn, _ := LoadSnapshot(ctx, repo, s.id)
			if got, want := sn.HasHostname(f.hosts), len(f.hosts) == 0 || containsC24(f.hosts, s.host); got != want {
				t.Fatalf("HasHostname(%q) on host %q = %v, want %v", f.hosts, s.host, got, want)
			}
			wantTL := len(f.tags) == 0
			for _, l := range f.tags {
				wantTL = wantTL || hasTagsC24(s, l)
			}
			if got := sn.HasTagList(f.tags); got != wantTL {
				t.Fatalf("HasTagList(%q) on tags %q = %v, want %v", f.tags, s.tags, got, wantTL)
			}
			wantP := true
			for _, p := range f.paths {
				wantP = wantP && containsC24(s.paths, p)
			}
			if got := sn.HasPaths(f.paths); got != wantP {
				t.Fatalf("HasPaths(%q) on paths %q = %v, want %v", f.paths, s.paths, got, wantP)
			}
		}

		// ---- FindAll without arguments: exactly the matching snapshots, each once
		want := map[restic.ID]bool{}
		for _, s := range model {
			if matchesC24(s, f, false) {
				want[s.id] = true
			}
		}
		got := map[restic.ID]int{}
		var loaded Snapshots
		err := f.restic().FindAll(ctx, repo, repo, nil, func(id string, sn *Snapshot, err error) error {
			if err != nil {
				return fmt.Errorf("callback error for %v: %w", id, err)
			}
			if sn == nil || sn.ID() == nil || sn.ID().String() != id {
				return fmt.Errorf("callback id %q does not belong to snapshot %v", id, sn)
			}
			got[*sn.ID()]++
			loaded = append(loaded, sn)
			return nil
		})
		if err != nil {
			t.Fatalf("FindAll: %v", err)
		}
		for _, s := range model {
			if want[s.id] != (got[s.id] == 1) || got[s.id] > 1 {
				t.Fatalf("FindAll with filter %+v: snapshot host=%q paths=%q tags=%q time=%v yielded %d times, model says match=%v",
					f, s.host, s.paths, s.tags, s.time, got[s.id], want[s.id])
			}
		}
		if len(got) != len(want) {
			t.Fatalf("FindAll yielded %d snapshots, want %d", len(got), len(want))
		}

		// ---- latest
		lf := f
		if len(f.paths) > 0 && rapid.Bool().Draw(t, "uncleanPaths") {
			// 'latest' cleans its path filter: /a/ and /x/../a mean /a
			lf.paths = append([]string{}, f.paths...)
			for i, p := range lf.paths {
				switch rapid.IntRange(0, 3).Draw(t, "unclean") {
				case 0:
					lf.paths[i] = p + "/"
				case 1:
					lf.paths[i] = "/x/.." + p
				case 2:
					lf.paths[i] = "/" + p
				}
			}
		}
		var cands []vSnapC24
		var newest time.Time
		for _, s := range model {
			if matchesC24(s, lf, true) && (lf.limit.IsZero() || !s.time.After(lf.limit)) {
				cands = append(cands, s)
				if len(cands) == 1 || s.time.After(newest) {
					newest = s.time
				}
			}
		}
		sub := rapid.SampledFrom([]string{"", ":", ":sub/dir"}).Draw(t, "sub")
		sn, gotSub, err := lf.restic().FindLatest(ctx, repo, repo, "latest"+sub)
		latestClass := "latest=none"
		if len(cands) == 0 {
			if sn != nil || !errors.Is(err, ErrNoSnapshotFound) {
				t.Fatalf("latest with filter %+v: no snapshot qualifies, got %v err %v", lf, sn, err)
			}
		} else {
			latestClass = "latest=found"
			if err != nil || sn == nil {
				t.Fatalf("latest with filter %+v: %d candidates, got %v err %v", lf, len(cands), sn, err)
			}
			s, ok := byID[*sn.ID()]
			if !ok || !matchesC24(s, lf, true) {
				t.Fatalf("latest with filter %+v returned a snapshot that does not match: %+v", lf, s)
			}
			if !lf.limit.IsZero() && sn.Time.After(lf.limit) {
				t.Fatalf("latest returned %v, after the limit %v", sn.Time, lf.limit)
			}
			if !sn.Time.Equal(newest) {
				t.Fatalf("latest with filter %+v returned time %v, newest qualifying is %v", lf, sn.Time, newest)
			}
			if gotSub != strings.TrimPrefix(sub, ":") {
				t.Fatalf("subfolder %q, want %q", gotSub, strings.TrimPrefix(sub, ":"))
			}
			nTie := 0
			for _, c := range cands {
				if c.time.Equal(newest) {
					nTie++
				}
			}
			if nTie > 1 {
				latestClass = "latest=found-among-ties"
			}
		}

		// ---- FindAll with arguments: explicit IDs are taken as they are, "latest" goes through the filter
		var args []string
		explicit := map[restic.ID]bool{}
		hasLatest := false
		for i := rapid.IntRange(0, 3).Draw(t, "nargs"); i > 0 && len(model) > 0; i-- {
			if rapid.IntRange(0, 2).Draw(t, "argLatest") == 0 {
				args = append(args, "latest")
				hasLatest = true
				continue
			}
			id := model[rapid.IntRange(0, len(model)-1).Draw(t, "argIdx")].id
			args = append(args, id.String())
			explicit[id] = true
		}
		if len(args) > 0 {
			gotArgs := map[restic.ID]int{}
			latestErr := false
			var latestGot *Snapshot
			err := f.restic().FindAll(ctx, repo, repo, args, func(id string, sn *Snapshot, err error) error {
				if err != nil {
					if id == "latest" {
						latestErr = true
					} else if id != "filters" {
						return fmt.Errorf("argument %q: %w", id, err)
					}
					return nil
				}
				gotArgs[*sn.ID()]++
				if !explicit[*sn.ID()] {
					latestGot = sn
				}
				return nil
			})
			if err != nil {
				t.Fatalf("FindAll(%q): %v", args, err)
			}
			// candidates for the "latest" argument (same rule as FindLatest)
			var c2 []vSnapC24
			var newest2 time.Time
			for _, s := range model {
				if matchesC24(s, f, true) && (f.limit.IsZero() || !s.time.After(f.limit)) {
					c2 = append(c2, s)
					if len(c2) == 1 || s.time.After(newest2) {
						newest2 = s.time
					}
				}
			}
			for id := range explicit {
				if gotArgs[id] == 0 {
					t.Fatalf("FindAll(%q) did not yield the explicitly named snapshot %v", args, id)
				}
			}
			for id, n := range gotArgs {
				s := byID[id]
				isLatestCand := hasLatest && len(c2) > 0 && s.time.Equal(newest2) && matchesC24(s, f, true) && (f.limit.IsZero() || !s.time.After(f.limit))
				if !explicit[id] && !isLatestCand {
					t.Fatalf("FindAll(%q) with filter %+v yielded %+v which is neither named nor a newest matching snapshot", args, f, s)
				}
				if n > 1 {
					st.Class("args:snapshot-yielded-twice(named+latest)")
					if !(explicit[id] && isLatestCand && n == 2) {
						t.Fatalf("FindAll(%q) yielded snapshot %v %d times", args, id, n)
					}
				}
			}
			if hasLatest {
				if len(c2) == 0 && !latestErr {
					t.Fatalf("FindAll(%q) with filter %+v: nothing qualifies for 'latest' but no error was reported", args, f)
				}
				if len(c2) > 0 {
					found := latestGot != nil
					for id := range gotArgs {
						s := byID[id]
						if explicit[id] && s.time.Equal(newest2) && matchesC24(s, f, true) && (f.limit.IsZero() || !s.time.After(f.limit)) {
							found = true
						}
					}
					if !found || latestErr {
						t.Fatalf("FindAll(%q) with filter %+v: 'latest' did not resolve (err=%v)", args, f, latestErr)
					}
				}
			}
		}

		// ---- grouping of the selected snapshots
		gb := SnapshotGroupByOptions{}
		gbs := rapid.SampledFrom([]string{"", "host", "paths", "tags", "host,paths", "host,tags", "paths,tags", "host,paths,tags", "tag,path", "hosts", ",host,"}).Draw(t, "groupBy")
		if err := gb.Set(gbs); err != nil {
			t.Fatalf("group-by %q: %v", gbs, err)
		}
		wantHost, wantPath, wantTag := strings.Contains(gbs, "host"), strings.Contains(gbs, "path"), strings.Contains(gbs, "tag")
		if gb.Host != wantHost || gb.Path != wantPath || gb.Tag != wantTag {
			t.Fatalf("group-by %q parsed as %+v", gbs, gb)
		}
		// group either what the filter selected or the whole repository
		if rapid.Bool().Draw(t, "groupAll") {
			loaded = nil
			for _, s := range model {
				sn, err := LoadSnapshot(ctx, repo, s.id)
				if err != nil {
					t.Fatalf("LoadSnapshot: %v", err)
				}
				loaded = append(loaded, sn)
			}
		}
		in := Snapshots(rapid.Permutation([]*Snapshot(loaded)).Draw(t, "groupOrder"))
		keyOf := func(s vSnapC24) string {
			k := ""
			if wantHost {
				k += "host=" + fmt.Sprintf("%q", s.host)
			}
			if wantPath {
				k += " paths=" + sortedC24(s.paths)
			}
			if wantTag {
				k += " tags=" + sortedC24(s.tags)
			}
			return k
		}
		groups, grouped, err := GroupSnapshots(in, gb)
		if err != nil {
			t.Fatalf("GroupSnapshots: %v", err)
		}
		if grouped != (wantHost || wantPath || wantTag) {
			t.Fatalf("GroupSnapshots(%q) grouped=%v", gbs, grouped)
		}
		blockOf := map[restic.ID]string{}
		modelToBlock := map[string]string{}
		total := 0
		for gk, members := range groups {
			if len(members) == 0 {
				t.Fatalf("empty group %q", gk)
			}
			var key SnapshotGroupKey
			if err := json.Unmarshal([]byte(gk), &key); err != nil {
				t.Fatalf("group key %q is not a JSON group key: %v", gk, err)
			}
			for _, sn := range members {
				total++
				s := byID[*sn.ID()]
				if _, dup := blockOf[s.id]; dup {
					t.Fatalf("snapshot %v is in two groups", s.id)
				}
				blockOf[s.id] = gk
				mk := keyOf(s)
				if prev, ok := modelToBlock[mk]; ok && prev != gk {
					t.Fatalf("group-by %q: snapshots with equal keys (%s) are in different groups %q and %q", gbs, mk, prev, gk)
				}
				modelToBlock[mk] = gk
				// the key names the members' common attributes
				wk := vSnapC24{}
				if wantHost {
					wk.host = s.host
				}
				if wantPath {
					wk.paths = s.paths
				}
				if wantTag {
					wk.tags = s.tags
				}
				if key.Hostname != wk.host || sortedC24(key.Paths) != sortedC24(wk.paths) || sortedC24(key.Tags) != sortedC24(wk.tags) {
					t.Fatalf("group-by %q: group key %q does not describe member host=%q paths=%q tags=%q", gbs, gk, s.host, s.paths, s.tags)
				}
				// grouping must not lose attributes of the snapshot
				if sn.Hostname != s.host || sortedC24(sn.Paths) != sortedC24(s.paths) || sortedC24(sn.Tags) != sortedC24(s.tags) {
					t.Fatalf("grouping changed snapshot %v: paths %q tags %q, were %q %q", s.id, sn.Paths, sn.Tags, s.paths, s.tags)
				}
			}
		}
		if total != len(in) {
			t.Fatalf("groups contain %d snapshots, input had %d", total, len(in))
		}
		if len(modelToBlock) != len(groups) {
			t.Fatalf("group-by %q: %d groups for %d distinct keys", gbs, len(groups), len(modelToBlock))
		}

		// ---- statistics
		classes := []string{latestClass, fmt.Sprintf("groups=%d", min(len(groups), 3))}
		switch {
		case len(model) == 0:
			classes = append(classes, "no-snapshots")
		case len(want) == 0:
			classes = append(classes, "filter=none")
		case len(want) == len(model):
			classes = append(classes, "filter=all")
		default:
			classes = append(classes, "filter=strict-subset")
		}
		permuted := false
		for _, m := range groups {
			if len(m) >= 2 && (wantPath || wantTag) {
				for _, sn := range m[1:] {
					a, b := byID[*m[0].ID()], byID[*sn.ID()]
					if fmt.Sprint(a.paths, a.tags) != fmt.Sprint(b.paths, b.tags) {
						permuted = true
					}
				}
			}
		}
		if permuted {
			classes = append(classes, "group-joins-permuted-keys")
		}
		if untagged > 0 {
			classes = append(classes, "untagged-snapshots")
		}
		if ties > 0 {
			classes = append(classes, "equal-timestamps")
		}
		for _, l := range f.tags {
			switch {
			case len(l) == 0:
				classes = append(classes, "taglist=empty-list")
			case len(l) == 1 && l[0] == "":
				classes = append(classes, "taglist=['']")
			case containsC24(l, ""):
				classes = append(classes, "taglist=''+others")
			case len(l) > 1:
				classes = append(classes, "taglist=several")
			}
		}
		for _, l := range f.tags {
			if untagged > 0 && len(l) > 1 && l[0] == "" && !(len(l) == 2 && l[1] == "") {
				classes = append(classes, "''-then-tag-vs-untagged-snapshot") // shape of the repaired C24:hastags-empty-tag-short-circuit
				break
			}
		}
		if !f.limit.IsZero() {
			classes = append(classes, "time-limit")
		}
		if len(args) > 0 {
			classes = append(classes, "findall-with-args")
		}
		key := ""
		if len(want) > 0 && len(want) < len(model) {
			key = fmt.Sprintf("%+v|%v", f, repo.order)
		}
		st.Case(key, classes...)
		if st.WantSample() {
			st.Sample(map[string]any{"snapshots": len(model), "filter": f.String(), "selected": len(want), "group_by": gbs, "groups": len(groups)})
		}
	})
}
