package data

import (
	"bytes"
	"encoding/json"
	"errors"
	"fmt"
	"math"
	"math/rand/v2"
	"os"
	"sort"
	"strings"
	"testing"
	"time"
	"unicode/utf8"

	"github.com/restic/restic/internal/restic"
	"github.com/restic/restic/internal/verifkit"
	"pgregory.net/rapid"
)

// ---------------------------------------------------------------------------
// C41  Trees are encoded deterministically and without loss.
// ---------------------------------------------------------------------------

// nastyC41 are byte sequences that JSON / strconv quoting / UTF-8 handling treat specially.
var nastyC41 = []string{
	`"`, `\`, `\\`, `\"`, `A`, `\x41`, "\x00", "\n", "\r", "\t", "\x7f", "\x1b[0m", "\u2028", "\u2029", "\u0085", "\u00a0", "\ufeff",
	"<", ">", "&", "</script>", "'", "/", " ", "é", "日本", "😀", "\ufffd",
	"\xff", "\xfe\xff", "\xc3", "\xc3\x28", "\xe2\x82", "\xed\xa0\x80", "\xf0\x9f\x98", "\xc0\xaf", "\x80", "\xf8\x88\x80\x80\x80",
	`{"name":"x"}`, `","type":"dir`, `\u`, `\ud800`, "a\xffb",
}

func genBytesC41(t *rapid.T, label string, minLen int) string {
	var b strings.Builder
	switch rapid.IntRange(0, 9).Draw(t, label+"kind") {
	case 0, 1, 2:
		b.WriteString(rapid.StringMatching(`[a-zA-Z0-9._-]{1,12}`).Draw(t, label))
	case 3:
		b.Write(rapid.SliceOfN(rapid.Byte(), minLen, 24).Draw(t, label+"raw"))
	case 4:
		if rapid.IntRange(0, 15).Draw(t, label+"huge") == 0 {
			// huge value, expanded from a drawn seed
			n := rapid.SampledFrom([]int{4096, 65536}).Draw(t, label+"hugeN")
			r := rand.New(rand.NewPCG(rapid.Uint64().Draw(t, label+"seed"), 41))
			buf := make([]byte, n)
			for i := range buf {
				buf[i] = byte(r.UintN(256))
			}
			b.Write(buf)
			break
		}
		fallthrough
	default:
		for i := rapid.IntRange(1, 5).Draw(t, label+"parts"); i > 0; i-- {
			if rapid.Bool().Draw(t, label+"plain") {
				b.WriteString(rapid.StringMatching(`[a-z]{0,4}`).Draw(t, label+"w"))
			} else {
				b.WriteString(rapid.SampledFrom(nastyC41).Draw(t, label+"nasty"))
			}
		}
	}
	for b.Len() < minLen {
		b.WriteByte('x')
	}
	return b.String()
}

func genUTF8C41(t *rapid.T, label string) string {
	s := genBytesC41(t, label, 0)
	if !utf8.ValidString(s) {
		s = strings.ToValidUTF8(s, "\ufffd")
	}
	return s
}

var locsC41 = []*time.Location{time.UTC, time.FixedZone("", 3600), time.FixedZone("x", -5*3600), time.FixedZone("", 5*3600+1800),
	time.FixedZone("", 14*3600), time.FixedZone("", -12*3600), time.FixedZone("", 23*3600+59*60), time.FixedZone("", -(23*3600 + 59*60)), time.FixedZone("", 60)}

// genTimeC41: civil year 0..9999 in the stamp's own zone (whole-minute offsets).
func genTimeC41(t *rapid.T, label string) time.Time {
	if rapid.IntRange(0, 9).Draw(t, label+"zero") == 0 {
		return time.Time{}
	}
	loc := rapid.SampledFrom(locsC41).Draw(t, label+"loc")
	year := rapid.OneOf(rapid.SampledFrom([]int{0, 1, 1969, 1970, 2038, 2262, 2263, 9999}), rapid.IntRange(0, 9999)).Draw(t, label+"y")
	var ts time.Time
	switch rapid.IntRange(0, 3).Draw(t, label+"edge") {
	case 0:
		ts = time.Date(year, 1, 1, 0, 0, 0, 0, loc)
	case 1:
		ts = time.Date(year, 12, 31, 23, 59, 59, 999999999, loc)
	default:
		ts = time.Date(year, time.Month(rapid.IntRange(1, 12).Draw(t, label+"mo")), rapid.IntRange(1, 28).Draw(t, label+"d"),
			rapid.IntRange(0, 23).Draw(t, label+"h"), rapid.IntRange(0, 59).Draw(t, label+"mi"), rapid.IntRange(0, 59).Draw(t, label+"s"),
			rapid.SampledFrom([]int{0, 1, 500, 999999999, 123456789, 100000000}).Draw(t, label+"ns"), loc)
	}
	return ts
}

func genU64C41(t *rapid.T, label string) uint64 {
	return rapid.OneOf(rapid.SampledFrom([]uint64{0, 1, math.MaxUint32, math.MaxInt64, math.MaxInt64 + 1, math.MaxUint64, 1 << 53, 1<<53 + 1}), rapid.Uint64()).Draw(t, label)
}

func genIDC41(t *rapid.T, label string) restic.ID {
	var id restic.ID
	switch rapid.IntRange(0, 4).Draw(t, label+"k") {
	case 0: // null id
	case 1:
		for i := range id {
			id[i] = 0xff
		}
	default:
		copy(id[:], rapid.SliceOfN(rapid.Byte(), 32, 32).Draw(t, label))
	}
	return id
}

// genJSONValueC41 draws an arbitrary JSON value in the canonical form json.Marshal produces.
func genJSONValueC41(t *rapid.T, label string, depth int) json.RawMessage {
	var v any
	switch rapid.IntRange(0, 7).Draw(t, label+"jk") {
	case 0:
		v = nil
	case 1:
		v = rapid.Bool().Draw(t, label+"jb")
	case 2:
		v = rapid.Uint64().Draw(t, label+"ju")
	case 3:
		v = genUTF8C41(t, label+"js")
	case 4:
		v = rapid.SliceOfN(rapid.Byte(), 0, 12).Draw(t, label+"jbytes") // base64
	case 5:
		v = rapid.Float64Range(-1e9, 1e9).Draw(t, label+"jf")
	default:
		if depth <= 0 {
			v = "leaf"
			break
		}
		if rapid.Bool().Draw(t, label+"jarr") {
			var a []json.RawMessage
			for i := rapid.IntRange(0, 3).Draw(t, label+"jn"); i > 0; i-- {
				a = append(a, genJSONValueC41(t, label, depth-1))
			}
			v = a
		} else {
			m := map[string]json.RawMessage{}
			for i := rapid.IntRange(0, 3).Draw(t, label+"jn"); i > 0; i-- {
				k := rapid.SampledFrom([]string{"nodes", "name", "a", "linktarget_raw", "x", "<k>", "\u2028"}).Draw(t, label+"jkey")
				m[k] = genJSONValueC41(t, label, depth-1)
			}
			v = m
		}
	}
	buf, err := json.Marshal(v)
	if err != nil {
		t.Fatalf("generator: %v", err)
	}
	return buf
}

var nodeTypesC41 = []NodeType{NodeTypeFile, NodeTypeDir, NodeTypeSymlink, NodeTypeDev, NodeTypeCharDev, NodeTypeFifo, NodeTypeSocket, NodeTypeIrregular, NodeTypeInvalid, "future-type", "<&>"}

func genNodeC41(t *rapid.T, name string) *Node {
	n := &Node{Name: name}
	n.Type = rapid.SampledFrom(nodeTypesC41).Draw(t, "type")
	n.Mode = os.FileMode(rapid.OneOf(rapid.SampledFrom([]uint32{0, 0o644, 0o755, 0o4755, uint32(os.ModeDir) | 0o755, uint32(os.ModeSymlink) | 0o777, math.MaxUint32}), rapid.Uint32()).Draw(t, "mode"))
	n.ModTime = genTimeC41(t, "mtime")
	n.AccessTime = genTimeC41(t, "atime")
	n.ChangeTime = genTimeC41(t, "ctime")
	n.UID = rapid.OneOf(rapid.SampledFrom([]uint32{0, 1000, 65534, math.MaxUint32}), rapid.Uint32()).Draw(t, "uid")
	n.GID = rapid.OneOf(rapid.SampledFrom([]uint32{0, 1000, 65534, math.MaxUint32}), rapid.Uint32()).Draw(t, "gid")
	if rapid.Bool().Draw(t, "hasUser") {
		n.User = genUTF8C41(t, "user")
		n.Group = genUTF8C41(t, "group")
	}
	n.Inode = genU64C41(t, "inode")
	n.DeviceID = genU64C41(t, "devid")
	n.Size = genU64C41(t, "size")
	n.Links = genU64C41(t, "links")
	n.Device = genU64C41(t, "device")
	if rapid.IntRange(0, 2).Draw(t, "hasTarget") > 0 {
		n.LinkTarget = genBytesC41(t, "target", 0)
	}
	xnames := map[string]bool{} // a file has each xattr name once
	for i := rapid.IntRange(-2, 3).Draw(t, "nxattr"); i > 0; i-- {
		a := ExtendedAttribute{Name: genUTF8C41(t, "xname")}
		if xnames[a.Name] {
			continue
		}
		xnames[a.Name] = true
		switch rapid.IntRange(0, 3).Draw(t, "xvk") {
		case 0: // nil value
		case 1:
			a.Value = []byte{}
		default:
			a.Value = rapid.SliceOfN(rapid.Byte(), 1, 40).Draw(t, "xval")
		}
		n.ExtendedAttributes = append(n.ExtendedAttributes, a)
	}
	if k := rapid.IntRange(-2, 3).Draw(t, "ngeneric"); k > 0 {
		n.GenericAttributes = map[GenericAttributeType]json.RawMessage{}
		for ; k > 0; k-- {
			key := rapid.OneOf(rapid.SampledFrom([]GenericAttributeType{TypeCreationTime, TypeFileAttributes, TypeSecurityDescriptor, "linux.future", ""}),
				rapid.Custom(func(t *rapid.T) GenericAttributeType { return GenericAttributeType(genUTF8C41(t, "gkey")) })).Draw(t, "gk")
			n.GenericAttributes[key] = genJSONValueC41(t, "gv", 2)
		}
	}
	switch rapid.IntRange(0, 4).Draw(t, "contentk") {
	case 0: // nil
	case 1:
		n.Content = restic.IDs{}
	default:
		for i := rapid.IntRange(1, 4).Draw(t, "ncontent"); i > 0; i-- {
			n.Content = append(n.Content, genIDC41(t, "content"))
		}
	}
	if rapid.Bool().Draw(t, "hasSubtree") {
		id := genIDC41(t, "subtree")
		n.Subtree = &id
	}
	if rapid.IntRange(0, 4).Draw(t, "hasError") == 0 {
		n.Error = genUTF8C41(t, "error")
	}
	if rapid.Bool().Draw(t, "hasPath") {
		n.Path = "/not/serialised/" + name // json:"-"
	}
	return n
}

// genNodesC41 returns nodes with distinct non-empty names in strictly increasing (bytewise) order.
func genNodesC41(t *rapid.T, maxN int) []*Node {
	n := rapid.IntRange(0, maxN).Draw(t, "nnodes")
	seen := map[string]bool{}
	var names []string
	for i := 0; i < n; i++ {
		var name string
		if len(names) > 0 && rapid.IntRange(0, 3).Draw(t, "nearName") == 0 {
			// neighbours in the order: prefix/suffix variants of an earlier name
			base := names[rapid.IntRange(0, len(names)-1).Draw(t, "nearIdx")]
			name = base + rapid.SampledFrom([]string{"\x00", "\xff", " ", "a", "\"", "\\", "\u2028"}).Draw(t, "nearSuffix")
		} else {
			name = genBytesC41(t, "name", 1)
		}
		if !seen[name] {
			seen[name] = true
			names = append(names, name)
		}
	}
	sort.Strings(names)
	nodes := make([]*Node, len(names))
	for i, name := range names {
		nodes[i] = genNodeC41(t, name)
	}
	return nodes
}

func cloneNodeC41(n *Node, r *rand.Rand) *Node {
	c := *n
	c.ExtendedAttributes = nil
	for _, a := range n.ExtendedAttributes {
		v := a.Value
		if v != nil {
			v = append([]byte{}, v...)
		}
		c.ExtendedAttributes = append(c.ExtendedAttributes, ExtendedAttribute{Name: a.Name, Value: v})
	}
	if n.GenericAttributes != nil {
		// rebuild the map inserting keys in another order
		keys := make([]string, 0, len(n.GenericAttributes))
		for k := range n.GenericAttributes {
			keys = append(keys, string(k))
		}
		sort.Strings(keys)
		r.Shuffle(len(keys), func(i, j int) { keys[i], keys[j] = keys[j], keys[i] })
		c.GenericAttributes = make(map[GenericAttributeType]json.RawMessage)
		for _, k := range keys {
			c.GenericAttributes[GenericAttributeType(k)] = append(json.RawMessage{}, n.GenericAttributes[GenericAttributeType(k)]...)
		}
	}
	if n.Content != nil {
		c.Content = append(restic.IDs{}, n.Content...)
	}
	if n.Subtree != nil {
		id := *n.Subtree
		c.Subtree = &id
	}
	return &c
}

func sameTimeC41(a, b time.Time) bool {
	_, oa := a.Zone()
	_, ob := b.Zone()
	return a.Equal(b) && oa == ob
}

// diffNodeC41 compares every serialised field; "" means equal.
func diffNodeC41(a, b *Node) string {
	switch {
	case a.Name != b.Name:
		return fmt.Sprintf("name %q != %q", a.Name, b.Name)
	case a.Type != b.Type:
		return fmt.Sprintf("type %q != %q", a.Type, b.Type)
	case a.Mode != b.Mode:
		return fmt.Sprintf("mode %v != %v", uint32(a.Mode), uint32(b.Mode))
	case !sameTimeC41(a.ModTime, b.ModTime):
		return fmt.Sprintf("mtime %v != %v", a.ModTime, b.ModTime)
	case !sameTimeC41(a.AccessTime, b.AccessTime):
		return fmt.Sprintf("atime %v != %v", a.AccessTime, b.AccessTime)
	case !sameTimeC41(a.ChangeTime, b.ChangeTime):
		return fmt.Sprintf("ctime %v != %v", a.ChangeTime, b.ChangeTime)
	case a.UID != b.UID || a.GID != b.GID:
		return fmt.Sprintf("uid/gid %d/%d != %d/%d", a.UID, a.GID, b.UID, b.GID)
	case a.User != b.User || a.Group != b.Group:
		return fmt.Sprintf("user/group %q/%q != %q/%q", a.User, a.Group, b.User, b.Group)
	case a.Inode != b.Inode || a.DeviceID != b.DeviceID || a.Size != b.Size || a.Links != b.Links || a.Device != b.Device:
		return fmt.Sprintf("inode/device_id/size/links/device %d/%d/%d/%d/%d != %d/%d/%d/%d/%d", a.Inode, a.DeviceID, a.Size, a.Links, a.Device, b.Inode, b.DeviceID, b.Size, b.Links, b.Device)
	case a.LinkTarget != b.LinkTarget:
		return fmt.Sprintf("linktarget %q != %q", a.LinkTarget, b.LinkTarget)
	case b.LinkTargetRaw != nil:
		return "linktarget_raw left set after decoding"
	case a.Error != b.Error:
		return fmt.Sprintf("error %q != %q", a.Error, b.Error)
	case (a.Content == nil) != (b.Content == nil) || len(a.Content) != len(b.Content):
		return fmt.Sprintf("content %v != %v", a.Content, b.Content)
	case (a.Subtree == nil) != (b.Subtree == nil) || (a.Subtree != nil && *a.Subtree != *b.Subtree):
		return fmt.Sprintf("subtree %v != %v", a.Subtree, b.Subtree)
	case len(a.ExtendedAttributes) != len(b.ExtendedAttributes):
		return fmt.Sprintf("%d xattrs != %d", len(a.ExtendedAttributes), len(b.ExtendedAttributes))
	case len(a.GenericAttributes) != len(b.GenericAttributes):
		return fmt.Sprintf("%d generic attributes != %d", len(a.GenericAttributes), len(b.GenericAttributes))
	}
	for i := range a.Content {
		if a.Content[i] != b.Content[i] {
			return fmt.Sprintf("content[%d] %v != %v", i, a.Content[i], b.Content[i])
		}
	}
	for i := range a.ExtendedAttributes {
		x, y := a.ExtendedAttributes[i], b.ExtendedAttributes[i]
		if x.Name != y.Name || !bytes.Equal(x.Value, y.Value) {
			return fmt.Sprintf("xattr[%d] %q=%x != %q=%x", i, x.Name, x.Value, y.Name, y.Value)
		}
	}
	for k, v := range a.GenericAttributes {
		w, ok := b.GenericAttributes[k]
		if !ok || !bytes.Equal(v, w) {
			return fmt.Sprintf("generic attribute %q: %s != %s (present %v)", k, v, w, ok)
		}
	}
	return ""
}

func encodeTreeC41(nodes []*Node) ([]byte, error) {
	b := NewTreeJSONBuilder()
	for _, n := range nodes {
		if err := b.AddNode(n); err != nil {
			return nil, err
		}
	}
	if b.Count() != len(nodes) {
		return nil, fmt.Errorf("builder counts %d nodes, %d were added", b.Count(), len(nodes))
	}
	return b.Finalize()
}

func decodeTreeC41(buf []byte) ([]*Node, error) {
	it, err := NewTreeNodeIterator(bytes.NewReader(buf))
	if err != nil {
		return nil, err
	}
	var out []*Node
	for item := range it {
		if item.Error != nil {
			return out, item.Error
		}
		out = append(out, item.Node)
	}
	return out, nil
}

// injectUnknownC41 rebuilds the tree blob with permuted key order inside every node
// object and unknown keys (names no restic field has, also case-insensitively) added at
// node and at tree level.
func injectUnknownC41(t *rapid.T, nodes []*Node) []byte {
	unknownKey := func() string {
		return "x_" + rapid.SampledFrom([]string{"a", "nodes", "name", "Name", "\u2028", "<>", "linktarget_raw", "", "\"q\""}).Draw(t, "ukey")
	}
	kv := func(k string, v json.RawMessage) []byte {
		kb, _ := json.Marshal(k)
		return append(append(kb, ':'), v...)
	}
	ws := func() string { return rapid.SampledFrom([]string{"", "", " ", "\n", "\t \r\n"}).Draw(t, "ws") }
	var out bytes.Buffer
	out.WriteString(ws() + "{" + ws())
	for i := rapid.IntRange(0, 2).Draw(t, "preKeys"); i > 0; i-- {
		out.Write(kv(unknownKey(), genJSONValueC41(t, "pre", 2)))
		out.WriteString(ws() + "," + ws())
	}
	out.WriteString(`"nodes"` + ws() + ":" + ws() + "[")
	for i, n := range nodes {
		enc, err := json.Marshal(n)
		if err != nil {
			t.Fatalf("marshal: %v", err)
		}
		var fields map[string]json.RawMessage
		if err := json.Unmarshal(enc, &fields); err != nil {
			t.Fatalf("node encoding is not a JSON object: %v", err)
		}
		keys := make([]string, 0, len(fields))
		for k := range fields {
			keys = append(keys, k)
		}
		sort.Strings(keys)
		keys = rapid.Permutation(keys).Draw(t, "keyOrder")
		var parts [][]byte
		for _, k := range keys {
			parts = append(parts, kv(k, fields[k]))
		}
		for j := rapid.IntRange(0, 2).Draw(t, "nodeKeys"); j > 0; j-- {
			at := rapid.IntRange(0, len(parts)).Draw(t, "at")
			parts = append(parts[:at], append([][]byte{kv(unknownKey(), genJSONValueC41(t, "nk", 2))}, parts[at:]...)...)
		}
		if i > 0 {
			out.WriteString("," + ws())
		}
		out.WriteString("{" + ws())
		out.Write(bytes.Join(parts, []byte(","+ws())))
		out.WriteString(ws() + "}")
	}
	out.WriteString(ws() + "]")
	for i := rapid.IntRange(0, 2).Draw(t, "postKeys"); i > 0; i-- {
		out.WriteString(ws() + "," + ws())
		out.Write(kv(unknownKey(), genJSONValueC41(t, "post", 2)))
	}
	out.WriteString(ws() + "}" + ws())
	return out.Bytes()
}

// fixedPointC41 is the oracle for arbitrary input bytes: decoding never panics; if the
// input decodes completely and its names are strictly increasing, then
// encode(decode(.)) is a fixed point and decode(encode(N)) gives N back.
func fixedPointC41(input []byte) (decoded bool, err error) {
	n0, derr := decodeTreeC41(input)
	if derr != nil {
		return false, nil
	}
	for i := range n0 {
		if n0[i].Name == "" || (i > 0 && n0[i].Name <= n0[i-1].Name) {
			if _, eerr := encodeTreeC41(n0); !errors.Is(eerr, ErrTreeNotOrdered) {
				return true, fmt.Errorf("decoded names are not strictly increasing at %d (%q) but the builder said %v", i, n0[i].Name, eerr)
			}
			return true, nil
		}
	}
	b1, eerr := encodeTreeC41(n0)
	if eerr != nil {
		// The statement promises decode(encode(x)) = x for entries restic can hold, not that every
		// foreign blob the decoder tolerates can be written again: Go's time parser accepts
		// "0000-10-01T0:00:00+24:00" (zone hour 24, one-digit hour) and time.Time.MarshalJSON then
		// refuses the value. A clean encoding error for such input is no violation (the native fuzz
		// target found this shape in the thorough tier; the first version of this oracle called it one).
		// Only time values may be refused; anything else the decoder produced must encode.
		if strings.Contains(eerr.Error(), "Time.MarshalJSON") {
			return true, nil
		}
		return true, fmt.Errorf("decoded tree cannot be encoded again: %v", eerr)
	}
	n1, derr := decodeTreeC41(b1)
	if derr != nil {
		return true, fmt.Errorf("re-encoded tree does not decode: %v\n%s", derr, b1)
	}
	if len(n1) != len(n0) {
		return true, fmt.Errorf("%d nodes after re-encoding, %d before", len(n1), len(n0))
	}
	for i := range n0 {
		a, b := *n0[i], *n1[i]
		// generic attribute values are arbitrary JSON texts; encoding compacts them
		a.GenericAttributes, b.GenericAttributes = nil, nil
		if d := diffNodeC41(&a, &b); d != "" {
			return true, fmt.Errorf("node %d changed by encode/decode: %s", i, d)
		}
		if len(n0[i].GenericAttributes) != len(n1[i].GenericAttributes) {
			return true, fmt.Errorf("node %d: generic attributes %d -> %d", i, len(n0[i].GenericAttributes), len(n1[i].GenericAttributes))
		}
		for k, v := range n0[i].GenericAttributes {
			// the same JSON text up to insignificant white space and the \u003c style escapes of the encoder
			if !bytes.Equal(canonJSONC41(v), canonJSONC41(n1[i].GenericAttributes[k])) {
				return true, fmt.Errorf("node %d: generic attribute %q changed: %s -> %s", i, k, v, n1[i].GenericAttributes[k])
			}
		}
	}
	b2, eerr := encodeTreeC41(n1)
	if eerr != nil || !bytes.Equal(b1, b2) {
		return true, fmt.Errorf("encode(decode(.)) is not a fixed point (%v):\n%s\n%s", eerr, b1, b2)
	}
	return true, nil
}

func canonJSONC41(v []byte) []byte {
	var c, e bytes.Buffer
	if err := json.Compact(&c, v); err != nil {
		return append([]byte("!invalid:"), v...)
	}
	json.HTMLEscape(&e, c.Bytes())
	return e.Bytes()
}

func isNastyC41(s string) bool {
	return !utf8.ValidString(s) || strings.ContainsAny(s, "\"\\\x00\n\r\t<>&\u2028\u2029")
}

func TestVerifC41TreeRoundTrip(t *testing.T) {
	st := verifkit.Begin(t, "C41")
	rapid.Check(t, func(t *rapid.T) {
		nodes := genNodesC41(t, 8)
		shuf := rand.New(rand.NewPCG(rapid.Uint64().Draw(t, "shuffleSeed"), 41))

		// ---- statistics
		var classes []string
		nasty := false
		cl := map[string]bool{}
		for _, n := range nodes {
			if !utf8.ValidString(n.Name) {
				cl["name:invalid-utf8"] = true
			}
			if strings.ContainsAny(n.Name, "\"\\") {
				cl["name:quote/backslash"] = true
			}
			if strings.ContainsAny(n.Name, "\u2028\u2029") {
				cl["name:U+2028/9"] = true
			}
			if strings.Contains(n.Name, "\x00") {
				cl["name:NUL"] = true
			}
			if len(n.Name) >= 4096 || len(n.LinkTarget) >= 4096 {
				cl["huge-value"] = true
			}
			if n.LinkTarget != "" && !utf8.ValidString(n.LinkTarget) {
				cl["target:invalid-utf8"] = true
			}
			if isNastyC41(n.LinkTarget) && utf8.ValidString(n.LinkTarget) {
				cl["target:escapes"] = true
			}
			if len(n.ExtendedAttributes) > 0 {
				cl["xattrs"] = true
			}
			if len(n.GenericAttributes) > 0 {
				cl["generic-attributes"] = true
			}
			for _, ts := range []time.Time{n.ModTime, n.AccessTime, n.ChangeTime} {
				if ts.Year() == 0 || ts.Year() == 9999 {
					cl["time:year-0-or-9999"] = true
				}
			}
			if n.Content != nil && len(n.Content) == 0 {
				cl["content:empty-not-nil"] = true
			}
			nasty = nasty || isNastyC41(n.Name) || isNastyC41(n.LinkTarget)
		}
		for c := range cl {
			classes = append(classes, c)
		}
		sort.Strings(classes)
		classes = append(classes, fmt.Sprintf("nodes=%d", min(len(nodes), 3)))

		// ---- pristine deep copies taken BEFORE encoding: "unchanged" is judged against them, so
		// an encoder that rearranges its input in place (and then faithfully stores the rearranged
		// form) cannot pass by having changed both sides
		pristine := make([]*Node, len(nodes))
		for i, n := range nodes {
			pristine[i] = cloneNodeC41(n, shuf)
		}

		// ---- encode
		buf, err := encodeTreeC41(nodes)
		if err != nil {
			t.Fatalf("encoding %d strictly ordered nodes failed: %v", len(nodes), err)
		}
		for i := range nodes {
			if d := diffNodeC41(pristine[i], nodes[i]); d != "" {
				t.Fatalf("encoding modified its input: node %d (%q): %s", i, pristine[i].Name, d)
			}
		}
		if !json.Valid(buf) || !bytes.HasSuffix(buf, []byte("\n")) {
			t.Fatalf("tree blob is not valid JSON terminated by a newline: %q", buf)
		}
		key := ""
		if nasty {
			key = string(buf)
		}
		st.Case(key, classes...)
		if st.WantSample() {
			names := []string{}
			for _, n := range nodes {
				names = append(names, fmt.Sprintf("%.40q", n.Name))
			}
			st.Sample(map[string]any{"names": names, "blob_bytes": len(buf)})
		}

		// ---- determinism: equal entries (copies, maps filled in another order) -> equal bytes
		copies := make([]*Node, len(nodes))
		for i, n := range nodes {
			copies[i] = cloneNodeC41(n, shuf)
		}
		buf2, err := encodeTreeC41(copies)
		if err != nil || !bytes.Equal(buf, buf2) {
			t.Fatalf("same entries, different bytes (err %v):\n%s\n%s", err, buf, buf2)
		}

		// ---- decode: every field of every entry unchanged
		got, err := decodeTreeC41(buf)
		if err != nil {
			t.Fatalf("decoding failed: %v\n%s", err, buf)
		}
		if len(got) != len(nodes) {
			t.Fatalf("%d nodes decoded, %d encoded", len(got), len(nodes))
		}
		for i := range nodes {
			if d := diffNodeC41(pristine[i], got[i]); d != "" {
				t.Fatalf("node %d (%q) not returned unchanged: %s\nblob: %s", i, nodes[i].Name, d, buf)
			}
			if d := diffNodeC41(nodes[i], got[i]); d != "" {
				t.Fatalf("node %d (%q) not returned unchanged: %s\nblob: %s", i, nodes[i].Name, d, buf)
			}
			if !nodes[i].Equals(*got[i]) || !got[i].Equals(*nodes[i]) {
				t.Fatalf("node %d (%q): Node.Equals reports a difference after the round trip", i, nodes[i].Name)
			}
			if i > 0 && got[i].Name <= got[i-1].Name {
				t.Fatalf("decoded names not strictly increasing: %q after %q", got[i].Name, got[i-1].Name)
			}
		}
		// re-encoding what was decoded gives the same bytes
		buf3, err := encodeTreeC41(got)
		if err != nil || !bytes.Equal(buf, buf3) {
			t.Fatalf("encode(decode(blob)) != blob (err %v):\n%s\n%s", err, buf, buf3)
		}

		// ---- unknown keys (and any key order) are tolerated
		alt := injectUnknownC41(t, nodes)
		if !json.Valid(alt) {
			t.Fatalf("harness bug: injected blob is not valid JSON: %s", alt)
		}
		got, err = decodeTreeC41(alt)
		if err != nil {
			t.Fatalf("tree with unknown keys does not decode: %v\n%s", err, alt)
		}
		if len(got) != len(nodes) {
			t.Fatalf("tree with unknown keys: %d nodes decoded, %d expected\n%s", len(got), len(nodes), alt)
		}
		for i := range nodes {
			if d := diffNodeC41(nodes[i], got[i]); d != "" {
				t.Fatalf("tree with unknown keys: node %d differs: %s\n%s", i, d, alt)
			}
		}
		st.Evals(1)
	})
}

// TestVerifC41BuilderOrder: the builder accepts a node iff its name is greater than the
// last accepted one; rejected nodes leave no trace in the blob.
func TestVerifC41BuilderOrder(t *testing.T) {
	st := verifkit.Begin(t, "C41")
	rapid.Check(t, func(t *rapid.T) {
		nodes := genNodesC41(t, 6)
		// a sequence with repetitions, swaps and the empty name
		var seq []*Node
		for i := rapid.IntRange(0, 10).Draw(t, "len"); i > 0; i-- {
			switch {
			case len(nodes) == 0 || rapid.IntRange(0, 9).Draw(t, "emptyName") == 0:
				seq = append(seq, &Node{Name: "", Type: NodeTypeFile})
			default:
				n := *nodes[rapid.IntRange(0, len(nodes)-1).Draw(t, "pick")]
				if rapid.IntRange(0, 3).Draw(t, "changeType") == 0 {
					n.Type = NodeTypeFifo // same name, different entry
				}
				seq = append(seq, &n)
			}
		}
		b := NewTreeJSONBuilder()
		last := ""
		var accepted []*Node
		rejected := 0
		for _, n := range seq {
			err := b.AddNode(n)
			wantOK := n.Name > last
			switch {
			case wantOK && err != nil:
				t.Fatalf("AddNode(%q) after %q failed: %v", n.Name, last, err)
			case !wantOK && !errors.Is(err, ErrTreeNotOrdered):
				t.Fatalf("AddNode(%q) after %q: want ErrTreeNotOrdered, got %v", n.Name, last, err)
			}
			if wantOK {
				last = n.Name
				accepted = append(accepted, n)
			} else {
				rejected++
			}
			if b.Count() != len(accepted) {
				t.Fatalf("Count()=%d after %d accepted nodes", b.Count(), len(accepted))
			}
		}
		buf, err := b.Finalize()
		if err != nil {
			t.Fatalf("Finalize: %v", err)
		}
		got, err := decodeTreeC41(buf)
		if err != nil || len(got) != len(accepted) {
			t.Fatalf("blob holds %d nodes (err %v), %d were accepted\n%s", len(got), err, len(accepted), buf)
		}
		for i := range got {
			if d := diffNodeC41(accepted[i], got[i]); d != "" {
				t.Fatalf("node %d: %s", i, d)
			}
		}
		key := ""
		if rejected > 0 && len(accepted) > 0 {
			key = string(buf) + fmt.Sprint(rejected)
		}
		cls := "order:all-accepted"
		if rejected > 0 {
			cls = "order:some-rejected"
		}
		st.Case(key, cls)
	})
}

// mutateC41 damages a blob a little: the result often still is a (different) valid tree.
func mutateC41(t *rapid.T, buf []byte) []byte {
	out := append([]byte{}, buf...)
	for i := rapid.IntRange(1, 3).Draw(t, "nmut"); i > 0 && len(out) > 0; i-- {
		pos := rapid.IntRange(0, len(out)-1).Draw(t, "pos")
		switch rapid.IntRange(0, 5).Draw(t, "mut") {
		case 0:
			out[pos] = rapid.Byte().Draw(t, "byte")
		case 1:
			out = append(out[:pos], out[pos+1:]...)
		case 2:
			ins := rapid.SampledFrom([]string{`\`, `"`, `,`, `{}`, `[]`, `null`, `0`, `\u0000`, `\ud800`, "\xff", `"x":1,`, `-`, `1e400`, ` `}).Draw(t, "ins")
			out = append(out[:pos], append([]byte(ins), out[pos:]...)...)
		case 3:
			out = out[:pos] // truncate
		case 4: // swap two digits/letters region
			end := min(len(out), pos+rapid.IntRange(1, 8).Draw(t, "dupLen"))
			out = append(out[:end], append(append([]byte{}, out[pos:end]...), out[end:]...)...)
		default:
			// replace a number
			j := pos
			for j < len(out) && out[j] >= '0' && out[j] <= '9' {
				j++
			}
			if j > pos {
				repl := rapid.SampledFrom([]string{"0", "-1", "18446744073709551616", "4294967296", "1.5", "1e3"}).Draw(t, "num")
				out = append(out[:pos], append([]byte(repl), out[j:]...)...)
			}
		}
	}
	return out
}

// TestVerifC41DecodeMutated runs the fuzz oracle (no panic; decodable => fixed point) over
// mutated encodings of generated trees, so that the oracle of FuzzVerifC41TreeDecode is
// exercised by ./check as well.
func TestVerifC41DecodeMutated(t *testing.T) {
	st := verifkit.Begin(t, "C41")
	rapid.Check(t, func(t *rapid.T) {
		nodes := genNodesC41(t, 4)
		var buf []byte
		if rapid.Bool().Draw(t, "withUnknown") {
			buf = injectUnknownC41(t, nodes)
		} else {
			var err error
			if buf, err = encodeTreeC41(nodes); err != nil {
				t.Fatalf("encode: %v", err)
			}
		}
		input := mutateC41(t, buf)
		decoded, err := fixedPointC41(input)
		if err != nil {
			t.Fatalf("%v\ninput: %q", err, input)
		}
		key, cls := "", "mutated:rejected"
		if decoded {
			cls = "mutated:still-decodes"
			if !bytes.Equal(input, buf) {
				key = string(input)
			}
		}
		st.Case(key, cls)
	})
}

// FuzzVerifC41TreeDecode is the native fuzz target, run by ./check in the thorough tier (by hand:
// go test -fuzz=FuzzVerifC41TreeDecode with the overlay the driver prints).
func FuzzVerifC41TreeDecode(f *testing.F) {
	f.Add([]byte(`{"nodes":[]}` + "\n"))
	f.Add([]byte(`{"x":{"nodes":[1]},"nodes":[{"name":"a\\xff\\\"","type":"symlink","mtime":"0000-01-01T00:00:00Z","atime":"9999-12-31T23:59:59.999999999+23:59","ctime":"2020-01-01T00:00:00-01:00","uid":0,"gid":4294967295,"linktarget":"\ufffd","linktarget_raw":"/w==","content":null,"extended_attributes":[{"name":"user.x","value":null}],"generic_attributes":{"windows.file_attributes": 32}},{"name":"b","type":"dir","mtime":"2020-01-01T00:00:00Z","atime":"2020-01-01T00:00:00Z","ctime":"2020-01-01T00:00:00Z","uid":1,"gid":1,"content":[],"subtree":"0000000000000000000000000000000000000000000000000000000000000000","future":[1,2,{"a":null}]}],"y":1}`))
	f.Fuzz(func(t *testing.T, input []byte) {
		if len(input) > 1<<16 {
			return
		}
		if _, err := fixedPointC41(input); err != nil {
			t.Fatalf("%v\ninput: %q", err, input)
		}
	})
}
