package data

// Property C42: traversals visit exactly the reachable trees and blobs.
//
// A DAG of trees (sharing, diamonds, the same subtree twice in one tree, nil / null / missing
// subtrees, undecodable trees of several kinds, trees reported as > 50 MiB, file nodes that carry
// a subtree and dir nodes that carry content) is put into an in-memory restic.Loader whose
// LoadBlob sleeps a drawn (virtual, testing/synctest) time per tree, which varies the order in
// which the loadTreeWorkers deliver. FindUsedBlobs and StreamTrees are compared with a reference
// reachability computed on the model.

import (
	"bytes"
	"context"
	"encoding/json"
	"fmt"
	"sort"
	"strings"
	"sync"
	"testing"
	"testing/synctest"
	"time"

	"github.com/restic/restic/internal/errors"
	"github.com/restic/restic/internal/restic"
	"github.com/restic/restic/internal/verifkit"
	"pgregory.net/rapid"
)

type mNodeC42 struct {
	Kind  string `json:"kind"` // dir|dir-nil|dir-null|file|file-with-subtree|dir-with-content|symlink
	Sub   int    `json:"sub,omitempty"`
	Blobs []int  `json:"blobs,omitempty"`
}

type mTreeC42 struct {
	Nodes   []mNodeC42 `json:"nodes"`
	Bad     string     `json:"bad,omitempty"` // garbage|malformed|truncated|truncated-clean|no-nodes-key|nodes-null|empty
	BadAt   int        `json:"bad_at,omitempty"`
	Missing bool       `json:"missing,omitempty"`
	Huge    bool       `json:"huge,omitempty"`
	Wrap    bool       `json:"wrap,omitempty"`
	DelayUs int        `json:"delay_us,omitempty"`
}

type mCaseC42 struct {
	Trees   []mTreeC42 `json:"trees"`
	Batches [][]int    `json:"batches"` // root tree indices per FindUsedBlobs call (same blob set)
	Conns   uint       `json:"conns"`
	Wide    bool       `json:"wide,omitempty"`
}

// genWideC42 draws the "wide" shape: one root with 15-60 direct or second-level subtrees, a
// large drawn fraction of which (sometimes all) is reported as > 50 MiB, so that more huge trees
// are pending than the queue of the dedicated huge-tree worker holds (10 buffered + 1 in the
// worker) while ordinary trees wait in the backlog. Every tree has a data blob of its own, so
// a tree that is silently not loaded shows up in the result set.
func genWideC42(t *rapid.T) *mCaseC42 {
	c := &mCaseC42{Conns: uint(rapid.IntRange(1, 5).Draw(t, "conns")), Wide: true}
	n := rapid.IntRange(16, 62).Draw(t, "wide-ntrees")
	mids := rapid.SampledFrom([]int{0, 0, 1, 2, 3}).Draw(t, "wide-mids")
	hugePct := rapid.SampledFrom([]int{40, 70, 90, 100, 100}).Draw(t, "wide-hugepct")
	badRate := rapid.SampledFrom([]int{0, 0, 0, 3}).Draw(t, "wide-badrate")
	c.Trees = make([]mTreeC42, n)
	for i := n - 1; i >= 1; i-- {
		tr := &c.Trees[i]
		tr.Nodes = []mNodeC42{{Kind: "file", Blobs: []int{100 + i}}}
		if i > mids && i+1 < n && rapid.IntRange(0, 5).Draw(t, "wide-deeper") == 0 {
			tr.Nodes = append(tr.Nodes, mNodeC42{Kind: "dir", Sub: rapid.IntRange(i+1, n-1).Draw(t, "wide-sub")})
		}
		tr.Huge = rapid.IntRange(0, 99).Draw(t, "wide-huge") < hugePct
		tr.DelayUs = rapid.SampledFrom([]int{0, 1, 10, 100, 1000}).Draw(t, "wide-delay")
		if tr.Huge { // the single huge-tree worker is slow relative to the dispatcher
			tr.DelayUs = rapid.SampledFrom([]int{100, 1000, 2000, 5000}).Draw(t, "wide-hugedelay")
		}
		if i > mids && rapid.IntRange(0, 99).Draw(t, "wide-bad") < badRate {
			if rapid.Bool().Draw(t, "wide-missing") {
				tr.Missing = true
			} else {
				tr.Bad, tr.BadAt = "malformed", rapid.IntRange(0, len(tr.Nodes)).Draw(t, "wide-badat")
			}
		}
	}
	// leaves hang below the root or below one of the second-level trees
	for i := n - 1; i > mids; i-- {
		parent := 0
		if mids > 0 {
			parent = rapid.IntRange(0, mids).Draw(t, "wide-parent")
		}
		c.Trees[parent].Nodes = append(c.Trees[parent].Nodes, mNodeC42{Kind: "dir", Sub: i})
	}
	for m := mids; m >= 1; m-- {
		c.Trees[0].Nodes = append(c.Trees[0].Nodes, mNodeC42{Kind: "dir", Sub: m})
	}
	c.Trees[0].Nodes = append(c.Trees[0].Nodes, mNodeC42{Kind: "file", Blobs: []int{100}})
	c.Batches = [][]int{{0}}
	switch rapid.IntRange(0, 3).Draw(t, "wide-roots") {
	case 0:
		c.Batches = [][]int{{0, rapid.IntRange(1, n-1).Draw(t, "wide-root2")}}
	case 1:
		c.Batches = [][]int{{rapid.IntRange(1, n-1).Draw(t, "wide-first")}, {0}}
	}
	return c
}

func genCaseC42(t *rapid.T) *mCaseC42 {
	if rapid.IntRange(0, 3).Draw(t, "shape") == 0 {
		return genWideC42(t)
	}
	c := &mCaseC42{Conns: uint(rapid.IntRange(1, 5).Draw(t, "conns"))}
	n := rapid.IntRange(1, 14).Draw(t, "ntrees")
	badRate := rapid.SampledFrom([]int{0, 0, 0, 6, 12}).Draw(t, "badrate") // most DAGs are fully valid
	hugeMode := rapid.SampledFrom([]int{0, 0, 1, 2}).Draw(t, "hugemode")
	for i := 0; i < n; i++ {
		tr := mTreeC42{Wrap: rapid.IntRange(0, 4).Draw(t, "wrap") == 0, DelayUs: rapid.SampledFrom([]int{0, 0, 1, 10, 100, 1000, 5000}).Draw(t, "delay")}
		tr.Huge = hugeMode == 2 || hugeMode == 1 && rapid.IntRange(0, 3).Draw(t, "huge") == 0
		nn := rapid.IntRange(0, 6).Draw(t, "nnodes")
		for j := 0; j < nn; j++ {
			k := rapid.IntRange(0, 99).Draw(t, "nodekind")
			nd := mNodeC42{}
			blobs := func() []int {
				var b []int
				for x := rapid.IntRange(0, 3).Draw(t, "nblobs"); x > 0; x-- {
					b = append(b, rapid.IntRange(0, 9).Draw(t, "blob"))
				}
				return b
			}
			switch {
			case k < 50 && i+1 < n:
				nd.Kind = "dir"
				// prefer near neighbours and repeats: chains, diamonds and shared subtrees
				nd.Sub = rapid.OneOf(rapid.IntRange(i+1, n-1), rapid.IntRange(i+1, min(i+2, n-1)), rapid.Just(n-1)).Draw(t, "sub")
			case k < 53:
				nd.Kind = "dir-nil"
			case k < 56:
				nd.Kind = "dir-null"
			case k < 85:
				nd.Kind = "file"
				nd.Blobs = blobs()
			case k < 89 && i+1 < n:
				nd.Kind = "file-with-subtree"
				nd.Blobs = blobs()
				nd.Sub = rapid.IntRange(i+1, n-1).Draw(t, "fsub")
			case k < 93:
				nd.Kind = "dir-with-content"
				nd.Blobs = blobs()
			default:
				nd.Kind = "symlink"
			}
			tr.Nodes = append(tr.Nodes, nd)
		}
		if i > 0 && rapid.IntRange(0, 99).Draw(t, "bad") < badRate {
			if rapid.Bool().Draw(t, "missing") {
				tr.Missing = true
			} else {
				tr.Bad = rapid.SampledFrom([]string{"garbage", "malformed", "malformed", "truncated", "truncated-clean", "no-nodes-key", "nodes-null", "empty"}).Draw(t, "badkind")
				tr.BadAt = rapid.IntRange(0, len(tr.Nodes)).Draw(t, "badat")
			}
		}
		c.Trees = append(c.Trees, tr)
	}
	nb := rapid.IntRange(1, 2).Draw(t, "nbatches")
	for b := 0; b < nb; b++ {
		var roots []int
		for r := rapid.IntRange(1, 3).Draw(t, "nroots"); r > 0; r-- {
			roots = append(roots, rapid.OneOf(rapid.Just(0), rapid.IntRange(0, n-1)).Draw(t, "root"))
		}
		c.Batches = append(c.Batches, roots)
	}
	return c
}

// ---- materialisation

type vLoaderC42 struct {
	mu     sync.Mutex
	blobs  map[restic.ID][]byte
	huge   map[restic.ID]bool
	delay  map[restic.ID]time.Duration
	loads  map[restic.ID]int
	conns  uint
	maxPar int
	cur    int
	// huge trees the dispatcher has looked up (it does so right before queueing a tree) that
	// have not been loaded yet: 10 in the queue + 1 in the worker + 1 the dispatcher holds
	hugeAsked      map[restic.ID]bool
	hugeLoaded     int
	maxHugePending int
}

func (l *vLoaderC42) LoadBlob(ctx context.Context, h restic.BlobHandle, _ []byte) ([]byte, error) {
	if h.Type != restic.TreeBlob {
		return nil, errors.Errorf("unexpected load of %v", h)
	}
	l.mu.Lock()
	l.loads[h.ID]++
	l.cur++
	l.maxPar = max(l.maxPar, l.cur)
	d := l.delay[h.ID]
	l.mu.Unlock()
	if d > 0 {
		time.Sleep(d)
	}
	l.mu.Lock()
	l.cur--
	if l.hugeAsked[h.ID] {
		l.hugeLoaded++
	}
	buf, ok := l.blobs[h.ID]
	l.mu.Unlock()
	if !ok {
		return nil, errors.Errorf("blob %v not found", h)
	}
	return bytes.Clone(buf), nil
}

func (l *vLoaderC42) LookupBlobSize(h restic.BlobHandle) (uint, bool) {
	if h.Type != restic.TreeBlob {
		return 0, false
	}
	buf, ok := l.blobs[h.ID]
	if !ok {
		return 0, false
	}
	if l.huge[h.ID] {
		l.mu.Lock()
		if l.hugeAsked == nil {
			l.hugeAsked = map[restic.ID]bool{}
		}
		l.hugeAsked[h.ID] = true
		l.maxHugePending = max(l.maxHugePending, len(l.hugeAsked)-l.hugeLoaded)
		l.mu.Unlock()
		return 60 * 1024 * 1024, true
	}
	return uint(len(buf)), true
}

func (l *vLoaderC42) Connections() uint { return l.conns }

func dataIDC42(i int) restic.ID { return restic.Hash([]byte(fmt.Sprintf("data blob %d C42", i))) }

// buildC42 serialises the model bottom-up (a tree only refers to trees with a larger index).
func buildC42(c *mCaseC42) (*vLoaderC42, []restic.ID) {
	l := &vLoaderC42{blobs: map[restic.ID][]byte{}, huge: map[restic.ID]bool{}, delay: map[restic.ID]time.Duration{}, loads: map[restic.ID]int{}, conns: c.Conns}
	ids := make([]restic.ID, len(c.Trees))
	for i := len(c.Trees) - 1; i >= 0; i-- {
		tr := c.Trees[i]
		var nodes [][]byte
		for j, nd := range tr.Nodes {
			n := Node{Name: fmt.Sprintf("n%02d", j), Mode: 0o644}
			content := restic.IDs{}
			for _, b := range nd.Blobs {
				content = append(content, dataIDC42(b))
			}
			switch nd.Kind {
			case "dir":
				n.Type, n.Subtree = NodeTypeDir, &ids[nd.Sub]
			case "dir-nil":
				n.Type = NodeTypeDir
			case "dir-null":
				n.Type, n.Subtree = NodeTypeDir, &restic.ID{}
			case "file":
				n.Type, n.Content = NodeTypeFile, content
			case "file-with-subtree":
				n.Type, n.Content, n.Subtree = NodeTypeFile, content, &ids[nd.Sub]
			case "dir-with-content":
				n.Type, n.Content = NodeTypeDir, content
			default:
				n.Type, n.LinkTarget = NodeTypeSymlink, "x"
			}
			js, err := json.Marshal(n)
			if err != nil {
				panic(err)
			}
			nodes = append(nodes, js)
		}
		var buf []byte
		list := func(ns [][]byte) string { return string(bytes.Join(ns, []byte(","))) }
		pre, post := `{"nodes":[`, "]}\n"
		if tr.Wrap {
			pre, post = `{"future":{"nodes":[1,2]},"nodes":[`, `],"later":[{"a":null}],"x":"y"}`+"\n"
		}
		at := min(tr.BadAt, len(nodes))
		switch tr.Bad {
		case "":
			buf = []byte(pre + list(nodes) + post)
		case "garbage":
			buf = []byte(fmt.Sprintf("this is not a tree %d", i))
		case "malformed": // the regression shape: valid nodes, then {"name":5}, then more valid nodes
			ns := append(append(append([][]byte{}, nodes[:at]...), []byte(`{"name":5}`)), nodes[at:]...)
			buf = []byte(pre + list(ns) + post)
		case "truncated":
			full := pre + list(nodes) + post
			buf = []byte(full[:len(pre)+len(list(nodes[:at]))] + fmt.Sprintf(`,{"name":"cut%d`, i))
		case "truncated-clean": // ends at a token boundary: after a complete node, or right after "["
			buf = []byte(pre + list(nodes[:at]) + strings.Repeat(" ", i))
		case "no-nodes-key":
			buf = []byte(fmt.Sprintf(`{"foo":%d}`, i))
		case "nodes-null":
			buf = []byte(fmt.Sprintf(`{"bar":%d,"nodes":null}`, i))
		case "empty":
			buf = []byte{}
		}
		if tr.Missing {
			buf = append(buf, []byte(fmt.Sprintf("missing %d", i))...)
		}
		ids[i] = restic.Hash(buf)
		if !tr.Missing {
			l.blobs[ids[i]] = buf
		}
		if tr.Huge {
			l.huge[ids[i]] = true
		}
		l.delay[ids[i]] = time.Duration(tr.DelayUs) * time.Microsecond
	}
	return l, ids
}

// ---- reference

// childrenC42 lists the subtrees a traversal follows from tree i: dir nodes with a non-null
// subtree; for a tree with a malformed node only the nodes in front of it (lenient traversals
// like the checker's go on with those; FindUsedBlobs has failed by then anyway).
func (c *mCaseC42) childrenC42(i int) (subs []int, blobs []int) {
	tr := c.Trees[i]
	nodes := tr.Nodes
	switch tr.Bad {
	case "malformed", "truncated", "truncated-clean":
		nodes = nodes[:min(tr.BadAt, len(nodes))]
	case "":
	default:
		nodes = nil
	}
	if tr.Missing {
		nodes = nil
	}
	for _, nd := range nodes {
		switch nd.Kind {
		case "dir":
			subs = append(subs, nd.Sub)
		case "file", "file-with-subtree":
			blobs = append(blobs, nd.Blobs...)
		}
	}
	return subs, blobs
}

// reachC42 computes the trees reached from roots, not entering trees already in seen.
func (c *mCaseC42) reachC42(roots []int, seen map[int]bool) (reached []int, indeg map[int]int) {
	indeg = map[int]int{}
	stack := append([]int{}, roots...)
	for len(stack) > 0 {
		i := stack[len(stack)-1]
		stack = stack[:len(stack)-1]
		indeg[i]++
		if seen[i] {
			continue
		}
		seen[i] = true
		reached = append(reached, i)
		subs, _ := c.childrenC42(i)
		stack = append(stack, subs...)
	}
	return reached, indeg
}

func (c *mCaseC42) brokenC42(i int) bool { return c.Trees[i].Missing || c.Trees[i].Bad != "" }

type counterC42 struct {
	mu sync.Mutex
	n  uint64
}

func (p *counterC42) Add(v uint64) { p.mu.Lock(); p.n += v; p.mu.Unlock() }
func (p *counterC42) SetMax(uint64)  {}
func (p *counterC42) Get() (uint64, uint64) {
	p.mu.Lock()
	defer p.mu.Unlock()
	return p.n, 0
}
func (p *counterC42) Done() {}

func handlesC42(s restic.BlobSet) string {
	var out []string
	for h := range s {
		out = append(out, h.String())
	}
	sort.Strings(out)
	return strings.Join(out, "\n")
}

// checkCaseC42 runs inside a synctest bubble and returns a description of the first
// disagreement, "" if none.
func checkCaseC42(c *mCaseC42, classes map[string]bool) string {
	ctx := context.Background()

	// ---- FindUsedBlobs, one call per batch on the same set
	l, ids := buildC42(c)
	got := restic.NewBlobSet()
	want := restic.NewBlobSet()
	seen := map[int]bool{}
	failed := false
	for bi, batch := range c.Batches {
		roots := restic.IDs{}
		for _, r := range batch {
			roots = append(roots, ids[r])
		}
		reached, indeg := c.reachC42(batch, seen)
		expectErr := false
		for _, i := range reached {
			want.Insert(restic.BlobHandle{Type: restic.TreeBlob, ID: ids[i]})
			_, blobs := c.childrenC42(i)
			for _, b := range blobs {
				want.Insert(restic.BlobHandle{Type: restic.DataBlob, ID: dataIDC42(b)})
			}
			expectErr = expectErr || c.brokenC42(i)
			if indeg[i] > 1 {
				classes["shared-subtree"] = true
			}
			if c.Trees[i].Huge {
				classes["huge-reached"] = true
			}
		}
		p := &counterC42{}
		err := FindUsedBlobs(ctx, l, roots, got, p)
		if (err != nil) != expectErr {
			return fmt.Sprintf("FindUsedBlobs batch %d: err=%v, but a reachable tree is missing/undecodable: %v", bi, err, expectErr)
		}
		if err != nil {
			classes["findused=error"] = true
			failed = true
			break // the set is unspecified after an error
		}
		classes["findused=ok"] = true
		if n, _ := p.Get(); n != uint64(len(roots)) {
			return fmt.Sprintf("FindUsedBlobs batch %d: progress counter %d, want %d roots", bi, n, len(roots))
		}
		if g, w := handlesC42(got), handlesC42(want); g != w {
			return fmt.Sprintf("FindUsedBlobs batch %d: used blobs differ from the reference reachability\n got:\n%s\n want:\n%s", bi, g, w)
		}
	}
	for id, n := range l.loads {
		if n > 1 {
			return fmt.Sprintf("FindUsedBlobs loaded tree %v %d times", id, n)
		}
	}
	if !failed {
		seenIDs := restic.NewIDSet()
		for i := range c.Trees {
			if seen[i] {
				seenIDs.Insert(ids[i]) // equal trees have equal IDs
			}
		}
		for i := range c.Trees {
			if !seenIDs.Has(ids[i]) && l.loads[ids[i]] > 0 {
				return fmt.Sprintf("FindUsedBlobs loaded unreachable tree #%d", i)
			}
			if c.brokenC42(i) && !seen[i] {
				classes["broken-but-unreachable"] = true
			}
		}
	}
	if l.maxPar > 1 {
		classes["parallel-loads"] = true
	}
	if c.Wide {
		classes["wide"] = true
	}
	if l.maxHugePending >= 12 {
		classes["huge-pending>=12"] = true // the huge-tree queue was full and the dispatcher had to wait
	}

	// ---- StreamTrees with a lenient consumer (like the checker): every reachable tree is handed
	// to process exactly once, nothing else is; errors are delivered, not returned.
	l, ids = buildC42(c)
	var all []int
	for _, b := range c.Batches {
		all = append(all, b...)
	}
	roots := restic.IDs{}
	for _, r := range all {
		roots = append(roots, ids[r])
	}
	reached, _ := c.reachC42(all, map[int]bool{})
	var mu sync.Mutex
	processed := map[restic.ID]int{}
	gotErr := map[restic.ID]bool{}
	skipSeen := restic.NewIDSet()
	p := &counterC42{}
	err := StreamTrees(ctx, l, roots, p, func(id restic.ID) bool {
		if skipSeen.Has(id) {
			return true
		}
		skipSeen.Insert(id)
		return false
	}, func(id restic.ID, err error, nodes TreeNodeIterator) error {
		bad := err != nil
		if nodes != nil {
			for item := range nodes {
				if item.Error != nil {
					bad = true
					break // the documented way to stop: "reads nodes until it returns an error"
				}
			}
		}
		mu.Lock()
		processed[id]++
		gotErr[id] = bad
		mu.Unlock()
		return nil
	})
	if err != nil {
		return fmt.Sprintf("StreamTrees returned %v although process never fails", err)
	}
	if n, _ := p.Get(); n != uint64(len(roots)) {
		return fmt.Sprintf("StreamTrees: progress counter %d, want %d roots", n, len(roots))
	}
	wantProcessed := map[restic.ID]bool{}
	for _, i := range reached {
		wantProcessed[ids[i]] = true
		if processed[ids[i]] != 1 {
			return fmt.Sprintf("StreamTrees: reachable tree #%d processed %d times", i, processed[ids[i]])
		}
		if gotErr[ids[i]] != c.brokenC42(i) {
			return fmt.Sprintf("StreamTrees: tree #%d (missing=%v bad=%q) delivered with error=%v", i, c.Trees[i].Missing, c.Trees[i].Bad, gotErr[ids[i]])
		}
		if c.brokenC42(i) {
			classes["stream-delivers-error:"+map[bool]string{true: "missing", false: c.Trees[i].Bad}[c.Trees[i].Missing]] = true
		}
	}
	for id := range processed {
		if !wantProcessed[id] {
			return fmt.Sprintf("StreamTrees processed %v which is not reachable", id)
		}
	}
	return ""
}

func TestVerifC42Traverse(t *testing.T) {
	st := verifkit.Begin(t, "C42")
	rapid.Check(t, func(rt *rapid.T) {
		c := genCaseC42(rt)
		classes := map[string]bool{}
		var msg string
		synctest.Test(t, func(*testing.T) {
			msg = checkCaseC42(c, classes)
		})
		for _, tr := range c.Trees {
			for _, nd := range tr.Nodes {
				if nd.Kind != "dir" && nd.Kind != "file" && nd.Kind != "symlink" {
					classes["node="+nd.Kind] = true
				}
			}
		}
		nroots := 0
		for _, b := range c.Batches {
			nroots += len(b)
		}
		if nroots > 1 {
			classes["multiple-roots"] = true
		}
		if len(c.Batches) > 1 {
			classes["second-call-on-same-set"] = true
		}
		labels := make([]string, 0, len(classes))
		for k := range classes {
			labels = append(labels, k)
		}
		sort.Strings(labels)
		js, _ := json.Marshal(c)
		key := ""
		if classes["shared-subtree"] {
			key = string(js)
		}
		st.Case(key, labels...)
		if st.WantSample() {
			st.Sample(map[string]any{"case": c, "classes": labels})
		}
		if msg != "" {
			for _, tr := range c.Trees {
				// finding: JSON that ends early at a token boundary is taken for a complete tree
				if tr.Bad == "truncated-clean" && st.Known("C42:truncated-tree-json-accepted") {
					return
				}
			}
			rt.Fatalf("%s\ncase: %s", msg, js)
		}
	})
}
