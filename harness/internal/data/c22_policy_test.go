package data

import (
	"fmt"
	"sort"
	"strings"
	"testing"
	"time"

	"github.com/restic/restic/internal/restic"
	"github.com/restic/restic/internal/verifkit"
	"pgregory.net/rapid"
)

// ---------------------------------------------------------------------------
// C22  Retention policies keep exactly the documented snapshots.
//
// Reference model ("refpolicy") written from doc/060_forget.rst and the property
// statement: it works on *sets* (periods -> newest member), never walks a sorted
// list with running counters the way ApplyPolicy does, derives the week of a stamp
// from "Monday 00:00 to Sunday 23:59" (not from ISOWeek numbers), and yields for
// every rule a required and an allowed multiset of timestamps.
// ---------------------------------------------------------------------------

// msC22 is a multiset of instants (UnixNano; all generated stamps are < year 2262).
type msC22 map[int64]int

// ruleC22 is what one rule of the policy demands.
type ruleC22 struct {
	cat    string // reason category: last hourly ... within within-hourly ... (tags are by identity)
	lo, hi msC22  // lo: must be kept (statement); hi: may be kept (lo + documented extras / tie freedom)
}

type periodC22 struct{ a, b, c, d int }

func hourOfC22(t time.Time) periodC22 {
	y, m, d := t.Date()
	return periodC22{y, int(m), d, t.Hour()}
}
func dayOfC22(t time.Time) periodC22 {
	y, m, d := t.Date()
	return periodC22{y, int(m), d, 0}
}

// weekOfC22: "Weeks are Monday 00:00 to Sunday 23:59" -> identify a week by the civil
// date of its Monday (in the zone of the stamp).
func weekOfC22(t time.Time) periodC22 {
	y, m, d := t.Date()
	back := (int(t.Weekday()) + 6) % 7 // Monday=0 ... Sunday=6
	mon := time.Date(y, m, d-back, 12, 0, 0, 0, time.UTC)
	return periodC22{mon.Year(), int(mon.Month()), mon.Day(), 0}
}
func monthOfC22(t time.Time) periodC22 { return periodC22{t.Year(), int(t.Month()), 0, 0} }
func yearOfC22(t time.Time) periodC22  { return periodC22{t.Year(), 0, 0, 0} }

var periodsC22 = []struct {
	name string
	of   func(time.Time) periodC22
}{
	{"hourly", hourOfC22}, {"daily", dayOfC22}, {"weekly", weekOfC22}, {"monthly", monthOfC22}, {"yearly", yearOfC22},
}

// maxHoursC22 is the largest hour count whose nanoseconds fit into an int64 (2562047 h,
// 292 years). Up to it the window edge is checked exactly; beyond it only "a larger
// duration never removes a snapshot that was kept before" is claimed.
const maxHoursC22 = int((1<<63 - 1) / int64(time.Hour))

func exactC22(p ExpirePolicy) bool {
	for _, d := range []Duration{p.Within, p.WithinHourly, p.WithinDaily, p.WithinWeekly, p.WithinMonthly, p.WithinYearly} {
		if d.Hours > maxHoursC22 {
			return false
		}
	}
	return true
}

// futureC22: the generator keeps every stamp either <= 2025 or >= 2100, the check is
// run between those years, so "in the future relative to when forget is run" is
// decided without reading the clock.
func futureC22(t time.Time) bool { return t.Year() >= 2100 }

type groupC22 struct {
	newest time.Time
	size   int
}

// groupsC22 partitions stamps into periods; result is ordered most recent period first.
func groupsC22(stamps []time.Time, of func(time.Time) periodC22) []groupC22 {
	m := map[periodC22]*groupC22{}
	for _, t := range stamps {
		g := m[of(t)]
		if g == nil {
			g = &groupC22{newest: t}
			m[of(t)] = g
		}
		g.size++
		if t.After(g.newest) {
			g.newest = t
		}
	}
	gs := make([]groupC22, 0, len(m))
	for _, g := range m {
		gs = append(gs, *g)
	}
	sort.Slice(gs, func(i, j int) bool { return gs[i].newest.After(gs[j].newest) })
	return gs
}

func oldestC22(stamps []time.Time) time.Time {
	o := stamps[0]
	for _, t := range stamps {
		if t.Before(o) {
			o = t
		}
	}
	return o
}

// countedC22: keep-<period> n. "for the last n <periods> which have one or more
// snapshots, keep only the most recent one for each" + the oldest snapshot of the list
// while a count remains.
func countedC22(cat string, stamps []time.Time, n int, of func(time.Time) periodC22) ruleC22 {
	r := ruleC22{cat: cat, lo: msC22{}, hi: msC22{}}
	if len(stamps) == 0 {
		return r
	}
	gs := groupsC22(stamps, of)
	take := n
	if n == -1 || n > len(gs) {
		take = len(gs)
	}
	for _, g := range gs[:take] {
		r.lo[g.newest.UnixNano()]++
		r.hi[g.newest.UnixNano()]++
	}
	if n == -1 || n > len(gs) { // a count remains after every period got its snapshot
		old := oldestC22(stamps)
		g := gs[len(gs)-1] // the period of the oldest snapshot
		switch {
		case g.size == 1: // the oldest snapshot is the period's newest: already kept
		case g.newest.Equal(old): // all members share one stamp: "newest" and "oldest" may or may not be the same snapshot
			r.hi[old.UnixNano()]++
		default:
			r.lo[old.UnixNano()]++
			r.hi[old.UnixNano()]++
		}
	}
	return r
}

// lastC22: keep-last n keeps the n most recent snapshots.
func lastC22(stamps []time.Time, n int) ruleC22 {
	r := ruleC22{cat: "last", lo: msC22{}, hi: msC22{}}
	s := append([]time.Time(nil), stamps...)
	sort.Slice(s, func(i, j int) bool { return s[i].After(s[j]) })
	if n != -1 && n < len(s) {
		s = s[:n]
	}
	for _, t := range s {
		r.lo[t.UnixNano()]++
		r.hi[t.UnixNano()]++
	}
	return r
}

// windowC22 returns the predicate "stamp lies within duration d of the latest
// snapshot", latest = newest snapshot that is not in the future (if there is none,
// the reference point is the zero time and everything lies in the window).
// "2y5m7d3h will keep all snapshots made in the two years, five months, seven days
// and three hours before the latest snapshot": civil-calendar subtraction in the zone
// of the stamp, day overflow normalised as time.Date does.
func windowC22(stamps []time.Time, d Duration) func(time.Time) bool {
	var latest time.Time
	found := false
	for _, t := range stamps {
		if !futureC22(t) && (!found || t.After(latest)) {
			latest, found = t, true
		}
	}
	if !found {
		return func(time.Time) bool { return true }
	}
	y, mo, dd := latest.Date()
	hh, mi, ss := latest.Clock()
	thr := time.Date(y-d.Years, mo-time.Month(d.Months), dd-d.Days, hh-d.Hours, mi, ss, latest.Nanosecond(), latest.Location())
	return func(t time.Time) bool { return t.After(thr) }
}

func withinC22(stamps []time.Time, d Duration) ruleC22 {
	r := ruleC22{cat: "within", lo: msC22{}, hi: msC22{}}
	in := windowC22(stamps, d)
	for _, t := range stamps {
		if in(t) {
			r.lo[t.UnixNano()]++
			r.hi[t.UnixNano()]++
		}
	}
	return r
}

// withinPeriodC22: keep-within-<period> d keeps the newest snapshot of every period
// inside the window. Documented extra (allowed, not required): the oldest snapshot of
// the list when it lies inside the window ("oldest ... within").
func withinPeriodC22(cat string, stamps []time.Time, d Duration, of func(time.Time) periodC22) ruleC22 {
	r := ruleC22{cat: cat, lo: msC22{}, hi: msC22{}}
	in := windowC22(stamps, d)
	var w []time.Time
	for _, t := range stamps {
		if in(t) {
			w = append(w, t)
		}
	}
	if len(w) == 0 {
		return r
	}
	gs := groupsC22(w, of)
	for _, g := range gs {
		r.lo[g.newest.UnixNano()]++
		r.hi[g.newest.UnixNano()]++
	}
	old := oldestC22(stamps)
	if in(old) && gs[len(gs)-1].size >= 2 {
		r.hi[old.UnixNano()]++
	}
	return r
}

// tagMatchC22: "tags separated by commas mean the snapshot must have all of those tags";
// the empty tag stands for "is untagged".
func tagMatchC22(sn *Snapshot, l TagList) bool {
	for _, want := range l {
		ok := want == "" && len(sn.Tags) == 0
		for _, have := range sn.Tags {
			ok = ok || have == want
		}
		if !ok {
			return false
		}
	}
	return true
}

func refPolicyC22(list []*Snapshot, p ExpirePolicy) (rules []ruleC22, byTag map[*Snapshot]bool) {
	stamps := make([]time.Time, len(list))
	for i, sn := range list {
		stamps[i] = sn.Time
	}
	if p.Last != 0 {
		rules = append(rules, lastC22(stamps, p.Last))
	}
	counts := []int{p.Hourly, p.Daily, p.Weekly, p.Monthly, p.Yearly}
	for i, per := range periodsC22 {
		if counts[i] != 0 {
			rules = append(rules, countedC22(per.name, stamps, counts[i], per.of))
		}
	}
	if !p.Within.Zero() {
		rules = append(rules, withinC22(stamps, p.Within))
	}
	durs := []Duration{p.WithinHourly, p.WithinDaily, p.WithinWeekly, p.WithinMonthly, p.WithinYearly}
	for i, per := range periodsC22 {
		if !durs[i].Zero() {
			rules = append(rules, withinPeriodC22("within-"+per.name, stamps, durs[i], per.of))
		}
	}
	byTag = map[*Snapshot]bool{}
	for _, sn := range list {
		for _, l := range p.Tags {
			if tagMatchC22(sn, l) {
				byTag[sn] = true
			}
		}
	}
	return rules, byTag
}

// reasonCatC22 maps a reason text ("daily within 7d", "oldest hourly snapshot",
// "has tags [a]", "within 2d", "last snapshot") to the rule category.
func reasonCatC22(s string) (cat string, oldest bool) {
	if rest, ok := strings.CutPrefix(s, "oldest "); ok {
		s, oldest = rest, true
	}
	switch {
	case strings.HasPrefix(s, "has tags"):
		return "tags", oldest
	case strings.HasPrefix(s, "within "):
		return "within", oldest
	}
	w := strings.Fields(s)
	if len(w) >= 2 {
		switch w[0] {
		case "last", "hourly", "daily", "weekly", "monthly", "yearly":
			if w[1] == "snapshot" {
				return w[0], oldest
			}
			if w[1] == "within" && w[0] != "last" {
				return "within-" + w[0], oldest
			}
		}
	}
	return "?" + s, oldest
}

// ---------------------------------------------------------------------------
// generators
// ---------------------------------------------------------------------------

var zonesC22 = []int{0, 0, 3600, -5 * 3600, 5*3600 + 1800, 13 * 3600, -11 * 3600, 14 * 3600, -(9*3600 + 1800), 12*3600 + 2700}

// anchorsC22: civil instants where hour/day/week/month/year periods meet, including
// ISO week 53 -> 1 (2015/16, 2020/21), week 1 starting in the old year (2018-12-31,
// 2024-12-30), week 52 ending in the new year (2022-01-02, 2023-01-01), leap days.
var anchorsC22 = [][3]int{
	{2016, 1, 1}, {2016, 1, 4}, {2019, 1, 1}, {2018, 12, 31}, {2021, 1, 1}, {2021, 1, 4}, {2020, 12, 28},
	{2022, 1, 1}, {2022, 1, 3}, {2023, 1, 1}, {2023, 1, 2}, {2024, 12, 30}, {2025, 1, 1}, {2020, 3, 1}, {2024, 3, 1},
	{2021, 3, 1}, {2020, 6, 1}, {2020, 6, 8}, {2021, 5, 31}, {2021, 8, 1}, {2025, 12, 1},
	{2100, 1, 1}, {2100, 3, 1}, {2101, 1, 3}, {2105, 1, 1},
}

func genStampC22(t *rapid.T, loc *time.Location, prev []time.Time) time.Time {
	kind := rapid.IntRange(0, 9).Draw(t, "kind")
	var ts time.Time
	switch {
	case kind == 0 && len(prev) > 0: // tie
		return prev[rapid.IntRange(0, len(prev)-1).Draw(t, "tie")]
	case kind == 1 && len(prev) > 0: // close to an earlier one
		base := prev[rapid.IntRange(0, len(prev)-1).Draw(t, "near")]
		unit := rapid.SampledFrom([]time.Duration{time.Nanosecond, time.Second, time.Minute, time.Hour, 24 * time.Hour, 7 * 24 * time.Hour}).Draw(t, "unit")
		ts = base.Add(unit * time.Duration(rapid.IntRange(-3, 3).Draw(t, "k")))
	case kind == 2: // anywhere
		ts = time.Date(rapid.IntRange(2005, 2025).Draw(t, "y"), time.Month(rapid.IntRange(1, 12).Draw(t, "mo")), rapid.IntRange(1, 31).Draw(t, "d"),
			rapid.IntRange(0, 23).Draw(t, "h"), rapid.IntRange(0, 59).Draw(t, "mi"), rapid.IntRange(0, 59).Draw(t, "s"), 0, loc)
	default: // around a boundary
		a := anchorsC22[rapid.IntRange(0, len(anchorsC22)-1).Draw(t, "anchor")]
		if kind >= 8 { // future
			a = anchorsC22[len(anchorsC22)-1-rapid.IntRange(0, 3).Draw(t, "fanchor")]
		} else if a[0] >= 2100 && kind < 7 {
			a = anchorsC22[rapid.IntRange(0, len(anchorsC22)-5).Draw(t, "anchor2")]
		}
		base := time.Date(a[0], time.Month(a[1]), a[2], 0, 0, 0, 0, loc)
		unit := rapid.SampledFrom([]time.Duration{time.Nanosecond, time.Second, time.Minute, time.Hour, time.Hour, 24 * time.Hour, 24 * time.Hour, 7 * 24 * time.Hour, 30 * 24 * time.Hour}).Draw(t, "unit")
		ts = base.Add(unit * time.Duration(rapid.IntRange(-6, 5).Draw(t, "k")))
		if rapid.IntRange(0, 3).Draw(t, "frac") == 0 {
			ts = ts.Add(time.Duration(rapid.IntRange(0, 3599).Draw(t, "sec"))*time.Second + time.Duration(rapid.IntRange(0, 999999999).Draw(t, "ns")))
		}
	}
	// keep away from the wall clock: 2026..2099 never occurs
	for ts.Year() > 2025 && ts.Year() < 2100 {
		ts = ts.AddDate(-3, 0, 0)
	}
	return ts.In(loc)
}

var tagPoolC22 = []string{"a", "b", "c", "a,b", " a"}

func genSnapshotsC22(t *rapid.T) []*Snapshot {
	off := rapid.SampledFrom(zonesC22).Draw(t, "zone")
	loc := time.FixedZone("", off)
	if off == 0 {
		loc = time.UTC
	}
	n := rapid.OneOf(rapid.IntRange(0, 12), rapid.IntRange(0, 60)).Draw(t, "n")
	var stamps []time.Time
	list := make([]*Snapshot, 0, n)
	for i := 0; i < n; i++ {
		ts := genStampC22(t, loc, stamps)
		stamps = append(stamps, ts)
		var tags []string
		switch rapid.IntRange(0, 3).Draw(t, "tagk") {
		case 0:
		case 1:
			tags = []string{rapid.SampledFrom(tagPoolC22).Draw(t, "tag")}
		default:
			tags = rapid.SliceOfN(rapid.SampledFrom(tagPoolC22), 1, 3).Draw(t, "tags")
		}
		id := restic.Hash([]byte(fmt.Sprintf("c22-%d", i)))
		list = append(list, &Snapshot{Time: ts, Tags: tags, Hostname: "h", Paths: []string{"/p"}, id: &id})
	}
	return list
}

func genCountC22(t *rapid.T, label string, n int, density int) int {
	if rapid.IntRange(0, 11).Draw(t, label+"?") >= density {
		return 0
	}
	switch rapid.IntRange(0, 5).Draw(t, label) {
	case 0:
		return -1
	case 1:
		return rapid.IntRange(1, max(1, n+2)).Draw(t, label+"N")
	default:
		return rapid.IntRange(1, 5).Draw(t, label+"n")
	}
}

// genDurationC22 draws a duration; with some probability it is the exact distance (in
// days or hours) between the reference snapshot and another snapshot, so that stamps
// sit exactly on, just inside and just outside the window edge.
func genDurationC22(t *rapid.T, label string, list []*Snapshot, density int) Duration {
	if rapid.IntRange(0, 11).Draw(t, label+"?") >= density {
		return Duration{}
	}
	switch rapid.IntRange(0, 4).Draw(t, label) {
	case 0, 1:
		var latest time.Time
		for _, sn := range list {
			if !futureC22(sn.Time) && sn.Time.After(latest) {
				latest = sn.Time
			}
		}
		if len(list) > 0 && !latest.IsZero() {
			other := list[rapid.IntRange(0, len(list)-1).Draw(t, label+"o")].Time
			if d := latest.Sub(other); d > 0 && d < 200000*time.Hour {
				h := int(d / time.Hour)
				if rapid.Bool().Draw(t, label+"days") {
					return Duration{Days: h / 24, Hours: h % 24}
				}
				return Duration{Hours: h + rapid.IntRange(0, 1).Draw(t, label+"+1")}
			}
		}
		fallthrough
	case 2:
		if rapid.IntRange(0, 3).Draw(t, label+"huge") == 0 {
			// up to the largest hour count a time.Duration can hold (292 years)
			return Duration{Hours: rapid.OneOf(rapid.IntRange(maxHoursC22-3, maxHoursC22), rapid.IntRange(100000, maxHoursC22)).Draw(t, label+"H")}
		}
		fallthrough
	default:
		d := Duration{}
		f := rapid.IntRange(1, 15).Draw(t, label+"f")
		if f&1 != 0 {
			d.Hours = rapid.IntRange(0, 100).Draw(t, label+"h")
		}
		if f&2 != 0 {
			d.Days = rapid.IntRange(0, 40).Draw(t, label+"d")
		}
		if f&4 != 0 {
			d.Months = rapid.IntRange(0, 14).Draw(t, label+"m")
		}
		if f&8 != 0 {
			d.Years = rapid.IntRange(0, 12).Draw(t, label+"y")
		}
		return d
	}
}

func genTagListC22(t *rapid.T) TagList {
	switch rapid.IntRange(0, 7).Draw(t, "tl") {
	case 0:
		return TagList{""} // untagged only
	case 1:
		return TagList{} // no requirement at all
	case 2:
		return TagList{"nosuch"}
	case 3: // '' combined with a real tag, either order: nothing can satisfy it
		l := TagList{"", rapid.SampledFrom(tagPoolC22).Draw(t, "tle")}
		if rapid.Bool().Draw(t, "tlswap") {
			l[0], l[1] = l[1], l[0]
		}
		return l
	default:
		return TagList(rapid.SliceOfN(rapid.SampledFrom(tagPoolC22), 1, 2).Draw(t, "tlv"))
	}
}

func genPolicyC22(t *rapid.T, list []*Snapshot) ExpirePolicy {
	n := len(list)
	// density/12 = chance of every single option to be active: mostly 1-3 options
	dn := rapid.SampledFrom([]int{1, 1, 2, 2, 3, 4, 7}).Draw(t, "density")
	p := ExpirePolicy{
		Last:          genCountC22(t, "last", n, dn),
		Hourly:        genCountC22(t, "hourly", n, dn),
		Daily:         genCountC22(t, "daily", n, dn),
		Weekly:        genCountC22(t, "weekly", n, dn),
		Monthly:       genCountC22(t, "monthly", n, dn),
		Yearly:        genCountC22(t, "yearly", n, dn),
		Within:        genDurationC22(t, "w", list, dn),
		WithinHourly:  genDurationC22(t, "wh", list, dn),
		WithinDaily:   genDurationC22(t, "wd", list, dn),
		WithinWeekly:  genDurationC22(t, "ww", list, dn),
		WithinMonthly: genDurationC22(t, "wm", list, dn),
		WithinYearly:  genDurationC22(t, "wy", list, dn),
	}
	for i := 0; i < 2; i++ {
		if rapid.IntRange(0, 11).Draw(t, "tl?") < dn {
			p.Tags = append(p.Tags, genTagListC22(t))
		}
	}
	return p
}

func raiseCountC22(t *rapid.T, label string, n int) int {
	if n == -1 {
		return -1
	}
	if rapid.IntRange(0, 4).Draw(t, label) == 0 {
		return -1
	}
	return n + rapid.IntRange(1, 4).Draw(t, label+"+")
}

func raiseDurC22(t *rapid.T, label string, d Duration) Duration {
	switch rapid.IntRange(0, 4).Draw(t, label) {
	case 4: // to, or beyond, what a time.Duration can hold
		d.Hours = max(d.Hours+1, rapid.OneOf(rapid.IntRange(maxHoursC22-2, maxHoursC22+3), rapid.IntRange(maxHoursC22, 4*maxHoursC22)).Draw(t, label+"H"))
	case 0:
		d.Hours += rapid.IntRange(1, 50).Draw(t, label+"+")
	case 1:
		d.Days += rapid.IntRange(1, 40).Draw(t, label+"+")
	case 2:
		d.Months += rapid.IntRange(1, 13).Draw(t, label+"+")
	default:
		d.Years += rapid.IntRange(1, 3).Draw(t, label+"+")
	}
	return d
}

// raisePolicyC22 returns a policy that is >= p in every component and > in at least one.
func raisePolicyC22(t *rapid.T, p ExpirePolicy) (ExpirePolicy, string) {
	q := p
	q.Tags = append([]TagList(nil), p.Tags...)
	var what []string
	for len(what) == 0 {
		mask := rapid.IntRange(1, 1<<13-1).Draw(t, "raise")
		if rapid.Bool().Draw(t, "single") {
			mask = 1 << rapid.IntRange(0, 12).Draw(t, "which")
		}
		cnt := []*int{&q.Last, &q.Hourly, &q.Daily, &q.Weekly, &q.Monthly, &q.Yearly}
		dur := []*Duration{&q.Within, &q.WithinHourly, &q.WithinDaily, &q.WithinWeekly, &q.WithinMonthly, &q.WithinYearly}
		for i, c := range cnt {
			if mask&(1<<i) != 0 && *c != -1 {
				*c = raiseCountC22(t, fmt.Sprintf("rc%d", i), *c)
				what = append(what, fmt.Sprintf("count%d", i))
			}
		}
		for i, d := range dur {
			if mask&(1<<(6+i)) != 0 {
				*d = raiseDurC22(t, fmt.Sprintf("rd%d", i), *d)
				what = append(what, fmt.Sprintf("dur%d", i))
			}
		}
		if mask&(1<<12) != 0 {
			q.Tags = append(q.Tags, genTagListC22(t))
			what = append(what, "tag")
		}
	}
	return q, strings.Join(what, ",")
}

func describeC22(list []*Snapshot) string {
	var b strings.Builder
	for i, sn := range list {
		fmt.Fprintf(&b, "  #%d %s (%s) tags=%q\n", i, sn.Time.Format(time.RFC3339Nano), sn.Time.Weekday(), sn.Tags)
	}
	return b.String()
}

func applyC22(list []*Snapshot, p ExpirePolicy) (keep, remove Snapshots, reasons []KeepReason) {
	// ApplyPolicy sorts its argument in place: hand it a copy in the original order
	return ApplyPolicy(append(Snapshots(nil), list...), p)
}

// singleRulesC22 splits a policy into policies with exactly one active option each.
func singleRulesC22(p ExpirePolicy) []ExpirePolicy {
	var out []ExpirePolicy
	add := func(q ExpirePolicy) {
		if !q.Empty() {
			out = append(out, q)
		}
	}
	add(ExpirePolicy{Last: p.Last})
	add(ExpirePolicy{Hourly: p.Hourly})
	add(ExpirePolicy{Daily: p.Daily})
	add(ExpirePolicy{Weekly: p.Weekly})
	add(ExpirePolicy{Monthly: p.Monthly})
	add(ExpirePolicy{Yearly: p.Yearly})
	add(ExpirePolicy{Within: p.Within})
	add(ExpirePolicy{WithinHourly: p.WithinHourly})
	add(ExpirePolicy{WithinDaily: p.WithinDaily})
	add(ExpirePolicy{WithinWeekly: p.WithinWeekly})
	add(ExpirePolicy{WithinMonthly: p.WithinMonthly})
	add(ExpirePolicy{WithinYearly: p.WithinYearly})
	for _, l := range p.Tags {
		add(ExpirePolicy{Tags: []TagList{l}})
	}
	return out
}

// checkPolicyC22 compares one ApplyPolicy result with the reference model.
// fatalf receives the complete message.
func checkPolicyC22(list []*Snapshot, p ExpirePolicy, fatalf func(string, ...any)) (keep Snapshots, oldestKept bool, extraKept bool) {
	keep, remove, reasons := applyC22(list, p)
	ctx := func() string { return fmt.Sprintf("\npolicy: %+v\nsnapshots:\n%s", p, describeC22(list)) }

	// --- partition by identity
	seen := map[*Snapshot]int{}
	for _, sn := range keep {
		seen[sn]++
	}
	for _, sn := range remove {
		seen[sn] += 100
	}
	if len(keep)+len(remove) != len(list) {
		fatalf("keep(%d)+remove(%d) != input(%d)%s", len(keep), len(remove), len(list), ctx())
	}
	for i, sn := range list {
		if c := seen[sn]; c != 1 && c != 100 {
			fatalf("snapshot #%d is in keep %d times and in remove %d times%s", i, c%100, c/100, ctx())
		}
	}
	if len(list) == 0 {
		if len(reasons) != 0 {
			fatalf("reasons for an empty list")
		}
		return keep, false, false
	}

	// --- reasons: one per kept snapshot, same order, non-empty, categories of active rules
	if len(reasons) != len(keep) {
		fatalf("len(reasons)=%d, len(keep)=%d%s", len(reasons), len(keep), ctx())
	}
	rules, byTag := refPolicyC22(list, p)
	active := map[string]bool{}
	for _, r := range rules {
		active[r.cat] = true
	}
	if len(p.Tags) > 0 {
		active["tags"] = true
	}
	count := msC22{}
	tagged := msC22{}
	kept := msC22{}
	index := map[*Snapshot]int{}
	old := list[0].Time
	for i, sn := range list {
		index[sn] = i
		count[sn.Time.UnixNano()]++
		if byTag[sn] {
			tagged[sn.Time.UnixNano()]++
		}
		if sn.Time.Before(old) {
			old = sn.Time
		}
	}
	cats := make([]map[string]bool, len(keep))
	used := map[string]int{} // kept snapshots per counted category so far
	limits := map[string]int{"last": p.Last, "hourly": p.Hourly, "daily": p.Daily, "weekly": p.Weekly, "monthly": p.Monthly, "yearly": p.Yearly}
	for i, sn := range keep {
		kept[sn.Time.UnixNano()]++
		kr := reasons[i]
		if kr.Snapshot != sn {
			fatalf("reasons[%d] is not about keep[%d]%s", i, i, ctx())
		}
		if len(kr.Matches) == 0 {
			fatalf("kept snapshot #%d has no reason%s", index[sn], ctx())
		}
		cats[i] = map[string]bool{}
		for _, m := range kr.Matches {
			c, isOldest := reasonCatC22(m)
			if !active[c] {
				fatalf("kept snapshot #%d: reason %q does not belong to an option of the policy%s", index[sn], m, ctx())
			}
			if cats[i][c] && c != "tags" {
				fatalf("kept snapshot #%d: reason category %q given twice (%q)%s", index[sn], c, kr.Matches, ctx())
			}
			cats[i][c] = true
			if isOldest {
				oldestKept = true
				if !sn.Time.Equal(old) {
					fatalf("kept snapshot #%d has reason %q but is not the oldest%s", index[sn], m, ctx())
				}
			}
		}
		// counters: "the counters after evaluating the current snapshot"
		got := map[string]int{"last": kr.Counters.Last, "hourly": kr.Counters.Hourly, "daily": kr.Counters.Daily,
			"weekly": kr.Counters.Weekly, "monthly": kr.Counters.Monthly, "yearly": kr.Counters.Yearly}
		for c, lim := range limits {
			if cats[i][c] {
				used[c]++
			}
			want := lim
			if lim > 0 {
				want = lim - used[c]
			}
			if got[c] != want {
				fatalf("kept snapshot #%d: counter %s=%d, want %d (limit %d, %d kept for it so far)%s", index[sn], c, got[c], want, lim, used[c], ctx())
			}
		}
	}

	// --- keep-tag is by identity
	isKept := map[*Snapshot]bool{}
	for _, sn := range keep {
		isKept[sn] = true
	}
	for _, sn := range list {
		if byTag[sn] && !isKept[sn] {
			fatalf("snapshot #%d matches a keep-tag list but was removed%s", index[sn], ctx())
		}
	}

	// --- required ⊆ keep ⊆ required ∪ allowed, as multisets of timestamps
	for ts, n := range count {
		lo, hi := tagged[ts], tagged[ts]
		var why []string
		for _, r := range rules {
			lo = max(lo, r.lo[ts])
			hi += r.hi[ts]
			if r.hi[ts] > 0 {
				why = append(why, fmt.Sprintf("%s:%d..%d", r.cat, r.lo[ts], r.hi[ts]))
			}
		}
		hi = min(hi, n)
		if kept[ts] > lo {
			extraKept = true
		}
		if kept[ts] < lo || kept[ts] > hi {
			fatalf("stamp %s: %d of %d snapshots kept, the documented policy demands %d..%d (tag matches %d, rules %v)%s",
				time.Unix(0, ts).In(list[0].Time.Location()).Format(time.RFC3339Nano), kept[ts], n, lo, hi, tagged[ts], why, ctx())
		}
	}

	// --- reasons agree with the model where the snapshot is identified by its stamp
	for i, sn := range keep {
		ts := sn.Time.UnixNano()
		if count[ts] != 1 {
			continue
		}
		for _, r := range rules {
			if r.lo[ts] > 0 && !cats[i][r.cat] {
				fatalf("kept snapshot #%d: reason for option %q missing (reasons %q)%s", index[sn], r.cat, reasons[i].Matches, ctx())
			}
			if r.hi[ts] == 0 && cats[i][r.cat] {
				fatalf("kept snapshot #%d: reason %q although option %q does not select it%s", index[sn], reasons[i].Matches, r.cat, ctx())
			}
		}
		if byTag[sn] != cats[i]["tags"] {
			fatalf("kept snapshot #%d: tag match %v but reasons %q%s", index[sn], byTag[sn], reasons[i].Matches, ctx())
		}
	}
	return keep, oldestKept, extraKept
}

func TestVerifC22Policy(t *testing.T) {
	st := verifkit.Begin(t, "C22")
	rapid.Check(t, func(t *rapid.T) {
		list := genSnapshotsC22(t)
		p := genPolicyC22(t, list)

		// ---- statistics
		rules, byTag := refPolicyC22(list, p)
		nrules := len(rules) + len(p.Tags)
		ties, future, past := 0, 0, 0
		sameDay := false
		weeks5253 := false
		seenStamp := map[int64]bool{}
		days := map[periodC22]int{}
		for _, sn := range list {
			if seenStamp[sn.Time.UnixNano()] {
				ties++
			}
			seenStamp[sn.Time.UnixNano()] = true
			if futureC22(sn.Time) {
				future++
			} else {
				past++
			}
			days[dayOfC22(sn.Time)]++
			if days[dayOfC22(sn.Time)] >= 2 {
				sameDay = true
			}
			if _, w := sn.Time.ISOWeek(); w >= 52 || (w == 1 && sn.Time.Month() == 12) {
				weeks5253 = true
			}
		}
		// window edge: some snapshot exactly on the threshold of an active duration
		edge := false
		for _, d := range []Duration{p.Within, p.WithinHourly, p.WithinDaily, p.WithinWeekly, p.WithinMonthly, p.WithinYearly} {
			if d.Zero() || len(list) == 0 || past == 0 {
				continue
			}
			in := windowC22(stampsC22(list), d)
			for _, sn := range list {
				if !in(sn.Time) && in(sn.Time.Add(time.Nanosecond)) {
					edge = true
				}
			}
		}
		classes := []string{fmt.Sprintf("rules=%d", min(nrules, 4))}
		if ties > 0 {
			classes = append(classes, "ties")
		}
		if future > 0 && past > 0 {
			classes = append(classes, "future+past")
		}
		if future > 0 && past == 0 {
			classes = append(classes, "all-future")
		}
		if weeks5253 {
			classes = append(classes, "week52/53/1-at-year-end")
		}
		if edge {
			classes = append(classes, "stamp-on-window-edge")
		}
		if len(byTag) > 0 {
			classes = append(classes, "keep-tag-match")
		}
		for _, r := range rules {
			classes = append(classes, "rule:"+r.cat)
		}
		if len(list) == 0 {
			classes = append(classes, "empty-list")
		}
		for _, l := range p.Tags {
			if len(l) == 2 && (l[0] == "") != (l[1] == "") {
				classes = append(classes, "keep-tag=''+tag")
				break
			}
		}
		for _, d := range []Duration{p.Within, p.WithinHourly, p.WithinDaily, p.WithinWeekly, p.WithinMonthly, p.WithinYearly} {
			if d.Hours >= 100000 {
				classes = append(classes, "hours>=100000")
				break
			}
		}
		key := ""
		if sameDay && nrules >= 2 {
			key = fmt.Sprintf("%+v\n%s", p, describeC22(list))
		}

		// ---- oracle 1: reference model
		keep, oldestKept, extraKept := checkPolicyC22(list, p, t.Fatalf)
		if oldestKept {
			classes = append(classes, "oldest-reason")
		}
		if extraKept {
			classes = append(classes, "allowed-extra-kept")
		}
		switch {
		case len(list) > 0 && len(keep) == 0:
			classes = append(classes, "keep=none")
		case len(list) > 0 && len(keep) == len(list):
			classes = append(classes, "keep=all")
		case len(list) > 0:
			classes = append(classes, "keep=some")
		}
		st.Case(key, classes...)
		if st.WantSample() {
			st.Sample(map[string]any{"policy": p.String(), "snapshots": len(list), "kept": len(keep), "ties": ties, "future": future})
		}

		// ---- oracle 2: "the results are ORed": keep(p) = union of keep(single option)
		keptSet := map[*Snapshot]bool{}
		for _, sn := range keep {
			keptSet[sn] = true
		}
		union := map[*Snapshot]bool{}
		for _, q := range singleRulesC22(p) {
			k, _, _ := applyC22(list, q)
			for _, sn := range k {
				union[sn] = true
				if !keptSet[sn] {
					t.Fatalf("snapshot %s is kept by %+v alone but removed by the combined policy %+v\n%s", sn.Time.Format(time.RFC3339Nano), q, p, describeC22(list))
				}
			}
		}
		for sn := range keptSet {
			if !union[sn] {
				t.Fatalf("snapshot %s is kept by %+v but by none of its options alone\n%s", sn.Time.Format(time.RFC3339Nano), p, describeC22(list))
			}
		}

		// ---- oracle 3: monotonicity
		q, what := raisePolicyC22(t, p)
		var keep2 Snapshots
		if exactC22(q) {
			keep2, _, _ = checkPolicyC22(list, q, t.Fatalf)
		} else {
			keep2, _, _ = applyC22(list, q)
			st.Class("raised-beyond-ns-range")
		}
		kept2 := map[*Snapshot]bool{}
		for _, sn := range keep2 {
			kept2[sn] = true
		}
		for _, sn := range keep {
			if !kept2[sn] {
				t.Fatalf("raising %s removed a snapshot that was kept before: %s\nbefore: %+v\nafter:  %+v\n%s",
					what, sn.Time.Format(time.RFC3339Nano), p, q, describeC22(list))
			}
		}
		st.Evals(1)
		if len(keep2) > len(keep) {
			st.Class("raise-keeps-more")
		}
	})
}

func stampsC22(list []*Snapshot) []time.Time {
	s := make([]time.Time, len(list))
	for i, sn := range list {
		s[i] = sn.Time
	}
	return s
}

// TestVerifC22HugeDurations: the monotonicity sentence of the statement for hour counts
// beyond the int64-nanosecond range (2 562 048 h = 292 years): `--keep-within 3000000h`
// is accepted by the command line. Regression probe of the repaired finding
// C22:within-hours-overflow (2562047h kept everything, 2562048h nothing).
func TestVerifC22HugeDurations(t *testing.T) {
	st := verifkit.Begin(t, "C22")
	{ // the exact shape of the finding
		var list []*Snapshot
		for i, s := range []string{"2025-01-01T00:00:00Z", "2024-01-01T00:00:00Z", "2020-01-01T00:00:00Z"} {
			ts, _ := time.Parse(time.RFC3339, s)
			id := restic.Hash([]byte(fmt.Sprintf("c22p-%d", i)))
			list = append(list, &Snapshot{Time: ts, id: &id})
		}
		for _, h := range []int{2000000, 2562047, 2562048, 3000000, 5124096, 1 << 40} {
			for which := 0; which < 6; which++ {
				d := Duration{Hours: h}
				p := [...]ExpirePolicy{{Within: d}, {WithinHourly: d}, {WithinDaily: d}, {WithinWeekly: d}, {WithinMonthly: d}, {WithinYearly: d}}[which]
				if keep, _, _ := applyC22(list, p); len(keep) != 3 {
					t.Fatalf("%+v keeps %d of 3 snapshots that are at most 5 years old", p, len(keep))
				}
			}
		}
	}
	const nsLimitHours = (1<<63 - 1) / int64(time.Hour) // 2562047
	rapid.Check(t, func(t *rapid.T) {
		n := rapid.IntRange(1, 6).Draw(t, "n")
		var list []*Snapshot
		for i := 0; i < n; i++ {
			id := restic.Hash([]byte(fmt.Sprintf("c22h-%d", i)))
			ts := time.Date(rapid.IntRange(1990, 2025).Draw(t, "y"), time.Month(rapid.IntRange(1, 12).Draw(t, "m")), rapid.IntRange(1, 28).Draw(t, "d"), rapid.IntRange(0, 23).Draw(t, "h"), 0, 0, 0, time.UTC)
			list = append(list, &Snapshot{Time: ts, id: &id})
		}
		gen := rapid.OneOf(rapid.IntRange(1, 400000), rapid.IntRange(2562040, 2562056), rapid.IntRange(2000000, 8000000), rapid.IntRange(5124090, 5124100))
		h1 := gen.Draw(t, "h1")
		h2 := gen.Draw(t, "h2")
		if h1 > h2 {
			h1, h2 = h2, h1
		}
		which := rapid.IntRange(0, 5).Draw(t, "which")
		mk := func(h int) ExpirePolicy {
			d := Duration{Hours: h}
			return [...]ExpirePolicy{{Within: d}, {WithinHourly: d}, {WithinDaily: d}, {WithinWeekly: d}, {WithinMonthly: d}, {WithinYearly: d}}[which]
		}
		over := int64(h2) > nsLimitHours
		cls := "hours-within-ns-range"
		if over {
			cls = "hours-beyond-ns-range"
		}
		st.Case(fmt.Sprintf("%d|%d|%d|%v", which, h1, h2, describeC22(list)), cls)
		k1, _, _ := applyC22(list, mk(h1))
		k2, _, _ := applyC22(list, mk(h2))
		in2 := map[*Snapshot]bool{}
		for _, sn := range k2 {
			in2[sn] = true
		}
		for _, sn := range k1 {
			if !in2[sn] {
				t.Fatalf("raising the duration from %dh to %dh removed the snapshot of %s (kept before)\npolicy %+v\n%s",
					h1, h2, sn.Time.Format(time.RFC3339), mk(h2), describeC22(list))
			}
		}
	})
}
