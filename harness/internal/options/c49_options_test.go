package options

// Property C49 (extended options): `-o key=value` lists are either rejected or end up
// as exactly the denoted values in the backend configuration struct; nothing panics.
//
// Reference, from the doc comments of Parse/Extract/Apply and doc/manual (options are
// key=value, keys are case-insensitive, namespaces separated by dots): the option list
// is a map from lower-cased, trimmed key to trimmed value (split at the first '=');
// an empty key is an error, a key given twice with different values is an error;
// Extract(ns) keeps the keys below "ns."; Apply converts by field type: string verbatim,
// int/uint as Go integer literals (base prefix, underscores) within 32 bits, bool per
// strconv.ParseBool's documented table, Duration as a Go duration string.

import (
	"fmt"
	"math/big"
	"sort"
	"strings"
	"testing"
	"time"

	"github.com/restic/restic/internal/verifkit"
	"pgregory.net/rapid"
)

type cfgC49 struct {
	Name     string        `option:"name" help:"a string"`
	Count    int           `option:"count" help:"an int"`
	Conns    uint          `option:"connections" help:"a uint"`
	Flag     bool          `option:"flag" help:"a bool"`
	Timeout  time.Duration `option:"timeout" help:"a duration"`
	Untagged string
}

// refGoIntC49 parses a Go integer literal with optional sign (the syntax
// strconv.ParseInt documents for base 0). Returns ok, hasSign, value.
func refGoIntC49(s string) (bool, bool, *big.Int) {
	neg, signed := false, false
	if s != "" && (s[0] == '+' || s[0] == '-') {
		neg = s[0] == '-'
		signed = true
		s = s[1:]
	}
	base := 10
	digits := s
	prefixed := false
	if len(s) >= 2 && s[0] == '0' {
		switch s[1] {
		case 'b', 'B':
			base, digits, prefixed = 2, s[2:], true
		case 'o', 'O':
			base, digits, prefixed = 8, s[2:], true
		case 'x', 'X':
			base, digits, prefixed = 16, s[2:], true
		default:
			base, digits, prefixed = 8, s[1:], true // legacy octal "0" [ "_" ] octal_digits
		}
	}
	// digits: digit { [ "_" ] digit }, with an optional "_" directly after a prefix
	if prefixed && strings.HasPrefix(digits, "_") {
		digits = digits[1:]
	}
	if digits == "" {
		return false, signed, nil
	}
	val := new(big.Int)
	prevUnderscore := true // an underscore may not come first here
	for i := 0; i < len(digits); i++ {
		c := digits[i]
		if c == '_' {
			if prevUnderscore || i == len(digits)-1 {
				return false, signed, nil
			}
			prevUnderscore = true
			continue
		}
		prevUnderscore = false
		var d int
		switch {
		case c >= '0' && c <= '9':
			d = int(c - '0')
		case c >= 'a' && c <= 'f':
			d = int(c-'a') + 10
		case c >= 'A' && c <= 'F':
			d = int(c-'A') + 10
		default:
			return false, signed, nil
		}
		if d >= base {
			return false, signed, nil
		}
		val.Mul(val, big.NewInt(int64(base)))
		val.Add(val, big.NewInt(int64(d)))
	}
	if neg {
		val.Neg(val)
	}
	return true, signed, val
}

var boolsC49 = map[string]bool{"1": true, "t": true, "T": true, "TRUE": true, "true": true, "True": true,
	"0": false, "f": false, "F": false, "FALSE": false, "false": false, "False": false}

// refDurationC49: [sign] ( DIGITS [ "." DIGITS ] UNIT )+  or "0"; returns ok and the
// exact value in ns as a rational.
func refDurationC49(s string) (bool, *big.Rat) {
	orig := s
	neg := false
	if s != "" && (s[0] == '+' || s[0] == '-') {
		neg = s[0] == '-'
		s = s[1:]
	}
	if s == "0" {
		return true, new(big.Rat)
	}
	if s == "" {
		return false, nil
	}
	_ = orig
	units := []struct {
		name string
		ns   int64
	}{{"ns", 1}, {"us", 1e3}, {"µs", 1e3}, {"μs", 1e3}, {"ms", 1e6}, {"s", 1e9}, {"m", 60e9}, {"h", 3600e9}}
	total := new(big.Rat)
	for s != "" {
		i := 0
		for i < len(s) && s[i] >= '0' && s[i] <= '9' {
			i++
		}
		intPart := s[:i]
		s = s[i:]
		frac := ""
		hasDot := false
		if s != "" && s[0] == '.' {
			hasDot = true
			s = s[1:]
			j := 0
			for j < len(s) && s[j] >= '0' && s[j] <= '9' {
				j++
			}
			frac = s[:j]
			s = s[j:]
		}
		if intPart == "" && frac == "" {
			return false, nil
		}
		_ = hasDot
		num := new(big.Rat)
		if intPart != "" {
			n, _ := new(big.Int).SetString(intPart, 10)
			num.SetInt(n)
		}
		if frac != "" {
			f, _ := new(big.Int).SetString(frac, 10)
			den := new(big.Int).Exp(big.NewInt(10), big.NewInt(int64(len(frac))), nil)
			num.Add(num, new(big.Rat).SetFrac(f, den))
		}
		// unit: longest run up to the next digit or '.'
		k := 0
		for k < len(s) && s[k] != '.' && (s[k] < '0' || s[k] > '9') {
			k++
		}
		uname := s[:k]
		s = s[k:]
		var ns int64
		for _, u := range units {
			if u.name == uname {
				ns = u.ns
			}
		}
		if ns == 0 {
			return false, nil
		}
		total.Add(total, num.Mul(num, new(big.Rat).SetInt64(ns)))
	}
	if neg {
		total.Neg(total)
	}
	return true, total
}

type fieldExpectC49 struct {
	reject    bool // must be rejected
	mayReject bool // rejection tolerated (e.g. "+5" for an unsigned field)
	check     func(c cfgC49) string
}

func expectFieldC49(key, value string) fieldExpectC49 {
	two31 := new(big.Int).Lsh(big.NewInt(1), 31)
	two32 := new(big.Int).Lsh(big.NewInt(1), 32)
	switch key {
	case "name":
		return fieldExpectC49{check: func(c cfgC49) string {
			if c.Name != value {
				return fmt.Sprintf("name = %q, want %q", c.Name, value)
			}
			return ""
		}}
	case "count":
		ok, _, v := refGoIntC49(value)
		if !ok || v.Cmp(two31) >= 0 || v.Cmp(new(big.Int).Neg(two31)) < 0 {
			return fieldExpectC49{reject: true}
		}
		return fieldExpectC49{check: func(c cfgC49) string {
			if big.NewInt(int64(c.Count)).Cmp(v) != 0 {
				return fmt.Sprintf("count = %d, want %v", c.Count, v)
			}
			return ""
		}}
	case "connections":
		ok, signed, v := refGoIntC49(value)
		if !ok || v.Sign() < 0 || v.Cmp(two32) >= 0 || (signed && value[0] == '-') {
			return fieldExpectC49{reject: true}
		}
		return fieldExpectC49{mayReject: signed, check: func(c cfgC49) string {
			if new(big.Int).SetUint64(uint64(c.Conns)).Cmp(v) != 0 {
				return fmt.Sprintf("connections = %d, want %v", c.Conns, v)
			}
			return ""
		}}
	case "flag":
		b, ok := boolsC49[value]
		if !ok {
			return fieldExpectC49{reject: true}
		}
		return fieldExpectC49{check: func(c cfgC49) string {
			if c.Flag != b {
				return fmt.Sprintf("flag = %v, want %v", c.Flag, b)
			}
			return ""
		}}
	case "timeout":
		ok, v := refDurationC49(value)
		if !ok {
			return fieldExpectC49{reject: true}
		}
		lim := new(big.Rat).SetInt(new(big.Int).Lsh(big.NewInt(1), 63))
		if v.Cmp(lim) > 0 || v.Cmp(new(big.Rat).Neg(lim)) < 0 {
			return fieldExpectC49{reject: true}
		}
		edge := new(big.Rat).Sub(lim, new(big.Rat).Abs(v)).Cmp(big.NewRat(2, 1)) <= 0
		return fieldExpectC49{mayReject: edge, check: func(c cfgC49) string {
			// fractions are converted through float64 by the standard library: 1 ns slack
			diff := new(big.Rat).Sub(new(big.Rat).SetInt64(int64(c.Timeout)), v)
			if diff.Abs(diff).Cmp(big.NewRat(1, 1)) > 0 || (v.IsInt() && diff.Sign() != 0 && !strings.Contains(value, ".")) {
				return fmt.Sprintf("timeout = %d ns, want %v ns", int64(c.Timeout), v.FloatString(3))
			}
			return ""
		}}
	}
	return fieldExpectC49{reject: true} // unknown option
}

// ---- generators ----

func genIntLitC49(t *rapid.T) string {
	sign := rapid.SampledFrom([]string{"", "", "", "-", "+", "--", " "}).Draw(t, "sign")
	var n *big.Int
	switch rapid.IntRange(0, 5).Draw(t, "mag") {
	case 0, 1:
		n = big.NewInt(int64(rapid.IntRange(0, 300).Draw(t, "small")))
	case 2, 3, 4:
		k := rapid.SampledFrom([]uint{7, 8, 15, 16, 31, 32, 33, 63, 64, 65, 128}).Draw(t, "pow")
		n = new(big.Int).Lsh(big.NewInt(1), k)
		n.Add(n, big.NewInt(int64(rapid.IntRange(-2, 2).Draw(t, "delta"))))
	default:
		n, _ = new(big.Int).SetString(rapid.StringMatching(`[1-9][0-9]{0,30}`).Draw(t, "digits"), 10)
	}
	var body string
	switch rapid.IntRange(0, 9).Draw(t, "base") {
	case 0:
		body = rapid.SampledFrom([]string{"0x", "0X"}).Draw(t, "px") + n.Text(16)
	case 1:
		body = rapid.SampledFrom([]string{"0b", "0B"}).Draw(t, "pb") + n.Text(2)
	case 2:
		body = rapid.SampledFrom([]string{"0o", "0O", "0"}).Draw(t, "po") + n.Text(8)
	case 3:
		body = "0" + n.Text(10) // looks decimal, is octal or invalid
	case 4:
		// underscores, well and badly placed
		d := n.Text(10)
		at := rapid.IntRange(0, len(d)).Draw(t, "usAt")
		body = d[:at] + rapid.SampledFrom([]string{"_", "_", "__"}).Draw(t, "us") + d[at:]
		if rapid.Bool().Draw(t, "hexus") {
			body = "0x" + body
		}
	case 5:
		body = rapid.SampledFrom([]string{"", "0x", "0b", "0o", "_", "0_", "1e3", "1.0", "٣", "１", "0xg", "0b2", "0o8", "08", "1 0", "true"}).Draw(t, "junk")
	default:
		body = n.Text(10)
	}
	return sign + body
}

func genDurationC49(t *rapid.T) string {
	if rapid.IntRange(0, 5).Draw(t, "junk") == 0 {
		return rapid.SampledFrom([]string{"", "1", "0", "-0", "+0", "1d", "1y", "s", ".s", "1..5s", "1 s", "1S", "1h ", "٣s", "1e3s", "0x1s", "9223372036854775807ns",
			"9223372036854775808ns", "-9223372036854775808ns", "2562047h47m16.854775807s", "2562047h47m16.854775808s", "2562048h", "99999999999999999999h", "1h-1m", ".5h", "5.h"}).Draw(t, "junkStr")
	}
	sign := rapid.SampledFrom([]string{"", "", "", "-", "+"}).Draw(t, "sign")
	var b strings.Builder
	b.WriteString(sign)
	for i := rapid.IntRange(1, 3).Draw(t, "terms"); i > 0; i-- {
		b.WriteString(fmt.Sprint(rapid.IntRange(0, 100000).Draw(t, "n")))
		unit := rapid.SampledFrom([]string{"ns", "us", "µs", "μs", "ms", "s", "m", "h"}).Draw(t, "unit")
		if unit != "ns" && rapid.IntRange(0, 3).Draw(t, "frac") == 0 {
			b.WriteString(rapid.SampledFrom([]string{".5", ".25", ".125", ".0", ".50"}).Draw(t, "fracStr"))
		}
		b.WriteString(unit)
	}
	return b.String()
}

func genValueC49(t *rapid.T, field string) string {
	pad := func(s string) string {
		return rapid.SampledFrom([]string{"", "", " ", "\t"}).Draw(t, "padL") + s + rapid.SampledFrom([]string{"", "", " ", " "}).Draw(t, "padR")
	}
	if rapid.IntRange(0, 19).Draw(t, "cross") == 0 {
		// a value of another field's type
		field = rapid.SampledFrom([]string{"name", "count", "connections", "flag", "timeout"}).Draw(t, "crossField")
	}
	switch field {
	case "count", "connections":
		return pad(genIntLitC49(t))
	case "flag":
		return pad(rapid.SampledFrom([]string{"1", "t", "T", "TRUE", "true", "True", "0", "f", "F", "FALSE", "false", "False", "yes", "no", "on", "tRUE", "", "2", "-1"}).Draw(t, "bool"))
	case "timeout":
		return pad(genDurationC49(t))
	default:
		return pad(rapid.SampledFrom([]string{"", "x", "a=b", "a = b", "ssh -p 22 host", "=", "ÄÖ", "\"q\"", "A"}).Draw(t, "str"))
	}
}

func TestVerifC49Options(t *testing.T) {
	st := verifkit.Begin(t, "C49")
	fields := []string{"name", "count", "connections", "flag", "timeout"}
	rapid.Check(t, func(t *rapid.T) {
		n := rapid.SampledFrom([]int{0, 1, 1, 2, 2, 2, 3, 3, 4, 5}).Draw(t, "nopts")
		var in []string
		type kv struct{ k, v string }
		var denoted []kv // what each argument denotes (before duplicate handling)
		emptyKey := false
		for i := 0; i < n; i++ {
			field := rapid.SampledFrom(fields).Draw(t, "field")
			ns := "ns."
			rawKey := ""
			switch rapid.SampledFrom([]int{0, 1, 2, 3, 4, 4, 5, 5, 6, 7, 7, 7, 7, 7, 7, 7, 7, 7, 7, 7, 7, 7, 7, 7, 7, 7, 7, 7, 7, 7, 7, 7, 7, 7, 7, 7, 7, 7, 7, 7}).Draw(t, "keyKind") {
			case 0:
				rawKey = "other." + field // foreign namespace: ignored by Extract
			case 1:
				rawKey = ns + "unknown"
			case 2:
				rawKey = rapid.SampledFrom([]string{"", " ", "\t"}).Draw(t, "emptyKey")
			case 3:
				rawKey = "ns" + field // not below the namespace
			case 4:
				rawKey = strings.ToUpper(ns + field)
			case 5:
				rawKey = " Ns." + strings.Title(field) + " "
			case 6:
				rawKey = rapid.SampledFrom([]string{"ns.", "ns", "ns..name", ".ns.name", "ns.name.x"}).Draw(t, "oddKey")
			default:
				rawKey = ns + field
			}
			value := genValueC49(t, field)
			arg := rawKey + "=" + value
			if rapid.IntRange(0, 29).Draw(t, "noEq") == 0 {
				arg = rawKey // no '=': empty value
				value = ""
			}
			in = append(in, arg)
			k := strings.ToLower(strings.TrimSpace(rawKey))
			// the key ends at the first '='
			if strings.Contains(k, "=") {
				t.Fatalf("harness: key with '='")
			}
			if k == "" {
				emptyKey = true
			}
			denoted = append(denoted, kv{k, strings.TrimSpace(value)})
		}
		if n > 1 && rapid.SampledFrom([]int{0, 1, 1, 1, 1, 1, 1, 1, 1, 1}).Draw(t, "dup") == 0 {
			// repeat one argument, with the same or another value
			j := rapid.IntRange(0, n-1).Draw(t, "dupOf")
			d := denoted[j]
			v := d.v
			if rapid.Bool().Draw(t, "dupOther") {
				v = genValueC49(t, strings.TrimPrefix(d.k, "ns."))
			}
			in = append(in, d.k+"="+v)
			denoted = append(denoted, kv{d.k, strings.TrimSpace(v)})
		}

		// reference for Parse
		want := map[string]string{}
		conflict := false
		for _, d := range denoted {
			if old, ok := want[d.k]; ok && old != d.v {
				conflict = true
			}
			want[d.k] = d.v
		}
		opts, err := Parse(in)
		classes := []string{}
		if emptyKey || conflict {
			if err == nil {
				t.Fatalf("Parse(%q) accepted (emptyKey=%v conflict=%v): %v", in, emptyKey, conflict, opts)
			}
			if emptyKey {
				classes = append(classes, "opts:reject-empty-key")
			} else {
				classes = append(classes, "opts:reject-conflict")
			}
			st.Case("", classes...)
			return
		}
		if err != nil {
			t.Fatalf("Parse(%q) rejected a consistent option list: %v", in, err)
		}
		if len(opts) != len(want) {
			t.Fatalf("Parse(%q) = %v, want %v", in, opts, want)
		}
		for k, v := range want {
			if got, ok := opts[k]; !ok || got != v {
				t.Fatalf("Parse(%q)[%q] = %q (present %v), want %q", in, k, got, ok, v)
			}
		}

		// reference for Extract
		ex := opts.Extract(rapid.SampledFrom([]string{"ns", "ns."}).Draw(t, "nsArg"))
		wantEx := map[string]string{}
		for k, v := range want {
			if strings.HasPrefix(k, "ns.") {
				wantEx[k[3:]] = v
			}
		}
		if len(ex) != len(wantEx) {
			t.Fatalf("Extract(ns) of %v = %v, want %v", opts, ex, wantEx)
		}
		for k, v := range wantEx {
			if ex[k] != v {
				t.Fatalf("Extract(ns) of %v = %v, want %v", opts, ex, wantEx)
			}
		}

		// reference for Apply
		keys := make([]string, 0, len(wantEx))
		for k := range wantEx {
			keys = append(keys, k)
		}
		sort.Strings(keys)
		mustReject, mayReject := false, false
		var checks []func(cfgC49) string
		nontrivial := false
		for _, k := range keys {
			e := expectFieldC49(k, wantEx[k])
			if e.reject {
				mustReject = true
				if k == "count" || k == "connections" || k == "timeout" {
					if ok, _, _ := refGoIntC49(wantEx[k]); ok {
						nontrivial = true // well-formed number, rejected for range
					}
				}
			}
			mayReject = mayReject || e.mayReject
			if e.check != nil {
				checks = append(checks, e.check)
			}
		}
		var cfg cfgC49
		cfg.Untagged = "keep"
		aerr := ex.Apply("ns", &cfg)
		switch {
		case mustReject:
			classes = append(classes, "opts:apply-reject")
			if aerr == nil {
				t.Fatalf("Apply(%v) accepted an invalid option: %+v", ex, cfg)
			}
		case aerr != nil:
			if !mayReject {
				t.Fatalf("Apply(%v) rejected valid options: %v", ex, aerr)
			}
			classes = append(classes, "opts:apply-reject-tolerated")
		default:
			classes = append(classes, "opts:apply-accept")
			for _, c := range checks {
				if msg := c(cfg); msg != "" {
					t.Fatalf("Apply(%v): %s (cfg %+v)", ex, msg, cfg)
				}
			}
			if cfg.Untagged != "keep" {
				t.Fatalf("Apply(%v) touched an untagged field", ex)
			}
			// fields without an option keep their zero value
			zero := cfgC49{Untagged: "keep"}
			probe := cfg
			for _, k := range keys {
				switch k {
				case "name":
					probe.Name = ""
				case "count":
					probe.Count = 0
				case "connections":
					probe.Conns = 0
				case "flag":
					probe.Flag = false
				case "timeout":
					probe.Timeout = 0
				}
			}
			if probe != zero {
				t.Fatalf("Apply(%v) changed a field that has no option: %+v", ex, cfg)
			}
			if len(keys) > 0 {
				nontrivial = true
			}
		}
		classes = append(classes, fmt.Sprintf("opts:applied-keys=%d", min(len(keys), 3)))
		key := ""
		if nontrivial {
			key = "opts|" + strings.Join(in, "\x01")
		}
		st.Case(key, classes...)
		if st.WantSample() {
			st.Sample(map[string]any{"in": in, "cfg": fmt.Sprintf("%+v", cfg), "err": fmt.Sprint(aerr)})
		}
	})
}
