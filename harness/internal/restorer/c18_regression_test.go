package restorer

import (
	"fmt"
	"os"
	"path/filepath"
	"strings"
	"testing"

	"github.com/restic/restic/internal/verifkit"
)

// Fixed shapes, each run under every combination of delete x overwrite x error mode:
//   - the duplicate-name escape repaired in /repo (fix 71f1e2827) and its variants,
//   - one representative per adversarial name class in front of a symlink node,
//   - the minimal cases of the two findings of this check (recognised through
//     known_findings.json when listed there, violations otherwise).
func TestVerifC18Regression(t *testing.T) {
	st := verifkit.Begin(t, "C18")
	base, err := os.MkdirTemp("", "verif-c18r-")
	if err != nil {
		t.Fatal(err)
	}
	defer func() { _ = os.RemoveAll(base) }()

	dir := func(name string, sub ...*vNodeC18) *vNodeC18 {
		return &vNodeC18{Name: name, Type: "dir", Mode: os.ModeDir | 0o777, SubKind: "real", Sub: sub}
	}
	sym := func(name, to string) *vNodeC18 {
		return &vNodeC18{Name: name, Type: "symlink", Mode: os.ModeSymlink | 0o777, LinkTarget: to}
	}
	file := func(name string, inode, links uint64) *vNodeC18 {
		return &vNodeC18{Name: name, Type: "file", Mode: os.ModeSetuid | 0o777, Parts: []string{"AAAA"}, Inode: inode, Links: links}
	}
	fifo := func(name string) *vNodeC18 {
		return &vNodeC18{Name: name, Type: "fifo", Mode: os.ModeNamedPipe | 0o666}
	}
	shapes := []struct {
		name string
		tree []*vNodeC18
		pre  []vPreC18
		opts vOptsC18
	}{
		{name: "dup-symlink-then-dir", tree: []*vNodeC18{sym("x", "../outside"), dir("x", sym("y", "/nonexistent"), file("a", 101, 1))}},
		{name: "dup-symlink-then-dir-deep", tree: []*vNodeC18{dir("d", sym("x", "../../outside/b"), dir("x", fifo("a"), file("y", 101, 1)))}},
		{name: "dup-symlink-then-file", tree: []*vNodeC18{sym("x", "../outside/victim"), file("x", 101, 1)}},
		{name: "dup-symlink-then-fifo", tree: []*vNodeC18{sym("x", "../outside/victim"), fifo("x")}},
		{name: "dup-dir-then-symlink-then-dir", tree: []*vNodeC18{dir("x"), sym("x", "../outside"), dir("x", fifo("a"), sym("c", "zz"))}},
		{name: "dup-three-symlinks", tree: []*vNodeC18{sym("x", "../outside"), sym("x", "../outside/b"), dir("x", fifo("a"))}},
		{name: "sep-after-symlink", tree: []*vNodeC18{sym("x", "../outside"), fifo("x/a"), sym("x/y", "zz"), file("x/c", 101, 1)}},
		{name: "sep-deep-after-presym", tree: []*vNodeC18{file("a/b/zz", 101, 1), fifo("a/b/a")},
			pre: []vPreC18{{Path: "a", Kind: "symlink", Arg: "../outside", Outside: true}}},
		{name: "dotdot", tree: []*vNodeC18{dir("..", file("marker", 101, 1), dir("outside", file("victim", 102, 1))), file("../marker", 103, 1), fifo("../outside/a"), dir("../outside/b")}},
		{name: "dot-and-empty", tree: []*vNodeC18{dir(".", fifo("a")), dir("", fifo("a")), file("/", 101, 1), dir("a/..", fifo("b"))}},
		{name: "presym-dir-plain", tree: []*vNodeC18{dir("a", dir("b", file("a", 101, 1), fifo("y"), sym("c", "zz")))},
			pre: []vPreC18{{Path: "a", Kind: "symlink", Arg: "../outside", Outside: true, AtDir: true}}},
		{name: "presym-leaf-plain", tree: []*vNodeC18{file("a", 101, 1), fifo("b"), sym("c", "zz"), dir("x")},
			pre: []vPreC18{{Path: "a", Kind: "symlink", Arg: "../outside/victim", Outside: true, AtNode: true},
				{Path: "b", Kind: "symlink", Arg: "../outside/victim", Outside: true, AtNode: true},
				{Path: "c", Kind: "symlink", Arg: "../outside/b", Outside: true, AtNode: true},
				{Path: "x", Kind: "symlink", Arg: "../outside/x", Outside: true, AtNode: true}}},
		{name: "finding-A-include-deep", tree: []*vNodeC18{dir("a", dir("b", file("f", 101, 1)))},
			pre:  []vPreC18{{Path: "a", Kind: "symlink", Arg: "../outside", Outside: true, AtDir: true}},
			opts: vOptsC18{Filter: "include", Patterns: []string{"/a/b/f"}}},
		{name: "finding-A2-selected-dir-below-symlink", tree: []*vNodeC18{dir("a", dir("b"))},
			pre:  []vPreC18{{Path: "a", Kind: "symlink", Arg: "../outside/x", Outside: true, AtDir: true}},
			opts: vOptsC18{Filter: "include", Patterns: []string{"/a/b"}}},
		{name: "finding-A3-leavedir-chmod-through-symlink", tree: []*vNodeC18{dir("a", dir("b"))},
			pre:  []vPreC18{{Path: "a", Kind: "symlink", Arg: "../outside/victim", Outside: true, AtDir: true}},
			opts: vOptsC18{Filter: "include", Patterns: []string{"/a/b"}}},
		{name: "finding-B-hardlink-chmod", tree: []*vNodeC18{file("a", 1, 2), file("b", 1, 2)},
			pre: []vPreC18{{Path: "a", Kind: "symlink", Arg: "../outside/victim", Outside: true, AtNode: true, MTimeOff: 3}}},
	}

	var env *envC18
	if verifkit.ReplayFile() != "" { // replay of one saved case
		c := &vCaseC18{}
		if err := verifkit.LoadReplay(c); err != nil {
			t.Fatal(err)
		}
		r, err := runCaseC18(t, base, &env, c)
		if err != nil {
			t.Fatal(err)
		}
		if len(r.diffs) > 0 {
			t.Fatalf("replay: restore touched %d path(s) outside the target (err=%v):\n  %s", len(r.diffs), r.err, strings.Join(r.diffs, "\n  "))
		}
		return
	}
	for i, sh := range shapes {
		if i%verifkit.Shards() != verifkit.Shard() {
			continue // the shapes are partitioned over the shards
		}
		for del := 0; del < 2; del++ {
			for ow := 0; ow < 4; ow++ {
				for cont := 0; cont < 2; cont++ {
					c := &vCaseC18{Tree: sh.tree, Pre: sh.pre, Opts: sh.opts, RepoVersion: 1}
					if c.Opts.Filter == "" {
						c.Opts.Filter = "none"
					}
					c.Opts.Delete, c.Opts.Overwrite, c.Opts.Continue = del == 1, ow, cont == 1
					r, err := runCaseC18(t, base, &env, c)
					if err != nil {
						t.Fatalf("%s: harness error: %v", sh.name, err)
					}
					st.Case(fmt.Sprintf("regression|%s|%d|%d|%d", sh.name, del, ow, cont), "regression-shape="+strings.SplitN(sh.name, "-", 2)[0])
					if len(r.diffs) == 0 {
						continue
					}
					if k := knownShapeC18(c); k != "" && st.Known(k) {
						continue
					}
					verifkit.SaveReplay("C18", "regression-"+sh.name, c)
					t.Fatalf("%s (delete=%v overwrite=%d continue=%v): restore touched %d path(s) outside the target (err=%v):\n  %s\ncase: %s",
						sh.name, c.Opts.Delete, ow, c.Opts.Continue, len(r.diffs), r.err, strings.Join(r.diffs, "\n  "), describeC18(c))
				}
			}
		}
	}
	// nothing may be left behind above the case directory either
	if ents, _ := os.ReadDir(base); len(ents) > 1 {
		t.Fatalf("unexpected entries in %s: %v", filepath.Base(base), ents)
	}
}
