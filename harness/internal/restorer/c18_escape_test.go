package restorer

// Property C18: restore never touches anything outside the target directory.
//
// Adversarial trees are written as raw JSON tree blobs into a test repository
// (names "..", ".", "", "a/b", "/abs", duplicates, symlink nodes pointing outside, nil and
// broken subtrees, special files), the target directory is pre-populated with symlinks to the
// outside at directory and leaf positions, files, directories and hard links to outside files,
// and RestoreTo runs with drawn options. Oracle: the complete state of everything below the
// per-process base directory except the target subtree is identical before and after.
//
// SAFETY (the sandbox user is root): the per-case root is 12 directory levels below a fresh
// temp directory; the number of ".." components along any root-to-leaf path of a generated tree
// is bounded by 4 in total; symlink targets only point inside the per-case root (relative ones
// use at most 4 ".." components); the state oracle covers the whole base directory.

import (
	"bytes"
	"context"
	"crypto/sha256"
	"encoding/hex"
	"encoding/json"
	"fmt"
	"io/fs"
	"os"
	"path/filepath"
	"sort"
	"strings"
	"syscall"
	"testing"
	"time"

	"github.com/pkg/xattr"
	"github.com/restic/restic/internal/data"
	"github.com/restic/restic/internal/filter"
	"github.com/restic/restic/internal/repository"
	"github.com/restic/restic/internal/restic"
	"github.com/restic/restic/internal/verifkit"
	"golang.org/x/sys/unix"
	"pgregory.net/rapid"
)

const (
	nestLevelsC18 = 12
	maxUpsC18     = 4
	maxDepthC18   = 3
)

var baseTimeC18 = time.Date(2020, 3, 4, 5, 6, 7, 0, time.UTC)

// ---------------------------------------------------------------- tree model

type vNodeC18 struct {
	Name       string      `json:"name"`
	NameKind   string      `json:"name_kind"`
	Type       string      `json:"type"`
	Mode       os.FileMode `json:"mode"`
	LinkTarget string      `json:"linktarget,omitempty"`
	Parts      []string    `json:"parts,omitempty"` // file content, one string per blob
	Missing    bool        `json:"missing_blob,omitempty"`
	Inode      uint64      `json:"inode,omitempty"`
	Links      uint64      `json:"links,omitempty"`
	SubKind    string      `json:"subkind,omitempty"` // real|nil|missing|garbage|datablob
	Sub        []*vNodeC18 `json:"sub,omitempty"`
	UID        uint32      `json:"uid,omitempty"`
	MTimeOff   int         `json:"mtime_off,omitempty"`
	Xattr      bool        `json:"xattr,omitempty"`
}

type vPreC18 struct {
	Path     string `json:"path"` // relative to the target, clean, slash separated
	Kind     string `json:"kind"` // dir|file|symlink|hardlink
	Arg      string `json:"arg,omitempty"`
	Content  string `json:"content,omitempty"`
	MTimeOff int    `json:"mtime_off,omitempty"`
	AtDir    bool   `json:"at_dir,omitempty"`  // a directory node of the tree lives at this path
	AtNode   bool   `json:"at_node,omitempty"` // some node of the tree lives at this path
	Outside  bool   `json:"outside,omitempty"` // symlink resolves outside the target
}

type vOptsC18 struct {
	Delete    bool     `json:"delete"`
	Overwrite int      `json:"overwrite"`
	Sparse    bool     `json:"sparse"`
	DryRun    bool     `json:"dryrun"`
	Continue  bool     `json:"continue_on_error"`
	Filter    string   `json:"filter"` // none|include|exclude
	Patterns  []string `json:"patterns,omitempty"`
}

type vCaseC18 struct {
	Tree []*vNodeC18 `json:"tree"`
	Pre  []vPreC18   `json:"pre"`
	Opts vOptsC18    `json:"opts"`

	RepoVersion uint `json:"repo_version"`
}

var alphaC18 = []string{"a", "b", "c", "x", "y"}

func countUpsC18(name string) int {
	n := 0
	for _, c := range strings.Split(name, "/") {
		if c == ".." {
			n++
		}
	}
	return n
}

// genNameC18 draws a node name. depth is the number of ancestors, upsLeft the remaining
// budget of ".." components on this path.
func genNameC18(t *rapid.T, depth, upsLeft int, siblings []*vNodeC18) (string, string) {
	k := rapid.IntRange(0, 99).Draw(t, "namekind")
	a := func() string { return rapid.SampledFrom(alphaC18).Draw(t, "alpha") }
	sib := func() string {
		if len(siblings) > 0 && rapid.IntRange(0, 3).Draw(t, "usesib") > 0 {
			s := siblings[rapid.IntRange(0, len(siblings)-1).Draw(t, "sib")]
			if cleanCompC18(s.Name) {
				return s.Name
			}
		}
		return a()
	}
	switch {
	case k < 70:
		return a(), "plain"
	case k < 75 && len(siblings) > 0: // exact duplicate of an earlier sibling
		return siblings[rapid.IntRange(0, len(siblings)-1).Draw(t, "dupof")].Name, "dup"
	case k < 81: // separator inside, first component collides with a sibling
		return sib() + "/" + a(), "sep"
	case k < 85:
		ups := rapid.IntRange(1, 4).Draw(t, "ups")
		if ups > upsLeft {
			return a(), "plain"
		}
		tail := rapid.SampledFrom([]string{"", "x", "outside", "outside/a", "outside/victim", "outside/b/a", "outside/sub", "outside/sub/a"}).Draw(t, "tail")
		if tail == "" {
			return strings.TrimSuffix(strings.Repeat("../", ups), "/"), "dotdot"
		}
		return strings.Repeat("../", ups) + tail, "dotdot"
	case k < 88: // exactly up to the case root, then into the outside area
		ups := depth + 1
		if ups > upsLeft {
			return a(), "plain"
		}
		tail := rapid.SampledFrom([]string{"outside", "outside/a", "outside/victim", "outside/b", "outside/b/a", "outside/x/a", "outside/sub/a", "marker"}).Draw(t, "tail2")
		return strings.Repeat("../", ups) + tail, "dotdot"
	case k < 90:
		if upsLeft < 1 {
			return a(), "plain"
		}
		return rapid.SampledFrom([]string{"a/../../outside/a", "a/../..", "./..", "../", "x/../../outside/victim", "..//outside"}).Draw(t, "mixed"), "dotdot"
	case k < 96:
		return rapid.SampledFrom([]string{".", "", "/", "./a", "a/.", "a/", "/a", "/abs", "a//b", "//", "./", "a/./b", "/outside/a", "/tmp/verif-c18-never"}).Draw(t, "odd"), "odd"
	default:
		return rapid.SampledFrom([]string{"...", "..a", " ", "\\", "a\\b", "..\\x", "a\x00b", "\xff\xfe", "a\nb", strings.Repeat("n", 300), "~", "-rf", "*"}).Draw(t, "weird"), "weird"
	}
}

func cleanCompC18(name string) bool {
	return name != "" && name != "." && name != ".." && !strings.ContainsAny(name, "/\x00") && len(name) < 200
}

func genTreeC18(t *rapid.T, depth, upsLeft int, inodes *int) []*vNodeC18 {
	maxn := 6
	if depth > 0 {
		maxn = 4
	}
	n := rapid.IntRange(0, maxn).Draw(t, "nnodes")
	if depth == 0 && n == 0 {
		n = 1
	}
	var nodes []*vNodeC18
	for i := 0; i < n; i++ {
		nd := &vNodeC18{}
		nd.Name, nd.NameKind = genNameC18(t, depth, upsLeft, nodes)
		nd.MTimeOff = rapid.IntRange(-2, 2).Draw(t, "mtimeoff")
		nd.UID = rapid.SampledFrom([]uint32{0, 0, 1234}).Draw(t, "uid")
		tk := rapid.IntRange(0, 99).Draw(t, "typekind")
		switch {
		case tk < 30:
			nd.Type = "file"
			nd.Mode = rapid.SampledFrom([]os.FileMode{0o644, 0o600, 0o777, 0o4755 &^ 0o4000 | os.ModeSetuid, 0}).Draw(t, "fmode")
			np := rapid.IntRange(0, 3).Draw(t, "nparts")
			for j := 0; j < np; j++ {
				nd.Parts = append(nd.Parts, rapid.SampledFrom([]string{"AAAA", "restored-content-B", "c", "z*700", "victim-data\n"}).Draw(t, "part"))
			}
			nd.Missing = rapid.IntRange(0, 19).Draw(t, "missingblob") == 0
			if rapid.IntRange(0, 2).Draw(t, "hardlinked") == 0 {
				nd.Links = 2
				nd.Inode = uint64(rapid.IntRange(1, 2).Draw(t, "sharedinode"))
			} else {
				*inodes++
				nd.Links = 1
				nd.Inode = uint64(100 + *inodes)
			}
			nd.Xattr = rapid.IntRange(0, 5).Draw(t, "xattr") == 0
		case tk < 55:
			nd.Type = "dir"
			nd.Mode = os.ModeDir | rapid.SampledFrom([]os.FileMode{0o755, 0o700, 0o777, 0o1777 &^ 0o1000 | os.ModeSticky, 0}).Draw(t, "dmode")
			sk := rapid.IntRange(0, 19).Draw(t, "subkind")
			switch {
			case sk == 0:
				nd.SubKind = "nil"
			case sk == 1:
				nd.SubKind = "missing"
			case sk == 2:
				nd.SubKind = "garbage"
			case sk == 3:
				nd.SubKind = "datablob"
			default:
				nd.SubKind = "real"
				if depth < maxDepthC18 {
					nd.Sub = genTreeC18(t, depth+1, upsLeft-countUpsC18(nd.Name), inodes)
				}
			}
		case tk < 82:
			nd.Type = "symlink"
			nd.Mode = os.ModeSymlink | 0o777
			nd.LinkTarget = genLinkTargetC18(t, depth, "lt")
		case tk < 88:
			nd.Type = "fifo"
			nd.Mode = os.ModeNamedPipe | 0o666
		case tk < 91:
			nd.Type = "chardev"
			nd.Mode = os.ModeDevice | os.ModeCharDevice | 0o666
		case tk < 93:
			nd.Type = "dev"
			nd.Mode = os.ModeDevice | 0o660
		case tk < 95:
			nd.Type = "socket"
			nd.Mode = os.ModeSocket | 0o777
		case tk < 97:
			nd.Type = "irregular"
			nd.Mode = os.ModeIrregular | 0o777
		default:
			nd.Type = rapid.SampledFrom([]string{"", "bogus", "DIR", "file\x00"}).Draw(t, "bogustype")
			nd.Mode = 0o777
		}
		nodes = append(nodes, nd)
	}
	return nodes
}

// genLinkTargetC18 draws a symlink target for a link located `depth` directories below the
// target root. Relative targets use at most 4 ".." and absolute ones are written with the
// placeholder @ROOT@ (replaced by the per-case root).
func genLinkTargetC18(t *rapid.T, depth int, label string) string {
	up := strings.Repeat("../", depth+1) // from the link's directory to the case root
	return rapid.SampledFrom([]string{
		up + "outside", up + "outside", up + "outside/b", up + "outside/sub", up + "outside/x",
		up + "outside/victim", up + "outside/a", up + "outside/missing",
		"@ROOT@/outside", "@ROOT@/outside/victim", "@ROOT@/outside/b",
		strings.TrimSuffix(up, "/"), ".", "..", "a", "b/a", "", up + "target",
	}).Draw(t, label)
}

// locC18 is a tree location whose components are all clean, with the node living there.
type locC18 struct {
	path string // "a/b"
	node *vNodeC18
}

func collectLocsC18(nodes []*vNodeC18, prefix string, out *[]locC18) {
	for _, nd := range nodes {
		// what a permissive restorer would make of the name, clamped at the target root
		p := strings.TrimPrefix(filepath.Join("/", prefix, nd.Name), "/")
		if p == "" || len(p) > 300 || strings.ContainsRune(p, 0) {
			continue
		}
		*out = append(*out, locC18{p, nd})
		if nd.Type == "dir" {
			collectLocsC18(nd.Sub, p, out)
		}
	}
}

func genPreC18(t *rapid.T, tree []*vNodeC18) []vPreC18 {
	var locs []locC18
	collectLocsC18(tree, "", &locs)
	type cand struct {
		atDir, atNode bool
		node          *vNodeC18
	}
	cands := map[string]*cand{}
	add := func(p string, nd *vNodeC18, leaf bool) {
		c := cands[p]
		if c == nil {
			c = &cand{}
			cands[p] = c
		}
		if leaf {
			c.atNode = true
			if nd.Type == "dir" {
				c.atDir = true
			}
			if c.node == nil {
				c.node = nd
			}
		} else {
			c.atDir = true
		}
	}
	for _, l := range locs {
		parts := strings.Split(l.path, "/")
		if len(parts) > 5 {
			continue
		}
		ok := true
		for _, c := range parts {
			ok = ok && cleanCompC18(c)
		}
		if !ok {
			continue
		}
		for i := 1; i <= len(parts); i++ {
			add(strings.Join(parts[:i], "/"), l.node, i == len(parts))
		}
	}
	// a few paths the tree does not mention
	for i := rapid.IntRange(0, 2).Draw(t, "extra"); i > 0; i-- {
		p := rapid.SampledFrom(alphaC18).Draw(t, "e1")
		if rapid.Bool().Draw(t, "e2deep") {
			p += "/" + rapid.SampledFrom(alphaC18).Draw(t, "e2")
		}
		if cands[p] == nil {
			cands[p] = &cand{}
		}
	}
	paths := make([]string, 0, len(cands))
	for p := range cands {
		paths = append(paths, p)
	}
	sort.Strings(paths)

	var pre []vPreC18
	blocked := []string{} // prefixes that are not real directories
	for _, p := range paths {
		skip := false
		for _, b := range blocked {
			if strings.HasPrefix(p, b+"/") {
				skip = true
			}
		}
		if skip {
			continue
		}
		c := cands[p]
		depth := strings.Count(p, "/")
		k := rapid.IntRange(0, 99).Draw(t, "prekind")
		e := vPreC18{Path: p, AtDir: c.atDir, AtNode: c.atNode, MTimeOff: rapid.IntRange(-3, 3).Draw(t, "premtime")}
		if c.atDir && k >= 25 && k < 40 {
			k = 50 // directory positions get a symlink more often
		}
		switch {
		case k < 40:
			continue
		case k < 68:
			e.Kind = "symlink"
			e.Arg = genLinkTargetC18(t, depth, "prelt")
			if e.Arg == "" {
				e.Arg = "a"
			}
			e.Outside = strings.Contains(e.Arg, "outside") || strings.HasSuffix(e.Arg, "..") || strings.HasSuffix(e.Arg, "../")
			blocked = append(blocked, p)
		case k < 76:
			e.Kind = "hardlink"
			e.Arg = rapid.SampledFrom([]string{"outside/victim", "outside/a", "outside/b/a", "outside/hl1"}).Draw(t, "hlto")
			blocked = append(blocked, p)
		case k < 88:
			e.Kind = "file"
			if c.node != nil && c.node.Type == "file" && rapid.Bool().Draw(t, "samecontent") {
				for _, part := range c.node.Parts {
					e.Content += expandC18(part)
				}
				e.MTimeOff = c.node.MTimeOff
			} else {
				e.Content = rapid.SampledFrom([]string{"", "old", "restored-content-B", "q*900"}).Draw(t, "precontent")
			}
			blocked = append(blocked, p)
		default:
			e.Kind = "dir"
		}
		pre = append(pre, e)
	}
	return pre
}

func genOptsC18(t *rapid.T, tree []*vNodeC18) vOptsC18 {
	o := vOptsC18{
		Delete:    rapid.IntRange(0, 2).Draw(t, "delete") == 0,
		Overwrite: rapid.SampledFrom([]int{0, 0, 1, 2, 3, 3}).Draw(t, "overwrite"),
		Sparse:    rapid.IntRange(0, 3).Draw(t, "sparse") == 0,
		DryRun:    rapid.IntRange(0, 11).Draw(t, "dryrun") == 0,
		Continue:  rapid.IntRange(0, 3).Draw(t, "continue") > 0,
		Filter:    rapid.SampledFrom([]string{"none", "none", "include", "include", "exclude"}).Draw(t, "filter"),
	}
	if o.Filter != "none" {
		var locs []locC18
		collectLocsC18(tree, "", &locs)
		np := rapid.IntRange(1, 2).Draw(t, "npat")
		for i := 0; i < np; i++ {
			base := "/" + rapid.SampledFrom(alphaC18).Draw(t, "patalpha")
			if len(locs) > 0 && rapid.IntRange(0, 5).Draw(t, "patfromtree") > 0 {
				base = "/" + locs[rapid.IntRange(0, len(locs)-1).Draw(t, "patloc")].path
				if alt := "/" + locs[rapid.IntRange(0, len(locs)-1).Draw(t, "patloc2")].path; strings.Count(alt, "/") > strings.Count(base, "/") {
					base = alt // prefer deep locations: ancestors stay unselected
				}
			}
			switch rapid.IntRange(0, 5).Draw(t, "patshape") {
			case 0, 1:
			case 2:
				base += "/*"
			case 3:
				base = filepath.Base(base)
			case 4:
				base = "**/" + filepath.Base(base)
			case 5:
				if d := filepath.Dir(base); d != "/" {
					base = d
				}
			}
			if !strings.ContainsRune(base, 0) {
				o.Patterns = append(o.Patterns, base)
			}
		}
		if len(o.Patterns) == 0 {
			o.Filter = "none"
		}
	}
	return o
}

// ---------------------------------------------------------------- writing the case

// expandC18 turns the symbolic content "z*700" into 700 times "z".
func expandC18(p string) string {
	if len(p) > 2 && p[1] == '*' {
		n := 0
		_, _ = fmt.Sscanf(p[2:], "%d", &n)
		return strings.Repeat(p[:1], n)
	}
	return p
}

// saveRawTreeC18 writes the nodes as a raw tree blob: no ordering, no duplicate check.
func saveRawTreeC18(ctx context.Context, saver restic.BlobSaver, nodes []*vNodeC18, caseRoot string) (restic.ID, error) {
	var buf bytes.Buffer
	buf.WriteString(`{"nodes":[`)
	for i, nd := range nodes {
		n := data.Node{
			Name:       nd.Name,
			Type:       data.NodeType(nd.Type),
			Mode:       nd.Mode,
			ModTime:    baseTimeC18.Add(time.Duration(nd.MTimeOff) * time.Hour),
			AccessTime: baseTimeC18,
			ChangeTime: baseTimeC18,
			UID:        nd.UID,
			GID:        nd.UID,
			Inode:      nd.Inode,
			Links:      nd.Links,
			LinkTarget: strings.ReplaceAll(nd.LinkTarget, "@ROOT@", caseRoot),
		}
		switch nd.Type {
		case "file":
			n.Content = restic.IDs{}
			for _, p := range nd.Parts {
				p = expandC18(p)
				id, _, _, err := saver.SaveBlob(ctx, restic.DataBlob, []byte(p), restic.ID{}, false)
				if err != nil {
					return restic.ID{}, err
				}
				n.Content = append(n.Content, id)
				n.Size += uint64(len(p))
			}
			if nd.Missing {
				n.Content = append(n.Content, restic.Hash([]byte("never stored C18")))
				n.Size += 16
			}
			if nd.Xattr {
				n.ExtendedAttributes = []data.ExtendedAttribute{{Name: "user.c18", Value: []byte("from-snapshot")}}
			}
		case "chardev":
			n.Device = 1<<8 | 3 // the null device
		case "dev":
			n.Device = 7<<8 | 250 // an unused loop device number; the node is never opened
		case "dir":
			switch nd.SubKind {
			case "nil":
			case "missing":
				id := restic.Hash([]byte("no such tree C18"))
				n.Subtree = &id
			case "garbage":
				id, _, _, err := saver.SaveBlob(ctx, restic.TreeBlob, []byte(`{"nodes":[{"name":"a","type":"file"},{"name":5}]}`), restic.ID{}, false)
				if err != nil {
					return restic.ID{}, err
				}
				n.Subtree = &id
			case "datablob":
				id, _, _, err := saver.SaveBlob(ctx, restic.DataBlob, []byte(`{"nodes":[]}`), restic.ID{}, false)
				if err != nil {
					return restic.ID{}, err
				}
				n.Subtree = &id
			default:
				id, err := saveRawTreeC18(ctx, saver, nd.Sub, caseRoot)
				if err != nil {
					return restic.ID{}, err
				}
				n.Subtree = &id
			}
		}
		js, err := json.Marshal(n)
		if err != nil {
			return restic.ID{}, err
		}
		if i > 0 {
			buf.WriteByte(',')
		}
		buf.Write(js)
	}
	buf.WriteString("]}\n")
	id, _, _, err := saver.SaveBlob(ctx, restic.TreeBlob, buf.Bytes(), restic.ID{}, false)
	return id, err
}

type envC18 struct {
	base     string // fresh temp dir of this test process
	caseTop  string // base/case : removed after every case
	caseRoot string // caseTop/n1/.../n12
	target   string // caseRoot/target
}

// newEnvC18 builds the nest, the outside area and an empty target from scratch.
func newEnvC18(base string) (*envC18, error) {
	e := &envC18{base: base, caseTop: filepath.Join(base, "case")}
	p := e.caseTop
	for i := 1; i <= nestLevelsC18; i++ {
		p = filepath.Join(p, fmt.Sprintf("n%d", i))
	}
	e.caseRoot = p
	e.target = filepath.Join(p, "target")
	if !strings.HasPrefix(e.caseRoot, base+string(filepath.Separator)) || strings.Count(strings.TrimPrefix(e.caseRoot, base), "/") < 8 {
		return nil, fmt.Errorf("unsafe case root %q", e.caseRoot)
	}
	if err := os.RemoveAll(e.caseTop); err != nil {
		return nil, err
	}
	if err := os.MkdirAll(e.target, 0o755); err != nil {
		return nil, err
	}
	return e, e.populateOutside()
}

// freshTarget empties the target. The outside area is kept: the oracle has just established
// that the previous case left it untouched (otherwise the environment is rebuilt).
func (e *envC18) freshTarget() error {
	if err := os.RemoveAll(e.target); err != nil {
		return err
	}
	return os.Mkdir(e.target, 0o755)
}

func (e *envC18) populateOutside() error {
	o := filepath.Join(e.caseRoot, "outside")
	old := baseTimeC18.Add(-24 * time.Hour)
	files := map[string]string{
		"victim": "victim-data\n", "a": "outside-a", "c": "outside-c", "y": "outside-y", "hl1": "hardlinked-pair",
		"b/a": "outside-b-a", "b/b/a": "outside-b-b-a", "b/y": "", "x/a": "outside-x-a",
		"sub/a": "outside-sub-a", "sub/x": "outside-sub-x", "sub/b/a": "outside-sub-b-a",
	}
	for _, d := range []string{"", "b", "b/b", "b/c", "x", "sub", "sub/b", "sub/y"} {
		if err := os.MkdirAll(filepath.Join(o, d), 0o755); err != nil {
			return err
		}
	}
	for rel, content := range files {
		if err := os.WriteFile(filepath.Join(o, rel), []byte(content), 0o640); err != nil {
			return err
		}
	}
	if err := os.Link(filepath.Join(o, "hl1"), filepath.Join(o, "sub", "hl2")); err != nil {
		return err
	}
	if err := os.Symlink("../victim", filepath.Join(o, "sub", "c")); err != nil {
		return err
	}
	if err := os.Symlink("b", filepath.Join(o, "p")); err != nil {
		return err
	}
	_ = xattr.LSet(filepath.Join(o, "victim"), "user.c18", []byte("outside-xattr"))
	if err := os.WriteFile(filepath.Join(e.caseRoot, "marker"), []byte("case-root-marker"), 0o600); err != nil {
		return err
	}
	// fixed, old timestamps so that "if-newer" decisions do not depend on the wall clock
	return filepath.WalkDir(e.caseRoot, func(p string, d fs.DirEntry, err error) error {
		if err != nil {
			return err
		}
		if d.Type()&os.ModeSymlink != 0 {
			return nil
		}
		return os.Chtimes(p, old, old)
	})
}

// populateTarget creates the pre-existing target content.
func (e *envC18) populateTarget(pre []vPreC18) error {
	for _, p := range pre {
		full := filepath.Join(e.target, filepath.FromSlash(p.Path))
		if !strings.HasPrefix(full, e.target+"/") {
			return fmt.Errorf("pre-existing path %q leaves the target", p.Path)
		}
		if err := os.MkdirAll(filepath.Dir(full), 0o755); err != nil {
			return err
		}
		mt := baseTimeC18.Add(time.Duration(p.MTimeOff) * time.Hour)
		switch p.Kind {
		case "dir":
			if err := os.Mkdir(full, 0o755); err != nil {
				return err
			}
		case "file":
			if err := os.WriteFile(full, []byte(expandC18(p.Content)), 0o644); err != nil {
				return err
			}
			if err := os.Chtimes(full, mt, mt); err != nil {
				return err
			}
		case "symlink":
			if err := os.Symlink(strings.ReplaceAll(p.Arg, "@ROOT@", e.caseRoot), full); err != nil {
				return err
			}
			_ = utimensatNoFollowC18(full, mt)
		case "hardlink":
			if err := os.Link(filepath.Join(e.caseRoot, p.Arg), full); err != nil {
				return err
			}
		}
	}
	return nil
}

func utimensatNoFollowC18(path string, mt time.Time) error {
	ts := []unix.Timespec{unix.NsecToTimespec(mt.UnixNano()), unix.NsecToTimespec(mt.UnixNano())}
	return unix.UtimesNanoAt(unix.AT_FDCWD, path, ts, unix.AT_SYMLINK_NOFOLLOW)
}

// ---------------------------------------------------------------- state oracle

type entryC18 struct {
	Mode    os.FileMode
	Size    int64
	MTime   int64
	CTime   int64
	Ino     uint64
	Nlink   uint64
	UID     uint32
	GID     uint32
	Rdev    uint64
	Link    string
	Hash    string
	Xattrs  string
	inTgt   bool // (before only) the inode also has a name inside the target
	regular bool
}

// snapshotC18 records the state of everything below base except the target subtree.
// targetInodes receives the inodes of regular files inside the target (hard link detection).
func snapshotC18(base, target string, targetInodes map[uint64]bool) (map[string]entryC18, error) {
	st := map[string]entryC18{}
	err := filepath.WalkDir(base, func(p string, d fs.DirEntry, err error) error {
		if err != nil {
			return err
		}
		if p == target {
			if targetInodes != nil {
				_ = filepath.WalkDir(target, func(q string, dd fs.DirEntry, err error) error {
					if err != nil {
						return nil
					}
					if dd.Type().IsRegular() {
						if fi, err := os.Lstat(q); err == nil {
							targetInodes[fi.Sys().(*syscall.Stat_t).Ino] = true
						}
					}
					return nil
				})
			}
			return filepath.SkipDir
		}
		fi, err := os.Lstat(p)
		if err != nil {
			return err
		}
		s := fi.Sys().(*syscall.Stat_t)
		e := entryC18{Mode: fi.Mode(), MTime: s.Mtim.Nano(), CTime: s.Ctim.Nano(), Ino: s.Ino, Nlink: uint64(s.Nlink),
			UID: s.Uid, GID: s.Gid, Rdev: uint64(s.Rdev)}
		switch {
		case fi.Mode().IsRegular():
			e.regular = true
			e.Size = fi.Size()
			buf, err := os.ReadFile(p)
			if err != nil {
				return err
			}
			h := sha256.Sum256(buf)
			e.Hash = hex.EncodeToString(h[:8])
		case fi.Mode()&os.ModeSymlink != 0:
			e.Size = fi.Size()
			e.Link, _ = os.Readlink(p)
		}
		if names, err := xattr.LList(p); err == nil && len(names) > 0 {
			sort.Strings(names)
			for _, n := range names {
				v, _ := xattr.LGet(p, n)
				e.Xattrs += n + "=" + string(v) + ";"
			}
		}
		st[strings.TrimPrefix(p, base)] = e
		return nil
	})
	return st, err
}

// diffC18 lists the differences between two states. For regular files whose inode also has a
// name inside the target before the restore (pre-existing hard link into the outside area),
// only type, size and content are compared: removing or replacing the inside name necessarily
// changes nlink/ctime of the shared inode, and restoring metadata onto the inside name is a
// modification of a path inside the target.
func diffC18(before, after map[string]entryC18) (diffs []string, sharedMeta int) {
	for p, b := range before {
		a, ok := after[p]
		if !ok {
			diffs = append(diffs, fmt.Sprintf("DELETED %s (%v)", p, b.Mode))
			continue
		}
		if b.inTgt && b.regular && a.Mode.Type() == b.Mode.Type() && a.Ino == b.Ino {
			if a.Size != b.Size || a.Hash != b.Hash {
				diffs = append(diffs, fmt.Sprintf("CONTENT-OF-HARDLINKED %s: %+v -> %+v", p, b, a))
			} else if b.inTgt = false; a != b {
				sharedMeta++
			}
			continue
		}
		b.inTgt = false
		if a != b {
			diffs = append(diffs, fmt.Sprintf("CHANGED %s:\n      before %s\n      after  %s", p, b, a))
		}
	}
	for p, a := range after {
		if _, ok := before[p]; !ok {
			diffs = append(diffs, fmt.Sprintf("CREATED %s (%v -> %q)", p, a.Mode, a.Link))
		}
	}
	sort.Strings(diffs)
	return diffs, sharedMeta
}

func (e entryC18) String() string {
	return fmt.Sprintf("mode=%v size=%d mtime=%d ctime=%d ino=%d nlink=%d uid=%d gid=%d link=%q hash=%s xattrs=%q",
		e.Mode, e.Size, e.MTime, e.CTime, e.Ino, e.Nlink, e.UID, e.GID, e.Link, e.Hash, e.Xattrs)
}

// ---------------------------------------------------------------- running a case

type resultC18 struct {
	err         error
	errCount    int
	diffs       []string
	sharedMeta  int
	presymGone  int // pre-existing outside-symlinks that restore replaced or removed
	restoredAny bool
}

func selectFilterC18(o vOptsC18) func(item string, isDir bool) (bool, bool) {
	warn := func(string, ...any) {}
	switch o.Filter {
	case "exclude": // exactly cmd/restic's selectExcludeFilter
		reject := filter.RejectByPattern(o.Patterns, warn)
		return func(item string, isDir bool) (bool, bool) {
			sel := !reject(item)
			return sel, sel && isDir
		}
	case "include": // exactly cmd/restic's selectIncludeFilter
		incl := filter.IncludeByPattern(o.Patterns, warn)
		return func(item string, isDir bool) (bool, bool) {
			m, c := incl(item)
			return m, c && isDir
		}
	}
	return nil
}

// Repositories are shared by up to 256 consecutive cases of a process: blobs are content
// addressed, so what a case reads does not depend on what earlier cases stored (the "missing"
// IDs are never stored by anyone). This saves the per-repository start-up cost (zero chunk,
// packer buffers, zstd encoder for version 2).
var (
	sharedRepoC18     [3]*repository.Repository
	sharedRepoUsesC18 [3]int
)

func repoForCaseC18(outer testing.TB, version uint) *repository.Repository {
	if sharedRepoC18[version] == nil || sharedRepoUsesC18[version] >= 256 {
		sharedRepoC18[version], _ = repository.TestRepositoryWithBackend(outer, nil, version, repository.Options{})
		sharedRepoUsesC18[version] = 0
	}
	sharedRepoUsesC18[version]++
	return sharedRepoC18[version]
}

// runCaseC18 runs one case. *envp is reused between cases as long as the outside area is
// provably pristine: it is rebuilt after a case with differences or with a pre-existing hard link
// into the outside area (whose inode metadata may legitimately change).
func runCaseC18(outer testing.TB, base string, envp **envC18, c *vCaseC18) (r *resultC18, err error) {
	if *envp == nil {
		if *envp, err = newEnvC18(base); err != nil {
			return nil, err
		}
	} else if err = (*envp).freshTarget(); err != nil {
		return nil, err
	}
	env := *envp
	defer func() {
		dirty := err != nil || r == nil || len(r.diffs) > 0
		for _, p := range c.Pre {
			dirty = dirty || p.Kind == "hardlink"
		}
		if dirty {
			*envp = nil
		}
	}()
	if err := env.populateTarget(c.Pre); err != nil {
		return nil, fmt.Errorf("populate target: %w", err)
	}

	ctx := context.Background()
	repo := repoForCaseC18(outer, c.RepoVersion)
	var root restic.ID
	err = repo.WithBlobUploader(ctx, func(ctx context.Context, up restic.BlobSaverWithAsync) error {
		var err error
		root, err = saveRawTreeC18(ctx, up, c.Tree, env.caseRoot)
		return err
	})
	if err != nil {
		return nil, fmt.Errorf("save tree: %w", err)
	}

	tgtInodes := map[uint64]bool{}
	before, err := snapshotC18(base, env.target, tgtInodes)
	if err != nil {
		return nil, fmt.Errorf("state before: %w", err)
	}
	for p, e := range before {
		if e.regular && tgtInodes[e.Ino] {
			e.inTgt = true
			before[p] = e
		}
	}

	r = &resultC18{}
	res := NewRestorer(repo, &data.Snapshot{Tree: &root}, Options{
		DryRun: c.Opts.DryRun, Sparse: c.Opts.Sparse, Overwrite: OverwriteBehavior(c.Opts.Overwrite), Delete: c.Opts.Delete,
	})
	res.Warn = func(string) {}
	res.Info = func(string) {}
	if c.Opts.Continue { // what cmd/restic does: count and go on
		res.Error = func(string, error) error { r.errCount++; return nil }
	} else {
		res.Error = func(_ string, err error) error { r.errCount++; return err }
	}
	if f := selectFilterC18(c.Opts); f != nil {
		res.SelectFilter = f
	}
	var n uint64
	n, r.err = res.RestoreTo(ctx, env.target)
	r.restoredAny = n > 0

	after, err := snapshotC18(base, env.target, nil)
	if err != nil {
		return nil, fmt.Errorf("state after: %w", err)
	}
	r.diffs, r.sharedMeta = diffC18(before, after)

	for _, p := range c.Pre {
		if p.Kind == "symlink" && p.Outside {
			fi, err := os.Lstat(filepath.Join(env.target, p.Path))
			if err != nil || fi.Mode()&os.ModeSymlink == 0 {
				r.presymGone++
			}
		}
	}
	return r, nil
}

// ---------------------------------------------------------------- the property

func describeC18(c *vCaseC18) string {
	js, _ := json.Marshal(c)
	return string(js)
}

func treeStatsC18(nodes []*vNodeC18, classes map[string]bool, adversarial *bool) {
	seen := map[string]bool{}
	for _, nd := range nodes {
		classes["name="+nd.NameKind] = true
		if nd.NameKind != "plain" {
			*adversarial = true
		}
		if seen[nd.Name] {
			classes["dup"] = true
			*adversarial = true
		}
		seen[nd.Name] = true
		classes["type="+strings.Map(func(r rune) rune {
			if r < 'a' || r > 'z' {
				return '_'
			}
			return r
		}, nd.Type)] = true
		if nd.Type == "symlink" && strings.Contains(nd.LinkTarget, "outside") {
			classes["symlink-node-outside"] = true
		}
		if nd.Type == "dir" {
			classes["subtree="+nd.SubKind] = true
			treeStatsC18(nd.Sub, classes, adversarial)
		}
		if nd.Type == "file" && nd.Links > 1 {
			classes["hardlink-node"] = true
		}
	}
}

func TestVerifC18Escape(t *testing.T) {
	if f := verifkit.ReplayFile(); f != "" && !strings.HasSuffix(f, ".fail") {
		t.Skip("JSON replays belong to TestVerifC18Regression")
	}
	st := verifkit.Begin(t, "C18")
	base, err := os.MkdirTemp("", "verif-c18-")
	if err != nil {
		t.Fatal(err)
	}
	defer func() { _ = os.RemoveAll(base) }()
	if err := os.WriteFile(filepath.Join(base, "canary"), []byte("canary"), 0o600); err != nil {
		t.Fatal(err)
	}

	var env *envC18
	rapid.Check(t, func(rt *rapid.T) {
		inodes := 0
		c := &vCaseC18{}
		c.Tree = genTreeC18(rt, 0, maxUpsC18, &inodes)
		c.Pre = genPreC18(rt, c.Tree)
		c.Opts = genOptsC18(rt, c.Tree)
		c.RepoVersion = rapid.SampledFrom([]uint{1, 1, 1, 2}).Draw(rt, "repoversion")

		r, err := runCaseC18(t, base, &env, c)
		if err != nil {
			rt.Fatalf("harness error: %v\ncase: %s", err, describeC18(c))
		}

		classes := map[string]bool{}
		adversarial := false
		treeStatsC18(c.Tree, classes, &adversarial)
		preOutside := false
		for _, p := range c.Pre {
			switch {
			case p.Kind == "symlink" && p.Outside && p.AtDir:
				classes["presym=dir"] = true
				preOutside = true
			case p.Kind == "symlink" && p.Outside && p.AtNode:
				classes["presym=leaf"] = true
				preOutside = true
			case p.Kind == "symlink" && p.Outside:
				classes["presym=unrelated"] = true
			case p.Kind == "hardlink":
				classes["prehard"] = true
			}
		}
		classes[fmt.Sprintf("overwrite=%d", c.Opts.Overwrite)] = true
		classes["filter="+c.Opts.Filter] = true
		if c.Opts.Delete {
			classes["opt=delete"] = true
		}
		if c.Opts.Sparse {
			classes["opt=sparse"] = true
		}
		if c.Opts.DryRun {
			classes["opt=dryrun"] = true
		}
		if r.err != nil {
			classes["result=error"] = true
		} else if r.errCount > 0 {
			classes["result=ok-with-reported-errors"] = true
		} else {
			classes["result=ok"] = true
		}
		if r.presymGone > 0 {
			classes["presym-replaced"] = true
		}
		if r.sharedMeta > 0 {
			classes["hardlinked-outside-inode-metadata-changed"] = true
		}
		if r.restoredAny {
			classes["restored-files"] = true
		}
		labels := make([]string, 0, len(classes))
		for k := range classes {
			labels = append(labels, k)
		}
		sort.Strings(labels)
		key := ""
		if adversarial && preOutside {
			key = describeC18(c)
		}
		st.Case(key, labels...)
		if st.WantSample() {
			st.Sample(map[string]any{"case": c, "err": fmt.Sprint(r.err), "reported_errors": r.errCount})
		}

		if len(r.diffs) > 0 {
			if k := knownShapeC18(c); k != "" && st.Known(k) {
				return
			}
			rt.Fatalf("restore touched %d path(s) outside the target (err=%v):\n  %s\ncase: %s",
				len(r.diffs), r.err, strings.Join(r.diffs, "\n  "), describeC18(c))
		}
	})
}

// knownShapeC18 names the input class of a known (listed, unrepaired) finding the case belongs
// to, "" if none. Only consulted when a violation was observed.
//
// A  include filter: a directory that is descended into without being selected itself is never
//    passed to ensureDir, so a pre-existing symlink at its place is followed (repaired in /repo
//    for files and special nodes below it; A2/A3: a selected directory below it).
// B  overwrite never/if-newer: the first of several hard-linked file nodes is skipped because a
//    pre-existing symlink sits at its place; the later ones are linked to that symlink and their
//    mode is applied with chmod, which follows it.
func knownShapeC18(c *vCaseC18) string {
	presym := map[string]bool{}
	for _, p := range c.Pre {
		if p.Kind == "symlink" {
			presym[p.Path] = true
		}
	}
	if c.Opts.Filter == "include" {
		f := selectFilterC18(c.Opts)
		// selectedBelow reports whether a directory / a non-directory below is selected
		var selectedBelow func(nodes []*vNodeC18, prefix string) (dirSel, otherSel bool)
		selectedBelow = func(nodes []*vNodeC18, prefix string) (dirSel, otherSel bool) {
			for _, nd := range nodes {
				if !cleanCompC18(nd.Name) {
					continue
				}
				loc := prefix + "/" + nd.Name
				sel, child := f(loc, nd.Type == "dir")
				if sel && nd.Type == "dir" {
					dirSel = true
				} else if sel && nd.Type != "socket" {
					otherSel = true
				}
				if nd.Type == "dir" && child {
					d, o := selectedBelow(nd.Sub, loc)
					dirSel, otherSel = dirSel || d, otherSel || o
				}
			}
			return
		}
		viaDir, viaOther := false, false
		var walk func(nodes []*vNodeC18, prefix string)
		walk = func(nodes []*vNodeC18, prefix string) {
			for _, nd := range nodes {
				if nd.Type != "dir" || !cleanCompC18(nd.Name) {
					continue
				}
				loc := prefix + "/" + nd.Name
				sel, child := f(loc, true)
				if !sel && child && presym[strings.TrimPrefix(loc, "/")] {
					d, o := selectedBelow(nd.Sub, loc)
					viaDir, viaOther = viaDir || d, viaOther || o
				}
				if child {
					walk(nd.Sub, loc)
				}
			}
		}
		walk(c.Tree, "")
		switch {
		case viaDir: // A2/A3: a selected directory below the symlinked, unselected ancestor
			return "C18:selected-dir-below-symlinked-ancestor"
		case viaOther: // A: only files/special nodes below it
			return "C18:include-filter-follows-preexisting-dir-symlink"
		}
	}
	if c.Opts.Overwrite == int(OverwriteNever) || c.Opts.Overwrite == int(OverwriteIfNewer) {
		byInode := map[uint64]int{}
		atSymlink := map[uint64]bool{}
		var walk func(nodes []*vNodeC18, prefix string)
		walk = func(nodes []*vNodeC18, prefix string) {
			for _, nd := range nodes {
				if !cleanCompC18(nd.Name) {
					continue
				}
				loc := prefix + "/" + nd.Name
				if nd.Type == "file" && nd.Links > 1 {
					byInode[nd.Inode]++
					if presym[strings.TrimPrefix(loc, "/")] {
						atSymlink[nd.Inode] = true
					}
				}
				if nd.Type == "dir" {
					walk(nd.Sub, loc)
				}
			}
		}
		walk(c.Tree, "")
		for ino := range atSymlink {
			if byInode[ino] > 1 {
				return "C18:hardlink-to-skipped-symlink-chmod-follows"
			}
		}
	}
	return ""
}
