package restorer

// Property C21: restore --verify reports exactly the files that differ.
//
// A generated snapshot (multi-blob files, empty files, repeated and shared blobs, hard links) is
// restored into a fresh directory with RestoreTo; VerifyFiles must then return nil. Then one
// restored file at a time is tampered with and put back:
//   every single-byte change (all positions for files <= 4 KiB, boundary-centred sample above),
//   truncation to every shorter length, extensions, replacement by a non-regular entry or removal.
// Oracle: VerifyFiles reports an error for exactly the tampered file (in abort mode the returned
// error, in the CLI's continue mode the set of locations handed to res.Error and the number of
// verified files), and nil/no report for tampers that leave size and content alone.

import (
	"context"
	"errors"
	"fmt"
	"math/rand/v2"
	"os"
	"path/filepath"
	"sort"
	"strings"
	"sync"
	"testing"
	"time"

	"github.com/restic/restic/internal/data"
	"github.com/restic/restic/internal/repository"
	"github.com/restic/restic/internal/restic"
	"github.com/restic/restic/internal/verifkit"
	"golang.org/x/sys/unix"
	"pgregory.net/rapid"
)

type vBlobC21 struct {
	Seed uint64 `json:"seed"`
	Len  int    `json:"len"`
}

type vFileC21 struct {
	Path   string `json:"path"`
	Blobs  []int  `json:"blobs"`   // indices into the pool
	LinkOf int    `json:"link_of"` // -1, or index of the file this one is a hard link of
}

type vCaseC21 struct {
	Pool   []vBlobC21 `json:"pool"`
	Files  []vFileC21 `json:"files"`
	Sparse bool       `json:"sparse"`
	// Overwrite behaviour of the restorer whose VerifyFiles is judged (restoring into a fresh
	// directory all four behave alike; what they must not do is influence the verification)
	Overwrite int `json:"overwrite"`
	Mask   byte       `json:"mask"`
}

func (b vBlobC21) bytes() []byte {
	r := rand.New(rand.NewPCG(b.Seed, 21))
	buf := make([]byte, b.Len)
	for i := range buf {
		buf[i] = byte(r.UintN(256))
	}
	if b.Seed%5 == 0 { // some all-zero blobs (sparse writing skips zero runs)
		clear(buf)
	}
	return buf
}

func genCaseC21(t *rapid.T, big bool) *vCaseC21 {
	c := &vCaseC21{Sparse: rapid.Bool().Draw(t, "sparse"), Overwrite: rapid.IntRange(0, 3).Draw(t, "overwrite"), Mask: byte(rapid.SampledFrom([]int{1, 0x80, 0xff, 0x20, 0x55}).Draw(t, "mask"))}
	np := rapid.IntRange(1, 5).Draw(t, "npool")
	for i := 0; i < np; i++ {
		l := rapid.SampledFrom([]int{1, 1, 2, 3, 16, 31, 64, 100}).Draw(t, "bloblen")
		if big {
			l = rapid.SampledFrom([]int{4096, 9000, 20000, 65536}).Draw(t, "bigbloblen")
			np = min(np, 3)
		}
		c.Pool = append(c.Pool, vBlobC21{Seed: rapid.Uint64Range(1, 1<<40).Draw(t, "blobseed"), Len: l})
	}
	nf := rapid.IntRange(1, 4).Draw(t, "nfiles")
	used := map[string]bool{}
	for i := 0; i < nf; i++ {
		var comps []string
		for d := rapid.IntRange(1, 3).Draw(t, "depth"); d > 0; d-- {
			comps = append(comps, rapid.SampledFrom([]string{"a", "b", "c", "d"}).Draw(t, "comp"))
		}
		p := strings.Join(comps, "/") + fmt.Sprintf(".f%d", i) // file names never collide with directory names
		if used[p] {
			continue
		}
		used[p] = true
		f := vFileC21{Path: p, LinkOf: -1}
		if len(c.Files) > 0 && rapid.IntRange(0, 4).Draw(t, "hardlink") == 0 {
			f.LinkOf = rapid.IntRange(0, len(c.Files)-1).Draw(t, "linkof")
			if c.Files[f.LinkOf].LinkOf >= 0 {
				f.LinkOf = c.Files[f.LinkOf].LinkOf
			}
			f.Blobs = c.Files[f.LinkOf].Blobs
		} else {
			nb := rapid.SampledFrom([]int{0, 1, 1, 2, 3, 4}).Draw(t, "nblobs")
			if big {
				nb = rapid.IntRange(2, 3).Draw(t, "nbigblobs")
			}
			for j := 0; j < nb; j++ {
				f.Blobs = append(f.Blobs, rapid.IntRange(0, np-1).Draw(t, "blob"))
			}
		}
		c.Files = append(c.Files, f)
	}
	return c
}

func (c *vCaseC21) content(f vFileC21) []byte {
	var buf []byte
	for _, b := range f.Blobs {
		buf = append(buf, c.Pool[b].bytes()...)
	}
	return buf
}

// saveC21 writes blobs and (properly ordered) trees.
func saveC21(ctx context.Context, repo restic.Repository, c *vCaseC21) (restic.ID, error) {
	type dirC21 struct {
		nodes map[string]*data.Node
		subs  map[string]*dirC21
	}
	newDir := func() *dirC21 { return &dirC21{nodes: map[string]*data.Node{}, subs: map[string]*dirC21{}} }
	root := newDir()
	var rootID restic.ID
	err := repo.WithBlobUploader(ctx, func(ctx context.Context, up restic.BlobSaverWithAsync) error {
		ids := make([]restic.ID, len(c.Pool))
		for i, b := range c.Pool {
			id, _, _, err := up.SaveBlob(ctx, restic.DataBlob, b.bytes(), restic.ID{}, false)
			if err != nil {
				return err
			}
			ids[i] = id
		}
		linked := map[int]bool{}
		for _, f := range c.Files {
			if f.LinkOf >= 0 {
				linked[f.LinkOf] = true
			}
		}
		for i, f := range c.Files {
			comps := strings.Split(f.Path, "/")
			d := root
			for _, comp := range comps[:len(comps)-1] {
				if d.subs[comp] == nil {
					d.subs[comp] = newDir()
				}
				d = d.subs[comp]
			}
			n := &data.Node{Name: comps[len(comps)-1], Type: data.NodeTypeFile, Mode: 0o644,
				ModTime: time.Unix(1600000000+int64(i), 0), Inode: uint64(1000 + i), Links: 1, Content: restic.IDs{}}
			for _, b := range f.Blobs {
				n.Content = append(n.Content, ids[b])
				n.Size += uint64(c.Pool[b].Len)
			}
			if f.LinkOf >= 0 {
				n.Inode, n.Links = uint64(1000+f.LinkOf), 2
			} else if linked[i] {
				n.Links = 2
			}
			d.nodes[n.Name] = n
		}
		var save func(d *dirC21) (restic.ID, error)
		save = func(d *dirC21) (restic.ID, error) {
			for name, sub := range d.subs {
				id, err := save(sub)
				if err != nil {
					return restic.ID{}, err
				}
				d.nodes[name] = &data.Node{Name: name, Type: data.NodeTypeDir, Mode: os.ModeDir | 0o755, ModTime: time.Unix(1600000000, 0), Subtree: &id}
			}
			names := make([]string, 0, len(d.nodes))
			for name := range d.nodes {
				names = append(names, name)
			}
			sort.Strings(names)
			w := data.NewTreeWriter(up)
			for _, name := range names {
				if err := w.AddNode(d.nodes[name]); err != nil {
					return restic.ID{}, err
				}
			}
			return w.Finalize(ctx)
		}
		var err error
		rootID, err = save(root)
		return err
	})
	return rootID, err
}

// one repository per process: blobs are content addressed, cases do not influence each other
var (
	sharedRepoC21     *repository.Repository
	sharedRepoUsesC21 int
)

func repoC21(outer testing.TB) *repository.Repository {
	if sharedRepoC21 == nil || sharedRepoUsesC21 >= 128 {
		sharedRepoC21, _ = repository.TestRepositoryWithBackend(outer, nil, 1, repository.Options{})
		sharedRepoUsesC21 = 0
	}
	sharedRepoUsesC21++
	return sharedRepoC21
}

// walkLessC21 orders paths the way the restorer meets them: component by component, by name.
func walkLessC21(a, b string) bool {
	ac, bc := strings.Split(a, "/"), strings.Split(b, "/")
	for i := 0; i < len(ac) && i < len(bc); i++ {
		if ac[i] != bc[i] {
			return ac[i] < bc[i]
		}
	}
	return len(ac) < len(bc)
}

type reportC21 struct {
	mu   sync.Mutex
	locs []string
}

func (r *reportC21) add(loc string) {
	r.mu.Lock()
	r.locs = append(r.locs, loc)
	r.mu.Unlock()
}

// verifyBothC21 runs VerifyFiles in abort mode and in continue mode and compares both with the
// expected set of differing files (absolute paths).
func verifyBothC21(ctx context.Context, res *Restorer, dst string, count uint64, nfiles int, want []string) error {
	return verifyModeC21(ctx, res, dst, count, nfiles, want, 0)
}

// mode 0: abort mode and continue mode, 1: abort mode only, 2: continue mode only
func verifyModeC21(ctx context.Context, res *Restorer, dst string, count uint64, nfiles int, want []string, mode int) error {
	sort.Strings(want)
	if mode == 2 {
		return verifyContinueC21(ctx, res, dst, count, nfiles, want)
	}
	// abort mode: the first error ends the run and is returned. Once it has, the tree walker may
	// hand (wrapped) context.Canceled errors for directories to res.Error; those are not reports.
	rep := &reportC21{}
	res.Error = func(loc string, err error) error {
		if !errors.Is(err, context.Canceled) {
			rep.add(loc)
		}
		return err
	}
	_, err := res.VerifyFiles(ctx, dst, count, restic.NoopCounter)
	if (err != nil) != (len(want) > 0) {
		return fmt.Errorf("abort mode: VerifyFiles returned %v, expected differing files %v", err, want)
	}
	if err != nil {
		named := false
		for _, w := range want {
			named = named || strings.Contains(err.Error(), w)
		}
		for _, l := range rep.locs {
			ok := false
			for _, w := range want {
				ok = ok || l == w
			}
			if !ok {
				return fmt.Errorf("abort mode: error reported for %q which was not tampered with (want %v): %v", l, want, err)
			}
			named = true
		}
		if !named {
			return fmt.Errorf("abort mode: error %q does not name the tampered file %v", err, want)
		}
	}
	if mode == 1 {
		return nil
	}
	return verifyContinueC21(ctx, res, dst, count, nfiles, want)
}

func verifyContinueC21(ctx context.Context, res *Restorer, dst string, count uint64, nfiles int, want []string) error {
	// continue mode (cmd/restic counts errors and goes on): exactly the differing files are reported
	rep := &reportC21{}
	res.Error = func(loc string, err error) error { rep.add(loc); return nil }
	n, err := res.VerifyFiles(ctx, dst, count, restic.NoopCounter)
	if err != nil {
		return fmt.Errorf("continue mode: VerifyFiles returned %v", err)
	}
	sort.Strings(rep.locs)
	if strings.Join(rep.locs, "\n") != strings.Join(want, "\n") {
		return fmt.Errorf("continue mode: reported %q, expected exactly %q", rep.locs, want)
	}
	// The returned count is documented as "files successfully verified", but in continue mode
	// VerifyFiles also counts the files whose error res.Error swallowed. The property is about
	// which files are reported, so the count is only pinned down for the clean case.
	if len(want) == 0 && n != nfiles {
		return fmt.Errorf("continue mode: %d files verified, expected %d", n, nfiles)
	}
	return nil
}

// tamperC21 describes one modification of one restored file.
type tamperC21 struct {
	Kind string `json:"kind"`
	Pos  int    `json:"pos"`
}

// restoredMtimeNsC21 is the mtime (ns) the restore gave the file currently being tampered with, for
// "flip-keep-mtime"; earlier tampers of the same file and their undo change the current mtime, so it
// has to be remembered (cases run sequentially inside one process).
var restoredMtimeNsC21 int64

func (tm tamperC21) differs() bool {
	switch tm.Kind {
	case "chmod", "mtime", "rewrite-same", "none":
		return false
	}
	return true
}

// apply performs the tamper on path (original content orig) and returns the undo function.
func (tm tamperC21) apply(path string, orig []byte, mask byte, aside string) (func() error, error) {
	rewrite := func() error { return os.WriteFile(path, orig, 0o644) } // same inode: hard links survive
	swap := func(create func() error) (func() error, error) {
		if err := os.Rename(path, aside); err != nil {
			return nil, err
		}
		if err := create(); err != nil {
			_ = os.Rename(aside, path)
			return nil, err
		}
		return func() error {
			if err := os.RemoveAll(path); err != nil {
				return err
			}
			return os.Rename(aside, path)
		}, nil
	}
	switch tm.Kind {
	case "flip":
		mod := append([]byte(nil), orig...)
		mod[tm.Pos] ^= mask
		return rewrite, os.WriteFile(path, mod, 0o644)
	case "flip-keep-mtime": // bit rot: one byte differs, size and mtime are as restored
		mt := time.Unix(0, restoredMtimeNsC21)
		mod := append([]byte(nil), orig...)
		mod[tm.Pos] ^= mask
		if err := os.WriteFile(path, mod, 0o644); err != nil {
			return rewrite, err
		}
		undo := func() error {
			if err := rewrite(); err != nil {
				return err
			}
			return os.Chtimes(path, mt, mt)
		}
		return undo, os.Chtimes(path, mt, mt)
	case "truncate":
		return rewrite, os.Truncate(path, int64(tm.Pos))
	case "extend-zero":
		return rewrite, os.Truncate(path, int64(len(orig)+tm.Pos))
	case "extend-data":
		return rewrite, os.WriteFile(path, append(append([]byte(nil), orig...), orig[:min(tm.Pos, len(orig))]...), 0o644)
	case "swap-halves": // same multiset of bytes, same length
		mod := append(append([]byte(nil), orig[tm.Pos:]...), orig[:tm.Pos]...)
		return rewrite, os.WriteFile(path, mod, 0o644)
	case "remove":
		return swap(func() error { return nil })
	case "dir":
		return swap(func() error { return os.Mkdir(path, 0o755) })
	case "symlink-to-copy": // a symlink to a file with exactly the expected content
		return swap(func() error { return os.Symlink(aside, path) })
	case "chardev":
		return swap(func() error { return unix.Mknod(path, unix.S_IFCHR|0o666, 1<<8|3) })
	case "socket":
		return swap(func() error { return unix.Mknod(path, unix.S_IFSOCK|0o666, 0) })
	case "chmod":
		return func() error { return os.Chmod(path, 0o644) }, os.Chmod(path, 0o400)
	case "mtime":
		return func() error { return nil }, os.Chtimes(path, time.Unix(1, 0), time.Unix(1, 0))
	case "rewrite-same": // new inode, same bytes
		return swap(func() error { return os.WriteFile(path, orig, 0o600) })
	}
	return nil, fmt.Errorf("unknown tamper %q", tm.Kind)
}

// tampersC21 enumerates the tampers of a file with the given blob lengths.
func tampersC21(blobLens []int, exhaustive bool) []tamperC21 {
	size := 0
	var bounds []int
	for _, l := range blobLens {
		size += l
		bounds = append(bounds, size)
	}
	var tms []tamperC21
	if exhaustive {
		for p := 0; p < size; p++ {
			tms = append(tms, tamperC21{"flip", p}, tamperC21{"truncate", p})
		}
	} else { // positions around every blob boundary, first and last byte
		seen := map[int]bool{}
		for _, b := range append([]int{0, 1, size / 2}, bounds...) {
			for _, p := range []int{b - 2, b - 1, b, b + 1} {
				if p >= 0 && p < size && !seen[p] {
					seen[p] = true
					tms = append(tms, tamperC21{"flip", p}, tamperC21{"truncate", p})
				}
			}
		}
	}
	for _, k := range []int{1, 7, 4096} {
		tms = append(tms, tamperC21{"extend-zero", k})
		if size > 0 {
			tms = append(tms, tamperC21{"extend-data", k})
		}
	}
	if len(blobLens) > 0 {
		tms = append(tms, tamperC21{"extend-data", blobLens[len(blobLens)-1]}, tamperC21{"extend-zero", blobLens[0]})
	}
	if size > 0 { // bit rot at the first, a middle and the last byte
		for _, p := range []int{0, size / 2, size - 1} {
			tms = append(tms, tamperC21{"flip-keep-mtime", p})
		}
	}
	if len(blobLens) > 1 { // exchange the first blob with the rest: every blob still "belongs" to the file
		tms = append(tms, tamperC21{"swap-halves", blobLens[0]})
	}
	if size > 1 {
		tms = append(tms, tamperC21{"swap-halves", size / 2})
	}
	for _, k := range []string{"remove", "dir", "symlink-to-copy", "chardev", "socket", "chmod", "mtime", "rewrite-same"} {
		tms = append(tms, tamperC21{k, 0})
	}
	return tms
}

func runCaseC21(outer testing.TB, st *verifkit.Stats, c *vCaseC21, exhaustive bool, fail func(format string, args ...any)) {
	ctx := context.Background()
	repo := repoC21(outer)
	root, err := saveC21(ctx, repo, c)
	if err != nil {
		fail("harness: save: %v", err)
		return
	}
	top, err := os.MkdirTemp("", "verif-c21-")
	if err != nil {
		fail("harness: %v", err)
		return
	}
	defer func() { _ = os.RemoveAll(top) }()
	dst := filepath.Join(top, "dst")
	aside := filepath.Join(top, "aside")

	res := NewRestorer(repo, &data.Snapshot{Tree: &root}, Options{Sparse: c.Sparse, Overwrite: OverwriteBehavior(c.Overwrite)})
	st.Class(fmt.Sprintf("overwrite=%d", c.Overwrite))
	res.Warn = func(string) {}
	res.Info = func(string) {}
	count, err := res.RestoreTo(ctx, dst)
	if err != nil {
		fail("RestoreTo: %v", err)
		return
	}
	// regular files VerifyFiles looks at: one per inode, namely the name the depth-first walk in
	// name order meets first (later hard links are linked to it, not written)
	group := func(i int) int {
		if c.Files[i].LinkOf >= 0 {
			return c.Files[i].LinkOf
		}
		return i
	}
	first := map[int]int{}
	for i := range c.Files {
		g := group(i)
		if j, ok := first[g]; !ok || walkLessC21(c.Files[i].Path, c.Files[j].Path) {
			first[g] = i
		}
	}
	var primary, secondary []vFileC21
	for i, f := range c.Files {
		if first[group(i)] == i {
			primary = append(primary, f)
		} else {
			secondary = append(secondary, f)
		}
	}
	nlinked := len(secondary)
	if int(count) != len(primary) {
		fail("RestoreTo restored %d files, expected %d", count, len(primary))
		return
	}
	if err := verifyBothC21(ctx, res, dst, count, len(primary), nil); err != nil {
		fail("untouched restore: %v", err)
		return
	}

	classes := []string{fmt.Sprintf("files=%d", len(primary))}
	if nlinked > 0 {
		classes = append(classes, "has-hardlink")
	}
	caseKey := fmt.Sprintf("%+v", *c)
	nontrivial := 0
	for _, f := range primary {
		path := filepath.Join(dst, filepath.FromSlash(f.Path))
		orig := c.content(f)
		if got, err := os.ReadFile(path); err != nil || string(got) != string(orig) {
			fail("restored file %s differs from the snapshot (err %v)", f.Path, err)
			return
		}
		var lens []int
		for _, b := range f.Blobs {
			lens = append(lens, c.Pool[b].Len)
		}
		classes = append(classes, fmt.Sprintf("blobs=%d", min(len(lens), 3)))
		var restoredMtimeNs int64
		if fi, err := os.Lstat(path); err == nil {
			restoredMtimeNs = fi.ModTime().UnixNano()
		}
		for _, tm := range tampersC21(lens, exhaustive && (len(orig) <= verifkit.Scale(96, 1<<20))) {
			restoredMtimeNsC21 = restoredMtimeNs
			if tm.Kind == "swap-halves" && string(orig[tm.Pos:])+string(orig[:tm.Pos]) == string(orig) {
				continue // e.g. the same blob twice: nothing changes
			}
			undo, err := tm.apply(path, orig, c.Mask, aside)
			if err != nil {
				fail("harness: tamper %+v of %s: %v", tm, f.Path, err)
				return
			}
			want := []string{path}
			if !tm.differs() {
				want = nil
			}
			mode := 0
			if tm.Kind == "flip" || tm.Kind == "truncate" {
				mode = 1 + (tm.Pos+len(tm.Kind))%2 // the two error modes alternate over the positions
			}
			verr := verifyModeC21(ctx, res, dst, count, len(primary), want, mode)
			if err := undo(); err != nil {
				fail("harness: undo %+v of %s: %v", tm, f.Path, err)
				return
			}
			st.Evals(1)
			st.Class("tamper=" + tm.Kind)
			if (tm.Kind == "flip" || tm.Kind == "truncate") && len(lens) > 0 && (tm.Pos >= lens[0] || tm.Pos == len(orig)-1) {
				nontrivial++ // inside a blob other than the first, or at the last byte
				if nontrivial <= 64 {
					st.NonTrivial(fmt.Sprintf("%s|%s|%+v", caseKey, f.Path, tm))
				}
			}
			if verr != nil {
				fail("file %s (blob lengths %v), tamper %+v: %v", f.Path, lens, tm, verr)
				return
			}
		}
	}
	// Observation only (not asserted): the later names of a hard-linked file are not looked at by
	// VerifyFiles; replacing such a name by a different file goes unnoticed. In-place changes of
	// the shared inode are covered above through the first name.
	for _, f := range secondary {
		path := filepath.Join(dst, filepath.FromSlash(f.Path))
		undo, err := tamperC21{"dir", 0}.apply(path, nil, 0, aside)
		if err != nil {
			fail("harness: %v", err)
			return
		}
		rep := &reportC21{}
		res.Error = func(loc string, err error) error { rep.add(loc); return nil }
		_, _ = res.VerifyFiles(ctx, dst, count, restic.NoopCounter)
		_ = undo()
		if len(rep.locs) > 0 {
			st.Class("later-hardlink-name-replaced:reported")
		} else {
			st.Class("later-hardlink-name-replaced:not-reported")
		}
	}
	// several files at once: exactly the tampered subset is reported
	if len(primary) >= 2 {
		var want []string
		var undos []func() error
		for i, f := range primary {
			if i%2 == 1 {
				continue
			}
			path := filepath.Join(dst, filepath.FromSlash(f.Path))
			orig := c.content(f)
			tm := tamperC21{"extend-zero", 1}
			if len(orig) > 0 {
				tm = tamperC21{"flip", len(orig) - 1}
			}
			undo, err := tm.apply(path, orig, c.Mask, aside)
			if err != nil {
				fail("harness: %v", err)
				return
			}
			undos = append(undos, undo)
			want = append(want, path)
		}
		rep := &reportC21{}
		res.Error = func(loc string, err error) error { rep.add(loc); return nil }
		n, err := res.VerifyFiles(ctx, dst, count, restic.NoopCounter)
		sort.Strings(rep.locs)
		sort.Strings(want)
		for _, u := range undos {
			_ = u()
		}
		st.Evals(1)
		st.Class("tamper=subset")
		if err != nil || strings.Join(rep.locs, "\n") != strings.Join(want, "\n") {
			fail("subset tamper: reported %q (err %v, %d verified), expected exactly %q", rep.locs, err, n, want)
			return
		}
	}
	if err := verifyBothC21(ctx, res, dst, count, len(primary), nil); err != nil {
		fail("after undoing all tampers: %v", err)
		return
	}
	key := ""
	if nontrivial > 0 {
		key = caseKey
	}
	st.Case(key, classes...)
	if st.WantSample() {
		st.Sample(map[string]any{"case": c, "nontrivial_tampers": nontrivial})
	}
}

// small files: every byte position and every shorter length
func TestVerifC21Exhaustive(t *testing.T) {
	st := verifkit.Begin(t, "C21")
	rapid.Check(t, func(rt *rapid.T) {
		c := genCaseC21(rt, false)
		runCaseC21(t, st, c, true, rt.Fatalf)
	})
}

// files of several large blobs: positions around the blob boundaries
func TestVerifC21Large(t *testing.T) {
	st := verifkit.Begin(t, "C21")
	rapid.Check(t, func(rt *rapid.T) {
		c := genCaseC21(rt, true)
		runCaseC21(t, st, c, false, rt.Fatalf)
	})
}

// files up to 4 KiB, every position: one fixed layout per shard
func TestVerifC21FourKiB(t *testing.T) {
	st := verifkit.Begin(t, "C21")
	layouts := [][]int{{4096}, {1000, 3096}, {2048, 2048}, {1, 4094, 1}, {1365, 1365, 1366}, {4095, 1}, {512, 512, 512, 512, 512, 512, 512, 512}, {3000}}
	if verifkit.Tier() == "quick" { // the 4 KiB sweep is left to the thorough tier
		layouts = [][]int{{384}, {100, 284}, {192, 192}, {1, 382, 1}, {128, 128, 128}, {383, 1}, {48, 48, 48, 48, 48, 48, 48, 48}, {300}}
	}
	for i, l := range layouts {
		if i%verifkit.Shards() != verifkit.Shard() {
			continue
		}
		c := &vCaseC21{Mask: 0x01, Files: []vFileC21{{Path: "a/four.k", LinkOf: -1}, {Path: "other", LinkOf: -1, Blobs: []int{0}}}}
		for j, n := range l {
			c.Pool = append(c.Pool, vBlobC21{Seed: uint64(7 + 10*i + j), Len: n})
			c.Files[0].Blobs = append(c.Files[0].Blobs, j)
		}
		runCaseC21(t, st, c, true, func(format string, args ...any) {
			verifkit.SaveReplay("C21", "fourkib", c)
			t.Fatalf(format, args...)
		})
	}
}
