package main

import (
	"context"
	"encoding/json"
	"fmt"
	"os"
	"sort"
	"strings"
	"testing"
	"time"

	"github.com/restic/restic/internal/backend"
	"github.com/restic/restic/internal/data"
	"github.com/restic/restic/internal/global"
	"github.com/restic/restic/internal/repository"
	"github.com/restic/restic/internal/restic"
	"github.com/restic/restic/internal/verifkit"
	"pgregory.net/rapid"
)

// vSnapC25 is the model of one snapshot file.
type vSnapC25 struct {
	ID   string
	Tags []string
	JSON map[string]any // all fields as stored
}

var vTagPoolC25 = []string{"a", "b", "c", "NL", "x y", "ü", "a,b"}

func vGenTagsC25(t *rapid.T, label string) []string {
	n := rapid.IntRange(0, 4).Draw(t, label+"n")
	var out []string
	for i := 0; i < n; i++ {
		out = append(out, rapid.SampledFrom(vTagPoolC25[:6]).Draw(t, label))
	}
	return out
}

// vGenTagListsC25 draws the --add/--remove/--set arguments the way the flag parser
// produces them: each occurrence is a comma separated list, values are trimmed,
// empty strings may occur.
func vGenTagListsC25(t *rapid.T, label string, allowEmpty bool) data.TagLists {
	n := rapid.IntRange(0, 2).Draw(t, label+"lists")
	var out data.TagLists
	for i := 0; i < n; i++ {
		m := rapid.IntRange(1, 3).Draw(t, label+"len")
		var l data.TagList
		for j := 0; j < m; j++ {
			pool := vTagPoolC25[:6]
			if allowEmpty && rapid.IntRange(0, 5).Draw(t, label+"empty") == 0 {
				l = append(l, "")
				continue
			}
			l = append(l, rapid.SampledFrom(pool).Draw(t, label+"tag"))
		}
		out = append(out, l)
	}
	return out
}

func vFlattenC25(l data.TagLists) []string {
	var out []string
	for _, x := range l {
		for _, t := range x {
			if t != "" {
				out = append(out, t)
			}
		}
	}
	return out
}

func vSetOf(l []string) map[string]bool {
	m := map[string]bool{}
	for _, x := range l {
		m[x] = true
	}
	return m
}

// vLoadSnapsC25 reads all snapshot files with all their JSON fields.
func vLoadSnapsC25(e *vEnv) (map[string]*vSnapC25, error) {
	out := map[string]*vSnapC25{}
	err := e.WithRepo(func(ctx context.Context, repo *repository.Repository) error {
		return repo.List(ctx, restic.SnapshotFile, func(id restic.ID, _ int64) error {
			buf, err := repo.LoadUnpacked(ctx, restic.SnapshotFile, id)
			if err != nil {
				return err
			}
			s := &vSnapC25{ID: id.String(), JSON: map[string]any{}}
			if err := json.Unmarshal(buf, &s.JSON); err != nil {
				return err
			}
			if tl, ok := s.JSON["tags"].([]any); ok {
				for _, x := range tl {
					s.Tags = append(s.Tags, x.(string))
				}
			}
			out[s.ID] = s
			return nil
		})
	})
	return out, err
}

func vOtherFieldsEqualC25(a, b map[string]any) string {
	keys := map[string]bool{}
	for k := range a {
		keys[k] = true
	}
	for k := range b {
		keys[k] = true
	}
	for k := range keys {
		if k == "tags" || k == "original" {
			continue
		}
		x, _ := json.Marshal(a[k])
		y, _ := json.Marshal(b[k])
		if string(x) != string(y) {
			return fmt.Sprintf("field %q changed: %s -> %s", k, x, y)
		}
	}
	return ""
}

func TestVerifC25Tag(t *testing.T) {
	vSetup(t)
	st := verifkit.Begin(t, "C25")

	// one tiny real backup gives a valid tree to hang generated snapshots on
	base, err := vNewEnv(true)
	if err != nil {
		t.Fatal(err)
	}
	defer base.Close()
	if err := base.Init("2"); err != nil {
		t.Fatal(err)
	}
	src := base.Scratch("src-")
	if err := os.WriteFile(src+"/f", []byte("hello"), 0o644); err != nil {
		t.Fatal(err)
	}
	if err := base.Backup([]string{src}, BackupOptions{}); err != nil {
		t.Fatal(err)
	}
	sns, err := base.Snapshots()
	if err != nil || len(sns) != 1 {
		t.Fatalf("setup: %v %v", sns, err)
	}
	tree := *sns[0].Tree
	base.store.Del(backend.SnapshotFile, sns[0].ID().String())
	baseStore := base.store

	rapid.Check(t, func(t *rapid.T) {
		e := base.OnStore(baseStore.Clone())
		defer e.Release()

		// generated snapshots: arbitrary tag lists INCLUDING duplicates, some with an
		// earlier "original" (already retagged once), several hosts for the filter
		n := rapid.IntRange(1, 6).Draw(t, "snapshots")
		dupTouched := false
		var hosts = []string{"h1", "h2"}
		err := e.WithRepoRW(func(ctx context.Context, repo *repository.Repository) error {
			for i := 0; i < n; i++ {
				sn := &data.Snapshot{
					Time:     time.Unix(1600000000+int64(i)*3600, 0).UTC(),
					Tree:     &tree,
					Paths:    []string{"/data"},
					Hostname: rapid.SampledFrom(hosts).Draw(t, "host"),
					Username: "u",
					Tags:     vGenTagsC25(t, "sntag"),
				}
				if rapid.IntRange(0, 4).Draw(t, "hasorig") == 0 {
					id := restic.Hash([]byte(fmt.Sprintf("orig%d", i)))
					sn.Original = &id
				}
				if _, err := data.SaveSnapshot(ctx, repo, sn); err != nil {
					return err
				}
			}
			return nil
		})
		if err != nil {
			t.Fatalf("creating snapshots: %v", err)
		}
		before, err := vLoadSnapsC25(e)
		if err != nil || len(before) == 0 {
			t.Fatalf("load: %v", err)
		}

		// the command
		opts := TagOptions{}
		mode := rapid.SampledFrom([]string{"addremove", "addremove", "set"}).Draw(t, "mode")
		if mode == "set" {
			opts.SetTags = vGenTagListsC25(t, "set", true)
			if len(opts.SetTags) == 0 {
				opts.SetTags = data.TagLists{{rapid.SampledFrom([]string{"", "z"}).Draw(t, "set1")}}
			}
		} else {
			opts.AddTags = vGenTagListsC25(t, "add", true)
			opts.RemoveTags = vGenTagListsC25(t, "rm", true)
			if len(opts.AddTags) == 0 && len(opts.RemoveTags) == 0 {
				opts.RemoveTags = data.TagLists{{rapid.SampledFrom(vTagPoolC25[:3]).Draw(t, "rm1")}}
			}
		}
		// selection: all, by host filter, by tag filter, or by explicit ids (prefixes)
		sel := rapid.SampledFrom([]string{"all", "host", "tag", "ids"}).Draw(t, "sel")
		var args []string
		selected := map[string]bool{}
		ids := make([]string, 0, len(before))
		for id := range before {
			ids = append(ids, id)
		}
		sort.Strings(ids)
		switch sel {
		case "all":
			for _, id := range ids {
				selected[id] = true
			}
		case "host":
			h := rapid.SampledFrom(hosts).Draw(t, "fhost")
			opts.Hosts = []string{h}
			for _, id := range ids {
				if before[id].JSON["hostname"] == h {
					selected[id] = true
				}
			}
		case "tag":
			ft := rapid.SampledFrom(vTagPoolC25[:4]).Draw(t, "ftag")
			opts.Tags = data.TagLists{{ft}}
			for _, id := range ids {
				if vSetOf(before[id].Tags)[ft] {
					selected[id] = true
				}
			}
		case "ids":
			k := rapid.IntRange(1, len(ids)).Draw(t, "nids")
			perm := rapid.Permutation(ids).Draw(t, "idperm")
			for _, id := range perm[:k] {
				args = append(args, id[:rapid.IntRange(16, 64).Draw(t, "idlen")])
				selected[id] = true
			}
		}

		A, R, L := vFlattenC25(opts.AddTags), vFlattenC25(opts.RemoveTags), vFlattenC25(opts.SetTags)
		for id := range selected {
			seen := map[string]int{}
			for _, tg := range before[id].Tags {
				seen[tg]++
			}
			for _, r := range R {
				if seen[r] >= 2 {
					dupTouched = true
				}
			}
		}
		overlap := false
		for _, a := range A {
			if vSetOf(R)[a] {
				overlap = true
			}
		}

		g := e.gopts
		g.JSON = true
		out, rerr := e.call(g, func(ctx context.Context, gopts global.Options) error {
			return runTag(ctx, opts, gopts, gopts.Term, args)
		})
		if rerr != nil {
			t.Fatalf("tag failed: %v (%s)", rerr, out.Stderr)
		}
		after, err := vLoadSnapsC25(e)
		if err != nil {
			t.Fatal(err)
		}

		key := ""
		if (dupTouched || overlap) && len(selected) > 0 {
			key = fmt.Sprintf("%v|%v|%v|%v|%s", A, R, L, args, e.store.Digest()[:12])
		}
		st.Case(key, "mode="+mode, "sel="+sel, fmt.Sprintf("dupTouched=%v", dupTouched), fmt.Sprintf("overlap=%v", overlap),
			fmt.Sprintf("selected=%d", min(len(selected), 3)), fmt.Sprintf("set-empty=%v", mode == "set" && len(L) == 0))
		if st.WantSample() {
			var bt [][]string
			for _, id := range ids {
				bt = append(bt, before[id].Tags)
			}
			st.Sample(map[string]any{"tags_before": bt, "add": opts.AddTags, "remove": opts.RemoveTags, "set": opts.SetTags, "selection": sel, "selected": len(selected)})
		}

		// the number of snapshots stays the same
		if len(after) != len(before) {
			t.Fatalf("snapshot count %d -> %d", len(before), len(after))
		}
		// changed snapshots as reported (old -> new)
		newOf := map[string]string{}
		for _, line := range strings.Split(strings.TrimSpace(out.Stdout), "\n") {
			var c struct {
				MessageType string `json:"message_type"`
				Old         string `json:"old_snapshot_id"`
				New         string `json:"new_snapshot_id"`
			}
			if json.Unmarshal([]byte(line), &c) == nil && c.MessageType == "changed" {
				newOf[c.Old] = c.New
			}
		}
		for _, id := range ids {
			b := before[id]
			a, still := after[id]
			if !selected[id] {
				// unselected snapshots are untouched (same file name = same bytes)
				if !still {
					t.Fatalf("unselected snapshot %s disappeared", id[:8])
				}
				continue
			}
			if !still {
				nid, ok := newOf[id]
				if !ok {
					t.Fatalf("selected snapshot %s disappeared without being reported", id[:8])
				}
				a = after[nid]
				if a == nil {
					t.Fatalf("replacement %s of %s does not exist", nid, id[:8])
				}
				// the first snapshot's ID is kept as original
				wantOrig := id
				if o, ok := b.JSON["original"].(string); ok {
					wantOrig = o
				}
				if a.JSON["original"] != wantOrig {
					t.Fatalf("original of replacement = %v, want %v", a.JSON["original"], wantOrig)
				}
			}
			if d := vOtherFieldsEqualC25(b.JSON, a.JSON); d != "" {
				t.Fatalf("snapshot %s: %s", id[:8], d)
			}
			got := vSetOf(a.Tags)
			if mode == "set" {
				// tags are exactly L (the empty string stands for "no tags")
				if strings.Join(a.Tags, "\x00") != strings.Join(L, "\x00") {
					t.Fatalf("after --set %q snapshot %s has tags %q (before %q)", opts.SetTags, id[:8], a.Tags, b.Tags)
				}
				continue
			}
			inR := vSetOf(R)
			for _, x := range A {
				if !inR[x] && !got[x] {
					t.Fatalf("after --add %q --remove %q snapshot %s lacks %q: %q (before %q)", A, R, id[:8], x, a.Tags, b.Tags)
				}
			}
			for _, x := range R {
				if got[x] {
					t.Fatalf("after --add %q --remove %q snapshot %s still carries %q: %q (before %q)", A, R, id[:8], x, a.Tags, b.Tags)
				}
			}
			// nothing else is lost or invented
			old := vSetOf(b.Tags)
			inA := vSetOf(A)
			for x := range old {
				if !inR[x] && !got[x] {
					t.Fatalf("tag %q lost: %q -> %q (add %q remove %q)", x, b.Tags, a.Tags, A, R)
				}
			}
			for x := range got {
				if !old[x] && !inA[x] {
					t.Fatalf("tag %q invented: %q -> %q (add %q remove %q)", x, b.Tags, a.Tags, A, R)
				}
			}
		}
		// no snapshot appeared that is not a reported replacement
		for id := range after {
			if _, ok := before[id]; ok {
				continue
			}
			found := false
			for _, n := range newOf {
				if n == id {
					found = true
				}
			}
			if !found {
				t.Fatalf("unreported new snapshot %s", id[:8])
			}
		}
	})
}
