package main

// C16 (CLI part): identical content is stored once per repository.
//
// Source trees are built for duplication: few distinct contents shared by many files,
// all-zero files and files made of a repeated block (many identical chunks inside one
// file), many empty directories (identical tree blobs) and twin directories whose
// entries are hard links of each other (identical non-empty tree blobs). The tree is
// backed up with a drawn read concurrency, then again unchanged with parent, with
// --force, after a metadata-only change and from a byte-identical copy at another path.
//
// Oracle: the harness lists every pack file of the backend with pack.List under the
// master key, decrypts and hashes every blob: each blob occurs exactly once over all
// packs, and the loaded index has exactly one entry per blob, pointing there. The
// repeated backups report data_blobs == 0 (tree_blobs == 0 as well when nothing changed)
// in their JSON summary and the backend log shows no pack with a data blob being written
// (no pack at all when nothing changed).

import (
	"bytes"
	"context"
	"encoding/json"
	"fmt"
	"os"
	"path/filepath"
	"sort"
	"strings"
	"syscall"
	"testing"
	"time"

	"github.com/klauspost/compress/zstd"
	"github.com/restic/restic/internal/backend"
	"github.com/restic/restic/internal/repository"
	"github.com/restic/restic/internal/repository/crypto"
	"github.com/restic/restic/internal/repository/pack"
	"github.com/restic/restic/internal/restic"
	"github.com/restic/restic/internal/verifkit"
	"github.com/restic/restic/internal/verifkit/vbe"
	"pgregory.net/rapid"
)

type vSummaryC16 struct {
	MessageType     string `json:"message_type"`
	FilesNew        uint   `json:"files_new"`
	FilesChanged    uint   `json:"files_changed"`
	FilesUnmodified uint   `json:"files_unmodified"`
	DataBlobs       int    `json:"data_blobs"`
	TreeBlobs       int    `json:"tree_blobs"`
	DataAdded       uint64 `json:"data_added"`
	SnapshotID      string `json:"snapshot_id"`
}

type vWalkC16 struct {
	occ      map[restic.BlobHandle][]string // blob -> packs holding it (one entry per occurrence)
	treeJSON map[restic.ID][]byte
}

// vWalkPacksC16 lists and decrypts every blob of the given raw pack files.
func vWalkPacksC16(key *crypto.Key, dec *zstd.Decoder, packs map[string][]byte) (*vWalkC16, error) {
	w := &vWalkC16{occ: map[restic.BlobHandle][]string{}, treeJSON: map[restic.ID][]byte{}}
	names := make([]string, 0, len(packs))
	for n := range packs {
		names = append(names, n)
	}
	sort.Strings(names)
	for _, name := range names {
		buf := packs[name]
		if restic.Hash(buf).String() != name {
			return nil, fmt.Errorf("pack %s: content hash differs from its name", name[:8])
		}
		entries, _, err := pack.List(key, bytes.NewReader(buf), int64(len(buf)))
		if err != nil {
			return nil, fmt.Errorf("pack %s: %v", name[:8], err)
		}
		for _, e := range entries {
			ct := buf[e.Offset : e.Offset+e.Length]
			pt, err := key.Open(nil, ct[:16], ct[16:], nil)
			if err != nil {
				return nil, fmt.Errorf("pack %s blob %v: %v", name[:8], e.ID.Str(), err)
			}
			if e.IsCompressed() {
				if pt, err = dec.DecodeAll(pt, nil); err != nil {
					return nil, fmt.Errorf("pack %s blob %v: %v", name[:8], e.ID.Str(), err)
				}
			}
			if restic.Hash(pt) != e.ID {
				return nil, fmt.Errorf("pack %s blob %v: plaintext hash differs", name[:8], e.ID.Str())
			}
			w.occ[e.BlobHandle] = append(w.occ[e.BlobHandle], name)
			if e.Type == restic.TreeBlob {
				w.treeJSON[e.ID] = pt
			}
		}
	}
	return w, nil
}

// vStoredOnceC16 is the main oracle on the current repository state.
func vStoredOnceC16(e *vEnv, dec *zstd.Decoder) (*vWalkC16, error) {
	var key *crypto.Key
	idx := map[restic.BlobHandle][]string{}
	if err := e.WithRepo(func(ctx context.Context, repo *repository.Repository) error {
		key = repo.Key()
		if err := repo.LoadIndex(ctx, restic.NoopTerminalCounterFactory); err != nil {
			return err
		}
		return repo.ListBlobs(ctx, func(pb restic.PackBlob) {
			idx[pb.Handle()] = append(idx[pb.Handle()], pb.PackID().String())
		})
	}); err != nil {
		return nil, err
	}
	packs := map[string][]byte{}
	for k, v := range e.store.Files() {
		if k.Type == backend.PackFile {
			packs[k.Name] = v
		}
	}
	w, err := vWalkPacksC16(key, dec, packs)
	if err != nil {
		return nil, err
	}
	var hs []restic.BlobHandle
	for h := range w.occ {
		hs = append(hs, h)
	}
	sort.Slice(hs, func(i, j int) bool { return hs[i].String() < hs[j].String() })
	for _, h := range hs {
		if n := len(w.occ[h]); n != 1 {
			return w, fmt.Errorf("blob %v is stored %d times (packs %v)", h, n, vShortC16(w.occ[h]))
		}
		if n := len(idx[h]); n != 1 {
			return w, fmt.Errorf("blob %v has %d index entries (packs %v), is stored in pack %v", h, n, vShortC16(idx[h]), vShortC16(w.occ[h]))
		}
		if idx[h][0] != w.occ[h][0] {
			return w, fmt.Errorf("blob %v: index points to pack %s, blob is in %s", h, idx[h][0][:8], w.occ[h][0][:8])
		}
	}
	for h := range idx {
		if len(w.occ[h]) == 0 {
			return w, fmt.Errorf("blob %v is in the index (packs %v) but in no pack", h, vShortC16(idx[h]))
		}
	}
	return w, nil
}

func vShortC16(ids []string) []string {
	out := make([]string, len(ids))
	for i, s := range ids {
		out[i] = s[:8]
	}
	return out
}

// vMaxRefsC16 returns the highest number of references to one blob from the stored trees (a lower
// bound for the number of times the archiver submitted that blob in a full backup).
func vMaxRefsC16(w *vWalkC16) (data, tree int) {
	type node struct {
		Content []string `json:"content"`
		Subtree string   `json:"subtree"`
	}
	dref, tref := map[string]int{}, map[string]int{}
	for _, js := range w.treeJSON {
		var tr struct {
			Nodes []node `json:"nodes"`
		}
		if json.Unmarshal(js, &tr) != nil {
			continue
		}
		for _, n := range tr.Nodes {
			for _, c := range n.Content {
				dref[c]++
			}
			if n.Subtree != "" {
				tref[n.Subtree]++
			}
		}
	}
	for _, n := range dref {
		data = max(data, n)
	}
	for _, n := range tref {
		tree = max(tree, n)
	}
	return
}

type vCaseC16 struct {
	Version     string   `json:"version"`
	Compression string   `json:"compression"`
	Pool        []string `json:"pool"`
	Files       int      `json:"files"`
	EmptyDirs   int      `json:"empty_dirs"`
	Twins       int      `json:"twin_dirs"`
	ReadConc    []uint   `json:"read_concurrency"`
	Steps       []string `json:"steps"`
}

func vBackupJSONC16(e *vEnv, target string, opts BackupOptions) (vSummaryC16, []vbe.Op, error) {
	g := e.gopts
	g.JSON = true
	g.Quiet = false
	e.store.StartRecording(vbe.NoFaults())
	out, err := e.BackupOut(context.Background(), g, []string{target}, opts)
	log := e.store.StopRecording()
	var sum vSummaryC16
	if err != nil {
		return sum, log, fmt.Errorf("backup: %v\n%s", err, out.Stderr)
	}
	found := false
	for _, line := range strings.Split(out.Stdout, "\n") {
		if !strings.Contains(line, `"message_type":"summary"`) {
			continue
		}
		if err := json.Unmarshal([]byte(line), &sum); err != nil {
			return sum, log, fmt.Errorf("summary line %q: %v", line, err)
		}
		found = true
	}
	if !found {
		return sum, log, fmt.Errorf("no summary in the JSON output:\n%s", out.Stdout)
	}
	return sum, log, nil
}

func vPacksWrittenC16(log []vbe.Op) map[string][]byte {
	m := map[string][]byte{}
	for _, op := range log {
		if op.Key.Type == backend.PackFile && !op.Remove {
			m[op.Key.Name] = op.Data
		}
	}
	return m
}

func vCopyTreeC16(src, dst string) error {
	return filepath.Walk(src, func(p string, fi os.FileInfo, err error) error {
		if err != nil {
			return err
		}
		rel, _ := filepath.Rel(src, p)
		to := filepath.Join(dst, rel)
		if fi.IsDir() {
			return os.MkdirAll(to, 0o755)
		}
		b, err := os.ReadFile(p)
		if err != nil {
			return err
		}
		return os.WriteFile(to, b, 0o644)
	})
}

func TestVerifC16StoredOnce(t *testing.T) {
	vSetup(t)
	st := verifkit.Begin(t, "C16")
	dec, err := zstd.NewReader(nil, zstd.WithDecoderConcurrency(1))
	if err != nil {
		t.Fatal(err)
	}
	defer dec.Close()
	const chunkMin = 512 * 1024

	rapid.Check(t, func(t *rapid.T) {
		c := vCaseC16{Version: rapid.SampledFrom([]string{"1", "2", "2"}).Draw(t, "version")}
		// compression level is irrelevant for the property; max/better only cost zstd table initialisation
		c.Compression = rapid.SampledFrom([]string{"off", "auto", "fastest"}).Draw(t, "compression")
		e, err := vNewEnv(true)
		if err != nil {
			t.Fatal(err)
		}
		defer e.Close()
		e.gopts.Compression = map[string]repository.CompressionMode{"off": repository.CompressionOff, "auto": repository.CompressionAuto, "fastest": repository.CompressionFastest}[c.Compression]
		if err := e.Init(c.Version); err != nil {
			t.Fatal(err)
		}

		// ---- content pool ----
		npool := rapid.IntRange(1, 4).Draw(t, "pool")
		pool := make([][]byte, npool)
		big := false
		for i := range pool {
			kind := rapid.SampledFrom([]string{"small", "small", "mid", "zeros", "repeated", "empty"}).Draw(t, "ckind")
			if (kind == "zeros" || kind == "repeated") && big {
				kind = "mid" // at most one multi-megabyte content per case
			}
			seed := rapid.Uint64().Draw(t, "cseed")
			switch kind {
			case "empty":
			case "small":
				pool[i] = vContent(&vNode{Seed: seed, Len: rapid.IntRange(1, 5000).Draw(t, "len")})
			case "mid":
				pool[i] = vContent(&vNode{Seed: seed, Len: rapid.IntRange(20000, 200000).Draw(t, "len")})
			case "zeros":
				big = true
				// all-zero chunks of the minimum chunk size are identical blobs
				pool[i] = make([]byte, rapid.IntRange(2, 10).Draw(t, "zchunks")*chunkMin+rapid.SampledFrom([]int{0, 0, 1, 4097}).Draw(t, "ztail"))
			case "repeated":
				big = true
				block := vContent(&vNode{Seed: seed, Len: rapid.IntRange(600, 1300).Draw(t, "blockKiB") * 1024})
				pool[i] = bytes.Repeat(block, rapid.IntRange(3, 5).Draw(t, "reps"))
			}
			c.Pool = append(c.Pool, fmt.Sprintf("%s:%d", kind, len(pool[i])))
		}

		// ---- tree ----
		// The snapshot also records the metadata of every ancestor directory of the source. restic creates
		// its temporary pack files in $TMPDIR, so a source below $TMPDIR would see an ancestor's mtime change
		// during the first backup: the source lives below the shard's run directory instead.
		base := os.Getenv("VERIF_RUNDIR")
		if base == "" {
			base = e.base
		}
		work, err := os.MkdirTemp(base, "c16-")
		if err != nil {
			t.Fatal(err)
		}
		defer os.RemoveAll(work)
		src := filepath.Join(work, "src")
		copies := filepath.Join(work, "copies")
		for _, d := range []string{src, copies} {
			if err := os.Mkdir(d, 0o755); err != nil {
				t.Fatal(err)
			}
		}
		dirs := []string{""}
		for i := 0; i < rapid.IntRange(0, 4).Draw(t, "ndirs"); i++ {
			parent := dirs[rapid.IntRange(0, len(dirs)-1).Draw(t, "dparent")]
			d := filepath.Join(parent, fmt.Sprintf("d%d", i))
			if err := os.Mkdir(filepath.Join(src, d), 0o755); err != nil {
				t.Fatal(err)
			}
			dirs = append(dirs, d)
		}
		c.Files = rapid.IntRange(3, 40).Draw(t, "files")
		var files []string
		for i := 0; i < c.Files; i++ {
			d := dirs[rapid.IntRange(0, len(dirs)-1).Draw(t, "fparent")]
			content := pool[rapid.IntRange(0, npool-1).Draw(t, "fcontent")]
			if len(content) > 4*chunkMin && i >= 12 {
				content = pool[0][:min(len(pool[0]), 4096)] // bound the bytes per case
			}
			p := filepath.Join(src, d, fmt.Sprintf("f%02d", i))
			if err := os.WriteFile(p, content, 0o644); err != nil {
				t.Fatal(err)
			}
			files = append(files, p)
		}
		c.EmptyDirs = rapid.SampledFrom([]int{0, 0, 3, 12, 25}).Draw(t, "emptydirs")
		for i := 0; i < c.EmptyDirs; i++ {
			d := dirs[rapid.IntRange(0, len(dirs)-1).Draw(t, "eparent")]
			if err := os.Mkdir(filepath.Join(src, d, fmt.Sprintf("empty%02d", i)), 0o755); err != nil {
				t.Fatal(err)
			}
		}
		// twin directories: same names, entries are hard links of each other -> identical tree blobs
		c.Twins = rapid.SampledFrom([]int{0, 0, 2, 3, 12}).Draw(t, "twins")
		if c.Twins > 0 {
			n := rapid.IntRange(1, 4).Draw(t, "twinfiles")
			for k := 0; k < c.Twins; k++ {
				d := filepath.Join(src, fmt.Sprintf("twin%02d", k))
				if err := os.Mkdir(d, 0o755); err != nil {
					t.Fatal(err)
				}
				for j := 0; j < n; j++ {
					p := filepath.Join(d, fmt.Sprintf("t%d", j))
					if k == 0 {
						content := pool[j%npool]
						if len(content) > chunkMin {
							content = content[:1000]
						}
						if err := os.WriteFile(p, content, 0o644); err != nil {
							t.Fatal(err)
						}
					} else if err := os.Link(filepath.Join(src, "twin00", fmt.Sprintf("t%d", j)), p); err != nil {
						t.Fatal(err)
					}
				}
			}
			// all twins get the same mtime only matters for their parent; their own tree blob does not contain it
		}

		rc := func() uint {
			n := uint(rapid.IntRange(1, 8).Draw(t, "readconc"))
			c.ReadConc = append(c.ReadConc, n)
			return n
		}

		// ---- first backup ----
		chain0 := vChainSigC16(src)
		sum1, log1, err := vBackupJSONC16(e, src, BackupOptions{ReadConcurrency: rc()})
		if err != nil {
			t.Fatal(err)
		}
		w, err := vStoredOnceC16(e, dec)
		if err != nil {
			t.Fatalf("after the first backup: %v\ncase %s", err, vJSON(c))
		}
		nd, nt := 0, 0
		for h := range w.occ {
			if h.Type == restic.DataBlob {
				nd++
			} else {
				nt++
			}
		}
		// the repository was empty: what the summary calls new is what the packs hold
		if sum1.DataBlobs != nd || sum1.TreeBlobs != nt {
			t.Fatalf("first backup reports %d new data and %d new tree blobs, the packs hold %d distinct data and %d distinct tree blobs\ncase %s",
				sum1.DataBlobs, sum1.TreeBlobs, nd, nt, vJSON(c))
		}
		dataRefs, treeRefs := vMaxRefsC16(w)
		_ = log1

		// ---- repeated backups ----
		nsteps := rapid.IntRange(2, 4).Draw(t, "nsteps")
		for i := 0; i < nsteps; i++ {
			step := rapid.SampledFrom([]string{"parent", "force", "force", "touch", "copy"}).Draw(t, "step")
			if i == 0 {
				step = rapid.SampledFrom([]string{"parent", "force"}).Draw(t, "step0")
			}
			c.Steps = append(c.Steps, step)
			bo := BackupOptions{ReadConcurrency: rc()}
			target := src
			wantTree0 := true
			switch step {
			case "force":
				bo.Force = true
			case "touch":
				// metadata only: new mtime on some files, contents untouched
				for j, p := range files {
					if j%3 == i%3 {
						ts := time.Unix(1600000000+int64(i*1000+j), 0)
						if err := os.Chtimes(p, ts, ts); err != nil {
							t.Fatal(err)
						}
					}
				}
				wantTree0 = false
			case "copy":
				// byte-identical copy at another path (new inodes, new names of the parents)
				target = filepath.Join(copies, fmt.Sprintf("copy-%d", i))
				if err := vCopyTreeC16(src, target); err != nil {
					t.Fatal(err)
				}
				bo.Force = rapid.Bool().Draw(t, "copyforce")
				wantTree0 = false
			}
			sum, log, err := vBackupJSONC16(e, target, bo)
			if err != nil {
				t.Fatal(err)
			}
			st.Evals(1)
			if wantTree0 && vChainSigC16(src) != chain0 {
				// somebody else (another check running on this machine) changed a directory above the source
				// between the backups: its tree blob legitimately differs
				wantTree0 = false
				st.Class("ancestor-dir-changed-by-others")
			}
			if sum.DataBlobs != 0 || (wantTree0 && sum.DataAdded != 0) {
				t.Fatalf("backup %d (%s) of unchanged content reports data_blobs=%d tree_blobs=%d data_added=%d\ncase %s", i+2, step, sum.DataBlobs, sum.TreeBlobs, sum.DataAdded, vJSON(c))
			}
			if wantTree0 && sum.TreeBlobs != 0 {
				t.Fatalf("backup %d (%s) of the unchanged source reports tree_blobs=%d\ncase %s", i+2, step, sum.TreeBlobs, vJSON(c))
			}
			written := vPacksWrittenC16(log)
			if wantTree0 && len(written) != 0 {
				t.Fatalf("backup %d (%s) of the unchanged source wrote %d pack files\ncase %s", i+2, step, len(written), vJSON(c))
			}
			if len(written) > 0 {
				var key *crypto.Key
				if err := e.WithRepo(func(ctx context.Context, repo *repository.Repository) error { key = repo.Key(); return nil }); err != nil {
					t.Fatal(err)
				}
				ww, err := vWalkPacksC16(key, dec, written)
				if err != nil {
					t.Fatal(err)
				}
				for h, ps := range ww.occ {
					if h.Type == restic.DataBlob {
						t.Fatalf("backup %d (%s) of unchanged content wrote data blob %v (pack %v)\ncase %s", i+2, step, h, vShortC16(ps), vJSON(c))
					}
				}
			}
			if step == "parent" && (sum.FilesNew != 0 || sum.FilesChanged != 0) {
				t.Fatalf("backup %d with parent of the unchanged source: files_new=%d files_changed=%d", i+2, sum.FilesNew, sum.FilesChanged)
			}
		}
		if _, err := vStoredOnceC16(e, dec); err != nil {
			t.Fatalf("after the repeated backups %v: %v\ncase %s", c.Steps, err, vJSON(c))
		}

		dups := max(dataRefs, treeRefs) - 1
		key := ""
		if dups >= 10 {
			key = vJSON(c)
		}
		classes := []string{"part=cli", "version=" + c.Version, "compression=" + c.Compression, "cli-dups-of-one-blob=" + vBucketC16cli(dups),
			"data-dups=" + vBucketC16cli(dataRefs-1), "tree-dups=" + vBucketC16cli(treeRefs-1), fmt.Sprintf("twins=%v", c.Twins > 0)}
		seen := map[string]bool{}
		for _, s := range c.Steps {
			if !seen[s] {
				seen[s] = true
				classes = append(classes, "step="+s)
			}
		}
		for _, p := range c.Pool {
			k := "content=" + strings.SplitN(p, ":", 2)[0]
			if !seen[k] {
				seen[k] = true
				classes = append(classes, k)
			}
		}
		for _, n := range c.ReadConc[:1] {
			classes = append(classes, fmt.Sprintf("readconc=%d", n))
		}
		st.Case(key, classes...)
		if st.WantSample() {
			st.Sample(map[string]any{"case": c, "distinct_data_blobs": nd, "distinct_tree_blobs": nt, "max_refs_to_one_data_blob": dataRefs, "max_refs_to_one_tree_blob": treeRefs})
		}
	})
}

// vChainSigC16 describes the metadata of path and of all its ancestors (what the snapshot records for them).
func vChainSigC16(path string) string {
	var sb strings.Builder
	for p := path; ; p = filepath.Dir(p) {
		var st syscall.Stat_t
		if err := syscall.Lstat(p, &st); err != nil {
			fmt.Fprintf(&sb, "%s:%v;", p, err)
		} else {
			fmt.Fprintf(&sb, "%s:%d.%d:%d.%d:%o:%d:%d:%d;", p, st.Mtim.Sec, st.Mtim.Nsec, st.Ctim.Sec, st.Ctim.Nsec, st.Mode, st.Uid, st.Gid, st.Ino)
		}
		if p == "/" || p == "." {
			break
		}
	}
	return sb.String()
}

func vBucketC16cli(n int) string {
	switch {
	case n < 1:
		return "0"
	case n < 10:
		return "1-9"
	case n < 30:
		return "10-29"
	default:
		return ">=30"
	}
}

